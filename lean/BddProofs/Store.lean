import BddProofs.Sem
import BddProofs.Refine
import BddProofs.LiveCountT
import BddModel.Bdd
/-! The manager state as the operation proofs see it: the node view `St.nodes`, the invariant
`Good`, the cache lemmas (a lookup returns only what was inserted under that very key) and
`put_spec` for the real hash-consing store. -/
namespace P
open Arr S

@[simp] theorem Ref.not_not (r : Ref) : r.not.not = r := by cases r; simp [Ref.not]
@[simp] theorem Ref.not_idx (r : Ref) : r.not.idx = r.idx := rfl

def Valid (nd : Nodes) (r : Ref) (φ : Fn) : Prop := ∃ d, Den nd d r φ

theorem Den.det {nd} (h1 : nd 1 = none) {d r φ} (h : Den nd d r φ) : ∀ {d' ψ}, Den nd d' r ψ → φ = ψ := by
  induction h with
  | one =>
    intro d' ψ h'
    cases h' with
    | one => rfl
    | node hn => rw [h1] at hn; cases hn
  | @node i n d0 d1 φ0 φ1 hn _ _ ih0 ih1 =>
    intro d' ψ h'
    cases h' with
    | one => rw [h1] at hn; cases hn
    | @node _ n' _ _ _ _ hn' h0' h1' =>
      have : n = n' := by rw [hn] at hn'; exact Option.some.inj hn'
      subst this
      rw [ih0 h0', ih1 h1']
  | neg _ ih =>
    intro d' ψ h'
    cases h' with
    | neg h'' => rw [ih h'']

theorem Valid.det {nd} (h1 : nd 1 = none) {r φ ψ} (a : Valid nd r φ) (b : Valid nd r ψ) : φ = ψ := by
  obtain ⟨_, a⟩ := a; obtain ⟨_, b⟩ := b; exact a.det h1 b

def Sub (nd nd' : Nodes) : Prop := ∀ i n, nd i = some n → nd' i = some n

theorem Sub.refl (nd : Nodes) : Sub nd nd := fun _ _ h => h
theorem Sub.trans {a b c : Nodes} (h1 : Sub a b) (h2 : Sub b c) : Sub a c := fun i n h => h2 i n (h1 i n h)

theorem Den.mono {nd nd'} (hs : Sub nd nd') {d r φ} (h : Den nd d r φ) : Den nd' d r φ := by
  induction h with
  | one => exact .one
  | node hn _ _ ih0 ih1 => exact .node (hs _ _ hn) ih0 ih1
  | neg _ ih => exact .neg ih

theorem Valid.mono {nd nd'} (hs : Sub nd nd') {r φ} (h : Valid nd r φ) : Valid nd' r φ := by
  obtain ⟨d, h⟩ := h; exact ⟨d, h.mono hs⟩

theorem TopGe.mono {nd nd'} (hs : Sub nd nd') {r v} (h : TopGe nd r v) : TopGe nd' r v := by
  rcases h with h | ⟨n, hn, hv⟩
  · exact Or.inl h
  · exact Or.inr ⟨n, hs _ _ hn, hv⟩

theorem TopGe.le {nd r v w} (h : TopGe nd r v) (hw : w ≤ v) : TopGe nd r w := by
  rcases h with h | ⟨n, hn, hv⟩
  · exact Or.inl h
  · exact Or.inr ⟨n, hn, Nat.le_trans hw hv⟩

theorem TopGe.not {nd r v} (h : TopGe nd r v) : TopGe nd r.not v := h

theorem Valid.one {nd} : Valid nd Ref.one (fun _ => true) := ⟨0, .one⟩
theorem Valid.zero {nd} : Valid nd Ref.zero (fun _ => false) :=
  ⟨0, by simpa [Ref.zero] using Den.neg (Den.one (nd := nd))⟩

theorem Valid.not {nd r φ} (h : Valid nd r φ) : Valid nd r.not (fun e => !φ e) := by
  obtain ⟨d, h⟩ := h
  rcases r with ⟨i, b⟩
  cases b with
  | false => exact ⟨d, .neg h⟩
  | true =>
    obtain ⟨ψ, hψ, rfl⟩ := h.negInv
    refine ⟨d, ?_⟩
    simpa [Ref.not] using hψ

theorem valid_stored {nd} {r φ} (h : Valid nd r φ) : r.idx = 1 ∨ ∃ n, nd r.idx = some n := by
  obtain ⟨d, h⟩ := h
  cases h with
  | one => exact Or.inl rfl
  | node hn => exact Or.inr ⟨_, hn⟩
  | neg h' =>
    cases h' with
    | one => exact Or.inl rfl
    | node hn => exact Or.inr ⟨_, hn⟩

/-! ## the node view of the real store -/

/-- occupied cells with index ≥ 2, read as nodes -/
def St.nodes (s : St) : Nodes :=
  fun i => if 2 ≤ i ∧ rd s.storage.occs i = true then some (rd s.storage.vals i) else none

/-- number of cells (what the spikes called `next`: every node index is below it) -/
def St.next (s : St) : Nat := s.storage.vals.size

theorem St.nodes_some {s : St} {i n} (h : s.nodes i = some n) :
    2 ≤ i ∧ rd s.storage.occs i = true ∧ rd s.storage.vals i = n := by
  unfold St.nodes at h
  split at h
  · rename_i c; exact ⟨c.1, c.2, Option.some.inj h⟩
  · cases h

theorem St.nodes_of {s : St} {i} (h2 : 2 ≤ i) (ho : rd s.storage.occs i = true) :
    s.nodes i = some (rd s.storage.vals i) := by
  unfold St.nodes; rw [if_pos ⟨h2, ho⟩]

theorem St.nodes_one (s : St) : s.nodes 1 = none := by
  unfold St.nodes; rw [if_neg (by omega)]

theorem St.node_of_nodes {s : St} {i n} (h : s.nodes i = some n) : s.node i = n := (St.nodes_some h).2.2

theorem St.var_of {s : St} {r : Ref} {n} (h : s.nodes r.idx = some n) : s.var r = n.var := by
  simp [St.var, St.node_of_nodes h]
theorem St.low_of {s : St} {i n} (h : s.nodes i = some n) : s.low i = n.low := by
  simp [St.low, St.node_of_nodes h]
theorem St.high_of {s : St} {i n} (h : s.nodes i = some n) : s.high i = n.high := by
  simp [St.high, St.node_of_nodes h]

theorem var_not (s : St) (r : Ref) : s.var r.not = s.var r := rfl

/-! ## cache lemmas (the single-key property of C18) -/

section cache
variable {κ ν : Type} [DecidableEq κ] [MyHash κ]

theorem Cache.get_snd (c : Cache κ ν) (k : κ) : (c.get k).2 = c.lookup k := by
  unfold Cache.get Cache.lookup
  cases rd c.data (c.index k) with
  | none => rfl
  | some p =>
    obtain ⟨k', v⟩ := p
    simp only
    split <;> rfl

theorem Cache.get_fst_data (c : Cache κ ν) (k : κ) : (c.get k).1.data = c.data ∧ (c.get k).1.bitmask = c.bitmask := by
  unfold Cache.get
  cases rd c.data (c.index k) with
  | none => exact ⟨rfl, rfl⟩
  | some p =>
    obtain ⟨k', v⟩ := p
    simp only
    split <;> exact ⟨rfl, rfl⟩

theorem Cache.lookup_congr {c c' : Cache κ ν} (h : c'.data = c.data ∧ c'.bitmask = c.bitmask) (k : κ) :
    c'.lookup k = c.lookup k := by
  unfold Cache.lookup Cache.index
  rw [h.1, h.2]

theorem Cache.get_fst_lookup (c : Cache κ ν) (k k' : κ) : (c.get k).1.lookup k' = c.lookup k' :=
  Cache.lookup_congr (c.get_fst_data k) k'

/-- a lookup after an insert returns the inserted value only under the inserted key; anything
else it returns was already there -/
theorem Cache.lookup_insert (c : Cache κ ν) (k : κ) (v : ν) (k' : κ) {v' : ν}
    (h : (c.insert k v).lookup k' = some v') : (k' = k ∧ v' = v) ∨ c.lookup k' = some v' := by
  unfold Cache.lookup at h ⊢
  have hidx : (c.insert k v).index k' = c.index k' := rfl
  rw [hidx] at h
  simp only [Cache.insert] at h
  rw [rd_wr] at h
  by_cases hc : c.index k = c.index k' ∧ c.index k < c.data.size
  · rw [if_pos hc] at h
    simp only at h
    by_cases e : k = k'
    · rw [if_pos e] at h
      exact Or.inl ⟨e.symm, (Option.some.inj h).symm⟩
    · rw [if_neg e] at h; cases h
  · rw [if_neg hc] at h
    exact Or.inr h

theorem Cache.lookup_clear (c : Cache κ ν) (k : κ) : c.clear.lookup k = none := by
  unfold Cache.lookup Cache.clear
  simp only
  have : ∀ n i, rd (Array.replicate n (none : Option (κ × ν))) i = none := by
    intro n i; rw [rd_replicate]; split <;> rfl
  rw [this]

theorem Cache.lookup_new (bits : Nat) (k : κ) : (Cache.new bits : Cache κ ν).lookup k = none := by
  unfold Cache.lookup Cache.new
  simp only
  have : ∀ n i, rd (Array.replicate n (none : Option (κ × ν))) i = none := by
    intro n i; rw [rd_replicate]; split <;> rfl
  rw [this]

end cache

/-! ## what a cache entry asserts -/

def Fact (nd : Nodes) : OpKey → Ref → Prop
  | .ite f g h, r => ∃ φf φg φh, Valid nd f φf ∧ Valid nd g φg ∧ Valid nd h φh ∧ Valid nd r (ITE φf φg φh)
  | .constrain f g, r => ∃ φf φg h, Valid nd f φf ∧ Valid nd g φg ∧ Valid nd r h ∧ ConstrainSpec φf φg h
  | .restrict f g, r => ∃ φf φg h, Valid nd f φf ∧ Valid nd g φg ∧ Valid nd r h ∧ RestrictRel φf φg h

theorem Fact.mono {nd nd'} (hs : Sub nd nd') {k r} (h : Fact nd k r) : Fact nd' k r := by
  cases k with
  | ite f g h' => obtain ⟨a, b, c, x, y, z, w⟩ := h; exact ⟨a, b, c, x.mono hs, y.mono hs, z.mono hs, w.mono hs⟩
  | constrain f g => obtain ⟨a, b, c, x, y, z, w⟩ := h; exact ⟨a, b, c, x.mono hs, y.mono hs, z.mono hs, w⟩
  | restrict f g => obtain ⟨a, b, c, x, y, z, w⟩ := h; exact ⟨a, b, c, x.mono hs, y.mono hs, z.mono hs, w⟩

/-! ## good states -/

structure Good (s : St) : Prop where
  wf : s.storage.Wf
  tinv : ∃ chains, TInv s.storage.bhash s.storage.toTab chains
  inv : NInv s.nodes
  var0 : ∀ i n, s.nodes i = some n → n.var ≠ 0
  cache : ∀ k r, s.cache.lookup k = some r → Fact s.nodes k r
  /-- cell 1 (the terminal) holds the default node: the code reads variable 0 for a terminal handle -/
  term1 : (s.node 1).var = 0
  /-- the live count is exact: `real_size` = number of occupied cells `≥ 1` -/
  rs : RS s.storage

theorem Good.bnd {s : St} (_hg : Good s) : ∀ i n, s.nodes i = some n → 2 ≤ i ∧ i < s.next := by
  intro i n h
  obtain ⟨h2, ho, _⟩ := St.nodes_some h
  refine ⟨h2, ?_⟩
  -- an out-of-range read of the occupancy array gives `false`
  apply Classical.byContradiction
  intro hge
  have : rd s.storage.occs i = false := by
    simp only [rd, Array.getD_eq_getD_getElem?]
    have : s.storage.occs.size ≤ i := by rw [_hg.wf.occs]; simp only [St.next] at hge; omega
    simp [this]
  rw [this] at ho; cases ho

theorem Good.next2 {s : St} (hg : Good s) : 2 ≤ s.next := by
  obtain ⟨ch, hI⟩ := hg.tinv
  have a := hI.lastLt
  have b := hI.lastGe
  show 2 ≤ s.storage.vals.size
  have : s.storage.toTab.cap = s.storage.vals.size := rfl
  omega

theorem Good.noterm {s : St} (_hg : Good s) : s.nodes 1 = none := St.nodes_one s

/-- the variable read for a terminal handle is 0 -/
theorem Good.var_terminal {s : St} (hg : Good s) {r : Ref} (h : r.idx = 1) : s.var r = 0 := by
  unfold St.var; rw [h]; exact hg.term1

/-! ### cache get / insert on the state -/

theorem St.cacheGet_storage (s : St) (k : OpKey) : (s.cacheGet k).1.storage = s.storage := rfl
theorem St.cacheGet_nodes (s : St) (k : OpKey) : (s.cacheGet k).1.nodes = s.nodes := rfl
theorem St.cacheGet_var (s : St) (k : OpKey) (r : Ref) : (s.cacheGet k).1.var r = s.var r := rfl
theorem St.cacheGet_snd (s : St) (k : OpKey) : (s.cacheGet k).2 = s.cache.lookup k := Cache.get_snd _ _
theorem St.cacheGet_lookup (s : St) (k k' : OpKey) : (s.cacheGet k).1.cache.lookup k' = s.cache.lookup k' :=
  Cache.get_fst_lookup _ _ _

theorem Good.cacheGet {s : St} (hg : Good s) (k : OpKey) : Good (s.cacheGet k).1 :=
  ⟨hg.wf, hg.tinv, hg.inv, hg.var0, fun k' r h => hg.cache k' r (by rw [St.cacheGet_lookup] at h; exact h), hg.term1, hg.rs⟩

theorem Good.cacheHit {s : St} (hg : Good s) {k r} (h : (s.cacheGet k).2 = some r) : Fact s.nodes k r :=
  hg.cache k r (by rw [St.cacheGet_snd] at h; exact h)

theorem St.cacheInsert_nodes (s : St) (k : OpKey) (r : Ref) : (s.cacheInsert k r).nodes = s.nodes := rfl

theorem Good.cacheInsert {s : St} (hg : Good s) {k r} (hf : Fact s.nodes k r) : Good (s.cacheInsert k r) := by
  refine ⟨hg.wf, hg.tinv, hg.inv, hg.var0, ?_, hg.term1, hg.rs⟩
  intro k2 r2 hc
  rcases Cache.lookup_insert s.cache k r k2 hc with ⟨rfl, rfl⟩ | h
  · exact hf
  · exact hg.cache _ _ h

/-! ### `put` on the state -/

theorem put_spec {s : St} (hg : Good s) (n : Node) {s' i} (h : s.put n = .ok (s', i)) :
    s'.nodes i = some n ∧ Sub s.nodes s'.nodes ∧ s'.cache = s.cache ∧ s'.sizeCache = s.sizeCache ∧
    (∀ j m, s'.nodes j = some m → s.nodes j = some m ∨ (j = i ∧ m = n)) ∧
    2 ≤ i ∧ s'.next = s.next ∧
    (s.nodes i = some n ∨ ∀ j, s.nodes j ≠ some n) ∧
    s'.storage.Wf ∧ (∃ chains, TInv s'.storage.bhash s'.storage.toTab chains) ∧ s'.node 1 = s.node 1 ∧
    RS s'.storage := by
  unfold St.put at h
  cases hp : s.storage.put n with
  | error e => rw [hp] at h; cases h
  | ok p =>
    obtain ⟨t, k⟩ := p
    rw [hp] at h
    simp only [Except.ok.injEq, Prod.mk.injEq] at h
    obtain ⟨rfl, rfl⟩ := h
    obtain ⟨ch, hI⟩ := hg.tinv
    have hrs' : RS t := Table.put_RS hg.wf hI hg.rs hp
    obtain ⟨hw', _, hsz, _, hcase⟩ := Table.put_spec hg.wf hI hp
    rcases hcase with ⟨h2, ho, hv, rfl⟩ | ⟨hnone, h2, hfree, hocc, hval, hI'⟩
    · have hn : s.nodes k = some n := by rw [St.nodes_of h2 ho, hv]
      exact ⟨hn, Sub.refl _, rfl, rfl, fun j m hj => Or.inl hj, h2, rfl, Or.inl hn, hg.wf, ⟨ch, hI⟩, rfl, hrs'⟩
    · have hnodes : ∀ j, (St.nodes { s with storage := t }) j =
          if j = k then some n else s.nodes j := by
        intro j
        simp only [St.nodes]
        rw [hocc, hval]
        by_cases e : j = k
        · subst e; simp [h2]
        · simp [e]
      have hnode1 : St.node { s with storage := t } 1 = s.node 1 := by
        show rd t.vals 1 = rd s.storage.vals 1
        rw [hval]; simp only; rw [if_neg (by omega)]
      refine ⟨by rw [hnodes]; simp, ?_, rfl, rfl, ?_, h2, by simp [St.next, hsz], ?_, hw', hI', hnode1, hrs'⟩
      · intro j m hj
        have hjk : j ≠ k := by
          intro e; subst e
          have := (St.nodes_some hj).2.1
          rw [this] at hfree; cases hfree
        rw [hnodes, if_neg hjk]; exact hj
      · intro j m hj
        rw [hnodes] at hj
        by_cases e : j = k
        · rw [if_pos e] at hj; exact Or.inr ⟨e, (Option.some.inj hj).symm⟩
        · rw [if_neg e] at hj; exact Or.inl hj
      · right
        intro j hj
        obtain ⟨a, b, c⟩ := St.nodes_some hj
        exact hnone j a b c

/-- `put` fails only with "Storage is full", and then the state is untouched -/
theorem put_full {s : St} (hg : Good s) (n : Node) {e s'} (h : s.put n = .error (e, s')) :
    e = .storageFull ∧ s' = s := by
  unfold St.put at h
  cases hp : s.storage.put n with
  | ok p => obtain ⟨t, k⟩ := p; rw [hp] at h; cases h
  | error e' =>
    rw [hp] at h
    simp only [Except.error.injEq, Prod.mk.injEq] at h
    obtain ⟨rfl, rfl⟩ := h
    obtain ⟨ch, hI⟩ := hg.tinv
    exact ⟨Table.put_full hg.wf hI hp, rfl⟩

end P

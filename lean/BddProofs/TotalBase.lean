import BddProofs.IteTotal
import BddProofs.Paths
/-! Shared vocabulary for the totality proofs (`Total1`, `Total2`, …): the generic outcome predicate
`TotOut`, its unfolding into the "returns or Storage-is-full, never anything else" form, level
lemmas (`lv` of children, of handles with a support bound, across store extension) and the uniform
bound on the `apply_ite` measure `mu`. -/
namespace P
open Arr

/-- the outcome of a total call whose value has any shape `St × α`: a result (variables still
bounded), or "Storage is full" -/
def TotOut {α : Type} (V : Nat) (x : Res (St × α)) : Prop :=
  (∃ s' r, x = .ok (s', r) ∧ VarsLe s' V) ∨ (∃ s', x = .error (.storageFull, s'))

/-- what `TotOut` says, spelled out -/
def TotalSpec {α : Type} (V : Nat) (x : Res (St × α)) : Prop :=
  ((∃ s' r, x = .ok (s', r)) ∨ (∃ s', x = .error (.storageFull, s'))) ∧
  (∀ s' r, x = .ok (s', r) → VarsLe s' V) ∧
  (∀ e s', x = .error (e, s') → e = .storageFull)

theorem TotOut.spec {α : Type} {V : Nat} {x : Res (St × α)} (h : TotOut V x) : TotalSpec V x := by
  rcases h with ⟨s1, r1, e1, hV1⟩ | ⟨s1, e1⟩
  · refine ⟨Or.inl ⟨s1, r1, e1⟩, ?_, ?_⟩
    · intro s' r e; rw [e1] at e
      simp only [Except.ok.injEq, Prod.mk.injEq] at e
      rw [← e.1]; exact hV1
    · intro e s' he; rw [e1] at he; cases he
  · refine ⟨Or.inr ⟨s1, e1⟩, ?_, ?_⟩
    · intro s' r e; rw [e1] at e; cases e
    · intro e s' he; rw [e1] at he
      simp only [Except.error.injEq, Prod.mk.injEq] at he
      exact he.1.symm

theorem TotalOut.tot {V : Nat} {x : Res (St × Ref)} (h : TotalOut V x) : TotOut V x := h
theorem TotOut.ok {α : Type} {V : Nat} {s : St} (hV : VarsLe s V) (r : α) : TotOut V (.ok (s, r) : Res (St × α)) :=
  Or.inl ⟨s, r, rfl, hV⟩
theorem TotOut.full {α : Type} {V : Nat} (s : St) : TotOut V (.error (.storageFull, s) : Res (St × α)) :=
  Or.inr ⟨s, rfl⟩

/-! ### levels -/

theorem lv_le (s : St) (V : Nat) (r : Ref) : lv s V r ≤ V + 1 := by
  unfold lv; split <;> omega

theorem lv_eq {s : St} {V : Nat} {r : Ref} (h : s.var r ≠ 0) : lv s V r = V + 1 - s.var r := by
  unfold lv; rw [if_neg h]

theorem lv_terminal {s : St} (hg : Good s) (V : Nat) {r : Ref} (h : isTerminal r = true) : lv s V r = 0 := by
  unfold lv; rw [if_pos (var_terminal hg h)]

/-- levels only depend on the stored node, so they survive store extension -/
theorem lv_mono {s s' : St} (hg : Good s) (hg' : Good s') (hs : Sub s.nodes s'.nodes) (V : Nat) {r φ}
    (v : Valid s.nodes r φ) : lv s' V r = lv s V r := by
  simp only [lv, var_mono hg hg' hs v]

/-- a handle whose top variable is at least `m` has level at most `V + 1 - m` -/
theorem lv_le_of_topGe {s : St} (hg : Good s) (V : Nat) {c : Ref} {m : Nat} (h : TopGe s.nodes c m) :
    lv s V c ≤ V + 1 - m := by
  rcases h with e | ⟨n, hn, hle⟩
  · have : s.var c = 0 := hg.var_terminal e
    simp only [lv, this, ↓reduceIte]; omega
  · have hvc : s.var c = n.var := St.var_of hn
    simp only [lv, hvc]; split <;> omega

/-- … in particular a handle whose function ignores the variables below `m` -/
theorem lv_le_of_supp {s : St} (hg : Good s) (V : Nat) {c : Ref} {φ : Fn} {m : Nat} (v : Valid s.nodes c φ)
    (h : SuppGe φ m) : lv s V c ≤ V + 1 - m :=
  lv_le_of_topGe hg V (topGe_of_supp hg.inv v h)

/-- the two accessors of a live non-terminal handle are live, lie strictly below it, and their
functions ignore its variable -/
theorem children_total {s : St} (hg : Good s) {V : Nat} (hV : VarsLe s V) {r : Ref} {φ : Fn} (v : Valid s.nodes r φ)
    (hnt : isTerminal r = false) :
    1 ≤ s.var r ∧ s.var r ≤ V ∧ ∃ φ0 φ1, Valid s.nodes (s.lowNode r) φ0 ∧ Valid s.nodes (s.highNode r) φ1 ∧
      SuppGe φ0 (s.var r + 1) ∧ SuppGe φ1 (s.var r + 1) ∧
      lv s V (s.lowNode r) < lv s V r ∧ lv s V (s.highNode r) < lv s V r := by
  obtain ⟨d, hden⟩ := v
  obtain ⟨hv0, d0, d1, φ0, φ1, _, _, vlo, vhi, _, s0, s1⟩ := hden.split hg hnt
  have hb := var_bounds hg hV ⟨d, hden⟩ hnt
  have l0 := lv_le_of_supp hg V ⟨d0, vlo⟩ s0
  have l1 := lv_le_of_supp hg V ⟨d1, vhi⟩ s1
  have hl : lv s V r = V + 1 - s.var r := lv_eq hv0
  exact ⟨hb.1, hb.2, φ0, φ1, ⟨d0, vlo⟩, ⟨d1, vhi⟩, s0, s1, by omega, by omega⟩

/-! ### the uniform bound on the `apply_ite` measure -/

/-- any three live handles have measure at most `3·(V+1)·(V+2) + V` -/
theorem mu_le {s : St} (hg : Good s) {V : Nat} (hV : VarsLe s V) {f g h : Ref} {φf : Fn}
    (vf : Valid s.nodes f φf) : mu s V f g h ≤ 3 * (V + 1) * (V + 2) + V := by
  have a := lv_le s V f; have b := lv_le s V g; have c := lv_le s V h
  have hvf := var_le hg hV vf
  have : (lv s V f + lv s V g + lv s V h) * (V + 2) ≤ (3 * (V + 1)) * (V + 2) :=
    Nat.mul_le_mul_right _ (by omega)
  unfold mu; omega

/-- the uniform fuel bound: enough for `apply_ite` on any live triple over variables `≤ V` -/
def iteFuel (V : Nat) : Nat := 3 * (V + 1) * (V + 2) + V

theorem applyIte_total_unif {V fuel : Nat} {s : St} {f g h : Ref} {φf φg φh : Fn} (hg : Good s) (hV : VarsLe s V)
    (vf : Valid s.nodes f φf) (vg : Valid s.nodes g φg) (vh : Valid s.nodes h φh)
    (hfuel : iteFuel V < fuel) : TotOut V (applyIte fuel s f g h) :=
  applyIte_total V fuel s f g h φf φg φh hg hV vf vg vh
    (Nat.lt_of_le_of_lt (mu_le hg hV vf) hfuel)

/-! ### bookkeeping states -/

theorem VarsLe.cacheInsert {s : St} {V : Nat} (h : VarsLe s V) (k : OpKey) (r : Ref) : VarsLe (s.cacheInsert k r) V :=
  fun i n hn => h i n hn
theorem VarsLe.cacheGet {s : St} {V : Nat} (h : VarsLe s V) (k : OpKey) : VarsLe (s.cacheGet k).1 V :=
  fun i n hn => h i n hn

/-- `mk_node` on a non-zero variable `≤ V`: a result with the bound kept, or "Storage is full" -/
theorem mkNode_tot {s : St} (hg : Good s) {V v : Nat} (hV : VarsLe s V) (hv : v ≠ 0) (hvV : v ≤ V) (low high : Ref) :
    TotOut V (mkNode s v low high) := by
  rcases mkNode_total hg hv low high with ⟨s3, res, e3⟩ | e3
  · exact Or.inl ⟨s3, res, e3, mkNode_varsLe hg hV hvV e3⟩
  · exact Or.inr ⟨s, e3⟩

#print axioms TotOut.spec
#print axioms children_total
#print axioms mu_le
#print axioms applyIte_total_unif
end P

import BddProofs.TotalBase
import BddProofs.Count
import BddProofs.PathsIter
/-! Totality of the pure queries (`BddModel/Query.lean`): with enough fuel `satCountRec`/`satCount`
never fail (no out-of-fuel, no assertion) and the explicit-stack iterator `pathsIter`/`paths` never
runs out of fuel.  Fuel is measured by the `Den` depth `d` of the handle, and, for a store whose
variables are `≤ V`, by the level `lv s V r ≤ V + 1` (`den_depth_le_lv`). -/
namespace P
open Arr

/-! ### depth versus level -/

/-- the stored node of a live non-terminal handle, with the exact depths of its raw children -/
theorem Den.raw {s : St} {d r φ} (h : Den s.nodes d r φ) (hnt : isTerminal r = false) :
    ∃ n d0 d1 φ0 φ1, s.nodes r.idx = some n ∧ Den s.nodes d0 n.low φ0 ∧ Den s.nodes d1 n.high φ1 ∧
      d = max d0 d1 + 1 := by
  rcases r with ⟨i, b⟩
  have key : ∀ ψ, Den s.nodes d ⟨i, false⟩ ψ → ∃ n d0 d1 φ0 φ1, s.nodes i = some n ∧
      Den s.nodes d0 n.low φ0 ∧ Den s.nodes d1 n.high φ1 ∧ d = max d0 d1 + 1 := by
    intro ψ hψ
    rcases hψ.regInv with ⟨e1, -, -⟩ | ⟨n, d0, d1, φ0, φ1, hn, h0, h1', hd, -⟩
    · subst e1; cases b <;> simp [isTerminal, isOne, isZero, Ref.one, Ref.zero] at hnt
    · exact ⟨n, d0, d1, φ0, φ1, hn, h0, h1', hd⟩
  cases b with
  | false => exact key φ h
  | true =>
    obtain ⟨ψ, hψ, _⟩ := h.negInv
    exact key ψ hψ

/-- the depth of a live handle is at most its level -/
theorem den_depth_le_lv {s : St} (hg : Good s) {V : Nat} (hV : VarsLe s V) {d r φ} (h : Den s.nodes d r φ) :
    d ≤ lv s V r := by
  induction h with
  | one => exact Nat.zero_le _
  | @node i n d0 d1 φ0 φ1 hn _ _ ih0 ih1 =>
    have hvar : s.var ⟨i, false⟩ = n.var := St.var_of (r := ⟨i, false⟩) hn
    have hv0 : n.var ≠ 0 := hg.var0 _ _ hn
    have hvV : n.var ≤ V := hV _ _ hn
    have hl : lv s V ⟨i, false⟩ = V + 1 - n.var := by rw [lv_eq (by rw [hvar]; exact hv0), hvar]
    have l0 := lv_le_of_topGe hg V (hg.inv.ordLow _ _ hn)
    have l1 := lv_le_of_topGe hg V (hg.inv.ordHigh _ _ hn)
    rw [hl]
    have hm : max d0 d1 ≤ V - n.var := Nat.max_le.mpr ⟨by omega, by omega⟩
    omega
  | neg _ ih => exact ih

theorem den_depth_le {s : St} (hg : Good s) {V : Nat} (hV : VarsLe s V) {d r φ} (h : Den s.nodes d r φ) :
    d ≤ V + 1 :=
  Nat.le_trans (den_depth_le_lv hg hV h) (lv_le s V r)

/-- a live handle has a derivation whose depth is at most its level -/
theorem valid_depth_le_lv {s : St} (hg : Good s) {V : Nat} (hV : VarsLe s V) {r φ} (v : Valid s.nodes r φ) :
    ∃ d, Den s.nodes d r φ ∧ d ≤ lv s V r := by
  obtain ⟨d, h⟩ := v
  exact ⟨d, h, den_depth_le_lv hg hV h⟩

/-! ### `sat_count` -/

/-- `_sat_count` returns for every live handle, whatever the memo table holds, once the fuel
exceeds the depth -/
theorem satCountRec_total : ∀ fuel s mx r φ memo d, Good s → Den s.nodes d r φ → d < fuel →
    ∃ c memo', satCountRec fuel s mx r memo = .ok (c, memo') := by
  intro fuel
  induction fuel with
  | zero => intro s mx r φ memo d _ _ hd; omega
  | succ fuel ih =>
    intro s mx r φ memo d hg hden hd
    unfold satCountRec
    by_cases cz : isZero r = true
    · rw [if_pos cz]; exact ⟨_, _, rfl⟩
    rw [if_neg cz]
    by_cases co : isOne r = true
    · rw [if_pos co]; exact ⟨_, _, rfl⟩
    rw [if_neg co]
    cases hl : memo.lookup r with
    | some c0 => exact ⟨_, _, rfl⟩
    | none =>
      simp only
      have hnt : isTerminal r = false := by
        simp only [isTerminal, Bool.or_eq_false_iff]; exact ⟨by simpa using co, by simpa using cz⟩
      obtain ⟨n, d0, d1, φ0, φ1, hn, h0, h1, hdd⟩ := hden.raw hnt
      have hd0 : d0 < fuel := by
        have := Nat.le_max_left d0 d1; omega
      have hd1 : d1 < fuel := by
        have := Nat.le_max_right d0 d1; omega
      rw [St.low_of hn, St.high_of hn]
      obtain ⟨cl, m1, e1⟩ := ih s mx n.low φ0 memo d0 hg h0 hd0
      rw [e1]; simp only
      obtain ⟨ch, m2, e2⟩ := ih s mx n.high φ1 m1 d1 hg h1 hd1
      rw [e2]; exact ⟨_, _, rfl⟩

/-- the level-indexed form: fuel above the level of the handle is enough -/
theorem satCountRec_total_lv {fuel : Nat} {s : St} {V : Nat} {r : Ref} {φ : Fn} (mx : Nat) (memo : CMemo)
    (hg : Good s) (hV : VarsLe s V) (v : Valid s.nodes r φ) (hfuel : lv s V r < fuel) :
    ∃ c memo', satCountRec fuel s mx r memo = .ok (c, memo') := by
  obtain ⟨d, h, hd⟩ := valid_depth_le_lv hg hV v
  exact satCountRec_total fuel s mx r φ memo d hg h (by omega)

/-- the wrapper, depth-indexed -/
theorem satCount_total_depth {fuel : Nat} {s : St} {f : Ref} {φ : Fn} {d : Nat} (n : Nat) (hg : Good s)
    (h : Den s.nodes d f φ) (hfuel : d < fuel) : ∃ c, satCount fuel s f n = .ok c := by
  obtain ⟨c, memo', e⟩ := satCountRec_total fuel s (2 ^ n) f φ [] d hg h hfuel
  exact ⟨c, by unfold satCount; rw [e]⟩

/-- `sat_count` returns once the fuel exceeds the level of the handle -/
theorem satCount_total {fuel : Nat} {s : St} {V : Nat} {f : Ref} {φ : Fn} (n : Nat) (hg : Good s)
    (v : Valid s.nodes f φ) (hV : VarsLe s V) (hfuel : lv s V f < fuel) : ∃ c, satCount fuel s f n = .ok c := by
  obtain ⟨d, h, hd⟩ := valid_depth_le_lv hg hV v
  exact satCount_total_depth n hg h (by omega)

/-- uniform fuel: more than `V + 1` is enough for every live handle -/
theorem satCount_total_unif {fuel : Nat} {s : St} {V : Nat} {f : Ref} {φ : Fn} (n : Nat) (hg : Good s)
    (v : Valid s.nodes f φ) (hV : VarsLe s V) (hfuel : V + 1 < fuel) : ∃ c, satCount fuel s f n = .ok c :=
  satCount_total n hg v hV (Nat.lt_of_le_of_lt (lv_le s V f) hfuel)

/-- … so it reports no fault at all -/
theorem satCount_no_fault {fuel : Nat} {s : St} {V : Nat} {f : Ref} {φ : Fn} (n : Nat) (hg : Good s)
    (v : Valid s.nodes f φ) (hV : VarsLe s V) (hfuel : lv s V f < fuel) (e : Fault) :
    satCount fuel s f n ≠ .error e := by
  obtain ⟨c, hc⟩ := satCount_total n hg v hV hfuel
  rw [hc]; intro h; cases h

/-- totality and correctness together: the exact count, for variables `≤ n` -/
theorem satCount_total_correct {fuel : Nat} {s : St} {n : Nat} {f : Ref} {φ : Fn} (hg : Good s)
    (v : Valid s.nodes f φ) (hV : VarsLe s n) (hfuel : lv s n f < fuel) :
    satCount fuel s f n = .ok (count φ n) := by
  obtain ⟨c, hc⟩ := satCount_total n hg v hV hfuel
  rw [hc, satCount_top_spec hg hV v hc]

/-! ### `paths`: the explicit-stack iterator -/

/-- pops needed to exhaust a subtree of depth `d` -/
def pcost (d : Nat) : Nat := 2 ^ (d + 1) - 1

/-- the pending stack, entry by entry, holds live handles of depths `ds` -/
inductive StackDen (s : St) : List (Ref × List Int) → List Nat → Prop
  | nil : StackDen s [] []
  | cons {r pre d φ rest ds} : Den s.nodes d r φ → StackDen s rest ds → StackDen s ((r, pre) :: rest) (d :: ds)

/-- pops needed to exhaust a stack whose entries have depths `ds` -/
def stackCost : List Nat → Nat
  | [] => 0
  | d :: ds => pcost d + stackCost ds

theorem pcost_pos (d : Nat) : 1 ≤ pcost d := by
  have h : 2 ^ 1 ≤ 2 ^ (d + 1) := Nat.pow_le_pow_right (by omega) (by omega)
  unfold pcost
  generalize 2 ^ (d + 1) = p at *
  omega

theorem pcost_mono {a b : Nat} (h : a ≤ b) : pcost a ≤ pcost b := by
  have h2 : 2 ^ (a + 1) ≤ 2 ^ (b + 1) := Nat.pow_le_pow_right (by omega) (by omega)
  unfold pcost
  generalize 2 ^ (a + 1) = p at *
  generalize 2 ^ (b + 1) = q at *
  omega

theorem pcost_succ (d : Nat) : pcost (d + 1) = 2 * pcost d + 1 := by
  have h : 0 < 2 ^ (d + 1) := Nat.two_pow_pos _
  have e : 2 ^ (d + 1 + 1) = 2 ^ (d + 1) * 2 := by rw [Nat.pow_succ]
  unfold pcost
  rw [e]
  generalize 2 ^ (d + 1) = p at *
  omega

/-- a node costs one pop plus its two subtrees -/
theorem pcost_node {d0 d1 d : Nat} (h0 : d0 < d) (h1 : d1 < d) : pcost d0 + pcost d1 + 1 ≤ pcost d := by
  cases d with
  | zero => omega
  | succ k =>
    have a := pcost_mono (a := d0) (b := k) (by omega)
    have b := pcost_mono (a := d1) (b := k) (by omega)
    rw [pcost_succ]; omega

/-- the iterator runs to exhaustion when the fuel exceeds the cost of the pending stack -/
theorem pathsIter_total : ∀ fuel s (stack : List (Ref × List Int)) (ds : List Nat) acc, Good s →
    StackDen s stack ds →
    stackCost ds < fuel → ∃ out, pathsIter fuel s stack acc = some out := by
  intro fuel
  induction fuel with
  | zero => intro s stack ds acc _ _ hc; omega
  | succ fuel ih =>
    intro s stack ds acc hg hst hc
    cases hst with
    | nil => exact ⟨acc.reverse, by simp only [pathsIter]⟩
    | @cons r pre d φ rest ds' hden hrest =>
      simp only [stackCost] at hc
      have hpos := pcost_pos d
      simp only [pathsIter]
      by_cases cz : isZero r = true
      · rw [if_pos cz]; exact ih s rest ds' acc hg hrest (by omega)
      rw [if_neg cz]
      by_cases co : isOne r = true
      · rw [if_pos co]; exact ih s rest ds' (pre :: acc) hg hrest (by omega)
      rw [if_neg co]
      have hnt : isTerminal r = false := by
        simp only [isTerminal, Bool.or_eq_false_iff]; exact ⟨by simpa using co, by simpa using cz⟩
      obtain ⟨_, d0, d1, φ0, φ1, hd0, hd1, vlo, vhi, _, _, _⟩ := hden.split hg hnt
      have hnode := pcost_node hd0 hd1
      exact ih s _ (d0 :: d1 :: ds') acc hg (.cons vlo (.cons vhi hrest))
        (by simp only [stackCost]; omega)

/-- `paths(f)` enumerates to the end with fuel `2^(d+1)`, `d` the depth of `f` -/
theorem paths_total {fuel : Nat} {s : St} {f : Ref} {φ : Fn} {d : Nat} (hg : Good s) (h : Den s.nodes d f φ)
    (hfuel : 2 ^ (d + 1) ≤ fuel) : ∃ out, paths fuel s f = some out := by
  unfold paths
  refine pathsIter_total fuel s [(f, [])] [d] [] hg (.cons h .nil) ?_
  have hp : 0 < 2 ^ (d + 1) := Nat.two_pow_pos _
  simp only [stackCost, pcost]
  generalize 2 ^ (d + 1) = p at *
  omega

/-- level-indexed -/
theorem paths_total_lv {fuel : Nat} {s : St} {V : Nat} {f : Ref} {φ : Fn} (hg : Good s) (hV : VarsLe s V)
    (v : Valid s.nodes f φ) (hfuel : 2 ^ (lv s V f + 1) ≤ fuel) : ∃ out, paths fuel s f = some out := by
  obtain ⟨d, h, hd⟩ := valid_depth_le_lv hg hV v
  have : 2 ^ (d + 1) ≤ 2 ^ (lv s V f + 1) := Nat.pow_le_pow_right (by omega) (by omega)
  exact paths_total hg h (Nat.le_trans this hfuel)

/-- uniform fuel: `2^(V+2)` is enough for every live handle over variables `≤ V` -/
theorem paths_total_unif {fuel : Nat} {s : St} {V : Nat} {f : Ref} {φ : Fn} (hg : Good s) (hV : VarsLe s V)
    (v : Valid s.nodes f φ) (hfuel : 2 ^ (V + 2) ≤ fuel) : ∃ out, paths fuel s f = some out := by
  have hl := lv_le s V f
  have : 2 ^ (lv s V f + 1) ≤ 2 ^ (V + 2) := Nat.pow_le_pow_right (by omega) (by omega)
  exact paths_total_lv hg hV v (Nat.le_trans this hfuel)

/-- totality and correctness together: the enumeration ends, and what it yields covers every
satisfying assignment exactly once, each cube in variable order -/
theorem paths_total_correct {fuel : Nat} {s : St} {V : Nat} {f : Ref} {φ : Fn} (hg : Good s) (hV : VarsLe s V)
    (v : Valid s.nodes f φ) (hfuel : 2 ^ (V + 2) ≤ fuel) :
    ∃ out, paths fuel s f = some out ∧ (∀ e, out.countP (Sat e) = if φ e then 1 else 0) ∧
      ∀ q, q ∈ out → List.Pairwise (fun a b : Int => a.natAbs < b.natAbs) q := by
  obtain ⟨out, h⟩ := paths_total_unif hg hV v hfuel
  exact ⟨out, h, paths_exactly_once' hg v h, paths_sorted hg v h⟩

/-! ### `one_sat`: `None` never means "out of fuel" -/

/-- with fuel above the level, `one_sat` answers `None` only for the constant false, and otherwise
an implicant (the level-indexed form of `oneSat_spec`) -/
theorem oneSat_total_lv {fuel : Nat} {s : St} {V : Nat} {r : Ref} {φ : Fn} (pre : List Int) (hg : Good s)
    (hV : VarsLe s V) (v : Valid s.nodes r φ) (hfuel : lv s V r < fuel) :
    (oneSat fuel s r pre = none ↔ φ = fun _ => false) ∧
    (∀ p, oneSat fuel s r pre = some p → ∃ q, p = pre ++ q ∧ ∀ e, Sat e q = true → φ e = true) := by
  obtain ⟨d, h, hd⟩ := valid_depth_le_lv hg hV v
  exact oneSat_spec fuel s r φ pre d hg h (by omega)

#print axioms den_depth_le_lv
#print axioms oneSat_total_lv
#print axioms satCountRec_total
#print axioms satCount_total
#print axioms satCount_total_unif
#print axioms satCount_no_fault
#print axioms satCount_total_correct
#print axioms pathsIter_total
#print axioms paths_total
#print axioms paths_total_lv
#print axioms paths_total_unif
#print axioms paths_total_correct
end P

import BddModel.Eda
/-! C20, first half: eda `Arena` (`examples/eda/src/ast.rs`).  The breadth-first flattening
(`Arena::from_boxed`) followed by the reverse take-fold (`collapse_exprs`) computes the direct
recursion over the boxed tree, for every algebra and every tree (no size bound), and never hits
`unwrap` on `None`.  Instances: `to_string`, `eval`, `to_boxed`.  All operations are the ones of
`BddModel.Eda` (namespace `A`); only specification-side definitions are introduced here. -/
namespace A

variable {τ ρ : Type}

/-! ### specification-side definitions -/

/-- total size of a queue of pending trees -/
def sizes (l : List (Tree τ)) : Nat := (l.map Tree.size).sum

/-- the layer of `t` with its children already folded -/
def Tree.foldLayer (alg : Layer τ ρ → ρ) : Tree τ → Layer τ ρ
  | .term x => .term x
  | .not a => .not (fold alg a)
  | .and a b => .and (fold alg a) (fold alg b)
  | .or a b => .or (fold alg a) (fold alg b)
  | .xor a b => .xor (fold alg a) (fold alg b)
  | .ite a b c => .ite (fold alg a) (fold alg b) (fold alg c)

theorem fold_eq (alg : Layer τ ρ → ρ) (t : Tree τ) : alg (t.foldLayer alg) = fold alg t := by
  cases t <;> simp [fold, Tree.foldLayer]

/-- what the result vector looks like once every index `≥ p` has been processed -/
def Post (alg : Layer τ ρ → ρ) (p : Nat) (frontier : List (Tree τ)) : Results ρ :=
  fun i => if p ≤ i then (frontier[i - p]?).map (fold alg) else none

/-! ### taking a block of results -/

theorem take_some {r : Results ρ} {i : Nat} {x : ρ} (h : r i = some x) :
    take r i = some (x, fun j => if j = i then none else r j) := by
  simp [take, h]

/-- taking a block of consecutive indices that all hold a value -/
theorem takeMany_block (f : Tree τ → ρ) : ∀ (r : Results ρ) (B : Nat) (cs : List (Tree τ)),
    (∀ k (hk : k < cs.length), r (B + k) = some (f cs[k])) →
    takeMany r ((List.range cs.length).map (B + ·)) =
      some (cs.map f, fun j => if B ≤ j ∧ j < B + cs.length then none else r j) := by
  intro r B cs
  induction cs generalizing r B with
  | nil =>
    intro _
    simp only [List.length_nil, List.range_zero, List.map_nil, takeMany]
    congr 2; funext j; rw [if_neg (by omega)]
  | cons c cs ih =>
    intro h
    have h0 : r B = some (f c) := by have := h 0 (by simp); simpa using this
    have hrange : (List.range (c :: cs).length).map (B + ·) = B :: (List.range cs.length).map (B + 1 + ·) := by
      simp only [List.length_cons, List.range_succ_eq_map, List.map_cons, Nat.add_zero, List.map_map]
      congr 1
      apply List.map_congr_left; intro a _; simp only [Function.comp]; omega
    rw [hrange]
    simp only [takeMany, take_some h0]
    have := ih (fun j => if j = B then none else r j) (B + 1) (by
      intro k hk
      have := h (k + 1) (by simp; omega)
      show (if B + 1 + k = B then none else r (B + 1 + k)) = _
      rw [if_neg (by omega), show B + 1 + k = B + (k + 1) by omega, this]
      simp)
    rw [this]
    simp only [List.map_cons, List.length_cons]
    congr 2; funext j
    by_cases hjB : j = B
    · subst hjB; simp
    · by_cases h1 : B + 1 ≤ j ∧ j < B + 1 + cs.length
      · rw [if_pos h1, if_pos ⟨by omega, by omega⟩]
      · rw [if_neg h1, if_neg hjB, if_neg (by omega)]

/-! ### the flattening only appends -/

theorem flatten_prefix : ∀ (fuel : Nat) (exprs : List (Layer τ Nat)) (fr : List (Tree τ)),
    ∃ more, flatten fuel exprs fr = exprs ++ more := by
  intro fuel
  induction fuel with
  | zero => intro exprs fr; exact ⟨[], by simp [flatten]⟩
  | succ fuel ih =>
    intro exprs fr
    cases fr with
    | nil => exact ⟨[], by simp [flatten]⟩
    | cons t rest =>
      obtain ⟨more, h⟩ := ih (exprs ++ [t.layer (exprs.length + rest.length + 1)]) (rest ++ t.children)
      exact ⟨t.layer (exprs.length + rest.length + 1) :: more, by simp [flatten, h]⟩

theorem size_pos (t : Tree τ) : 0 < t.size := by cases t <;> simp [Tree.size]

theorem sizes_children (t : Tree τ) : sizes t.children + 1 = t.size := by
  cases t <;> simp [sizes, Tree.children, Tree.size] <;> omega

theorem sizes_append (a b : List (Tree τ)) : sizes (a ++ b) = sizes a + sizes b := by
  simp [sizes, List.map_append, List.sum_append]

theorem sizes_ge_length (l : List (Tree τ)) : l.length ≤ sizes l := by
  induction l with
  | nil => simp [sizes]
  | cons t l ih =>
    have := size_pos t
    simp only [sizes, List.map_cons, List.sum_cons, List.length_cons] at *
    omega

/-- value of `Post` at an index inside / outside the pending block -/
theorem post_at (alg : Layer τ ρ → ρ) (q : Nat) (l : List (Tree τ)) (i : Nat) (hq : q ≤ i) :
    Post alg q l i = (l[i - q]?).map (fold alg) := by simp [Post, hq]

theorem post_below (alg : Layer τ ρ → ρ) (q : Nat) (l : List (Tree τ)) (i : Nat) (hq : i < q) :
    Post alg q l i = none := by simp [Post]; omega

/-- the step of the main induction: processing index `p` on top of `Post (p+1) (rest ++ children)` -/
theorem processOne_post (alg : Layer τ ρ → ρ) (t : Tree τ) (rest : List (Tree τ)) (p : Nat) :
    processOne alg (t.layer (p + rest.length + 1)) p (Post alg (p + 1) (rest ++ t.children)) =
      some (Post alg p (t :: rest)) := by
  have tail_eq : ∀ (r : Results ρ), (∀ j, j ≠ p → r j = Post alg p (t :: rest) j) → ∀ x, x = fold alg t →
      (fun j => if j = p then some x else r j) = Post alg p (t :: rest) := by
    intro r hr x hx; funext j
    by_cases hj : j = p
    · subst hj; simp [Post, hx]
    · simp [hj, hr j hj]
  -- how the old vector relates to the new one away from `p` and the child slots
  have old_new : ∀ j, j ≠ p → j < p + rest.length + 1 →
      Post alg (p + 1) (rest ++ t.children) j = Post alg p (t :: rest) j := by
    intro j hjp hlt
    by_cases hle : p ≤ j
    · rw [post_at _ _ _ _ (by omega), post_at _ _ _ _ hle]
      have h1 : j - (p + 1) < rest.length := by omega
      rw [List.getElem?_append_left h1]
      rw [show j - p = (j - (p + 1)) + 1 by omega, List.getElem?_cons_succ]
    · rw [post_below _ _ _ _ (by omega), post_below _ _ _ _ (by omega)]
  have new_beyond : ∀ j, p + rest.length + 1 ≤ j → Post alg p (t :: rest) j = none := by
    intro j hj
    rw [post_at _ _ _ _ (by omega)]
    rw [show j - p = (j - (p + 1)) + 1 by omega, List.getElem?_cons_succ]
    rw [List.getElem?_eq_none (by omega)]; rfl
  have old_child : ∀ k, Post alg (p + 1) (rest ++ t.children) (p + rest.length + 1 + k) =
      (t.children[k]?).map (fold alg) := by
    intro k
    rw [post_at _ _ _ _ (by omega)]
    rw [List.getElem?_append_right (by omega)]
    congr 2; omega
  -- taking the children, generically
  have hidx : (t.layer (p + rest.length + 1)).idxs = (List.range t.children.length).map (p + rest.length + 1 + ·) := by
    cases t <;> simp [Tree.layer, Layer.idxs, Tree.children, List.range_succ]
  have hreb : (t.layer (p + rest.length + 1)).rebuild (t.children.map (fold alg)) = some (t.foldLayer alg) := by
    cases t <;> simp [Tree.layer, Layer.rebuild, Tree.children, Tree.foldLayer]
  have htake := takeMany_block (fold alg) (Post alg (p + 1) (rest ++ t.children)) (p + rest.length + 1) t.children
    (fun k hk => by rw [old_child k, List.getElem?_eq_getElem hk]; rfl)
  simp only [processOne, hidx, htake, hreb]
  congr 1
  apply tail_eq _ _ _ (fold_eq alg t)
  intro j hj
  by_cases hlt : j < p + rest.length + 1
  · rw [if_neg (by omega)]; exact old_new j hj hlt
  · rw [new_beyond j (by omega)]
    by_cases hblk : j < p + rest.length + 1 + t.children.length
    · rw [if_pos ⟨by omega, hblk⟩]
    · rw [if_neg (by omega), show j = p + rest.length + 1 + (j - (p + rest.length + 1)) by omega, old_child]
      rw [List.getElem?_eq_none (by omega)]; rfl

/-- main lemma (generalisation to a queue of pending trees): the reverse fold over the flattened
arena leaves, at the position of each pending seed, the direct fold of that seed -/
theorem collapse_flatten (alg : Layer τ ρ → ρ) : ∀ (fuel : Nat) (exprs : List (Layer τ Nat)) (fr : List (Tree τ)),
    sizes fr ≤ fuel →
    collapseSuffix alg ((flatten fuel exprs fr).drop exprs.length) exprs.length (fun _ => none) =
      some (Post alg exprs.length fr) := by
  intro fuel
  induction fuel with
  | zero =>
    intro exprs fr h
    have : fr = [] := by
      have := sizes_ge_length fr
      exact List.eq_nil_of_length_eq_zero (by omega)
    subst this
    simp only [flatten, List.drop_length, collapseSuffix]
    congr 1; funext i; simp [Post]
  | succ fuel ih =>
    intro exprs fr h
    cases fr with
    | nil =>
      simp only [flatten, List.drop_length, collapseSuffix]
      congr 1; funext i; simp [Post]
    | cons t rest =>
      have hsz : sizes (rest ++ t.children) ≤ fuel := by
        have := sizes_children t
        rw [sizes_append]
        simp only [sizes, List.map_cons, List.sum_cons] at h this ⊢
        omega
      have := ih (exprs ++ [t.layer (exprs.length + rest.length + 1)]) (rest ++ t.children) hsz
      simp only [List.length_append, List.length_cons, List.length_nil, Nat.zero_add] at this
      obtain ⟨more, hmore⟩ := flatten_prefix fuel (exprs ++ [t.layer (exprs.length + rest.length + 1)]) (rest ++ t.children)
      have hdrop : (flatten (fuel + 1) exprs (t :: rest)).drop exprs.length =
          t.layer (exprs.length + rest.length + 1) ::
            (flatten fuel (exprs ++ [t.layer (exprs.length + rest.length + 1)]) (rest ++ t.children)).drop (exprs.length + 1) := by
        simp only [flatten]
        rw [hmore]
        simp [List.append_assoc, List.drop_append]
      rw [hdrop]
      simp only [collapseSuffix, this]
      exact processOne_post alg t rest exprs.length

/-- the arena of a tree is never empty (its slot 0 is the root layer) -/
theorem fromBoxed_ne_nil (e : Tree τ) : fromBoxed e ≠ [] := by
  have hpos := size_pos e
  obtain ⟨n, hn⟩ : ∃ n, e.size = n + 1 := ⟨e.size - 1, by omega⟩
  obtain ⟨more, hmore⟩ := flatten_prefix n (([] : List (Layer τ Nat)) ++ [e.layer (0 + 0 + 1)]) ([] ++ e.children)
  intro h
  simp only [fromBoxed, hn, flatten, List.length_nil] at h
  rw [hmore] at h
  simp at h

/-- the reverse loop over the whole arena of `e` leaves `fold alg e` in slot 0 and nothing elsewhere -/
theorem collapseSuffix_fromBoxed (alg : Layer τ ρ → ρ) (e : Tree τ) :
    collapseSuffix alg (fromBoxed e) 0 (fun _ => none) = some (Post alg 0 [e]) := by
  have := collapse_flatten alg e.size [] [e] (by simp [sizes])
  simpa only [List.length_nil, List.drop_zero, fromBoxed] using this

/-- C20 (1): `Arena::from_boxed(e).collapse(alg)` is `fold alg e`, for every algebra and every tree;
in particular no `unwrap` on `None` happens (the result is `some`) -/
theorem arena_round (alg : Layer τ ρ → ρ) (e : Tree τ) :
    collapse alg (fromBoxed e) = some (fold alg e) := by
  have hne := fromBoxed_ne_nil e
  have hc : collapse alg (fromBoxed e) =
      (collapseSuffix alg (fromBoxed e) 0 (fun _ => none)).bind (fun r => r 0) := by
    unfold collapse
    split
    · next h => exact absurd h hne
    · rfl
  rw [hc, collapseSuffix_fromBoxed]
  simp [Post]

/-! ### the three algebras of `ast.rs` -/

theorem fold_strAlg (show_ : τ → String) (t : Tree τ) : fold (strAlg show_) t = t.toStr show_ := by
  induction t with
  | term x => rfl
  | not a ih => simp [fold, strAlg, Tree.toStr, ih]
  | and a b iha ihb => simp [fold, strAlg, Tree.toStr, iha, ihb]
  | or a b iha ihb => simp [fold, strAlg, Tree.toStr, iha, ihb]
  | xor a b iha ihb => simp [fold, strAlg, Tree.toStr, iha, ihb]
  | ite a b c iha ihb ihc => simp [fold, strAlg, Tree.toStr, iha, ihb, ihc]

/-- C20 (2): the arena prints identically to the boxed tree it was built from -/
theorem arena_toString (show_ : τ → String) (e : Tree τ) :
    collapse (strAlg show_) (fromBoxed e) = some (e.toStr show_) := by
  rw [arena_round, fold_strAlg]

theorem fold_evalAlg (neg : ρ → ρ) (mul add : ρ → ρ → ρ) (t : Tree ρ) :
    fold (evalAlg neg mul add) t = t.value neg mul add := by
  induction t with
  | term x => rfl
  | not a ih => simp [fold, evalAlg, Tree.value, ih]
  | and a b iha ihb => simp [fold, evalAlg, Tree.value, iha, ihb]
  | or a b iha ihb => simp [fold, evalAlg, Tree.value, iha, ihb]
  | xor a b _ _ => simp [fold, evalAlg, Tree.value]
  | ite a b c _ _ _ => simp [fold, evalAlg, Tree.value]

/-- C20 (3): `Arena::eval` computes the direct evaluation; the outer `some` says the collapse itself
never unwraps a `None`, the inner `Option` is `none` exactly where the code reaches `todo!()` -/
theorem arena_eval (neg : ρ → ρ) (mul add : ρ → ρ → ρ) (e : Tree ρ) :
    collapse (evalAlg neg mul add) (fromBoxed e) = some (e.value neg mul add) := by
  rw [arena_round, fold_evalAlg]

/-- C20 (5): negating any expression (a bare term included) negates its value (negation involutive) -/
theorem value_mkNot {neg : ρ → ρ} {mul add : ρ → ρ → ρ} (hinv : ∀ x, neg (neg x) = x) (t : Tree ρ) :
    (t.mkNot).value neg mul add = (t.value neg mul add).map neg := by
  cases t with
  | not a =>
    simp only [Tree.mkNot, Tree.value]
    cases a.value neg mul add <;> simp [hinv]
  | term x => rfl
  | and a b => rfl
  | or a b => rfl
  | xor a b => rfl
  | ite a b c => rfl

/-- C20 (4): converting back from the arena yields an expression with the same value -/
theorem toBoxed_value {neg : ρ → ρ} {mul add : ρ → ρ → ρ} (hinv : ∀ x, neg (neg x) = x) (t : Tree ρ) :
    (fold boxAlg t).value neg mul add = t.value neg mul add := by
  induction t with
  | term x => rfl
  | not a ih => simp [fold, boxAlg, value_mkNot hinv, Tree.value, ih]
  | and a b iha ihb => simp [fold, boxAlg, Tree.value, iha, ihb]
  | or a b iha ihb => simp [fold, boxAlg, Tree.value, iha, ihb]
  | xor a b _ _ => simp [fold, boxAlg, Tree.value]
  | ite a b c _ _ _ => simp [fold, boxAlg, Tree.value]

/-- C20 (4), on the arena: `Arena::to_boxed` succeeds and its result has the value of the original -/
theorem arena_toBoxed {neg : ρ → ρ} {mul add : ρ → ρ → ρ} (hinv : ∀ x, neg (neg x) = x) (e : Tree ρ) :
    ∃ b, collapse boxAlg (fromBoxed e) = some b ∧ b.value neg mul add = e.value neg mul add :=
  ⟨fold boxAlg e, arena_round boxAlg e, toBoxed_value hinv e⟩

/-- negative witness for D5: the pinned (pre-fix) `ExprBoxed::not` returns a term unchanged, so
negating a bare term does not negate its value -/
def Tree.mkNotPinned : Tree τ → Tree τ
  | .term t => .term t
  | .not a => a
  | t => .not t

example : (Tree.mkNotPinned (.term (5 : Int))).value (fun x => -x) (· * ·) (· + ·) = some 5 := rfl
example : (Tree.mkNot (.term (5 : Int))).value (fun x => -x) (· * ·) (· + ·) = some (-5) := rfl
example : (Tree.mkNotPinned (.term (5 : Int))).value (fun x => -x) (· * ·) (· + ·) ≠
    ((Tree.term (5 : Int)).value (fun x => -x) (· * ·) (· + ·)).map (fun x => -x) := by decide

#print axioms arena_round
#print axioms arena_toString
#print axioms arena_eval
#print axioms toBoxed_value
#print axioms arena_toBoxed
#print axioms value_mkNot
end A

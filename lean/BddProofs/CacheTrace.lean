import BddProofs.Store
/-! C18: trace semantics of the direct-mapped cache `P.Cache` (port of `spikes/CacheM.lean`).

A history is a list of events `get k | insert k v | clear` (oldest first) and `run` threads the cache
through it (the cache returned by `get` carries the bumped counters).  For an arbitrary key type
(so hash collisions are covered by quantification) and any in-range cache:

* `C18_lookup`  : a lookup after a history returns `some v` under key `k` iff the last write to slot
  `index k` since the last `clear` is `insert k v` (`lastWrite`, characterised by `lastWrite_iff`);
* `C18_never_other_key` : then `insert k v` occurs in the history after the last `clear`;
* `C18_clear`   : after `clear` every lookup is `none`;
* `C18_stats`   : `hits + misses = number of get events` and `faults ≤ misses`. -/
namespace P
open Arr

section
variable {κ ν : Type}

/-! ## well-formedness: every slot index is in range -/

/-- all slots are empty -/
def Cache.Empty (c : Cache κ ν) : Prop := ∀ i, rd c.data i = none

/-- `(h & (2^bits - 1)) as usize < 2^bits`, for every `bits` (also beyond 64) -/
theorem slotOf_lt (h : UInt64) (bits : Nat) : slotOf h (UInt64.ofNat (2 ^ bits - 1)) < 2 ^ bits := by
  unfold slotOf
  rw [UInt64.toNat_and]
  have h1 : h.toNat &&& (UInt64.ofNat (2 ^ bits - 1)).toNat ≤ (UInt64.ofNat (2 ^ bits - 1)).toNat :=
    Nat.and_le_right
  have h2 : (UInt64.ofNat (2 ^ bits - 1)).toNat ≤ 2 ^ bits - 1 := by
    rw [UInt64.toNat_ofNat']; exact Nat.mod_le _ _
  have h3 : 0 < 2 ^ bits := Nat.two_pow_pos bits
  omega

theorem rd_replicate_none (n i : Nat) : rd (Array.replicate n (none : Option (κ × ν))) i = none := by
  rw [rd_replicate]; split <;> rfl

theorem Cache.new_empty (bits : Nat) : (Cache.new bits : Cache κ ν).Empty :=
  fun i => rd_replicate_none _ i

theorem Cache.clear_empty (c : Cache κ ν) : c.clear.Empty :=
  fun i => rd_replicate_none _ i

variable [MyHash κ]

/-- every key's slot index is a cell of the data array (the Rust code would panic otherwise) -/
def Cache.InRange (c : Cache κ ν) : Prop := ∀ k : κ, c.index k < c.data.size

theorem Cache.new_inRange (bits : Nat) : (Cache.new bits : Cache κ ν).InRange := by
  intro k
  show slotOf (MyHash.hash k) (UInt64.ofNat (2 ^ bits - 1)) < (Array.replicate (2 ^ bits) none).size
  rw [Array.size_replicate]
  exact slotOf_lt _ bits

theorem Cache.clear_inRange {c : Cache κ ν} (h : c.InRange) : c.clear.InRange := by
  intro k
  show c.index k < (Array.replicate c.data.size none).size
  rw [Array.size_replicate]; exact h k

theorem Cache.insert_inRange {c : Cache κ ν} (h : c.InRange) (k : κ) (v : ν) : (c.insert k v).InRange := by
  intro k'
  show c.index k' < (wr c.data (c.index k) (some (k, v))).size
  rw [size_wr]; exact h k'

/-! ## events, histories -/

inductive Ev (κ ν : Type) where
  | get (k : κ) | insert (k : κ) (v : ν) | clear

/-- specification: what slot `i` holds after a history, scanning for the last event that touched it
(`acc` = what the slot held before) -/
def lastWrite (mask : UInt64) (i : Nat) : List (Ev κ ν) → Option (κ × ν) → Option (κ × ν)
  | [], acc => acc
  | .get _ :: es, acc => lastWrite mask i es acc
  | .insert k v :: es, acc =>
    lastWrite mask i es (if i = slotOf (MyHash.hash k) mask then some (k, v) else acc)
  | .clear :: es, _ => lastWrite mask i es none

/-- number of `get` events -/
def lookups : List (Ev κ ν) → Nat
  | [] => 0
  | .get _ :: es => lookups es + 1
  | .insert _ _ :: es => lookups es
  | .clear :: es => lookups es

/-! ## `lastWrite` says what its name says -/

/-- no `clear` and no write to slot `i` -/
def Quiet (mask : UInt64) (i : Nat) (es : List (Ev κ ν)) : Prop :=
  Ev.clear ∉ es ∧ ∀ k v, Ev.insert k v ∈ es → slotOf (MyHash.hash k) mask ≠ i

theorem Quiet.nil (mask : UInt64) (i : Nat) : Quiet mask i ([] : List (Ev κ ν)) :=
  ⟨List.not_mem_nil, fun _ _ h => absurd h List.not_mem_nil⟩

theorem Quiet.tail {mask : UInt64} {i : Nat} {e : Ev κ ν} {es : List (Ev κ ν)}
    (h : Quiet mask i (e :: es)) : Quiet mask i es :=
  ⟨fun m => h.1 (List.mem_cons_of_mem _ m), fun k v m => h.2 k v (List.mem_cons_of_mem _ m)⟩

theorem lastWrite_append (mask : UInt64) (i : Nat) (es es' : List (Ev κ ν)) (acc : Option (κ × ν)) :
    lastWrite mask i (es ++ es') acc = lastWrite mask i es' (lastWrite mask i es acc) := by
  induction es generalizing acc with
  | nil => rfl
  | cons e es ih => cases e <;> exact ih _

theorem lastWrite_quiet {mask : UInt64} {i : Nat} {es : List (Ev κ ν)} (h : Quiet mask i es)
    (acc : Option (κ × ν)) : lastWrite mask i es acc = acc := by
  induction es generalizing acc with
  | nil => rfl
  | cons e es ih =>
    cases e with
    | get k => exact ih h.tail acc
    | insert k v =>
      show lastWrite mask i es (if i = slotOf (MyHash.hash k) mask then some (k, v) else acc) = acc
      rw [if_neg (fun e => h.2 k v List.mem_cons_self e.symm)]
      exact ih h.tail acc
    | clear => exact absurd List.mem_cons_self h.1

theorem lastWrite_some {mask : UInt64} {i : Nat} : ∀ (es : List (Ev κ ν)) (acc : Option (κ × ν)) {k : κ} {v : ν},
    lastWrite mask i es acc = some (k, v) →
      (acc = some (k, v) ∧ Quiet mask i es) ∨
      ∃ pre post, es = pre ++ Ev.insert k v :: post ∧ i = slotOf (MyHash.hash k) mask ∧ Quiet mask i post := by
  intro es
  induction es with
  | nil => intro acc k v h; exact Or.inl ⟨h, Quiet.nil _ _⟩
  | cons e es ih =>
    intro acc k v h
    cases e with
    | get k' =>
      rcases ih acc h with ⟨ha, hq⟩ | ⟨pre, post, rfl, hi, hq⟩
      · refine Or.inl ⟨ha, ?_, ?_⟩
        · intro m; rcases List.mem_cons.1 m with m | m
          · cases m
          · exact hq.1 m
        · intro k2 v2 m; rcases List.mem_cons.1 m with m | m
          · cases m
          · exact hq.2 k2 v2 m
      · exact Or.inr ⟨Ev.get k' :: pre, post, rfl, hi, hq⟩
    | insert k' v' =>
      rcases ih _ h with ⟨ha, hq⟩ | ⟨pre, post, rfl, hi, hq⟩
      · by_cases e : i = slotOf (MyHash.hash k') mask
        · rw [if_pos e] at ha
          have hp : (k', v') = (k, v) := Option.some.inj ha
          obtain ⟨rfl, rfl⟩ := Prod.mk.inj hp
          exact Or.inr ⟨[], es, rfl, e, hq⟩
        · rw [if_neg e] at ha
          refine Or.inl ⟨ha, ?_, ?_⟩
          · intro m; rcases List.mem_cons.1 m with m | m
            · cases m
            · exact hq.1 m
          · intro k2 v2 m; rcases List.mem_cons.1 m with m | m
            · cases m; exact fun x => e x.symm
            · exact hq.2 k2 v2 m
      · exact Or.inr ⟨Ev.insert k' v' :: pre, post, rfl, hi, hq⟩
    | clear =>
      rcases ih _ h with ⟨ha, _⟩ | ⟨pre, post, rfl, hi, hq⟩
      · cases ha
      · exact Or.inr ⟨Ev.clear :: pre, post, rfl, hi, hq⟩

/-- `lastWrite … none = some (k, v)` iff the history splits as `pre ++ insert k v :: post` where
`insert k v` writes slot `i` and `post` contains neither a `clear` nor a write to slot `i`. -/
theorem lastWrite_iff (mask : UInt64) (i : Nat) (es : List (Ev κ ν)) (k : κ) (v : ν) :
    lastWrite mask i es none = some (k, v) ↔
      ∃ pre post, es = pre ++ Ev.insert k v :: post ∧ i = slotOf (MyHash.hash k) mask ∧ Quiet mask i post := by
  constructor
  · intro h
    rcases lastWrite_some es none h with ⟨ha, _⟩ | h
    · cases ha
    · exact h
  · rintro ⟨pre, post, rfl, hi, hq⟩
    rw [lastWrite_append]
    show lastWrite mask i post (if i = slotOf (MyHash.hash k) mask then some (k, v) else _) = _
    rw [if_pos hi]
    exact lastWrite_quiet hq _

/-! ## running a history on the real cache -/

variable [DecidableEq κ]

theorem Cache.get_inRange {c : Cache κ ν} (h : c.InRange) (k : κ) : (c.get k).1.InRange := by
  intro k'
  show slotOf (MyHash.hash k') (c.get k).1.bitmask < (c.get k).1.data.size
  rw [(c.get_fst_data k).1, (c.get_fst_data k).2]; exact h k'

/-- run a history (oldest first) -/
def run (c : Cache κ ν) : List (Ev κ ν) → Cache κ ν
  | [] => c
  | .get k :: es => run (c.get k).1 es
  | .insert k v :: es => run (c.insert k v) es
  | .clear :: es => run c.clear es


theorem run_append (c : Cache κ ν) (es es' : List (Ev κ ν)) : run c (es ++ es') = run (run c es) es' := by
  induction es generalizing c with
  | nil => rfl
  | cons e es ih => cases e <;> exact ih _

/-! ## the shape (bitmask, size) is constant along a run; in-range is preserved -/

theorem run_shape : ∀ (es : List (Ev κ ν)) (c : Cache κ ν),
    (run c es).bitmask = c.bitmask ∧ (run c es).data.size = c.data.size := by
  intro es
  induction es with
  | nil => intro c; exact ⟨rfl, rfl⟩
  | cons e es ih =>
    intro c
    cases e with
    | get k =>
      have := ih (c.get k).1
      rw [(c.get_fst_data k).1, (c.get_fst_data k).2] at this; exact this
    | insert k v =>
      have := ih (c.insert k v)
      have hs : (c.insert k v).data.size = c.data.size := size_wr _ _ _
      rw [hs] at this; exact this
    | clear =>
      have := ih c.clear
      have hs : c.clear.data.size = c.data.size := Array.size_replicate
      rw [hs] at this; exact this

theorem run_inRange {c : Cache κ ν} (h : c.InRange) (es : List (Ev κ ν)) : (run c es).InRange := by
  intro k
  show slotOf (MyHash.hash k) (run c es).bitmask < (run c es).data.size
  rw [(run_shape es c).1, (run_shape es c).2]; exact h k

theorem run_index (c : Cache κ ν) (es : List (Ev κ ν)) (k : κ) : (run c es).index k = c.index k := by
  unfold Cache.index; rw [(run_shape es c).1]

/-! ## slot contents after a history -/

theorem run_slot : ∀ (es : List (Ev κ ν)) (c : Cache κ ν), c.InRange → ∀ i : Nat,
    rd (run c es).data i = lastWrite c.bitmask i es (rd c.data i) := by
  intro es
  induction es with
  | nil => intro c _ i; rfl
  | cons e es ih =>
    intro c hc i
    cases e with
    | get k =>
      have := ih (c.get k).1 (Cache.get_inRange hc k) i
      rw [(c.get_fst_data k).1, (c.get_fst_data k).2] at this; exact this
    | insert k v =>
      have := ih (c.insert k v) (Cache.insert_inRange hc k v) i
      show rd (run (c.insert k v) es).data i = lastWrite c.bitmask i es
        (if i = slotOf (MyHash.hash k) c.bitmask then some (k, v) else rd c.data i)
      rw [this]
      show lastWrite c.bitmask i es (rd (wr c.data (c.index k) (some (k, v))) i) = _
      rw [rd_wr]
      have hk : c.index k < c.data.size := hc k
      have hidx : c.index k = slotOf (MyHash.hash k) c.bitmask := rfl
      by_cases e : i = slotOf (MyHash.hash k) c.bitmask
      · rw [if_pos e, if_pos ⟨by rw [hidx, e], hk⟩]
      · rw [if_neg e, if_neg (fun h => e (by rw [← hidx, h.1]))]
    | clear =>
      have := ih c.clear (Cache.clear_inRange hc) i
      show rd (run c.clear es).data i = lastWrite c.bitmask i es none
      rw [this]
      have h0 : rd c.clear.data i = none := Cache.clear_empty c i
      rw [h0]; rfl

/-! ## what `lookup`/`get` return -/

/-- a lookup returns a value only if the slot holds exactly that key -/
theorem Cache.lookup_spec (c : Cache κ ν) (k : κ) (v : ν) :
    c.lookup k = some v ↔ rd c.data (c.index k) = some (k, v) := by
  unfold Cache.lookup
  cases h : rd c.data (c.index k) with
  | none => simp
  | some p =>
    obtain ⟨k', v'⟩ := p
    by_cases hk : k' = k
    · subst hk; simp
    · simp [hk]

theorem Cache.get_spec (c : Cache κ ν) (k : κ) (v : ν) :
    (c.get k).2 = some v ↔ rd c.data (c.index k) = some (k, v) := by
  rw [Cache.get_snd]; exact c.lookup_spec k v

/-- `get` returns exactly the pure lookup (restated from `Store.lean`) -/
theorem C18_get_lookup (c : Cache κ ν) (k : κ) : (c.get k).2 = c.lookup k := Cache.get_snd c k

/-- the general form of `C18_lookup`: any in-range start cache, the initial content of the slot is
the accumulator -/
theorem lookup_after_history {c0 : Cache κ ν} (hr : c0.InRange) (hist : List (Ev κ ν)) (k : κ) (v : ν) :
    (run c0 hist).lookup k = some v ↔
      lastWrite c0.bitmask (c0.index k) hist (rd c0.data (c0.index k)) = some (k, v) := by
  rw [Cache.lookup_spec, run_index, run_slot hist c0 hr]

/-- **C18** (`get_after_history` of the spike): after any history from an in-range cache whose slots
are all empty, a lookup of `k` returns `some v` iff the last write to slot `index k` since the last
`clear` is `insert k v`. -/
theorem C18_lookup {c0 : Cache κ ν} (hr : c0.InRange) (he : c0.Empty) (hist : List (Ev κ ν)) (k : κ) (v : ν) :
    (run c0 hist).lookup k = some v ↔ lastWrite c0.bitmask (c0.index k) hist none = some (k, v) := by
  rw [lookup_after_history hr, he]

/-- the same for what `get` returns -/
theorem C18_get {c0 : Cache κ ν} (hr : c0.InRange) (he : c0.Empty) (hist : List (Ev κ ν)) (k : κ) (v : ν) :
    ((run c0 hist).get k).2 = some v ↔ lastWrite c0.bitmask (c0.index k) hist none = some (k, v) := by
  rw [Cache.get_snd]; exact C18_lookup hr he hist k v

/-- instance for a freshly created cache -/
theorem C18_lookup_new (bits : Nat) (hist : List (Ev κ ν)) (k : κ) (v : ν) :
    (run (Cache.new bits : Cache κ ν) hist).lookup k = some v ↔
      lastWrite (UInt64.ofNat (2 ^ bits - 1)) (slotOf (MyHash.hash k) (UInt64.ofNat (2 ^ bits - 1))) hist none
        = some (k, v) :=
  C18_lookup (Cache.new_inRange bits) (Cache.new_empty bits) hist k v

/-- **C18**, explicit form: a lookup of `k` returns `some v` iff the history is
`pre ++ insert k v :: post` with no `clear` and no write to slot `index k` in `post`. -/
theorem C18_lookup_explicit {c0 : Cache κ ν} (hr : c0.InRange) (he : c0.Empty) (hist : List (Ev κ ν))
    (k : κ) (v : ν) :
    (run c0 hist).lookup k = some v ↔
      ∃ pre post, hist = pre ++ Ev.insert k v :: post ∧ Ev.clear ∉ post ∧
        ∀ k' v', Ev.insert k' v' ∈ post → c0.index k' ≠ c0.index k := by
  rw [C18_lookup hr he, lastWrite_iff]
  constructor
  · rintro ⟨pre, post, h, _, hq⟩; exact ⟨pre, post, h, hq.1, hq.2⟩
  · rintro ⟨pre, post, h, h1, h2⟩; exact ⟨pre, post, h, rfl, h1, h2⟩

/-- **C18**, corollary: a value returned under key `k` was inserted under exactly the key `k`, after
the last `clear` (never a value stored under another key, whatever the hash function does). -/
theorem C18_never_other_key {c0 : Cache κ ν} (hr : c0.InRange) (he : c0.Empty) {hist : List (Ev κ ν)}
    {k : κ} {v : ν} (h : (run c0 hist).lookup k = some v) :
    ∃ pre post, hist = pre ++ Ev.insert k v :: post ∧ Ev.clear ∉ post := by
  obtain ⟨pre, post, h1, h2, _⟩ := (C18_lookup_explicit hr he hist k v).1 h
  exact ⟨pre, post, h1, h2⟩

/-- **C18**: after `clear` every lookup is `none` (restated from `Store.lean`), also at the end of
any history that ends with `clear`. -/
theorem C18_clear (c : Cache κ ν) (k : κ) : c.clear.lookup k = none := Cache.lookup_clear c k

theorem C18_clear_run (c0 : Cache κ ν) (hist : List (Ev κ ν)) (k : κ) :
    (run c0 (hist ++ [Ev.clear])).lookup k = none := by
  rw [run_append]; exact Cache.lookup_clear _ k

theorem C18_clear_get (c : Cache κ ν) (k : κ) : (c.clear.get k).2 = none := by
  rw [Cache.get_snd]; exact Cache.lookup_clear c k

/-! ## statistics -/

theorem Cache.get_stats (c : Cache κ ν) (k : κ) :
    (c.get k).1.hits + (c.get k).1.misses = c.hits + c.misses + 1 ∧
    (c.get k).1.faults + c.misses ≤ (c.get k).1.misses + c.faults ∧
    (c.get k).1.faults ≤ c.faults + 1 ∧ c.misses ≤ (c.get k).1.misses ∧ c.faults ≤ (c.get k).1.faults := by
  unfold Cache.get
  cases rd c.data (c.index k) with
  | none => simp only; omega
  | some p =>
    obtain ⟨k', v⟩ := p
    simp only
    split <;> simp only <;> omega

/-- statistics along a run from any cache (`run_stats` of the spike) -/
theorem run_stats : ∀ (es : List (Ev κ ν)) (c : Cache κ ν),
    (run c es).hits + (run c es).misses = c.hits + c.misses + lookups es ∧
    (run c es).faults + c.misses ≤ (run c es).misses + c.faults := by
  intro es
  induction es with
  | nil => intro c; simp only [run, lookups]; omega
  | cons e es ih =>
    intro c
    cases e with
    | insert k v => exact ih (c.insert k v)
    | clear => exact ih c.clear
    | get k =>
      have := ih (c.get k).1
      have hstat := c.get_stats k
      show (run (c.get k).1 es).hits + (run (c.get k).1 es).misses = c.hits + c.misses + (lookups es + 1) ∧
        (run (c.get k).1 es).faults + c.misses ≤ (run (c.get k).1 es).misses + c.faults
      generalize run (c.get k).1 es = r at this ⊢
      omega

/-- **C18** statistics: from zeroed counters, `hits + misses` is the number of `get` events and
`faults ≤ misses`. -/
theorem C18_stats {c0 : Cache κ ν} (hh : c0.hits = 0) (hf : c0.faults = 0) (hm : c0.misses = 0)
    (hist : List (Ev κ ν)) :
    (run c0 hist).hits + (run c0 hist).misses = lookups hist ∧ (run c0 hist).faults ≤ (run c0 hist).misses := by
  have := run_stats hist c0
  rw [hh, hf, hm] at this
  omega

theorem C18_stats_new (bits : Nat) (hist : List (Ev κ ν)) :
    (run (Cache.new bits : Cache κ ν) hist).hits + (run (Cache.new bits : Cache κ ν) hist).misses = lookups hist ∧
    (run (Cache.new bits : Cache κ ν) hist).faults ≤ (run (Cache.new bits : Cache κ ν) hist).misses :=
  C18_stats rfl rfl rfl hist

end

/-! ## non-vacuity: a concrete history with a hash collision

`Cache.new 1` has two slots; `(0,0)` and `(1,0)` both hash to slot 0, `(0,1)` to slot 1. -/

def demoHist : List (Ev (UInt64 × UInt64) Nat) :=
  [.insert (0, 0) 5, .insert (0, 1) 7, .get (0, 0), .insert (1, 0) 9, .get (0, 0)]

def demo : Cache (UInt64 × UInt64) Nat := run (Cache.new 1) demoHist

example : demo.lookup (0, 0) = none ∧ demo.lookup (1, 0) = some 9 ∧ demo.lookup (0, 1) = some 7 ∧
    demo.hits = 1 ∧ demo.misses = 1 ∧ demo.faults = 1 ∧ lookups demoHist = 2 := by decide

example : (run (Cache.new 1) (demoHist ++ [.clear])).lookup ((0, 1) : UInt64 × UInt64) = none := by decide

#print axioms slotOf_lt
#print axioms Cache.new_inRange
#print axioms run_inRange
#print axioms C18_get_lookup
#print axioms C18_lookup
#print axioms C18_get
#print axioms C18_lookup_new
#print axioms lastWrite_iff
#print axioms C18_lookup_explicit
#print axioms C18_never_other_key
#print axioms C18_clear
#print axioms C18_clear_run
#print axioms run_stats
#print axioms C18_stats
#print axioms C18_stats_new

end P

import BddProofs.TotalBase
import BddProofs.Restrict
/-! `restrict` terminates and hits no assertion (totality half) on the real store.
Measure: level f + level g (level = `V + 1 - var`, 0 for terminals), plus the uniform fuel
`iteFuel V` needed by the `apply_ite` call of the abstraction branch.  Every recursive call
strictly lowers the level sum: in the cofactor branches the argument whose variable is the
top variable `v` is replaced by a cofactor, in the abstraction branch `g` (variable `v`) is
replaced by `g1 ∨ g0`, whose function ignores `v`.  The only failure left is
"Storage is full" (raised by `mk_node` / `apply_ite`). -/
namespace P
open Arr

theorem restrict_total (V : Nat) : ∀ fuel s f g φf φg, Good s → VarsLe s V →
    Valid s.nodes f φf → Valid s.nodes g φg →
    lv s V f + lv s V g + iteFuel V < fuel → TotalOut V (restrict fuel s f g) := by
  intro fuel
  induction fuel with
  | zero => intro s f g φf φg _ _ _ _ h; omega
  | succ fuel ih =>
    intro s f g φf φg hg hV vf vg hfuel
    have done : ∀ x, TotalOut V (.ok (s, x) : Res (St × Ref)) :=
      fun x => Or.inl ⟨s, x, rfl, hV⟩
    unfold restrict
    by_cases c1 : isZero g = true
    · rw [if_pos c1]; exact done _
    rw [if_neg c1]
    by_cases c2 : (isOne g || isTerminal f) = true
    · rw [if_pos c2]; exact done _
    rw [if_neg c2]
    have hgnz : isZero g = false := by simpa using c1
    have hgno : isOne g = false := by
      cases h : isOne g <;> simp_all
    have hfnt : isTerminal f = false := by
      cases h : isTerminal f <;> simp_all
    have hgnt : isTerminal g = false := not_terminal_of hgno hgnz
    by_cases c3 : f = g
    · rw [if_pos c3]; exact done _
    rw [if_neg c3]
    by_cases c4 : f = g.not
    · rw [if_pos c4]; exact done _
    rw [if_neg c4]
    cases hc : (s.cacheGet (.restrict f g)).2 with
    | some res => exact Or.inl ⟨_, res, rfl, hV⟩
    | none =>
    simp only
    -- continue in the state after the cache probe (same storage, counters bumped)
    have hg0 := hg.cacheGet (.restrict f g)
    have hV0 : VarsLe (s.cacheGet (.restrict f g)).1 V := hV
    have vf0 : Valid (s.cacheGet (.restrict f g)).1.nodes f φf := vf
    have vg0 : Valid (s.cacheGet (.restrict f g)).1.nodes g φg := vg
    have hfuel0 : lv (s.cacheGet (.restrict f g)).1 V f + lv (s.cacheGet (.restrict f g)).1 V g + iteFuel V
        < fuel + 1 := hfuel
    clear hfuel vf vg hV done
    generalize (s.cacheGet (.restrict f g)).1 = s0 at *
    clear hc hg s
    have hfv := var_bounds hg0 hV0 vf0 hfnt
    have hgv := var_bounds hg0 hV0 vg0 hgnt
    have hfl := lv_pos hg0 hV0 vf0 hfnt
    have hlf : lv s0 V f = V + 1 - s0.var f := lv_eq (by omega)
    have hlg : lv s0 V g = V + 1 - s0.var g := lv_eq (by omega)
    generalize hv : min (s0.var f) (s0.var g) = v
    have hvf' : v ≤ s0.var f := by omega
    have hvg' : v ≤ s0.var g := by omega
    have hv0 : v ≠ 0 := by omega
    have hvV : v ≤ V := by omega
    have hatt : s0.var f = v ∨ s0.var g = v := by omega
    obtain ⟨f0, f1, ef, lf0, lf1, sfl⟩ := topCofactors_total hg0 hV0 vf0 hv0 (fun _ => hvf')
    obtain ⟨g0, g1, eg, lg0, lg1, sgl⟩ := topCofactors_total hg0 hV0 vg0 hv0 (fun _ => hvg')
    simp only [ef, eg]
    have sf : SuppGe φf v := supp_of_var hg0 vf0 (fun _ => hvf')
    have sg : SuppGe φg v := supp_of_var hg0 vg0 (fun _ => hvg')
    obtain ⟨vf0', vf1'⟩ := topCofactors_spec hg0 vf0 sf ef
    obtain ⟨vg0', vg1'⟩ := topCofactors_spec hg0 vg0 sg eg
    -- both cofactor pairs have a strictly smaller level sum
    have sum0 : lv s0 V f0 + lv s0 V g0 < lv s0 V f + lv s0 V g := by
      rcases hatt with e | e
      · have := (sfl e).1; omega
      · have := (sgl e).1; omega
    have sum1 : lv s0 V f1 + lv s0 V g1 < lv s0 V f + lv s0 V g := by
      rcases hatt with e | e
      · have := (sfl e).2; omega
      · have := (sgl e).2; omega
    by_cases c5 : isZero g1 = true
    · rw [if_pos c5]
      exact ih s0 f0 g0 _ _ hg0 hV0 vf0' vg0' (by omega)
    rw [if_neg c5]
    by_cases c6 : isZero g0 = true
    · rw [if_pos c6]
      exact ih s0 f1 g1 _ _ hg0 hV0 vf1' vg1' (by omega)
    rw [if_neg c6]
    by_cases c7 : v = s0.var f
    · rw [if_pos c7]
      rcases ih s0 f0 g0 _ _ hg0 hV0 vf0' vg0' (by omega) with ⟨s1, low, e1, hV1⟩ | ⟨s1, e1⟩
      rotate_left
      · simp only [e1]; exact Or.inr ⟨_, rfl⟩
      simp only [e1]
      obtain ⟨g1', sub1, -⟩ := restrict_spec _ _ _ _ _ _ _ _ hg0 vf0' vg0' e1
      have l1f := lv_mono hg0 g1' sub1 V vf1'
      have l1g := lv_mono hg0 g1' sub1 V vg1'
      rcases ih s1 f1 g1 _ _ g1' hV1 (vf1'.mono sub1) (vg1'.mono sub1) (by omega) with
        ⟨s2, high, e2, hV2⟩ | ⟨s2, e2⟩
      rotate_left
      · simp only [e2]; exact Or.inr ⟨_, rfl⟩
      simp only [e2]
      obtain ⟨g2', sub2, -⟩ := restrict_spec _ _ _ _ _ _ _ _ g1' (vf1'.mono sub1) (vg1'.mono sub1) e2
      rcases mkNode_tot g2' hV2 hv0 hvV low high with ⟨s3, res, e3, hV3⟩ | ⟨s3, e3⟩
      · simp only [e3]; exact Or.inl ⟨_, _, rfl, hV3.cacheInsert _ _⟩
      · simp only [e3]; exact Or.inr ⟨_, rfl⟩
    · rw [if_neg c7]
      -- abstraction: `v` is the variable of `g` only
      have hvg : v = s0.var g := by omega
      rcases applyIte_total_unif hg0 hV0 vg1' Valid.one vg0' (by omega : iteFuel V < fuel) with
        ⟨s1, g', e1, hV1⟩ | ⟨s1, e1⟩
      rotate_left
      · simp only [e1]; exact Or.inr ⟨_, rfl⟩
      simp only [e1]
      obtain ⟨g1', sub1, vg'⟩ := applyIte_spec fuel _ _ _ _ _ _ _ _ _ hg0 vg1' Valid.one vg0' e1
      have sgg : SuppGe (ITE (cof φg v true) (fun _ => true) (cof φg v false)) (v + 1) :=
        SuppGe.ite (suppGe_cof_succ sg) (SuppGe.const _ _) (suppGe_cof_succ sg)
      have l1 := lv_le_of_supp g1' V vg' sgg
      have l1f := lv_mono hg0 g1' sub1 V vf0
      rcases ih s1 f g' _ _ g1' hV1 (vf0.mono sub1) vg' (by omega) with ⟨s2, res, e2, hV2⟩ | ⟨s2, e2⟩
      · simp only [e2]; exact Or.inl ⟨_, _, rfl, hV2.cacheInsert _ _⟩
      · simp only [e2]; exact Or.inr ⟨_, rfl⟩

/-- totality of `restrict`: with fuel above `level f + level g + iteFuel V`, `restrict` on live
arguments returns a result (variable bound kept) or fails with "Storage is full" — it never
runs out of fuel and never trips the `top_cofactors` assertion. -/
theorem restrict_total' {V fuel : Nat} {s : St} {f g : Ref} {φf φg : Fn} (hg : Good s) (hV : VarsLe s V)
    (vf : Valid s.nodes f φf) (vg : Valid s.nodes g φg) (hfuel : lv s V f + lv s V g + iteFuel V < fuel) :
    TotalSpec V (restrict fuel s f g) :=
  TotOut.spec (restrict_total V fuel s f g φf φg hg hV vf vg hfuel)

/-- … with a fuel bound that depends on the variable bound only -/
theorem restrict_total_unif {V fuel : Nat} {s : St} {f g : Ref} {φf φg : Fn} (hg : Good s) (hV : VarsLe s V)
    (vf : Valid s.nodes f φf) (vg : Valid s.nodes g φg) (hfuel : 2 * (V + 1) + iteFuel V < fuel) :
    TotalSpec V (restrict fuel s f g) := by
  have a := lv_le s V f; have b := lv_le s V g
  exact restrict_total' hg hV vf vg (by omega)

/-- in particular the "would-be panics other than a full table" are unreachable -/
theorem restrict_no_fault {V fuel : Nat} {s : St} {f g : Ref} {φf φg : Fn} (hg : Good s) (hV : VarsLe s V)
    (vf : Valid s.nodes f φf) (vg : Valid s.nodes g φg) (hfuel : 2 * (V + 1) + iteFuel V < fuel) (s' : St) :
    restrict fuel s f g ≠ .error (.outOfFuel, s') ∧ restrict fuel s f g ≠ .error (.assertion, s') ∧
    restrict fuel s f g ≠ .error (.indexOob, s') := by
  have := (restrict_total_unif hg hV vf vg hfuel).2.2
  refine ⟨fun e => ?_, fun e => ?_, fun e => ?_⟩ <;> · have := this _ _ e; cases this

#print axioms restrict_total
#print axioms restrict_total'
#print axioms restrict_total_unif
#print axioms restrict_no_fault
end P

import BddProofs.Derived
/-! C03, "read with Rust's operator precedence": facts about the model's reader `parseRust`
(`BddModel/Expr.lean`) for token strings written with the overloaded operators `- * + ^`.

Contents
* §1 semantics of parsed values (`PV.Sem`), `PV.neg/mul/add/bxor` denote NOT/AND/OR/XOR, `PV.eval_spec`.
* §2 a reference grammar: abstract syntax `Ast`, its printing `Ast.toks`, its value `Ast.val`, and the
  stratified precedence grammar `Lev n a` (levels: 0 primary, 1 unary `-`, 2 `*`, 3 `+`, 4 `^`; binary
  operators left-recursive, i.e. left-associative).
* §3 GENERAL: `parseRust` is exactly that grammar (`parseRust_complete`, `parseRust_sound`, `parseRust_iff`).
* §4 GENERAL corollaries: operator chains fold to the left and nest as precedence dictates.
* §5 end-to-end semantic statement (`parseRust_eval_spec`).
* §6 TABLE of concrete instances (closed by `rfl`). -/
namespace P

/-! ### §1 semantics of parsed values -/

/-- the meaning of a parsed value over live handles -/
inductive PV.Sem (nd : Nodes) : PV → Fn → Prop
  | ref {r φ} : Valid nd r φ → PV.Sem nd (.ref r) φ
  | expr {x φ} : Expr.Sem nd x φ → PV.Sem nd (.expr x) φ

theorem PV.Sem.mono {nd nd' v φ} (hs : Sub nd nd') (h : PV.Sem nd v φ) : PV.Sem nd' v φ := by
  cases h with
  | ref v => exact .ref (v.mono hs)
  | expr hx => exact .expr (hx.mono hs)

/-- `Expr::term(self)` / identity conversion keeps the meaning -/
theorem PV.Sem.toExpr {nd v φ} (h : PV.Sem nd v φ) : Expr.Sem nd v.toExpr φ := by
  cases h with
  | ref v => exact .term v
  | expr hx => exact hx

/-- unary minus denotes NOT — whichever rewrite of `Expr::not` fires (flipped handle, cancelled double
negation, negated term, or a `not` node) -/
theorem PV.neg_sem {nd v φ} (h : PV.Sem nd v φ) : PV.Sem nd v.neg (fun e => !φ e) := by
  cases h with
  | ref v => exact .ref v.not
  | expr hx => exact .expr (Expr.mkNot_sem hx)

theorem PV.mul_sem {nd a b φ ψ} (ha : PV.Sem nd a φ) (hb : PV.Sem nd b ψ) :
    PV.Sem nd (a.mul b) (fun e => φ e && ψ e) := .expr (.and ha.toExpr hb.toExpr)

theorem PV.add_sem {nd a b φ ψ} (ha : PV.Sem nd a φ) (hb : PV.Sem nd b ψ) :
    PV.Sem nd (a.add b) (fun e => φ e || ψ e) := .expr (.or ha.toExpr hb.toExpr)

theorem PV.bxor_sem {nd a b φ ψ} (ha : PV.Sem nd a φ) (hb : PV.Sem nd b ψ) :
    PV.Sem nd (a.bxor b) (fun e => φ e != ψ e) := .expr (.xor ha.toExpr hb.toExpr)

/-- `Expr::term(v)` (token `t`) keeps the meaning -/
theorem PV.term_sem {nd v φ} (h : PV.Sem nd v φ) : PV.Sem nd (.expr v.toExpr) φ := .expr h.toExpr

/-- `bdd.eval(value)`: evaluating a parsed value yields a handle denoting its meaning -/
theorem PV.eval_spec {fuel : Nat} {v : PV} {s : St} {φ : Fn} {s' r} (hg : Good s) (hs : PV.Sem s.nodes v φ)
    (h : v.eval fuel s = .ok (s', r)) : Post s s' r φ := by
  cases hs with
  | ref hv =>
    simp only [PV.eval, Except.ok.injEq, Prod.mk.injEq] at h
    obtain ⟨rfl, rfl⟩ := h
    exact ⟨hg, fun _ _ x => x, hv⟩
  | expr hx => exact Expr.eval_spec fuel _ s φ s' r hg hx h

/-- the meaning of a parsed value is unique -/
theorem Expr.Sem.det {nd : Nodes} (h1 : nd 1 = none) {x φ ψ} (a : Expr.Sem nd x φ) (b : Expr.Sem nd x ψ) : φ = ψ := by
  induction a generalizing ψ with
  | term v => cases b with | term w => exact v.det h1 w
  | not _ ih => cases b with | not hb => rw [ih hb]
  | and _ _ iha ihb => cases b with | and ha hb => rw [iha ha, ihb hb]
  | or _ _ iha ihb => cases b with | or ha hb => rw [iha ha, ihb hb]
  | xor _ _ iha ihb => cases b with | xor ha hb => rw [iha ha, ihb hb]

/-! ### §2 the reference grammar -/

/-- abstract syntax of a token string, with all structure explicit -/
inductive Ast where
  | h (r : Ref)            -- a handle
  | t (a : Ast)            -- `Expr::term(a)`
  | paren (a : Ast)        -- `( a )`
  | neg (a : Ast)          -- `- a`
  | mul (a b : Ast)        -- `a * b`
  | add (a b : Ast)        -- `a + b`
  | xor (a b : Ast)        -- `a ^ b`

/-- printing: parentheses appear only where the tree has a `paren` node -/
def Ast.toks : Ast → List Tok
  | .h r => [.h r]
  | .t a => .t :: a.toks
  | .paren a => .lpar :: (a.toks ++ [.rpar])
  | .neg a => .minus :: a.toks
  | .mul a b => a.toks ++ .star :: b.toks
  | .add a b => a.toks ++ .plus :: b.toks
  | .xor a b => a.toks ++ .caret :: b.toks

/-- the Rust value the tree computes (the overloaded operators applied along the tree) -/
def Ast.val : Ast → PV
  | .h r => .ref r
  | .t a => .expr a.val.toExpr
  | .paren a => a.val
  | .neg a => a.val.neg
  | .mul a b => a.val.mul b.val
  | .add a b => a.val.add b.val
  | .xor a b => a.val.bxor b.val

/-- The stratified precedence grammar. `Lev n a`: the tree `a` is a phrase of level `n`
(0 primary, 1 unary, 2 product, 3 sum, 4 xor):
```
primary := handle | `t` primary | `(` xor `)`
unary   := primary | `-` unary
product := unary   | product `*` unary        -- left-associative, binds tighter than `+`
sum     := product | sum `+` product          -- left-associative, binds tighter than `^`
xor     := sum     | xor `^` sum              -- left-associative
``` -/
inductive Lev : Nat → Ast → Prop
  | h (r : Ref) : Lev 0 (.h r)
  | t {a} : Lev 0 a → Lev 0 (.t a)
  | paren {a} : Lev 4 a → Lev 0 (.paren a)
  | prim {a} : Lev 0 a → Lev 1 a
  | neg {a} : Lev 1 a → Lev 1 (.neg a)
  | un {a} : Lev 1 a → Lev 2 a
  | mul {a b} : Lev 2 a → Lev 1 b → Lev 2 (.mul a b)
  | prod {a} : Lev 2 a → Lev 3 a
  | add {a b} : Lev 3 a → Lev 2 b → Lev 3 (.add a b)
  | sum {a} : Lev 3 a → Lev 4 a
  | xor {a b} : Lev 4 a → Lev 3 b → Lev 4 (.xor a b)

def isMinus : List Tok → Bool | .minus :: _ => true | _ => false
def isStar : List Tok → Bool | .star :: _ => true | _ => false
def isPlus : List Tok → Bool | .plus :: _ => true | _ => false
def isCaret : List Tok → Bool | .caret :: _ => true | _ => false

theorem isMinus_true {l} (h : isMinus l = true) : ∃ r, l = .minus :: r := by
  cases l with
  | nil => simp [isMinus] at h
  | cons a r => cases a <;> simp [isMinus] at h; exact ⟨r, rfl⟩
theorem isStar_true {l} (h : isStar l = true) : ∃ r, l = .star :: r := by
  cases l with
  | nil => simp [isStar] at h
  | cons a r => cases a <;> simp [isStar] at h; exact ⟨r, rfl⟩
theorem isPlus_true {l} (h : isPlus l = true) : ∃ r, l = .plus :: r := by
  cases l with
  | nil => simp [isPlus] at h
  | cons a r => cases a <;> simp [isPlus] at h; exact ⟨r, rfl⟩
theorem isCaret_true {l} (h : isCaret l = true) : ∃ r, l = .caret :: r := by
  cases l with
  | nil => simp [isCaret] at h
  | cons a r => cases a <;> simp [isCaret] at h; exact ⟨r, rfl⟩

/-! #### unfolding equations of the reader, in `Option.bind` form -/

abbrev PR := Option (PV × List Tok)

theorem parsePrimary_zero (toks) : parsePrimary 0 toks = none := by simp [parsePrimary]
theorem parseUnary_zero (toks) : parseUnary 0 toks = none := by simp [parseUnary]
theorem parseMulTail_zero (acc toks) : parseMulTail 0 acc toks = none := by simp [parseMulTail]
theorem parseMul_zero (toks) : parseMul 0 toks = none := by simp [parseMul]
theorem parseAddTail_zero (acc toks) : parseAddTail 0 acc toks = none := by simp [parseAddTail]
theorem parseAdd_zero (toks) : parseAdd 0 toks = none := by simp [parseAdd]
theorem parseXorTail_zero (acc toks) : parseXorTail 0 acc toks = none := by simp [parseXorTail]
theorem parseXor_zero (toks) : parseXor 0 toks = none := by simp [parseXor]

theorem parsePrimary_h (f r rest) : parsePrimary (f + 1) (.h r :: rest) = some (.ref r, rest) := by
  simp [parsePrimary]
theorem parsePrimary_t (f rest) : parsePrimary (f + 1) (.t :: rest) =
    (parsePrimary f rest).bind (fun p => some (.expr p.1.toExpr, p.2)) := by
  simp only [parsePrimary]; cases parsePrimary f rest <;> rfl
def closePar (p : PV × List Tok) : PR :=
  match p.2 with
  | .rpar :: r' => some (p.1, r')
  | _ => none
theorem parsePrimary_lpar (f rest) : parsePrimary (f + 1) (.lpar :: rest) = (parseXor f rest).bind closePar := by
  simp only [parsePrimary]
  cases parseXor f rest with
  | none => rfl
  | some p =>
    obtain ⟨v, r⟩ := p
    cases r with
    | nil => rfl
    | cons a r => cases a <;> rfl
theorem parsePrimary_nil (f) : parsePrimary f [] = none := by
  cases f <;> simp [parsePrimary]
theorem parsePrimary_other (f tk rest) (h1 : ∀ r, tk ≠ .h r) (h2 : tk ≠ .t) (h3 : tk ≠ .lpar) :
    parsePrimary f (tk :: rest) = none := by
  cases f with
  | zero => simp [parsePrimary]
  | succ f => cases tk <;> simp_all [parsePrimary]

theorem parseUnary_minus (f rest) : parseUnary (f + 1) (.minus :: rest) =
    (parseUnary f rest).bind (fun p => some (p.1.neg, p.2)) := by
  simp only [parseUnary]; cases parseUnary f rest <;> rfl
theorem parseUnary_of (f) {toks} (h : isMinus toks = false) : parseUnary (f + 1) toks = parsePrimary f toks := by
  cases toks with
  | nil => simp [parseUnary]
  | cons a r => cases a <;> first | (simp [isMinus] at h; done) | simp [parseUnary]

theorem parseMulTail_star (f acc rest) : parseMulTail (f + 1) acc (.star :: rest) =
    (parseUnary f rest).bind (fun p => parseMulTail f (acc.mul p.1) p.2) := by
  simp only [parseMulTail]; cases parseUnary f rest <;> rfl
theorem parseMulTail_of (f acc) {toks} (h : isStar toks = false) : parseMulTail (f + 1) acc toks = some (acc, toks) := by
  cases toks with
  | nil => simp [parseMulTail]
  | cons a r => cases a <;> first | (simp [isStar] at h; done) | simp [parseMulTail]
theorem parseMul_succ (f toks) : parseMul (f + 1) toks = (parseUnary f toks).bind (fun p => parseMulTail f p.1 p.2) := by
  simp only [parseMul]; cases parseUnary f toks <;> rfl

theorem parseAddTail_plus (f acc rest) : parseAddTail (f + 1) acc (.plus :: rest) =
    (parseMul f rest).bind (fun p => parseAddTail f (acc.add p.1) p.2) := by
  simp only [parseAddTail]; cases parseMul f rest <;> rfl
theorem parseAddTail_of (f acc) {toks} (h : isPlus toks = false) : parseAddTail (f + 1) acc toks = some (acc, toks) := by
  cases toks with
  | nil => simp [parseAddTail]
  | cons a r => cases a <;> first | (simp [isPlus] at h; done) | simp [parseAddTail]
theorem parseAdd_succ (f toks) : parseAdd (f + 1) toks = (parseMul f toks).bind (fun p => parseAddTail f p.1 p.2) := by
  simp only [parseAdd]; cases parseMul f toks <;> rfl

theorem parseXorTail_caret (f acc rest) : parseXorTail (f + 1) acc (.caret :: rest) =
    (parseAdd f rest).bind (fun p => parseXorTail f (acc.bxor p.1) p.2) := by
  simp only [parseXorTail]; cases parseAdd f rest <;> rfl
theorem parseXorTail_of (f acc) {toks} (h : isCaret toks = false) : parseXorTail (f + 1) acc toks = some (acc, toks) := by
  cases toks with
  | nil => simp [parseXorTail]
  | cons a r => cases a <;> first | (simp [isCaret] at h; done) | simp [parseXorTail]
theorem parseXor_succ (f toks) : parseXor (f + 1) toks = (parseAdd f toks).bind (fun p => parseXorTail f p.1 p.2) := by
  simp only [parseXor]; cases parseAdd f toks <;> rfl

/-! #### more fuel never changes a successful parse -/

theorem bind_mono {α β} {x x' : Option α} {k k' : α → Option β} (hx : ∀ a, x = some a → x' = some a)
    (hk : ∀ a r, k a = some r → k' a = some r) {r} (h : x.bind k = some r) : x'.bind k' = some r := by
  cases x with
  | none => simp at h
  | some a => rw [hx a rfl]; exact hk a r h

def Mono1 (p : Nat → List Tok → PR) (f : Nat) : Prop := ∀ toks r, p f toks = some r → p (f + 1) toks = some r
def Mono2 (p : Nat → PV → List Tok → PR) (f : Nat) : Prop :=
  ∀ acc toks r, p f acc toks = some r → p (f + 1) acc toks = some r

theorem parse_mono_step : ∀ f, Mono1 parsePrimary f ∧ Mono1 parseUnary f ∧ Mono2 parseMulTail f ∧ Mono1 parseMul f ∧
    Mono2 parseAddTail f ∧ Mono1 parseAdd f ∧ Mono2 parseXorTail f ∧ Mono1 parseXor f := by
  intro f
  induction f with
  | zero =>
    refine ⟨?_, ?_, ?_, ?_, ?_, ?_, ?_, ?_⟩
    · intro toks r h; simp [parsePrimary_zero] at h
    · intro toks r h; simp [parseUnary_zero] at h
    · intro acc toks r h; simp [parseMulTail_zero] at h
    · intro toks r h; simp [parseMul_zero] at h
    · intro acc toks r h; simp [parseAddTail_zero] at h
    · intro toks r h; simp [parseAdd_zero] at h
    · intro acc toks r h; simp [parseXorTail_zero] at h
    · intro toks r h; simp [parseXor_zero] at h
  | succ f ih =>
    obtain ⟨iP, iU, iMT, iM, iAT, iA, iXT, iX⟩ := ih
    refine ⟨?_, ?_, ?_, ?_, ?_, ?_, ?_, ?_⟩
    · intro toks r h
      cases toks with
      | nil => simp [parsePrimary_nil] at h
      | cons tk rest =>
        cases tk with
        | h x => rw [parsePrimary_h] at h ⊢; exact h
        | t => rw [parsePrimary_t] at h ⊢; exact bind_mono (iP _) (fun _ _ x => x) h
        | lpar => rw [parsePrimary_lpar] at h ⊢; exact bind_mono (iX _) (fun _ _ x => x) h
        | _ => rw [parsePrimary_other _ _ _ (by intro r; simp) (by simp) (by simp)] at h; cases h
    · intro toks r h
      by_cases hm : isMinus toks = true
      · obtain ⟨rest, rfl⟩ := isMinus_true hm
        rw [parseUnary_minus] at h ⊢; exact bind_mono (iU _) (fun _ _ x => x) h
      · have hm : isMinus toks = false := by simpa using hm
        rw [parseUnary_of _ hm] at h ⊢; exact iP _ _ h
    · intro acc toks r h
      by_cases hm : isStar toks = true
      · obtain ⟨rest, rfl⟩ := isStar_true hm
        rw [parseMulTail_star] at h ⊢; exact bind_mono (iU _) (fun _ _ x => iMT _ _ _ x) h
      · have hm : isStar toks = false := by simpa using hm
        rw [parseMulTail_of _ _ hm] at h ⊢; exact h
    · intro toks r h
      rw [parseMul_succ] at h ⊢; exact bind_mono (iU _) (fun _ _ x => iMT _ _ _ x) h
    · intro acc toks r h
      by_cases hm : isPlus toks = true
      · obtain ⟨rest, rfl⟩ := isPlus_true hm
        rw [parseAddTail_plus] at h ⊢; exact bind_mono (iM _) (fun _ _ x => iAT _ _ _ x) h
      · have hm : isPlus toks = false := by simpa using hm
        rw [parseAddTail_of _ _ hm] at h ⊢; exact h
    · intro toks r h
      rw [parseAdd_succ] at h ⊢; exact bind_mono (iM _) (fun _ _ x => iAT _ _ _ x) h
    · intro acc toks r h
      by_cases hm : isCaret toks = true
      · obtain ⟨rest, rfl⟩ := isCaret_true hm
        rw [parseXorTail_caret] at h ⊢; exact bind_mono (iA _) (fun _ _ x => iXT _ _ _ x) h
      · have hm : isCaret toks = false := by simpa using hm
        rw [parseXorTail_of _ _ hm] at h ⊢; exact h
    · intro toks r h
      rw [parseXor_succ] at h ⊢; exact bind_mono (iA _) (fun _ _ x => iXT _ _ _ x) h

theorem mono1_le {p : Nat → List Tok → PR} (hp : ∀ f, Mono1 p f) {f f'} (hle : f ≤ f') {toks r}
    (h : p f toks = some r) : p f' toks = some r := by
  induction hle with
  | refl => exact h
  | step _ ih => exact hp _ _ _ ih
theorem mono2_le {p : Nat → PV → List Tok → PR} (hp : ∀ f, Mono2 p f) {f f'} (hle : f ≤ f') {acc toks r}
    (h : p f acc toks = some r) : p f' acc toks = some r := by
  induction hle with
  | refl => exact h
  | step _ ih => exact hp _ _ _ _ ih

theorem parsePrimary_mono {f f' toks r} (hle : f ≤ f') (h : parsePrimary f toks = some r) : parsePrimary f' toks = some r :=
  mono1_le (fun f => (parse_mono_step f).1) hle h
theorem parseUnary_mono {f f' toks r} (hle : f ≤ f') (h : parseUnary f toks = some r) : parseUnary f' toks = some r :=
  mono1_le (fun f => (parse_mono_step f).2.1) hle h
theorem parseMulTail_mono {f f' acc toks r} (hle : f ≤ f') (h : parseMulTail f acc toks = some r) :
    parseMulTail f' acc toks = some r := mono2_le (fun f => (parse_mono_step f).2.2.1) hle h
theorem parseMul_mono {f f' toks r} (hle : f ≤ f') (h : parseMul f toks = some r) : parseMul f' toks = some r :=
  mono1_le (fun f => (parse_mono_step f).2.2.2.1) hle h
theorem parseAddTail_mono {f f' acc toks r} (hle : f ≤ f') (h : parseAddTail f acc toks = some r) :
    parseAddTail f' acc toks = some r := mono2_le (fun f => (parse_mono_step f).2.2.2.2.1) hle h
theorem parseAdd_mono {f f' toks r} (hle : f ≤ f') (h : parseAdd f toks = some r) : parseAdd f' toks = some r :=
  mono1_le (fun f => (parse_mono_step f).2.2.2.2.2.1) hle h
theorem parseXorTail_mono {f f' acc toks r} (hle : f ≤ f') (h : parseXorTail f acc toks = some r) :
    parseXorTail f' acc toks = some r := mono2_le (fun f => (parse_mono_step f).2.2.2.2.2.2.1) hle h
theorem parseXor_mono {f f' toks r} (hle : f ≤ f') (h : parseXor f toks = some r) : parseXor f' toks = some r :=
  mono1_le (fun f => (parse_mono_step f).2.2.2.2.2.2.2) hle h

/-! ### §3 GENERAL: the reader is exactly the precedence grammar -/

/-- the induction invariant of completeness, per level; `c` is the recursion depth the phrase needs -/
def Spec : Nat → Ast → Prop
  | 0, a => (∀ rest, isMinus (a.toks ++ rest) = false) ∧ ∃ c, c + 7 ≤ 8 * a.toks.length ∧
      ∀ f rest, c ≤ f → parsePrimary f (a.toks ++ rest) = some (a.val, rest)
  | 1, a => ∃ c, c + 7 ≤ 8 * a.toks.length + 2 ∧
      ∀ f rest, c ≤ f → parseUnary f (a.toks ++ rest) = some (a.val, rest)
  | 2, a => ∃ c, c + 7 ≤ 8 * a.toks.length + 4 ∧
      ∀ f g rest res, c ≤ f → parseMulTail g a.val rest = some res → parseMul (f + g) (a.toks ++ rest) = some res
  | 3, a => ∃ c, c + 7 ≤ 8 * a.toks.length + 6 ∧
      ∀ f g rest res, c ≤ f → isStar rest = false → parseAddTail g a.val rest = some res →
        parseAdd (f + g) (a.toks ++ rest) = some res
  | 4, a => ∃ c, c + 7 ≤ 8 * a.toks.length + 8 ∧
      ∀ f g rest res, c ≤ f → isStar rest = false → isPlus rest = false → parseXorTail g a.val rest = some res →
        parseXor (f + g) (a.toks ++ rest) = some res
  | _, _ => True

theorem spec_of_lev {n a} (h : Lev n a) : Spec n a := by
  induction h with
  | h r =>
    refine ⟨fun rest => rfl, 1, by simp [Ast.toks], ?_⟩
    intro f rest hf
    obtain ⟨k, rfl⟩ : ∃ k, f = k + 1 := ⟨f - 1, by omega⟩
    exact parsePrimary_h _ _ _
  | @t a _ ih =>
    obtain ⟨_, c, hc, ih⟩ := ih
    refine ⟨fun rest => rfl, c + 1, by simp [Ast.toks]; omega, ?_⟩
    intro f rest hf
    obtain ⟨k, rfl⟩ : ∃ k, f = k + 1 := ⟨f - 1, by omega⟩
    show parsePrimary (k + 1) (.t :: (a.toks ++ rest)) = _
    rw [parsePrimary_t, ih k rest (by omega)]; rfl
  | @paren a _ ih =>
    obtain ⟨c, hc, ih⟩ := ih
    refine ⟨fun rest => rfl, c + 2, by simp [Ast.toks]; omega, ?_⟩
    intro f rest hf
    obtain ⟨k, rfl⟩ : ∃ k, f = k + 1 + 1 := ⟨f - 2, by omega⟩
    have e : (Ast.paren a).toks ++ rest = .lpar :: (a.toks ++ .rpar :: rest) := by simp [Ast.toks]
    rw [e, parsePrimary_lpar, ih k 1 (.rpar :: rest) _ (by omega) rfl rfl (parseXorTail_of 0 _ rfl)]; rfl
  | @prim a _ ih =>
    obtain ⟨hm, c, hc, ih⟩ := ih
    refine ⟨c + 1, by omega, ?_⟩
    intro f rest hf
    obtain ⟨k, rfl⟩ : ∃ k, f = k + 1 := ⟨f - 1, by omega⟩
    rw [parseUnary_of _ (hm rest)]; exact ih k rest (by omega)
  | @neg a _ ih =>
    obtain ⟨c, hc, ih⟩ := ih
    refine ⟨c + 1, by simp [Ast.toks]; omega, ?_⟩
    intro f rest hf
    obtain ⟨k, rfl⟩ : ∃ k, f = k + 1 := ⟨f - 1, by omega⟩
    show parseUnary (k + 1) (.minus :: (a.toks ++ rest)) = _
    rw [parseUnary_minus, ih k rest (by omega)]; rfl
  | @un a _ ih =>
    obtain ⟨c, hc, ih⟩ := ih
    refine ⟨c + 1, by omega, ?_⟩
    intro f g rest res hf ht
    obtain ⟨k, hk⟩ : ∃ k, f + g = k + 1 := ⟨f + g - 1, by omega⟩
    rw [hk, parseMul_succ, ih k rest (by omega)]
    exact parseMulTail_mono (by omega) ht
  | @mul a b _ _ iha ihb =>
    obtain ⟨ca, hca, iha⟩ := iha
    obtain ⟨cb, hcb, ihb⟩ := ihb
    refine ⟨ca + cb + 1, by simp [Ast.toks]; omega, ?_⟩
    intro f g rest res hf ht
    have e : (Ast.mul a b).toks ++ rest = a.toks ++ .star :: (b.toks ++ rest) := by simp [Ast.toks]
    obtain ⟨k, hk⟩ : ∃ k, f + g = ca + (k + 1) := ⟨f + g - ca - 1, by omega⟩
    rw [e, hk]
    apply iha ca (k + 1) _ _ (Nat.le_refl _)
    rw [parseMulTail_star, ihb k (rest) (by omega)]
    exact parseMulTail_mono (by omega) ht
  | @prod a _ ih =>
    obtain ⟨c, hc, ih⟩ := ih
    refine ⟨c + 2, by omega, ?_⟩
    intro f g rest res hf hs ht
    obtain ⟨k, hk⟩ : ∃ k, f + g = (c + (k + 1)) + 1 := ⟨f + g - c - 2, by omega⟩
    rw [hk, parseAdd_succ, ih c (k + 1) rest _ (Nat.le_refl _) (parseMulTail_of k _ hs)]
    exact parseAddTail_mono (by omega) ht
  | @add a b _ _ iha ihb =>
    obtain ⟨ca, hca, iha⟩ := iha
    obtain ⟨cb, hcb, ihb⟩ := ihb
    refine ⟨ca + cb + 2, by simp [Ast.toks]; omega, ?_⟩
    intro f g rest res hf hs ht
    have e : (Ast.add a b).toks ++ rest = a.toks ++ .plus :: (b.toks ++ rest) := by simp [Ast.toks]
    obtain ⟨k, hk⟩ : ∃ k, f + g = ca + ((cb + (k + 1)) + 1) := ⟨f + g - ca - cb - 2, by omega⟩
    rw [e, hk]
    apply iha ca _ _ _ (Nat.le_refl _) rfl
    rw [parseAddTail_plus, ihb cb (k + 1) rest _ (Nat.le_refl _) (parseMulTail_of k _ hs)]
    exact parseAddTail_mono (by omega) ht
  | @sum a _ ih =>
    obtain ⟨c, hc, ih⟩ := ih
    refine ⟨c + 2, by omega, ?_⟩
    intro f g rest res hf hs hp ht
    obtain ⟨k, hk⟩ : ∃ k, f + g = (c + (k + 1)) + 1 := ⟨f + g - c - 2, by omega⟩
    rw [hk, parseXor_succ, ih c (k + 1) rest _ (Nat.le_refl _) hs (parseAddTail_of k _ hp)]
    exact parseXorTail_mono (by omega) ht
  | @xor a b _ _ iha ihb =>
    obtain ⟨ca, hca, iha⟩ := iha
    obtain ⟨cb, hcb, ihb⟩ := ihb
    refine ⟨ca + cb + 2, by simp [Ast.toks]; omega, ?_⟩
    intro f g rest res hf hs hp ht
    have e : (Ast.xor a b).toks ++ rest = a.toks ++ .caret :: (b.toks ++ rest) := by simp [Ast.toks]
    obtain ⟨k, hk⟩ : ∃ k, f + g = ca + ((cb + (k + 1)) + 1) := ⟨f + g - ca - cb - 2, by omega⟩
    rw [e, hk]
    apply iha ca _ _ _ (Nat.le_refl _) rfl rfl
    rw [parseXorTail_caret, ihb cb (k + 1) rest _ (Nat.le_refl _) hs (parseAddTail_of k _ hp)]
    exact parseXorTail_mono (by omega) ht

/-- a primary phrase is read back, whatever follows it -/
theorem parsePrimary_complete {a} (h : Lev 0 a) {f} (rest) (hf : 8 * a.toks.length ≤ f) :
    parsePrimary f (a.toks ++ rest) = some (a.val, rest) := by
  obtain ⟨_, c, hc, ih⟩ := spec_of_lev h
  exact ih f rest (by omega)

/-- a unary phrase is read back, whatever follows it -/
theorem parseUnary_complete {a} (h : Lev 1 a) {f} (rest) (hf : 8 * a.toks.length ≤ f) :
    parseUnary f (a.toks ++ rest) = some (a.val, rest) := by
  obtain ⟨c, hc, ih⟩ := spec_of_lev h
  exact ih f rest (by omega)

/-- a product phrase is read back, if what follows does not continue the product -/
theorem parseMul_complete {a} (h : Lev 2 a) {f rest} (hs : isStar rest = false) (hf : 8 * a.toks.length ≤ f) :
    parseMul f (a.toks ++ rest) = some (a.val, rest) := by
  obtain ⟨c, hc, ih⟩ := spec_of_lev h
  obtain ⟨k, rfl⟩ : ∃ k, f = k + 1 := ⟨f - 1, by omega⟩
  exact ih k 1 rest _ (by omega) (parseMulTail_of 0 _ hs)

/-- a sum phrase is read back, if what follows continues neither a product nor the sum -/
theorem parseAdd_complete {a} (h : Lev 3 a) {f rest} (hs : isStar rest = false) (hp : isPlus rest = false)
    (hf : 8 * a.toks.length ≤ f) : parseAdd f (a.toks ++ rest) = some (a.val, rest) := by
  obtain ⟨c, hc, ih⟩ := spec_of_lev h
  obtain ⟨k, rfl⟩ : ∃ k, f = k + 1 := ⟨f - 1, by omega⟩
  exact ih k 1 rest _ (by omega) hs (parseAddTail_of 0 _ hp)

/-- a xor phrase is read back, if what follows continues no binary operator -/
theorem parseXor_complete {a} (h : Lev 4 a) {f rest} (hs : isStar rest = false) (hp : isPlus rest = false)
    (hx : isCaret rest = false) (hf : 8 * a.toks.length + 2 ≤ f) : parseXor f (a.toks ++ rest) = some (a.val, rest) := by
  obtain ⟨c, hc, ih⟩ := spec_of_lev h
  obtain ⟨k, rfl⟩ : ∃ k, f = k + 1 := ⟨f - 1, by omega⟩
  exact ih k 1 rest _ (by omega) hs hp (parseXorTail_of 0 _ hx)

/-- GENERAL (completeness): every phrase of the precedence grammar, printed, is read back by `parseRust`
as the value of its tree. -/
theorem parseRust_complete {a} (h : Lev 4 a) : parseRust a.toks = some a.val := by
  have := parseXor_complete h (rest := []) rfl rfl rfl (f := 8 * a.toks.length + 8) (by omega)
  rw [List.append_nil] at this
  simp only [parseRust, this]

/-- the grammar is unambiguous as far as values are concerned: two grammatical trees that print to the same
token string compute the same value -/
theorem lev_val_unique {a b} (ha : Lev 4 a) (hb : Lev 4 b) (h : a.toks = b.toks) : a.val = b.val := by
  have h1 := parseRust_complete ha
  rw [h, parseRust_complete hb] at h1
  exact (Option.some.inj h1).symm

/-- soundness invariant at recursion depth `f` -/
def SoundAt (f : Nat) : Prop :=
  (∀ toks v rest, parsePrimary f toks = some (v, rest) → ∃ a, Lev 0 a ∧ toks = a.toks ++ rest ∧ a.val = v) ∧
  (∀ toks v rest, parseUnary f toks = some (v, rest) → ∃ a, Lev 1 a ∧ toks = a.toks ++ rest ∧ a.val = v) ∧
  (∀ a0 toks v rest, Lev 2 a0 → parseMulTail f a0.val toks = some (v, rest) →
      ∃ a, Lev 2 a ∧ a0.toks ++ toks = a.toks ++ rest ∧ a.val = v) ∧
  (∀ toks v rest, parseMul f toks = some (v, rest) → ∃ a, Lev 2 a ∧ toks = a.toks ++ rest ∧ a.val = v) ∧
  (∀ a0 toks v rest, Lev 3 a0 → parseAddTail f a0.val toks = some (v, rest) →
      ∃ a, Lev 3 a ∧ a0.toks ++ toks = a.toks ++ rest ∧ a.val = v) ∧
  (∀ toks v rest, parseAdd f toks = some (v, rest) → ∃ a, Lev 3 a ∧ toks = a.toks ++ rest ∧ a.val = v) ∧
  (∀ a0 toks v rest, Lev 4 a0 → parseXorTail f a0.val toks = some (v, rest) →
      ∃ a, Lev 4 a ∧ a0.toks ++ toks = a.toks ++ rest ∧ a.val = v) ∧
  (∀ toks v rest, parseXor f toks = some (v, rest) → ∃ a, Lev 4 a ∧ toks = a.toks ++ rest ∧ a.val = v)

theorem closePar_some {p : PV × List Tok} {v rest} (h : closePar p = some (v, rest)) : p = (v, .rpar :: rest) := by
  obtain ⟨w, r⟩ := p
  cases r with
  | nil => simp [closePar] at h
  | cons tk r =>
    cases tk <;> simp [closePar] at h
    obtain ⟨rfl, rfl⟩ := h; rfl

theorem soundAt : ∀ f, SoundAt f := by
  intro f
  induction f with
  | zero =>
    refine ⟨?_, ?_, ?_, ?_, ?_, ?_, ?_, ?_⟩
    · intro toks v rest h; simp [parsePrimary_zero] at h
    · intro toks v rest h; simp [parseUnary_zero] at h
    · intro a0 toks v rest _ h; simp [parseMulTail_zero] at h
    · intro toks v rest h; simp [parseMul_zero] at h
    · intro a0 toks v rest _ h; simp [parseAddTail_zero] at h
    · intro toks v rest h; simp [parseAdd_zero] at h
    · intro a0 toks v rest _ h; simp [parseXorTail_zero] at h
    · intro toks v rest h; simp [parseXor_zero] at h
  | succ f ih =>
    obtain ⟨iP, iU, iMT, iM, iAT, iA, iXT, iX⟩ := ih
    refine ⟨?_, ?_, ?_, ?_, ?_, ?_, ?_, ?_⟩
    · intro toks v rest h
      cases toks with
      | nil => simp [parsePrimary_nil] at h
      | cons tk tl =>
        cases tk with
        | h x =>
          rw [parsePrimary_h] at h
          simp only [Option.some.injEq, Prod.mk.injEq] at h
          obtain ⟨rfl, rfl⟩ := h
          exact ⟨.h x, .h x, rfl, rfl⟩
        | t =>
          rw [parsePrimary_t] at h
          obtain ⟨p, hp, hk⟩ := Option.bind_eq_some_iff.mp h
          obtain ⟨w, r⟩ := p
          simp only [Option.some.injEq, Prod.mk.injEq] at hk
          obtain ⟨rfl, rfl⟩ := hk
          obtain ⟨a, la, ea, va⟩ := iP _ _ _ hp
          exact ⟨.t a, .t la, by simp [Ast.toks, ea], by simp [Ast.val, va]⟩
        | lpar =>
          rw [parsePrimary_lpar] at h
          obtain ⟨p, hp, hk⟩ := Option.bind_eq_some_iff.mp h
          have := closePar_some hk
          subst this
          obtain ⟨a, la, ea, va⟩ := iX _ _ _ hp
          exact ⟨.paren a, .paren la, by simp [Ast.toks, ea], by simp [Ast.val, va]⟩
        | _ => rw [parsePrimary_other _ _ _ (by intro r; simp) (by simp) (by simp)] at h; cases h
    · intro toks v rest h
      by_cases hm : isMinus toks = true
      · obtain ⟨tl, rfl⟩ := isMinus_true hm
        rw [parseUnary_minus] at h
        obtain ⟨p, hp, hk⟩ := Option.bind_eq_some_iff.mp h
        obtain ⟨w, r⟩ := p
        simp only [Option.some.injEq, Prod.mk.injEq] at hk
        obtain ⟨rfl, rfl⟩ := hk
        obtain ⟨a, la, ea, va⟩ := iU _ _ _ hp
        exact ⟨.neg a, .neg la, by simp [Ast.toks, ea], by simp [Ast.val, va]⟩
      · have hm : isMinus toks = false := by simpa using hm
        rw [parseUnary_of _ hm] at h
        obtain ⟨a, la, ea, va⟩ := iP _ _ _ h
        exact ⟨a, .prim la, ea, va⟩
    · intro a0 toks v rest l0 h
      by_cases hm : isStar toks = true
      · obtain ⟨tl, rfl⟩ := isStar_true hm
        rw [parseMulTail_star] at h
        obtain ⟨p, hp, hk⟩ := Option.bind_eq_some_iff.mp h
        obtain ⟨w, r⟩ := p
        obtain ⟨b, lb, eb, vb⟩ := iU _ _ _ hp
        subst vb
        obtain ⟨a, la, ea, va⟩ := iMT (.mul a0 b) _ _ _ (.mul l0 lb) hk
        exact ⟨a, la, by rw [← ea, eb]; simp [Ast.toks], va⟩
      · have hm : isStar toks = false := by simpa using hm
        rw [parseMulTail_of _ _ hm] at h
        simp only [Option.some.injEq, Prod.mk.injEq] at h
        obtain ⟨rfl, rfl⟩ := h
        exact ⟨a0, l0, rfl, rfl⟩
    · intro toks v rest h
      rw [parseMul_succ] at h
      obtain ⟨p, hp, hk⟩ := Option.bind_eq_some_iff.mp h
      obtain ⟨w, r⟩ := p
      obtain ⟨b, lb, eb, vb⟩ := iU _ _ _ hp
      subst vb
      obtain ⟨a, la, ea, va⟩ := iMT b _ _ _ (.un lb) hk
      exact ⟨a, la, by rw [← ea, eb], va⟩
    · intro a0 toks v rest l0 h
      by_cases hm : isPlus toks = true
      · obtain ⟨tl, rfl⟩ := isPlus_true hm
        rw [parseAddTail_plus] at h
        obtain ⟨p, hp, hk⟩ := Option.bind_eq_some_iff.mp h
        obtain ⟨w, r⟩ := p
        obtain ⟨b, lb, eb, vb⟩ := iM _ _ _ hp
        subst vb
        obtain ⟨a, la, ea, va⟩ := iAT (.add a0 b) _ _ _ (.add l0 lb) hk
        exact ⟨a, la, by rw [← ea, eb]; simp [Ast.toks], va⟩
      · have hm : isPlus toks = false := by simpa using hm
        rw [parseAddTail_of _ _ hm] at h
        simp only [Option.some.injEq, Prod.mk.injEq] at h
        obtain ⟨rfl, rfl⟩ := h
        exact ⟨a0, l0, rfl, rfl⟩
    · intro toks v rest h
      rw [parseAdd_succ] at h
      obtain ⟨p, hp, hk⟩ := Option.bind_eq_some_iff.mp h
      obtain ⟨w, r⟩ := p
      obtain ⟨b, lb, eb, vb⟩ := iM _ _ _ hp
      subst vb
      obtain ⟨a, la, ea, va⟩ := iAT b _ _ _ (.prod lb) hk
      exact ⟨a, la, by rw [← ea, eb], va⟩
    · intro a0 toks v rest l0 h
      by_cases hm : isCaret toks = true
      · obtain ⟨tl, rfl⟩ := isCaret_true hm
        rw [parseXorTail_caret] at h
        obtain ⟨p, hp, hk⟩ := Option.bind_eq_some_iff.mp h
        obtain ⟨w, r⟩ := p
        obtain ⟨b, lb, eb, vb⟩ := iA _ _ _ hp
        subst vb
        obtain ⟨a, la, ea, va⟩ := iXT (.xor a0 b) _ _ _ (.xor l0 lb) hk
        exact ⟨a, la, by rw [← ea, eb]; simp [Ast.toks], va⟩
      · have hm : isCaret toks = false := by simpa using hm
        rw [parseXorTail_of _ _ hm] at h
        simp only [Option.some.injEq, Prod.mk.injEq] at h
        obtain ⟨rfl, rfl⟩ := h
        exact ⟨a0, l0, rfl, rfl⟩
    · intro toks v rest h
      rw [parseXor_succ] at h
      obtain ⟨p, hp, hk⟩ := Option.bind_eq_some_iff.mp h
      obtain ⟨w, r⟩ := p
      obtain ⟨b, lb, eb, vb⟩ := iA _ _ _ hp
      subst vb
      obtain ⟨a, la, ea, va⟩ := iXT b _ _ _ (.sum lb) hk
      exact ⟨a, la, by rw [← ea, eb], va⟩

/-- GENERAL (soundness): whatever `parseRust` accepts is a phrase of the precedence grammar, and the value
returned is the value of its tree. -/
theorem parseRust_sound {toks v} (h : parseRust toks = some v) : ∃ a, Lev 4 a ∧ a.toks = toks ∧ a.val = v := by
  unfold parseRust at h
  cases e : parseXor (8 * toks.length + 8) toks with
  | none => simp [e] at h
  | some p =>
    obtain ⟨w, r⟩ := p
    cases r with
    | cons _ _ => simp [e] at h
    | nil =>
      simp only [e, Option.some.injEq] at h
      subst h
      obtain ⟨a, la, ea, va⟩ := (soundAt _).2.2.2.2.2.2.2 _ _ _ e
      exact ⟨a, la, by simpa using ea.symm, va⟩

/-- GENERAL: `parseRust` accepts exactly the printed phrases of the precedence grammar and returns the value of
the phrase's tree. -/
theorem parseRust_iff {toks v} : parseRust toks = some v ↔ ∃ a, Lev 4 a ∧ a.toks = toks ∧ a.val = v := by
  constructor
  · exact parseRust_sound
  · rintro ⟨a, la, rfl, rfl⟩; exact parseRust_complete la

/-! ### §4 GENERAL corollaries: operator chains fold to the LEFT and nest as precedence dictates -/

/-- the token string `op u1 op u2 … op un` that continues a chain -/
def opTail (op : Tok) (us : List Ast) : List Tok := us.flatMap (fun u => op :: u.toks)

theorem opTail_cons (op u us) : opTail op (u :: us) = op :: (u.toks ++ opTail op us) := by simp [opTail]

theorem isStar_opTail_plus (us) {rest} (h : isStar rest = false) : isStar (opTail .plus us ++ rest) = false := by
  cases us with
  | nil => simpa [opTail] using h
  | cons u us => rw [opTail_cons]; rfl
theorem isStar_opTail_caret (us) {rest} (h : isStar rest = false) : isStar (opTail .caret us ++ rest) = false := by
  cases us with
  | nil => simpa [opTail] using h
  | cons u us => rw [opTail_cons]; rfl
theorem isPlus_opTail_caret (us) {rest} (h : isPlus rest = false) : isPlus (opTail .caret us ++ rest) = false := by
  cases us with
  | nil => simpa [opTail] using h
  | cons u us => rw [opTail_cons]; rfl

/-- GENERAL: `parseMulTail` folds its (unary) operands to the left: reading `* u1 * … * un` after `acc`
gives `((acc * u1) * …) * un`. -/
theorem parseMulTail_chain : ∀ (us : List Ast), (∀ u, u ∈ us → Lev 1 u) → ∀ (acc : PV) (rest : List Tok) (f : Nat),
    isStar rest = false → 8 * (opTail .star us).length + 1 ≤ f →
    parseMulTail f acc (opTail .star us ++ rest) = some (us.foldl (fun acc u => acc.mul u.val) acc, rest) := by
  intro us
  induction us with
  | nil =>
    intro _ acc rest f hs hf
    obtain ⟨k, rfl⟩ : ∃ k, f = k + 1 := ⟨f - 1, by omega⟩
    simpa [opTail] using parseMulTail_of k acc hs
  | cons u us ih =>
    intro hl acc rest f hs hf
    obtain ⟨k, rfl⟩ : ∃ k, f = k + 1 := ⟨f - 1, by omega⟩
    rw [opTail_cons] at hf ⊢
    simp only [List.length_cons, List.length_append] at hf
    have e : (Tok.star :: (u.toks ++ opTail .star us)) ++ rest = .star :: (u.toks ++ (opTail .star us ++ rest)) := by simp
    rw [e, parseMulTail_star, parseUnary_complete (hl u List.mem_cons_self) _ (by omega)]
    exact ih (fun x hx => hl x (List.mem_cons_of_mem _ hx)) _ rest k hs (by omega)

/-- GENERAL: `parseAddTail` folds its (product) operands to the left. -/
theorem parseAddTail_chain : ∀ (us : List Ast), (∀ u, u ∈ us → Lev 2 u) → ∀ (acc : PV) (rest : List Tok) (f : Nat),
    isStar rest = false → isPlus rest = false → 8 * (opTail .plus us).length + 1 ≤ f →
    parseAddTail f acc (opTail .plus us ++ rest) = some (us.foldl (fun acc u => acc.add u.val) acc, rest) := by
  intro us
  induction us with
  | nil =>
    intro _ acc rest f hs hp hf
    obtain ⟨k, rfl⟩ : ∃ k, f = k + 1 := ⟨f - 1, by omega⟩
    simpa [opTail] using parseAddTail_of k acc hp
  | cons u us ih =>
    intro hl acc rest f hs hp hf
    obtain ⟨k, rfl⟩ : ∃ k, f = k + 1 := ⟨f - 1, by omega⟩
    rw [opTail_cons] at hf ⊢
    simp only [List.length_cons, List.length_append] at hf
    have e : (Tok.plus :: (u.toks ++ opTail .plus us)) ++ rest = .plus :: (u.toks ++ (opTail .plus us ++ rest)) := by simp
    rw [e, parseAddTail_plus, parseMul_complete (hl u List.mem_cons_self) (isStar_opTail_plus us hs) (by omega)]
    exact ih (fun x hx => hl x (List.mem_cons_of_mem _ hx)) _ rest k hs hp (by omega)

/-- GENERAL: `parseXorTail` folds its (sum) operands to the left. -/
theorem parseXorTail_chain : ∀ (us : List Ast), (∀ u, u ∈ us → Lev 3 u) → ∀ (acc : PV) (rest : List Tok) (f : Nat),
    isStar rest = false → isPlus rest = false → isCaret rest = false → 8 * (opTail .caret us).length + 1 ≤ f →
    parseXorTail f acc (opTail .caret us ++ rest) = some (us.foldl (fun acc u => acc.bxor u.val) acc, rest) := by
  intro us
  induction us with
  | nil =>
    intro _ acc rest f hs hp hx hf
    obtain ⟨k, rfl⟩ : ∃ k, f = k + 1 := ⟨f - 1, by omega⟩
    simpa [opTail] using parseXorTail_of k acc hx
  | cons u us ih =>
    intro hl acc rest f hs hp hx hf
    obtain ⟨k, rfl⟩ : ∃ k, f = k + 1 := ⟨f - 1, by omega⟩
    rw [opTail_cons] at hf ⊢
    simp only [List.length_cons, List.length_append] at hf
    have e : (Tok.caret :: (u.toks ++ opTail .caret us)) ++ rest = .caret :: (u.toks ++ (opTail .caret us ++ rest)) := by simp
    rw [e, parseXorTail_caret, parseAdd_complete (hl u List.mem_cons_self) (isStar_opTail_caret us hs)
      (isPlus_opTail_caret us hp) (by omega)]
    exact ih (fun x hx => hl x (List.mem_cons_of_mem _ hx)) _ rest k hs hp hx (by omega)

/-! left-nested trees built by `foldl` -/

theorem foldl_toks (op : Ast → Ast → Ast) (tk : Tok) (hop : ∀ a b, (op a b).toks = a.toks ++ tk :: b.toks) :
    ∀ (us : List Ast) (a : Ast), (us.foldl op a).toks = a.toks ++ opTail tk us := by
  intro us
  induction us with
  | nil => intro a; simp [opTail]
  | cons u us ih => intro a; rw [List.foldl_cons, ih, hop, opTail_cons]; simp

theorem foldl_val (op : Ast → Ast → Ast) (pop : PV → PV → PV) (hop : ∀ a b, (op a b).val = pop a.val b.val) :
    ∀ (us : List Ast) (a : Ast), (us.foldl op a).val = us.foldl (fun acc u => pop acc u.val) a.val := by
  intro us
  induction us with
  | nil => intro a; rfl
  | cons u us ih => intro a; rw [List.foldl_cons, ih, hop]; rfl

theorem foldl_lev (op : Ast → Ast → Ast) (n m : Nat) (hop : ∀ a b, Lev n a → Lev m b → Lev n (op a b)) :
    ∀ (us : List Ast) (a : Ast), Lev n a → (∀ u, u ∈ us → Lev m u) → Lev n (us.foldl op a) := by
  intro us
  induction us with
  | nil => intro a ha _; exact ha
  | cons u us ih =>
    intro a ha hl
    exact ih _ (hop _ _ ha (hl u List.mem_cons_self)) (fun x hx => hl x (List.mem_cons_of_mem _ hx))

/-- GENERAL: a chain `u0 * u1 * … * un` of unary phrases reads as the left-nested product. -/
theorem parseRust_mulChain {u : Ast} {us : List Ast} (hu : Lev 1 u) (hus : ∀ x, x ∈ us → Lev 1 x) :
    parseRust (u.toks ++ opTail .star us) = some (us.foldl (fun acc x => acc.mul x.val) u.val) := by
  have l := foldl_lev .mul 2 1 (fun _ _ => .mul) us u (.un hu) hus
  have := parseRust_complete (.sum (.prod l))
  rwa [foldl_toks .mul .star (fun _ _ => rfl), foldl_val .mul PV.mul (fun _ _ => rfl)] at this

/-- GENERAL: a chain `p0 + p1 + … + pn` of product phrases reads as the left-nested sum
(so every `*` inside a `pi` binds tighter than the `+` around it). -/
theorem parseRust_addChain {u : Ast} {us : List Ast} (hu : Lev 2 u) (hus : ∀ x, x ∈ us → Lev 2 x) :
    parseRust (u.toks ++ opTail .plus us) = some (us.foldl (fun acc x => acc.add x.val) u.val) := by
  have l := foldl_lev .add 3 2 (fun _ _ => .add) us u (.prod hu) hus
  have := parseRust_complete (.sum l)
  rwa [foldl_toks .add .plus (fun _ _ => rfl), foldl_val .add PV.add (fun _ _ => rfl)] at this

/-- GENERAL: a chain `s0 ^ s1 ^ … ^ sn` of sum phrases reads as the left-nested xor
(so every `+` and `*` inside an `si` binds tighter than the `^` around it). -/
theorem parseRust_xorChain {u : Ast} {us : List Ast} (hu : Lev 3 u) (hus : ∀ x, x ∈ us → Lev 3 x) :
    parseRust (u.toks ++ opTail .caret us) = some (us.foldl (fun acc x => acc.bxor x.val) u.val) := by
  have l := foldl_lev .xor 4 3 (fun _ _ => .xor) us u (.sum hu) hus
  have := parseRust_complete l
  rwa [foldl_toks .xor .caret (fun _ _ => rfl), foldl_val .xor PV.bxor (fun _ _ => rfl)] at this

/-! a xor of sums of products of unary phrases, with the token string and the value written out -/

/-- a non-empty list: head and tail -/
abbrev NE (α : Type) := α × List α
def NE.All {α} (p : α → Prop) (l : NE α) : Prop := p l.1 ∧ ∀ x, x ∈ l.2 → p x

def prodToks (p : NE Ast) : List Tok := p.1.toks ++ p.2.flatMap (fun u => .star :: u.toks)
def sumToks (s : NE (NE Ast)) : List Tok := prodToks s.1 ++ s.2.flatMap (fun p => .plus :: prodToks p)
def xorToks (x : NE (NE (NE Ast))) : List Tok := sumToks x.1 ++ x.2.flatMap (fun s => .caret :: sumToks s)
def prodVal (p : NE Ast) : PV := p.2.foldl (fun acc u => acc.mul u.val) p.1.val
def sumVal (s : NE (NE Ast)) : PV := s.2.foldl (fun acc p => acc.add (prodVal p)) (prodVal s.1)
def xorVal (x : NE (NE (NE Ast))) : PV := x.2.foldl (fun acc s => acc.bxor (sumVal s)) (sumVal x.1)

def prodAst (p : NE Ast) : Ast := p.2.foldl .mul p.1
def sumAst (s : NE (NE Ast)) : Ast := (s.2.map prodAst).foldl .add (prodAst s.1)
def xorAst (x : NE (NE (NE Ast))) : Ast := (x.2.map sumAst).foldl .xor (sumAst x.1)

theorem prodAst_toks (p) : (prodAst p).toks = prodToks p := foldl_toks .mul .star (fun _ _ => rfl) _ _
theorem prodAst_val (p) : (prodAst p).val = prodVal p := foldl_val .mul PV.mul (fun _ _ => rfl) _ _
theorem prodAst_lev {p : NE Ast} (h : p.All (Lev 1)) : Lev 2 (prodAst p) :=
  foldl_lev .mul 2 1 (fun _ _ => .mul) _ _ (.un h.1) h.2

theorem sumAst_toks (s) : (sumAst s).toks = sumToks s := by
  rw [sumAst, foldl_toks .add .plus (fun _ _ => rfl), opTail, List.flatMap_map, prodAst_toks, sumToks]
  simp only [prodAst_toks]
theorem sumAst_val (s) : (sumAst s).val = sumVal s := by
  rw [sumAst, foldl_val .add PV.add (fun _ _ => rfl), List.foldl_map, prodAst_val, sumVal]
  simp only [prodAst_val]
theorem sumAst_lev {s : NE (NE Ast)} (h : s.All (NE.All (Lev 1))) : Lev 3 (sumAst s) := by
  refine foldl_lev .add 3 2 (fun _ _ => .add) _ _ (.prod (prodAst_lev h.1)) ?_
  intro u hu
  obtain ⟨p, hp, rfl⟩ := List.mem_map.mp hu
  exact prodAst_lev (h.2 p hp)

theorem xorAst_toks (x) : (xorAst x).toks = xorToks x := by
  rw [xorAst, foldl_toks .xor .caret (fun _ _ => rfl), opTail, List.flatMap_map, sumAst_toks, xorToks]
  simp only [sumAst_toks]
theorem xorAst_val (x) : (xorAst x).val = xorVal x := by
  rw [xorAst, foldl_val .xor PV.bxor (fun _ _ => rfl), List.foldl_map, sumAst_val, xorVal]
  simp only [sumAst_val]
theorem xorAst_lev {x : NE (NE (NE Ast))} (h : x.All (NE.All (NE.All (Lev 1)))) : Lev 4 (xorAst x) := by
  refine foldl_lev .xor 4 3 (fun _ _ => .xor) _ _ (.sum (sumAst_lev h.1)) ?_
  intro u hu
  obtain ⟨p, hp, rfl⟩ := List.mem_map.mp hu
  exact sumAst_lev (h.2 p hp)

/-- GENERAL: product chains inside sum chains inside a xor chain nest as precedence dictates.
For unary phrases `u i j k`, the flat token string
`u000 * u001 * … + u010 * … + … ^ u100 * … + … ^ …`
is read as `(((u000*u001*…) + (u010*…) + …) ^ ((u100*…) + …)) ^ …`, every chain left-nested. -/
theorem parseRust_xor_of_sums_of_products (x : NE (NE (NE Ast))) (h : x.All (NE.All (NE.All (Lev 1)))) :
    parseRust (xorToks x) = some (xorVal x) := by
  rw [← xorAst_toks, ← xorAst_val]; exact parseRust_complete (xorAst_lev h)

/-! ### §5 end to end: read, evaluate, and get the function the grammar assigns -/

/-- the Boolean function a syntax tree denotes over live handles: `-` NOT, `*` AND, `+` OR, `^` XOR;
parentheses and `Expr::term` are transparent -/
inductive Ast.Sem (nd : Nodes) : Ast → Fn → Prop
  | h {r φ} : Valid nd r φ → Ast.Sem nd (.h r) φ
  | t {a φ} : Ast.Sem nd a φ → Ast.Sem nd (.t a) φ
  | paren {a φ} : Ast.Sem nd a φ → Ast.Sem nd (.paren a) φ
  | neg {a φ} : Ast.Sem nd a φ → Ast.Sem nd (.neg a) (fun e => !φ e)
  | mul {a b φ ψ} : Ast.Sem nd a φ → Ast.Sem nd b ψ → Ast.Sem nd (.mul a b) (fun e => φ e && ψ e)
  | add {a b φ ψ} : Ast.Sem nd a φ → Ast.Sem nd b ψ → Ast.Sem nd (.add a b) (fun e => φ e || ψ e)
  | xor {a b φ ψ} : Ast.Sem nd a φ → Ast.Sem nd b ψ → Ast.Sem nd (.xor a b) (fun e => φ e != ψ e)

/-- the value computed by the overloaded operators along a tree denotes what the tree denotes
(the `Expr::not` rewrites included) -/
theorem Ast.val_sem {nd a φ} (h : Ast.Sem nd a φ) : PV.Sem nd a.val φ := by
  induction h with
  | h v => exact .ref v
  | t _ ih => exact PV.term_sem ih
  | paren _ ih => exact ih
  | neg _ ih => exact PV.neg_sem ih
  | mul _ _ iha ihb => exact PV.mul_sem iha ihb
  | add _ _ iha ihb => exact PV.add_sem iha ihb
  | xor _ _ iha ihb => exact PV.bxor_sem iha ihb

/-- C03 end to end: a phrase `a` of the precedence grammar over live handles, printed, read by `parseRust`
and evaluated, yields a handle for the function `a` denotes. -/
theorem parseRust_eval_spec {a : Ast} {s : St} {φ : Fn} (hg : Good s) (hl : Lev 4 a) (hs : Ast.Sem s.nodes a φ) :
    ∃ v, parseRust a.toks = some v ∧
      ∀ fuel s' r, v.eval fuel s = .ok (s', r) → Post s s' r φ :=
  ⟨a.val, parseRust_complete hl, fun _ _ _ h => PV.eval_spec hg (Ast.val_sem hs) h⟩

/-- the same from the reader's side: an accepted token string has a grammatical tree, and evaluating the value
read yields a handle for whatever function that tree denotes. -/
theorem parseRust_eval_spec' {toks : List Tok} {v : PV} (h : parseRust toks = some v) :
    ∃ a, Lev 4 a ∧ a.toks = toks ∧
      ∀ (s : St) (φ : Fn) fuel s' r, Good s → Ast.Sem s.nodes a φ → v.eval fuel s = .ok (s', r) → Post s s' r φ := by
  obtain ⟨a, la, ea, rfl⟩ := parseRust_sound h
  exact ⟨a, la, ea, fun s φ _ _ _ hg hs he => PV.eval_spec hg (Ast.val_sem hs) he⟩

/-! ### §6 TABLE of instances (each closed by `rfl`, i.e. by running the reader)

These are *instances*, not general theorems: concrete token strings over arbitrary handles `a b c`,
with the parsed tree written out, pinning down precedence, associativity and the `Expr::not` rewrites. -/
section Table
variable (a b c : Ref)
open Tok Expr

/-- `a + b * c` = `a + (b * c)` -/
example : parseRust [h a, plus, h b, star, h c] = some (.expr (.or (.term a) (.and (.term b) (.term c)))) := rfl
/-- `a * b + c` = `(a * b) + c` -/
example : parseRust [h a, star, h b, plus, h c] = some (.expr (.or (.and (.term a) (.term b)) (.term c))) := rfl
/-- `a ^ b + c` = `a ^ (b + c)` -/
example : parseRust [h a, caret, h b, plus, h c] = some (.expr (.xor (.term a) (.or (.term b) (.term c)))) := rfl
/-- `a + b ^ c` = `(a + b) ^ c` -/
example : parseRust [h a, plus, h b, caret, h c] = some (.expr (.xor (.or (.term a) (.term b)) (.term c))) := rfl
/-- `a ^ b * c` = `a ^ (b * c)` -/
example : parseRust [h a, caret, h b, star, h c] = some (.expr (.xor (.term a) (.and (.term b) (.term c)))) := rfl
/-- `a * b ^ c` = `(a * b) ^ c` -/
example : parseRust [h a, star, h b, caret, h c] = some (.expr (.xor (.and (.term a) (.term b)) (.term c))) := rfl
/-- `- a * b` = `(-a) * b`: the minus flips the handle -/
example : parseRust [minus, h a, star, h b] = some (.expr (.and (.term a.not) (.term b))) := rfl
/-- `a * - b` = `a * (-b)` -/
example : parseRust [h a, star, minus, h b] = some (.expr (.and (.term a) (.term b.not))) := rfl
/-- `- a + b` = `(-a) + b` -/
example : parseRust [minus, h a, plus, h b] = some (.expr (.or (.term a.not) (.term b))) := rfl
/-- `a * b * c` = `(a * b) * c` -/
example : parseRust [h a, star, h b, star, h c] = some (.expr (.and (.and (.term a) (.term b)) (.term c))) := rfl
/-- `a + b + c` = `(a + b) + c` -/
example : parseRust [h a, plus, h b, plus, h c] = some (.expr (.or (.or (.term a) (.term b)) (.term c))) := rfl
/-- `a ^ b ^ c` = `(a ^ b) ^ c` -/
example : parseRust [h a, caret, h b, caret, h c] = some (.expr (.xor (.xor (.term a) (.term b)) (.term c))) := rfl
/-- `- - a`: two flips of the handle -/
example : parseRust [minus, minus, h a] = some (.ref a.not.not) := rfl
/-- `( a + b ) * c` -/
example : parseRust [lpar, h a, plus, h b, rpar, star, h c] =
    some (.expr (.and (.or (.term a) (.term b)) (.term c))) := rfl
/-- `a * ( b + c )` -/
example : parseRust [h a, star, lpar, h b, plus, h c, rpar] =
    some (.expr (.and (.term a) (.or (.term b) (.term c)))) := rfl
/-- `- ( a + b )`: a `not` node -/
example : parseRust [minus, lpar, h a, plus, h b, rpar] = some (.expr (.not (.or (.term a) (.term b)))) := rfl
/-- `- - ( a + b )`: `Expr::not` cancels the double negation -/
example : parseRust [minus, minus, lpar, h a, plus, h b, rpar] = some (.expr (.or (.term a) (.term b))) := rfl
/-- `- ( a + b ) * c` = `(-(a + b)) * c` -/
example : parseRust [minus, lpar, h a, plus, h b, rpar, star, h c] =
    some (.expr (.and (.not (.or (.term a) (.term b))) (.term c))) := rfl
/-- `t a` : `Expr::term(a)` -/
example : parseRust [t, h a] = some (.expr (.term a)) := rfl
/-- `- t a` : `Expr::not` pushes the negation into the term -/
example : parseRust [minus, t, h a] = some (.expr (.term a.not)) := rfl
/-- `- - t a` -/
example : parseRust [minus, minus, t, h a] = some (.expr (.term a.not.not)) := rfl
/-- `t ( - a )` : `Expr::term(-a)` -/
example : parseRust [t, lpar, minus, h a, rpar] = some (.expr (.term a.not)) := rfl
/-- `t` takes a primary: `t - a` is rejected -/
example : parseRust [t, minus, h a] = none := rfl
/-- `( a )` -/
example : parseRust [lpar, h a, rpar] = some (.ref a) := rfl
/-- `a * b + c * a ^ b + c` = `((a * b) + (c * a)) ^ (b + c)` -/
example : parseRust [h a, star, h b, plus, h c, star, h a, caret, h b, plus, h c] =
    some (.expr (.xor (.or (.and (.term a) (.term b)) (.and (.term c) (.term a))) (.or (.term b) (.term c)))) := rfl
/-- rejected strings -/
example : parseRust [] = none := rfl
example : parseRust [h a, plus] = none := rfl
example : parseRust [h a, h b] = none := rfl
example : parseRust [star, h a] = none := rfl
example : parseRust [lpar, h a] = none := rfl
example : parseRust [h a, rpar] = none := rfl
end Table

#print axioms PV.eval_spec
#print axioms PV.neg_sem
#print axioms PV.mul_sem
#print axioms PV.add_sem
#print axioms PV.bxor_sem
#print axioms parseRust_complete
#print axioms parseRust_sound
#print axioms parseRust_iff
#print axioms lev_val_unique
#print axioms parseMulTail_chain
#print axioms parseAddTail_chain
#print axioms parseXorTail_chain
#print axioms parseRust_mulChain
#print axioms parseRust_addChain
#print axioms parseRust_xorChain
#print axioms parseRust_xor_of_sums_of_products
#print axioms parseRust_eval_spec
#print axioms parseRust_eval_spec'
end P

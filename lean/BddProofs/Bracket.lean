import BddProofs.Paths
import BddProofs.Constrain
/-! C16, first half: the bracket export is faithful — the structured output of the model's
`nodeToStr` (`BddModel/Query.lean`: definitions `@i:(xv, hi, lo)` and back references `@i`, each
with its sign) can be re-evaluated, defining each index once, and yields the function of the handle
(`nodeToStr_spec`).

`BTree`, `nodeToStr`, `BTree.render`, `toBracketString` are the model's; only the reader `evalB`
and its invariant live here.  `nodeToStr` returns no state, so it is pure by construction (C16:
nothing to prove).  The text renderer `BTree.render` (tree ↦ string) is *not* covered by a theorem:
it is checked by the differential correspondence run against the Rust `to_bracket_string` only. -/
namespace P
open Arr

abbrev Defs := Nat → Option Fn

def sgn (neg : Bool) (ψ : Fn) : Fn := if neg then (fun e => !ψ e) else ψ

/-- re-reading the export: a definition introduces its index (as the regular function), a back
reference must already be defined -/
def evalB : BTree → Defs → Option (Fn × Defs)
  | .bot, D => some (fun _ => false, D)
  | .top, D => some (fun _ => true, D)
  | .ref neg idx, D => (D idx).map (fun ψ => (sgn neg ψ, D))
  | .node neg idx var hi lo, D =>
    match evalB hi D with
    | none => none
    | some (φ1, D1) =>
      match evalB lo D1 with
      | none => none
      | some (φ0, D2) =>
        let ψ : Fn := fun e => if e var then φ1 e else φ0 e
        some (sgn neg ψ, fun i => if i = idx then some ψ else D2 i)

def DefsOk (s : St) (D : Defs) : Prop := ∀ i ψ, D i = some ψ → Valid s.nodes ⟨i, false⟩ ψ

theorem sgn_valid {nd i b ψ} (h : Valid nd ⟨i, false⟩ ψ) : Valid nd ⟨i, b⟩ (sgn b ψ) := by
  cases b with
  | false => simpa [sgn] using h
  | true => simpa [sgn, Ref.not] using h.not

/-- a stored handle: its raw children (no sign adjustment) and the regular function at its index -/
theorem Den.toReg' {s : St} (hg : Good s) {d r φ} (h : Den s.nodes d r φ) :
    ∀ nn, s.nodes r.idx = some nn → ∃ ψ d0 d1 φ0 φ1, d0 < d ∧ d1 < d ∧ Den s.nodes d0 nn.low φ0 ∧
      Den s.nodes d1 nn.high φ1 ∧ ψ = (fun e => if e nn.var then φ1 e else φ0 e) ∧ φ = sgn r.neg ψ := by
  intro nn hnn
  have h1 := hg.inv.noterm
  rcases r with ⟨i, b⟩
  have key : ∀ χ, Den s.nodes d ⟨i, false⟩ χ → ∃ d0 d1 φ0 φ1, d0 < d ∧ d1 < d ∧ Den s.nodes d0 nn.low φ0 ∧
      Den s.nodes d1 nn.high φ1 ∧ χ = (fun e => if e nn.var then φ1 e else φ0 e) := by
    intro χ hχ
    rcases hχ.regInv with ⟨e1, -, -⟩ | ⟨n', d0, d1, φ0, φ1, hn', h0, h1', hd, hφ⟩
    · subst e1; rw [h1] at hnn; cases hnn
    · have : n' = nn := by simp at hnn; rw [hnn] at hn'; exact (Option.some.inj hn').symm
      subst this
      exact ⟨d0, d1, φ0, φ1, by omega, by omega, h0, h1', hφ⟩
  cases b with
  | false =>
    obtain ⟨d0, d1, φ0, φ1, a, b', c, e, f⟩ := key φ h
    exact ⟨φ, d0, d1, φ0, φ1, a, b', c, e, f, by simp [sgn]⟩
  | true =>
    obtain ⟨χ, hχ, rfl⟩ := h.negInv
    obtain ⟨d0, d1, φ0, φ1, a, b', c, e, f⟩ := key χ hχ
    exact ⟨χ, d0, d1, φ0, φ1, a, b', c, e, f, by simp [sgn]⟩

theorem nodeToStr_spec : ∀ fuel s r φ vis D d, Good s → Den s.nodes d r φ → d < fuel → DefsOk s D →
    (∀ i, i ∈ vis → D i = none → ∃ n, s.nodes i = some n ∧ TopGe s.nodes r (n.var + 1)) →
    ∃ D', evalB (nodeToStr fuel s r vis).1 D = some (φ, D') ∧ DefsOk s D' ∧
      (∀ i ψ, D i = some ψ → D' i = some ψ) ∧
      (∀ i, i ∈ (nodeToStr fuel s r vis).2 → D' i = none → i ∈ vis ∧ D i = none) ∧
      (∀ i, i ∈ vis → i ∈ (nodeToStr fuel s r vis).2) := by
  intro fuel
  induction fuel with
  | zero => intro s r φ vis D d _ _ hd; omega
  | succ fuel ih =>
    intro s r φ vis D d hg hden hd hD hpend
    have h1 := hg.inv.noterm
    have vr : Valid s.nodes r φ := ⟨d, hden⟩
    unfold nodeToStr
    by_cases cz : isZero r = true
    · rw [if_pos cz]; have := zero_fn h1 cz vr; subst this
      exact ⟨D, rfl, hD, fun _ _ h => h, fun i hi hn => ⟨hi, hn⟩, fun _ h => h⟩
    rw [if_neg cz]
    by_cases co : isOne r = true
    · rw [if_pos co]; have := one_fn h1 co vr; subst this
      exact ⟨D, rfl, hD, fun _ _ h => h, fun i hi hn => ⟨hi, hn⟩, fun _ h => h⟩
    rw [if_neg co]
    have hnt : isTerminal r = false := by
      simp only [isTerminal, Bool.or_eq_false_iff]; exact ⟨by simpa using co, by simpa using cz⟩
    obtain ⟨nn, hnn⟩ : ∃ nn, s.nodes r.idx = some nn := by
      rcases valid_stored vr with h | h
      · exfalso; rcases r with ⟨i, b⟩; simp at h; subst h
        cases b <;> simp [isTerminal, isOne, isZero, Ref.one, Ref.zero] at hnt
      · exact h
    have hvar : s.var r = nn.var := St.var_of hnn
    have hlow : s.low r.idx = nn.low := St.low_of hnn
    have hhigh : s.high r.idx = nn.high := St.high_of hnn
    -- the regular function stored at this index
    have hreg := hden.toReg' hg
    by_cases hc : vis.contains r.idx = true
    · rw [if_pos hc]
      have hmem : r.idx ∈ vis := by simpa using hc
      -- a visited index that is still undefined would be a pending ancestor, i.e. strictly above `r`
      cases hDi : D r.idx with
      | none =>
        exfalso
        obtain ⟨n, hn, ht⟩ := hpend r.idx hmem hDi
        rw [hnn] at hn; cases hn
        rcases ht with e | ⟨m, hm, hle⟩
        · rw [e, h1] at hnn; cases hnn
        · rw [hnn] at hm; cases hm; omega
      | some ψ =>
        refine ⟨D, ?_, hD, fun _ _ h => h, fun i hi hn => ⟨hi, hn⟩, fun _ h => h⟩
        simp only [evalB, hDi, Option.map_some]
        have v1 := sgn_valid (b := r.neg) (hD _ _ hDi)
        have : (⟨r.idx, r.neg⟩ : Ref) = r := by cases r; rfl
        rw [this] at v1
        rw [vr.det h1 v1]
    · rw [if_neg hc]
      have hnm : r.idx ∉ vis := by simpa using hc
      simp only [hhigh, hlow]
      obtain ⟨ψ, d0, d1, φ0, φ1, hd0, hd1, h0, h1', hψ, hφ⟩ := hreg nn hnn
      -- then-child
      have pend1 : ∀ i, i ∈ r.idx :: vis → D i = none → ∃ n, s.nodes i = some n ∧ TopGe s.nodes nn.high (n.var + 1) := by
        intro i hi hn
        rcases List.mem_cons.mp hi with e | e
        · subst e; exact ⟨nn, hnn, hg.inv.ordHigh _ _ hnn⟩
        · obtain ⟨n, hn', ht⟩ := hpend i e hn
          refine ⟨n, hn', ?_⟩
          -- n.var < var r < var of the child
          have hlt : n.var + 1 ≤ nn.var := by
            rcases ht with e' | ⟨m, hm, hle⟩
            · rw [e', h1] at hnn; cases hnn
            · rw [hnn] at hm; cases hm; exact hle
          exact (hg.inv.ordHigh _ _ hnn).le (by omega)
      obtain ⟨D1, e1, ok1, mono1, und1, sub1⟩ := ih s nn.high φ1 (r.idx :: vis) D d1 hg h1' (by omega) hD pend1
      -- else-child
      have pend2 : ∀ i, i ∈ (nodeToStr fuel s nn.high (r.idx :: vis)).2 → D1 i = none →
          ∃ n, s.nodes i = some n ∧ TopGe s.nodes nn.low (n.var + 1) := by
        intro i hi hn
        obtain ⟨hi', hn'⟩ := und1 i hi hn
        rcases List.mem_cons.mp hi' with e | e
        · subst e; exact ⟨nn, hnn, hg.inv.ordLow _ _ hnn⟩
        · obtain ⟨n, hn'', ht⟩ := hpend i e hn'
          refine ⟨n, hn'', ?_⟩
          have hlt : n.var + 1 ≤ nn.var := by
            rcases ht with e' | ⟨m, hm, hle⟩
            · rw [e', h1] at hnn; cases hnn
            · rw [hnn] at hm; cases hm; exact hle
          exact (hg.inv.ordLow _ _ hnn).le (by omega)
      obtain ⟨D2, e2, ok2, mono2, und2, sub2⟩ := ih s nn.low φ0 _ D1 d0 hg h0 (by omega) ok1 pend2
      refine ⟨fun i => if i = r.idx then some ψ else D2 i, ?_, ?_, ?_, ?_, ?_⟩
      · simp only [evalB, e1, e2, hvar]
        rw [← hψ, hφ]
      · intro i ψ' hi
        by_cases e : i = r.idx
        · subst e; simp at hi; subst hi
          exact ⟨_, hψ ▸ Den.node hnn h0 h1'⟩
        · simp [e] at hi; exact ok2 i ψ' hi
      · intro i ψ' hi
        by_cases e : i = r.idx
        · -- `r.idx` was not defined before (it was not even visited)… unless D defined it without a visit;
          -- either way the new definition agrees, by determinism
          subst e
          have v1 := hD _ _ hi
          have v2 : Valid s.nodes ⟨r.idx, false⟩ ψ := ⟨_, hψ ▸ Den.node hnn h0 h1'⟩
          simp [v1.det h1 v2]
        · simp [e]; exact mono2 i ψ' (mono1 i ψ' hi)
      · intro i hi hn
        by_cases e : i = r.idx
        · simp [e] at hn
        · simp [e] at hn
          obtain ⟨hi2, hn2⟩ := und2 i hi hn
          obtain ⟨hi1, hn1⟩ := und1 i hi2 hn2
          rcases List.mem_cons.mp hi1 with e' | e'
          · exact absurd e' e
          · exact ⟨e', hn1⟩
      · intro i hi; exact sub2 i (sub1 i (List.mem_cons_of_mem _ hi))

/-- the export of a handle (`toBracketString fuel s f = (nodeToStr fuel s f []).1.render`), read
back from the empty definition table, is the handle's function -/
theorem bracket_faithful {fuel : Nat} {s : St} {f : Ref} {φ : Fn} {d : Nat} (hg : Good s)
    (h : Den s.nodes d f φ) (hd : d < fuel) :
    ∃ D', evalB (nodeToStr fuel s f []).1 (fun _ => none) = some (φ, D') ∧ DefsOk s D' := by
  obtain ⟨D', h1, h2, _⟩ := nodeToStr_spec fuel s f φ [] (fun _ => none) d hg h hd
    (fun i ψ hi => by cases hi) (fun i hi => by cases hi)
  exact ⟨D', h1, h2⟩

#print axioms nodeToStr_spec
#print axioms bracket_faithful
end P

import BddProofs.Ite
import BddModel.Query
/-! C14: `one_sat` and `paths` describe exactly the satisfying set (recursive enumeration `pathsRec`;
the explicit-stack iterator is in `PathsIter.lean`).  The operations are the model's
(`BddModel/Query.lean`); only the specification side (`Sat`) is defined here. -/
namespace P
open Arr

/-- an assignment satisfies a list of signed literals -/
def Sat (e : Env) (p : List Int) : Bool := p.all (fun l => e l.natAbs == decide (0 < l))

theorem Sat_append (e : Env) (p q : List Int) : Sat e (p ++ q) = (Sat e p && Sat e q) := by
  simp [Sat, List.all_append]

theorem Den.notDepth {nd d r φ} (h : Den nd d r φ) : Den nd d r.not (fun e => !φ e) := by
  rcases r with ⟨i, b⟩
  cases b with
  | false => exact .neg h
  | true =>
    obtain ⟨ψ, hψ, rfl⟩ := h.negInv
    simpa [Ref.not] using hψ

/-- a non-terminal handle, its two accessors, and how its function splits on its variable -/
theorem Den.split {s : St} (hg : Good s) {d r φ} (h : Den s.nodes d r φ) (hnt : isTerminal r = false) :
    s.var r ≠ 0 ∧ ∃ d0 d1 φ0 φ1, d0 < d ∧ d1 < d ∧ Den s.nodes d0 (s.lowNode r) φ0 ∧ Den s.nodes d1 (s.highNode r) φ1 ∧
      (φ = fun e => if e (s.var r) then φ1 e else φ0 e) ∧
      SuppGe φ0 (s.var r + 1) ∧ SuppGe φ1 (s.var r + 1) := by
  have h1 := hg.inv.noterm
  rcases r with ⟨i, b⟩
  have key : ∀ ψ, Den s.nodes d ⟨i, false⟩ ψ → ∃ n d0 d1 φ0 φ1, s.nodes i = some n ∧ d0 < d ∧ d1 < d ∧
      Den s.nodes d0 n.low φ0 ∧ Den s.nodes d1 n.high φ1 ∧ ψ = fun e => if e n.var then φ1 e else φ0 e := by
    intro ψ hψ
    rcases hψ.regInv with ⟨e1, -, -⟩ | ⟨n, d0, d1, φ0, φ1, hn, h0, h1', hd, hφ⟩
    · subst e1; cases b <;> simp [isTerminal, isOne, isZero, Ref.one, Ref.zero] at hnt
    · exact ⟨n, d0, d1, φ0, φ1, hn, by omega, by omega, h0, h1', hφ⟩
  cases b with
  | false =>
    obtain ⟨n, d0, d1, φ0, φ1, hn, a, b', c, e, f⟩ := key φ h
    have hv : s.var ⟨i, false⟩ = n.var := St.var_of hn
    have s0 := c.supp hg.inv _ (hg.inv.ordLow _ _ hn)
    have s1 := e.supp hg.inv _ (hg.inv.ordHigh _ _ hn)
    refine ⟨by rw [hv]; exact hg.var0 _ _ hn, d0, d1, φ0, φ1, a, b', ?_, ?_, by rw [hv]; exact f, by rw [hv]; exact s0, by rw [hv]; exact s1⟩
    · simpa [St.lowNode, St.low_of hn] using c
    · simpa [St.highNode, St.high_of hn] using e
  | true =>
    obtain ⟨ψ, hψ, rfl⟩ := h.negInv
    obtain ⟨n, d0, d1, φ0, φ1, hn, a, b', c, e, f⟩ := key ψ hψ
    have hv : s.var ⟨i, true⟩ = n.var := St.var_of hn
    have s0 := c.supp hg.inv _ (hg.inv.ordLow _ _ hn)
    have s1 := e.supp hg.inv _ (hg.inv.ordHigh _ _ hn)
    refine ⟨by rw [hv]; exact hg.var0 _ _ hn, d0, d1, (fun x => !φ0 x), (fun x => !φ1 x), a, b', ?_, ?_, ?_,
      by rw [hv]; exact s0.not, by rw [hv]; exact s1.not⟩
    · simpa [St.lowNode, St.low_of hn] using c.notDepth
    · simpa [St.highNode, St.high_of hn] using e.notDepth
    · rw [hv, f]; funext x; by_cases hx : x n.var = true <;> simp [hx]

theorem sat_lit_pos (e : Env) (v : Nat) (hv : v ≠ 0) : Sat e [(v : Int)] = e v := by
  have h2 : 0 < v := by omega
  simp [Sat, h2]
theorem sat_lit_neg (e : Env) (v : Nat) (_hv : v ≠ 0) : Sat e [-(v : Int)] = !e v := by
  have h2 : ¬ ((v : Int) < 0) := by omega
  simp [Sat, h2]

/-- every satisfying assignment lies in exactly one enumerated cube, every other in none -/
theorem pathsRec_count : ∀ fuel s r φ pre d, Good s → Den s.nodes d r φ → d < fuel →
    ∀ e, ((pathsRec fuel s r pre).countP (Sat e)) = if Sat e pre && φ e then 1 else 0 := by
  intro fuel
  induction fuel with
  | zero => intro s r φ pre d _ _ hd e; omega
  | succ fuel ih =>
    intro s r φ pre d hg hden hd e
    have h1 := hg.inv.noterm
    have vr : Valid s.nodes r φ := ⟨d, hden⟩
    unfold pathsRec
    by_cases cz : isZero r = true
    · rw [if_pos cz]; have := zero_fn h1 cz vr; subst this; simp
    rw [if_neg cz]
    by_cases co : isOne r = true
    · rw [if_pos co]; have := one_fn h1 co vr; subst this
      simp [List.countP_cons]
    rw [if_neg co]
    have hnt : isTerminal r = false := by
      simp only [isTerminal, Bool.or_eq_false_iff]; exact ⟨by simpa using co, by simpa using cz⟩
    obtain ⟨hv0, d0, d1, φ0, φ1, hd0, hd1, vlo, vhi, hφ, s0, s1⟩ := hden.split hg hnt
    simp only [List.countP_append]
    rw [ih _ _ _ _ _ hg vlo (by omega) e, ih _ _ _ _ _ hg vhi (by omega) e]
    rw [Sat_append, Sat_append, sat_lit_pos e _ hv0, sat_lit_neg e _ hv0, hφ]
    cases hp : Sat e pre <;> cases hev : e (s.var r) <;> simp [hev]

/-- C14 for `paths`: disjoint, complete, each satisfying assignment exactly once -/
theorem paths_exactly_once {fuel s r φ d} (hg : Good s) (h : Den s.nodes d r φ) (hd : d < fuel) (e : Env) :
    ((pathsRec fuel s r []).countP (Sat e)) = if φ e then 1 else 0 := by
  rw [pathsRec_count fuel s r φ [] d hg h hd e]; simp [Sat]

/-- C14 for `one_sat`: `None` exactly for the constant false, otherwise an implicant -/
theorem oneSat_spec : ∀ fuel s r φ pre d, Good s → Den s.nodes d r φ → d < fuel →
    (oneSat fuel s r pre = none ↔ φ = fun _ => false) ∧
    (∀ p, oneSat fuel s r pre = some p → ∃ q, p = pre ++ q ∧ ∀ e, Sat e q = true → φ e = true) := by
  intro fuel
  induction fuel with
  | zero => intro s r φ pre d _ _ hd; omega
  | succ fuel ih =>
    intro s r φ pre d hg hden hd
    have h1 := hg.inv.noterm
    have vr : Valid s.nodes r φ := ⟨d, hden⟩
    unfold oneSat
    by_cases cz : isZero r = true
    · rw [if_pos cz]; have := zero_fn h1 cz vr; subst this
      exact ⟨⟨fun _ => rfl, fun _ => rfl⟩, fun p hp => by cases hp⟩
    rw [if_neg cz]
    by_cases co : isOne r = true
    · rw [if_pos co]; have := one_fn h1 co vr; subst this
      refine ⟨⟨fun h => (by cases h), fun h => absurd h.symm ?_⟩, fun p hp => ?_⟩
      · intro h'; have := congrFun h' (fun _ => true); cases this
      · cases hp; exact ⟨[], by simp, fun _ _ => rfl⟩
    rw [if_neg co]
    have hnt : isTerminal r = false := by
      simp only [isTerminal, Bool.or_eq_false_iff]; exact ⟨by simpa using co, by simpa using cz⟩
    obtain ⟨hv0, d0, d1, φ0, φ1, hd0, hd1, vlo, vhi, hφ, s0, s1⟩ := hden.split hg hnt
    obtain ⟨nlo, plo⟩ := ih _ _ _ (pre ++ [-((s.var r : Nat) : Int)]) _ hg vlo (by omega)
    obtain ⟨nhi, phi⟩ := ih _ _ _ (pre ++ [((s.var r : Nat) : Int)]) _ hg vhi (by omega)
    have half : φ = (fun _ => false) → φ0 = (fun _ => false) ∧ φ1 = (fun _ => false) := by
      intro h
      constructor
      · funext x
        have := congrFun h (upd x (s.var r) false)
        rw [hφ] at this; simp only [upd_same, Bool.false_eq_true, ↓reduceIte] at this
        rw [← this]; exact s0 _ _ (upd_agree' x _ false _ (Nat.lt_succ_self _))
      · funext x
        have := congrFun h (upd x (s.var r) true)
        rw [hφ] at this; simp only [upd_same, ↓reduceIte] at this
        rw [← this]; exact s1 _ _ (upd_agree' x _ true _ (Nat.lt_succ_self _))
    simp only
    cases hh : oneSat fuel s (s.highNode r) (pre ++ [((s.var r : Nat) : Int)]) with
    | some p =>
      simp only
      refine ⟨⟨fun h => (by cases h), fun h => ?_⟩, fun p' hp' => ?_⟩
      · exfalso
        have := nhi.mpr (half h).2; rw [hh] at this; cases this
      · cases hp'
        obtain ⟨q, hq, himp⟩ := phi p hh
        refine ⟨((s.var r : Nat) : Int) :: q, by rw [hq]; simp, fun e he => ?_⟩
        have : Sat e (((s.var r : Nat) : Int) :: q) = (Sat e [((s.var r : Nat) : Int)] && Sat e q) := by
          rw [← Sat_append]; rfl
        rw [this, sat_lit_pos e _ hv0, Bool.and_eq_true] at he
        rw [hφ]; simp only [he.1, ↓reduceIte]; exact himp e he.2
    | none =>
      simp only
      have h1f : φ1 = fun _ => false := nhi.mp hh
      refine ⟨⟨fun h => ?_, fun h => ?_⟩, fun p' hp' => ?_⟩
      · have h0f := nlo.mp h
        rw [hφ, h1f, h0f]; funext x; simp
      · exact nlo.mpr (half h).1
      · obtain ⟨q, hq, himp⟩ := plo p' hp'
        refine ⟨(-((s.var r : Nat) : Int)) :: q, by rw [hq]; simp, fun e he => ?_⟩
        have : Sat e ((-((s.var r : Nat) : Int)) :: q) = (Sat e [-((s.var r : Nat) : Int)] && Sat e q) := by
          rw [← Sat_append]; rfl
        rw [this, sat_lit_neg e _ hv0, Bool.and_eq_true] at he
        have hev : e (s.var r) = false := by simpa using he.1
        rw [hφ]; simp only [hev, Bool.false_eq_true, ↓reduceIte]; exact himp e he.2

/-! ### the literals of a cube come out in variable order -/

/-- strictly increasing in the variable (`|literal|`) -/
abbrev LitsInc (p : List Int) : Prop := p.Pairwise (fun a b => a.natAbs < b.natAbs)

theorem litsInc_snoc {pre : List Int} {m v : Nat} {l : Int} (hl : l.natAbs = v) (hmv : m ≤ v)
    (hi : LitsInc pre) (hb : ∀ x, x ∈ pre → x.natAbs < m) :
    LitsInc (pre ++ [l]) ∧ ∀ x, x ∈ pre ++ [l] → x.natAbs < v + 1 := by
  constructor
  · unfold LitsInc; rw [List.pairwise_append]
    refine ⟨hi, List.pairwise_singleton _ _, ?_⟩
    intro a ha b hb'
    have : b = l := by simpa using hb'
    subst this; have := hb a ha; omega
  · intro x hx
    rcases List.mem_append.mp hx with h | h
    · have := hb x h; omega
    · have : x = l := by simpa using h
      subst this; omega

/-- one step down from a non-terminal handle: its variable is at least the bound known for it, and
both children lie strictly below (in the order) -/
theorem step_top {s : St} (hg : Good s) {r φ m} (vr : Valid s.nodes r φ) (hnt : isTerminal r = false)
    (ht : TopGe s.nodes r m) :
    m ≤ s.var r ∧ (∃ φ0, Valid s.nodes (s.lowNode r) φ0) ∧ (∃ φ1, Valid s.nodes (s.highNode r) φ1) ∧
      TopGe s.nodes (s.lowNode r) (s.var r + 1) ∧ TopGe s.nodes (s.highNode r) (s.var r + 1) := by
  obtain ⟨d, hden⟩ := vr
  obtain ⟨_, d0, d1, φ0, φ1, _, _, vlo, vhi, _, s0, s1⟩ := hden.split hg hnt
  refine ⟨?_, ⟨φ0, _, vlo⟩, ⟨φ1, _, vhi⟩, topGe_of_supp hg.inv ⟨_, vlo⟩ s0, topGe_of_supp hg.inv ⟨_, vhi⟩ s1⟩
  rcases ht with h | ⟨n, hn, hm⟩
  · exfalso
    rcases r with ⟨i, b⟩; simp only at h; subst h
    cases b <;> simp [isTerminal, isOne, isZero, Ref.one, Ref.zero] at hnt
  · rw [St.var_of hn]; exact hm

theorem pathsRec_inc : ∀ fuel s r φ pre m, Good s → Valid s.nodes r φ → TopGe s.nodes r m →
    LitsInc pre → (∀ x, x ∈ pre → x.natAbs < m) → ∀ p, p ∈ pathsRec fuel s r pre → LitsInc p := by
  intro fuel
  induction fuel with
  | zero => intro s r φ pre m _ _ _ _ _ p hp; simp [pathsRec] at hp
  | succ fuel ih =>
    intro s r φ pre m hg vr ht hi hb p hp
    unfold pathsRec at hp
    by_cases cz : isZero r = true
    · rw [if_pos cz] at hp; cases hp
    rw [if_neg cz] at hp
    by_cases co : isOne r = true
    · rw [if_pos co] at hp
      have : p = pre := by simpa using hp
      subst this; exact hi
    rw [if_neg co] at hp
    have hnt : isTerminal r = false := by
      simp only [isTerminal, Bool.or_eq_false_iff]; exact ⟨by simpa using co, by simpa using cz⟩
    obtain ⟨hmv, ⟨φ0, vlo⟩, ⟨φ1, vhi⟩, tlo, thi⟩ := step_top hg vr hnt ht
    rcases List.mem_append.mp hp with h | h
    · obtain ⟨a, b⟩ := litsInc_snoc (l := -((s.var r : Nat) : Int)) (by simp) hmv hi hb
      exact ih _ _ _ _ _ hg vlo tlo a b p h
    · obtain ⟨a, b⟩ := litsInc_snoc (l := ((s.var r : Nat) : Int)) (by simp) hmv hi hb
      exact ih _ _ _ _ _ hg vhi thi a b p h

/-- every cube enumerated for `f` lists its literals in strictly increasing variable order -/
theorem pathsRec_sorted {fuel s r φ} (hg : Good s) (v : Valid s.nodes r φ) :
    ∀ p, p ∈ pathsRec fuel s r [] → List.Pairwise (fun a b : Int => a.natAbs < b.natAbs) p := by
  intro p hp
  refine pathsRec_inc fuel s r φ [] 0 hg v ?_ List.Pairwise.nil (fun x hx => by cases hx) p hp
  rcases valid_stored v with h | ⟨n, hn⟩
  · exact Or.inl h
  · exact Or.inr ⟨n, hn, Nat.zero_le _⟩

theorem oneSat_inc : ∀ fuel s r φ pre m, Good s → Valid s.nodes r φ → TopGe s.nodes r m →
    LitsInc pre → (∀ x, x ∈ pre → x.natAbs < m) → ∀ p, oneSat fuel s r pre = some p → LitsInc p := by
  intro fuel
  induction fuel with
  | zero => intro s r φ pre m _ _ _ _ _ p hp; simp [oneSat] at hp
  | succ fuel ih =>
    intro s r φ pre m hg vr ht hi hb p hp
    unfold oneSat at hp
    by_cases cz : isZero r = true
    · rw [if_pos cz] at hp; cases hp
    rw [if_neg cz] at hp
    by_cases co : isOne r = true
    · rw [if_pos co] at hp
      cases hp; exact hi
    rw [if_neg co] at hp
    have hnt : isTerminal r = false := by
      simp only [isTerminal, Bool.or_eq_false_iff]; exact ⟨by simpa using co, by simpa using cz⟩
    obtain ⟨hmv, ⟨φ0, vlo⟩, ⟨φ1, vhi⟩, tlo, thi⟩ := step_top hg vr hnt ht
    simp only at hp
    cases hh : oneSat fuel s (s.highNode r) (pre ++ [((s.var r : Nat) : Int)]) with
    | some q =>
      simp only [hh] at hp
      cases hp
      obtain ⟨a, b⟩ := litsInc_snoc (l := ((s.var r : Nat) : Int)) (by simp) hmv hi hb
      exact ih _ _ _ _ _ hg vhi thi a b p hh
    | none =>
      simp only [hh] at hp
      obtain ⟨a, b⟩ := litsInc_snoc (l := -((s.var r : Nat) : Int)) (by simp) hmv hi hb
      exact ih _ _ _ _ _ hg vlo tlo a b p hp

/-- the implicant returned by `one_sat` lists its literals in strictly increasing variable order -/
theorem oneSat_sorted {fuel s r φ p} (hg : Good s) (v : Valid s.nodes r φ) (h : oneSat fuel s r [] = some p) :
    List.Pairwise (fun a b : Int => a.natAbs < b.natAbs) p := by
  refine oneSat_inc fuel s r φ [] 0 hg v ?_ List.Pairwise.nil (fun x hx => by cases hx) p h
  rcases valid_stored v with h | ⟨n, hn⟩
  · exact Or.inl h
  · exact Or.inr ⟨n, hn, Nat.zero_le _⟩

#print axioms paths_exactly_once
#print axioms oneSat_spec
#print axioms pathsRec_sorted
#print axioms oneSat_sorted
end P

import BddProofs.CubeCofactor
/-! C08 corollaries: what `substitute` returns does not mention the variable; the three entry
points `substitute`, `substitute_multi`, `cofactor_cube` agree *as handles*; the accessors
`low_node`/`high_node` of a live non-terminal handle are its two cofactors at the top variable. -/
namespace P
open Arr

/-! ## entry points (empty per-call memo) -/

theorem SMemoOk.nil (nd : Nodes) (v : Nat) (b : Bool) : SMemoOk nd v b [] := by
  intro f r hl; cases hl

theorem MMemoOk.nil (nd : Nodes) (vals : Vals) : MMemoOk nd vals [] := by
  intro f r hl; cases hl

theorem KMemoOk.nil (nd : Nodes) (cube0 : Vals) : KMemoOk nd cube0 [] := by
  intro l f r hl; cases hl

/-- `substitute(f, v, b)` as called from outside -/
theorem substitute_top {fuel : Nat} {s : St} {f : Ref} {v : Nat} {b : Bool} {φ : Fn} {s' : St} {r : Ref} {m : SMemo}
    (hg : Good s) (vf : Valid s.nodes f φ) (hres : substitute fuel s f v b [] = .ok (s', r, m)) :
    Good s' ∧ Sub s.nodes s'.nodes ∧ Valid s'.nodes r (cof φ v b) := by
  obtain ⟨a, b', c, _⟩ := substitute_spec v b fuel s f φ [] s' r m hg vf (SMemoOk.nil _ _ _) hres
  exact ⟨a, b', c⟩

/-- `substitute_multi(f, vals)` as called from outside -/
theorem substMulti_top {fuel : Nat} {s : St} {f : Ref} {vals : Vals} {φ : Fn} {s' : St} {r : Ref} {m : SMemo}
    (hg : Good s) (vf : Valid s.nodes f φ) (hres : substMulti fuel s f vals [] = .ok (s', r, m)) :
    Good s' ∧ Sub s.nodes s'.nodes ∧ Valid s'.nodes r (FixVals φ vals) := by
  obtain ⟨d, hd⟩ := vf
  obtain ⟨a, b', c, _⟩ := substMulti_spec vals fuel s f φ [] s' r m d hg hd (MMemoOk.nil _ _) hres
  exact ⟨a, b', c⟩

/-- `cofactor_cube(f, cube)` as called from outside, for a cube listed in ascending variable order -/
theorem cofCube_top {fuel : Nat} {s : St} {f : Ref} {cube : Vals} {φ : Fn} {s' : St} {r : Ref} {m : KMemo}
    (hg : Good s) (vf : Valid s.nodes f φ) (hasc : cube.Pairwise (fun a b => a.1 < b.1))
    (hres : cofCube fuel s f cube [] = .ok (s', r, m)) :
    Good s' ∧ Sub s.nodes s'.nodes ∧ Valid s'.nodes r (FixVals φ cube) := by
  obtain ⟨d, hd⟩ := vf
  obtain ⟨a, b', c, _⟩ := cofCube_spec cube fuel s f φ cube [] s' r m d hg hd (KMemoOk.nil _ _) hasc
    (by simp) (Nat.le_refl _) hres
  exact ⟨a, b', c⟩

/-! ## (a) the result of `substitute` does not mention the variable -/

theorem cof_cof_same (φ : Fn) (v : Nat) (b b' : Bool) : cof (cof φ v b) v b' = cof φ v b := by
  funext e; simp only [cof, upd_upd]

theorem not_dependsOn_cof (φ : Fn) (v : Nat) (b : Bool) : ¬ DependsOn (cof φ v b) v := by
  intro h; apply h; rw [cof_cof_same, cof_cof_same]

/-- a function that does not depend on `v` is its own cofactor -/
theorem cof_of_not_dependsOn {φ : Fn} {v : Nat} (h : ¬ DependsOn φ v) (b : Bool) : cof φ v b = φ := by
  have heq : cof φ v false = cof φ v true := by
    apply Classical.byContradiction; intro hne; exact h hne
  funext e
  have hsh := congrFun (shannon φ v) e
  rw [hsh]
  have hx := congrFun heq e
  cases b <;> by_cases hev : e v = true <;> simp [hev, hx]

/-- C08(a): the handle returned by `substitute(f, v, b)` denotes a function that does not depend
on `v`: fixing `v` again (to either value) changes nothing -/
theorem substitute_indep {fuel : Nat} {s : St} {f : Ref} {v : Nat} {b : Bool} {φ : Fn} {s' : St} {r : Ref} {m : SMemo}
    (hg : Good s) (vf : Valid s.nodes f φ) (hres : substitute fuel s f v b [] = .ok (s', r, m)) :
    ∃ ψ, Valid s'.nodes r ψ ∧ ¬ DependsOn ψ v ∧ ∀ b', cof ψ v b' = ψ :=
  ⟨cof φ v b, (substitute_top hg vf hres).2.2, not_dependsOn_cof φ v b, fun b' => cof_cof_same φ v b b'⟩

/-- equal functions in a later good store are the same handle -/
theorem handle_eq {s t : St} (hgt : Good t) (sub : Sub s.nodes t.nodes) {r1 r2 : Ref} {ψ : Fn}
    (v1 : Valid s.nodes r1 ψ) (v2 : Valid t.nodes r2 ψ) : r1 = r2 := by
  obtain ⟨d1, h1⟩ := v1.mono sub
  obtain ⟨d2, h2⟩ := v2
  exact canonicity hgt.inv h1 h2

/-- C08(a): when `f` does not depend on `v`, `substitute(f, v, b)` returns `f` itself -/
theorem substitute_of_indep {fuel : Nat} {s : St} {f : Ref} {v : Nat} {b : Bool} {φ : Fn} {s' : St} {r : Ref} {m : SMemo}
    (hg : Good s) (vf : Valid s.nodes f φ) (hind : ¬ DependsOn φ v)
    (hres : substitute fuel s f v b [] = .ok (s', r, m)) : r = f := by
  obtain ⟨g', sub, vr⟩ := substitute_top hg vf hres
  rw [cof_of_not_dependsOn hind] at vr
  exact (handle_eq g' sub vf vr).symm

/-- substituting twice for the same variable is substituting once (as handles) -/
theorem substitute_idem {fuel fuel' : Nat} {s s1 s2 : St} {f r1 r2 : Ref} {v : Nat} {b b' : Bool} {φ : Fn} {m1 m2 : SMemo}
    (hg : Good s) (vf : Valid s.nodes f φ)
    (h1 : substitute fuel s f v b [] = .ok (s1, r1, m1))
    (h2 : substitute fuel' s1 r1 v b' [] = .ok (s2, r2, m2)) : r2 = r1 := by
  obtain ⟨g1, _, vr1⟩ := substitute_top hg vf h1
  exact substitute_of_indep g1 vr1 (not_dependsOn_cof φ v b) h2

/-! ## (b) the entry points agree as handles -/

theorem fixVals_nil (φ : Fn) : FixVals φ [] = φ := by
  funext e; simp only [FixVals]; congr 1

theorem fixVals_single (φ : Fn) (v : Nat) (b : Bool) : FixVals φ [(v, b)] = cof φ v b := by
  funext e
  simp only [FixVals, cof]
  congr 1
  funext w
  simp only [ovr, List.lookup, upd]
  by_cases h : w = v
  · subst h; simp
  · have : (w == v) = false := by simpa using h
    simp [this, h]

/-- only the lookup function of a value list matters -/
theorem fixVals_congr (φ : Fn) {vals vals' : Vals} (h : ∀ w, vals.lookup w = vals'.lookup w) :
    FixVals φ vals = FixVals φ vals' := by
  funext e; simp only [FixVals]; congr 1; funext w; simp only [ovr, h]

/-- a successful outside call of `substitute` -/
def SubstRes (s : St) (f : Ref) (v : Nat) (b : Bool) (s' : St) (r : Ref) : Prop :=
  ∃ fuel m, substitute fuel s f v b [] = .ok (s', r, m)
/-- a successful outside call of `substitute_multi` -/
def MultiRes (s : St) (f : Ref) (vals : Vals) (s' : St) (r : Ref) : Prop :=
  ∃ fuel m, substMulti fuel s f vals [] = .ok (s', r, m)
/-- a successful outside call of `cofactor_cube` -/
def CubeRes (s : St) (f : Ref) (cube : Vals) (s' : St) (r : Ref) : Prop :=
  ∃ fuel m, cofCube fuel s f cube [] = .ok (s', r, m)

/-- fixing one variable through any of the three entry points -/
def Cof1Res (s : St) (f : Ref) (v : Nat) (b : Bool) (s' : St) (r : Ref) : Prop :=
  SubstRes s f v b s' r ∨ MultiRes s f [(v, b)] s' r ∨ CubeRes s f [(v, b)] s' r

theorem Cof1Res.spec {s : St} {f : Ref} {v : Nat} {b : Bool} {φ : Fn} {s' : St} {r : Ref}
    (hg : Good s) (vf : Valid s.nodes f φ) (h : Cof1Res s f v b s' r) :
    Good s' ∧ Sub s.nodes s'.nodes ∧ Valid s'.nodes r (cof φ v b) := by
  rcases h with ⟨fuel, m, h⟩ | ⟨fuel, m, h⟩ | ⟨fuel, m, h⟩
  · exact substitute_top hg vf h
  · rw [← fixVals_single]; exact substMulti_top hg vf h
  · rw [← fixVals_single]; exact cofCube_top hg vf (List.pairwise_singleton _ _) h

/-- C08(b): any two of `substitute(f,v,b)`, `substitute_multi(f,{v↦b})`, `cofactor_cube(f,[v↦b])`
(the same one twice included) return the same handle, the second being run in any good state `t`
that extends the state the first one left -/
theorem cof1_agree_later {s s1 t s2 : St} {f r1 r2 : Ref} {v : Nat} {b : Bool} {φ : Fn}
    (hg : Good s) (vf : Valid s.nodes f φ) (h1 : Cof1Res s f v b s1 r1)
    (hgt : Good t) (sub : Sub s1.nodes t.nodes) (h2 : Cof1Res t f v b s2 r2) : r1 = r2 := by
  obtain ⟨_, sub1, vr1⟩ := h1.spec hg vf
  obtain ⟨g2, sub2, vr2⟩ := h2.spec hgt ((vf.mono sub1).mono sub)
  exact handle_eq g2 (Sub.trans sub sub2) vr1 vr2

/-- C08(b): one run after the other -/
theorem cof1_agree {s s1 s2 : St} {f r1 r2 : Ref} {v : Nat} {b : Bool} {φ : Fn}
    (hg : Good s) (vf : Valid s.nodes f φ) (h1 : Cof1Res s f v b s1 r1) (h2 : Cof1Res s1 f v b s2 r2) :
    r1 = r2 :=
  cof1_agree_later hg vf h1 (h1.spec hg vf).1 (Sub.refl _) h2

/-- C08(b): all three, one after the other, in any order of the entry points -/
theorem cof1_agree3 {s s1 s2 s3 : St} {f r1 r2 r3 : Ref} {v : Nat} {b : Bool} {φ : Fn}
    (hg : Good s) (vf : Valid s.nodes f φ) (h1 : Cof1Res s f v b s1 r1) (h2 : Cof1Res s1 f v b s2 r2)
    (h3 : Cof1Res s2 f v b s3 r3) : r1 = r2 ∧ r2 = r3 := by
  obtain ⟨g1, sub1, _⟩ := h1.spec hg vf
  exact ⟨cof1_agree hg vf h1 h2, cof1_agree g1 (vf.mono sub1) h2 h3⟩

/-- the three named instances, spelled out on the operations themselves -/
theorem substitute_substMulti_agree {fuel fuel' : Nat} {s s1 s2 : St} {f r1 r2 : Ref} {v : Nat} {b : Bool} {φ : Fn}
    {m1 m2 : SMemo} (hg : Good s) (vf : Valid s.nodes f φ)
    (h1 : substitute fuel s f v b [] = .ok (s1, r1, m1))
    (h2 : substMulti fuel' s1 f [(v, b)] [] = .ok (s2, r2, m2)) : r1 = r2 :=
  cof1_agree hg vf (Or.inl ⟨_, _, h1⟩) (Or.inr (Or.inl ⟨_, _, h2⟩))

theorem substitute_cofCube_agree {fuel fuel' : Nat} {s s1 s2 : St} {f r1 r2 : Ref} {v : Nat} {b : Bool} {φ : Fn}
    {m1 : SMemo} {m2 : KMemo} (hg : Good s) (vf : Valid s.nodes f φ)
    (h1 : substitute fuel s f v b [] = .ok (s1, r1, m1))
    (h2 : cofCube fuel' s1 f [(v, b)] [] = .ok (s2, r2, m2)) : r1 = r2 :=
  cof1_agree hg vf (Or.inl ⟨_, _, h1⟩) (Or.inr (Or.inr ⟨_, _, h2⟩))

theorem substMulti_cofCube_agree1 {fuel fuel' : Nat} {s s1 s2 : St} {f r1 r2 : Ref} {v : Nat} {b : Bool} {φ : Fn}
    {m1 : SMemo} {m2 : KMemo} (hg : Good s) (vf : Valid s.nodes f φ)
    (h1 : substMulti fuel s f [(v, b)] [] = .ok (s1, r1, m1))
    (h2 : cofCube fuel' s1 f [(v, b)] [] = .ok (s2, r2, m2)) : r1 = r2 :=
  cof1_agree hg vf (Or.inr (Or.inl ⟨_, _, h1⟩)) (Or.inr (Or.inr ⟨_, _, h2⟩))

/-- C08(b), many variables: `substitute_multi` with a value map and `cofactor_cube` with an
ascending cube that has the same lookups (in particular: the same ascending list) return the
same handle; `substitute_multi` first -/
theorem substMulti_cofCube_agree {s s1 t s2 : St} {f r1 r2 : Ref} {vals cube : Vals} {φ : Fn}
    (hg : Good s) (vf : Valid s.nodes f φ) (hsame : ∀ w, vals.lookup w = cube.lookup w)
    (hasc : cube.Pairwise (fun a b => a.1 < b.1))
    (h1 : MultiRes s f vals s1 r1) (hgt : Good t) (sub : Sub s1.nodes t.nodes)
    (h2 : CubeRes t f cube s2 r2) : r1 = r2 := by
  obtain ⟨_, _, h1⟩ := h1
  obtain ⟨_, _, h2⟩ := h2
  obtain ⟨_, sub1, vr1⟩ := substMulti_top hg vf h1
  obtain ⟨g2, sub2, vr2⟩ := cofCube_top hgt ((vf.mono sub1).mono sub) hasc h2
  rw [fixVals_congr φ hsame] at vr1
  exact handle_eq g2 (Sub.trans sub sub2) vr1 vr2

/-- the same with `cofactor_cube` first -/
theorem cofCube_substMulti_agree {s s1 t s2 : St} {f r1 r2 : Ref} {vals cube : Vals} {φ : Fn}
    (hg : Good s) (vf : Valid s.nodes f φ) (hsame : ∀ w, vals.lookup w = cube.lookup w)
    (hasc : cube.Pairwise (fun a b => a.1 < b.1))
    (h1 : CubeRes s f cube s1 r1) (hgt : Good t) (sub : Sub s1.nodes t.nodes)
    (h2 : MultiRes t f vals s2 r2) : r1 = r2 := by
  obtain ⟨_, _, h1⟩ := h1
  obtain ⟨_, _, h2⟩ := h2
  obtain ⟨_, sub1, vr1⟩ := cofCube_top hg vf hasc h1
  obtain ⟨g2, sub2, vr2⟩ := substMulti_top hgt ((vf.mono sub1).mono sub) h2
  rw [fixVals_congr φ hsame] at vr2
  exact handle_eq g2 (Sub.trans sub sub2) vr1 vr2

/-- the same ascending list given to both, one run after the other -/
theorem substMulti_cofCube_same_list {fuel fuel' : Nat} {s s1 s2 : St} {f r1 r2 : Ref} {cube : Vals} {φ : Fn}
    {m1 : SMemo} {m2 : KMemo} (hg : Good s) (vf : Valid s.nodes f φ)
    (hasc : cube.Pairwise (fun a b => a.1 < b.1))
    (h1 : substMulti fuel s f cube [] = .ok (s1, r1, m1))
    (h2 : cofCube fuel' s1 f cube [] = .ok (s2, r2, m2)) : r1 = r2 :=
  substMulti_cofCube_agree hg vf (fun _ => rfl) hasc ⟨_, _, h1⟩ (substMulti_top hg vf h1).1 (Sub.refl _) ⟨_, _, h2⟩

/-- and, by C10/C11, `constrain`/`restrict` by a cube handle return that same handle too -/
theorem constrain_cofCube_agree {fuel fuel' : Nat} {s s1 s2 : St} {f c r1 r2 : Ref} {cube : Vals} {φ : Fn}
    {m2 : KMemo} (hg : Good s) (vf : Valid s.nodes f φ) (vc : Valid s.nodes c (cubeFn cube))
    (hasc : cube.Pairwise (fun a b => a.1 < b.1))
    (h1 : constrain fuel s f c = .ok (s1, r1))
    (h2 : cofCube fuel' s1 f cube [] = .ok (s2, r2, m2)) : r1 = r2 := by
  have nd : (cube.map (·.1)).Nodup := by
    rw [List.Nodup, List.pairwise_map]
    exact hasc.imp (by intro a b hab; omega)
  obtain ⟨g1, sub1, vr1⟩ := constrain_by_cube hg vf vc nd h1
  obtain ⟨g2, sub2, vr2⟩ := cofCube_top g1 (vf.mono sub1) hasc h2
  exact handle_eq g2 sub2 vr1 vr2

theorem restrict_cofCube_agree {fuel fuel' : Nat} {s s1 s2 : St} {f c r1 r2 : Ref} {cube : Vals} {φ : Fn}
    {m2 : KMemo} (hg : Good s) (vf : Valid s.nodes f φ) (vc : Valid s.nodes c (cubeFn cube))
    (hasc : cube.Pairwise (fun a b => a.1 < b.1))
    (h1 : restrict fuel s f c = .ok (s1, r1))
    (h2 : cofCube fuel' s1 f cube [] = .ok (s2, r2, m2)) : r1 = r2 := by
  have nd : (cube.map (·.1)).Nodup := by
    rw [List.Nodup, List.pairwise_map]
    exact hasc.imp (by intro a b hab; omega)
  obtain ⟨g1, sub1, vr1⟩ := restrict_by_cube hg vf vc nd h1
  obtain ⟨g2, sub2, vr2⟩ := cofCube_top g1 (vf.mono sub1) hasc h2
  exact handle_eq g2 sub2 vr1 vr2

/-! ## (c) accessors -/

theorem Ref.not_inj {a b : Ref} (h : a.not = b.not) : a = b := by
  have := congrArg Ref.not h
  simpa using this

/-- C08(c): for a live non-terminal handle `f` with top variable `v = s.var f`, the accessors
`low_node(f)`/`high_node(f)` are live and denote the two cofactors of `f` at `v` (the complement
bit of `f` pushed into them); `v` is non-zero and is the first variable the function depends on -/
theorem accessors_spec {s : St} (hg : Good s) {f : Ref} {φ : Fn} (vf : Valid s.nodes f φ)
    (hnt : isTerminal f = false) :
    s.var f ≠ 0 ∧
    Valid s.nodes (s.lowNode f) (cof φ (s.var f) false) ∧
    Valid s.nodes (s.highNode f) (cof φ (s.var f) true) ∧
    SuppGe φ (s.var f) ∧ DependsOn φ (s.var f) ∧
    SuppGe (cof φ (s.var f) false) (s.var f + 1) ∧ SuppGe (cof φ (s.var f) true) (s.var f + 1) := by
  obtain ⟨d, hden⟩ := vf
  obtain ⟨hv0, d0, d1, φ0, φ1, _, _, vlo, vhi, hφ, s0, s1⟩ := hden.split hg hnt
  have c0 : cof φ (s.var f) false = φ0 := by rw [hφ]; exact (cof_node_eq s0 s1).1
  have c1 : cof φ (s.var f) true = φ1 := by rw [hφ]; exact (cof_node_eq s0 s1).2
  rw [c0, c1]
  refine ⟨hv0, ⟨_, vlo⟩, ⟨_, vhi⟩, supp_of_var hg ⟨d, hden⟩ (fun _ => Nat.le_refl _), ?_, s0, s1⟩
  -- the two branches are different handles, hence different functions
  intro heq'
  have heq : φ0 = φ1 := by rw [← c0, ← c1]; exact heq'
  subst heq
  have hsame : s.lowNode f = s.highNode f := canonicity hg.inv vlo vhi
  obtain ⟨n, hn, -, -⟩ := nonterm_stored hg ⟨d, hden⟩ hnt
  have hred := hg.inv.reduced _ _ hn
  apply hred
  unfold St.lowNode St.highNode at hsame
  rw [St.low_of hn, St.high_of hn] at hsame
  cases hb : f.neg with
  | false => simpa [hb] using hsame
  | true => simp only [hb, ↓reduceIte] at hsame; exact Ref.not_inj hsame

/-- the form asked for: top variable given by name -/
theorem accessors_valid {s : St} (hg : Good s) {f : Ref} {φ : Fn} {v : Nat} (vf : Valid s.nodes f φ)
    (hnt : isTerminal f = false) (hv : s.var f = v) :
    Valid s.nodes (s.lowNode f) (cof φ v false) ∧ Valid s.nodes (s.highNode f) (cof φ v true) := by
  subst hv
  obtain ⟨_, a, b, _⟩ := accessors_spec hg vf hnt
  exact ⟨a, b⟩

/-- the accessors are what `substitute` at the top variable returns (as handles) -/
theorem substitute_top_var {fuel : Nat} {s : St} {f : Ref} {b : Bool} {φ : Fn} {s' : St} {r : Ref} {m : SMemo}
    (hg : Good s) (vf : Valid s.nodes f φ) (hnt : isTerminal f = false)
    (hres : substitute fuel s f (s.var f) b [] = .ok (s', r, m)) :
    r = if b then s.highNode f else s.lowNode f := by
  obtain ⟨g', sub, vr⟩ := substitute_top hg vf hres
  obtain ⟨_, a, c, _⟩ := accessors_spec hg vf hnt
  cases b with
  | false => exact (handle_eq g' sub a vr).symm
  | true => exact (handle_eq g' sub c vr).symm

#print axioms substitute_top
#print axioms substMulti_top
#print axioms cofCube_top
#print axioms substitute_indep
#print axioms substitute_of_indep
#print axioms substitute_idem
#print axioms cof1_agree_later
#print axioms cof1_agree3
#print axioms substMulti_cofCube_agree
#print axioms cofCube_substMulti_agree
#print axioms substMulti_cofCube_same_list
#print axioms constrain_cofCube_agree
#print axioms restrict_cofCube_agree
#print axioms accessors_spec
#print axioms substitute_top_var
end P

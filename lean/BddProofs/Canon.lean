import BddModel.Basic
/-! Canonicity of complement-edge ROBDD node stores: relational denotation `Den`, the node-set
invariant `NInv`, and `canonicity` (equal functions ⇒ equal handles). -/
namespace P

abbrev Env := Nat → Bool
abbrev Fn := Env → Bool


abbrev Nodes := Nat → Option Node

/-- depth-indexed relational denotation -/
inductive Den (nd : Nodes) : Nat → Ref → Fn → Prop
  | one : Den nd 0 ⟨1, false⟩ (fun _ => true)
  | node {i n d0 d1 φ0 φ1} : nd i = some n → Den nd d0 n.low φ0 → Den nd d1 n.high φ1 →
      Den nd (max d0 d1 + 1) ⟨i, false⟩ (fun e => if e n.var then φ1 e else φ0 e)
  | neg {i d φ} : Den nd d ⟨i, false⟩ φ → Den nd d ⟨i, true⟩ (fun e => !φ e)

/-- `r`'s top variable is at least `v` (terminal counts as infinity) -/
def TopGe (nd : Nodes) (r : Ref) (v : Nat) : Prop :=
  r.idx = 1 ∨ ∃ n, nd r.idx = some n ∧ v ≤ n.var

structure NInv (nd : Nodes) : Prop where
  uniq : ∀ i j n, nd i = some n → nd j = some n → i = j
  noterm : nd 1 = none
  highReg : ∀ i n, nd i = some n → n.high.neg = false
  reduced : ∀ i n, nd i = some n → n.low ≠ n.high
  ordLow : ∀ i n, nd i = some n → TopGe nd n.low (n.var + 1)
  ordHigh : ∀ i n, nd i = some n → TopGe nd n.high (n.var + 1)

def SuppGe (φ : Fn) (v : Nat) : Prop :=
  ∀ e e' : Env, (∀ w, v ≤ w → e w = e' w) → φ e = φ e'

theorem Den.sign {nd} (hI : NInv nd) {d r φ} (h : Den nd d r φ) : φ (fun _ => true) = !r.neg := by
  induction h with
  | one => rfl
  | node hn _ h1 _ ih1 =>
    have := hI.highReg _ _ hn
    simp [ih1, this]
  | neg _ ih => simp [ih]

theorem Den.supp {nd} (hI : NInv nd) {d r φ} (h : Den nd d r φ) :
    ∀ v, TopGe nd r v → SuppGe φ v := by
  induction h with
  | one => intro v _ e e' _; rfl
  | @node i n d0 d1 φ0 φ1 hn _ _ ih0 ih1 =>
    intro v hv e e' hee
    have hvn : v ≤ n.var := by
      rcases hv with h | ⟨m, hm, hvm⟩
      · simp at h; subst h; simp [hI.noterm] at hn
      · simp at hm; rw [hn] at hm; cases hm; exact hvm
    have h0 := ih0 (n.var + 1) (hI.ordLow _ _ hn) e e' (fun w hw => hee w (by omega))
    have h1 := ih1 (n.var + 1) (hI.ordHigh _ _ hn) e e' (fun w hw => hee w (by omega))
    simp only [h0, h1, hee n.var hvn]
  | neg _ ih =>
    intro v hv e e' hee
    have := ih v hv e e' hee
    simp [this]

def upd (e : Env) (v : Nat) (b : Bool) : Env := fun w => if w = v then b else e w
@[simp] theorem upd_same (e : Env) (v b) : upd e v b v = b := by simp [upd]
theorem upd_other (e : Env) (v b w) (h : w ≠ v) : upd e v b w = e w := by simp [upd, h]
theorem upd_agree (e : Env) (v : Nat) (b b' : Bool) (u : Nat) (hu : v < u) :
    ∀ w, u ≤ w → upd e v b w = upd e v b' w := by
  intro w hw; rw [upd_other _ _ _ _ (by omega), upd_other _ _ _ _ (by omega)]
theorem upd_agree' (e : Env) (v : Nat) (b : Bool) (u : Nat) (hu : v < u) :
    ∀ w, u ≤ w → e w = upd e v b w := by
  intro w hw; rw [upd_other _ _ _ _ (by omega)]

theorem Den.negInv {nd d i φ} (h : Den nd d ⟨i, true⟩ φ) :
    ∃ ψ, Den nd d ⟨i, false⟩ ψ ∧ φ = fun e => !ψ e := by
  cases h with
  | neg h => exact ⟨_, h, rfl⟩

theorem Den.regInv {nd d i φ} (h : Den nd d ⟨i, false⟩ φ) :
    (i = 1 ∧ d = 0 ∧ φ = fun _ => true) ∨
    ∃ n d0 d1 φ0 φ1, nd i = some n ∧ Den nd d0 n.low φ0 ∧ Den nd d1 n.high φ1 ∧
      d = max d0 d1 + 1 ∧ φ = fun e => if e n.var then φ1 e else φ0 e := by
  cases h with
  | one => exact Or.inl ⟨rfl, rfl, rfl⟩
  | node hn h0 h1 => exact Or.inr ⟨_, _, _, _, _, hn, h0, h1, rfl, rfl⟩

/-- canonicity up to depth k -/
def CanonUpTo (nd : Nodes) (k : Nat) : Prop :=
  ∀ d d' r r' φ, d ≤ k → d' ≤ k → Den nd d r φ → Den nd d' r' φ → r = r'

/-- a stored node's function really depends on its variable, given canonicity below -/
theorem depends_top {nd} (hI : NInv nd) {k i n d0 d1 φ0 φ1}
    (hc : CanonUpTo nd k) (hn : nd i = some n)
    (h0 : Den nd d0 n.low φ0) (h1 : Den nd d1 n.high φ1) (hd0 : d0 ≤ k) (hd1 : d1 ≤ k) :
    ∃ e : Env, (if (upd e n.var true) n.var then φ1 (upd e n.var true) else φ0 (upd e n.var true)) ≠
               (if (upd e n.var false) n.var then φ1 (upd e n.var false) else φ0 (upd e n.var false)) := by
  have hne : φ0 ≠ φ1 := by
    intro heq
    subst heq
    exact hI.reduced _ _ hn (hc _ _ _ _ _ hd0 hd1 h0 h1)
  have : ∃ e, φ0 e ≠ φ1 e := by
    apply Classical.byContradiction
    intro hcon
    apply hne
    funext e
    apply Classical.byContradiction
    intro h
    exact hcon ⟨e, h⟩
  obtain ⟨e, he⟩ := this
  refine ⟨e, ?_⟩
  have s0 := h0.supp hI (n.var + 1) (hI.ordLow _ _ hn)
  have s1 := h1.supp hI (n.var + 1) (hI.ordHigh _ _ hn)
  have e1 : φ1 (upd e n.var true) = φ1 e := (s1 _ _ (upd_agree' e n.var true _ (Nat.lt_succ_self _))).symm
  have e0 : φ0 (upd e n.var false) = φ0 e := (s0 _ _ (upd_agree' e n.var false _ (Nat.lt_succ_self _))).symm
  simp only [upd_same, e1, e0]
  simp
  exact fun h => he h.symm

theorem canon_step {nd} (hI : NInv nd) (k : Nat) (ih : ∀ j, j < k → CanonUpTo nd j) : CanonUpTo nd k := by
  intro d d' r r' φ hd hd' h h'
  -- signs agree
  have s := h.sign hI
  have s' := h'.sign hI
  have hneg : r.neg = r'.neg := by
    rw [s] at s'; simpa using s'
  -- reduce to the regular case
  suffices reg : ∀ i i' ψ, Den nd d ⟨i, false⟩ ψ → Den nd d' ⟨i', false⟩ ψ → i = i' by
    rcases r with ⟨i, b⟩; rcases r' with ⟨i', b'⟩
    simp at hneg; subst hneg
    cases b with
    | false => rw [reg i i' φ h h']
    | true =>
      obtain ⟨ψ, hψ, e1⟩ := h.negInv
      obtain ⟨ψ', hψ', e2⟩ := h'.negInv
      have : ψ = ψ' := by
        funext e
        have := congrFun (e1.symm.trans e2) e
        simpa using this
      subst this
      rw [reg i i' ψ hψ hψ']
  intro i i' ψ hr hr'
  rcases hr.regInv with ⟨rfl, -, hφ⟩ | ⟨n, d0, d1, φ0, φ1, hn, h0, h1, hdd, hφ⟩
  · rcases hr'.regInv with ⟨rfl, -, -⟩ | ⟨n', d0', d1', φ0', φ1', hn', h0', h1', hdd', hφ'⟩
    · rfl
    · -- constant vs node: contradiction
      exfalso
      have hk : d0' ≤ k - 1 ∧ d1' ≤ k - 1 ∧ k - 1 < k := by omega
      obtain ⟨e, he⟩ := depends_top hI (ih (k - 1) hk.2.2) hn' h0' h1' hk.1 hk.2.1
      apply he
      have a := congrFun (hφ.symm.trans hφ') (upd e n'.var true)
      have b := congrFun (hφ.symm.trans hφ') (upd e n'.var false)
      rw [← a, ← b]
  · rcases hr'.regInv with ⟨rfl, -, hφ'⟩ | ⟨n', d0', d1', φ0', φ1', hn', h0', h1', hdd', hφ'⟩
    · exfalso
      have hk : d0 ≤ k - 1 ∧ d1 ≤ k - 1 ∧ k - 1 < k := by omega
      obtain ⟨e, he⟩ := depends_top hI (ih (k - 1) hk.2.2) hn h0 h1 hk.1 hk.2.1
      apply he
      have a := congrFun (hφ.symm.trans hφ') (upd e n.var true)
      have b := congrFun (hφ.symm.trans hφ') (upd e n.var false)
      rw [a, b]
    · -- node vs node
      have hk : d0 ≤ k - 1 ∧ d1 ≤ k - 1 ∧ d0' ≤ k - 1 ∧ d1' ≤ k - 1 ∧ k - 1 < k := by omega
      have hc := ih (k - 1) hk.2.2.2.2
      have sup := hr.supp hI
      have sup' := hr'.supp hI
      have hfun : (fun e => if e n.var then φ1 e else φ0 e) = (fun e => if e n'.var then φ1' e else φ0' e) :=
        hφ.symm.trans hφ'
      -- same top variable
      have hv : n.var = n'.var := by
        apply Classical.byContradiction
        intro hne
        rcases Nat.lt_or_gt_of_ne hne with hlt | hgt
        · obtain ⟨e, he⟩ := depends_top hI hc hn h0 h1 hk.1 hk.2.1
          apply he
          have := sup' n'.var (Or.inr ⟨n', hn', Nat.le_refl _⟩) (upd e n.var true) (upd e n.var false)
            (upd_agree e n.var true false _ hlt)
          rw [hφ'] at this
          have a := congrFun hfun (upd e n.var true)
          have b := congrFun hfun (upd e n.var false)
          simp only at a b this
          rw [a, b, this]
        · obtain ⟨e, he⟩ := depends_top hI hc hn' h0' h1' hk.2.2.1 hk.2.2.2.1
          apply he
          have := sup n.var (Or.inr ⟨n, hn, Nat.le_refl _⟩) (upd e n'.var true) (upd e n'.var false)
            (upd_agree e n'.var true false _ hgt)
          rw [hφ] at this
          have a := congrFun hfun (upd e n'.var true)
          have b := congrFun hfun (upd e n'.var false)
          simp only at a b this
          rw [← a, ← b, this]
      -- cofactors agree
      have s0 := h0.supp hI (n.var + 1) (hI.ordLow _ _ hn)
      have s1 := h1.supp hI (n.var + 1) (hI.ordHigh _ _ hn)
      have s0' := h0'.supp hI (n'.var + 1) (hI.ordLow _ _ hn')
      have s1' := h1'.supp hI (n'.var + 1) (hI.ordHigh _ _ hn')
      have eq0 : φ0 = φ0' := by
        funext e
        have a := congrFun hfun (upd e n.var false)
        have x := s0 e (upd e n.var false) (upd_agree' e n.var false _ (Nat.lt_succ_self _))
        have y := s0' e (upd e n.var false) (upd_agree' e n.var false _ (by omega))
        rw [← hv] at a
        simp only [upd_same] at a
        rw [x, y]; simpa using a
      have eq1 : φ1 = φ1' := by
        funext e
        have a := congrFun hfun (upd e n.var true)
        have x := s1 e (upd e n.var true) (upd_agree' e n.var true _ (Nat.lt_succ_self _))
        have y := s1' e (upd e n.var true) (upd_agree' e n.var true _ (by omega))
        rw [← hv] at a
        simp only [upd_same] at a
        rw [x, y]; simpa using a
      subst eq0; subst eq1
      have l := hc _ _ _ _ _ hk.1 hk.2.2.1 h0 h0'
      have hh := hc _ _ _ _ _ hk.2.1 hk.2.2.2.1 h1 h1'
      have : n = n' := by
        cases n; cases n'; simp at hv l hh; simp [hv, l, hh]
      subst this
      exact hI.uniq _ _ _ hn hn'

theorem canonicity {nd} (hI : NInv nd) {d d' r r' φ} (h : Den nd d r φ) (h' : Den nd d' r' φ) : r = r' := by
  have : ∀ k, CanonUpTo nd k := by
    intro k
    induction k using Nat.strongRecOn with
    | _ k ih => exact canon_step hI k ih
  exact this (max d d') d d' r r' φ (Nat.le_max_left _ _) (Nat.le_max_right _ _) h h'

end P
#print axioms P.canonicity

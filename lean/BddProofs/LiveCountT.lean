import BddProofs.Refine
import BddProofs.Counts
/-! The live-count invariant `RS` on the array table: `real_size` is the number of occupied cells
`≥ 1` (cell 0 is the always-occupied sentinel, so `realSize + 1` counts all occupied cells);
preserved by `Table.put`. -/
namespace P
open Arr S

/-- `real_size + 1 = |{ i < capacity | occupied i }|` -/
def RS {α : Type} (t : Table α) : Prop := t.realSize + 1 = Cn.countOcc (rd t.occs) t.vals.size

theorem countOcc_pos {occ : Nat → Bool} {i n : Nat} (hi : i < n) (ho : occ i = true) :
    1 ≤ Cn.countOcc occ n := by
  have := Cn.countOcc_clear hi ho; omega

/-! ### `put` -/

section
set_option linter.unusedSectionVars false
variable {α : Type} [Inhabited α]

theorem Table.alloc_realSize {t : Table α} {t' i} (h : t.alloc = .ok (t', i)) :
    t'.realSize = t.realSize + 1 ∧ i < t.vals.size := by
  unfold Table.alloc Table.allocAt at h
  generalize firstFree (rd t.occs) (t.lastIndex + 1 - t.minFree) t.minFree = k at h
  by_cases hge : k ≥ t.vals.size
  · rw [if_pos hge] at h; cases h
  · rw [if_neg hge] at h
    simp only [Except.ok.injEq, Prod.mk.injEq] at h
    obtain ⟨rfl, rfl⟩ := h
    exact ⟨rfl, by omega⟩

theorem Table.add_realSize {t : Table α} {v : α} {t' i} (h : t.add v = .ok (t', i)) :
    t'.realSize = t.realSize + 1 ∧ i < t.vals.size := by
  unfold Table.add at h
  cases ha : t.alloc with
  | error e => rw [ha] at h; cases h
  | ok p =>
    obtain ⟨t1, k⟩ := p
    rw [ha] at h
    simp only [Except.ok.injEq, Prod.mk.injEq] at h
    obtain ⟨rfl, rfl⟩ := h
    have := Table.alloc_realSize ha
    exact this

variable [DecidableEq α] [MyHash α]

theorem Table.putLoop_realSize (t : Table α) (v : α) : ∀ (fuel idx : Nat) {t' i},
    t.putLoop v fuel idx = .ok (t', i) →
    t' = t ∨ (t'.realSize = t.realSize + 1 ∧ i < t.vals.size) := by
  intro fuel
  induction fuel with
  | zero => intro idx t' i h; simp [Table.putLoop] at h
  | succ fuel ih =>
    intro idx t' i h
    unfold Table.putLoop at h
    by_cases h0 : idx = 0
    · rw [if_pos h0] at h; cases h
    rw [if_neg h0] at h
    by_cases heq : rd t.vals idx = v
    · rw [if_pos heq] at h
      simp only [Except.ok.injEq, Prod.mk.injEq] at h
      exact Or.inl h.1.symm
    · rw [if_neg heq] at h
      by_cases hz : rd t.nxs idx = 0
      · rw [if_pos hz] at h
        cases ha : t.add v with
        | error e => rw [ha] at h; cases h
        | ok p =>
          obtain ⟨t1, k⟩ := p
          rw [ha] at h
          simp only [Except.ok.injEq, Prod.mk.injEq] at h
          obtain ⟨rfl, rfl⟩ := h
          have := Table.add_realSize ha
          exact Or.inr this
      · rw [if_neg hz] at h
        exact ih _ h

theorem Table.put_realSize {t : Table α} {v : α} {t' i} (h : t.put v = .ok (t', i)) :
    t' = t ∨ (t'.realSize = t.realSize + 1 ∧ i < t.vals.size) := by
  unfold Table.put at h
  simp only at h
  by_cases hz : rd t.buckets (t.bucketIndex v) = 0
  · rw [if_pos hz] at h
    cases ha : t.add v with
    | error e => rw [ha] at h; cases h
    | ok p =>
      obtain ⟨t1, k⟩ := p
      rw [ha] at h
      simp only [Except.ok.injEq, Prod.mk.injEq] at h
      obtain ⟨rfl, rfl⟩ := h
      have := Table.add_realSize ha
      exact Or.inr this
  · rw [if_neg hz] at h
    exact Table.putLoop_realSize t v _ _ h

/-- **`put` keeps the live count exact**: a hit changes nothing, a fresh insertion occupies one
free in-range cell and bumps `real_size` by one -/
theorem Table.put_RS {t : Table α} (hw : t.Wf) {chains} (hI : TInv t.bhash t.toTab chains)
    (hrs : RS t) {v : α} {t' i} (h : t.put v = .ok (t', i)) : RS t' := by
  rcases Table.put_realSize h with rfl | ⟨hr, hi⟩
  · exact hrs
  obtain ⟨_, _, hsz, _, hcase⟩ := Table.put_spec hw hI h
  rcases hcase with ⟨_, _, _, rfl⟩ | ⟨_, _, hfree, hocc, _, _⟩
  · exact hrs
  · unfold RS at hrs ⊢
    rw [hr, hocc, hsz, Cn.countOcc_set hi hfree, ← hrs]

end


#print axioms Table.put_RS
end P

import BddProofs.RawOps
/-! C19, `get_mut`: the mutable lookup finds exactly the keys `get` finds, and writing through the
reference replaces the value of that key and nothing else. -/
namespace R
open Arr
set_option linter.unusedSectionVars false
variable {κ ν : Type} [DecidableEq κ]
section
variable (hashOf : κ → Nat) (dbg : Bool)

theorem getMut_spec {t : Raw κ ν} (hI : RInvFull hashOf t) (k : κ) (v : ν) :
    ∃ t', getMut hashOf dbg t k v = .ok (t', abs t k) ∧ RInvFull hashOf t' ∧ t'.len = t.len ∧
      (∀ k', abs t' k' = if k' = k ∧ abs t k ≠ none then some v else abs t k') := by
  rcases find_spec hashOf dbg hI k with ⟨i, st, v0, hf, hi, hs, ha⟩ | ⟨hf, ha⟩
  · obtain ⟨hR, hholds, hlen⟩ := replaceAt_inv hashOf hI.toRInv hi hs v
    have hrep : replaceAt t i v = t.setSlot i (.full st k v) := replaceAt_eq hs v
    have hfull : (t.slot i).isFull = true := by rw [hs]; rfl
    have hnfree : (t.slot i).isFree = false := by rw [hs]; rfl
    refine ⟨replaceAt t i v, by simp only [getMut, hf, hs, ha], ⟨hR, ?_, ?_, ?_, ?_⟩, hlen, ?_⟩
    · have := nFull_setSlot hi (.full st k v) (t := t)
      rw [hfull] at this
      simp only [Slot.isFull_full, ↓reduceIte] at this
      rw [hlen, hI.lenEq, hrep]
      omega
    · have := nFree_setSlot hi (.full st k v) (t := t)
      show (replaceAt t i v).free ≤ nFree (replaceAt t i v)
      rw [hrep]
      rw [hnfree] at this
      simp only [Slot.isFree_full, Bool.false_eq_true, ↓reduceIte] at this
      have h3 : t.free ≤ nFree t := hI.freeOk
      show t.free ≤ _
      omega
    · rcases hI.freePos with h | h
      · left; rw [hrep]; exact h
      · right; rw [hrep, Raw.cap_setSlot]; exact h
    · rw [hrep, Raw.cap_setSlot]; exact hI.pow2
    · intro k'
      rw [abs_of_holds_insert hashOf hI.toRInv hR hholds k', ha]
      by_cases e : k' = k
      · simp [e]
      · simp [e]
  · refine ⟨t, by simp only [getMut, hf, ha], hI, rfl, ?_⟩
    intro k'; simp [ha]

end
end R
#print axioms R.getMut_spec

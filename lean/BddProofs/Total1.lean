import BddProofs.TotalBase
/-! Totality (termination without panic, storage capacity permitting) of `constrain`. -/
namespace P
open Arr

/-- `constrain` terminates and hits no assertion: every recursive call is on cofactors at the
minimum top variable of `f, g` (or keeps `f` and descends in `g` when `f` does not depend on it), so
the level sum strictly decreases. -/
theorem constrain_total (V : Nat) : ∀ fuel s f g φf φg, Good s → VarsLe s V →
    Valid s.nodes f φf → Valid s.nodes g φg → lv s V f + lv s V g < fuel →
    TotalOut V (constrain fuel s f g) := by
  intro fuel
  induction fuel with
  | zero => intro s f g _ _ _ _ _ _ h; omega
  | succ fuel ih =>
    intro s f g φf φg hg hV vf vg hmu
    have done : ∀ x, TotalOut V (.ok (s, x) : Res (St × Ref)) := fun x => Or.inl ⟨s, x, rfl, hV⟩
    unfold constrain
    by_cases c1 : isZero g = true
    · rw [if_pos c1]; exact done _
    rw [if_neg c1]
    by_cases c2 : isOne g = true
    · rw [if_pos c2]; exact done _
    rw [if_neg c2]
    by_cases c3 : isTerminal f = true
    · rw [if_pos c3]; exact done _
    rw [if_neg c3]
    by_cases c4 : f = g
    · rw [if_pos c4]; exact done _
    rw [if_neg c4]
    by_cases c5 : f = g.not
    · rw [if_pos c5]; exact done _
    rw [if_neg c5]
    have hfnt : isTerminal f = false := by simpa using c3
    have hgnt : isTerminal g = false := not_terminal_of (by simpa using c2) (by simpa using c1)
    cases hc : (s.cacheGet (.constrain f g)).2 with
    | some res => exact Or.inl ⟨_, res, rfl, hV⟩
    | none =>
    simp only
    -- continue in the state after the cache probe (same storage, counters bumped)
    have hg0 := hg.cacheGet (.constrain f g)
    have hV0 : VarsLe (s.cacheGet (.constrain f g)).1 V := hV
    have vf' : Valid (s.cacheGet (.constrain f g)).1.nodes f φf := vf
    have vg' : Valid (s.cacheGet (.constrain f g)).1.nodes g φg := vg
    have hmu0 : lv (s.cacheGet (.constrain f g)).1 V f + lv (s.cacheGet (.constrain f g)).1 V g < fuel + 1 := hmu
    clear hmu vf vg hV done
    generalize (s.cacheGet (.constrain f g)).1 = s0 at *
    clear hc hg s
    have hfv := var_bounds hg0 hV0 vf' hfnt
    have hgv := var_bounds hg0 hV0 vg' hgnt
    have hatt : s0.var f = min (s0.var f) (s0.var g) ∨ s0.var g = min (s0.var f) (s0.var g) := by omega
    have hlef : min (s0.var f) (s0.var g) ≤ s0.var f := by omega
    have hleg : min (s0.var f) (s0.var g) ≤ s0.var g := by omega
    have hv0 : min (s0.var f) (s0.var g) ≠ 0 := by omega
    generalize min (s0.var f) (s0.var g) = v at *
    have hvV : v ≤ V := by omega
    obtain ⟨f0, f1, ef, lf0, lf1, sf⟩ := topCofactors_total hg0 hV0 vf' hv0 (fun _ => hlef)
    obtain ⟨g0, g1, eg, lg0, lg1, sg⟩ := topCofactors_total hg0 hV0 vg' hv0 (fun _ => hleg)
    simp only [ef, eg]
    have sa : SuppGe φf v := supp_of_var hg0 vf' (fun _ => hlef)
    have sb : SuppGe φg v := supp_of_var hg0 vg' (fun _ => hleg)
    obtain ⟨vf0, vf1⟩ := topCofactors_spec hg0 vf' sa ef
    obtain ⟨vg0, vg1⟩ := topCofactors_spec hg0 vg' sb eg
    have sum0 : lv s0 V f0 + lv s0 V g0 < lv s0 V f + lv s0 V g := by
      rcases hatt with e | e
      · have := (sf e).1; omega
      · have := (sg e).1; omega
    have sum1 : lv s0 V f1 + lv s0 V g1 < lv s0 V f + lv s0 V g := by
      rcases hatt with e | e
      · have := (sf e).2; omega
      · have := (sg e).2; omega
    by_cases z1 : isZero g1 = true
    · rw [if_pos z1]
      exact ih s0 f0 g0 _ _ hg0 hV0 vf0 vg0 (by omega)
    rw [if_neg z1]
    by_cases z0 : isZero g0 = true
    · rw [if_pos z0]
      exact ih s0 f1 g1 _ _ hg0 hV0 vf1 vg1 (by omega)
    rw [if_neg z0]
    -- the two-call tail, for either choice of first arguments
    have both : ∀ (fa fb : Ref) (a b : Fn), Valid s0.nodes fa a → Valid s0.nodes fb b →
        lv s0 V fa + lv s0 V g0 < lv s0 V f + lv s0 V g → lv s0 V fb + lv s0 V g1 < lv s0 V f + lv s0 V g →
        (∃ s', constrain fuel s0 fa g0 = .error (.storageFull, s')) ∨
        (∃ s1 low, constrain fuel s0 fa g0 = .ok (s1, low) ∧
          ((∃ s', constrain fuel s1 fb g1 = .error (.storageFull, s')) ∨
           (∃ s2 high, constrain fuel s1 fb g1 = .ok (s2, high) ∧ Good s2 ∧ VarsLe s2 V))) := by
      intro fa fb a b va vb la lb
      rcases ih s0 fa g0 _ _ hg0 hV0 va vg0 (by omega) with ⟨s1, low, e1, hV1⟩ | ⟨s1, e1⟩
      rotate_left
      · exact Or.inl ⟨_, e1⟩
      refine Or.inr ⟨s1, low, e1, ?_⟩
      obtain ⟨g1', sub1, -⟩ := constrain_spec _ _ _ _ _ _ _ _ hg0 va vg0 e1
      have l1 := lv_mono hg0 g1' sub1 V vb
      have l2 := lv_mono hg0 g1' sub1 V vg1
      rcases ih s1 fb g1 _ _ g1' hV1 (vb.mono sub1) (vg1.mono sub1) (by omega) with ⟨s2, high, e2, hV2⟩ | ⟨s2, e2⟩
      rotate_left
      · exact Or.inl ⟨_, e2⟩
      obtain ⟨g2', -, -⟩ := constrain_spec _ _ _ _ _ _ _ _ g1' (vb.mono sub1) (vg1.mono sub1) e2
      exact Or.inr ⟨s2, high, e2, g2', hV2⟩
    by_cases c : f0 = f1
    · rw [if_pos c]
      -- `f` does not depend on `v`, so `g` does
      have hcof : cof φf v false = cof φf v true := by subst c; exact vf0.det hg0.inv.noterm vf1
      have hl := lv_le_of_supp hg0 V vf' (supp_succ_of_cof_eq sa hcof)
      have hlf : lv s0 V f = V + 1 - s0.var f := lv_eq (by omega)
      have hgv' : s0.var g = v := by
        rcases hatt with e | e
        · omega
        · exact e
      have := sg hgv'
      rcases both f f _ _ vf' vf' (by omega) (by omega) with ⟨s', e1⟩ | ⟨s1, low, e1, ⟨s', e2⟩ | ⟨s2, high, e2, g2', hV2⟩⟩
      · simp only [e1]; exact Or.inr ⟨_, rfl⟩
      · simp only [e1, e2]; exact Or.inr ⟨_, rfl⟩
      · simp only [e1, e2]
        exact mkNode_tot g2' hV2 hv0 hvV low high
    · rw [if_neg c]
      rcases both f0 f1 _ _ vf0 vf1 sum0 sum1 with ⟨s', e1⟩ | ⟨s1, low, e1, ⟨s', e2⟩ | ⟨s2, high, e2, g2', hV2⟩⟩
      · simp only [e1]; exact Or.inr ⟨_, rfl⟩
      · simp only [e1, e2]; exact Or.inr ⟨_, rfl⟩
      · simp only [e1, e2]
        rcases mkNode_tot g2' hV2 hv0 hvV low high with ⟨s3, res, e3, hV3⟩ | ⟨s3, e3⟩
        · simp only [e3]; exact Or.inl ⟨_, _, rfl, hV3.cacheInsert _ _⟩
        · simp only [e3]; exact Or.inr ⟨_, rfl⟩

/-- totality of `constrain`, spelled out: with fuel above `lv f + lv g` the call returns (variable bound
kept) or stops with "Storage is full"; no other failure is possible -/
theorem constrain_total' {V fuel : Nat} {s : St} {f g : Ref} {φf φg : Fn} (hg : Good s) (hV : VarsLe s V)
    (vf : Valid s.nodes f φf) (vg : Valid s.nodes g φg) (hfuel : lv s V f + lv s V g < fuel) :
    ((∃ s' r, constrain fuel s f g = .ok (s', r)) ∨ (∃ s', constrain fuel s f g = .error (.storageFull, s'))) ∧
    (∀ s' r, constrain fuel s f g = .ok (s', r) → VarsLe s' V) ∧
    (∀ e s', constrain fuel s f g = .error (e, s') → e = .storageFull) :=
  (constrain_total V fuel s f g φf φg hg hV vf vg hfuel).tot.spec

/-- uniform bound: `2·(V+1) < fuel` is enough -/
theorem constrain_total_unif {V fuel : Nat} {s : St} {f g : Ref} {φf φg : Fn} (hg : Good s) (hV : VarsLe s V)
    (vf : Valid s.nodes f φf) (vg : Valid s.nodes g φg) (hfuel : 2 * (V + 1) < fuel) :
    TotalSpec V (constrain fuel s f g) := by
  have := lv_le s V f; have := lv_le s V g
  exact constrain_total' hg hV vf vg (by omega)

#print axioms constrain_total
#print axioms constrain_total'
#print axioms constrain_total_unif
end P

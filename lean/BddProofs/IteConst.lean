import BddProofs.Restrict
/-! `ite_constant` (with the repairs of DESIGN §6 D2) decides constancy of `ITE f g h` on the real
store, builds nothing and changes no cache content (C12 "build nothing", C16 purity): the only thing
it touches are the statistics counters of the operation cache.  `is_implies` likewise. -/
namespace P
open Arr

def IsConstB (φ : Fn) (b : Bool) : Prop := φ = fun _ => b

/-- `s'` differs from `s` at most in the statistics counters of the operation cache -/
def Untouched (s s' : St) : Prop :=
  s'.storage = s.storage ∧ s'.sizeCache = s.sizeCache ∧ ∀ k, s'.cache.lookup k = s.cache.lookup k

theorem Untouched.refl (s : St) : Untouched s s := ⟨rfl, rfl, fun _ => rfl⟩
theorem Untouched.trans {a b c : St} (h1 : Untouched a b) (h2 : Untouched b c) : Untouched a c :=
  ⟨h2.1.trans h1.1, h2.2.1.trans h1.2.1, fun k => (h2.2.2 k).trans (h1.2.2 k)⟩
theorem Untouched.cacheGet (s : St) (k : OpKey) : Untouched s (s.cacheGet k).1 :=
  ⟨rfl, rfl, fun k' => St.cacheGet_lookup s k k'⟩
theorem Untouched.nodes {s s' : St} (h : Untouched s s') : s'.nodes = s.nodes := by
  unfold St.nodes; rw [h.1]
theorem Untouched.good {s s' : St} (h : Untouched s s') (hg : Good s) : Good s' := by
  have hn := h.nodes
  refine ⟨?_, ?_, ?_, ?_, ?_, ?_, by rw [h.1]; exact hg.rs⟩
  · rw [h.1]; exact hg.wf
  · rw [h.1]; exact hg.tinv
  · rw [hn]; exact hg.inv
  · rw [hn]; exact hg.var0
  · intro k r hk; rw [hn]; rw [h.2.2] at hk; exact hg.cache k r hk
  · have : s'.node 1 = s.node 1 := by unfold St.node; rw [h.1]
    rw [this]; exact hg.term1

theorem constB_unique {φ : Fn} {b b' : Bool} (h : IsConstB φ b) (h' : IsConstB φ b') : b = b' := by
  have := congrFun (h.symm.trans h') (fun _ => true); exact this

theorem maybeConst_spec {s : St} (hg : Good s) {r φ} (v : Valid s.nodes r φ) (b : Bool) :
    maybeConst r = some b ↔ IsConstB φ b := by
  have h1 := hg.inv.noterm
  unfold maybeConst
  by_cases hz : isZero r = true
  · rw [if_pos hz]
    have := zero_fn h1 hz v; subst this
    constructor
    · intro h; cases h; rfl
    · intro h; have := congrFun h (fun _ => true); simp at this; rw [← this]
  · rw [if_neg hz]
    by_cases ho : isOne r = true
    · rw [if_pos ho]
      have := one_fn h1 ho v; subst this
      constructor
      · intro h; cases h; rfl
      · intro h; have := congrFun h (fun _ => true); simp at this; rw [← this]
    · rw [if_neg ho]
      constructor
      · intro h; cases h
      · intro h
        exfalso
        cases b with
        | false => exact fn_ne_false hg v (by simpa using hz) h
        | true => exact fn_ne_true hg v (by simpa using ho) h

theorem constB_shannon (φ : Fn) (m : Nat) (b : Bool) :
    IsConstB φ b ↔ IsConstB (cof φ m true) b ∧ IsConstB (cof φ m false) b := by
  constructor
  · intro h; subst h; exact ⟨rfl, rfl⟩
  · intro ⟨h1, h0⟩
    unfold IsConstB
    rw [shannon φ m, h1, h0]; funext e; simp

theorem iteConstant_spec' : ∀ fuel s f g h φf φg φh s' o, Good s →
    Valid s.nodes f φf → Valid s.nodes g φg → Valid s.nodes h φh →
    iteConstant fuel s f g h = .ok (s', o) →
    (∀ b, o = some b ↔ IsConstB (ITE φf φg φh) b) ∧ Untouched s s' := by
  intro fuel
  induction fuel with
  | zero => intro s f g h φf φg φh s' o _ _ _ _ hres; simp [iteConstant] at hres
  | succ fuel ih =>
    intro s f g h φf φg φh s' o hg vf vg vh hres
    have h1 := hg.inv.noterm
    have direct : ∀ {s0 : St} (c : Option Bool), Untouched s s0 → (∀ b, c = some b ↔ IsConstB (ITE φf φg φh) b) →
        (.ok (s0, c) : Res (St × Option Bool)) = .ok (s', o) →
        (∀ b, o = some b ↔ IsConstB (ITE φf φg φh) b) ∧ Untouched s s' := by
      intro s0 c hu hc heq
      simp only [Except.ok.injEq, Prod.mk.injEq] at heq
      obtain ⟨rfl, rfl⟩ := heq
      exact ⟨hc, hu⟩
    have viaRef : ∀ {s0 : St} {x ψ}, Untouched s s0 → Valid s.nodes x ψ → ITE φf φg φh = ψ →
        (.ok (s0, maybeConst x) : Res (St × Option Bool)) = .ok (s', o) →
        (∀ b, o = some b ↔ IsConstB (ITE φf φg φh) b) ∧ Untouched s s' := by
      intro s0 x ψ hu vx hfun heq
      refine direct _ hu (fun b => ?_) heq
      rw [hfun]; exact maybeConst_spec hg vx b
    have hu := Untouched.refl s
    unfold iteConstant at hres
    by_cases c : isOne f = true
    · rw [if_pos c] at hres
      have := one_fn h1 c vf; subst this
      exact viaRef hu vg (by boolfn) hres
    rw [if_neg c] at hres
    have hfno : isOne f = false := by simpa using c
    clear c
    by_cases c : isZero f = true
    · rw [if_pos c] at hres
      have := zero_fn h1 c vf; subst this
      exact viaRef hu vh (by boolfn) hres
    rw [if_neg c] at hres
    have hfnz : isZero f = false := by simpa using c
    clear c
    have fnc : ∀ b', ¬ IsConstB φf b' := by
      intro b' hc; cases b' with
      | false => exact fn_ne_false hg vf hfnz hc
      | true => exact fn_ne_true hg vf hfno hc
    have fnc' : ∀ b', ¬ IsConstB (fun e => !φf e) b' := by
      intro b' hc
      apply fnc (!b')
      funext e; have := congrFun hc e; simp at this; simp [← this]
    by_cases c : g = h
    · rw [if_pos c] at hres
      have := eq_fn h1 c vg vh; subst this
      exact viaRef hu vg (by boolfn) hres
    rw [if_neg c] at hres; clear c
    by_cases c : (isOne g && isZero h) = true
    · rw [if_pos c] at hres
      simp only [Bool.and_eq_true] at c
      have := one_fn h1 c.1 vg; subst this; have := zero_fn h1 c.2 vh; subst this
      refine direct none hu (fun b' => ⟨fun h => (by cases h), fun h => absurd ?_ (fnc b')⟩) hres
      have e : ITE φf (fun _ => true) (fun _ => false) = φf := by boolfn
      rw [e] at h; exact h
    rw [if_neg c] at hres; clear c
    by_cases c : (isZero g && isOne h) = true
    · rw [if_pos c] at hres
      simp only [Bool.and_eq_true] at c
      have := zero_fn h1 c.1 vg; subst this; have := one_fn h1 c.2 vh; subst this
      refine direct none hu (fun b' => ⟨fun h => (by cases h), fun h => absurd ?_ (fnc' b')⟩) hres
      have e : ITE φf (fun _ => false) (fun _ => true) = fun e => !φf e := by boolfn
      rw [e] at h; exact h
    rw [if_neg c] at hres; clear c
    have constCase : ∀ (B : Bool), ITE φf φg φh = (fun _ => B) →
        (.ok (s, some B) : Res (St × Option Bool)) = .ok (s', o) →
        (∀ b, o = some b ↔ IsConstB (ITE φf φg φh) b) ∧ Untouched s s' := by
      intro B hfun heq
      refine direct (some B) hu (fun b' => ?_) heq
      rw [hfun]
      constructor
      · intro h; cases h; rfl
      · intro h; exact congrArg some (congrFun h (fun _ => true))
    by_cases c : (isOne g && decide (h = f.not)) = true
    · rw [if_pos c] at hres
      simp only [Bool.and_eq_true, decide_eq_true_eq] at c
      have := one_fn h1 c.1 vg; subst this; have := not_fn h1 c.2 vh vf; subst this
      exact constCase true (by boolfn) hres
    rw [if_neg c] at hres; clear c
    by_cases c : (decide (g = f) && isOne h) = true
    · rw [if_pos c] at hres
      simp only [Bool.and_eq_true, decide_eq_true_eq] at c
      have := eq_fn h1 c.1 vg vf; subst this; have := one_fn h1 c.2 vh; subst this
      exact constCase true (by boolfn) hres
    rw [if_neg c] at hres; clear c
    by_cases c : (decide (g = f.not) && isZero h) = true
    · rw [if_pos c] at hres
      simp only [Bool.and_eq_true, decide_eq_true_eq] at c
      have := not_fn h1 c.1 vg vf; subst this; have := zero_fn h1 c.2 vh; subst this
      exact constCase false (by boolfn) hres
    rw [if_neg c] at hres; clear c
    by_cases c : (isZero g && decide (h = f)) = true
    · rw [if_pos c] at hres
      simp only [Bool.and_eq_true, decide_eq_true_eq] at c
      have := zero_fn h1 c.1 vg; subst this; have := eq_fn h1 c.2 vh vf; subst this
      exact constCase false (by boolfn) hres
    rw [if_neg c] at hres; clear c
    cases hc : (s.cacheGet (.ite f g h)).2 with
    | some res =>
      simp only [hc] at hres
      obtain ⟨a', b', c', ha', hb', hc', hr⟩ := hg.cacheHit hc
      have e1 := vf.det h1 ha'; have e2 := vg.det h1 hb'; have e3 := vh.det h1 hc'
      subst e1; subst e2; subst e3
      exact viaRef (Untouched.cacheGet s _) hr rfl hres
    | none =>
    simp only [hc] at hres
    -- continue in the state after the cache probe (same storage, counters bumped)
    have hgX := hg.cacheGet (.ite f g h)
    have huX := Untouched.cacheGet s (.ite f g h)
    generalize hsX : (s.cacheGet (.ite f g h)).1 = sX at hres hgX huX
    have hnX : sX.nodes = s.nodes := by rw [← hsX]; rfl
    rw [← hnX] at vf vg vh
    by_cases hi0 : sX.var f = 0
    · rw [if_pos hi0] at hres; cases hres
    rw [if_neg hi0] at hres
    generalize hm : min3 (sX.var f) (sX.var g) (sX.var h) = m at hres
    by_cases hm0 : m = 0
    · rw [if_pos hm0] at hres; cases hres
    rw [if_neg hm0] at hres
    have ml := min3_le (sX.var f) (sX.var g) (sX.var h)
    rw [hm] at ml
    have sf : SuppGe φf m := supp_of_var hgX vf (fun _ => ml.1)
    have sg : SuppGe φg m := supp_of_var hgX vg ml.2.1
    have sh : SuppGe φh m := supp_of_var hgX vh ml.2.2
    cases hcf : topCofactors sX f m with
    | error e => simp [hcf] at hres
    | ok pf =>
    cases hcg : topCofactors sX g m with
    | error e => simp [hcf, hcg] at hres
    | ok pg =>
    cases hch : topCofactors sX h m with
    | error e => simp [hcf, hcg, hch] at hres
    | ok ph =>
    obtain ⟨f0, f1⟩ := pf; obtain ⟨g0, g1⟩ := pg; obtain ⟨h0, h1'⟩ := ph
    simp only [hcf, hcg, hch] at hres
    obtain ⟨vf0, vf1⟩ := topCofactors_spec hgX vf sf hcf
    obtain ⟨vg0, vg1⟩ := topCofactors_spec hgX vg sg hcg
    obtain ⟨vh0, vh1⟩ := topCofactors_spec hgX vh sh hch
    have hsh := constB_shannon (ITE φf φg φh) m
    have cofITE : ∀ c, cof (ITE φf φg φh) m c = ITE (cof φf m c) (cof φg m c) (cof φh m c) := fun _ => rfl
    cases ht : iteConstant fuel sX f1 g1 h1' with
    | error e => simp [ht] at hres
    | ok p1 =>
    obtain ⟨s1, t⟩ := p1
    obtain ⟨iht, hu1⟩ := ih _ _ _ _ _ _ _ _ _ hgX vf1 vg1 vh1 ht
    have hus1 : Untouched s s1 := huX.trans hu1
    cases t with
    | none =>
      simp only [ht] at hres
      refine direct none hus1 (fun b' => ⟨fun h => (by cases h), fun h => ?_⟩) hres
      have := ((hsh b').mp h).1
      rw [cofITE] at this
      have := (iht b').mpr this
      cases this
    | some T =>
      simp only [ht] at hres
      have hg1 := hu1.good hgX
      have hn1 := hu1.nodes
      rw [← hn1] at vf0 vg0 vh0
      cases he : iteConstant fuel s1 f0 g0 h0 with
      | error e => simp [he] at hres
      | ok p2 =>
      obtain ⟨s2, e⟩ := p2
      obtain ⟨ihe, hu2⟩ := ih _ _ _ _ _ _ _ _ _ hg1 vf0 vg0 vh0 he
      have hus2 : Untouched s s2 := hus1.trans hu2
      simp only [he] at hres
      have hT : IsConstB (cof (ITE φf φg φh) m true) T := by rw [cofITE]; exact (iht T).mp rfl
      by_cases hne : e ≠ some T
      · rw [if_pos hne] at hres
        refine direct none hus2 (fun b' => ⟨fun h => (by cases h), fun h => ?_⟩) hres
        exfalso; apply hne
        obtain ⟨c1, c0⟩ := (hsh b').mp h
        have : b' = T := constB_unique c1 hT
        subst this
        rw [cofITE] at c0
        exact (ihe b').mpr c0
      · rw [if_neg hne] at hres
        have heq : e = some T := by simpa using hne
        have hE : IsConstB (cof (ITE φf φg φh) m false) T := by rw [cofITE]; exact (ihe T).mp heq
        refine direct (some T) hus2 (fun b' => ?_) hres
        constructor
        · intro h; cases h; exact (hsh T).mpr ⟨hT, hE⟩
        · intro h
          have := constB_unique ((hsh b').mp h).1 hT
          rw [this]

/-- C12 / C16: `ite_constant` answers `some b` exactly when `ITE f g h` is the constant `b`; the
table, the size cache and every lookup of the operation cache are as before. -/
theorem iteConstant_spec {fuel : Nat} {s : St} {f g h : Ref} {φf φg φh : Fn} {s' : St} {o : Option Bool}
    (hg : Good s) (vf : Valid s.nodes f φf) (vg : Valid s.nodes g φg) (vh : Valid s.nodes h φh)
    (hres : iteConstant fuel s f g h = .ok (s', o)) :
    (∀ b, o = some b ↔ IsConstB (ITE φf φg φh) b) ∧
    s'.storage = s.storage ∧ s'.sizeCache = s.sizeCache ∧ ∀ k, s'.cache.lookup k = s.cache.lookup k :=
  iteConstant_spec' fuel s f g h φf φg φh s' o hg vf vg vh hres

/-- the resulting state is good again and shows the same nodes -/
theorem iteConstant_good {fuel : Nat} {s : St} {f g h : Ref} {φf φg φh : Fn} {s' : St} {o : Option Bool}
    (hg : Good s) (vf : Valid s.nodes f φf) (vg : Valid s.nodes g φg) (vh : Valid s.nodes h φh)
    (hres : iteConstant fuel s f g h = .ok (s', o)) : Good s' ∧ s'.nodes = s.nodes :=
  have hu := (iteConstant_spec' fuel s f g h φf φg φh s' o hg vf vg vh hres).2
  ⟨hu.good hg, hu.nodes⟩

/-- `is_implies(f, g)` decides `f ⇒ g`, with the same purity -/
theorem isImplies_spec {fuel : Nat} {s : St} {f g : Ref} {φf φg : Fn} {s' : St} {b : Bool}
    (hg : Good s) (vf : Valid s.nodes f φf) (vg : Valid s.nodes g φg)
    (hres : isImplies fuel s f g = .ok (s', b)) :
    (b = true ↔ ∀ e, φf e = true → φg e = true) ∧
    s'.storage = s.storage ∧ s'.sizeCache = s.sizeCache ∧ ∀ k, s'.cache.lookup k = s.cache.lookup k := by
  unfold isImplies at hres
  cases hc : iteConstant fuel s f g Ref.one with
  | error e => rw [hc] at hres; cases hres
  | ok p =>
    obtain ⟨s1, o⟩ := p
    rw [hc] at hres
    simp only [Except.ok.injEq, Prod.mk.injEq] at hres
    obtain ⟨rfl, rfl⟩ := hres
    obtain ⟨hspec, hu⟩ := iteConstant_spec' fuel s f g Ref.one φf φg _ s1 o hg vf vg Valid.one hc
    refine ⟨?_, hu⟩
    have hiff := hspec true
    constructor
    · intro hb e hfe
      have ho : o = some true := by simpa using hb
      have := congrFun (hiff.mp ho) e
      simp only [ITE, hfe, ↓reduceIte] at this
      exact this
    · intro himp
      have : IsConstB (ITE φf φg (fun _ => true)) true := by
        funext e
        simp only [ITE]
        by_cases hfe : φf e = true
        · simp [hfe, himp e hfe]
        · simp [hfe]
      have ho := hiff.mpr this
      simp [ho]

#print axioms iteConstant_spec
#print axioms iteConstant_good
#print axioms isImplies_spec
end P

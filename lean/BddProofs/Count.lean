import BddProofs.Ite
import BddModel.Query
/-! C13: `sat_count` (`P.satCountRec`, wrapper `P.satCount` in `BddModel/Query.lean`) is the exact
number of satisfying assignments.  `countFrom`/`count` are the semantic counting functions. -/
namespace P
open Arr

/-- number of assignments to the `k` variables `v, v+1, …, v+k-1` that satisfy `φ`
(for `φ` depending on no other variable) -/
def countFrom (φ : Fn) : Nat → Nat → Nat
  | 0, _ => if φ (fun _ => false) then 1 else 0
  | k + 1, v => countFrom (cof φ v false) k (v + 1) + countFrom (cof φ v true) k (v + 1)

/-- assignments to `x_1 … x_n` -/
def count (φ : Fn) (n : Nat) : Nat := countFrom φ n 1

theorem countFrom_le (φ : Fn) : ∀ k v, countFrom φ k v ≤ 2 ^ k := by
  intro k
  induction k generalizing φ with
  | zero => intro v; simp only [countFrom]; split <;> simp
  | succ k ih =>
    intro v
    simp only [countFrom]
    have a := ih (cof φ v false) (v + 1)
    have b := ih (cof φ v true) (v + 1)
    rw [Nat.pow_succ]; omega

theorem cof_not (φ : Fn) (v : Nat) (b : Bool) : cof (fun e => !φ e) v b = fun e => !(cof φ v b e) := rfl

theorem countFrom_not (φ : Fn) : ∀ k v, countFrom (fun e => !φ e) k v = 2 ^ k - countFrom φ k v := by
  intro k
  induction k generalizing φ with
  | zero => intro v; simp only [countFrom]; by_cases h : φ (fun _ => false) = true <;> simp [h]
  | succ k ih =>
    intro v
    simp only [countFrom, cof_not]
    rw [ih, ih]
    have a := countFrom_le (cof φ v false) k (v + 1)
    have b := countFrom_le (cof φ v true) k (v + 1)
    rw [Nat.pow_succ]; omega

/-- an unused variable doubles the count -/
theorem countFrom_skip {φ : Fn} {v : Nat} (h : SuppGe φ (v + 1)) (k : Nat) :
    countFrom φ (k + 1) v = 2 * countFrom φ k (v + 1) := by
  simp only [countFrom, cof_of_supp h]; omega

theorem cof_node_ne {φ0 φ1 : Fn} {w v : Nat} (b : Bool) (hne : v ≠ w) :
    cof (fun e => if e w then φ1 e else φ0 e) v b = fun e => if e w then cof φ1 v b e else cof φ0 v b e := by
  funext e; simp only [cof, upd_other _ _ _ _ (Ne.symm hne)]

theorem cof_node_eq {φ0 φ1 : Fn} {w : Nat} (h0 : SuppGe φ0 (w + 1)) (h1 : SuppGe φ1 (w + 1)) :
    cof (fun e => if e w then φ1 e else φ0 e) w false = φ0 ∧
    cof (fun e => if e w then φ1 e else φ0 e) w true = φ1 := by
  constructor
  · funext e; simp only [cof, upd_same, Bool.false_eq_true, ↓reduceIte]
    exact (h0 e _ (upd_agree' e w false _ (Nat.lt_succ_self _))).symm
  · funext e; simp only [cof, upd_same, ↓reduceIte]
    exact (h1 e _ (upd_agree' e w true _ (Nat.lt_succ_self _))).symm

/-- the counting rule of `_sat_count`: a node's count is the mean of its children's counts -/
theorem countFrom_node {φ0 φ1 : Fn} {w : Nat} (h0 : SuppGe φ0 (w + 1)) (h1 : SuppGe φ1 (w + 1)) :
    ∀ k v, v ≤ w → w < v + k →
      2 * countFrom (fun e => if e w then φ1 e else φ0 e) k v = countFrom φ0 k v + countFrom φ1 k v := by
  intro k
  induction k generalizing φ0 φ1 with
  | zero => intro v h1 h2; omega
  | succ k ih =>
    intro v hvw hw
    by_cases hv : v = w
    · subst hv
      have := cof_node_eq h0 h1
      rw [countFrom_skip h0, countFrom_skip h1]
      simp only [countFrom, this.1, this.2]; omega
    · simp only [countFrom, cof_node_ne _ hv]
      have a := ih (φ0 := cof φ0 v false) (φ1 := cof φ1 v false) (suppGe_cof h0) (suppGe_cof h1) (v + 1) (by omega) (by omega)
      have b := ih (φ0 := cof φ0 v true) (φ1 := cof φ1 v true) (suppGe_cof h0) (suppGe_cof h1) (v + 1) (by omega) (by omega)
      omega

theorem countFrom_true : ∀ k v, countFrom (fun _ => true) k v = 2 ^ k := by
  intro k; induction k with
  | zero => intro v; simp [countFrom]
  | succ k ih => intro v; simp only [countFrom]; rw [show cof (fun _ => true) v false = fun _ => true from rfl,
      show cof (fun _ => true) v true = fun _ => true from rfl, ih, Nat.pow_succ]; omega

/-! ### the procedure -/

def MemoOk (s : St) (n : Nat) (memo : CMemo) : Prop :=
  ∀ r c, memo.lookup r = some c → ∃ φ, Valid s.nodes r φ ∧ c = count φ n

theorem satCount_spec (n : Nat) : ∀ fuel s r φ memo c memo', Good s →
    (∀ i nn, s.nodes i = some nn → nn.var ≤ n) →
    Valid s.nodes r φ → MemoOk s n memo →
    satCountRec fuel s (2 ^ n) r memo = .ok (c, memo') → c = count φ n ∧ MemoOk s n memo' := by
  intro fuel
  induction fuel with
  | zero => intro s r φ memo c memo' _ _ _ _ hres; simp [satCountRec] at hres
  | succ fuel ih =>
    intro s r φ memo c memo' hg hV vr hm hres
    have h1 := hg.inv.noterm
    unfold satCountRec at hres
    by_cases cz : isZero r = true
    · rw [if_pos cz] at hres
      simp only [Except.ok.injEq, Prod.mk.injEq] at hres
      obtain ⟨rfl, rfl⟩ := hres
      have := zero_fn h1 cz vr; subst this
      refine ⟨?_, hm⟩
      have := countFrom_not (fun _ => true) n 1
      simp only [Bool.not_true] at this
      rw [count, this, countFrom_true]; omega
    rw [if_neg cz] at hres
    by_cases co : isOne r = true
    · rw [if_pos co] at hres
      simp only [Except.ok.injEq, Prod.mk.injEq] at hres
      obtain ⟨rfl, rfl⟩ := hres
      have := one_fn h1 co vr; subst this
      exact ⟨(countFrom_true n 1).symm, hm⟩
    rw [if_neg co] at hres
    cases hl : memo.lookup r with
    | some c0 =>
      simp only [hl, Except.ok.injEq, Prod.mk.injEq] at hres
      obtain ⟨rfl, rfl⟩ := hres
      obtain ⟨ψ, vψ, hc⟩ := hm r _ hl
      rw [vr.det h1 vψ]; exact ⟨hc, hm⟩
    | none =>
    simp only [hl] at hres
    -- `r` is a stored node
    have hnt : isTerminal r = false := by
      simp only [isTerminal, Bool.or_eq_false_iff]
      exact ⟨by simpa using co, by simpa using cz⟩
    have hstored : ∃ nn, s.nodes r.idx = some nn := by
      rcases valid_stored vr with h | h
      · exfalso; rcases r with ⟨i, b⟩; simp at h; subst h
        cases b <;> simp [isTerminal, isOne, isZero, Ref.one, Ref.zero] at hnt
      · exact h
    obtain ⟨nn, hnn⟩ := hstored
    have hlow : s.low r.idx = nn.low := St.low_of hnn
    have hhigh : s.high r.idx = nn.high := St.high_of hnn
    rw [hlow, hhigh] at hres
    -- the regular function at this index
    obtain ⟨d, hd⟩ := vr
    have hreg : ∃ ψ φ0 φ1, Valid s.nodes nn.low φ0 ∧ Valid s.nodes nn.high φ1 ∧
        ψ = (fun e => if e nn.var then φ1 e else φ0 e) ∧ (φ = if r.neg then (fun e => !ψ e) else ψ) := by
      rcases r with ⟨i, b⟩
      have key : ∀ ψ, Den s.nodes d ⟨i, false⟩ ψ → ∃ φ0 φ1, Valid s.nodes nn.low φ0 ∧ Valid s.nodes nn.high φ1 ∧
          ψ = (fun e => if e nn.var then φ1 e else φ0 e) := by
        intro ψ hψ
        rcases hψ.regInv with ⟨e1, -, -⟩ | ⟨n', d0, d1, φ0, φ1, hn', h0, h1', -, hφ⟩
        · subst e1; rw [h1] at hnn; cases hnn
        · have : n' = nn := by simp at hnn; rw [hnn] at hn'; exact (Option.some.inj hn').symm
          subst this
          exact ⟨φ0, φ1, ⟨_, h0⟩, ⟨_, h1'⟩, hφ⟩
      cases b with
      | false =>
        obtain ⟨φ0, φ1, a, b', c'⟩ := key φ hd
        exact ⟨φ, φ0, φ1, a, b', c', by simp⟩
      | true =>
        obtain ⟨ψ, hψ, rfl⟩ := hd.negInv
        obtain ⟨φ0, φ1, a, b', c'⟩ := key ψ hψ
        exact ⟨ψ, φ0, φ1, a, b', c', by simp⟩
    obtain ⟨ψ, φ0, φ1, v0, v1, hψ, hφ⟩ := hreg
    cases e1 : satCountRec fuel s (2 ^ n) nn.low memo with
    | error e => simp [e1] at hres
    | ok p1 =>
    obtain ⟨cl, memo1⟩ := p1
    simp only [e1] at hres
    obtain ⟨hcl, hm1⟩ := ih _ _ _ _ _ _ hg hV v0 hm e1
    cases e2 : satCountRec fuel s (2 ^ n) nn.high memo1 with
    | error e => simp [e2] at hres
    | ok p2 =>
    obtain ⟨ch, memo2⟩ := p2
    simp only [e2, Except.ok.injEq, Prod.mk.injEq] at hres
    obtain ⟨hcv, rfl⟩ := hres
    obtain ⟨hch, hm2⟩ := ih _ _ _ _ _ _ hg hV v1 hm1 e2
    -- the mean of the children is the node's count
    have hvar := hV _ _ hnn
    have hvar0 := hg.var0 _ _ hnn
    have s0 : SuppGe φ0 (nn.var + 1) := by obtain ⟨_, h⟩ := v0; exact h.supp hg.inv _ (hg.inv.ordLow _ _ hnn)
    have s1 : SuppGe φ1 (nn.var + 1) := by obtain ⟨_, h⟩ := v1; exact h.supp hg.inv _ (hg.inv.ordHigh _ _ hnn)
    have hnode := countFrom_node s0 s1 n 1 (by omega) (by omega)
    have hmean : (cl + ch) / 2 = count ψ n := by
      rw [hcl, hch, count, count, count, hψ, ← hnode]; omega
    have hc : c = count φ n := by
      rw [← hcv, hφ]
      cases hb : r.neg with
      | false => simpa using hmean
      | true =>
        simp only [↓reduceIte, hmean]
        rw [count, count, countFrom_not]
    refine ⟨hc, ?_⟩
    intro r' c' hl'
    simp only [List.lookup] at hl'
    by_cases hrr : r' = r
    · subst hrr
      simp at hl'
      exact ⟨φ, ⟨d, hd⟩, by rw [← hl', hcv]; exact hc⟩
    · have : (r' == r) = false := by simpa using hrr
      simp only [this] at hl'
      exact hm2 r' c' hl'

/-- the top-level wrapper (`max = 2^numVars`, empty memo) -/
theorem satCount_top_spec {n fuel s f φ c} (hg : Good s)
    (hV : ∀ i nn, s.nodes i = some nn → nn.var ≤ n)
    (v : Valid s.nodes f φ) (h : satCount fuel s f n = .ok c) : c = count φ n := by
  unfold satCount at h
  cases e1 : satCountRec fuel s (2 ^ n) f [] with
  | error e => simp [e1] at h
  | ok p =>
    obtain ⟨c', memo'⟩ := p
    simp only [e1, Except.ok.injEq] at h
    subst h
    exact (satCount_spec n fuel s f φ [] c' memo' hg hV v
      (fun r c hl => by simp [List.lookup] at hl) e1).1

#print axioms satCount_spec
#print axioms satCount_top_spec
end P

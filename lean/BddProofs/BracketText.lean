import BddModel.Query

/-!
# The bracket *text* is faithful

`BTree.render : BTree → String` (in `BddModel/Query.lean`) is the exact text of `to_bracket_string`.
The theorems in `Bracket.lean` / `Properties/C16.lean` speak about the structured tree only.  This file
closes the gap between the tree and its text: a total parser `parseBracket : String → Option BTree`
re-reads every rendered tree (`parseBracket_render`), hence `BTree.render` is injective
(`BTree.render_injective`): the string determines the structured value.

Layout:
* `readNat` – a decimal reader on `List Char`; `readNat_toString` is the round trip with
  `toString (n : Nat)` (from the core lemmas `Nat.toList_repr`, `Nat.isDigit_of_mem_toDigits`,
  `Nat.toDigits_ne_nil`, `Nat.ofDigitChars_ten_toDigits`).  A number must be followed by a non-digit
  (`NoDigit rest`).
* `showL` / `renderL` – the text as explicit character lists (`toList_show`, `toList_render`).
* `readRef`, `eat`, `parseB` – the parser (fuel-bounded; the fuel is the length of the input).
* `parseB_render` – the suffix-continuation form of the round trip.  A tree must be followed by the
  end of input, `','` or `')'` (`Follow rest`); this is what keeps a back-reference `@5` apart from the
  start of a node `@5:(x…`, and `@5` apart from `@51`.
-/

namespace P

/-! ### decimal numbers -/

/-- the next character (if any) is not a decimal digit -/
def NoDigit (rest : List Char) : Prop := ∀ c, rest.head? = some c → c.isDigit = false

/-- a tree is followed by the end of the input, a comma or a closing bracket -/
def Follow (rest : List Char) : Prop := ∀ c, rest.head? = some c → c = ',' ∨ c = ')'

theorem NoDigit.nil : NoDigit [] := fun _ h => by cases h

theorem Follow.nil : Follow [] := fun _ h => by cases h

theorem NoDigit.cons {c : Char} (h : c.isDigit = false) (r : List Char) : NoDigit (c :: r) := by
  intro d hd
  simp only [List.head?_cons, Option.some.injEq] at hd
  subst hd; exact h

theorem Follow.noDigit {rest : List Char} (h : Follow rest) : NoDigit rest := by
  intro c hc
  rcases h c hc with rfl | rfl <;> decide

theorem Follow.comma (r : List Char) : Follow (',' :: r) := by
  intro d hd
  simp only [List.head?_cons, Option.some.injEq] at hd
  exact .inl hd.symm

theorem Follow.close (r : List Char) : Follow (')' :: r) := by
  intro d hd
  simp only [List.head?_cons, Option.some.injEq] at hd
  exact .inr hd.symm

/-- read a non-empty maximal run of decimal digits -/
def readNat (cs : List Char) : Option (Nat × List Char) :=
  if cs.takeWhile Char.isDigit = [] then none
  else some (Nat.ofDigitChars 10 (cs.takeWhile Char.isDigit) 0, cs.dropWhile Char.isDigit)

theorem takeWhile_isDigit_of_noDigit {rest : List Char} (h : NoDigit rest) :
    rest.takeWhile Char.isDigit = [] := by
  cases rest with
  | nil => rfl
  | cons c r => simp [h c rfl]

theorem dropWhile_isDigit_of_noDigit {rest : List Char} (h : NoDigit rest) :
    rest.dropWhile Char.isDigit = rest := by
  cases rest with
  | nil => rfl
  | cons c r => simp [h c rfl]

/-- the digits of `n`, followed by a non-digit, read back as `n` -/
theorem readNat_toDigits (n : Nat) (rest : List Char) (h : NoDigit rest) :
    readNat (Nat.toDigits 10 n ++ rest) = some (n, rest) := by
  have hd : ∀ c, c ∈ Nat.toDigits 10 n → Char.isDigit c = true :=
    fun c hc => Nat.isDigit_of_mem_toDigits (by decide) (by decide) hc
  have ht : (Nat.toDigits 10 n ++ rest).takeWhile Char.isDigit = Nat.toDigits 10 n := by
    rw [List.takeWhile_append_of_pos hd, takeWhile_isDigit_of_noDigit h, List.append_nil]
  have hr : (Nat.toDigits 10 n ++ rest).dropWhile Char.isDigit = rest := by
    rw [List.dropWhile_append_of_pos hd, dropWhile_isDigit_of_noDigit h]
  unfold readNat
  rw [ht, hr, if_neg Nat.toDigits_ne_nil, Nat.ofDigitChars_ten_toDigits]

theorem toList_toString_nat (n : Nat) : (toString n).toList = Nat.toDigits 10 n := by
  rw [Nat.toString_eq_repr, Nat.toList_repr]

/-- (a) every character of `toString n` is a decimal digit -/
theorem isDigit_of_mem_toString (n : Nat) (c : Char) (h : c ∈ (toString n).toList) :
    c.isDigit = true := by
  rw [toList_toString_nat] at h
  exact Nat.isDigit_of_mem_toDigits (by decide) (by decide) h

/-- (b) `toString n` is not empty -/
theorem toString_nat_ne_nil (n : Nat) : (toString n).toList ≠ [] := by
  rw [toList_toString_nat]; exact Nat.toDigits_ne_nil

/-- (c) reading `toString n` back gives `n` -/
theorem readNat_toString (n : Nat) (rest : List Char) (h : NoDigit rest) :
    readNat ((toString n).toList ++ rest) = some (n, rest) := by
  rw [toList_toString_nat]; exact readNat_toDigits n rest h

/-! ### the text as a list of characters -/

/-- `Ref.show ⟨idx, neg⟩` as characters -/
def showL (neg : Bool) (idx : Nat) : List Char :=
  (if neg then ['~'] else []) ++ '@' :: (toString idx).toList

/-- `BTree.render` as characters -/
def renderL : BTree → List Char
  | .bot => ['⊥']
  | .top => ['⊤']
  | .ref neg idx => showL neg idx
  | .node neg idx var hi lo =>
    showL neg idx ++ ([':', '(', 'x'] ++ ((toString var).toList ++ ([',', ' '] ++ (renderL hi ++
      ([',', ' '] ++ (renderL lo ++ [')']))))))

theorem toList_show (neg : Bool) (idx : Nat) : (Ref.mk idx neg).show.toList = showL neg idx := by
  cases neg <;> simp [Ref.show, showL, String.toList_append]

theorem toList_render (t : BTree) : t.render.toList = renderL t := by
  induction t with
  | bot => rfl
  | top => rfl
  | ref neg idx => exact toList_show neg idx
  | node neg idx var hi lo ih1 ih2 =>
    simp only [BTree.render, renderL, String.toList_append, toList_show, ih1, ih2,
      List.append_assoc]
    rfl

/-! ### the parser -/

/-- consume the literal `p` -/
def eat (p cs : List Char) : Option (List Char) :=
  if p.isPrefixOf cs then some (cs.drop p.length) else none

/-- `~@n` or `@n` -/
def readRef : List Char → Option (Bool × Nat × List Char)
  | [] => none
  | c :: cs =>
    if c = '@' then (readNat cs).map fun p => (false, p.1, p.2)
    else if c = '~' then
      match cs with
      | [] => none
      | d :: ds => if d = '@' then (readNat ds).map fun p => (true, p.1, p.2) else none
    else none

/-- the parser; the fuel bounds the nesting depth -/
def parseB : Nat → List Char → Option (BTree × List Char)
  | 0, _ => none
  | _ + 1, [] => none
  | fuel + 1, c :: cs =>
    if c = '⊥' then some (.bot, cs)
    else if c = '⊤' then some (.top, cs)
    else
      match readRef (c :: cs) with
      | none => none
      | some (neg, idx, r) =>
        match eat [':', '(', 'x'] r with
        | none => some (.ref neg idx, r)
        | some r1 =>
          (readNat r1).bind fun pv =>
          (eat [',', ' '] pv.2).bind fun r2 =>
          (parseB fuel r2).bind fun ph =>
          (eat [',', ' '] ph.2).bind fun r3 =>
          (parseB fuel r3).bind fun pl =>
          (eat [')'] pl.2).bind fun r4 =>
          some (.node neg idx pv.1 ph.1 pl.1, r4)

/-- re-read a bracket string; the whole input must be consumed -/
def parseBracket (s : String) : Option BTree :=
  match parseB s.toList.length s.toList with
  | some (t, []) => some t
  | _ => none

/-! ### round trip -/

theorem eat_append (p rest : List Char) : eat p (p ++ rest) = some rest := by
  unfold eat
  rw [if_pos (by simp), List.drop_left]

theorem readRef_show (neg : Bool) (idx : Nat) (rest : List Char) (h : NoDigit rest) :
    readRef (showL neg idx ++ rest) = some (neg, idx, rest) := by
  cases neg
  · show readRef ('@' :: ((toString idx).toList ++ rest)) = _
    simp [readRef, readNat_toDigits idx rest h]
  · show readRef ('~' :: '@' :: ((toString idx).toList ++ rest)) = _
    simp [readRef, readNat_toDigits idx rest h]

/-- a rendered reference starts with `@` or `~`, … -/
theorem showL_append_eq (neg : Bool) (idx : Nat) (rest : List Char) :
    ∃ c cs, showL neg idx ++ rest = c :: cs ∧ c ≠ '⊥' ∧ c ≠ '⊤' := by
  cases neg
  · exact ⟨'@', (toString idx).toList ++ rest, rfl, by decide, by decide⟩
  · exact ⟨'~', '@' :: ((toString idx).toList ++ rest), rfl, by decide, by decide⟩

theorem eat_colon_of_follow {rest : List Char} (h : Follow rest) :
    eat [':', '(', 'x'] rest = none := by
  cases rest with
  | nil => rfl
  | cons c r =>
    rcases h c rfl with rfl | rfl <;> rfl

theorem length_showL_pos (neg : Bool) (idx : Nat) : 0 < (showL neg idx).length := by
  cases neg <;> simp [showL]

/-- the suffix-continuation form of the round trip -/
theorem parseB_render (t : BTree) : ∀ (fuel : Nat) (rest : List Char),
    (renderL t).length ≤ fuel → Follow rest → parseB fuel (renderL t ++ rest) = some (t, rest) := by
  induction t with
  | bot =>
    intro fuel rest hf _
    cases fuel with
    | zero => simp [renderL] at hf
    | succ fuel => simp [renderL, parseB]
  | top =>
    intro fuel rest hf _
    cases fuel with
    | zero => simp [renderL] at hf
    | succ fuel => simp [renderL, parseB]
  | ref neg idx =>
    intro fuel rest hf hr
    cases fuel with
    | zero =>
      have := length_showL_pos neg idx
      simp only [renderL] at hf; omega
    | succ fuel =>
      obtain ⟨c, cs, hcs, h1, h2⟩ := showL_append_eq neg idx rest
      have href := readRef_show neg idx rest hr.noDigit
      simp only [renderL]
      rw [hcs] at href ⊢
      simp only [parseB, if_neg h1, if_neg h2, href, eat_colon_of_follow hr]
  | node neg idx var hi lo ih1 ih2 =>
    intro fuel rest hf hr
    cases fuel with
    | zero =>
      have := length_showL_pos neg idx
      simp only [renderL, List.length_append, List.length_cons, List.length_nil] at hf; omega
    | succ fuel =>
      have hlen1 : (renderL hi).length ≤ fuel := by
        simp only [renderL, List.length_append, List.length_cons, List.length_nil] at hf; omega
      have hlen2 : (renderL lo).length ≤ fuel := by
        simp only [renderL, List.length_append, List.length_cons, List.length_nil] at hf; omega
      simp only [renderL, List.append_assoc]
      obtain ⟨c, cs, hcs, h1, h2⟩ := showL_append_eq neg idx
        ([':', '(', 'x'] ++ ((toString var).toList ++ ([',', ' '] ++ (renderL hi ++
          ([',', ' '] ++ (renderL lo ++ ([')'] ++ rest)))))))
      have href := readRef_show neg idx
        ([':', '(', 'x'] ++ ((toString var).toList ++ ([',', ' '] ++ (renderL hi ++
          ([',', ' '] ++ (renderL lo ++ ([')'] ++ rest))))))) (NoDigit.cons (by decide) _)
      rw [hcs] at href ⊢
      have hvar := readNat_toString var ([',', ' '] ++ (renderL hi ++
          ([',', ' '] ++ (renderL lo ++ ([')'] ++ rest))))) (NoDigit.cons (by decide) _)
      have hhi := ih1 fuel ([',', ' '] ++ (renderL lo ++ ([')'] ++ rest))) hlen1 (Follow.comma _)
      have hlo := ih2 fuel ([')'] ++ rest) hlen2 (Follow.close _)
      simp only [parseB, if_neg h1, if_neg h2, href, eat_append, hvar, hhi, hlo, Option.bind_some]

theorem parseBracket_render (t : BTree) : parseBracket t.render = some t := by
  have h := parseB_render t (renderL t).length [] (Nat.le_refl _) Follow.nil
  rw [List.append_nil] at h
  unfold parseBracket
  rw [toList_render, h]

/-- the text determines the tree -/
theorem BTree.render_injective {t₁ t₂ : BTree} (h : t₁.render = t₂.render) : t₁ = t₂ := by
  have h1 := parseBracket_render t₁
  rw [h, parseBracket_render t₂] at h1
  exact (Option.some.inj h1).symm

/-- re-reading the exported text gives the structured value of `nodeToStr` back -/
theorem parseBracket_toBracketString (fuel : Nat) (s : St) (f : Ref) :
    parseBracket (toBracketString fuel s f) = some (nodeToStr fuel s f []).1 :=
  parseBracket_render _

/-- two exports have the same text iff they have the same structured value -/
theorem toBracketString_eq_iff {fuel fuel' : Nat} {s s' : St} {f f' : Ref} :
    toBracketString fuel s f = toBracketString fuel' s' f' ↔
      (nodeToStr fuel s f []).1 = (nodeToStr fuel' s' f' []).1 :=
  ⟨BTree.render_injective, fun h => by unfold toBracketString; rw [h]⟩

end P

#print axioms P.readNat_toString
#print axioms P.toBracketString_eq_iff
#print axioms P.parseBracket_render
#print axioms P.BTree.render_injective

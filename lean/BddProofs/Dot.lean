import BddProofs.Bfs
import BddModel.Query
/-! C16, second half: the DOT export of the model (`P.toDot s roots`, `BddModel/Query.lean`, built
on the real `P.descendants`) as a structured value: one record per reachable node other than the
terminal, declared exactly once, decoded back to exactly the stored triple; roots decoded back to
the handles (`toDot_faithful`).  And the text export cannot fail: `renderDot_ok` (the
`assert!(!high.is_negated())` cannot fire because of `NInv.highReg`).

`DotRec`, `LowKind`, `RootKind`, `dotNode`, `dotRoot`, `toDot`, `renderDotLines`, `renderDot` are
the model's; only the decoders are defined here.  `toDot`/`renderDot` return no state, so they are
pure by construction.  The text lines themselves (`renderDotLines`: records ↦ strings) are covered
by the differential correspondence run only. -/
namespace P
open Arr

/-- reading a record back -/
def DotRec.decode (r : DotRec) : Node :=
  { var := r.var, high := ⟨r.hi, false⟩,
    low := match r.low with | .zero => ⟨1, true⟩ | .compl t => ⟨t, true⟩ | .reg t => ⟨t, false⟩ }

def RootKind.decode : RootKind → Ref
  | .zero => ⟨1, true⟩ | .compl t => ⟨t, true⟩ | .reg t => ⟨t, false⟩

theorem decode_dotNode {s : St} (hg : Good s) {id n} (hn : s.nodes id = some n) : (dotNode s id).decode = n := by
  have hh := hg.inv.highReg _ _ hn
  have hv : s.var ⟨id, false⟩ = n.var := St.var_of (r := ⟨id, false⟩) hn
  rcases n with ⟨v, ⟨li, lb⟩, ⟨hi, hb⟩⟩
  simp only at hh; subst hh
  simp only [dotNode, DotRec.decode, St.low_of hn, St.high_of hn, hv]
  cases lb with
  | false => simp
  | true =>
    by_cases h1 : li = 1
    · subst h1; simp
    · simp [h1]

theorem decode_dotRoot (r : Ref) : (dotRoot r).decode = r := by
  rcases r with ⟨i, b⟩
  cases b with
  | false => simp [dotRoot, RootKind.decode]
  | true =>
    by_cases h1 : i = 1
    · subst h1; simp [dotRoot, RootKind.decode]
    · simp [dotRoot, RootKind.decode, h1]

/-- the ids of the records are the visited indices other than the terminal, in order -/
theorem toDot_ids (s : St) (roots : List Ref) :
    (toDot s roots).1.map (·.id) = (descendants s roots).filter (· ≠ 1) := by
  simp only [toDot, List.map_map]
  conv => rhs; rw [← List.map_id ((descendants s roots).filter (· ≠ 1))]
  apply List.map_congr_left
  intro a _; rfl

/-- a visited index other than the terminal is a stored node -/
theorem descendants_stored {s : St} (hg : Good s) (roots : List Ref) (hlive : ∀ r, r ∈ roots → Live s r.idx)
    {i : Nat} (hi : i ∈ (descendants s roots).filter (· ≠ 1)) : ∃ n, s.nodes i = some n := by
  obtain ⟨hd, h1⟩ := List.mem_filter.mp hi
  rcases (descendants_closed hg roots hlive).2.2.1 i hd with e | h
  · simp [e] at h1
  · exact h

/-- **C16 for DOT**: every reachable node other than the terminal is declared exactly once, each
record decodes to the stored node (the stronger form: the store *has* a node at the record's id,
and it is the decoded triple), and the root list decodes to the handles — so the functions rebuilt
from the export are the original ones -/
theorem toDot_faithful {s : St} (hg : Good s) (roots : List Ref) (hlive : ∀ r, r ∈ roots → Live s r.idx) :
    let G := toDot s roots
    (G.1.map (·.id)).Nodup ∧
    (∀ i, i ∈ G.1.map (·.id) ↔ (i ≠ 1 ∧ RI s (roots.map Ref.idx) i)) ∧
    (∀ r, r ∈ G.1 → s.nodes r.id = some r.decode) ∧
    (∀ r, r ∈ G.1 → ∀ n, s.nodes r.id = some n → r.decode = n) ∧
    G.2.map RootKind.decode = roots := by
  intro G
  have hids : G.1.map (·.id) = (descendants s roots).filter (· ≠ 1) := toDot_ids s roots
  have hdec : ∀ r, r ∈ G.1 → s.nodes r.id = some r.decode := by
    intro r hr
    simp only [G, toDot] at hr
    obtain ⟨id, hid, rfl⟩ := List.mem_map.mp hr
    obtain ⟨n, hn⟩ := descendants_stored hg roots hlive hid
    rw [decode_dotNode hg hn]; exact hn
  refine ⟨?_, ?_, hdec, ?_, ?_⟩
  · rw [hids]; exact (descendants_nodup hg roots hlive).filter _
  · intro i
    rw [hids, List.mem_filter, descendants_exact hg roots hlive i]
    simp [and_comm]
  · intro r hr n hn
    rw [hdec r hr] at hn; exact Option.some.inj hn
  · simp only [G, toDot, List.map_map]
    conv => rhs; rw [← List.map_id roots]
    apply List.map_congr_left
    intro r _; exact decode_dotRoot r

/-- the text export never fails on a good state with live roots: the only failure of `to_dot`
is `assert!(!high.is_negated())`, and stored then-edges are regular (`NInv.highReg`) -/
theorem renderDot_ok {s : St} (hg : Good s) (roots : List Ref) (hlive : ∀ r, r ∈ roots → Live s r.idx) :
    renderDot s roots = .ok (renderDotLines s roots) := by
  unfold renderDot
  rw [if_neg]
  intro h
  obtain ⟨id, hid, hneg⟩ := List.any_eq_true.mp h
  obtain ⟨n, hn⟩ := descendants_stored hg roots hlive hid
  rw [St.high_of hn, hg.inv.highReg _ _ hn] at hneg
  cases hneg

#print axioms toDot_faithful
#print axioms renderDot_ok
end P

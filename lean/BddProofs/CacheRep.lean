import BddModel.Cache
/-! The closed forms the driver uses for repeated cache calls are the n-fold iterates. -/
namespace P
open Arr
set_option linter.unusedSectionVars false

variable {κ ν : Type} [DecidableEq κ] [MyHash κ]

theorem Cache.insert_insert (c : Cache κ ν) (k : κ) (v : ν) : (c.insert k v).insert k v = c.insert k v := by
  unfold Cache.insert Cache.index
  simp [wr]

theorem Cache.insertN_eq (c : Cache κ ν) (k : κ) (v : ν) (n : Nat) : c.insertN k v n = c.insertNFast k v n := by
  induction n with
  | zero => rfl
  | succ n ih =>
    unfold Cache.insertN
    rw [ih]
    unfold Cache.insertNFast
    by_cases h : n = 0
    · simp [h]
    · simp [h, Cache.insert_insert]

omit [DecidableEq κ] [MyHash κ] in
theorem Cache.clear_clear (c : Cache κ ν) : c.clear.clear = c.clear := by
  unfold Cache.clear
  simp

theorem Cache.clearN_eq (c : Cache κ ν) (n : Nat) : c.clearN n = c.clearNFast n := by
  induction n with
  | zero => rfl
  | succ n ih =>
    unfold Cache.clearN
    rw [ih]
    unfold Cache.clearNFast
    by_cases h : n = 0
    · simp [h]
    · simp [h, Cache.clear_clear]

theorem Cache.getN_eq (c : Cache κ ν) (k : κ) (n : Nat) (hn : 0 < n) : c.getN k n = c.getNFast k n := by
  induction n with
  | zero => omega
  | succ n ih =>
    unfold Cache.getN
    by_cases h0 : n = 0
    · subst h0
      unfold Cache.getN Cache.getNFast Cache.get
      cases h : rd c.data (c.index k) with
      | none => simp
      | some p =>
        obtain ⟨k', v⟩ := p
        by_cases hk : k' = k <;> simp [hk]
    · rw [ih (by omega)]
      unfold Cache.getNFast Cache.get Cache.index
      cases h : rd c.data (slotOf (MyHash.hash k) c.bitmask) with
      | none => simp [h, Nat.add_assoc]
      | some p =>
        obtain ⟨k', v⟩ := p
        by_cases hk : k' = k <;> simp [hk, h, Nat.add_assoc]

end P
#print axioms P.Cache.insertN_eq
#print axioms P.Cache.clearN_eq
#print axioms P.Cache.getN_eq

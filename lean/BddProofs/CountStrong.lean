import BddProofs.CountCor
import BddProofs.SubstCor
import BddProofs.SubFn
/-! C13 at full strength: `sat_count(f, n)` is the exact number of satisfying assignments for every
`f` whose function depends only on the variables `1..n` — the hypothesis is about `f` alone
(`SuppLt φ (n + 1)`: "`φ` depends only on variables `≤ n`"; variable 0 is never used by a stored
node, `Good.var0`), not about every node of the store as in `satCount_top_spec` (Count.lean).

The structural consequence (`reach_var_le`): every node reachable from `f` has its variable in
`1..n`. -/
namespace P
open Arr

/-! ### functions that depend only on variables `< N` -/

theorem suppLt_cof {φ : Fn} {N : Nat} (h : SuppLt φ N) (v : Nat) (b : Bool) : SuppLt (cof φ v b) N :=
  suppLe_cof h v b

theorem suppLt_not {φ : Fn} {N : Nat} (h : SuppLt φ N) : SuppLt (fun e => !φ e) N := by
  intro e e' hee; simp only [h e e' hee]

theorem suppLt_of_not {φ : Fn} {N : Nat} (h : SuppLt (fun e => !φ e) N) : SuppLt φ N := by
  intro e e' hee
  have := h e e' hee
  simpa using this

theorem suppLt_reg {φ : Fn} {N : Nat} (h : SuppLt φ N) : SuppLt (reg φ) N := by
  unfold reg
  by_cases c : φ (fun _ => true) = true
  · rw [if_pos c]; exact h
  · rw [if_neg c]; exact suppLt_not h

theorem suppLt_prefixCof {φ : Fn} {N : Nat} (h : SuppLt φ N) (k : Nat) (a : Env) :
    SuppLt (prefixCof φ k a) N := by
  intro e e' hee
  apply h
  intro w hw
  by_cases c : w ≤ k
  · simp only [c, ↓reduceIte]
  · simp only [c, ↓reduceIte]; exact hee w hw

/-- a function supported below `N` depends on no variable `≥ N` -/
theorem dependsOn_lt {φ : Fn} {N v : Nat} (h : SuppLt φ N) (hd : DependsOn φ v) : v < N := by
  apply Classical.byContradiction
  intro hv
  apply hd
  funext e
  show φ (upd e v false) = φ (upd e v true)
  apply h
  intro w hw
  rw [upd_other _ _ _ _ (by omega), upd_other _ _ _ _ (by omega)]

/-- canonicity: the variable of the node behind a handle whose function is supported below `N`
is below `N` (a stored node's function really depends on its variable) -/
theorem var_lt_of_suppLt {s : St} (hg : Good s) {r : Ref} {φ : Fn} {N : Nat} {nn : Node}
    (vr : Valid s.nodes r φ) (hs : SuppLt φ N) (hnn : s.nodes r.idx = some nn) : nn.var < N := by
  have hnt : isTerminal r = false := by
    cases ht : isTerminal r with
    | false => rfl
    | true =>
      exfalso
      simp only [isTerminal, Bool.or_eq_true] at ht
      rcases ht with c | c
      · rw [isOne_eq c] at hnn
        have := hg.noterm
        simp only [Ref.one] at hnn; rw [this] at hnn; cases hnn
      · rw [isZero_eq c] at hnn
        have := hg.noterm
        simp only [Ref.zero] at hnn; rw [this] at hnn; cases hnn
  obtain ⟨_, _, _, _, hdep, _, _⟩ := accessors_spec hg vr hnt
  rw [St.var_of hnn] at hdep
  exact dependsOn_lt hs hdep

/-- **structural form of the hypothesis.** If the function of `f` depends only on variables `≤ n`
then every node reachable from `f` has its variable in `1..n`. -/
theorem reach_var_le {s : St} (hg : Good s) {f : Ref} {φ : Fn} {n : Nat} (vf : Valid s.nodes f φ)
    (hs : SuppLt φ (n + 1)) : ∀ i nn, Reach s f i → s.nodes i = some nn → 1 ≤ nn.var ∧ nn.var ≤ n := by
  intro i nn hr hnn
  obtain ⟨k, a, d, hden, _⟩ := subfn_into hg vf i hr
  have h0 := hg.var0 _ _ hnn
  have := var_lt_of_suppLt (r := ⟨i, false⟩) hg ⟨d, hden⟩ (suppLt_reg (suppLt_prefixCof hs k a)) hnn
  omega

/-- the same for the reachable set that `descendants` computes -/
theorem ri_var_le {s : St} (hg : Good s) {f : Ref} {φ : Fn} {n : Nat} (vf : Valid s.nodes f φ)
    (hs : SuppLt φ (n + 1)) : ∀ i nn, RI s [f.idx] i → s.nodes i = some nn → 1 ≤ nn.var ∧ nn.var ≤ n := by
  intro i nn hr hnn
  rcases (ri_iff_reach f i).mp hr with e | hr'
  · subst e; rw [hg.noterm] at hnn; cases hnn
  · exact reach_var_le hg vf hs i nn hr' hnn

/-! ### the procedure, with the hypothesis on `f` only -/

theorem satCount_spec' (n : Nat) : ∀ fuel s r φ memo c memo', Good s →
    SuppLt φ (n + 1) →
    Valid s.nodes r φ → MemoOk s n memo →
    satCountRec fuel s (2 ^ n) r memo = .ok (c, memo') → c = count φ n ∧ MemoOk s n memo' := by
  intro fuel
  induction fuel with
  | zero => intro s r φ memo c memo' _ _ _ _ hres; simp [satCountRec] at hres
  | succ fuel ih =>
    intro s r φ memo c memo' hg hS vr hm hres
    have h1 := hg.inv.noterm
    unfold satCountRec at hres
    by_cases cz : isZero r = true
    · rw [if_pos cz] at hres
      simp only [Except.ok.injEq, Prod.mk.injEq] at hres
      obtain ⟨rfl, rfl⟩ := hres
      have := zero_fn h1 cz vr; subst this
      refine ⟨?_, hm⟩
      have := countFrom_not (fun _ => true) n 1
      simp only [Bool.not_true] at this
      rw [count, this, countFrom_true]; omega
    rw [if_neg cz] at hres
    by_cases co : isOne r = true
    · rw [if_pos co] at hres
      simp only [Except.ok.injEq, Prod.mk.injEq] at hres
      obtain ⟨rfl, rfl⟩ := hres
      have := one_fn h1 co vr; subst this
      exact ⟨(countFrom_true n 1).symm, hm⟩
    rw [if_neg co] at hres
    cases hl : memo.lookup r with
    | some c0 =>
      simp only [hl, Except.ok.injEq, Prod.mk.injEq] at hres
      obtain ⟨rfl, rfl⟩ := hres
      obtain ⟨ψ, vψ, hc⟩ := hm r _ hl
      rw [vr.det h1 vψ]; exact ⟨hc, hm⟩
    | none =>
    simp only [hl] at hres
    -- `r` is a stored node
    have hnt : isTerminal r = false := by
      simp only [isTerminal, Bool.or_eq_false_iff]
      exact ⟨by simpa using co, by simpa using cz⟩
    have hstored : ∃ nn, s.nodes r.idx = some nn := by
      rcases valid_stored vr with h | h
      · exfalso; rcases r with ⟨i, b⟩; simp at h; subst h
        cases b <;> simp [isTerminal, isOne, isZero, Ref.one, Ref.zero] at hnt
      · exact h
    obtain ⟨nn, hnn⟩ := hstored
    have hlow : s.low r.idx = nn.low := St.low_of hnn
    have hhigh : s.high r.idx = nn.high := St.high_of hnn
    rw [hlow, hhigh] at hres
    -- its variable is one of `1..n`, because `φ` depends on it
    have hvar : nn.var < n + 1 := var_lt_of_suppLt hg vr hS hnn
    have hvar0 := hg.var0 _ _ hnn
    -- the regular function at this index
    obtain ⟨d, hd⟩ := vr
    have hreg : ∃ ψ φ0 φ1, Valid s.nodes nn.low φ0 ∧ Valid s.nodes nn.high φ1 ∧
        ψ = (fun e => if e nn.var then φ1 e else φ0 e) ∧ (φ = if r.neg then (fun e => !ψ e) else ψ) := by
      rcases r with ⟨i, b⟩
      have key : ∀ ψ, Den s.nodes d ⟨i, false⟩ ψ → ∃ φ0 φ1, Valid s.nodes nn.low φ0 ∧ Valid s.nodes nn.high φ1 ∧
          ψ = (fun e => if e nn.var then φ1 e else φ0 e) := by
        intro ψ hψ
        rcases hψ.regInv with ⟨e1, -, -⟩ | ⟨n', d0, d1, φ0, φ1, hn', h0, h1', -, hφ⟩
        · subst e1; rw [h1] at hnn; cases hnn
        · have : n' = nn := by simp at hnn; rw [hnn] at hn'; exact (Option.some.inj hn').symm
          subst this
          exact ⟨φ0, φ1, ⟨_, h0⟩, ⟨_, h1'⟩, hφ⟩
      cases b with
      | false =>
        obtain ⟨φ0, φ1, a, b', c'⟩ := key φ hd
        exact ⟨φ, φ0, φ1, a, b', c', by simp⟩
      | true =>
        obtain ⟨ψ, hψ, rfl⟩ := hd.negInv
        obtain ⟨φ0, φ1, a, b', c'⟩ := key ψ hψ
        exact ⟨ψ, φ0, φ1, a, b', c', by simp⟩
    obtain ⟨ψ, φ0, φ1, v0, v1, hψ, hφ⟩ := hreg
    have s0 : SuppGe φ0 (nn.var + 1) := by obtain ⟨_, h⟩ := v0; exact h.supp hg.inv _ (hg.inv.ordLow _ _ hnn)
    have s1 : SuppGe φ1 (nn.var + 1) := by obtain ⟨_, h⟩ := v1; exact h.supp hg.inv _ (hg.inv.ordHigh _ _ hnn)
    -- the children's functions are cofactors of `ψ`, hence supported in `≤ n` as well
    have hSψ : SuppLt ψ (n + 1) := by
      cases hb : r.neg with
      | false => rw [hb] at hφ; simp only [Bool.false_eq_true, ↓reduceIte] at hφ; rw [← hφ]; exact hS
      | true => rw [hb] at hφ; simp only [↓reduceIte] at hφ; rw [hφ] at hS; exact suppLt_of_not hS
    have hS0 : SuppLt φ0 (n + 1) := by
      have := suppLt_cof hSψ nn.var false
      rw [hψ, (cof_node_eq s0 s1).1] at this; exact this
    have hS1 : SuppLt φ1 (n + 1) := by
      have := suppLt_cof hSψ nn.var true
      rw [hψ, (cof_node_eq s0 s1).2] at this; exact this
    cases e1 : satCountRec fuel s (2 ^ n) nn.low memo with
    | error e => simp [e1] at hres
    | ok p1 =>
    obtain ⟨cl, memo1⟩ := p1
    simp only [e1] at hres
    obtain ⟨hcl, hm1⟩ := ih _ _ _ _ _ _ hg hS0 v0 hm e1
    cases e2 : satCountRec fuel s (2 ^ n) nn.high memo1 with
    | error e => simp [e2] at hres
    | ok p2 =>
    obtain ⟨ch, memo2⟩ := p2
    simp only [e2, Except.ok.injEq, Prod.mk.injEq] at hres
    obtain ⟨hcv, rfl⟩ := hres
    obtain ⟨hch, hm2⟩ := ih _ _ _ _ _ _ hg hS1 v1 hm1 e2
    -- the mean of the children is the node's count
    have hnode := countFrom_node s0 s1 n 1 (by omega) (by omega)
    have hmean : (cl + ch) / 2 = count ψ n := by
      rw [hcl, hch, count, count, count, hψ, ← hnode]; omega
    have hc : c = count φ n := by
      rw [← hcv, hφ]
      cases hb : r.neg with
      | false => simpa using hmean
      | true =>
        simp only [↓reduceIte, hmean]
        rw [count, count, countFrom_not]
    refine ⟨hc, ?_⟩
    intro r' c' hl'
    simp only [List.lookup] at hl'
    by_cases hrr : r' = r
    · subst hrr
      simp at hl'
      exact ⟨φ, ⟨d, hd⟩, by rw [← hl', hcv]; exact hc⟩
    · have : (r' == r) = false := by simpa using hrr
      simp only [this] at hl'
      exact hm2 r' c' hl'

/-- **C13.** For every handle `f` whose function `φ` depends only on the variables `≤ n`
(`SuppLt φ (n + 1)`; no stored node uses variable 0, so: only on `x_1 … x_n`), `sat_count(f, n)`
is exactly the number of assignments to `x_1 … x_n` that satisfy `φ`.  No assumption on the rest
of the store. -/
theorem satCount_spec_strong {n fuel : Nat} {s : St} {f : Ref} {φ : Fn} {c : Nat} (hg : Good s)
    (v : Valid s.nodes f φ) (hS : SuppLt φ (n + 1)) (h : satCount fuel s f n = .ok c) : c = count φ n := by
  unfold satCount at h
  cases e1 : satCountRec fuel s (2 ^ n) f [] with
  | error e => simp [e1] at h
  | ok p =>
    obtain ⟨c', memo'⟩ := p
    simp only [e1, Except.ok.injEq] at h
    subst h
    exact (satCount_spec' n fuel s f φ [] c' memo' hg hS v
      (fun r c hl => by simp [List.lookup] at hl) e1).1

/-- the same with the hypothesis spelled out -/
theorem satCount_spec_strong' {n fuel : Nat} {s : St} {f : Ref} {φ : Fn} {c : Nat} (hg : Good s)
    (v : Valid s.nodes f φ) (hS : ∀ e e' : Env, (∀ w, w ≤ n → e w = e' w) → φ e = φ e')
    (h : satCount fuel s f n = .ok c) : c = count φ n :=
  satCount_spec_strong hg v (fun e e' hee => hS e e' (fun w hw => hee w (by omega))) h

/-- the structural variant: it is enough that every node reachable from `f` has variable `≤ n` -/
theorem suppLt_of_reach {s : St} (hg : Good s) {n : Nat} : ∀ d (f : Ref) (φ : Fn), Den s.nodes d f φ →
    (∀ i nn, Reach s f i → s.nodes i = some nn → nn.var ≤ n) → SuppLt φ (n + 1) := by
  intro d
  induction d using Nat.strongRecOn with
  | _ d ih =>
    intro f φ hden hR
    have vf : Valid s.nodes f φ := ⟨d, hden⟩
    by_cases hnt : isTerminal f = true
    · simp only [isTerminal, Bool.or_eq_true] at hnt
      rcases hnt with c | c
      · rw [one_fn hg.inv.noterm c vf]; intro _ _ _; rfl
      · rw [zero_fn hg.inv.noterm c vf]; intro _ _ _; rfl
    · have hnt : isTerminal f = false := by simpa using hnt
      obtain ⟨hv0, d0, d1, φ0, φ1, hd0, hd1, vlo, vhi, hφ, _, _⟩ := hden.split hg hnt
      obtain ⟨nn, hnn, hvar, _⟩ := nonterm_stored hg vf hnt
      have hle : s.var f ≤ n := by rw [hvar]; exact hR _ _ .root hnn
      have hlo : Reach s f (s.lowNode f).idx := by rw [lowNode_idx, St.low_of hnn]; exact .low .root hnn
      have hhi : Reach s f (s.highNode f).idx := by rw [highNode_idx, St.high_of hnn]; exact .high .root hnn
      have a := ih d0 hd0 _ _ vlo (fun i m hr hm => hR i m (hr.trans hlo) hm)
      have b := ih d1 hd1 _ _ vhi (fun i m hr hm => hR i m (hr.trans hhi) hm)
      rw [hφ]
      intro e e' hee
      simp only [a e e' hee, b e e' hee, hee (s.var f) (by omega)]

theorem satCount_spec_reach {n fuel : Nat} {s : St} {f : Ref} {φ : Fn} {c : Nat} (hg : Good s)
    (v : Valid s.nodes f φ) (hR : ∀ i nn, Reach s f i → s.nodes i = some nn → nn.var ≤ n)
    (h : satCount fuel s f n = .ok c) : c = count φ n := by
  obtain ⟨d, hd⟩ := v
  exact satCount_spec_strong hg ⟨d, hd⟩ (suppLt_of_reach hg d f φ hd hR) h

/-- `satCount_top_spec` (Count.lean) is the special case "every node of the store has variable `≤ n`" -/
example {n fuel s f φ c} (hg : Good s) (hV : ∀ i nn, s.nodes i = some nn → nn.var ≤ n)
    (v : Valid s.nodes f φ) (h : satCount fuel s f n = .ok c) : c = count φ n :=
  satCount_spec_reach hg v (fun i nn _ hn => hV i nn hn) h

#print axioms dependsOn_lt
#print axioms var_lt_of_suppLt
#print axioms reach_var_le
#print axioms satCount_spec'
#print axioms satCount_spec_strong
#print axioms satCount_spec_strong'
#print axioms suppLt_of_reach
#print axioms satCount_spec_reach
end P

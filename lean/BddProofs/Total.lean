import BddProofs.IteTotal
import BddProofs.IteConstTotal
import BddProofs.Total1
import BddProofs.Total2
import BddProofs.Total3
import BddProofs.TotalCompose
import BddProofs.TotalRestrict
import BddProofs.TotalQuery
/-! Totality of every recursive operation of the model — index file.

"With enough fuel the operation on live arguments returns, or stops with 'Storage is full'; it
never hits an assertion and never runs out of fuel": the Rust recursion terminates without
panicking, storage capacity permitting.  `VarsLe s V` bounds the variables stored in the manager,
`lv s V r = V + 1 - var r` (0 for terminals) is the level of a handle.

| operation                         | file            | theorem(s)                                   | fuel bound                         |
|-----------------------------------|-----------------|----------------------------------------------|------------------------------------|
| `applyIte`                        | IteTotal        | `applyIte_total'`                            | `mu s V f g h < fuel`              |
| `iteConstant`, `isImplies`        | IteConstTotal   | `iteConstant_total'`, `isImplies_total`      | `lv f + lv g + lv h < fuel`        |
| `constrain`                       | Total1          | `constrain_total'`                           | `lv f + lv g < fuel`               |
| `substitute`                      | Total2          | `substitute_total'`                          | `lv f < fuel`                      |
| `substMulti`                      | Total2          | `substMulti_total'`                          | `lv f < fuel`                      |
| `cofCube`                         | Total2          | `cofCube_total'`                             | `lv f + cube.length < fuel`        |
| `cube`, `clause`                  | Total3          | `cube_total`, `cube_only_storageFull`, `cube_zero` (same for `clause`) | no fuel  |
| `andMany`, `orMany`               | Total3          | `andMany_total'`, `orMany_total'`            | `3(V+1)(V+2) + V < fuel`           |
| `Expr.eval`                       | Total3          | `Expr.eval_total'`                           | `3(V+1)(V+2) + V < fuel`           |
| `compose`, `composeTop`           | TotalCompose    | `compose_total'`, `composeTop_total`         | `lv f + lv g + 3(V+1)(V+2) + V < fuel` |
| `restrict`                        | TotalRestrict   | `restrict_total'`                            | `lv f + lv g + 3(V+1)(V+2) + V < fuel` |
| `satCountRec`, `satCount`         | TotalQuery      | `satCountRec_total`, `satCount_total`        | `lv f < fuel` (depth `< fuel`)     |
| `pathsIter`, `paths`              | TotalQuery      | `pathsIter_total`, `paths_total_lv`          | `2^(lv f + 1) ≤ fuel`              |
| `oneSat`                          | TotalQuery      | `oneSat_total_lv`                            | `lv f < fuel`                      |

Below, the two statements that the other files give through the abbreviation `TotalSpec` are spelled
out in full. -/
namespace P
open Arr

/-- `restrict` terminates without panic (storage permitting) -/
theorem restrict_terminates {V fuel : Nat} {s : St} {f g : Ref} {φf φg : Fn} (hg : Good s) (hV : VarsLe s V)
    (vf : Valid s.nodes f φf) (vg : Valid s.nodes g φg)
    (hfuel : lv s V f + lv s V g + (3 * (V + 1) * (V + 2) + V) < fuel) :
    ((∃ s' r, restrict fuel s f g = .ok (s', r)) ∨ (∃ s', restrict fuel s f g = .error (.storageFull, s'))) ∧
    (∀ s' r, restrict fuel s f g = .ok (s', r) → VarsLe s' V) ∧
    (∀ e s', restrict fuel s f g = .error (e, s') → e = .storageFull) :=
  restrict_total' hg hV vf vg hfuel

/-- `compose(f, v, g)` terminates without panic (storage permitting) -/
theorem composeTop_terminates {V fuel v : Nat} {s : St} {f g : Ref} {φf φg : Fn} (hg : Good s) (hV : VarsLe s V)
    (vf : Valid s.nodes f φf) (vg : Valid s.nodes g φg)
    (hfuel : lv s V f + lv s V g + (3 * (V + 1) * (V + 2) + V) < fuel) :
    ((∃ s' r, composeTop fuel s f v g = .ok (s', r)) ∨
      (∃ s', composeTop fuel s f v g = .error (.storageFull, s'))) ∧
    (∀ s' r, composeTop fuel s f v g = .ok (s', r) → VarsLe s' V) ∧
    (∀ e s', composeTop fuel s f v g = .error (e, s') → e = .storageFull) :=
  composeTop_total hg hV vf vg hfuel

/-- the inner `compose` with any memo satisfying the invariant of `compose_spec` -/
theorem compose_terminates {V fuel v : Nat} {s : St} {f g : Ref} {φf φg : Fn} {memo : CCache} (hg : Good s)
    (hV : VarsLe s V) (vf : Valid s.nodes f φf) (vg : Valid s.nodes g φg) (hm : CMemoOk s.nodes v memo)
    (hfuel : lv s V f + lv s V g + (3 * (V + 1) * (V + 2) + V) < fuel) :
    ((∃ s' r, compose fuel s f v g memo = .ok (s', r)) ∨
      (∃ s', compose fuel s f v g memo = .error (.storageFull, s'))) ∧
    (∀ s' r, compose fuel s f v g memo = .ok (s', r) → VarsLe s' V) ∧
    (∀ e s', compose fuel s f v g memo = .error (e, s') → e = .storageFull) :=
  compose_total' hg hV vf vg hm hfuel

/-- one fuel value that is enough for every state-changing operation over variables `≤ V`
(for `cofCube` add the cube length) -/
def opFuel (V : Nat) : Nat := 2 * (V + 1) + (3 * (V + 1) * (V + 2) + V) + 1

theorem opFuel_bounds (V : Nat) (s : St) (f g h : Ref) {φf : Fn} (hg : Good s) (hV : VarsLe s V)
    (vf : Valid s.nodes f φf) :
    mu s V f g h < opFuel V ∧ lv s V f + lv s V g < opFuel V ∧ lv s V f < opFuel V ∧
    lv s V f + lv s V g + (3 * (V + 1) * (V + 2) + V) < opFuel V ∧ 3 * (V + 1) * (V + 2) + V < opFuel V := by
  have a := lv_le s V f; have b := lv_le s V g
  have c : mu s V f g h ≤ 3 * (V + 1) * (V + 2) + V := mu_le hg hV vf
  unfold opFuel
  refine ⟨by omega, by omega, by omega, by omega, by omega⟩

#print axioms applyIte_total'
#print axioms iteConstant_total'
#print axioms isImplies_total
#print axioms constrain_total'
#print axioms substitute_total'
#print axioms substMulti_total'
#print axioms cofCube_total'
#print axioms cube_total
#print axioms cube_only_storageFull
#print axioms cube_zero
#print axioms clause_total
#print axioms clause_only_storageFull
#print axioms clause_zero
#print axioms andMany_total'
#print axioms orMany_total'
#print axioms Expr.eval_total'
#print axioms compose_terminates
#print axioms composeTop_terminates
#print axioms restrict_terminates
#print axioms satCountRec_total
#print axioms satCount_total
#print axioms pathsIter_total
#print axioms paths_total_lv
#print axioms paths_total_unif
#print axioms oneSat_total_lv
#print axioms opFuel_bounds
end P

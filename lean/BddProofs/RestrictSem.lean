import BddProofs.Restrict
/-! Pure consequences of the Coudert–Madre relation (no diagrams involved). -/
namespace P

theorem fn_eq_false_of_halves {g : Fn} {v : Nat} (h0 : cof g v false = fun _ => false)
    (h1 : cof g v true = fun _ => false) : g = fun _ => false := by
  rw [shannon g v]; funext e
  have a := congrFun h0 e; have b := congrFun h1 e
  by_cases h : e v = true <;> simp [h, a, b]

theorem cof_at {g : Fn} {v : Nat} (e : Env) : g e = cof g v (e v) e := by
  simp only [cof, upd_self rfl]

theorem cof_of_val {g : Fn} {v : Nat} {e : Env} {b : Bool} (h : e v = b) : cof g v b e = g e := by
  simp only [cof, upd_self h]

/-- C11: on the care set the result agrees with `f` -/
theorem RestrictRel.care {f g h : Fn} (r : RestrictRel f g h) : ∀ e, g e = true → h e = f e := by
  induction r with
  | gzero f => intro e he; cases he
  | gone f => intro e _; rfl
  | fconst f g _ _ => intro e _; rfl
  | same g _ => intro e he; exact he.symm
  | opp g _ => intro e he; simp [FnNot, he]
  | low f g h v _ _ h1 _ ih =>
    intro e he
    have hev : e v = false := by
      cases hv : e v with
      | false => rfl
      | true =>
        have := cof_of_val (g := g) hv
        rw [h1, he] at this; cases this
    rw [ih e (by rw [cof_of_val hev]; exact he), cof_of_val hev]
  | high f g h v _ _ h0 _ ih =>
    intro e he
    have hev : e v = true := by
      cases hv : e v with
      | true => rfl
      | false =>
        have := cof_of_val (g := g) hv
        rw [h0, he] at this; cases this
    rw [ih e (by rw [cof_of_val hev]; exact he), cof_of_val hev]
  | node f g h0 h1 v _ _ _ _ _ _ _ ih0 ih1 =>
    intro e he
    cases hv : e v with
    | false =>
      have := ih0 e (by rw [cof_of_val hv]; exact he)
      rw [cof_of_val hv] at this
      simp [this, hv]
    | true =>
      have := ih1 e (by rw [cof_of_val hv]; exact he)
      rw [cof_of_val hv] at this
      simp [this, hv]
  | abstr f g h v _ _ _ _ _ _ ih =>
    intro e he
    apply ih e
    simp only [FnOr, Bool.or_eq_true]
    cases hv : e v with
    | false => right; rw [cof_of_val hv]; exact he
    | true => left; rw [cof_of_val hv]; exact he

/-- C11: if the care set implies `f` the result is the constant true -/
theorem RestrictRel.of_le {f g h : Fn} (r : RestrictRel f g h) (hg : g ≠ fun _ => false)
    (hle : ∀ e, g e = true → f e = true) : h = fun _ => true := by
  induction r with
  | gzero f => exact absurd rfl hg
  | gone f => funext e; exact hle e rfl
  | fconst f g _ hc =>
    rcases hc with h | h
    · exact h
    · exfalso; apply hg; funext e
      cases he : g e with
      | false => rfl
      | true => have := hle e he; rw [h] at this; cases this
  | same g _ => rfl
  | opp g _ =>
    exfalso; apply hg; funext e
    cases he : g e with
    | false => rfl
    | true => have := hle e he; simp [FnNot, he] at this
  | low f g h v hnt _ h1 _ ih =>
    apply ih
    · intro h0; exact hnt.1 (fn_eq_false_of_halves h0 h1)
    · intro e he; exact hle _ he
  | high f g h v hnt _ h0 _ ih =>
    apply ih
    · intro h1; exact hnt.1 (fn_eq_false_of_halves h0 h1)
    · intro e he; exact hle _ he
  | node f g h0 h1 v _ _ n1 n0 _ _ _ ih0 ih1 =>
    rw [ih0 n0 (fun e he => hle _ he), ih1 n1 (fun e he => hle _ he)]
    funext e; simp
  | abstr f g h v _ _ n1 n0 hnd _ ih =>
    apply ih
    · intro hor
      apply n1; funext e
      have := congrFun hor e
      simp only [FnOr, Bool.or_eq_false_iff] at this
      exact this.1
    · intro e he
      have hfe : ∀ b, f (upd e v b) = f e := by
        intro b
        have : cof f v false = cof f v true := Classical.byContradiction (fun hne => hnd hne)
        have a := congrFun this e
        simp only [cof] at a
        cases b <;> cases hv : e v
        · rw [← hv, upd_self rfl]
        · rw [a, ← hv, upd_self rfl]
        · rw [← a, ← hv, upd_self rfl]
        · rw [← hv, upd_self rfl]
      simp only [FnOr, Bool.or_eq_true] at he
      rcases he with he | he
      · rw [← hfe true]; exact hle _ he
      · rw [← hfe false]; exact hle _ he

theorem ff_ne_tt : (fun _ : Env => false) ≠ fun _ => true := by
  intro h; have := congrFun h (fun _ => true); cases this

theorem not_depends_of_suppGe {φ : Fn} {v m : Nat} (h : SuppGe φ m) (hvm : v < m) : ¬ DependsOn φ v :=
  fun hd => hd (cof_eq_of_suppGe h hvm _ _)

theorem IsTop.unique {f g : Fn} {v v' : Nat} (a : IsTop f g v) (b : IsTop f g v') : v = v' := by
  apply Classical.byContradiction
  intro hne
  rcases Nat.lt_or_gt_of_ne hne with h | h
  · rcases a.2.2 with d | d
    · exact not_depends_of_suppGe b.1 h d
    · exact not_depends_of_suppGe b.2.1 h d
  · rcases b.2.2 with d | d
    · exact not_depends_of_suppGe a.1 h d
    · exact not_depends_of_suppGe a.2.1 h d

theorem fnNot_ne_self (g : Fn) : FnNot g ≠ g := by
  intro h; have := congrFun h (fun _ => true); simp [FnNot] at this

/-- the terminal cases override everything (and agree with each other where they overlap) -/
theorem RestrictRel.terminal {f g h : Fn} (r : RestrictRel f g h) :
    (g = (fun _ => false) → h = fun _ => false) ∧
    (g = (fun _ => true) → h = f) ∧
    (g ≠ (fun _ => false) → IsConst f → h = f) ∧
    (g ≠ (fun _ => false) → f = g → h = fun _ => true) ∧
    (g ≠ (fun _ => false) → f = FnNot g → h = fun _ => false) := by
  have rec_case : ∀ {f g : Fn}, NonTerminalPair f g → ∀ h : Fn,
      (g = (fun _ => false) → h = fun _ => false) ∧
      (g = (fun _ => true) → h = f) ∧
      (g ≠ (fun _ => false) → IsConst f → h = f) ∧
      (g ≠ (fun _ => false) → f = g → h = fun _ => true) ∧
      (g ≠ (fun _ => false) → f = FnNot g → h = fun _ => false) := by
    intro f g hnt h
    exact ⟨fun e => absurd e hnt.1, fun e => absurd e hnt.2.1, fun _ c => absurd c hnt.2.2.1,
      fun _ e => absurd e hnt.2.2.2.1, fun _ e => absurd e hnt.2.2.2.2⟩
  cases r with
  | gzero f => exact ⟨fun _ => rfl, fun e => absurd e ff_ne_tt, fun e => absurd rfl e, fun e => absurd rfl e, fun e => absurd rfl e⟩
  | gone f =>
    refine ⟨fun e => absurd e.symm ff_ne_tt, fun _ => rfl, fun _ _ => rfl, fun _ e => e, fun _ e => ?_⟩
    rw [e]; funext x; simp [FnNot]
  | fconst f g hg hc =>
    refine ⟨fun e => absurd e hg, fun _ => rfl, fun _ _ => rfl, fun _ e => ?_, fun _ e => ?_⟩
    · subst e
      rcases hc with h | h
      · exact h
      · exact absurd h hg
    · rcases hc with h | h
      · exfalso; apply hg; funext x
        have := congrFun (e.symm.trans h) x
        simpa [FnNot] using this
      · exact h
  | same g hg =>
    refine ⟨fun e => absurd e hg, fun e => e.symm, fun _ c => ?_, fun _ _ => rfl, fun _ e => absurd e.symm (fnNot_ne_self _)⟩
    rcases c with h | h
    · exact h.symm
    · exact absurd h hg
  | opp g hg =>
    refine ⟨fun _ => rfl, fun e => ?_, fun _ c => ?_, fun _ e => absurd e (fnNot_ne_self _), fun _ _ => rfl⟩
    · subst e; funext x; simp [FnNot]
    · rcases c with h | h
      · exfalso; apply hg; funext x
        have := congrFun h x
        simpa [FnNot] using this
      · exact h.symm
  | low f g h v hnt => exact rec_case hnt h
  | high f g h v hnt => exact rec_case hnt h
  | node f g h0 h1 v hnt => exact rec_case hnt _
  | abstr f g h v hnt => exact rec_case hnt h

/-- `RestrictRel` is a function of `(f, g)`: the memo table cannot change the answer -/
theorem RestrictRel.functional {f g h : Fn} (r : RestrictRel f g h) : ∀ {h'}, RestrictRel f g h' → h = h' := by
  induction r with
  | gzero f => intro h' r'; exact (r'.terminal.1 rfl).symm
  | gone f => intro h' r'; exact (r'.terminal.2.1 rfl).symm
  | fconst f g hg hc => intro h' r'; exact (r'.terminal.2.2.1 hg hc).symm
  | same g hg => intro h' r'; exact (r'.terminal.2.2.2.1 hg rfl).symm
  | opp g hg => intro h' r'; exact (r'.terminal.2.2.2.2 hg rfl).symm
  | low f g h v hnt htop h1 _ ih =>
    intro h' r'
    cases r' with
    | gzero => exact absurd rfl hnt.1
    | gone => exact absurd rfl hnt.2.1
    | fconst _ _ _ hc => exact absurd hc hnt.2.2.1
    | same => exact absurd rfl hnt.2.2.2.1
    | opp => exact absurd rfl hnt.2.2.2.2
    | low _ _ _ v' _ htop' _ r0 => have := htop.unique htop'; subst this; exact ih r0
    | high _ _ _ v' _ htop' h0 _ => have := htop.unique htop'; subst this; exact absurd (fn_eq_false_of_halves h0 h1) hnt.1
    | node _ _ _ _ v' _ htop' n1 => have := htop.unique htop'; subst this; exact absurd h1 n1
    | abstr _ _ _ v' _ htop' n1 => have := htop.unique htop'; subst this; exact absurd h1 n1
  | high f g h v hnt htop h0 _ ih =>
    intro h' r'
    cases r' with
    | gzero => exact absurd rfl hnt.1
    | gone => exact absurd rfl hnt.2.1
    | fconst _ _ _ hc => exact absurd hc hnt.2.2.1
    | same => exact absurd rfl hnt.2.2.2.1
    | opp => exact absurd rfl hnt.2.2.2.2
    | low _ _ _ v' _ htop' h1 _ => have := htop.unique htop'; subst this; exact absurd (fn_eq_false_of_halves h0 h1) hnt.1
    | high _ _ _ v' _ htop' _ r1 => have := htop.unique htop'; subst this; exact ih r1
    | node _ _ _ _ v' _ htop' _ n0 => have := htop.unique htop'; subst this; exact absurd h0 n0
    | abstr _ _ _ v' _ htop' _ n0 => have := htop.unique htop'; subst this; exact absurd h0 n0
  | node f g h0 h1 v hnt htop n1 n0 hd _ _ ih0 ih1 =>
    intro h' r'
    cases r' with
    | gzero => exact absurd rfl hnt.1
    | gone => exact absurd rfl hnt.2.1
    | fconst _ _ _ hc => exact absurd hc hnt.2.2.1
    | same => exact absurd rfl hnt.2.2.2.1
    | opp => exact absurd rfl hnt.2.2.2.2
    | low _ _ _ v' _ htop' e1 _ => have := htop.unique htop'; subst this; exact absurd e1 n1
    | high _ _ _ v' _ htop' e0 _ => have := htop.unique htop'; subst this; exact absurd e0 n0
    | node _ _ _ _ v' _ htop' _ _ _ r0 r1 => have := htop.unique htop'; subst this; rw [ih0 r0, ih1 r1]
    | abstr _ _ _ v' _ htop' _ _ hnd _ => have := htop.unique htop'; subst this; exact absurd hd hnd
  | abstr f g h v hnt htop n1 n0 hnd _ ih =>
    intro h' r'
    cases r' with
    | gzero => exact absurd rfl hnt.1
    | gone => exact absurd rfl hnt.2.1
    | fconst _ _ _ hc => exact absurd hc hnt.2.2.1
    | same => exact absurd rfl hnt.2.2.2.1
    | opp => exact absurd rfl hnt.2.2.2.2
    | low _ _ _ v' _ htop' e1 _ => have := htop.unique htop'; subst this; exact absurd e1 n1
    | high _ _ _ v' _ htop' e0 _ => have := htop.unique htop'; subst this; exact absurd e0 n0
    | node _ _ _ _ v' _ htop' _ _ hd _ _ => have := htop.unique htop'; subst this; exact absurd hd hnd
    | abstr _ _ _ v' _ htop' _ _ _ r2 => have := htop.unique htop'; subst this; exact ih r2

#print axioms RestrictRel.functional
#print axioms RestrictRel.care
#print axioms RestrictRel.of_le
end P

import BddModel.Bdd
import BddModel.Expr
/-! Frame lemmas for the CAPACITY of the node table: no operation of the manager — `size` and
`collectGarbage` included — changes `s.storage.vals.size`.  No invariant is needed; every proof is a
syntactic induction following the definition (the same organisation as `BddProofs/Frame.lean`, which
does this for the size cache; the names here are disjoint from the names there, so both can be imported).

Organisation: `FrC E c x` says "the state carried by the result `x` has capacity `c`" — always for an
`.ok` result, and for an `.error` result provided `E` holds.  Every operation `op` gets
`op_frc : FrC E s.storage.vals.size (op … s …)` (generic in `E`), from which the user-facing
`op_cap` (`.ok` outcome) and `op_cap_err` (`.error` outcome) are read off.  The leaf fact is
`Table.put_cap`: `vals` is only written by `Arr.wr = Array.setIfInBounds`. -/
namespace P
open Arr

/-- the state inside a result has capacity `c` (for failures: if `E`) -/
def FrC {α : Type} (E : Prop) (c : Nat) : Res (St × α) → Prop
  | .ok (s', _) => s'.storage.vals.size = c
  | .error (_, s') => E → s'.storage.vals.size = c

namespace FrC
variable {α β : Type} {E : Prop} {c : Nat}

theorem ok {s' : St} {r : α} (h : s'.storage.vals.size = c) : FrC E c (.ok (s', r) : Res (St × α)) := h
theorem err {s' : St} {e : Fault} (h : s'.storage.vals.size = c) :
    FrC E c (.error (e, s') : Res (St × α)) := fun _ => h
theorem ite {p : Prop} [Decidable p] {a b : Res (St × α)}
    (ha : p → FrC E c a) (hb : ¬p → FrC E c b) : FrC E c (if p then a else b) := by
  by_cases h : p
  · rw [if_pos h]; exact ha h
  · rw [if_neg h]; exact hb h
/-- propagate a failure (possibly at another result type) -/
theorem of_err {x : Res (St × α)} {e : Fault × St} (ih : FrC E c x) (heq : x = .error e) :
    FrC E c (.error e : Res (St × β)) := by
  subst heq; cases e; exact ih
theorem of_ok {x : Res (St × α)} {s1 : St} {r : α} (ih : FrC E c x) (heq : x = .ok (s1, r)) :
    s1.storage.vals.size = c := by
  subst heq; exact ih
/-- continue from an intermediate state with the same capacity -/
theorem via {s1 : St} {x : Res (St × α)} (h1 : s1.storage.vals.size = c) (h : FrC E s1.storage.vals.size x) :
    FrC E c x := h1 ▸ h
theorem get_ok {x : Res (St × α)} {s' : St} {r : α} (ih : FrC False c x) (heq : x = .ok (s', r)) :
    s'.storage.vals.size = c := of_ok ih heq
theorem get_err {x : Res (St × α)} {s' : St} {e : Fault} (ih : FrC True c x)
    (heq : x = .error (e, s')) : s'.storage.vals.size = c := by
  subst heq; exact ih trivial
end FrC

/-- `if` step -/
macro "frc_ite" : tactic => `(tactic| refine FrC.ite (fun _ => ?_) (fun _ => ?_))
/-- leaf: the state is syntactically one whose capacity is the current one -/
macro "frc_leaf" : tactic => `(tactic| first | exact FrC.ok rfl | exact FrC.err rfl)
/-- `match x with | .error e => .error e | .ok … => …` step, `ih : FrC E c x`: closes the failure
branch and leaves the success branch with `h1 : s1.storage.vals.size = c` for the new state -/
macro "frc_bind " ih:term " => " h1:ident : tactic =>
  `(tactic| (split; exact FrC.of_err $ih (by assumption)
             have $h1 := FrC.of_ok $ih (by assumption)))

/-! ### the table: `vals` is only ever written through `wr`, which keeps the size -/

section table
variable {α : Type} [Inhabited α]

omit [Inhabited α] in
theorem Table.allocAt_cap {t t' : Table α} {i j : Nat} (h : t.allocAt i = .ok (t', j)) :
    t'.vals.size = t.vals.size := by
  unfold Table.allocAt at h
  split at h
  · cases h
  · cases h; rfl

omit [Inhabited α] in
theorem Table.alloc_cap {t t' : Table α} {j : Nat} (h : t.alloc = .ok (t', j)) :
    t'.vals.size = t.vals.size := Table.allocAt_cap h

omit [Inhabited α] in
theorem Table.drop_cap {t t' : Table α} {i : Nat} (h : t.drop i = .ok t') :
    t'.vals.size = t.vals.size := by
  unfold Table.drop at h
  split at h
  · cases h
  split at h
  · cases h
  · cases h; rfl

omit [Inhabited α] in
theorem Table.add_cap {t t' : Table α} {v : α} {j : Nat} (h : t.add v = .ok (t', j)) :
    t'.vals.size = t.vals.size := by
  unfold Table.add at h
  cases ha : t.alloc with
  | error e => rw [ha] at h; cases h
  | ok p =>
    obtain ⟨t1, i⟩ := p
    rw [ha] at h
    cases h
    exact (Array.size_setIfInBounds ..).trans (Table.alloc_cap ha)

omit [Inhabited α] in
theorem Table.setNext_cap (t : Table α) (i x : Nat) : (t.setNext i x).vals.size = t.vals.size := rfl
omit [Inhabited α] in
theorem Table.setBucket_cap (t : Table α) (b x : Nat) : (t.setBucket b x).vals.size = t.vals.size := rfl

omit [Inhabited α] in
theorem Table.setNextChecked_cap {t t' : Table α} {i x : Nat} (h : t.setNextChecked i x = .ok t') :
    t'.vals.size = t.vals.size := by
  unfold Table.setNextChecked at h
  split at h
  · cases h
  split at h
  · cases h
  · cases h; rfl

omit [Inhabited α] in
theorem Table.setValue_cap {t t' : Table α} {i : Nat} {v : α} (h : t.setValue i v = .ok t') :
    t'.vals.size = t.vals.size := by
  unfold Table.setValue at h
  split at h
  · cases h
  · cases h; exact Array.size_setIfInBounds ..

variable [DecidableEq α] [MyHash α]

omit [MyHash α] in
theorem Table.putLoop_cap {t t' : Table α} {v : α} {j : Nat} :
    ∀ (fuel idx : Nat), t.putLoop v fuel idx = .ok (t', j) → t'.vals.size = t.vals.size := by
  intro fuel
  induction fuel with
  | zero => intro idx h; cases h
  | succ fuel ih =>
    intro idx h
    unfold Table.putLoop at h
    split at h
    · cases h
    split at h
    · cases h; rfl
    split at h
    · cases ha : t.add v with
      | error e => rw [ha] at h; cases h
      | ok p =>
        obtain ⟨t1, i⟩ := p
        rw [ha] at h
        cases h
        exact (Table.add_cap ha : t1.vals.size = t.vals.size)
    · exact ih _ h

theorem Table.put_cap {t t' : Table α} {v : α} {j : Nat} (h : t.put v = .ok (t', j)) :
    t'.vals.size = t.vals.size := by
  unfold Table.put at h
  dsimp only at h
  split at h
  · cases ha : t.add v with
    | error e => rw [ha] at h; cases h
    | ok p =>
      obtain ⟨t1, i⟩ := p
      rw [ha] at h
      cases h
      exact (Table.add_cap ha : t1.vals.size = t.vals.size)
  · exact Table.putLoop_cap _ _ h

end table

/-! ### store -/

theorem St.cacheGet_cap (s : St) (k : OpKey) : (s.cacheGet k).1.storage.vals.size = s.storage.vals.size := rfl
theorem St.cacheInsert_cap (s : St) (k : OpKey) (r : Ref) :
    (s.cacheInsert k r).storage.vals.size = s.storage.vals.size := rfl

theorem St.put_frc (E) (s : St) (n : Node) : FrC E s.storage.vals.size (s.put n) := by
  unfold St.put
  split
  · exact FrC.err rfl
  · exact FrC.ok (Table.put_cap (by assumption))

theorem mkNodeReg_frc (E) (s : St) (v : Nat) (low high : Ref) :
    FrC E s.storage.vals.size (mkNodeReg s v low high) := by
  unfold mkNodeReg
  frc_ite
  · frc_leaf
  frc_bind (St.put_frc E s _) => h1
  exact FrC.ok h1

theorem mkNode_frc (E) (s : St) (v : Nat) (low high : Ref) :
    FrC E s.storage.vals.size (mkNode s v low high) := by
  unfold mkNode
  frc_ite
  · frc_leaf
  frc_ite
  · frc_bind (mkNodeReg_frc E s _ _ _) => h1
    exact FrC.ok h1
  · exact mkNodeReg_frc E s _ _ _

theorem mkVar_frc (E) (s : St) (v : Nat) : FrC E s.storage.vals.size (mkVar s v) := by
  unfold mkVar
  frc_ite
  · frc_leaf
  · exact mkNode_frc E s _ _ _

/-! ### ite -/

theorem iteCore_frc (E) {rec : Rec} (hrec : ∀ s f g h, FrC E s.storage.vals.size (rec s f g h))
    (s : St) (f g h : Ref) (m : Nat) : FrC E s.storage.vals.size (iteCore rec s f g h m) := by
  unfold iteCore
  split
  · frc_leaf
  dsimp only
  frc_ite
  · frc_leaf
  have h0 : (s.cacheGet (.ite f g h)).1.storage.vals.size = s.storage.vals.size := rfl
  split
  · frc_bind (FrC.via h0 (hrec _ _ _ _)) => h1
    frc_bind (FrC.via h1 (hrec _ _ _ _)) => h2
    frc_bind (FrC.via h2 (mkNode_frc E _ _ _ _)) => h3
    exact FrC.ok h3
  · frc_leaf

theorem applyIte_frc (E) : ∀ fuel s f g h, FrC E s.storage.vals.size (applyIte fuel s f g h) := by
  intro fuel
  induction fuel with
  | zero => intro s f g h; exact FrC.err rfl
  | succ fuel ih =>
    intro s f g h
    unfold applyIte
    repeat (frc_ite; (first | frc_leaf | exact ih _ _ _ _))
    dsimp only
    repeat (frc_ite; (first | frc_leaf | (frc_ite; frc_leaf; exact ih _ _ _ _)))
    frc_bind (iteCore_frc E ih _ _ _ _ _) => h1
    exact FrC.ok h1

theorem applyAnd_frc (E) (fuel s u v) : FrC E s.storage.vals.size (applyAnd fuel s u v) := applyIte_frc E ..
theorem applyOr_frc (E) (fuel s u v) : FrC E s.storage.vals.size (applyOr fuel s u v) := applyIte_frc E ..
theorem applyXor_frc (E) (fuel s u v) : FrC E s.storage.vals.size (applyXor fuel s u v) := applyIte_frc E ..
theorem applyEq_frc (E) (fuel s u v) : FrC E s.storage.vals.size (applyEq fuel s u v) := applyIte_frc E ..
theorem applyImply_frc (E) (fuel s u v) : FrC E s.storage.vals.size (applyImply fuel s u v) :=
  applyIte_frc E ..

theorem andMany_frc (E) (fuel : Nat) : ∀ l s acc, FrC E s.storage.vals.size (andMany fuel s acc l) := by
  intro l
  induction l with
  | nil => intro s acc; exact FrC.ok rfl
  | cons r rest ih =>
    intro s acc
    unfold andMany
    frc_bind (applyAnd_frc E fuel s acc r) => h1
    exact FrC.via h1 (ih _ _)

theorem orMany_frc (E) (fuel : Nat) : ∀ l s acc, FrC E s.storage.vals.size (orMany fuel s acc l) := by
  intro l
  induction l with
  | nil => intro s acc; exact FrC.ok rfl
  | cons r rest ih =>
    intro s acc
    unfold orMany
    frc_bind (applyOr_frc E fuel s acc r) => h1
    exact FrC.via h1 (ih _ _)

/-! ### iteConstant, isImplies -/

theorem iteConstant_frc (E) : ∀ fuel s f g h, FrC E s.storage.vals.size (iteConstant fuel s f g h) := by
  intro fuel
  induction fuel with
  | zero => intro s f g h; exact FrC.err rfl
  | succ fuel ih =>
    intro s f g h
    unfold iteConstant
    repeat (frc_ite; frc_leaf)
    split
    · frc_leaf
    dsimp only
    have h0 : (s.cacheGet (.ite f g h)).1.storage.vals.size = s.storage.vals.size := rfl
    repeat (frc_ite; frc_leaf)
    split
    · split
      · exact FrC.of_err (FrC.via h0 (ih _ _ _ _)) (by assumption)
      · exact FrC.ok (FrC.of_ok (FrC.via h0 (ih _ _ _ _)) (by assumption))
      · have h1 := FrC.of_ok (FrC.via h0 (ih _ _ _ _)) (by assumption)
        frc_bind (FrC.via h1 (ih _ _ _ _)) => h2
        frc_ite
        · exact FrC.ok h2
        · exact FrC.ok h2
    · frc_leaf

theorem isImplies_frc (E) (fuel s f g) : FrC E s.storage.vals.size (isImplies fuel s f g) := by
  unfold isImplies
  frc_bind (iteConstant_frc E fuel s f g Ref.one) => h1
  exact FrC.ok h1

/-! ### cube, clause -/

theorem cubeFold_frc (E) : ∀ l s cur, FrC E s.storage.vals.size (cubeFold s l cur) := by
  intro l
  induction l with
  | nil => intro s cur; exact FrC.ok rfl
  | cons x rest ih =>
    intro s cur
    obtain ⟨v, b⟩ := x
    unfold cubeFold
    frc_ite
    · frc_leaf
    have hm : FrC E s.storage.vals.size (if b = true then mkNode s v Ref.zero cur else mkNode s v cur Ref.zero) :=
      FrC.ite (fun _ => mkNode_frc E ..) (fun _ => mkNode_frc E ..)
    frc_bind hm => h1
    exact FrC.via h1 (ih _ _)

theorem cube_frc (E) (s lits) : FrC E s.storage.vals.size (cube s lits) := cubeFold_frc E ..

theorem clauseFold_frc (E) : ∀ l s cur, FrC E s.storage.vals.size (clauseFold s l cur) := by
  intro l
  induction l with
  | nil => intro s cur; exact FrC.ok rfl
  | cons x rest ih =>
    intro s cur
    obtain ⟨v, b⟩ := x
    unfold clauseFold
    frc_ite
    · frc_leaf
    have hm : FrC E s.storage.vals.size (if b = true then mkNode s v cur Ref.one else mkNode s v Ref.one cur) :=
      FrC.ite (fun _ => mkNode_frc E ..) (fun _ => mkNode_frc E ..)
    frc_bind hm => h1
    exact FrC.via h1 (ih _ _)

theorem clause_frc (E) (s lits) : FrC E s.storage.vals.size (clause s lits) := clauseFold_frc E ..

/-! ### substitute, substMulti, cofCube -/

theorem substitute_frc (E) : ∀ fuel s f v b memo, FrC E s.storage.vals.size (substitute fuel s f v b memo) := by
  intro fuel
  induction fuel with
  | zero => intro s f v b memo; exact FrC.err rfl
  | succ fuel ih =>
    intro s f v b memo
    unfold substitute
    repeat (frc_ite; frc_leaf)
    split
    · frc_leaf
    frc_bind (ih _ _ _ _ _) => h1
    frc_bind (FrC.via h1 (ih _ _ _ _ _)) => h2
    frc_bind (FrC.via h2 (mkNode_frc E _ _ _ _)) => h3
    exact FrC.ok h3

theorem substMulti_frc (E) : ∀ fuel s f vals memo, FrC E s.storage.vals.size (substMulti fuel s f vals memo) := by
  intro fuel
  induction fuel with
  | zero => intro s f vals memo; exact FrC.err rfl
  | succ fuel ih =>
    intro s f vals memo
    unfold substMulti
    repeat (frc_ite; frc_leaf)
    split
    · frc_leaf
    split
    · frc_bind (ih _ _ _ _) => h1
      exact FrC.ok h1
    · frc_bind (ih _ _ _ _) => h1
      frc_bind (FrC.via h1 (ih _ _ _ _)) => h2
      frc_bind (FrC.via h2 (mkNode_frc E _ _ _ _)) => h3
      exact FrC.ok h3

theorem cofCube_frc (E) : ∀ fuel s f vals memo, FrC E s.storage.vals.size (cofCube fuel s f vals memo) := by
  intro fuel
  induction fuel with
  | zero => intro s f vals memo; exact FrC.err rfl
  | succ fuel ih =>
    intro s f vals memo
    cases vals with
    | nil => exact FrC.ok rfl
    | cons x rest =>
      obtain ⟨u, b⟩ := x
      unfold cofCube
      frc_ite
      · frc_leaf
      split
      · frc_leaf
      dsimp only
      frc_ite
      · frc_bind (ih _ _ _ _) => h1
        exact FrC.ok h1
      frc_ite
      · frc_bind (ih _ _ _ _) => h1
        exact FrC.ok h1
      · frc_bind (ih _ _ _ _) => h1
        frc_bind (FrC.via h1 (ih _ _ _ _)) => h2
        frc_bind (FrC.via h2 (mkNode_frc E _ _ _ _)) => h3
        exact FrC.ok h3

/-! ### compose -/

theorem compose_frc (E) : ∀ fuel s f v g memo, FrC E s.storage.vals.size (compose fuel s f v g memo) := by
  intro fuel
  induction fuel with
  | zero => intro s f v g memo; exact FrC.err rfl
  | succ fuel ih =>
    intro s f v g memo
    unfold compose
    repeat (frc_ite; frc_leaf)
    split
    · frc_leaf
    frc_ite
    · frc_bind (applyIte_frc E fuel s _ _ _) => h1
      exact FrC.ok h1
    dsimp only
    frc_ite
    · frc_leaf
    split
    · frc_bind (ih _ _ _ _ _) => h1
      frc_bind (FrC.via h1 (ih _ _ _ _ _)) => h2
      frc_bind (FrC.via h2 (mkNode_frc E _ _ _ _)) => h3
      exact FrC.ok h3
    · frc_leaf

theorem composeTop_frc (E) (fuel s f v g) : FrC E s.storage.vals.size (composeTop fuel s f v g) := by
  unfold composeTop
  frc_bind (compose_frc E fuel s f v g (Cache.new 16)) => h1
  exact FrC.ok h1

/-! ### constrain, restrict -/

theorem constrain_frc (E) : ∀ fuel s f g, FrC E s.storage.vals.size (constrain fuel s f g) := by
  intro fuel
  induction fuel with
  | zero => intro s f g; exact FrC.err rfl
  | succ fuel ih =>
    intro s f g
    unfold constrain
    repeat (frc_ite; frc_leaf)
    split
    · frc_leaf
    dsimp only
    have h0 : (s.cacheGet (.constrain f g)).1.storage.vals.size = s.storage.vals.size := rfl
    split
    · frc_ite
      · exact FrC.via h0 (ih _ _ _)
      frc_ite
      · exact FrC.via h0 (ih _ _ _)
      frc_ite
      · frc_bind (FrC.via h0 (ih _ _ _)) => h1
        frc_bind (FrC.via h1 (ih _ _ _)) => h2
        exact FrC.via h2 (mkNode_frc E _ _ _ _)
      · frc_bind (FrC.via h0 (ih _ _ _)) => h1
        frc_bind (FrC.via h1 (ih _ _ _)) => h2
        frc_bind (FrC.via h2 (mkNode_frc E _ _ _ _)) => h3
        exact FrC.ok h3
    · frc_leaf

theorem restrict_frc (E) : ∀ fuel s f g, FrC E s.storage.vals.size (restrict fuel s f g) := by
  intro fuel
  induction fuel with
  | zero => intro s f g; exact FrC.err rfl
  | succ fuel ih =>
    intro s f g
    unfold restrict
    repeat (frc_ite; frc_leaf)
    split
    · frc_leaf
    dsimp only
    have h0 : (s.cacheGet (.restrict f g)).1.storage.vals.size = s.storage.vals.size := rfl
    split
    · frc_ite
      · exact FrC.via h0 (ih _ _ _)
      frc_ite
      · exact FrC.via h0 (ih _ _ _)
      frc_ite
      · frc_bind (FrC.via h0 (ih _ _ _)) => h1
        frc_bind (FrC.via h1 (ih _ _ _)) => h2
        frc_bind (FrC.via h2 (mkNode_frc E _ _ _ _)) => h3
        exact FrC.ok h3
      · frc_bind (FrC.via h0 (applyIte_frc E fuel _ _ _ _)) => h1
        frc_bind (FrC.via h1 (ih _ _ _)) => h2
        exact FrC.ok h2
    · frc_leaf

/-! ### expressions -/

theorem Expr.eval_frc (E) (fuel : Nat) : ∀ e s, FrC E s.storage.vals.size (Expr.eval fuel s e) := by
  intro e
  induction e with
  | term r => intro s; exact FrC.ok rfl
  | not a iha =>
    intro s
    unfold Expr.eval
    frc_bind (iha s) => h1
    exact FrC.ok h1
  | and a b iha ihb =>
    intro s
    unfold Expr.eval
    frc_bind (iha s) => h1
    frc_bind (FrC.via h1 (ihb _)) => h2
    exact FrC.via h2 (applyAnd_frc E ..)
  | or a b iha ihb =>
    intro s
    unfold Expr.eval
    frc_bind (iha s) => h1
    frc_bind (FrC.via h1 (ihb _)) => h2
    exact FrC.via h2 (applyOr_frc E ..)
  | xor a b iha ihb =>
    intro s
    unfold Expr.eval
    frc_bind (iha s) => h1
    frc_bind (FrC.via h1 (ihb _)) => h2
    exact FrC.via h2 (applyXor_frc E ..)

theorem PV.eval_frc (E) (fuel : Nat) (s : St) (v : PV) : FrC E s.storage.vals.size (PV.eval fuel s v) := by
  cases v with
  | ref r => exact FrC.ok rfl
  | expr e => exact Expr.eval_frc E fuel e s

/-! ### the frame lemmas in hypothesis form

`op_cap`: a successful call leaves the capacity as it was;
`op_cap_err`: so does a failing call (the state carried by the fault). -/

theorem FrC.of_ok_only {α : Type} {c : Nat} {x : Res (St × α)}
    (h : ∀ s' r, x = .ok (s', r) → s'.storage.vals.size = c) : FrC False c x := by
  cases x with
  | error e => obtain ⟨e, s'⟩ := e; exact fun h => h.elim
  | ok p => obtain ⟨s', r⟩ := p; exact h s' r rfl

theorem FrC.intro {α : Type} {c : Nat} {x : Res (St × α)}
    (h : ∀ s' r, x = .ok (s', r) → s'.storage.vals.size = c)
    (h' : ∀ e s', x = .error (e, s') → s'.storage.vals.size = c) : FrC True c x := by
  cases x with
  | error e => obtain ⟨e, s'⟩ := e; exact fun _ => h' e s' rfl
  | ok p => obtain ⟨s', r⟩ := p; exact h s' r rfl

/-- `iteCore` preserves the capacity on success if its recursion parameter does -/
theorem iteCore_cap {rec : Rec}
    (hrec : ∀ s f g h s' r, rec s f g h = .ok (s', r) → s'.storage.vals.size = s.storage.vals.size)
    (s : St) (f g h : Ref) (m : Nat) (s' : St) (r : Ref)
    (hres : iteCore rec s f g h m = .ok (s', r)) : s'.storage.vals.size = s.storage.vals.size :=
  FrC.get_ok (iteCore_frc False (fun s f g h => FrC.of_ok_only (hrec s f g h)) s f g h m) hres

/-- `iteCore` preserves the capacity on failure too if its recursion parameter preserves it on
both outcomes -/
theorem iteCore_cap_err {rec : Rec}
    (hrec : ∀ s f g h s' r, rec s f g h = .ok (s', r) → s'.storage.vals.size = s.storage.vals.size)
    (hrec' : ∀ s f g h e s', rec s f g h = .error (e, s') → s'.storage.vals.size = s.storage.vals.size)
    (s : St) (f g h : Ref) (m : Nat) (e : Fault) (s' : St)
    (hres : iteCore rec s f g h m = .error (e, s')) : s'.storage.vals.size = s.storage.vals.size :=
  FrC.get_err (iteCore_frc True (fun s f g h => FrC.intro (hrec s f g h) (hrec' s f g h)) s f g h m) hres

theorem St.put_cap (s : St) (n : Node) (s' : St) (r : Nat)
    (hres : s.put n = .ok (s', r)) : s'.storage.vals.size = s.storage.vals.size :=
  FrC.get_ok (St.put_frc _ s n) hres
theorem St.put_cap_err (s : St) (n : Node) (e : Fault) (s' : St)
    (hres : s.put n = .error (e, s')) : s'.storage.vals.size = s.storage.vals.size :=
  FrC.get_err (St.put_frc _ s n) hres

theorem mkNodeReg_cap (s : St) (v : Nat) (low high : Ref) (s' : St) (r : Ref)
    (hres : mkNodeReg s v low high = .ok (s', r)) : s'.storage.vals.size = s.storage.vals.size :=
  FrC.get_ok (mkNodeReg_frc _ s v low high) hres
theorem mkNodeReg_cap_err (s : St) (v : Nat) (low high : Ref) (e : Fault) (s' : St)
    (hres : mkNodeReg s v low high = .error (e, s')) : s'.storage.vals.size = s.storage.vals.size :=
  FrC.get_err (mkNodeReg_frc _ s v low high) hres

theorem mkNode_cap (s : St) (v : Nat) (low high : Ref) (s' : St) (r : Ref)
    (hres : mkNode s v low high = .ok (s', r)) : s'.storage.vals.size = s.storage.vals.size :=
  FrC.get_ok (mkNode_frc _ s v low high) hres
theorem mkNode_cap_err (s : St) (v : Nat) (low high : Ref) (e : Fault) (s' : St)
    (hres : mkNode s v low high = .error (e, s')) : s'.storage.vals.size = s.storage.vals.size :=
  FrC.get_err (mkNode_frc _ s v low high) hres

theorem mkVar_cap (s : St) (v : Nat) (s' : St) (r : Ref)
    (hres : mkVar s v = .ok (s', r)) : s'.storage.vals.size = s.storage.vals.size :=
  FrC.get_ok (mkVar_frc _ s v) hres
theorem mkVar_cap_err (s : St) (v : Nat) (e : Fault) (s' : St)
    (hres : mkVar s v = .error (e, s')) : s'.storage.vals.size = s.storage.vals.size :=
  FrC.get_err (mkVar_frc _ s v) hres

theorem applyIte_cap (fuel : Nat) (s : St) (f g h : Ref) (s' : St) (r : Ref)
    (hres : applyIte fuel s f g h = .ok (s', r)) : s'.storage.vals.size = s.storage.vals.size :=
  FrC.get_ok (applyIte_frc _ fuel s f g h) hres
theorem applyIte_cap_err (fuel : Nat) (s : St) (f g h : Ref) (e : Fault) (s' : St)
    (hres : applyIte fuel s f g h = .error (e, s')) : s'.storage.vals.size = s.storage.vals.size :=
  FrC.get_err (applyIte_frc _ fuel s f g h) hres

theorem applyAnd_cap (fuel : Nat) (s : St) (u v : Ref) (s' : St) (r : Ref)
    (hres : applyAnd fuel s u v = .ok (s', r)) : s'.storage.vals.size = s.storage.vals.size :=
  FrC.get_ok (applyAnd_frc _ fuel s u v) hres
theorem applyAnd_cap_err (fuel : Nat) (s : St) (u v : Ref) (e : Fault) (s' : St)
    (hres : applyAnd fuel s u v = .error (e, s')) : s'.storage.vals.size = s.storage.vals.size :=
  FrC.get_err (applyAnd_frc _ fuel s u v) hres

theorem applyOr_cap (fuel : Nat) (s : St) (u v : Ref) (s' : St) (r : Ref)
    (hres : applyOr fuel s u v = .ok (s', r)) : s'.storage.vals.size = s.storage.vals.size :=
  FrC.get_ok (applyOr_frc _ fuel s u v) hres
theorem applyOr_cap_err (fuel : Nat) (s : St) (u v : Ref) (e : Fault) (s' : St)
    (hres : applyOr fuel s u v = .error (e, s')) : s'.storage.vals.size = s.storage.vals.size :=
  FrC.get_err (applyOr_frc _ fuel s u v) hres

theorem applyXor_cap (fuel : Nat) (s : St) (u v : Ref) (s' : St) (r : Ref)
    (hres : applyXor fuel s u v = .ok (s', r)) : s'.storage.vals.size = s.storage.vals.size :=
  FrC.get_ok (applyXor_frc _ fuel s u v) hres
theorem applyXor_cap_err (fuel : Nat) (s : St) (u v : Ref) (e : Fault) (s' : St)
    (hres : applyXor fuel s u v = .error (e, s')) : s'.storage.vals.size = s.storage.vals.size :=
  FrC.get_err (applyXor_frc _ fuel s u v) hres

theorem applyEq_cap (fuel : Nat) (s : St) (u v : Ref) (s' : St) (r : Ref)
    (hres : applyEq fuel s u v = .ok (s', r)) : s'.storage.vals.size = s.storage.vals.size :=
  FrC.get_ok (applyEq_frc _ fuel s u v) hres
theorem applyEq_cap_err (fuel : Nat) (s : St) (u v : Ref) (e : Fault) (s' : St)
    (hres : applyEq fuel s u v = .error (e, s')) : s'.storage.vals.size = s.storage.vals.size :=
  FrC.get_err (applyEq_frc _ fuel s u v) hres

theorem applyImply_cap (fuel : Nat) (s : St) (u v : Ref) (s' : St) (r : Ref)
    (hres : applyImply fuel s u v = .ok (s', r)) : s'.storage.vals.size = s.storage.vals.size :=
  FrC.get_ok (applyImply_frc _ fuel s u v) hres
theorem applyImply_cap_err (fuel : Nat) (s : St) (u v : Ref) (e : Fault) (s' : St)
    (hres : applyImply fuel s u v = .error (e, s')) : s'.storage.vals.size = s.storage.vals.size :=
  FrC.get_err (applyImply_frc _ fuel s u v) hres

theorem andMany_cap (fuel : Nat) (s : St) (acc : Ref) (l : List Ref) (s' : St) (r : Ref)
    (hres : andMany fuel s acc l = .ok (s', r)) : s'.storage.vals.size = s.storage.vals.size :=
  FrC.get_ok (andMany_frc _ fuel l s acc) hres
theorem andMany_cap_err (fuel : Nat) (s : St) (acc : Ref) (l : List Ref) (e : Fault) (s' : St)
    (hres : andMany fuel s acc l = .error (e, s')) : s'.storage.vals.size = s.storage.vals.size :=
  FrC.get_err (andMany_frc _ fuel l s acc) hres

theorem orMany_cap (fuel : Nat) (s : St) (acc : Ref) (l : List Ref) (s' : St) (r : Ref)
    (hres : orMany fuel s acc l = .ok (s', r)) : s'.storage.vals.size = s.storage.vals.size :=
  FrC.get_ok (orMany_frc _ fuel l s acc) hres
theorem orMany_cap_err (fuel : Nat) (s : St) (acc : Ref) (l : List Ref) (e : Fault) (s' : St)
    (hres : orMany fuel s acc l = .error (e, s')) : s'.storage.vals.size = s.storage.vals.size :=
  FrC.get_err (orMany_frc _ fuel l s acc) hres

theorem iteConstant_cap (fuel : Nat) (s : St) (f g h : Ref) (s' : St) (r : Option Bool)
    (hres : iteConstant fuel s f g h = .ok (s', r)) : s'.storage.vals.size = s.storage.vals.size :=
  FrC.get_ok (iteConstant_frc _ fuel s f g h) hres
theorem iteConstant_cap_err (fuel : Nat) (s : St) (f g h : Ref) (e : Fault) (s' : St)
    (hres : iteConstant fuel s f g h = .error (e, s')) : s'.storage.vals.size = s.storage.vals.size :=
  FrC.get_err (iteConstant_frc _ fuel s f g h) hres

theorem isImplies_cap (fuel : Nat) (s : St) (f g : Ref) (s' : St) (r : Bool)
    (hres : isImplies fuel s f g = .ok (s', r)) : s'.storage.vals.size = s.storage.vals.size :=
  FrC.get_ok (isImplies_frc _ fuel s f g) hres
theorem isImplies_cap_err (fuel : Nat) (s : St) (f g : Ref) (e : Fault) (s' : St)
    (hres : isImplies fuel s f g = .error (e, s')) : s'.storage.vals.size = s.storage.vals.size :=
  FrC.get_err (isImplies_frc _ fuel s f g) hres

theorem cubeFold_cap (s : St) (l : List Lit) (cur : Ref) (s' : St) (r : Ref)
    (hres : cubeFold s l cur = .ok (s', r)) : s'.storage.vals.size = s.storage.vals.size :=
  FrC.get_ok (cubeFold_frc _ l s cur) hres
theorem cubeFold_cap_err (s : St) (l : List Lit) (cur : Ref) (e : Fault) (s' : St)
    (hres : cubeFold s l cur = .error (e, s')) : s'.storage.vals.size = s.storage.vals.size :=
  FrC.get_err (cubeFold_frc _ l s cur) hres

theorem cube_cap (s : St) (lits : List Lit) (s' : St) (r : Ref)
    (hres : cube s lits = .ok (s', r)) : s'.storage.vals.size = s.storage.vals.size :=
  FrC.get_ok (cube_frc _ s lits) hres
theorem cube_cap_err (s : St) (lits : List Lit) (e : Fault) (s' : St)
    (hres : cube s lits = .error (e, s')) : s'.storage.vals.size = s.storage.vals.size :=
  FrC.get_err (cube_frc _ s lits) hres

theorem clauseFold_cap (s : St) (l : List Lit) (cur : Ref) (s' : St) (r : Ref)
    (hres : clauseFold s l cur = .ok (s', r)) : s'.storage.vals.size = s.storage.vals.size :=
  FrC.get_ok (clauseFold_frc _ l s cur) hres
theorem clauseFold_cap_err (s : St) (l : List Lit) (cur : Ref) (e : Fault) (s' : St)
    (hres : clauseFold s l cur = .error (e, s')) : s'.storage.vals.size = s.storage.vals.size :=
  FrC.get_err (clauseFold_frc _ l s cur) hres

theorem clause_cap (s : St) (lits : List Lit) (s' : St) (r : Ref)
    (hres : clause s lits = .ok (s', r)) : s'.storage.vals.size = s.storage.vals.size :=
  FrC.get_ok (clause_frc _ s lits) hres
theorem clause_cap_err (s : St) (lits : List Lit) (e : Fault) (s' : St)
    (hres : clause s lits = .error (e, s')) : s'.storage.vals.size = s.storage.vals.size :=
  FrC.get_err (clause_frc _ s lits) hres

theorem substitute_cap (fuel : Nat) (s : St) (f : Ref) (v : Nat) (b : Bool) (memo : SMemo) (s' : St) (r : Ref × SMemo)
    (hres : substitute fuel s f v b memo = .ok (s', r)) : s'.storage.vals.size = s.storage.vals.size :=
  FrC.get_ok (substitute_frc _ fuel s f v b memo) hres
theorem substitute_cap_err (fuel : Nat) (s : St) (f : Ref) (v : Nat) (b : Bool) (memo : SMemo) (e : Fault) (s' : St)
    (hres : substitute fuel s f v b memo = .error (e, s')) : s'.storage.vals.size = s.storage.vals.size :=
  FrC.get_err (substitute_frc _ fuel s f v b memo) hres

theorem substMulti_cap (fuel : Nat) (s : St) (f : Ref) (vals : Vals) (memo : SMemo) (s' : St) (r : Ref × SMemo)
    (hres : substMulti fuel s f vals memo = .ok (s', r)) : s'.storage.vals.size = s.storage.vals.size :=
  FrC.get_ok (substMulti_frc _ fuel s f vals memo) hres
theorem substMulti_cap_err (fuel : Nat) (s : St) (f : Ref) (vals : Vals) (memo : SMemo) (e : Fault) (s' : St)
    (hres : substMulti fuel s f vals memo = .error (e, s')) : s'.storage.vals.size = s.storage.vals.size :=
  FrC.get_err (substMulti_frc _ fuel s f vals memo) hres

theorem cofCube_cap (fuel : Nat) (s : St) (f : Ref) (vals : Vals) (memo : KMemo) (s' : St) (r : Ref × KMemo)
    (hres : cofCube fuel s f vals memo = .ok (s', r)) : s'.storage.vals.size = s.storage.vals.size :=
  FrC.get_ok (cofCube_frc _ fuel s f vals memo) hres
theorem cofCube_cap_err (fuel : Nat) (s : St) (f : Ref) (vals : Vals) (memo : KMemo) (e : Fault) (s' : St)
    (hres : cofCube fuel s f vals memo = .error (e, s')) : s'.storage.vals.size = s.storage.vals.size :=
  FrC.get_err (cofCube_frc _ fuel s f vals memo) hres

theorem compose_cap (fuel : Nat) (s : St) (f : Ref) (v : Nat) (g : Ref) (memo : CCache) (s' : St) (r : Ref × CCache)
    (hres : compose fuel s f v g memo = .ok (s', r)) : s'.storage.vals.size = s.storage.vals.size :=
  FrC.get_ok (compose_frc _ fuel s f v g memo) hres
theorem compose_cap_err (fuel : Nat) (s : St) (f : Ref) (v : Nat) (g : Ref) (memo : CCache) (e : Fault) (s' : St)
    (hres : compose fuel s f v g memo = .error (e, s')) : s'.storage.vals.size = s.storage.vals.size :=
  FrC.get_err (compose_frc _ fuel s f v g memo) hres

theorem composeTop_cap (fuel : Nat) (s : St) (f : Ref) (v : Nat) (g : Ref) (s' : St) (r : Ref)
    (hres : composeTop fuel s f v g = .ok (s', r)) : s'.storage.vals.size = s.storage.vals.size :=
  FrC.get_ok (composeTop_frc _ fuel s f v g) hres
theorem composeTop_cap_err (fuel : Nat) (s : St) (f : Ref) (v : Nat) (g : Ref) (e : Fault) (s' : St)
    (hres : composeTop fuel s f v g = .error (e, s')) : s'.storage.vals.size = s.storage.vals.size :=
  FrC.get_err (composeTop_frc _ fuel s f v g) hres

theorem constrain_cap (fuel : Nat) (s : St) (f g : Ref) (s' : St) (r : Ref)
    (hres : constrain fuel s f g = .ok (s', r)) : s'.storage.vals.size = s.storage.vals.size :=
  FrC.get_ok (constrain_frc _ fuel s f g) hres
theorem constrain_cap_err (fuel : Nat) (s : St) (f g : Ref) (e : Fault) (s' : St)
    (hres : constrain fuel s f g = .error (e, s')) : s'.storage.vals.size = s.storage.vals.size :=
  FrC.get_err (constrain_frc _ fuel s f g) hres

theorem restrict_cap (fuel : Nat) (s : St) (f g : Ref) (s' : St) (r : Ref)
    (hres : restrict fuel s f g = .ok (s', r)) : s'.storage.vals.size = s.storage.vals.size :=
  FrC.get_ok (restrict_frc _ fuel s f g) hres
theorem restrict_cap_err (fuel : Nat) (s : St) (f g : Ref) (e : Fault) (s' : St)
    (hres : restrict fuel s f g = .error (e, s')) : s'.storage.vals.size = s.storage.vals.size :=
  FrC.get_err (restrict_frc _ fuel s f g) hres

theorem Expr.eval_cap (fuel : Nat) (s : St) (x : Expr) (s' : St) (r : Ref)
    (hres : Expr.eval fuel s x = .ok (s', r)) : s'.storage.vals.size = s.storage.vals.size :=
  FrC.get_ok (Expr.eval_frc _ fuel x s) hres
theorem Expr.eval_cap_err (fuel : Nat) (s : St) (x : Expr) (e : Fault) (s' : St)
    (hres : Expr.eval fuel s x = .error (e, s')) : s'.storage.vals.size = s.storage.vals.size :=
  FrC.get_err (Expr.eval_frc _ fuel x s) hres

theorem PV.eval_cap (fuel : Nat) (s : St) (v : PV) (s' : St) (r : Ref)
    (hres : PV.eval fuel s v = .ok (s', r)) : s'.storage.vals.size = s.storage.vals.size :=
  FrC.get_ok (PV.eval_frc _ fuel s v) hres
theorem PV.eval_cap_err (fuel : Nat) (s : St) (v : PV) (e : Fault) (s' : St)
    (hres : PV.eval fuel s v = .error (e, s')) : s'.storage.vals.size = s.storage.vals.size :=
  FrC.get_err (PV.eval_frc _ fuel s v) hres

/-! ### size -/

theorem size_storage_cap (s : St) (f : Ref) : (size s f).1.storage = s.storage := by
  unfold size; cases (s.sizeCache.get f).2 <;> rfl

theorem size_cap (s : St) (f : Ref) : (size s f).1.storage.vals.size = s.storage.vals.size := by
  rw [size_storage_cap]

/-! ### collect_garbage -/

theorem skipDead_cap (mark : Array Bool) : ∀ (fuel : Nat) (t : Table Node) (idx : Nat) (t' : Table Node) (j : Nat),
    skipDead mark fuel t idx = .ok (t', j) → t'.vals.size = t.vals.size := by
  intro fuel
  induction fuel with
  | zero => intro t idx t' j h; cases h
  | succ fuel ih =>
    intro t idx t' j h
    unfold skipDead at h
    split at h
    · cases hd : t.drop idx with
      | error e => rw [hd] at h; cases h
      | ok t1 =>
        rw [hd] at h
        exact (ih _ _ _ _ h).trans (Table.drop_cap hd)
    · cases h; rfl

theorem relink_cap (mark : Array Bool) : ∀ (fuel : Nat) (t : Table Node) (prev : Nat) (t' : Table Node),
    relink mark fuel t prev = .ok t' → t'.vals.size = t.vals.size := by
  intro fuel
  induction fuel with
  | zero => intro t prev t' h; cases h
  | succ fuel ih =>
    intro t prev t' h
    unfold relink at h
    split at h
    · cases h; rfl
    cases hs : skipDead mark fuel t (rd t.nxs prev) with
    | error e => rw [hs] at h; cases h
    | ok p =>
      obtain ⟨t1, cur⟩ := p
      rw [hs] at h
      dsimp only at h
      have h1 := skipDead_cap mark _ _ _ _ _ hs
      have h2 := ih _ _ _ h
      rw [h2, ← h1]
      split <;> rfl

theorem sweepBucket_cap (mark : Array Bool) (fuel : Nat) (t : Table Node) (b : Nat) (t' : Table Node)
    (h : sweepBucket mark fuel t b = .ok t') : t'.vals.size = t.vals.size := by
  unfold sweepBucket at h
  dsimp only at h
  split at h
  · cases h; rfl
  cases hs : skipDead mark fuel t (rd t.buckets b) with
  | error e => rw [hs] at h; cases h
  | ok p =>
    obtain ⟨t1, idx⟩ := p
    rw [hs] at h
    dsimp only at h
    have h1 : t1.vals.size = t.vals.size := skipDead_cap mark _ _ _ _ _ hs
    have h2 : t'.vals.size = (t1.setBucket b idx).vals.size := relink_cap mark _ _ _ _ h
    exact h2.trans h1

theorem sweepFrom_cap (mark : Array Bool) (fuel : Nat) : ∀ (n b : Nat) (t t' : Table Node),
    sweepFrom mark fuel n b t = .ok t' → t'.vals.size = t.vals.size := by
  intro n
  induction n with
  | zero => intro b t t' h; cases h; rfl
  | succ n ih =>
    intro b t t' h
    unfold sweepFrom at h
    cases hs : sweepBucket mark fuel t b with
    | error e => rw [hs] at h; cases h
    | ok t1 =>
      rw [hs] at h
      exact (ih _ _ _ h).trans (sweepBucket_cap mark fuel t b t1 hs)

theorem collectGarbage_cap (s : St) (roots : List Ref) (s' : St)
    (hres : collectGarbage s roots = .ok s') : s'.storage.vals.size = s.storage.vals.size := by
  unfold collectGarbage at hres
  dsimp only at hres
  split at hres
  · cases hres
  · cases hres
    exact sweepFrom_cap _ _ _ _ _ _ (by assumption)

theorem collectGarbage_cap_err (s : St) (roots : List Ref) (e : Fault) (s' : St)
    (hres : collectGarbage s roots = .error (e, s')) : s'.storage.vals.size = s.storage.vals.size := by
  unfold collectGarbage at hres
  dsimp only at hres
  split at hres
  · cases hres; rfl
  · cases hres

theorem collectGarbageHeld_cap (which : Nat) (s : St) (s' : St)
    (hres : collectGarbageHeld which s = .ok s') : s'.storage.vals.size = s.storage.vals.size := by
  unfold collectGarbageHeld at hres
  split at hres
  · cases hres
  · cases hres
  · dsimp only at hres
    split at hres
    · cases hres; rfl
    · cases hres

theorem collectGarbageHeld_cap_err (which : Nat) (s : St) (e : Fault) (s' : St)
    (hres : collectGarbageHeld which s = .error (e, s')) : s'.storage.vals.size = s.storage.vals.size := by
  unfold collectGarbageHeld at hres
  split at hres
  · cases hres; rfl
  · cases hres; rfl
  · dsimp only at hres
    split at hres
    · cases hres
    · cases hres; rfl

end P

#print axioms P.mkNode_cap
#print axioms P.iteCore_cap
#print axioms P.applyIte_cap
#print axioms P.applyIte_cap_err
#print axioms P.iteConstant_cap
#print axioms P.compose_cap
#print axioms P.restrict_cap
#print axioms P.constrain_cap_err
#print axioms P.cofCube_cap
#print axioms P.substMulti_cap
#print axioms P.cube_cap
#print axioms P.Expr.eval_cap
#print axioms P.PV.eval_cap_err
#print axioms P.Table.put_cap
#print axioms P.size_cap
#print axioms P.collectGarbage_cap
#print axioms P.collectGarbage_cap_err

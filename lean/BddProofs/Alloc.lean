import BddProofs.Store
import BddProofs.HighWater
import BddProofs.Ite
/-! C06 on the real array table `P.Table` and the manager state `P.St`: storage reuse (the lowest
free cell is taken, the table grows by one cell only when `1..=last_index` is full), the
high-water mark `last_index` is the running maximum of the live count `real_size`, exhaustion is
reported exactly when every cell is occupied, and an insertion never overwrites a live cell. -/
namespace P
open Arr S

set_option linter.unusedSectionVars false

/-! ### counting -/

/-- nothing occupied at or above `n`: counting further up adds nothing -/
theorem countOcc_above {occ : Nat → Bool} {n : Nat} (h : ∀ j, n ≤ j → occ j = false) :
    ∀ m, n ≤ m → Cn.countOcc occ m = Cn.countOcc occ n := by
  intro m
  induction m with
  | zero =>
    intro hm
    have : n = 0 := by omega
    subst this; rfl
  | succ m ih =>
    intro hm
    by_cases e : n = m + 1
    · subst e; rfl
    · rw [Cn.countOcc_succ, ih (by omega), h m (by omega)]; simp

section table
variable {α : Type} [Inhabited α] [DecidableEq α] [MyHash α]

/-- the live count, read on the cells `0 ..= last_index` (the function view's `CountOk`) -/
theorem Table.countOk {t : Table α} {hash : α → Nat} {chains} (hI : TInv hash t.toTab chains)
    (hrs : RS t) : t.realSize + 1 = Cn.countOcc (rd t.occs) (t.lastIndex + 1) := by
  unfold RS at hrs
  rw [hrs]
  have habove : ∀ j, t.lastIndex < j → rd t.occs j = false := hI.above
  have hlt : t.lastIndex < t.vals.size := hI.lastLt
  exact countOcc_above (fun j hj => habove j (by omega)) _ (by omega)

theorem Table.countOk_toTab {t : Table α} {hash : α → Nat} {chains} (hI : TInv hash t.toTab chains)
    (hrs : RS t) : CountOk t.toTab := Table.countOk hI hrs

/-! ### 2. the live count never exceeds the high-water mark -/

/-- `real_size ≤ last_index` -/
theorem Table.realSize_le_lastIndex {t : Table α} {hash : α → Nat} {chains}
    (hI : TInv hash t.toTab chains) (hrs : RS t) : t.realSize ≤ t.lastIndex := by
  have := Table.countOk hI hrs
  have := S.countOcc_le (rd t.occs) (t.lastIndex + 1)
  omega

/-- `real_size = last_index` exactly when every cell `1 ..= last_index` is occupied -/
theorem Table.realSize_eq_lastIndex_iff {t : Table α} {hash : α → Nat} {chains}
    (hI : TInv hash t.toTab chains) (hrs : RS t) :
    t.realSize = t.lastIndex ↔ ∀ j, 1 ≤ j → j ≤ t.lastIndex → rd t.occs j = true := by
  have hc := Table.countOk hI hrs
  have h0occ : rd t.occs 0 = true := hI.occ01.1
  constructor
  · intro he j h1 h2
    apply Classical.byContradiction
    intro hn
    have hf : rd t.occs j = false := by simpa using hn
    have := S.countOcc_lt_of_free (occ := rd t.occs) (n := t.lastIndex + 1) (i := j) (by omega) hf
    omega
  · intro hall
    have := S.countOcc_full (occ := rd t.occs) (n := t.lastIndex + 1) (fun j hj => by
      by_cases h0 : j = 0
      · subst h0; exact h0occ
      · exact hall j (by omega) (by omega))
    omega

/-! ### 1. a fresh insertion reuses the lowest free cell -/

theorem Table.putLoop_cases' (t : Table α) (v : α) : ∀ (fuel idx : Nat) {t' i},
    t.putLoop v fuel idx = .ok (t', i) →
    t' = t ∨ ∃ t1, t.add v = .ok (t1, i) ∧ t'.occs = t1.occs ∧ t'.vals = t1.vals ∧
      t'.lastIndex = t1.lastIndex ∧ t'.minFree = t1.minFree ∧ t'.realSize = t1.realSize := by
  intro fuel
  induction fuel with
  | zero => intro idx t' i h; simp [Table.putLoop] at h
  | succ fuel ih =>
    intro idx t' i h
    unfold Table.putLoop at h
    by_cases h0 : idx = 0
    · rw [if_pos h0] at h; cases h
    rw [if_neg h0] at h
    by_cases heq : rd t.vals idx = v
    · rw [if_pos heq] at h
      simp only [Except.ok.injEq, Prod.mk.injEq] at h
      exact Or.inl h.1.symm
    · rw [if_neg heq] at h
      by_cases hz : rd t.nxs idx = 0
      · rw [if_pos hz] at h
        cases ha : t.add v with
        | error e => rw [ha] at h; cases h
        | ok p =>
          obtain ⟨t1, k⟩ := p
          rw [ha] at h
          simp only [Except.ok.injEq, Prod.mk.injEq] at h
          obtain ⟨rfl, rfl⟩ := h
          exact Or.inr ⟨t1, rfl, rfl, rfl, rfl, rfl, rfl⟩
      · rw [if_neg hz] at h
        exact ih _ h

/-- refinement of `Table.put_cases`: the table returned by a successful `put` is the old one, or
the one returned by `add` with only a `next` link or a bucket head rewritten -/
theorem Table.put_cases' {t : Table α} {v : α} {t' i} (h : t.put v = .ok (t', i)) :
    t' = t ∨ ∃ t1, t.add v = .ok (t1, i) ∧ t'.occs = t1.occs ∧ t'.vals = t1.vals ∧
      t'.lastIndex = t1.lastIndex ∧ t'.minFree = t1.minFree ∧ t'.realSize = t1.realSize := by
  unfold Table.put at h
  simp only at h
  by_cases hz : rd t.buckets (t.bucketIndex v) = 0
  · rw [if_pos hz] at h
    cases ha : t.add v with
    | error e => rw [ha] at h; cases h
    | ok p =>
      obtain ⟨t1, k⟩ := p
      rw [ha] at h
      simp only [Except.ok.injEq, Prod.mk.injEq] at h
      obtain ⟨rfl, rfl⟩ := h
      exact Or.inr ⟨t1, rfl, rfl, rfl, rfl, rfl, rfl⟩
  · rw [if_neg hz] at h
    exact Table.putLoop_cases' t v _ _ h

/-- a successful `put` changed the table exactly when the returned cell was free before -/
theorem Table.put_changed_iff {t : Table α} (hw : t.Wf) {chains} (hI : TInv t.bhash t.toTab chains)
    {v : α} {t' i} (h : t.put v = .ok (t', i)) : t' ≠ t ↔ rd t.occs i = false := by
  obtain ⟨-, -, -, -, hcase⟩ := Table.put_spec hw hI h
  rcases hcase with ⟨-, ho, -, e⟩ | ⟨-, -, hfree, hocc, -, -⟩
  · constructor
    · intro hne; exact absurd e hne
    · intro hf; rw [hf] at ho; cases ho
  · refine ⟨fun _ => hfree, fun _ e => ?_⟩
    rw [e] at hocc
    have := congrFun hocc i
    simp [hfree] at this

/-- **storage reuse** (C06): a `put` that inserts takes the LOWEST free cell `i ≥ 2` (every cell
`1 .. i-1` is occupied); the high-water mark moves only if `i` lies above it, and then by exactly
one cell (so the table grows only when every cell `1 ..= last_index` is occupied) -/
theorem Table.put_fresh {t : Table α} (hw : t.Wf) {chains} (hI : TInv t.bhash t.toTab chains)
    {v : α} {t' i} (h : t.put v = .ok (t', i)) (hne : t' ≠ t) :
    2 ≤ i ∧ i < t.vals.size ∧ rd t.occs i = false ∧
    (∀ j, 1 ≤ j → j < i → rd t.occs j = true) ∧
    t'.lastIndex = (if i > t.lastIndex then i else t.lastIndex) ∧
    (t.lastIndex < i → i = t.lastIndex + 1) ∧
    t'.minFree = i + 1 ∧ t'.realSize = t.realSize + 1 := by
  rcases Table.put_cases' h with e | ⟨t1, ha, -, -, hl, hm, hr⟩
  · exact absurd e hne
  obtain ⟨hsa, -⟩ := add_sim_ok t hw v ha
  obtain ⟨a1, a2, a3, -, -, -, -, -, -, a10, a11, a12, a13⟩ := S.add_spec hI hsa
  refine ⟨a1, a2, a3, a13, ?_, a12, ?_, ?_⟩
  · rw [hl]; exact a11
  · rw [hm]; exact a10
  · rw [hr]; exact (Table.add_realSize ha).1

/-- the same, with "the value was not present" expressed as "the returned cell was free" -/
theorem Table.put_fresh' {t : Table α} (hw : t.Wf) {chains} (hI : TInv t.bhash t.toTab chains)
    {v : α} {t' i} (h : t.put v = .ok (t', i)) (hfree : rd t.occs i = false) :
    2 ≤ i ∧ i < t.vals.size ∧
    (∀ j, 1 ≤ j → j < i → rd t.occs j = true) ∧
    t'.lastIndex = (if i > t.lastIndex then i else t.lastIndex) ∧
    (t.lastIndex < i → i = t.lastIndex + 1) ∧
    t'.minFree = i + 1 ∧ t'.realSize = t.realSize + 1 := by
  obtain ⟨a1, a2, -, a4, a5, a6, a7, a8⟩ :=
    Table.put_fresh hw hI h ((Table.put_changed_iff hw hI h).mpr hfree)
  exact ⟨a1, a2, a4, a5, a6, a7, a8⟩

/-- a `put` of a value that no live cell holds is a fresh insertion -/
theorem Table.put_absent_free {t : Table α} (hw : t.Wf) {chains} (hI : TInv t.bhash t.toTab chains)
    {v : α} {t' i} (h : t.put v = .ok (t', i))
    (habs : ∀ j, 2 ≤ j → rd t.occs j = true → rd t.vals j ≠ v) : rd t.occs i = false := by
  obtain ⟨-, -, -, -, hcase⟩ := Table.put_spec hw hI h
  rcases hcase with ⟨h2, ho, hv, -⟩ | ⟨-, -, hfree, -⟩
  · exact absurd hv (habs i h2 ho)
  · exact hfree

/-- the invariants used here are kept by a successful `put` -/
theorem Table.put_inv {t : Table α} (hw : t.Wf) {chains} (hI : TInv t.bhash t.toTab chains)
    (hrs : RS t) {v : α} {t' i} (h : t.put v = .ok (t', i)) :
    t'.Wf ∧ (∃ chains', TInv t'.bhash t'.toTab chains') ∧ RS t' := by
  obtain ⟨hw', -, -, -, hcase⟩ := Table.put_spec hw hI h
  refine ⟨hw', ?_, Table.put_RS hw hI hrs h⟩
  rcases hcase with ⟨-, -, -, e⟩ | ⟨-, -, -, -, -, hI'⟩
  · rw [e]; exact ⟨chains, hI⟩
  · exact hI'

/-! ### 3. the high-water mark is the running maximum of the live count -/

/-- **high-water mark** (C06): after every successful `put`, `last_index` is the maximum of its
old value and the new live count: it moves exactly when the new count exceeds every earlier one -/
theorem Table.put_highwater {t : Table α} (hw : t.Wf) {chains} (hI : TInv t.bhash t.toTab chains)
    (hrs : RS t) {v : α} {t' i} (h : t.put v = .ok (t', i)) :
    t'.lastIndex = max t.lastIndex t'.realSize := by
  have hle := Table.realSize_le_lastIndex hI hrs
  by_cases hne : t' = t
  · rw [hne]; omega
  obtain ⟨-, _, a3, a4, a5, a6, -, a8⟩ := Table.put_fresh hw hI h hne
  rw [a5, a8]
  by_cases hlt : t.lastIndex < i
  · rw [if_pos hlt]
    have hi := a6 hlt
    have : t.realSize = t.lastIndex :=
      (Table.realSize_eq_lastIndex_iff hI hrs).mpr (fun j h1 h2 => a4 j h1 (by omega))
    omega
  · rw [if_neg hlt]
    have hi2 : 2 ≤ i := (Table.put_fresh hw hI h hne).1
    have : t.realSize ≠ t.lastIndex := fun e => by
      have := (Table.realSize_eq_lastIndex_iff hI hrs).mp e i (by omega) (by omega)
      rw [a3] at this; cases this
    omega

/-- maximum of a list of numbers (`0` for the empty list) -/
def peakOf : List Nat → Nat
  | [] => 0
  | x :: l => max x (peakOf l)

/-- the induction step over any history: if the mark is the peak so far, after a `put` it is the
peak including the new live count (and the invariants hold again, `Table.put_inv`) -/
theorem Table.put_highwater_step {t : Table α} (hw : t.Wf) {chains} (hI : TInv t.bhash t.toTab chains)
    (hrs : RS t) {peak : Nat} (hp : t.lastIndex = peak) {v : α} {t' i} (h : t.put v = .ok (t', i)) :
    t'.lastIndex = max peak t'.realSize ∧ t'.realSize ≤ t'.lastIndex := by
  have := Table.put_highwater hw hI hrs h
  omega

/-- `drop` (what the collector uses to free a cell) leaves the mark alone and lowers the live
count by one: the mark never decreases -/
theorem Table.drop_lastIndex {t t' : Table α} {i : Nat} (h : t.drop i = .ok t') :
    t'.lastIndex = t.lastIndex ∧ t'.realSize + 1 = t.realSize ∧ t'.vals = t.vals := by
  unfold Table.drop at h
  by_cases h0 : i = 0
  · rw [if_pos h0] at h; cases h
  rw [if_neg h0] at h
  by_cases hr : t.realSize = 0
  · rw [if_pos hr] at h; cases h
  rw [if_neg hr] at h
  simp only [Except.ok.injEq] at h
  subst h
  exact ⟨rfl, by simp only; omega, rfl⟩

/-- histories of a table: it starts with mark = live count (a new manager: both are 1), and every
step is a successful `put` or any step that keeps the mark and re-establishes the invariants (a
garbage collection: `drop`s and relinks); the list records the live count after each step, latest
first -/
inductive Table.Hist : Table α → List Nat → Prop
  | init {t : Table α} {chains} : t.Wf → TInv t.bhash t.toTab chains → RS t →
      t.lastIndex = t.realSize → Table.Hist t [t.realSize]
  | put {t t' : Table α} {l v i} : Table.Hist t l → t.put v = .ok (t', i) →
      Table.Hist t' (t'.realSize :: l)
  | shrink {t t' : Table α} {l chains} : Table.Hist t l → t'.Wf → TInv t'.bhash t'.toTab chains →
      RS t' → t'.lastIndex = t.lastIndex → Table.Hist t' (t'.realSize :: l)

/-- **the high-water mark equals the peak live count of the whole history** -/
theorem Table.Hist.highwater {t : Table α} {l} (h : Table.Hist t l) :
    (t.Wf ∧ (∃ chains, TInv t.bhash t.toTab chains) ∧ RS t) ∧ t.lastIndex = peakOf l := by
  induction h with
  | @init t chains hw hI hrs he =>
    refine ⟨⟨hw, ⟨chains, hI⟩, hrs⟩, ?_⟩
    show t.lastIndex = max t.realSize 0
    omega
  | @put t t' l v i _ hp ih =>
    obtain ⟨⟨hw, ⟨chains, hI⟩, hrs⟩, hpk⟩ := ih
    refine ⟨Table.put_inv hw hI hrs hp, ?_⟩
    have := (Table.put_highwater_step hw hI hrs hpk hp).1
    show t'.lastIndex = max t'.realSize (peakOf l)
    omega
  | @shrink t t' l chains _ hw' hI' hrs' hl ih =>
    obtain ⟨-, hpk⟩ := ih
    refine ⟨⟨hw', ⟨chains, hI'⟩, hrs'⟩, ?_⟩
    have := Table.realSize_le_lastIndex hI' hrs'
    show t'.lastIndex = max t'.realSize (peakOf l)
    omega

/-! ### 4. exhaustion -/

theorem Table.putLoop_err_add (t : Table α) (v : α) : ∀ (l : List Nat) (idx fuel : Nat) {e},
    Chain t.toTab.nx idx l → l ≠ [] → l.length ≤ fuel →
    t.putLoop v fuel idx = .error e → t.add v = .error e := by
  intro l
  induction l with
  | nil => intro idx fuel e _ hne; exact absurd rfl hne
  | cons a tl ih =>
    intro idx fuel e hc _ hlen h
    cases hc with
    | @cons _ _ h0 hc' =>
    cases fuel with
    | zero => simp at hlen
    | succ fuel =>
    unfold Table.putLoop at h
    rw [if_neg h0] at h
    have hn : t.toTab.nx a = rd t.nxs a := rfl
    by_cases heq : rd t.vals a = v
    · rw [if_pos heq] at h; cases h
    · rw [if_neg heq] at h
      by_cases hz : rd t.nxs a = 0
      · rw [if_pos hz] at h
        cases ha : t.add v with
        | error e' => rw [ha] at h; cases h; rfl
        | ok p => obtain ⟨t1, k⟩ := p; rw [ha] at h; cases h
      · rw [if_neg hz] at h
        rw [hn] at hc'
        have hne : tl ≠ [] := by
          intro e0
          exact hz ((Chain.head_zero_iff hc').mpr e0)
        exact ih _ _ hc' hne (by simp only [List.length_cons] at hlen; omega) h

/-- a failing `put` is a failing `add` (the chain walk itself never fails) -/
theorem Table.put_err_add {t : Table α} (hw : t.Wf) {chains} (hI : TInv t.bhash t.toTab chains)
    {v : α} {e} (h : t.put v = .error e) : t.add v = .error e := by
  have hb : t.bhash v < t.toTab.nb := hw.mask _
  unfold Table.put at h
  simp only at h
  by_cases hz : rd t.buckets (t.bucketIndex v) = 0
  · rw [if_pos hz] at h
    cases ha : t.add v with
    | error e' => rw [ha] at h; cases h; rfl
    | ok p => obtain ⟨t1, k⟩ := p; rw [ha] at h; cases h
  · rw [if_neg hz] at h
    have hch := hI.chain _ hb
    have hbk : t.toTab.bucket (t.bhash v) = rd t.buckets (t.bucketIndex v) := rfl
    rw [hbk] at hch
    have hne : chains (t.bhash v) ≠ [] := fun e0 => hz ((Chain.head_zero_iff hch).mpr e0)
    exact Table.putLoop_err_add t v _ _ _ hch hne (hI.chain_len hb) h

theorem Table.add_err_alloc {t : Table α} {v : α} {e} (h : t.add v = .error e) :
    t.alloc = .error e := by
  unfold Table.add at h
  cases ha : t.alloc with
  | error e' => rw [ha] at h; cases h; rfl
  | ok p => obtain ⟨t1, k⟩ := p; rw [ha] at h; cases h

/-- **exhaustion** (C06): `put` fails only when every cell `1 .. capacity-1` is occupied (the live
count is `capacity - 1`), and the failure is "Storage is full" -/
theorem Table.put_full_iff_occupied {t : Table α} (hw : t.Wf) {chains}
    (hI : TInv t.bhash t.toTab chains) (hrs : RS t) {v : α} {e} (h : t.put v = .error e) :
    (∀ j, 1 ≤ j → j < t.vals.size → rd t.occs j = true) ∧ t.realSize + 1 = t.vals.size ∧
    e = .storageFull := by
  have ha := Table.add_err_alloc (Table.put_err_add hw hI h)
  obtain ⟨hs, he⟩ := alloc_sim_err t ha
  have hall : ∀ j, 1 ≤ j → j < t.vals.size → rd t.occs j = true :=
    (S.alloc_full_iff hI).mp ⟨e, hs⟩
  have h0occ : rd t.occs 0 = true := hI.occ01.1
  refine ⟨hall, ?_, he⟩
  unfold RS at hrs
  rw [hrs]
  exact S.countOcc_full (fun j hj => by
    by_cases h0 : j = 0
    · subst h0; exact h0occ
    · exact hall j (by omega) hj)

/-- conversely: with every cell occupied, a `put` of a value that no live cell holds fails (a
`put` of a value already present succeeds even then, see `Table.put_spec`) -/
theorem Table.put_full_of_occupied {t : Table α} (hw : t.Wf) {chains}
    (hI : TInv t.bhash t.toTab chains) {v : α}
    (hall : ∀ j, 1 ≤ j → j < t.vals.size → rd t.occs j = true)
    (habs : ∀ j, 2 ≤ j → rd t.occs j = true → rd t.vals j ≠ v) :
    t.put v = .error .storageFull := by
  cases hp : t.put v with
  | error e => rw [Table.put_full hw hI hp]
  | ok p =>
    obtain ⟨t', i⟩ := p
    exfalso
    have hfree := Table.put_absent_free hw hI hp habs
    obtain ⟨a1, a2, -⟩ := Table.put_fresh' hw hI hp hfree
    have := hall i (by omega) a2
    rw [hfree] at this; cases this

/-- **no premature exhaustion** (C06): with at least one free cell besides the sentinel
(`real_size < capacity - 1`), `put` succeeds -/
theorem Table.put_fits {t : Table α} (hw : t.Wf) {chains} (hI : TInv t.bhash t.toTab chains)
    (hrs : RS t) (hroom : t.realSize + 1 < t.vals.size) (v : α) :
    ∃ t' i, t.put v = .ok (t', i) := by
  cases hp : t.put v with
  | ok p => exact ⟨p.1, p.2, rfl⟩
  | error e =>
    have := (Table.put_full_iff_occupied hw hI hrs hp).2.1
    omega

/-! ### 5. no live cell is overwritten -/

/-- every cell occupied before a successful `put` is still occupied afterwards, with its value -/
theorem Table.put_no_overwrite {t : Table α} (hw : t.Wf) {chains} (hI : TInv t.bhash t.toTab chains)
    {v : α} {t' i} (h : t.put v = .ok (t', i)) :
    ∀ j, rd t.occs j = true → rd t'.occs j = true ∧ rd t'.vals j = rd t.vals j := by
  obtain ⟨-, -, -, -, hcase⟩ := Table.put_spec hw hI h
  intro j hj
  rcases hcase with ⟨-, -, -, e⟩ | ⟨-, -, hfree, hocc, hval, -⟩
  · rw [e]; exact ⟨hj, rfl⟩
  · have hji : j ≠ i := by
      intro e; rw [e, hfree] at hj; cases hj
    rw [hocc, hval]
    exact ⟨by simp only [hji, ↓reduceIte]; exact hj, by simp only [hji, ↓reduceIte]⟩

end table

/-! ### 6. the manager state -/

theorem St.put_ok {s : St} {n : Node} {s' i} (h : s.put n = .ok (s', i)) :
    s.storage.put n = .ok (s'.storage, i) ∧ s'.cache = s.cache ∧ s'.sizeCache = s.sizeCache := by
  unfold St.put at h
  cases hp : s.storage.put n with
  | error e => rw [hp] at h; cases h
  | ok p =>
    obtain ⟨t, k⟩ := p
    rw [hp] at h
    simp only [Except.ok.injEq, Prod.mk.injEq] at h
    obtain ⟨rfl, rfl⟩ := h
    exact ⟨rfl, rfl, rfl⟩

theorem St.put_err {s : St} {n : Node} {e s'} (h : s.put n = .error (e, s')) :
    s.storage.put n = .error e ∧ s' = s := by
  unfold St.put at h
  cases hp : s.storage.put n with
  | ok p => obtain ⟨t, k⟩ := p; rw [hp] at h; cases h
  | error e' =>
    rw [hp] at h
    simp only [Except.error.injEq, Prod.mk.injEq] at h
    obtain ⟨rfl, rfl⟩ := h
    exact ⟨rfl, rfl⟩

theorem good_realSize_le {s : St} (hg : Good s) : s.storage.realSize ≤ s.storage.lastIndex := by
  obtain ⟨ch, hI⟩ := hg.tinv
  exact Table.realSize_le_lastIndex hI hg.rs

theorem good_realSize_eq_iff {s : St} (hg : Good s) :
    s.storage.realSize = s.storage.lastIndex ↔
      ∀ j, 1 ≤ j → j ≤ s.storage.lastIndex → rd s.storage.occs j = true := by
  obtain ⟨ch, hI⟩ := hg.tinv
  exact Table.realSize_eq_lastIndex_iff hI hg.rs

/-- a `put` of a node that is not stored returns a cell that was free -/
theorem St.put_absent_free {s : St} (hg : Good s) {n : Node} {s' i} (h : s.put n = .ok (s', i))
    (habs : ∀ j, s.nodes j ≠ some n) : rd s.storage.occs i = false := by
  obtain ⟨ch, hI⟩ := hg.tinv
  apply Table.put_absent_free hg.wf hI (St.put_ok h).1
  intro j h2 ho hv
  exact habs j (by rw [St.nodes_of h2 ho, hv])

/-- storage reuse on the manager: a `put` that inserts (the returned cell was free; equivalently
`s'.storage ≠ s.storage`, or the node was not stored) takes the lowest free cell, moves the mark by
at most one cell and only when `1 ..= last_index` is full -/
theorem St.put_fresh {s : St} (hg : Good s) {n : Node} {s' i} (h : s.put n = .ok (s', i))
    (hfree : rd s.storage.occs i = false) :
    2 ≤ i ∧ i < s.storage.vals.size ∧
    (∀ j, 1 ≤ j → j < i → rd s.storage.occs j = true) ∧
    s'.storage.lastIndex = (if i > s.storage.lastIndex then i else s.storage.lastIndex) ∧
    (s.storage.lastIndex < i → i = s.storage.lastIndex + 1) ∧
    s'.storage.minFree = i + 1 ∧ s'.storage.realSize = s.storage.realSize + 1 := by
  obtain ⟨ch, hI⟩ := hg.tinv
  exact Table.put_fresh' hg.wf hI (St.put_ok h).1 hfree

theorem St.put_changed_iff {s : St} (hg : Good s) {n : Node} {s' i} (h : s.put n = .ok (s', i)) :
    s'.storage ≠ s.storage ↔ rd s.storage.occs i = false := by
  obtain ⟨ch, hI⟩ := hg.tinv
  exact Table.put_changed_iff hg.wf hI (St.put_ok h).1

theorem St.put_highwater {s : St} (hg : Good s) {n : Node} {s' i} (h : s.put n = .ok (s', i)) :
    s'.storage.lastIndex = max s.storage.lastIndex s'.storage.realSize := by
  obtain ⟨ch, hI⟩ := hg.tinv
  exact Table.put_highwater hg.wf hI hg.rs (St.put_ok h).1

theorem St.put_highwater_step {s : St} (hg : Good s) {peak : Nat} (hp : s.storage.lastIndex = peak)
    {n : Node} {s' i} (h : s.put n = .ok (s', i)) :
    s'.storage.lastIndex = max peak s'.storage.realSize ∧
      s'.storage.realSize ≤ s'.storage.lastIndex := by
  obtain ⟨ch, hI⟩ := hg.tinv
  exact Table.put_highwater_step hg.wf hI hg.rs hp (St.put_ok h).1

theorem St.put_no_overwrite {s : St} (hg : Good s) {n : Node} {s' i} (h : s.put n = .ok (s', i)) :
    ∀ j, rd s.storage.occs j = true →
      rd s'.storage.occs j = true ∧ rd s'.storage.vals j = rd s.storage.vals j := by
  obtain ⟨ch, hI⟩ := hg.tinv
  exact Table.put_no_overwrite hg.wf hI (St.put_ok h).1

theorem St.put_fits {s : St} (hg : Good s)
    (hroom : s.storage.realSize + 1 < s.storage.vals.size) (n : Node) :
    ∃ s' i, s.put n = .ok (s', i) := by
  obtain ⟨ch, hI⟩ := hg.tinv
  obtain ⟨t', i, hp⟩ := Table.put_fits hg.wf hI hg.rs hroom n
  exact ⟨{ s with storage := t' }, i, by unfold St.put; rw [hp]⟩

/-- exhaustion on the manager: "Storage is full", the state untouched, and every cell occupied -/
theorem St.put_full_occupied {s : St} (hg : Good s) {n : Node} {e s'}
    (h : s.put n = .error (e, s')) :
    e = .storageFull ∧ s' = s ∧
    (∀ j, 1 ≤ j → j < s.storage.vals.size → rd s.storage.occs j = true) ∧
    s.storage.realSize + 1 = s.storage.vals.size := by
  obtain ⟨ch, hI⟩ := hg.tinv
  obtain ⟨hp, hs⟩ := St.put_err h
  obtain ⟨a, b, c⟩ := Table.put_full_iff_occupied hg.wf hI hg.rs hp
  exact ⟨c, hs, a, b⟩

/-! ### `mk_node` -/

/-- `mk_node` reports exhaustion only when every cell is occupied -/
theorem mkNode_full_occupied {s : St} (hg : Good s) {v low high} (hv : v ≠ 0) {e s'}
    (h : mkNode s v low high = .error (e, s')) :
    e = .storageFull ∧ s' = s ∧
    (∀ j, 1 ≤ j → j < s.storage.vals.size → rd s.storage.occs j = true) ∧
    s.storage.realSize + 1 = s.storage.vals.size := by
  have key : ∀ lo hi, mkNodeReg s v lo hi = .error (e, s') →
      e = .storageFull ∧ s' = s ∧
      (∀ j, 1 ≤ j → j < s.storage.vals.size → rd s.storage.occs j = true) ∧
      s.storage.realSize + 1 = s.storage.vals.size := by
    intro lo hi h
    unfold mkNodeReg at h
    by_cases hne : lo = hi
    · rw [if_pos hne] at h; cases h
    · rw [if_neg hne] at h
      cases hp : s.put ⟨v, lo, hi⟩ with
      | error e' =>
        rw [hp] at h
        simp only [Except.error.injEq] at h
        subst h
        exact St.put_full_occupied hg hp
      | ok p => obtain ⟨s1', i⟩ := p; rw [hp] at h; cases h
  unfold mkNode at h
  rw [if_neg hv] at h
  by_cases hneg : high.neg = true
  · rw [if_pos hneg] at h
    cases hm : mkNodeReg s v low.not high.not with
    | error e' =>
      rw [hm] at h
      simp only [Except.error.injEq] at h
      subst h
      exact key _ _ hm
    | ok p => obtain ⟨s1', r1⟩ := p; rw [hm] at h; cases h
  · rw [if_neg hneg] at h
    exact key _ _ h

/-- with one free cell, `mk_node` (for a proper variable) succeeds -/
theorem mkNode_fits {s : St} (hg : Good s) {v : Nat} (hv : v ≠ 0)
    (hroom : s.storage.realSize + 1 < s.storage.vals.size) (low high : Ref) :
    ∃ s' r, mkNode s v low high = .ok (s', r) := by
  cases hm : mkNode s v low high with
  | ok p => exact ⟨p.1, p.2, rfl⟩
  | error p =>
    obtain ⟨e, s'⟩ := p
    have := (mkNode_full_occupied hg hv hm).2.2.2
    omega

#print axioms Table.put_cases'
#print axioms Table.put_fresh
#print axioms Table.put_fresh'
#print axioms Table.realSize_le_lastIndex
#print axioms Table.realSize_eq_lastIndex_iff
#print axioms Table.put_highwater
#print axioms Table.put_highwater_step
#print axioms Table.drop_lastIndex
#print axioms Table.Hist.highwater
#print axioms Table.put_fits
#print axioms Table.put_full_iff_occupied
#print axioms Table.put_full_of_occupied
#print axioms Table.put_no_overwrite
#print axioms St.put_fresh
#print axioms St.put_highwater
#print axioms St.put_no_overwrite
#print axioms St.put_fits
#print axioms St.put_full_occupied
#print axioms good_realSize_le
#print axioms mkNode_full_occupied
#print axioms mkNode_fits
end P

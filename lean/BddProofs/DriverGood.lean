import BddProofs.LiveValid
import BddProofs.ErrGood
import BddProofs.HeldGc
/-! Every request the driver executes satisfies the hypotheses of the property theorems.

`exec fuel s r` (`BddModel/Driver.lean`) runs the request `r` on the manager `s` only when the executable
precondition `r.ok s` holds: handles name occupied cells, a `mk_node` request is ordered, cube / clause
literals are over distinct variables, a cube to cofactor by is ascending, every term of an expression is
live.  This file shows that those checks are *enough*: an accepted request is a step `StepOk` (the
operation returned) or `StepErr` (it failed and the failure carries the state it reached) of the history
closure `ReachableF`, or leaves the state as it was, or is an interrupted collection that only cleared
caches.  Hence whatever lines the driver is fed — by the harness on the unchanged tree, on a changed tree
after the two sides have diverged, or by anything else — the manager it holds is at every moment a state
the property theorems speak about (`run_reqs_inv`). -/
namespace P
open Arr

theorem liveB_live' {s : St} (hg : Good s) {r : Ref} (h : liveB s r = true) : Live' s r :=
  hg.valid_of_liveB h

theorem all_liveB {s : St} (hg : Good s) {rs : List Ref} (h : rs.all (liveB s) = true) :
    ∀ x, x ∈ rs → Live' s x := by
  intro x hx
  exact liveB_live' hg (List.all_eq_true.1 h x hx)

/-- the ordering check of a `node` request gives the semantic precondition of `mk_node` -/
theorem aboveB_supp {s : St} (hg : Good s) {r : Ref} {φ : Fn} {v : Nat} (vr : Valid s.nodes r φ)
    (h : aboveB s v r = true) : SuppGe φ (v + 1) := by
  obtain ⟨d, hd⟩ := vr
  apply Den.supp hg.inv hd
  simp only [aboveB, Bool.or_eq_true, Bool.and_eq_true, bne_iff_ne, ne_eq, decide_eq_true_eq] at h
  rcases h with ht | ⟨_, hlt⟩
  · left
    simp only [isTerminal, isOne, isZero, Bool.or_eq_true, beq_iff_eq] at ht
    rcases ht with e | e <;> rw [e] <;> rfl
  · rcases valid_stored ⟨d, hd⟩ with e1 | ⟨n, hn⟩
    · exact Or.inl e1
    · right
      refine ⟨n, hn, ?_⟩
      have := (St.nodes_some hn).2.2
      have hv : s.var r = n.var := by unfold St.var St.node; rw [this]
      omega

theorem termsLive_sem {s : St} (hg : Good s) : ∀ e : Expr, e.termsLive s = true → ∃ φ, Expr.Sem s.nodes e φ := by
  intro e
  induction e with
  | term r => intro h; obtain ⟨φ, v⟩ := hg.valid_of_liveB h; exact ⟨φ, .term v⟩
  | not a ih => intro h; obtain ⟨φ, hs⟩ := ih h; exact ⟨_, .not hs⟩
  | and a b iha ihb =>
    intro h
    simp only [Expr.termsLive, Bool.and_eq_true] at h
    obtain ⟨φ, ha⟩ := iha h.1; obtain ⟨ψ, hb⟩ := ihb h.2; exact ⟨_, .and ha hb⟩
  | or a b iha ihb =>
    intro h
    simp only [Expr.termsLive, Bool.and_eq_true] at h
    obtain ⟨φ, ha⟩ := iha h.1; obtain ⟨ψ, hb⟩ := ihb h.2; exact ⟨_, .or ha hb⟩
  | xor a b iha ihb =>
    intro h
    simp only [Expr.termsLive, Bool.and_eq_true] at h
    obtain ⟨φ, ha⟩ := iha h.1; obtain ⟨ψ, hb⟩ := ihb h.2; exact ⟨_, .xor ha hb⟩

/-- what one accepted request does to the manager -/
inductive DStep (s : St) (r : Req) (s' : St) : Prop
  | same : s' = s → DStep s r s'
  | ok : StepOk s s' → DStep s r s'
  | err : StepErr s s' → DStep s r s'
  | held (w : Nat) (roots : List Ref) : r = .heldgc w roots → s' = heldState (collectGarbageHeld w s) → DStep s r s'

theorem handle_step {s : St} {q : Req} {x : Res (St × Ref)}
    (hok : ∀ s' r, x = .ok (s', r) → StepOk s s') (herr : ∀ e s', x = .error (e, s') → StepErr s s') :
    DStep s q (Out.handle x).state := by
  cases x with
  | ok p => obtain ⟨s', r⟩ := p; exact .ok (hok s' r rfl)
  | error p => obtain ⟨e, s'⟩ := p; exact .err (herr e s' rfl)

theorem dropMemo_ok {μ : Type} {x : Res (St × Ref × μ)} {s' r} (h : dropMemo x = .ok (s', r)) :
    ∃ m, x = .ok (s', r, m) := by
  cases x with
  | ok p => obtain ⟨a, b, m⟩ := p; simp only [dropMemo, Except.ok.injEq, Prod.mk.injEq] at h; exact ⟨m, by rw [h.1, h.2]⟩
  | error e => cases h
theorem dropMemo_err {μ : Type} {x : Res (St × Ref × μ)} {e s'} (h : dropMemo x = .error (e, s')) :
    x = .error (e, s') := by
  cases x with
  | ok p => cases h
  | error p => simp only [dropMemo, Except.error.injEq] at h; rw [h]

/-- **an accepted request is a step of the history closure** -/
theorem exec_step (fuel : Nat) {s : St} (r : Req) (hg : Good s) : DStep s r (exec fuel s r).state := by
  unfold exec
  by_cases hok : r.ok s = true
  · rw [if_pos hok]
    cases r with
    | var v => exact handle_step (fun _ _ e => .mkVar e) (fun _ _ e => .mkVar e)
    | node v lo hi =>
      simp only [Req.ok, Bool.and_eq_true, Bool.or_eq_true, beq_iff_eq] at hok
      obtain ⟨⟨hlo, hhi⟩, hord⟩ := hok
      obtain ⟨φ0, v0⟩ := hg.valid_of_liveB hlo
      obtain ⟨φ1, v1⟩ := hg.valid_of_liveB hhi
      refine handle_step (fun s' r e => ?_) (fun _ _ e => .mkNode e)
      rcases hord with h0 | ⟨ha, hb⟩
      · -- variable 0 is rejected by the assertion of `mk_node`
        subst h0
        simp only [mkNode, if_true] at e; cases e
      · exact .mkNode v0 v1 (aboveB_supp hg v0 ha) (aboveB_supp hg v1 hb) e
    | ite a b c =>
      simp only [Req.ok, Bool.and_eq_true] at hok
      have la := liveB_live' hg hok.1.1; have lb := liveB_live' hg hok.1.2; have lc := liveB_live' hg hok.2
      exact handle_step (fun _ _ e => .ite la lb lc e) (fun _ _ e => .ite la lb lc e)
    | and a b =>
      simp only [Req.ok, Bool.and_eq_true] at hok
      have la := liveB_live' hg hok.1; have lb := liveB_live' hg hok.2
      exact handle_step (fun _ _ e => .and la lb e) (fun _ _ e => .and la lb e)
    | or a b =>
      simp only [Req.ok, Bool.and_eq_true] at hok
      have la := liveB_live' hg hok.1; have lb := liveB_live' hg hok.2
      exact handle_step (fun _ _ e => .or la lb e) (fun _ _ e => .or la lb e)
    | xor a b =>
      simp only [Req.ok, Bool.and_eq_true] at hok
      have la := liveB_live' hg hok.1; have lb := liveB_live' hg hok.2
      exact handle_step (fun _ _ e => .xor la lb e) (fun _ _ e => .xor la lb e)
    | eq a b =>
      simp only [Req.ok, Bool.and_eq_true] at hok
      have la := liveB_live' hg hok.1; have lb := liveB_live' hg hok.2
      exact handle_step (fun _ _ e => .eq la lb e) (fun _ _ e => .eq la lb e)
    | imply a b =>
      simp only [Req.ok, Bool.and_eq_true] at hok
      have la := liveB_live' hg hok.1; have lb := liveB_live' hg hok.2
      exact handle_step (fun _ _ e => .imply la lb e) (fun _ _ e => .imply la lb e)
    | andMany rs =>
      have hl := all_liveB hg (by simpa only [Req.ok] using hok)
      exact handle_step (fun _ _ e => .andMany hl e) (fun _ _ e => .andMany hl e)
    | orMany rs =>
      have hl := all_liveB hg (by simpa only [Req.ok] using hok)
      exact handle_step (fun _ _ e => .orMany hl e) (fun _ _ e => .orMany hl e)
    | cube lits =>
      have hnd : (lits.map (·.1)).Nodup := by simpa only [Req.ok, decide_eq_true_eq] using hok
      exact handle_step (fun _ _ e => .cube hnd e) (fun _ _ e => .cube hnd e)
    | clause lits =>
      have hnd : (lits.map (·.1)).Nodup := by simpa only [Req.ok, decide_eq_true_eq] using hok
      exact handle_step (fun _ _ e => .clause hnd e) (fun _ _ e => .clause hnd e)
    | subst f v b =>
      have lf := liveB_live' hg (by simpa only [Req.ok] using hok)
      exact handle_step (fun _ _ e => let ⟨_, e'⟩ := dropMemo_ok e; .substitute lf e')
        (fun _ _ e => .substitute lf (dropMemo_err e))
    | substMulti f vals =>
      have lf := liveB_live' hg (by simpa only [Req.ok] using hok)
      exact handle_step (fun _ _ e => let ⟨_, e'⟩ := dropMemo_ok e; .substMulti lf e')
        (fun _ _ e => .substMulti lf (dropMemo_err e))
    | cofCube f c =>
      simp only [Req.ok, Bool.and_eq_true, decide_eq_true_eq] at hok
      have lf := liveB_live' hg hok.1
      exact handle_step (fun _ _ e => let ⟨_, e'⟩ := dropMemo_ok e; .cofCube lf hok.2 e')
        (fun _ _ e => .cofCube lf hok.2 (dropMemo_err e))
    | compose f v g =>
      simp only [Req.ok, Bool.and_eq_true] at hok
      have lf := liveB_live' hg hok.1; have lg := liveB_live' hg hok.2
      exact handle_step (fun _ _ e => .compose lf lg e) (fun _ _ e => .compose lf lg e)
    | constrain f g =>
      simp only [Req.ok, Bool.and_eq_true] at hok
      have lf := liveB_live' hg hok.1; have lg := liveB_live' hg hok.2
      exact handle_step (fun _ _ e => .constrain lf lg e) (fun _ _ e => .constrain lf lg e)
    | restrict f g =>
      simp only [Req.ok, Bool.and_eq_true] at hok
      have lf := liveB_live' hg hok.1; have lg := liveB_live' hg hok.2
      exact handle_step (fun _ _ e => .restrict lf lg e) (fun _ _ e => .restrict lf lg e)
    | expr x =>
      obtain ⟨φ, hs⟩ := termsLive_sem hg x (by simpa only [Req.ok] using hok)
      exact handle_step (fun _ _ e => .expr hs e) (fun _ _ e => .expr hs e)
    | itec a b c =>
      simp only [Req.ok, Bool.and_eq_true] at hok
      have la := liveB_live' hg hok.1.1; have lb := liveB_live' hg hok.1.2; have lc := liveB_live' hg hok.2
      show DStep s _ (Out.optBool (iteConstant fuel s a b c)).state
      cases hx : iteConstant fuel s a b c with
      | ok p => obtain ⟨s', o⟩ := p; exact .ok (.iteConstant la lb lc hx)
      | error p => obtain ⟨e, s'⟩ := p; exact .err (.iteConstant la lb lc hx)
    | implies a b =>
      simp only [Req.ok, Bool.and_eq_true] at hok
      have la := liveB_live' hg hok.1; have lb := liveB_live' hg hok.2
      show DStep s _ (Out.bool (isImplies fuel s a b)).state
      cases hx : isImplies fuel s a b with
      | ok p => obtain ⟨s', o⟩ := p; exact .ok (.isImplies la lb hx)
      | error p => obtain ⟨e, s'⟩ := p; exact .err (.isImplies la lb hx)
    | size f =>
      have lf := liveB_live' hg (by simpa only [Req.ok] using hok)
      exact .ok (.size lf)
    | gc roots =>
      have hl := all_liveB hg (by simpa only [Req.ok] using hok)
      show DStep s _ (Out.unit (collectGarbage s roots)).state
      cases hx : collectGarbage s roots with
      | ok s' => exact .ok (.gc hl hx)
      | error p => obtain ⟨e, s'⟩ := p; exact .err (.gc hl hx)
    | heldgc w roots =>
      have : (Out.unit (collectGarbageHeld w s)).state = heldState (collectGarbageHeld w s) := by
        cases collectGarbageHeld w s with
        | ok s' => rfl
        | error p => obtain ⟨e, s'⟩ := p; rfl
      exact .held w roots rfl this
  · rw [if_neg hok]; exact .same rfl

/-- an interrupted collection keeps the size-cache invariant: the node table is untouched and the size
cache is either untouched or emptied -/
theorem SizeInv.congr {s s' : St} (hst : s'.storage = s.storage) (hsc : s'.sizeCache = s.sizeCache)
    (h : SizeInv s) : SizeInv s' := by
  intro f n hl
  rw [hsc] at hl
  obtain ⟨hlive, hn⟩ := h f n hl
  have hnodes : s'.nodes = s.nodes := by unfold St.nodes; rw [hst]
  refine ⟨?_, by rw [descendants_congr hst]; exact hn⟩
  unfold Live at *
  rw [hnodes]; exact hlive

theorem held_sizeInv {s : St} (h : SizeInv s) (w : Nat) : SizeInv (heldState (collectGarbageHeld w s)) := by
  unfold collectGarbageHeld
  match w with
  | 0 => exact h
  | 1 => exact SizeInv.congr (s := s) rfl rfl h
  | n + 2 =>
    simp only
    have hc : SizeInv { s with cache := s.cache.clear, sizeCache := s.sizeCache.clear } := by
      intro f k hl
      have : ({ s with cache := s.cache.clear, sizeCache := s.sizeCache.clear } : St).sizeCache.lookup f = none :=
        Cache.lookup_clear _ f
      rw [this] at hl; cases hl
    split
    · exact hc
    · exact hc

/-- the invariant of the property theorems (`Good`, and the size-memo invariant of C04 / C07) is kept by
every step of the driver -/
theorem DStep.inv {s s' : St} {r : Req} (ih : Good s ∧ SizeInv s) (h : DStep s r s') : Good s' ∧ SizeInv s' := by
  cases h with
  | same e => rw [e]; exact ih
  | ok hs => exact hs.inv ih
  | err hs => exact hs.inv ih
  | held w roots _ e => rw [e]; exact ⟨(collectGarbageHeld_good ih.1 w).1, held_sizeInv ih.2 w⟩

/-- the manager of the driver after a list of requests (refused requests change nothing) -/
def runReqs (fuel : Nat) : St → List Req → St
  | s, [] => s
  | s, r :: rs =>
    runReqs fuel (exec fuel s r).state rs

/-- **whatever requests the driver is sent, in whatever order, the manager it holds stays inside the
invariant of the property theorems**: canonical, structurally sound, every cache entry a true fact —
after successes, after caught failures, after interrupted collections, after refused requests -/
theorem run_reqs_inv (fuel : Nat) : ∀ (rs : List Req) (s : St), Good s ∧ SizeInv s →
    Good (runReqs fuel s rs) ∧ SizeInv (runReqs fuel s rs) := by
  intro rs
  induction rs with
  | nil => intro s h; exact h
  | cons r rs ih =>
    intro s h
    unfold runReqs
    exact ih _ ((exec_step fuel r h.1).inv h)

/-- … starting from any new manager -/
theorem run_reqs_from_new {sb bb cb : Nat} {s0 : St} (h0 : St.newWith sb bb cb = .ok s0) (fuel : Nat)
    (rs : List Req) : Good (runReqs fuel s0 rs) ∧ SizeInv (runReqs fuel s0 rs) :=
  run_reqs_inv fuel rs s0 (reachable_inv (.init h0))

/-- without interrupted collections the driver's manager is a `ReachableF` state (so every theorem stated
for reachable states applies verbatim) -/
theorem exec_reachableF (fuel : Nat) {s : St} (r : Req) (hr : ReachableF s)
    (hnot : ∀ w roots, r ≠ .heldgc w roots) : ReachableF (exec fuel s r).state := by
  cases exec_step fuel r (reachableF_good hr) with
  | same e => rw [e]; exact hr
  | ok hs => exact .stepOk hr hs
  | err hs => exact .stepErr hr hs
  | held w roots e _ => exact absurd e (hnot w roots)

end P
#print axioms P.exec_step
#print axioms P.run_reqs_inv
#print axioms P.run_reqs_from_new
#print axioms P.exec_reachableF

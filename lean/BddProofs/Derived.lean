import BddProofs.Ite
import BddModel.Expr
/-! Connectives, n-ary folds, `mkVar` and `Expr` evaluation (C03) as corollaries of `applyIte_spec` (C02).
Negation has no operation in the model (`Ref.not` flips the complement bit): its specification is `Valid.not`. -/
namespace P

abbrev Post (s : St) (s' : St) (r : Ref) (φ : Fn) : Prop := Good s' ∧ Sub s.nodes s'.nodes ∧ Valid s'.nodes r φ

theorem applyAnd_spec {fuel s u v φu φv s' r} (hg : Good s) (vu : Valid s.nodes u φu) (vv : Valid s.nodes v φv)
    (h : applyAnd fuel s u v = .ok (s', r)) : Post s s' r (fun e => φu e && φv e) := by
  obtain ⟨a, b, c⟩ := applyIte_spec fuel _ _ _ _ _ _ _ _ _ hg vu vv Valid.zero h
  refine ⟨a, b, ?_⟩
  have : ITE φu φv (fun _ => false) = fun e => φu e && φv e := by
    funext e; simp only [ITE]; by_cases h : φu e = true <;> simp [h]
  rw [← this]; exact c

theorem applyOr_spec {fuel s u v φu φv s' r} (hg : Good s) (vu : Valid s.nodes u φu) (vv : Valid s.nodes v φv)
    (h : applyOr fuel s u v = .ok (s', r)) : Post s s' r (fun e => φu e || φv e) := by
  obtain ⟨a, b, c⟩ := applyIte_spec fuel _ _ _ _ _ _ _ _ _ hg vu Valid.one vv h
  refine ⟨a, b, ?_⟩
  have : ITE φu (fun _ => true) φv = fun e => φu e || φv e := by
    funext e; simp only [ITE]; by_cases h : φu e = true <;> simp [h]
  rw [← this]; exact c

theorem applyXor_spec {fuel s u v φu φv s' r} (hg : Good s) (vu : Valid s.nodes u φu) (vv : Valid s.nodes v φv)
    (h : applyXor fuel s u v = .ok (s', r)) : Post s s' r (fun e => φu e != φv e) := by
  obtain ⟨a, b, c⟩ := applyIte_spec fuel _ _ _ _ _ _ _ _ _ hg vu vv.not vv h
  refine ⟨a, b, ?_⟩
  have : ITE φu (fun e => !φv e) φv = fun e => φu e != φv e := by
    funext e; simp only [ITE]; by_cases h : φu e = true <;> simp [h]
  rw [← this]; exact c

theorem applyEq_spec {fuel s u v φu φv s' r} (hg : Good s) (vu : Valid s.nodes u φu) (vv : Valid s.nodes v φv)
    (h : applyEq fuel s u v = .ok (s', r)) : Post s s' r (fun e => φu e == φv e) := by
  obtain ⟨a, b, c⟩ := applyIte_spec fuel _ _ _ _ _ _ _ _ _ hg vu vv vv.not h
  refine ⟨a, b, ?_⟩
  have : ITE φu φv (fun e => !φv e) = fun e => φu e == φv e := by
    funext e; simp only [ITE]; by_cases h : φu e = true <;> by_cases h' : φv e = true <;> simp [h, h']
  rw [← this]; exact c

theorem applyImply_spec {fuel s u v φu φv s' r} (hg : Good s) (vu : Valid s.nodes u φu) (vv : Valid s.nodes v φv)
    (h : applyImply fuel s u v = .ok (s', r)) : Post s s' r (fun e => !φu e || φv e) := by
  obtain ⟨a, b, c⟩ := applyIte_spec fuel _ _ _ _ _ _ _ _ _ hg vu vv Valid.one h
  refine ⟨a, b, ?_⟩
  have : ITE φu φv (fun _ => true) = fun e => !φu e || φv e := by
    funext e; simp only [ITE]; by_cases h : φu e = true <;> simp [h]
  rw [← this]; exact c

theorem andMany_spec (fuel : Nat) : ∀ (xs : List Ref) (φs : List Fn) (s : St) (acc : Ref) (ψ : Fn) s' r, Good s →
    Valid s.nodes acc ψ → xs.length = φs.length →
    (∀ i (h : i < xs.length) (h' : i < φs.length), Valid s.nodes xs[i] φs[i]) →
    andMany fuel s acc xs = .ok (s', r) → Post s s' r (fun e => ψ e && φs.all (fun φ => φ e)) := by
  intro xs
  induction xs with
  | nil =>
    intro φs s acc ψ s' r hg va hl _ h
    cases φs with
    | cons _ _ => simp at hl
    | nil =>
      simp only [andMany, Except.ok.injEq, Prod.mk.injEq] at h
      obtain ⟨rfl, rfl⟩ := h
      exact ⟨hg, fun _ _ x => x, by simpa using va⟩
  | cons x xs ih =>
    intro φs s acc ψ s' r hg va hl hv h
    cases φs with
    | nil => simp at hl
    | cons φ φs =>
      simp only [andMany] at h
      cases e1 : applyAnd fuel s acc x with
      | error e => simp [e1] at h
      | ok p =>
        obtain ⟨s1, r1⟩ := p
        simp only [e1] at h
        have vx : Valid s.nodes x φ := hv 0 (by simp) (by simp)
        obtain ⟨g1, sub1, v1⟩ := applyAnd_spec hg va vx e1
        obtain ⟨g2, sub2, v2⟩ := ih φs s1 r1 _ s' r g1 v1 (by simpa using hl)
          (fun i h1 h2 => (hv (i + 1) (by simp; omega) (by simp; omega)).mono sub1) h
        refine ⟨g2, fun i n x => sub2 _ _ (sub1 _ _ x), ?_⟩
        have : (fun e => (ψ e && φ e) && φs.all (fun φ => φ e)) = (fun e => ψ e && (φ :: φs).all (fun φ => φ e)) := by
          funext e; simp [Bool.and_assoc]
        rw [← this]; exact v2


/-- `apply_or_many`: the fold denotes the disjunction of the accumulator and all items -/
theorem orMany_spec (fuel : Nat) : ∀ (xs : List Ref) (φs : List Fn) (s : St) (acc : Ref) (ψ : Fn) s' r, Good s →
    Valid s.nodes acc ψ → xs.length = φs.length →
    (∀ i (h : i < xs.length) (h' : i < φs.length), Valid s.nodes xs[i] φs[i]) →
    orMany fuel s acc xs = .ok (s', r) → Post s s' r (fun e => ψ e || φs.any (fun φ => φ e)) := by
  intro xs
  induction xs with
  | nil =>
    intro φs s acc ψ s' r hg va hl _ h
    cases φs with
    | cons _ _ => simp at hl
    | nil =>
      simp only [orMany, Except.ok.injEq, Prod.mk.injEq] at h
      obtain ⟨rfl, rfl⟩ := h
      exact ⟨hg, fun _ _ x => x, by simpa using va⟩
  | cons x xs ih =>
    intro φs s acc ψ s' r hg va hl hv h
    cases φs with
    | nil => simp at hl
    | cons φ φs =>
      simp only [orMany] at h
      cases e1 : applyOr fuel s acc x with
      | error e => simp [e1] at h
      | ok p =>
        obtain ⟨s1, r1⟩ := p
        simp only [e1] at h
        have vx : Valid s.nodes x φ := hv 0 (by simp) (by simp)
        obtain ⟨g1, sub1, v1⟩ := applyOr_spec hg va vx e1
        obtain ⟨g2, sub2, v2⟩ := ih φs s1 r1 _ s' r g1 v1 (by simpa using hl)
          (fun i h1 h2 => (hv (i + 1) (by simp; omega) (by simp; omega)).mono sub1) h
        refine ⟨g2, fun i n x => sub2 _ _ (sub1 _ _ x), ?_⟩
        have : (fun e => (ψ e || φ e) || φs.any (fun φ => φ e)) = (fun e => ψ e || (φ :: φs).any (fun φ => φ e)) := by
          funext e; simp [Bool.or_assoc]
        rw [← this]; exact v2

/-- `apply_and_many(items)` = `andMany` from `one`: the conjunction of all items (`true` for no items) -/
theorem andMany_one_spec {fuel : Nat} {xs : List Ref} {φs : List Fn} {s : St} {s' r} (hg : Good s)
    (hl : xs.length = φs.length)
    (hv : ∀ i (h : i < xs.length) (h' : i < φs.length), Valid s.nodes xs[i] φs[i])
    (h : andMany fuel s Ref.one xs = .ok (s', r)) : Post s s' r (fun e => φs.all (fun φ => φ e)) := by
  have := andMany_spec fuel xs φs s Ref.one _ s' r hg Valid.one hl hv h
  simpa using this

/-- `apply_or_many(items)` = `orMany` from `zero`: the disjunction of all items (`false` for no items) -/
theorem orMany_zero_spec {fuel : Nat} {xs : List Ref} {φs : List Fn} {s : St} {s' r} (hg : Good s)
    (hl : xs.length = φs.length)
    (hv : ∀ i (h : i < xs.length) (h' : i < φs.length), Valid s.nodes xs[i] φs[i])
    (h : orMany fuel s Ref.zero xs = .ok (s', r)) : Post s s' r (fun e => φs.any (fun φ => φ e)) := by
  have := orMany_spec fuel xs φs s Ref.zero _ s' r hg Valid.zero hl hv h
  simpa using this

/-- `mk_var(v)`: the projection on variable `v` -/
theorem mkVar_spec {s : St} (hg : Good s) {v : Nat} {s' r} (h : mkVar s v = .ok (s', r)) :
    Good s' ∧ Sub s.nodes s'.nodes ∧ Valid s'.nodes r (fun e => e v) := by
  unfold mkVar at h
  by_cases hv : v = 0
  · rw [if_pos hv] at h; cases h
  rw [if_neg hv] at h
  obtain ⟨a, b, _, c⟩ := mkNode_spec hg Valid.zero Valid.one (fun _ _ _ => rfl) (fun _ _ _ => rfl) h
  refine ⟨a, b, ?_⟩
  have : (fun e : Env => if e v = true then (fun _ => true) e else (fun _ => false) e) = (fun e => e v) := by
    funext e; by_cases hx : e v = true <;> simp [hx]
  rw [← this]; exact c

/-! ### `Expr` -/

/-- the meaning of an expression over live terms -/
inductive Expr.Sem (nd : Nodes) : Expr → Fn → Prop
  | term {r φ} : Valid nd r φ → Sem nd (.term r) φ
  | not {a φ} : Sem nd a φ → Sem nd (.not a) (fun e => !φ e)
  | and {a b φ ψ} : Sem nd a φ → Sem nd b ψ → Sem nd (.and a b) (fun e => φ e && ψ e)
  | or {a b φ ψ} : Sem nd a φ → Sem nd b ψ → Sem nd (.or a b) (fun e => φ e || ψ e)
  | xor {a b φ ψ} : Sem nd a φ → Sem nd b ψ → Sem nd (.xor a b) (fun e => φ e != ψ e)

theorem Expr.Sem.mono {nd nd' x φ} (hs : Sub nd nd') (h : Expr.Sem nd x φ) : Expr.Sem nd' x φ := by
  induction h with
  | term v => exact .term (v.mono hs)
  | not _ ih => exact .not ih
  | and _ _ iha ihb => exact .and iha ihb
  | or _ _ iha ihb => exact .or iha ihb
  | xor _ _ iha ihb => exact .xor iha ihb

/-- the simplifications of `Expr::not` never change the meaning -/
theorem Expr.mkNot_sem {nd x φ} (h : Expr.Sem nd x φ) : Expr.Sem nd x.mkNot (fun e => !φ e) := by
  cases h with
  | term v => exact .term v.not
  | not h' =>
    rename_i a ψ
    have : (fun e => !(fun e => !ψ e) e) = ψ := by funext e; simp
    simp only [Expr.mkNot]; rw [this]; exact h'
  | and ha hb => exact .not (.and ha hb)
  | or ha hb => exact .not (.or ha hb)
  | xor ha hb => exact .not (.xor ha hb)

theorem Expr.eval_spec (fuel : Nat) : ∀ (x : Expr) (s : St) (φ : Fn) s' r, Good s → Expr.Sem s.nodes x φ →
    Expr.eval fuel s x = .ok (s', r) → Post s s' r φ := by
  intro x
  induction x with
  | term t =>
    intro s φ s' r hg hs h
    cases hs with
    | term v =>
      simp only [Expr.eval, Except.ok.injEq, Prod.mk.injEq] at h
      obtain ⟨rfl, rfl⟩ := h
      exact ⟨hg, fun _ _ x => x, v⟩
  | not a ih =>
    intro s φ s' r hg hs h
    cases hs with
    | not ha =>
      simp only [Expr.eval] at h
      cases e1 : Expr.eval fuel s a with
      | error e => simp [e1] at h
      | ok p =>
        obtain ⟨s1, r1⟩ := p
        simp only [e1, Except.ok.injEq, Prod.mk.injEq] at h
        obtain ⟨rfl, rfl⟩ := h
        obtain ⟨x, y, z⟩ := ih s _ _ _ hg ha e1
        exact ⟨x, y, z.not⟩
  | and a b iha ihb =>
    intro s φ s' r hg hs h
    cases hs with
    | and ha hb =>
      simp only [Expr.eval] at h
      cases e1 : Expr.eval fuel s a with
      | error e => simp [e1] at h
      | ok p =>
        obtain ⟨s1, ra⟩ := p
        simp only [e1] at h
        obtain ⟨g1, sub1, va⟩ := iha s _ _ _ hg ha e1
        cases e2 : Expr.eval fuel s1 b with
        | error e => simp [e2] at h
        | ok p2 =>
          obtain ⟨s2, rb⟩ := p2
          simp only [e2] at h
          obtain ⟨g2, sub2, vb⟩ := ihb s1 _ _ _ g1 (hb.mono sub1) e2
          obtain ⟨g3, sub3, v3⟩ := applyAnd_spec g2 (va.mono sub2) vb h
          exact ⟨g3, fun i n x => sub3 _ _ (sub2 _ _ (sub1 _ _ x)), v3⟩
  | or a b iha ihb =>
    intro s φ s' r hg hs h
    cases hs with
    | or ha hb =>
      simp only [Expr.eval] at h
      cases e1 : Expr.eval fuel s a with
      | error e => simp [e1] at h
      | ok p =>
        obtain ⟨s1, ra⟩ := p
        simp only [e1] at h
        obtain ⟨g1, sub1, va⟩ := iha s _ _ _ hg ha e1
        cases e2 : Expr.eval fuel s1 b with
        | error e => simp [e2] at h
        | ok p2 =>
          obtain ⟨s2, rb⟩ := p2
          simp only [e2] at h
          obtain ⟨g2, sub2, vb⟩ := ihb s1 _ _ _ g1 (hb.mono sub1) e2
          obtain ⟨g3, sub3, v3⟩ := applyOr_spec g2 (va.mono sub2) vb h
          exact ⟨g3, fun i n x => sub3 _ _ (sub2 _ _ (sub1 _ _ x)), v3⟩
  | xor a b iha ihb =>
    intro s φ s' r hg hs h
    cases hs with
    | xor ha hb =>
      simp only [Expr.eval] at h
      cases e1 : Expr.eval fuel s a with
      | error e => simp [e1] at h
      | ok p =>
        obtain ⟨s1, ra⟩ := p
        simp only [e1] at h
        obtain ⟨g1, sub1, va⟩ := iha s _ _ _ hg ha e1
        cases e2 : Expr.eval fuel s1 b with
        | error e => simp [e2] at h
        | ok p2 =>
          obtain ⟨s2, rb⟩ := p2
          simp only [e2] at h
          obtain ⟨g2, sub2, vb⟩ := ihb s1 _ _ _ g1 (hb.mono sub1) e2
          obtain ⟨g3, sub3, v3⟩ := applyXor_spec g2 (va.mono sub2) vb h
          exact ⟨g3, fun i n x => sub3 _ _ (sub2 _ _ (sub1 _ _ x)), v3⟩

#print axioms applyAnd_spec
#print axioms applyOr_spec
#print axioms applyXor_spec
#print axioms applyEq_spec
#print axioms applyImply_spec
#print axioms andMany_spec
#print axioms orMany_spec
#print axioms andMany_one_spec
#print axioms orMany_zero_spec
#print axioms mkVar_spec
#print axioms Expr.mkNot_sem
#print axioms Expr.eval_spec
end P

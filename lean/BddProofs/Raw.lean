import BddModel.Raw
import BddProofs.Refine
/-! RawTable (linear probing with tombstones) on the executable array model `BddModel/Raw.lean`:
probe termination and lookup.  Port of `spikes/Raw.lean`.

Adaptations with respect to the spike:
* slots live in an array: `Raw.slot_setSlot`, `Raw.cap_setSlot` replace the function update;
  every `setSlot` is at an index `< cap`;
* `find` takes `dbg`; in a debug build its `debug_assert!`s need `free ≠ 0` and a power-of-two
  capacity: hypothesis `DbgOk dbg t`;
* `insertInSlot` decrements `free` unless the slot was DEAD (irrelevant for `RInv`). -/
namespace R
open Arr

set_option linter.unusedSectionVars false
variable {κ ν : Type} [DecidableEq κ]

/-! ### the array model as a function view -/

theorem Raw.cap_setSlot (t : Raw κ ν) (i : Nat) (s : Slot κ ν) : (t.setSlot i s).cap = t.cap := by
  show (wr t.slots i s).size = t.slots.size
  exact size_wr _ _ _

theorem Raw.slot_setSlot (t : Raw κ ν) (i j : Nat) (s : Slot κ ν) :
    (t.setSlot i s).slot j = if j = i ∧ i < t.cap then s else t.slot j := by
  show rd (wr t.slots i s) j = if j = i ∧ i < t.slots.size then s else rd t.slots j
  rw [rd_wr]
  by_cases e : i = j
  · subst e; simp
  · have e' : ¬ j = i := fun x => e x.symm
    simp [e, e']

theorem Raw.slot_setSlot_lt {t : Raw κ ν} {i : Nat} (hi : i < t.cap) (j : Nat) (s : Slot κ ν) :
    (t.setSlot i s).slot j = if j = i then s else t.slot j := by
  rw [Raw.slot_setSlot]; simp [hi]

theorem Raw.len_setSlot (t : Raw κ ν) (i : Nat) (s : Slot κ ν) : (t.setSlot i s).len = t.len := rfl
theorem Raw.free_setSlot (t : Raw κ ν) (i : Nat) (s : Slot κ ν) : (t.setSlot i s).free = t.free := rfl

/-- reads beyond the capacity see the default (FREE) slot; no operation relies on it -/
theorem Raw.slot_ge (t : Raw κ ν) {i : Nat} (hi : t.cap ≤ i) : t.slot i = .free := by
  show rd t.slots i = .free
  have : ¬ i < t.slots.size := by show ¬ i < t.cap; omega
  simp [rd, Array.getD_eq_getD_getElem?, this]
  rfl

section
variable (hashOf : κ → Nat) (dbg : Bool)

/-- probe position at offset `d` from the home of `k` -/
def probe (cap : Nat) (k : κ) (d : Nat) : Nat := (home hashOf cap k + d) % cap

structure RInv (t : Raw κ ν) : Prop where
  /-- some slot is FREE (this is what bounds every probe loop) -/
  hasFree : t.cap = 0 ∨ ∃ i, i < t.cap ∧ t.slot i = .free
  /-- stored status is the key's; every full slot is reachable from its home without crossing a FREE slot -/
  reach : ∀ i st k v, i < t.cap → t.slot i = .full st k v →
    st = status hashOf k ∧ ∃ d, d < t.cap ∧ probe hashOf t.cap k d = i ∧
      ∀ d', d' < d → t.slot (probe hashOf t.cap k d') ≠ .free
  /-- keys are distinct -/
  distinct : ∀ i j st st' k v v', i < t.cap → j < t.cap →
    t.slot i = .full st k v → t.slot j = .full st' k v' → i = j
  /-- `len = 0` only if nothing is stored -/
  lenZero : t.len = 0 → ∀ i, i < t.cap → (t.slot i).isFull = false
  lenPos : t.len ≠ 0 → 0 < t.cap

/-- the premises of the `debug_assert!`s in `find`: a FREE slot is accounted for and the capacity is
a power of two.  Vacuous in a release build (`dbg = false`) and on an empty table. -/
def DbgOk (t : Raw κ ν) : Prop := dbg = true → t.len ≠ 0 → t.free ≠ 0 ∧ isPow2 t.cap = true

theorem DbgOk_false (t : Raw κ ν) : DbgOk false t := fun h => by cases h

theorem add_mod_cancel {x e c : Nat} (hc : e < c) (h : (x + e) % c = x % c) : e = 0 := by
  have h1 := Nat.add_mod x e c
  rw [Nat.mod_eq_of_lt hc] at h1
  have hr' : x % c < c := Nat.mod_lt _ (by omega)
  rw [h1] at h
  generalize x % c = r at *
  by_cases hlt : r + e < c
  · rw [Nat.mod_eq_of_lt hlt] at h; omega
  · rw [Nat.mod_eq_sub_mod (by omega), Nat.mod_eq_of_lt (by omega)] at h; omega

theorem probe_succ (cap : Nat) (k : κ) (d : Nat) :
    probe hashOf cap k (d + 1) = (probe hashOf cap k d + 1) % cap := by
  simp only [probe]
  rw [← Nat.add_assoc, Nat.add_mod (home hashOf cap k + d) 1 cap,
    Nat.add_mod ((home hashOf cap k + d) % cap) 1 cap, Nat.mod_mod]

theorem probe_zero (cap : Nat) (k : κ) : probe hashOf cap k 0 = home hashOf cap k := by
  simp only [probe, Nat.add_zero, home, Nat.mod_mod]

theorem probe_lt {cap : Nat} (hc : 0 < cap) (k : κ) (d : Nat) : probe hashOf cap k d < cap :=
  Nat.mod_lt _ hc

theorem probe_inj {cap : Nat} (k : κ) {d d' : Nat} (hd : d < cap) (hd' : d' < cap)
    (h : probe hashOf cap k d = probe hashOf cap k d') : d = d' := by
  simp only [probe] at h
  rcases Nat.le_total d d' with hle | hle
  · have : (home hashOf cap k + d + (d' - d)) % cap = (home hashOf cap k + d) % cap := by
      rw [h]; congr 1; omega
    have := add_mod_cancel (by omega) this
    omega
  · have : (home hashOf cap k + d' + (d - d')) % cap = (home hashOf cap k + d') % cap := by
      rw [← h]; congr 1; omega
    have := add_mod_cancel (by omega) this
    omega

/-- every index is some probe offset -/
theorem probe_surj {cap : Nat} (k : κ) {i : Nat} (hi : i < cap) : ∃ d, d < cap ∧ probe hashOf cap k d = i := by
  have hh : home hashOf cap k < cap := Nat.mod_lt _ (by omega)
  by_cases hge : home hashOf cap k ≤ i
  · refine ⟨i - home hashOf cap k, by omega, ?_⟩
    simp only [probe]
    rw [show home hashOf cap k + (i - home hashOf cap k) = i by omega, Nat.mod_eq_of_lt hi]
  · refine ⟨cap - home hashOf cap k + i, by omega, ?_⟩
    simp only [probe]
    rw [show home hashOf cap k + (cap - home hashOf cap k + i) = i + cap by omega, Nat.add_mod_right,
      Nat.mod_eq_of_lt hi]


def HasKey (t : Raw κ ν) (k : κ) (i : Nat) : Prop := ∃ st v, t.slot i = .full st k v

/-- skipping a run of slots that are neither FREE nor hold `k` -/
theorem findLoop_skip (t : Raw κ ν) (k : κ) :
    ∀ (n d fuel : Nat),
      (∀ d', d ≤ d' → d' < d + n → t.slot (probe hashOf t.cap k d') ≠ .free ∧ ¬ HasKey t k (probe hashOf t.cap k d')) →
      findLoop hashOf t k (fuel + n) (probe hashOf t.cap k d) = findLoop hashOf t k fuel (probe hashOf t.cap k (d + n)) := by
  intro n
  induction n with
  | zero => intro d fuel _; rfl
  | succ n ih =>
    intro d fuel h
    have hd := h d (Nat.le_refl _) (by omega)
    have hrest := ih (d + 1) fuel (fun d' h1 h2 => h d' (by omega) (by omega))
    rw [show fuel + (n + 1) = (fuel + n) + 1 by omega, show d + (n + 1) = d + 1 + n by omega, ← hrest]
    rw [probe_succ]
    generalize hs : t.slot (probe hashOf t.cap k d) = sl at hd
    cases sl with
    | free => exact absurd rfl hd.1
    | dead => simp only [findLoop, hs]
    | full st k' v =>
      have hne : k' ≠ k := by
        intro e; subst e; exact hd.2 ⟨st, v, hs⟩
      simp only [findLoop, hs, hne, and_false, ↓reduceIte]

/-- `find` past its guards: the table is non-empty, has a slot, and (debug build) no assertion fires -/
theorem find_eq_loop {t : Raw κ ν} (hd : DbgOk dbg t) (hlen : t.len ≠ 0) (hc : t.cap ≠ 0) (k : κ) :
    find hashOf dbg t k = findLoop hashOf t k t.cap (home hashOf t.cap k) := by
  have hg : (dbg && (t.free == 0 || !isPow2 t.cap)) = false := by
    cases hb : dbg with
    | false => rfl
    | true =>
      obtain ⟨h1, h2⟩ := hd hb hlen
      simp [h1, h2]
  simp only [find, hlen, ↓reduceIte, hg, hc, Bool.false_eq_true]

theorem find_present {t : Raw κ ν} (hI : RInv hashOf t) (hdb : DbgOk dbg t) {k : κ} {i st v} (hi : i < t.cap)
    (hs : t.slot i = .full st k v) : find hashOf dbg t k = .ok (some i) := by
  have hc : 0 < t.cap := by omega
  have hlen : t.len ≠ 0 := by
    intro h0; have := hI.lenZero h0 i hi; simp [hs, Slot.isFull] at this
  obtain ⟨hst, D, hD, hpD, hpath⟩ := hI.reach i st k v hi hs
  rw [find_eq_loop hashOf dbg hdb hlen (by omega)]
  have key := findLoop_skip hashOf t k D 0 (t.cap - D) ?_
  · rw [Nat.zero_add, show t.cap - D + D = t.cap by omega, hpD, probe_zero] at key
    rw [key, show t.cap - D = (t.cap - D - 1) + 1 by omega]
    simp only [findLoop, hs, hst, and_self, ↓reduceIte]
  · intro d' _ hd'
    refine ⟨hpath d' (by omega), ?_⟩
    rintro ⟨st', v', hs'⟩
    have := hI.distinct _ _ _ _ _ _ _ (probe_lt hashOf hc k d') hi hs' hs
    rw [← hpD] at this
    have := probe_inj hashOf k (by omega) hD this
    omega

/-- least offset at which the probe sequence of `k` meets a FREE slot -/
theorem exists_first_free {t : Raw κ ν} (hI : RInv hashOf t) (hc : 0 < t.cap) (k : κ) :
    ∃ D, D < t.cap ∧ t.slot (probe hashOf t.cap k D) = .free ∧
      ∀ d', d' < D → t.slot (probe hashOf t.cap k d') ≠ .free := by
  rcases hI.hasFree with h | ⟨i, hi, hfree⟩
  · omega
  obtain ⟨D0, hD0, hp⟩ := probe_surj hashOf k hi
  have : ∃ D, D < t.cap ∧ t.slot (probe hashOf t.cap k D) = .free := ⟨D0, hD0, by rw [hp]; exact hfree⟩
  obtain ⟨D1, h1, h2⟩ := this
  induction D1 using Nat.strongRecOn with
  | _ D1 ih =>
    by_cases hall : ∀ d', d' < D1 → t.slot (probe hashOf t.cap k d') ≠ .free
    · exact ⟨D1, h1, h2, hall⟩
    · have : ∃ d', d' < D1 ∧ t.slot (probe hashOf t.cap k d') = .free := by
        apply Classical.byContradiction
        intro hc'; apply hall; intro d' hd' hf; exact hc' ⟨d', hd', hf⟩
      obtain ⟨d', hd', hf⟩ := this
      exact ih d' hd' (by omega) hf

theorem find_absent {t : Raw κ ν} (hI : RInv hashOf t) (hdb : DbgOk dbg t) {k : κ}
    (habs : ∀ i, i < t.cap → ¬ HasKey t k i) : find hashOf dbg t k = .ok none := by
  by_cases hlen : t.len = 0
  · simp [find, hlen]
  have hc : 0 < t.cap := hI.lenPos hlen
  rw [find_eq_loop hashOf dbg hdb hlen (by omega)]
  obtain ⟨D, hD, hfree, hpath⟩ := exists_first_free hashOf hI hc k
  have key := findLoop_skip hashOf t k D 0 (t.cap - D) ?_
  · rw [Nat.zero_add, show t.cap - D + D = t.cap by omega, probe_zero] at key
    rw [key, show t.cap - D = (t.cap - D - 1) + 1 by omega]
    simp only [findLoop, hfree]
  · intro d' _ hd'
    exact ⟨hpath d' (by omega), habs _ (probe_lt hashOf hc k d')⟩

/-! ### `insert_in_slot` -/

theorem insertInSlot_cap (t : Raw κ ν) (p : Nat) (k : κ) (v : ν) :
    (insertInSlot hashOf t p k v).cap = t.cap :=
  Raw.cap_setSlot t p _

theorem insertInSlot_slot {t : Raw κ ν} {p : Nat} (hp : p < t.cap) (k : κ) (v : ν) (j : Nat) :
    (insertInSlot hashOf t p k v).slot j = if j = p then .full (status hashOf k) k v else t.slot j :=
  Raw.slot_setSlot_lt hp j _

theorem insertInSlot_len (t : Raw κ ν) (p : Nat) (k : κ) (v : ν) :
    (insertInSlot hashOf t p k v).len = t.len + 1 := rfl

theorem insertInSlot_free (t : Raw κ ν) (p : Nat) (k : κ) (v : ν) :
    (insertInSlot hashOf t p k v).free = if (t.slot p).isDead then t.free else t.free - 1 := rfl

theorem insertInSlot_inv {t : Raw κ ν} (hI : RInv hashOf t) {k : κ} {v : ν} {p dp : Nat}
    (habs : ∀ i, i < t.cap → ¬ HasKey t k i)
    (hdp : dp < t.cap) (hp : probe hashOf t.cap k dp = p)
    (hpath : ∀ d', d' < dp → t.slot (probe hashOf t.cap k d') ≠ .free)
    (hnf : (t.slot p).isFull = false)
    (hfree2 : (t.slot p).isFree = true → ∃ i, i < t.cap ∧ i ≠ p ∧ t.slot i = .free) :
    RInv hashOf (insertInSlot hashOf t p k v) := by
  have hc : 0 < t.cap := by omega
  have hpc : p < t.cap := by rw [← hp]; exact probe_lt hashOf hc k dp
  have slot_eq : ∀ j, (insertInSlot hashOf t p k v).slot j = if j = p then .full (status hashOf k) k v else t.slot j :=
    insertInSlot_slot hashOf hpc k v
  have cap_eq : (insertInSlot hashOf t p k v).cap = t.cap := insertInSlot_cap hashOf t p k v
  have nofree : ∀ j, t.slot j ≠ .free → (insertInSlot hashOf t p k v).slot j ≠ .free := by
    intro j hj; rw [slot_eq]; split
    · intro h; cases h
    · exact hj
  refine ⟨?_, ?_, ?_, ?_, ?_⟩
  · right
    rw [cap_eq]
    by_cases hpf : (t.slot p).isFree = true
    · obtain ⟨i, hi, hne, hf⟩ := hfree2 hpf
      exact ⟨i, hi, by rw [slot_eq, if_neg hne]; exact hf⟩
    · rcases hI.hasFree with h | ⟨i, hi, hf⟩
      · omega
      · refine ⟨i, hi, ?_⟩
        have hne : i ≠ p := by
          intro e; subst e; rw [hf] at hpf; simp [Slot.isFree] at hpf
        rw [slot_eq, if_neg hne]; exact hf
  · intro i st k' v' hi hs
    rw [cap_eq] at hi ⊢
    rw [slot_eq] at hs
    by_cases hip : i = p
    · rw [if_pos hip] at hs
      cases hs
      exact ⟨rfl, dp, hdp, by rw [hp, hip], fun d' hd' => nofree _ (hpath d' hd')⟩
    · rw [if_neg hip] at hs
      obtain ⟨a, d, hd, hpd, hpa⟩ := hI.reach i st k' v' hi hs
      exact ⟨a, d, hd, hpd, fun d' hd' => nofree _ (hpa d' hd')⟩
  · intro i j st st' k' v1 v2 hi hj hs hs'
    rw [cap_eq] at hi hj
    rw [slot_eq] at hs hs'
    by_cases hip : i = p <;> by_cases hjp : j = p
    · rw [hip, hjp]
    · rw [if_pos hip] at hs; rw [if_neg hjp] at hs'
      cases hs
      exact absurd ⟨st', v2, hs'⟩ (habs j hj)
    · rw [if_neg hip] at hs; rw [if_pos hjp] at hs'
      cases hs'
      exact absurd ⟨st, v1, hs⟩ (habs i hi)
    · rw [if_neg hip] at hs; rw [if_neg hjp] at hs'
      exact hI.distinct _ _ _ _ _ _ _ hi hj hs hs'
  · intro h0; rw [insertInSlot_len] at h0; omega
  · intro _; rw [cap_eq]; exact hc

/-! ### `remove_at_slot` -/

theorem removeAtSlot_cap (t : Raw κ ν) (i : Nat) : (removeAtSlot t i).cap = t.cap :=
  Raw.cap_setSlot t i _

theorem removeAtSlot_slot_ne (t : Raw κ ν) {i j : Nat} (hj : j ≠ i) :
    (removeAtSlot t i).slot j = t.slot j := by
  show (t.setSlot i _).slot j = t.slot j
  rw [Raw.slot_setSlot]; simp [hj]

theorem removeAtSlot_slot_self {t : Raw κ ν} {i : Nat} (hi : i < t.cap) :
    (removeAtSlot t i).slot i = if (t.slot ((i + 1) % t.cap)).isFree then .free else .dead := by
  show (t.setSlot i _).slot i = _
  rw [Raw.slot_setSlot_lt hi]; simp

theorem removeAtSlot_len (t : Raw κ ν) (i : Nat) : (removeAtSlot t i).len = t.len - 1 := rfl

theorem removeAtSlot_free (t : Raw κ ν) (i : Nat) :
    (removeAtSlot t i).free = if (t.slot ((i + 1) % t.cap)).isFree then t.free + 1 else t.free := rfl

theorem removeAtSlot_inv {t : Raw κ ν} (hI : RInv hashOf t) {i : Nat} (hi : i < t.cap)
    (hfull : (t.slot i).isFull = true)
    (hlen : t.len - 1 = 0 → ∀ j, j < t.cap → j ≠ i → (t.slot j).isFull = false)
    (_hlen' : t.len - 1 ≠ 0 → True) :
    RInv hashOf (removeAtSlot t i) := by
  have hc : 0 < t.cap := by omega
  have cap_eq : (removeAtSlot t i).cap = t.cap := removeAtSlot_cap t i
  have slot_ne : ∀ j, j ≠ i → (removeAtSlot t i).slot j = t.slot j := fun j hj => removeAtSlot_slot_ne t hj
  have slot_i : (removeAtSlot t i).slot i = if (t.slot ((i + 1) % t.cap)).isFree then .free else .dead :=
    removeAtSlot_slot_self hi
  refine ⟨?_, ?_, ?_, ?_, ?_⟩
  · right
    rcases hI.hasFree with h | ⟨j, hj, hf⟩
    · omega
    · refine ⟨j, by rw [cap_eq]; exact hj, ?_⟩
      have : j ≠ i := by intro e; subst e; rw [hf] at hfull; simp [Slot.isFull] at hfull
      rw [slot_ne j this]; exact hf
  · intro j st k v hj hs
    rw [cap_eq] at hj ⊢
    have hji : j ≠ i := by
      intro e; subst e; rw [slot_i] at hs; split at hs <;> cases hs
    rw [slot_ne j hji] at hs
    obtain ⟨a, d, hd, hpd, hpa⟩ := hI.reach j st k v hj hs
    refine ⟨a, d, hd, hpd, ?_⟩
    intro d' hd' hfr
    by_cases hpi : probe hashOf t.cap k d' = i
    · -- the freed slot lies on the path of `j`: then the next probe position is FREE — impossible
      rw [hpi, slot_i] at hfr
      by_cases hnf : (t.slot ((i + 1) % t.cap)).isFree = true
      · have hnext : probe hashOf t.cap k (d' + 1) = (i + 1) % t.cap := by rw [probe_succ, hpi]
        have hfree : t.slot (probe hashOf t.cap k (d' + 1)) = .free := by
          rw [hnext]; generalize t.slot ((i + 1) % t.cap) = sl at hnf
          cases sl <;> simp [Slot.isFree] at hnf; rfl
        by_cases hlt : d' + 1 < d
        · exact hpa (d' + 1) hlt hfree
        · have : d' + 1 = d := by omega
          rw [this, hpd, hs] at hfree; cases hfree
      · rw [if_neg hnf] at hfr; cases hfr
    · rw [slot_ne _ hpi] at hfr
      exact hpa d' hd' hfr
  · intro a b st st' k v v' ha hb hs hs'
    rw [cap_eq] at ha hb
    have hai : a ≠ i := by intro e; subst e; rw [slot_i] at hs; split at hs <;> cases hs
    have hbi : b ≠ i := by intro e; subst e; rw [slot_i] at hs'; split at hs' <;> cases hs'
    rw [slot_ne a hai] at hs; rw [slot_ne b hbi] at hs'
    exact hI.distinct _ _ _ _ _ _ _ ha hb hs hs'
  · intro h0 j hj
    rw [cap_eq] at hj
    have h0' : t.len - 1 = 0 := h0
    by_cases hji : j = i
    · subst hji; rw [slot_i]; split <;> rfl
    · rw [slot_ne j hji]; exact hlen h0' j hj hji
  · intro _; rw [cap_eq]; exact hc

end
end R

namespace R
set_option linter.unusedSectionVars false
variable {κ ν : Type} [DecidableEq κ]
section
variable (hashOf : κ → Nat) (dbg : Bool)

theorem fofLoop_skip (t : Raw κ ν) (k : κ) :
    ∀ (n d fuel : Nat) (fd : Option Nat),
      (∀ d', d ≤ d' → d' < d + n → t.slot (probe hashOf t.cap k d') ≠ .free ∧ ¬ HasKey t k (probe hashOf t.cap k d')) →
      ∃ fd', fofLoop hashOf t k (fuel + n) (probe hashOf t.cap k d) fd =
               fofLoop hashOf t k fuel (probe hashOf t.cap k (d + n)) fd' ∧
        (fd' = fd ∨ ∃ d'', d ≤ d'' ∧ d'' < d + n ∧ t.slot (probe hashOf t.cap k d'') = .dead ∧
          fd' = some (probe hashOf t.cap k d'')) := by
  intro n
  induction n with
  | zero => intro d fuel fd _; exact ⟨fd, rfl, Or.inl rfl⟩
  | succ n ih =>
    intro d fuel fd h
    have hd := h d (Nat.le_refl _) (by omega)
    have hstep : ∀ fd1, ∃ fd', fofLoop hashOf t k (fuel + n) (probe hashOf t.cap k (d + 1)) fd1 =
        fofLoop hashOf t k fuel (probe hashOf t.cap k (d + 1 + n)) fd' ∧
        (fd' = fd1 ∨ ∃ d'', d + 1 ≤ d'' ∧ d'' < d + 1 + n ∧ t.slot (probe hashOf t.cap k d'') = .dead ∧
          fd' = some (probe hashOf t.cap k d'')) :=
      fun fd1 => ih (d + 1) fuel fd1 (fun d' h1 h2 => h d' (by omega) (by omega))
    rw [show fuel + (n + 1) = (fuel + n) + 1 by omega, show d + (n + 1) = d + 1 + n by omega]
    generalize hs : t.slot (probe hashOf t.cap k d) = sl at hd
    cases sl with
    | free => exact absurd rfl hd.1
    | dead =>
      obtain ⟨fd', e, hfd⟩ := hstep (some (probe hashOf t.cap k d))
      refine ⟨fd', ?_, ?_⟩
      · simp only [fofLoop, hs]; rw [← probe_succ]; exact e
      · rcases hfd with e' | ⟨d'', a, b, c, e'⟩
        · exact Or.inr ⟨d, Nat.le_refl _, by omega, hs, e'⟩
        · exact Or.inr ⟨d'', by omega, by omega, c, e'⟩
    | full st k' v =>
      have hne : k' ≠ k := by intro e; subst e; exact hd.2 ⟨st, v, hs⟩
      obtain ⟨fd', e, hfd⟩ := hstep fd
      refine ⟨fd', ?_, ?_⟩
      · simp only [fofLoop, hs, hne, and_false, ↓reduceIte]; rw [← probe_succ]; exact e
      · rcases hfd with e' | ⟨d'', a, b, c, e'⟩
        · exact Or.inl e'
        · exact Or.inr ⟨d'', by omega, by omega, c, e'⟩

/-- `find_or_free` on an absent key: terminates and returns a non-full slot on the key's probe path
before (or at) the first FREE slot -/
theorem fof_absent {t : Raw κ ν} (hI : RInv hashOf t) (hc : 0 < t.cap) {k : κ}
    (habs : ∀ i, i < t.cap → ¬ HasKey t k i) :
    ∃ p dp, fofLoop hashOf t k t.cap (home hashOf t.cap k) none = .ok (.error p) ∧
      dp < t.cap ∧ probe hashOf t.cap k dp = p ∧ (t.slot p).isFull = false ∧
      (∀ d', d' < dp → t.slot (probe hashOf t.cap k d') ≠ .free) := by
  obtain ⟨D, hD, hfree, hpath⟩ := exists_first_free hashOf hI hc k
  obtain ⟨fd', e, hfd⟩ := fofLoop_skip hashOf t k D 0 (t.cap - D) none
    (fun d' _ hd' => ⟨hpath d' (by omega), habs _ (probe_lt hashOf hc k d')⟩)
  rw [Nat.zero_add, show t.cap - D + D = t.cap by omega, probe_zero] at e
  rw [e, show t.cap - D = (t.cap - D - 1) + 1 by omega]
  simp only [fofLoop, hfree]
  rcases hfd with e' | ⟨d'', _, b, c, e'⟩
  · subst e'
    exact ⟨_, D, rfl, hD, rfl, by simp only [Option.getD_none]; rw [hfree]; rfl, hpath⟩
  · subst e'
    refine ⟨_, d'', rfl, by omega, rfl, by simp only [Option.getD_some]; rw [c]; rfl, fun d' hd' => hpath d' (by omega)⟩

/-- the map a table represents -/
def Holds (t : Raw κ ν) (k : κ) (v : ν) : Prop := ∃ i st, i < t.cap ∧ t.slot i = .full st k v

/-- C19, insertion of an absent key (no rehash needed): the table afterwards represents the old
map extended by `k ↦ v`, and the invariant holds again -/
theorem insert_absent_refines {t : Raw κ ν} (hI : RInv hashOf t) (hc : 0 < t.cap) {k : κ} {v : ν}
    (habs : ∀ i, i < t.cap → ¬ HasKey t k i)
    (hfree2 : ∀ p, (t.slot p).isFree = true → ∃ i, i < t.cap ∧ i ≠ p ∧ t.slot i = .free) :
    ∃ p, fofLoop hashOf t k t.cap (home hashOf t.cap k) none = .ok (.error p) ∧
      RInv hashOf (insertInSlot hashOf t p k v) ∧
      (∀ k' v', Holds (insertInSlot hashOf t p k v) k' v' ↔ ((k' = k ∧ v' = v) ∨ (k' ≠ k ∧ Holds t k' v'))) := by
  obtain ⟨p, dp, e, hdp, hp, hnf, hpath⟩ := fof_absent hashOf hI hc habs
  have hpc : p < t.cap := by rw [← hp]; exact probe_lt hashOf hc k dp
  refine ⟨p, e, insertInSlot_inv hashOf hI habs hdp hp hpath hnf (hfree2 p), ?_⟩
  intro k' v'
  have slot_eq : ∀ j, (insertInSlot hashOf t p k v).slot j = if j = p then .full (status hashOf k) k v else t.slot j :=
    insertInSlot_slot hashOf hpc k v
  have cap_eq : (insertInSlot hashOf t p k v).cap = t.cap := insertInSlot_cap hashOf t p k v
  constructor
  · rintro ⟨i, st, hi, hs⟩
    rw [cap_eq] at hi
    rw [slot_eq] at hs
    by_cases hip : i = p
    · rw [if_pos hip] at hs; cases hs; exact Or.inl ⟨rfl, rfl⟩
    · rw [if_neg hip] at hs
      refine Or.inr ⟨?_, i, st, hi, hs⟩
      intro e'; subst e'; exact habs i hi ⟨st, v', hs⟩
  · rintro (⟨rfl, rfl⟩ | ⟨hne, i, st, hi, hs⟩)
    · exact ⟨p, status hashOf k', by rw [cap_eq]; exact hpc, by rw [slot_eq, if_pos rfl]⟩
    · have hip : i ≠ p := by
        intro e'; subst e'; rw [hs] at hnf; simp [Slot.isFull] at hnf
      exact ⟨i, st, by rw [cap_eq]; exact hi, by rw [slot_eq, if_neg hip]; exact hs⟩

/-- lookups read the represented map (and always return) -/
theorem find_refines {t : Raw κ ν} (hI : RInv hashOf t) (hdb : DbgOk dbg t) (k : κ) :
    (∃ i v st, i < t.cap ∧ t.slot i = .full st k v ∧ find hashOf dbg t k = .ok (some i)) ∨
    ((∀ v, ¬ Holds t k v) ∧ find hashOf dbg t k = .ok none) := by
  by_cases h : ∃ i, i < t.cap ∧ HasKey t k i
  · obtain ⟨i, hi, st, v, hs⟩ := h
    exact Or.inl ⟨i, v, st, hi, hs, find_present hashOf dbg hI hdb hi hs⟩
  · right
    have habs : ∀ i, i < t.cap → ¬ HasKey t k i := fun i hi hk => h ⟨i, hi, hk⟩
    refine ⟨?_, find_absent hashOf dbg hI hdb habs⟩
    rintro v ⟨i, st, hi, hs⟩
    exact habs i hi ⟨st, v, hs⟩

#print axioms find_present
#print axioms find_absent
#print axioms insertInSlot_inv
#print axioms removeAtSlot_inv
#print axioms insert_absent_refines
#print axioms find_refines
end
end R

namespace R
/-! ### negative witness for defect D3 (pinned `find_or_free` reserves only one slot) -/
def fullOne : Raw Nat Nat := { slots := #[.full 1 1 10], len := 1, free := 0 }
/-- after `insert(1)` the pinned code leaves a 1-slot table with no FREE slot; looking up the
absent key 2 then walks the single slot forever (release build; a debug build stops at the
`debug_assert!(self.free > 0)` instead) -/
example : find (fun k => k) false fullOne 2 = .hang := by rfl
example : find (fun k => k) true fullOne 2 = .panic := by rfl
/-- …whereas the present key is still found -/
example : find (fun k => k) false fullOne 1 = .ok (some 0) := by rfl
end R

import BddProofs.Constrain
/-! Feasibility spike: restrict follows the Coudert–Madre relation `RestrictRel`. -/
namespace P

theorem cof_eq_of_suppGe {φ : Fn} {v m : Nat} (h : SuppGe φ m) (hvm : v < m) (b c : Bool) :
    cof φ v b = cof φ v c := by
  funext e; exact h _ _ (upd_agree e v b c m hvm)

theorem RestrictRel.supp {f g h : Fn} (r : RestrictRel f g h) : ∀ m, SuppGe f m → SuppGe h m := by
  induction r with
  | gzero f => intro m _; exact SuppGe.const _ _
  | gone f => intro m a; exact a
  | fconst f g _ _ => intro m a; exact a
  | same g _ => intro m _; exact SuppGe.const _ _
  | opp g _ => intro m _; exact SuppGe.const _ _
  | low f g h v _ _ _ _ ih => intro m a; exact ih m (suppGe_cof a)
  | high f g h v _ _ _ _ ih => intro m a; exact ih m (suppGe_cof a)
  | node f g h0 h1 v _ _ _ _ hd _ _ ih0 ih1 =>
    intro m a
    have hm : m ≤ v := by
      apply Classical.byContradiction
      intro hlt
      exact hd (cof_eq_of_suppGe a (by omega) _ _)
    exact suppGe_node hm (ih0 m (suppGe_cof a)) (ih1 m (suppGe_cof a))
  | abstr f g h v _ _ _ _ _ _ ih => intro m a; exact ih m a

theorem fn_ne_true {s : St} (hg : Good s) {r φ} (v : Valid s.nodes r φ) (hno : isOne r = false) :
    φ ≠ fun _ => true := by
  intro h; subst h
  obtain ⟨d, hd⟩ := v
  have := canonicity hg.inv hd (Den.one (nd := s.nodes))
  simp [isOne, this, Ref.one] at hno

theorem fn_ne_of_ref_ne {s : St} (hg : Good s) {r r' φ ψ} (v : Valid s.nodes r φ) (w : Valid s.nodes r' ψ)
    (hne : r ≠ r') : φ ≠ ψ := by
  intro h; subst h
  obtain ⟨d, hd⟩ := v; obtain ⟨d', hd'⟩ := w
  exact hne (canonicity hg.inv hd hd')

theorem restrict_spec : ∀ fuel s f g φf φg s' r, Good s → Valid s.nodes f φf → Valid s.nodes g φg →
    restrict fuel s f g = .ok (s', r) →
    Good s' ∧ Sub s.nodes s'.nodes ∧ ∃ h, Valid s'.nodes r h ∧ RestrictRel φf φg h := by
  intro fuel
  induction fuel with
  | zero => intro s f g φf φg s' r _ _ _ hres; simp [restrict] at hres
  | succ fuel ih =>
    intro s f g φf φg s' r hg vf vg hres
    have h1 := hg.inv.noterm
    have triv : ∀ {s0 : St} {x ψ}, Good s0 → s0.nodes = s.nodes → Valid s.nodes x ψ → RestrictRel φf φg ψ →
        (.ok (s0, x) : Res (St × Ref)) = .ok (s', r) →
        Good s' ∧ Sub s.nodes s'.nodes ∧ ∃ h, Valid s'.nodes r h ∧ RestrictRel φf φg h := by
      intro s0 x ψ hg0 hn0 vx hspec heq
      simp only [Except.ok.injEq, Prod.mk.injEq] at heq
      obtain ⟨rfl, rfl⟩ := heq
      rw [hn0]
      exact ⟨hg0, fun _ _ x => x, ψ, vx, hspec⟩
    unfold restrict at hres
    by_cases c : isZero g = true
    · rw [if_pos c] at hres
      have := zero_fn h1 c vg; subst this
      exact triv hg rfl Valid.zero (.gzero _) hres
    rw [if_neg c] at hres
    have hgnz : isZero g = false := by simpa using c
    have hgne : φg ≠ fun _ => false := fn_ne_false hg vg hgnz
    clear c
    by_cases c : (isOne g || isTerminal f) = true
    · rw [if_pos c] at hres
      simp only [Bool.or_eq_true] at c
      rcases c with c | c
      · have := one_fn h1 c vg; subst this
        exact triv hg rfl vf (.gone _) hres
      · refine triv hg rfl vf (.fconst _ _ hgne ?_) hres
        simp only [isTerminal, Bool.or_eq_true] at c
        rcases c with c | c
        · exact Or.inl (one_fn h1 c vf)
        · exact Or.inr (zero_fn h1 c vf)
    rw [if_neg c] at hres
    have hgno : isOne g = false := by
      cases h : isOne g <;> simp_all
    have hfnt : isTerminal f = false := by
      cases h : isTerminal f <;> simp_all
    clear c
    by_cases c : f = g
    · rw [if_pos c] at hres
      have := eq_fn h1 c vf vg; subst this
      exact triv hg rfl Valid.one (.same _ hgne) hres
    rw [if_neg c] at hres
    have hfg : f ≠ g := c
    clear c
    by_cases c : f = g.not
    · rw [if_pos c] at hres
      have := not_fn h1 c vf vg; subst this
      exact triv hg rfl Valid.zero (.opp _ hgne) hres
    rw [if_neg c] at hres
    have hfng : f ≠ g.not := c
    clear c
    cases hc : (s.cacheGet (.restrict f g)).2 with
    | some res =>
      simp only [hc] at hres
      obtain ⟨a, b, h, va, vb, vh, hspec⟩ := hg.cacheHit hc
      have e1 := vf.det h1 va; have e2 := vg.det h1 vb
      subst e1; subst e2
      exact triv (hg.cacheGet _) rfl vh hspec hres
    | none =>
    simp only [hc] at hres
    have hgX := hg.cacheGet (.restrict f g)
    generalize hsX : (s.cacheGet (.restrict f g)).1 = sX at hres hgX
    have hnX : sX.nodes = s.nodes := by rw [← hsX]; rfl
    rw [← hnX] at vf vg h1 ⊢
    clear triv
    have hgnt : isTerminal g = false := by simp [isTerminal, hgnz, hgno]
    obtain ⟨nf, hnf, hvf, hnf0⟩ := nonterm_stored hgX vf hfnt
    obtain ⟨ng, hng, hvg, hng0⟩ := nonterm_stored hgX vg hgnt
    -- the pair is non-terminal semantically
    have hntp : NonTerminalPair φf φg := by
      refine ⟨hgne, fn_ne_true hgX vg hgno, ?_, fn_ne_of_ref_ne hgX vf vg hfg, fn_ne_of_ref_ne hgX vf vg.not hfng⟩
      intro hcst
      simp only [isTerminal, Bool.or_eq_false_iff] at hfnt
      rcases hcst with h | h
      · exact fn_ne_true hgX vf hfnt.1 h
      · exact fn_ne_false hgX vf hfnt.2 h
    generalize hv : min (sX.var f) (sX.var g) = v at hres
    have hvf' : v ≤ sX.var f := by omega
    have hvg' : v ≤ sX.var g := by omega
    have sf : SuppGe φf v := supp_of_var hgX vf (fun _ => hvf')
    have sg : SuppGe φg v := supp_of_var hgX vg (fun _ => hvg')
    -- whoever has variable `v` depends on it
    have dep : ∀ {x : Ref} {φ : Fn} {n : Node}, Valid sX.nodes x φ → sX.nodes x.idx = some n → n.var = v → DependsOn φ v := by
      intro x φ n vx hn hnv heq
      have sx : SuppGe φ v := by
        obtain ⟨d, hd⟩ := vx
        exact hd.supp hgX.inv _ (Or.inr ⟨n, hn, by omega⟩)
      have := topGe_of_supp hgX.inv vx (supp_succ_of_cof_eq sx heq)
      rcases this with h | ⟨m, hm, hle⟩
      · rw [h, hgX.inv.noterm] at hn; cases hn
      · rw [hn] at hm; cases hm; omega
    have htop : IsTop φf φg v := by
      refine ⟨sf, sg, ?_⟩
      by_cases hvi : v = sX.var f
      · exact Or.inl (dep vf hnf (by omega))
      · exact Or.inr (dep vg hng (by omega))
    cases hcf : topCofactors sX f v with
    | error e => simp [hcf] at hres
    | ok pf =>
    cases hcg : topCofactors sX g v with
    | error e => simp [hcf, hcg] at hres
    | ok pg =>
    obtain ⟨f0, f1⟩ := pf; obtain ⟨g0, g1⟩ := pg
    simp only [hcf, hcg] at hres
    obtain ⟨vf0, vf1⟩ := topCofactors_spec hgX vf sf hcf
    obtain ⟨vg0, vg1⟩ := topCofactors_spec hgX vg sg hcg
    by_cases c : isZero g1 = true
    · rw [if_pos c] at hres
      obtain ⟨x, y, h, vh, hs⟩ := ih _ _ _ _ _ _ _ hgX vf0 vg0 hres
      exact ⟨x, y, h, vh, .low _ _ _ v hntp htop (zero_fn h1 c vg1) hs⟩
    rw [if_neg c] at hres
    have hg1nz : isZero g1 = false := by simpa using c
    clear c
    by_cases c : isZero g0 = true
    · rw [if_pos c] at hres
      obtain ⟨x, y, h, vh, hs⟩ := ih _ _ _ _ _ _ _ hgX vf1 vg1 hres
      exact ⟨x, y, h, vh, .high _ _ _ v hntp htop (zero_fn h1 c vg0) hs⟩
    rw [if_neg c] at hres
    have hg0nz : isZero g0 = false := by simpa using c
    clear c
    have ne1 := fn_ne_false hgX vg1 hg1nz
    have ne0 := fn_ne_false hgX vg0 hg0nz
    by_cases c : v = sX.var f
    · rw [if_pos c] at hres
      have hdep : DependsOn φf v := dep vf hnf (by omega)
      cases e1 : restrict fuel sX f0 g0 with
      | error e => simp [e1] at hres
      | ok p1 =>
      obtain ⟨s1, low⟩ := p1
      simp only [e1] at hres
      obtain ⟨g1', sub1, h0, vh0, sp0⟩ := ih _ _ _ _ _ _ _ hgX vf0 vg0 e1
      cases e2 : restrict fuel s1 f1 g1 with
      | error e => simp [e2] at hres
      | ok p2 =>
      obtain ⟨s2, high⟩ := p2
      simp only [e2] at hres
      obtain ⟨g2', sub2, hh1, vh1, sp1⟩ := ih _ _ _ _ _ _ _ g1' (vf1.mono sub1) (vg1.mono sub1) e2
      cases e3 : mkNode s2 v low high with
      | error e => simp [e3] at hres
      | ok p3 =>
      obtain ⟨s3, res⟩ := p3
      simp only [e3, Except.ok.injEq, Prod.mk.injEq] at hres
      obtain ⟨rfl, rfl⟩ := hres
      obtain ⟨g3', sub3, _, vres⟩ := mkNode_spec g2' (vh0.mono sub2) vh1
        (sp0.supp _ (suppGe_cof_succ sf)) (sp1.supp _ (suppGe_cof_succ sf)) e3
      have sub03 : Sub sX.nodes s3.nodes := fun i n x => sub3 _ _ (sub2 _ _ (sub1 _ _ x))
      have hrel := RestrictRel.node _ _ _ _ v hntp htop ne1 ne0 hdep sp0 sp1
      exact ⟨g3'.cacheInsert ⟨φf, φg, _, vf.mono sub03, vg.mono sub03, vres, hrel⟩, sub03, _, vres, hrel⟩
    · rw [if_neg c] at hres
      have hndep : ¬ DependsOn φf v := by
        intro hd; apply hd
        have : SuppGe φf (v + 1) := supp_of_var hgX vf (fun _ => by omega)
        rw [cof_of_supp this, cof_of_supp this]
      cases e1 : applyIte fuel sX g1 Ref.one g0 with
      | error e => simp [e1] at hres
      | ok p1 =>
      obtain ⟨s1, g'⟩ := p1
      simp only [e1] at hres
      obtain ⟨g1', sub1, vg'⟩ := applyIte_spec fuel _ _ _ _ _ _ _ _ _ hgX vg1 Valid.one vg0 e1
      have hor : ITE (cof φg v true) (fun _ => true) (cof φg v false) = FnOr (cof φg v true) (cof φg v false) := by
        funext e; simp only [ITE, FnOr]; by_cases h : cof φg v true e = true <;> simp [h]
      rw [hor] at vg'
      cases e2 : restrict fuel s1 f g' with
      | error e => simp [e2] at hres
      | ok p2 =>
      obtain ⟨s2, res⟩ := p2
      simp only [e2, Except.ok.injEq, Prod.mk.injEq] at hres
      obtain ⟨rfl, rfl⟩ := hres
      obtain ⟨g2', sub2, h, vh, sp⟩ := ih _ _ _ _ _ _ _ g1' (vf.mono sub1) vg' e2
      have sub02 : Sub sX.nodes s2.nodes := fun i n x => sub2 _ _ (sub1 _ _ x)
      have hrel := RestrictRel.abstr _ _ _ v hntp htop ne1 ne0 hndep sp
      exact ⟨g2'.cacheInsert ⟨φf, φg, _, vf.mono sub02, vg.mono sub02, vh, hrel⟩, sub02, _, vh, hrel⟩

#print axioms restrict_spec
end P

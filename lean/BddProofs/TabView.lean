import BddProofs.Sweep
import BddModel.Table
/-! Feasibility spike: the unique table's `alloc`/`add`/`put` over hash chains keep the table
invariant and implement lookup-or-insert (the `StoreLaws.put_spec` of DESIGN Appendix A). -/
namespace S

structure Tab (α : Type) where
  val : Nat → α
  nx : Nat → Nat
  occ : Nat → Bool
  bucket : Nat → Nat
  nb : Nat
  cap : Nat
  minFree : Nat
  lastIndex : Nat
  realSize : Nat

set_option linter.unusedSectionVars false
variable {α : Type} [DecidableEq α]

abbrev TFault := P.Fault

export P (firstFree)

def Tab.alloc (t : Tab α) : Except TFault (Tab α × Nat) :=
  let i := firstFree t.occ (t.lastIndex + 1 - t.minFree) t.minFree
  if i ≥ t.cap then .error .storageFull else
  .ok ({ t with occ := fun j => if j = i then true else t.occ j,
                 minFree := i + 1, realSize := t.realSize + 1,
                 lastIndex := if i > t.lastIndex then i else t.lastIndex }, i)

def Tab.add (t : Tab α) (v : α) : Except TFault (Tab α × Nat) :=
  match t.alloc with
  | .error e => .error e
  | .ok (t1, i) =>
    .ok ({ t1 with val := fun j => if j = i then v else t1.val j,
                    nx := fun j => if j = i then 0 else t1.nx j }, i)

def Tab.setNext (t : Tab α) (i x : Nat) : Tab α := { t with nx := fun j => if j = i then x else t.nx j }
def Tab.setBucket (t : Tab α) (b x : Nat) : Tab α := { t with bucket := fun j => if j = b then x else t.bucket j }

/-- the chain walk of `put` -/
def putLoop (t : Tab α) (v : α) : Nat → Nat → Except TFault (Tab α × Nat)
  | 0, _ => .error .outOfFuel
  | fuel + 1, idx =>
    if t.val idx = v then .ok (t, idx) else
    if t.nx idx = 0 then
      match t.add v with
      | .error e => .error e
      | .ok (t1, i) => .ok (t1.setNext idx i, i)
    else putLoop t v fuel (t.nx idx)

def Tab.put (hash : α → Nat) (t : Tab α) (v : α) : Except TFault (Tab α × Nat) :=
  let b := hash v % t.nb
  let idx := t.bucket b
  if idx = 0 then
    match t.add v with
    | .error e => .error e
    | .ok (t1, i) => .ok (t1.setBucket b i, i)
  else putLoop t v t.cap idx

/-! ### invariant -/

structure TInv (hash : α → Nat) (t : Tab α) (chains : Nat → List Nat) : Prop where
  nbPos : 0 < t.nb
  chain : ∀ b, b < t.nb → Chain t.nx (t.bucket b) (chains b)
  mem : ∀ b, b < t.nb → ∀ i, i ∈ chains b → 2 ≤ i ∧ i ≤ t.lastIndex ∧ t.occ i = true ∧ hash (t.val i) % t.nb = b
  nodup : ∀ b, b < t.nb → (chains b).Nodup
  complete : ∀ i, 2 ≤ i → t.occ i = true → i ∈ chains (hash (t.val i) % t.nb)
  distinct : ∀ i j, 2 ≤ i → 2 ≤ j → t.occ i = true → t.occ j = true → t.val i = t.val j → i = j
  occ01 : t.occ 0 = true ∧ t.occ 1 = true
  lastLt : t.lastIndex < t.cap
  lastGe : 1 ≤ t.lastIndex
  above : ∀ i, t.lastIndex < i → t.occ i = false
  below : ∀ i, 1 ≤ i → i < t.minFree → t.occ i = true
  minFreeGe : 1 ≤ t.minFree
  minFreeLe : t.minFree ≤ t.lastIndex + 1

theorem firstFree_spec (occ : Nat → Bool) : ∀ n i,
    i ≤ firstFree occ n i ∧ firstFree occ n i ≤ i + n ∧
    (∀ j, i ≤ j → j < firstFree occ n i → occ j = true) ∧
    (firstFree occ n i < i + n → occ (firstFree occ n i) = false) := by
  intro n
  induction n with
  | zero => intro i; simp [firstFree]; intro j h1 h2; omega
  | succ n ih =>
    intro i
    simp only [firstFree]
    by_cases h : occ i = true
    · rw [if_pos h]
      obtain ⟨a, b, c, d⟩ := ih (i + 1)
      refine ⟨by omega, by omega, ?_, fun hlt => d (by omega)⟩
      intro j h1 h2
      by_cases hj : j = i
      · subst hj; exact h
      · exact c j (by omega) h2
    · rw [if_neg h]
      refine ⟨Nat.le_refl _, by omega, fun j h1 h2 => by omega, fun _ => by simpa using h⟩

/-- `alloc` hands out a free cell ≥ 2, the lowest one at or above `min_free`, and grows the
high-water mark only when `1..=last_index` is full -/
theorem alloc_spec {hash : α → Nat} {t : Tab α} {chains} (hI : TInv hash t chains) {t' i}
    (h : t.alloc = .ok (t', i)) :
    2 ≤ i ∧ i < t.cap ∧ t.occ i = false ∧ t'.occ = (fun j => if j = i then true else t.occ j) ∧
    t'.val = t.val ∧ t'.nx = t.nx ∧ t'.bucket = t.bucket ∧ t'.nb = t.nb ∧ t'.cap = t.cap ∧
    t'.minFree = i + 1 ∧ t'.realSize = t.realSize + 1 ∧
    (i ≤ t.lastIndex → t'.lastIndex = t.lastIndex) ∧ (t.lastIndex < i → i = t.lastIndex + 1 ∧ t'.lastIndex = i) ∧
    (∀ j, 1 ≤ j → j < i → t.occ j = true) := by
  unfold Tab.alloc at h
  obtain ⟨a, b, c, d⟩ := firstFree_spec t.occ (t.lastIndex + 1 - t.minFree) t.minFree
  generalize firstFree t.occ (t.lastIndex + 1 - t.minFree) t.minFree = k at *
  simp only at h
  by_cases hk : k ≥ t.cap
  · rw [if_pos hk] at h; cases h
  rw [if_neg hk] at h
  simp only [Except.ok.injEq, Prod.mk.injEq] at h
  obtain ⟨rfl, rfl⟩ := h
  have hall : ∀ j, 1 ≤ j → j < k → t.occ j = true := by
    intro j h1 h2
    by_cases hj : j < t.minFree
    · exact hI.below j h1 hj
    · exact c j (by omega) h2
  have hfree : t.occ k = false := by
    by_cases hlt : k < t.minFree + (t.lastIndex + 1 - t.minFree)
    · exact d hlt
    · exact hI.above k (by have := hI.minFreeGe; omega)
  have hk2 : 2 ≤ k := by
    have := hI.minFreeGe
    have h1 := hI.occ01.2
    by_cases hk1 : k = 1
    · rw [hk1] at hfree; rw [hfree] at h1; cases h1
    · omega
  refine ⟨hk2, by omega, hfree, rfl, rfl, rfl, rfl, rfl, rfl, rfl, rfl, ?_, ?_, hall⟩
  · intro hle; simp only; rw [if_neg (by omega)]
  · intro hlt; simp only; rw [if_pos hlt]
    refine ⟨?_, rfl⟩
    -- everything in 1..=last_index is occupied, so k is exactly last_index + 1
    have := hI.minFreeLe
    omega


/-- a fresh index is in no chain -/
theorem TInv.not_mem_of_free {hash : α → Nat} {t : Tab α} {chains} (hI : TInv hash t chains) {i b}
    (hb : b < t.nb) (hfree : t.occ i = false) : i ∉ chains b := by
  intro hm
  have := (hI.mem b hb i hm).2.2.1
  rw [hfree] at this; cases this

/-- the generic step: appending a fresh cell `i` holding `v` to the chain of `v`'s bucket -/
theorem tinv_insert {hash : α → Nat} {t t2 : Tab α} {chains} (hI : TInv hash t chains) {i b : Nat} {v : α}
    (hb : b = hash v % t.nb) (hi2 : 2 ≤ i) (hicap : i < t.cap) (hfree : t.occ i = false)
    (hbelow : ∀ j, 1 ≤ j → j < i → t.occ j = true)
    (hnew : ∀ j, j ∈ chains b → t.val j ≠ v)
    (hocc : t2.occ = fun j => if j = i then true else t.occ j)
    (hval : t2.val = fun j => if j = i then v else t.val j)
    (hnb : t2.nb = t.nb) (hcap : t2.cap = t.cap) (hmin : t2.minFree = i + 1)
    (hlast : t2.lastIndex = if i > t.lastIndex then i else t.lastIndex)
    (hgrow : t.lastIndex < i → i = t.lastIndex + 1)
    (hchainb : Chain t2.nx (t2.bucket b) (chains b ++ [i]))
    (hother : ∀ b', b' < t.nb → b' ≠ b → Chain t2.nx (t2.bucket b') (chains b')) :
    TInv hash t2 (fun b' => if b' = b then chains b ++ [i] else chains b') := by
  have hbn : b < t.nb := by rw [hb]; exact Nat.mod_lt _ hI.nbPos
  have hlastge : t.lastIndex ≤ t2.lastIndex := by rw [hlast]; split <;> omega
  have hilast : i ≤ t2.lastIndex := by rw [hlast]; split <;> omega
  have occ_ne : ∀ j, j ≠ i → t2.occ j = t.occ j := by intro j hj; rw [hocc]; simp [hj]
  have occ_i : t2.occ i = true := by rw [hocc]; simp
  have val_ne : ∀ j, j ≠ i → t2.val j = t.val j := by intro j hj; rw [hval]; simp [hj]
  have val_i : t2.val i = v := by rw [hval]; simp
  have ne_of_occ : ∀ j, t.occ j = true → j ≠ i := by
    intro j hj e; subst e; rw [hfree] at hj; cases hj
  refine ⟨by rw [hnb]; exact hI.nbPos, ?_, ?_, ?_, ?_, ?_, ?_, ?_, ?_, ?_, ?_, ?_, ?_⟩
  · intro b' hb'
    rw [hnb] at hb'
    by_cases e : b' = b
    · subst e; simpa using hchainb
    · simp only [e, ↓reduceIte]; exact hother b' hb' e
  · intro b' hb' j hj
    rw [hnb] at hb' ⊢
    by_cases e : b' = b
    · subst e
      simp only [↓reduceIte, List.mem_append, List.mem_singleton] at hj
      rcases hj with hj | hj
      · obtain ⟨a1, a2, a3, a4⟩ := hI.mem b' hb' j hj
        have hji := ne_of_occ j a3
        exact ⟨a1, by omega, by rw [occ_ne j hji]; exact a3, by rw [val_ne j hji]; exact a4⟩
      · subst hj
        exact ⟨hi2, hilast, occ_i, by rw [val_i]; exact hb.symm⟩
    · simp only [e, ↓reduceIte] at hj
      obtain ⟨a1, a2, a3, a4⟩ := hI.mem b' hb' j hj
      have hji := ne_of_occ j a3
      exact ⟨a1, by omega, by rw [occ_ne j hji]; exact a3, by rw [val_ne j hji]; exact a4⟩
  · intro b' hb'
    rw [hnb] at hb'
    by_cases e : b' = b
    · subst e
      simp only [↓reduceIte]
      rw [List.nodup_append]
      refine ⟨hI.nodup b' hb', by simp, ?_⟩
      intro x hx y hy
      simp only [List.mem_singleton] at hy
      subst hy
      intro exy; subst exy
      exact hI.not_mem_of_free hb' hfree hx
    · simp only [e, ↓reduceIte]; exact hI.nodup b' hb'
  · intro j hj2 hocc'
    rw [hnb]
    by_cases hji : j = i
    · subst hji
      rw [val_i, ← hb]; simp
    · rw [occ_ne j hji] at hocc'
      rw [val_ne j hji]
      have := hI.complete j hj2 hocc'
      by_cases e : hash (t.val j) % t.nb = b
      · rw [e] at this ⊢; simp only [↓reduceIte]; exact List.mem_append_left _ this
      · simp only [e, ↓reduceIte]; exact this
  · intro j k hj2 hk2 hoj hok hv
    by_cases hji : j = i <;> by_cases hki : k = i
    · rw [hji, hki]
    · exfalso
      subst hji
      rw [occ_ne k hki] at hok
      rw [val_i, val_ne k hki] at hv
      have hm := hI.complete k hk2 hok
      rw [← hv, ← hb] at hm
      exact hnew k hm hv.symm
    · exfalso
      subst hki
      rw [occ_ne j hji] at hoj
      rw [val_i, val_ne j hji] at hv
      have hm := hI.complete j hj2 hoj
      rw [hv, ← hb] at hm
      exact hnew j hm hv
    · rw [occ_ne j hji] at hoj; rw [occ_ne k hki] at hok
      rw [val_ne j hji, val_ne k hki] at hv
      exact hI.distinct j k hj2 hk2 hoj hok hv
  · exact ⟨by rw [occ_ne 0 (by omega)]; exact hI.occ01.1, by rw [occ_ne 1 (by omega)]; exact hI.occ01.2⟩
  · rw [hcap, hlast]; split
    · exact hicap
    · exact hI.lastLt
  · have := hI.lastGe; omega
  · intro j hj
    have hji : j ≠ i := by omega
    rw [occ_ne j hji]; exact hI.above j (by omega)
  · intro j h1 h2
    rw [hmin] at h2
    by_cases hji : j = i
    · rw [hji]; exact occ_i
    · rw [occ_ne j hji]; exact hbelow j h1 (by omega)
  · rw [hmin]; omega
  · rw [hmin]; omega


theorem Chain.head_zero_iff {nx h l} (c : Chain nx h l) : h = 0 ↔ l = [] := by
  cases c with
  | nil => simp
  | cons h0 _ => simp [h0]

/-- appending a fresh cell after the tail -/
theorem Chain.snoc {nx : Nat → Nat} {i : Nat} (hi0 : i ≠ 0) : ∀ {h l}, Chain nx h l → l ≠ [] → l.Nodup → i ∉ l →
    ∀ tl, l.getLast? = some tl →
    Chain (fun j => if j = tl then i else if j = i then 0 else nx j) h (l ++ [i]) := by
  intro h l c
  induction c with
  | nil => intro hne; exact absurd rfl hne
  | @cons h l h0 c' ih =>
    intro _ nd hi tl htl
    have hih : i ≠ h := fun e => hi (e ▸ List.mem_cons_self)
    by_cases hl : l = []
    · subst hl
      simp at htl; subst htl
      refine .cons h0 ?_
      simp only [↓reduceIte, List.nil_append]
      refine .cons hi0 ?_
      simp only [hih, ↓reduceIte]
      exact .nil
    · have htl' : l.getLast? = some tl := by
        rw [List.getLast?_cons_of_ne_nil hl] at htl; exact htl
      have htlm : tl ∈ l := List.mem_of_getLast? htl'
      have hhtl : h ≠ tl := fun e => (List.nodup_cons.mp nd).1 (e ▸ htlm)
      have := ih hl (List.nodup_cons.mp nd).2 (fun hm => hi (List.mem_cons_of_mem _ hm)) tl htl'
      refine .cons h0 ?_
      simp only [hhtl, ↓reduceIte, Ne.symm hih, List.cons_append]
      exact this

theorem Chain.last_nx {nx h l} (c : Chain nx h l) : ∀ tl, l.getLast? = some tl → nx tl = 0 := by
  induction c with
  | nil => intro tl h; cases h
  | @cons h l h0 c' ih =>
    intro tl htl
    by_cases hl : l = []
    · subst hl; simp at htl; subst htl
      exact (c'.head_zero_iff).mpr rfl
    · rw [List.getLast?_cons_of_ne_nil hl] at htl; exact ih tl htl

/-- the chain walk either finds the value or reaches the tail and appends -/
theorem putLoop_spec (t : Tab α) (v : α) : ∀ (l : List Nat) (idx fuel : Nat), Chain t.nx idx l → l ≠ [] →
    l.length ≤ fuel →
    (∃ j, j ∈ l ∧ t.val j = v ∧ putLoop t v fuel idx = .ok (t, j)) ∨
    ((∀ j, j ∈ l → t.val j ≠ v) ∧ ∃ tl, l.getLast? = some tl ∧
      putLoop t v fuel idx = (match t.add v with
        | .error e => .error e
        | .ok (t1, i) => .ok (t1.setNext tl i, i))) := by
  intro l
  induction l with
  | nil => intro idx fuel _ hne; exact absurd rfl hne
  | cons a l ih =>
    intro idx fuel c _ hlen
    cases c with
    | cons h0 c' =>
    cases fuel with
    | zero => simp at hlen
    | succ fuel =>
    by_cases hv : t.val a = v
    · left; exact ⟨a, List.mem_cons_self, hv, by simp [putLoop, hv]⟩
    · by_cases hl : l = []
      · subst hl
        have hnx : t.nx a = 0 := (c'.head_zero_iff).mpr rfl
        right
        refine ⟨fun j hj => by simp at hj; subst hj; exact hv, a, by simp, ?_⟩
        simp [putLoop, hv, hnx]
      · have hnx : t.nx a ≠ 0 := fun e => hl ((c'.head_zero_iff).mp e)
        rcases ih (t.nx a) fuel c' hl (by simpa using hlen) with ⟨j, hj, hvj, hp⟩ | ⟨hall, tl, htl, hp⟩
        · left; exact ⟨j, List.mem_cons_of_mem _ hj, hvj, by simp [putLoop, hv, hnx, hp]⟩
        · right
          refine ⟨fun j hj => ?_, tl, by rw [List.getLast?_cons_of_ne_nil hl]; exact htl, by simp [putLoop, hv, hnx, hp]⟩
          rcases List.mem_cons.mp hj with e | e
          · subst e; exact hv
          · exact hall j e


theorem add_spec {hash : α → Nat} {t : Tab α} {chains} (hI : TInv hash t chains) {v : α} {t2 i}
    (h : t.add v = .ok (t2, i)) :
    2 ≤ i ∧ i < t.cap ∧ t.occ i = false ∧ t2.occ = (fun j => if j = i then true else t.occ j) ∧
    t2.val = (fun j => if j = i then v else t.val j) ∧ t2.nx = (fun j => if j = i then 0 else t.nx j) ∧
    t2.bucket = t.bucket ∧ t2.nb = t.nb ∧ t2.cap = t.cap ∧ t2.minFree = i + 1 ∧
    t2.lastIndex = (if i > t.lastIndex then i else t.lastIndex) ∧ (t.lastIndex < i → i = t.lastIndex + 1) ∧
    (∀ j, 1 ≤ j → j < i → t.occ j = true) := by
  unfold Tab.add at h
  cases ha : t.alloc with
  | error e => simp [ha] at h
  | ok p =>
    obtain ⟨t1, k⟩ := p
    simp only [ha, Except.ok.injEq, Prod.mk.injEq] at h
    obtain ⟨rfl, rfl⟩ := h
    obtain ⟨a1, a2, a3, a4, a5, a6, a7, a8, a9, a10, _, a12, a13, a14⟩ := alloc_spec hI ha
    refine ⟨a1, a2, a3, a4, by simp [a5], by simp [a6], a7, a8, a9, a10, ?_, fun h => (a13 h).1, a14⟩
    simp only
    split
    · rename_i hgt; exact (a13 hgt).2
    · rename_i hle; exact a12 (by omega)

/-- `put` is lookup-or-insert and keeps the table invariant (C17; `StoreLaws.put_spec`) -/
theorem put_spec {hash : α → Nat} {t : Tab α} {chains} (hI : TInv hash t chains) {v : α} {t' i}
    (hlen : (chains (hash v % t.nb)).length ≤ t.cap)
    (h : t.put hash v = .ok (t', i)) :
    (2 ≤ i ∧ t.occ i = true ∧ t.val i = v ∧ t' = t) ∨
    ((∀ j, 2 ≤ j → t.occ j = true → t.val j ≠ v) ∧ 2 ≤ i ∧ t.occ i = false ∧
      t'.occ = (fun j => if j = i then true else t.occ j) ∧ t'.val = (fun j => if j = i then v else t.val j) ∧
      ∃ chains', TInv hash t' chains') := by
  have hbn : hash v % t.nb < t.nb := Nat.mod_lt _ hI.nbPos
  generalize hb : hash v % t.nb = b at *
  have hc := hI.chain b hbn
  have notfound_all : (∀ j, j ∈ chains b → t.val j ≠ v) → ∀ j, 2 ≤ j → t.occ j = true → t.val j ≠ v := by
    intro hall j hj2 hoj hv
    have := hI.complete j hj2 hoj
    rw [hv, hb] at this
    exact hall j this hv
  unfold Tab.put at h
  simp only [hb] at h
  by_cases h0 : t.bucket b = 0
  · -- empty bucket
    rw [if_pos h0] at h
    have hnil : chains b = [] := (hc.head_zero_iff).mp h0
    cases ha : t.add v with
    | error e => simp [ha] at h
    | ok p =>
      obtain ⟨t2, k⟩ := p
      simp only [ha, Except.ok.injEq, Prod.mk.injEq] at h
      obtain ⟨rfl, rfl⟩ := h
      obtain ⟨a1, a2, a3, a4, a5, a6, a7, a8, a9, a10, a11, a12, a13⟩ := add_spec hI ha
      have hall : ∀ j, j ∈ chains b → t.val j ≠ v := by intro j hj; rw [hnil] at hj; cases hj
      right
      refine ⟨notfound_all hall, a1, a3, a4, a5, _, tinv_insert hI hb.symm a1 a2 a3 a13 hall a4 a5 a8 a9 a10 a11 a12 ?_ ?_⟩
      · simp only [Tab.setBucket, ↓reduceIte, hnil, List.nil_append, a6]
        refine .cons (by omega) ?_
        simp only [↓reduceIte]; exact .nil
      · intro b' hb' hne
        simp only [Tab.setBucket, hne, ↓reduceIte, a6, a7]
        exact (hI.chain b' hb').frame k 0 (hI.not_mem_of_free hb' a3)
  · -- walk the chain
    rw [if_neg h0] at h
    have hne : chains b ≠ [] := fun e => h0 ((hc.head_zero_iff).mpr e)
    rcases putLoop_spec t v (chains b) (t.bucket b) t.cap hc hne hlen with ⟨j, hj, hvj, hp⟩ | ⟨hall, tl, htl, hp⟩
    · rw [hp] at h
      simp only [Except.ok.injEq, Prod.mk.injEq] at h
      obtain ⟨rfl, rfl⟩ := h
      obtain ⟨m1, _, m3, _⟩ := hI.mem b hbn j hj
      exact Or.inl ⟨m1, m3, hvj, rfl⟩
    · rw [hp] at h
      cases ha : t.add v with
      | error e => simp [ha] at h
      | ok p =>
        obtain ⟨t2, k⟩ := p
        simp only [ha, Except.ok.injEq, Prod.mk.injEq] at h
        obtain ⟨rfl, rfl⟩ := h
        obtain ⟨a1, a2, a3, a4, a5, a6, a7, a8, a9, a10, a11, a12, a13⟩ := add_spec hI ha
        have htlm : tl ∈ chains b := List.mem_of_getLast? htl
        have hik : k ∉ chains b := hI.not_mem_of_free hbn a3
        right
        refine ⟨notfound_all hall, a1, a3, a4, a5, _,
          tinv_insert (t2 := t2.setNext tl k) hI hb.symm a1 a2 a3 a13 hall a4 a5 a8 a9 a10 a11 a12 ?_ ?_⟩
        · simp only [Tab.setNext, a6, a7]
          exact hc.snoc (by omega) hne (hI.nodup b hbn) hik tl htl
        · intro b' hb' hne'
          simp only [Tab.setNext, a6, a7]
          -- neither `tl` (it lives in chain `b`) nor `i` (fresh) is in chain `b'`
          have htl' : tl ∉ chains b' := by
            intro hm
            have e1 := (hI.mem b hbn tl htlm).2.2.2
            have e2 := (hI.mem b' hb' tl hm).2.2.2
            exact hne' (e2.symm.trans e1)
          have := ((hI.chain b' hb').frame k 0 (hI.not_mem_of_free hb' a3)).frame tl k htl'
          exact this

#print axioms put_spec

/-- C06: `alloc` reports "Storage is full" only when every cell `1 .. capacity-1` is occupied;
equivalently, a workload whose live set leaves one cell free can always allocate -/
theorem alloc_full_iff {hash : α → Nat} {t : Tab α} {chains} (hI : TInv hash t chains) :
    (∃ e, t.alloc = .error e) ↔ ∀ j, 1 ≤ j → j < t.cap → t.occ j = true := by
  unfold Tab.alloc
  obtain ⟨a, b, c, d⟩ := firstFree_spec t.occ (t.lastIndex + 1 - t.minFree) t.minFree
  generalize firstFree t.occ (t.lastIndex + 1 - t.minFree) t.minFree = k at *
  have hall : ∀ j, 1 ≤ j → j < k → t.occ j = true := by
    intro j h1 h2
    by_cases hj : j < t.minFree
    · exact hI.below j h1 hj
    · exact c j (by omega) h2
  simp only
  constructor
  · rintro ⟨e, he⟩
    by_cases hk : k ≥ t.cap
    · intro j h1 h2; exact hall j h1 (by omega)
    · rw [if_neg hk] at he; cases he
  · intro hfull
    have hk : k ≥ t.cap := by
      apply Classical.byContradiction
      intro hlt
      have hlt' : k < t.cap := by omega
      have hfree : t.occ k = false := by
        by_cases h : k < t.minFree + (t.lastIndex + 1 - t.minFree)
        · exact d h
        · exact hI.above k (by have := hI.minFreeGe; have := hI.minFreeLe; omega)
      have := hfull k (by have := hI.minFreeGe; omega) hlt'
      rw [hfree] at this; cases this
    exact ⟨.storageFull, by rw [if_pos hk]⟩

#print axioms alloc_full_iff

/-! ### negative witness for defect D6 -/

/-- the pinned `alloc`: the high-water mark is advanced *before* the capacity check, and the
mutation survives the panic -/
def Tab.allocPinned (t : Tab α) : Tab α × Except TFault Nat :=
  let i := firstFree t.occ (t.lastIndex + 1 - t.minFree) t.minFree
  let t1 := if i > t.lastIndex then { t with lastIndex := i } else t
  if i ≥ t.cap then (t1, .error .storageFull) else
  ({ t1 with occ := fun j => if j = i then true else t.occ j, minFree := i + 1, realSize := t.realSize + 1 }, .ok i)

/-- a full 4-cell table: cells 0..3 occupied, `last_index = 3` -/
def fullTab : Tab Nat :=
  { val := fun _ => 0, nx := fun _ => 0, occ := fun j => decide (j < 4), bucket := fun _ => 0,
    nb := 1, cap := 4, minFree := 4, lastIndex := 3, realSize := 3 }

/-- after the failed allocation the pinned code leaves `last_index = capacity`, which breaks
`lastIndex < capacity` (the next `alloc` then indexes cell 4 of a 4-cell vector) -/
example : (fullTab.allocPinned).1.lastIndex = 4 ∧ (fullTab.allocPinned).1.cap = 4 := ⟨rfl, rfl⟩
/-- the repaired `alloc` returns no new state on failure -/
example : fullTab.alloc = .error .storageFull := rfl

end S

import BddProofs.Raw
/-! RawTable on the executable array model — removal and replacement refine the map; `iter` under
the length invariant.  Port of `spikes/RawMore.lean`.  (`replaceAt`, `iterLoop` are model
definitions; `iterLoop` takes `dbg`: the out-of-range read is a `panic` in a debug build.) -/
namespace R
set_option linter.unusedSectionVars false
variable {κ ν : Type} [DecidableEq κ]
section
variable (hashOf : κ → Nat) (dbg : Bool)

/-- C19, removal of a present key: the table afterwards represents the old map without `k` -/
theorem remove_refines {t : Raw κ ν} (hI : RInv hashOf t) {k : κ} {i st v} (hi : i < t.cap)
    (hs : t.slot i = .full st k v) :
    ∀ k' v', Holds (removeAtSlot t i) k' v' ↔ (k' ≠ k ∧ Holds t k' v') := by
  intro k' v'
  have cap_eq : (removeAtSlot t i).cap = t.cap := removeAtSlot_cap t i
  have slot_ne : ∀ j, j ≠ i → (removeAtSlot t i).slot j = t.slot j := fun j hj => removeAtSlot_slot_ne t hj
  have slot_i : (removeAtSlot t i).slot i = if (t.slot ((i + 1) % t.cap)).isFree then .free else .dead :=
    removeAtSlot_slot_self hi
  constructor
  · rintro ⟨j, st', hj, hs'⟩
    rw [cap_eq] at hj
    have hji : j ≠ i := by
      intro e; subst e; rw [slot_i] at hs'; split at hs' <;> cases hs'
    rw [slot_ne j hji] at hs'
    refine ⟨?_, j, st', hj, hs'⟩
    intro e; subst e
    exact hji (hI.distinct _ _ _ _ _ _ _ hj hi hs' hs)
  · rintro ⟨hne, j, st', hj, hs'⟩
    have hji : j ≠ i := by
      intro e; subst e; rw [hs] at hs'; cases hs'; exact hne rfl
    exact ⟨j, st', by rw [cap_eq]; exact hj, by rw [slot_ne j hji]; exact hs'⟩

theorem replaceAt_eq {t : Raw κ ν} {k : κ} {i st v0} (hs : t.slot i = .full st k v0) (v : ν) :
    replaceAt t i v = t.setSlot i (.full st k v) := by
  simp only [replaceAt, hs]

theorem replaceAt_inv {t : Raw κ ν} (hI : RInv hashOf t) {k : κ} {i st v0} (hi : i < t.cap)
    (hs : t.slot i = .full st k v0) (v : ν) :
    RInv hashOf (replaceAt t i v) ∧
    (∀ k' v', Holds (replaceAt t i v) k' v' ↔ ((k' = k ∧ v' = v) ∨ (k' ≠ k ∧ Holds t k' v'))) ∧
    (replaceAt t i v).len = t.len := by
  have hrep : replaceAt t i v = t.setSlot i (.full st k v) := replaceAt_eq hs v
  have slot_eq : ∀ j, (replaceAt t i v).slot j = if j = i then .full st k v else t.slot j := by
    intro j; rw [hrep]; exact Raw.slot_setSlot_lt hi j _
  have cap_eq : (replaceAt t i v).cap = t.cap := by rw [hrep]; exact Raw.cap_setSlot _ _ _
  have free_iff : ∀ j, (replaceAt t i v).slot j = .free ↔ t.slot j = .free := by
    intro j; rw [slot_eq]; by_cases e : j = i
    · subst e; simp [hs]
    · simp [e]
  refine ⟨⟨?_, ?_, ?_, ?_, ?_⟩, ?_, by rw [hrep]; rfl⟩
  · rcases hI.hasFree with h | ⟨j, hj, hf⟩
    · exact Or.inl (by rw [cap_eq]; exact h)
    · exact Or.inr ⟨j, by rw [cap_eq]; exact hj, (free_iff j).mpr hf⟩
  · intro j st' k' v' hj hs'
    rw [cap_eq] at hj ⊢
    rw [slot_eq] at hs'
    have old : ∃ v'', t.slot j = .full st' k' v'' := by
      by_cases e : j = i
      · subst e; rw [if_pos rfl] at hs'; cases hs'; exact ⟨v0, hs⟩
      · rw [if_neg e] at hs'; exact ⟨v', hs'⟩
    obtain ⟨v'', hold⟩ := old
    obtain ⟨a, d, hd, hpd, hpa⟩ := hI.reach j st' k' v'' hj hold
    exact ⟨a, d, hd, hpd, fun d' hd' hf => hpa d' hd' ((free_iff _).mp hf)⟩
  · intro a b st1 st2 k' v1 v2 ha hb hs1 hs2
    rw [cap_eq] at ha hb
    rw [slot_eq] at hs1 hs2
    have olda : ∃ w, t.slot a = .full st1 k' w := by
      by_cases e : a = i
      · subst e; rw [if_pos rfl] at hs1; cases hs1; exact ⟨v0, hs⟩
      · rw [if_neg e] at hs1; exact ⟨v1, hs1⟩
    have oldb : ∃ w, t.slot b = .full st2 k' w := by
      by_cases e : b = i
      · subst e; rw [if_pos rfl] at hs2; cases hs2; exact ⟨v0, hs⟩
      · rw [if_neg e] at hs2; exact ⟨v2, hs2⟩
    obtain ⟨w1, h1⟩ := olda; obtain ⟨w2, h2⟩ := oldb
    exact hI.distinct _ _ _ _ _ _ _ ha hb h1 h2
  · intro h0 j hj
    rw [cap_eq] at hj
    have hlen : t.len = 0 := by rw [hrep] at h0; exact h0
    have := hI.lenZero hlen i hi
    rw [hs] at this; simp [Slot.isFull] at this
  · intro h0; rw [cap_eq]; apply hI.lenPos; rw [hrep] at h0; exact h0
  · intro k' v'
    constructor
    · rintro ⟨j, st', hj, hs'⟩
      rw [cap_eq] at hj; rw [slot_eq] at hs'
      by_cases e : j = i
      · subst e; rw [if_pos rfl] at hs'; cases hs'; exact Or.inl ⟨rfl, rfl⟩
      · rw [if_neg e] at hs'
        refine Or.inr ⟨?_, j, st', hj, hs'⟩
        intro e'; subst e'
        exact e (hI.distinct _ _ _ _ _ _ _ hj hi hs' hs)
    · rintro (⟨rfl, rfl⟩ | ⟨hne, j, st', hj, hs'⟩)
      · exact ⟨i, st, by rw [cap_eq]; exact hi, by rw [slot_eq, if_pos rfl]⟩
      · have hji : j ≠ i := by intro e; subst e; rw [hs] at hs'; cases hs'; exact hne rfl
        exact ⟨j, st', by rw [cap_eq]; exact hj, by rw [slot_eq, if_neg hji]; exact hs'⟩

/-! ### `iter` -/

/-- values of the full slots in `[idx, idx + n)` -/
def fullVals (t : Raw κ ν) : Nat → Nat → List ν
  | 0, _ => []
  | n + 1, idx =>
    match t.slot idx with
    | .full _ _ v => v :: fullVals t n (idx + 1)
    | _ => fullVals t n (idx + 1)

/-- if `rem` is exactly the number of full slots ahead, the iterator yields exactly their values and
never runs off the end (in a debug build: no assertion fires either); pinned defect D4 breaks
precisely this hypothesis (`len` too large) -/
theorem iterLoop_spec (t : Raw κ ν) : ∀ (n idx rem : Nat) (acc : List ν), idx + n = t.cap →
    (fullVals t n idx).length = rem →
    iterLoop dbg t (n + 1) idx rem acc = .ok (acc.reverse ++ fullVals t n idx) := by
  intro n
  induction n with
  | zero =>
    intro idx rem acc _ hlen
    simp only [fullVals, List.length_nil] at hlen
    subst hlen; simp [iterLoop, fullVals]
  | succ n ih =>
    intro idx rem acc hcap hlen
    cases rem with
    | zero =>
      have : fullVals t (n + 1) idx = [] := List.eq_nil_of_length_eq_zero hlen
      simp [iterLoop, this]
    | succ rem =>
      have hlt : ¬ idx ≥ t.cap := by omega
      simp only [iterLoop, hlt, ↓reduceIte]
      simp only [fullVals] at hlen ⊢
      cases hs : t.slot idx with
      | full st k v =>
        simp only [hs] at hlen ⊢
        rw [ih (idx + 1) rem (v :: acc) (by omega) (by simpa using hlen)]
        simp
      | free =>
        simp only [hs] at hlen ⊢
        exact ih (idx + 1) (rem + 1) acc (by omega) hlen
      | dead =>
        simp only [hs] at hlen ⊢
        exact ih (idx + 1) (rem + 1) acc (by omega) hlen

/-- negative witness for D4: with `len = 2` over a single full slot the iterator runs off the end
(release: undefined behaviour, debug: the bounds assertion fires) -/
example : iterLoop false ({ slots := #[.full 1 1 10], len := 2, free := 0 } : Raw Nat Nat) 2 0 2 [] = .ub := rfl
example : iterLoop true ({ slots := #[.full 1 1 10], len := 2, free := 0 } : Raw Nat Nat) 2 0 2 [] = .panic := rfl

#print axioms remove_refines
#print axioms replaceAt_inv
#print axioms iterLoop_spec
end
end R

import BddProofs.Ite
/-! Feasibility spike: constrain is the generalized cofactor (closest-point semantics). -/
namespace P

/-! ### closest-point lemmas -/

theorem closest_true {x y : Env} (h : Closest (fun _ => true) x y) : y = x := by
  apply Classical.byContradiction
  intro hne
  have : ∃ i, y i ≠ x i := by
    apply Classical.byContradiction
    intro hcon
    apply hne; funext i
    apply Classical.byContradiction
    intro h'; exact hcon ⟨i, h'⟩
  -- least such i
  obtain ⟨i, hi, hmin⟩ : ∃ i, y i ≠ x i ∧ ∀ j, j < i → y j = x j := by
    obtain ⟨i0, hi0⟩ := this
    induction i0 using Nat.strongRecOn with
    | _ i0 ih =>
      by_cases hall : ∀ j, j < i0 → y j = x j
      · exact ⟨i0, hi0, hall⟩
      · have : ∃ j, j < i0 ∧ y j ≠ x j := by
          apply Classical.byContradiction
          intro hc; apply hall; intro j hj
          apply Classical.byContradiction
          intro h'; exact hc ⟨j, hj, h'⟩
        obtain ⟨j, hj, hjne⟩ := this
        exact ih j hj hjne
  exact hi (h.2 x rfl i ⟨hmin, hi⟩)

theorem upd_self {y : Env} {v : Nat} {b : Bool} (h : y v = b) : upd y v b = y := by
  funext w; by_cases hw : w = v
  · subst hw; simp [h]
  · exact upd_other _ _ _ _ hw

theorem upd_upd (y : Env) (v : Nat) (a b : Bool) : upd (upd y v a) v b = upd y v b := by
  funext w; by_cases hw : w = v
  · subst hw; simp
  · rw [upd_other _ _ _ _ hw, upd_other _ _ _ _ hw, upd_other _ _ _ _ hw]

/-- when the `v = !b` half of `g` is empty, the closest point of `cof g v b` to `x` is `y`
with `y v` reset to `x v` (and `y v = b`) -/
theorem closest_side {g : Fn} {v : Nat} {b : Bool} {x y : Env} (hgb : cof g v (!b) = fun _ => false)
    (h : Closest g x y) : y v = b ∧ Closest (cof g v b) x (upd y v (x v)) := by
  have hyv : y v = b := by
    apply Classical.byContradiction
    intro hne
    have hnb : y v = !b := by cases hy : y v <;> cases b <;> simp_all
    have := congrFun hgb y
    simp only [cof] at this
    rw [upd_self hnb, h.1] at this; cases this
  refine ⟨hyv, ?_, ?_⟩
  · show g (upd (upd y v (x v)) v b) = true
    rw [upd_upd, upd_self hyv]; exact h.1
  · intro z hz i hfd
    by_cases hi : i = v
    · subst hi; simp
    · rw [upd_other _ _ _ _ hi]
      apply h.2 (upd z v b) hz i
      constructor
      · intro j hj
        by_cases hjv : j = v
        · subst hjv; simp [hyv]
        · rw [upd_other _ _ _ _ hjv]
          have := hfd.1 j hj
          rwa [upd_other _ _ _ _ hjv] at this
      · rw [upd_other _ _ _ _ hi]
        have := hfd.2
        rwa [upd_other _ _ _ _ hi] at this

/-- when both halves of `g` are non-empty (and `g` ignores variables below `v`), the closest
point keeps `x v` and is the closest point of that half -/
theorem closest_split {g : Fn} {v : Nat} {x y : Env} (hs : SuppGe g v)
    (hne : ∀ b, cof g v b ≠ fun _ => false) (h : Closest g x y) :
    y v = x v ∧ Closest (cof g v (x v)) x y := by
  have hyv : y v = x v := by
    apply Classical.byContradiction
    intro hcon
    -- a point of the `x v` half
    have : ∃ w, cof g v (x v) w = true := by
      apply Classical.byContradiction
      intro hc
      apply hne (x v); funext w
      cases hw : cof g v (x v) w with
      | false => rfl
      | true => exact absurd ⟨w, hw⟩ hc
    obtain ⟨w, hw⟩ := this
    let z : Env := fun j => if j < v then y j else if j = v then x v else w j
    have hz : g z = true := by
      rw [← hw]; simp only [cof]
      apply hs
      intro j hj
      by_cases hjv : j = v
      · subst hjv; simp [z]
      · have : ¬ j < v := by omega
        simp [z, this, hjv, upd_other _ _ _ _ hjv]
    have hfd : FirstDiff y z v := by
      constructor
      · intro j hj; simp [z, hj]
      · simp [z]; exact hcon
    exact hcon (h.2 z hz v hfd)
  refine ⟨hyv, ?_, ?_⟩
  · show g (upd y v (x v)) = true
    rw [upd_self hyv]; exact h.1
  · intro z hz i hfd
    by_cases hi : i = v
    · subst hi; exact hyv
    · apply h.2 (upd z v (x v)) hz i
      constructor
      · intro j hj
        by_cases hjv : j = v
        · subst hjv; simp [hyv]
        · rw [upd_other _ _ _ _ hjv]; exact hfd.1 j hj
      · rw [upd_other _ _ _ _ hi]; exact hfd.2

/-! ### the procedure -/

/-! ### helper lemmas -/

theorem SuppGe.le' {φ : Fn} {v w} (h : SuppGe φ v) (hw : w ≤ v) : SuppGe φ w :=
  fun e e' hee => h e e' (fun u hu => hee u (Nat.le_trans hw hu))

theorem supp_succ_of_cof_eq {φ : Fn} {v} (h : SuppGe φ v) (heq : cof φ v false = cof φ v true) :
    SuppGe φ (v + 1) := by
  intro e e' hee
  have h1 : φ e = φ (upd e' v (e v)) := by
    apply h; intro w hw
    by_cases hwv : w = v
    · subst hwv; simp
    · rw [upd_other _ _ _ _ hwv]; exact hee w (by omega)
  have h2 : φ (upd e' v (e v)) = φ (upd e' v (e' v)) := by
    have a := congrFun heq e'
    simp only [cof] at a
    cases h1 : e v <;> cases h2 : e' v <;> simp [a]
  rw [h1, h2, upd_self rfl]

theorem nonterm_stored {s : St} (hg : Good s) {r φ} (v : Valid s.nodes r φ) (hnt : isTerminal r = false) :
    ∃ n, s.nodes r.idx = some n ∧ s.var r = n.var ∧ n.var ≠ 0 := by
  rcases valid_stored v with h | ⟨n, hn⟩
  · exfalso
    rcases r with ⟨i, b⟩
    simp at h; subst h
    cases b <;> simp [isTerminal, isOne, isZero, Ref.one, Ref.zero] at hnt
  · exact ⟨n, hn, St.var_of hn, hg.var0 _ _ hn⟩

theorem fn_ne_false {s : St} (hg : Good s) {r φ} (v : Valid s.nodes r φ) (hnz : isZero r = false) :
    φ ≠ fun _ => false := by
  intro h; subst h
  obtain ⟨d, hd⟩ := v
  obtain ⟨d', hd'⟩ := (Valid.zero (nd := s.nodes))
  have := canonicity hg.inv hd hd'
  simp [isZero, this] at hnz

theorem SuppGe.const (b : Bool) (v : Nat) : SuppGe (fun _ => b) v := fun _ _ _ => rfl

theorem suppGe_node {h0 h1 : Fn} {v m} (hm : m ≤ v) (a : SuppGe h0 m) (b : SuppGe h1 m) :
    SuppGe (fun e => if e v then h1 e else h0 e) m := by
  intro e e' hee
  simp only [a e e' hee, b e e' hee, hee v hm]

theorem constrain_spec : ∀ fuel s f g φf φg s' r, Good s → Valid s.nodes f φf → Valid s.nodes g φg →
    constrain fuel s f g = .ok (s', r) →
    Good s' ∧ Sub s.nodes s'.nodes ∧ ∃ h, Valid s'.nodes r h ∧ ConstrainSpec φf φg h := by
  intro fuel
  induction fuel with
  | zero => intro s f g φf φg s' r _ _ _ hres; simp [constrain] at hres
  | succ fuel ih =>
    intro s f g φf φg s' r hg vf vg hres
    have h1 := hg.inv.noterm
    have triv : ∀ {s0 : St} {x ψ}, Good s0 → s0.nodes = s.nodes → Valid s.nodes x ψ → ConstrainSpec φf φg ψ →
        (.ok (s0, x) : Res (St × Ref)) = .ok (s', r) →
        Good s' ∧ Sub s.nodes s'.nodes ∧ ∃ h, Valid s'.nodes r h ∧ ConstrainSpec φf φg h := by
      intro s0 x ψ hg0 hn0 vx hspec heq
      simp only [Except.ok.injEq, Prod.mk.injEq] at heq
      obtain ⟨rfl, rfl⟩ := heq
      rw [hn0]
      exact ⟨hg0, fun _ _ x => x, ψ, vx, hspec⟩
    unfold constrain at hres
    by_cases c : isZero g = true
    · rw [if_pos c] at hres
      have := zero_fn h1 c vg; subst this
      exact triv hg rfl Valid.zero ⟨fun x y hc => absurd hc.1 (by simp), fun m _ _ => SuppGe.const _ _⟩ hres
    rw [if_neg c] at hres
    have hgnz : isZero g = false := by simpa using c
    clear c
    by_cases c : isOne g = true
    · rw [if_pos c] at hres
      have := one_fn h1 c vg; subst this
      exact triv hg rfl vf ⟨fun x y hc => by rw [closest_true hc], fun m a _ => a⟩ hres
    rw [if_neg c] at hres
    have hgno : isOne g = false := by simpa using c
    clear c
    by_cases c : isTerminal f = true
    · rw [if_pos c] at hres
      refine triv hg rfl vf ⟨fun x y _ => ?_, fun m a _ => a⟩ hres
      simp only [isTerminal, Bool.or_eq_true] at c
      rcases c with c | c
      · rw [one_fn h1 c vf]
      · rw [zero_fn h1 c vf]
    rw [if_neg c] at hres
    have hfnt : isTerminal f = false := by simpa using c
    clear c
    by_cases c : f = g
    · rw [if_pos c] at hres
      have := eq_fn h1 c vf vg; subst this
      exact triv hg rfl Valid.one ⟨fun x y hc => by rw [hc.1], fun m _ _ => SuppGe.const _ _⟩ hres
    rw [if_neg c] at hres; clear c
    by_cases c : f = g.not
    · rw [if_pos c] at hres
      have := not_fn h1 c vf vg; subst this
      exact triv hg rfl Valid.zero ⟨fun x y hc => by simp [hc.1], fun m _ _ => SuppGe.const _ _⟩ hres
    rw [if_neg c] at hres; clear c
    cases hc : (s.cacheGet (.constrain f g)).2 with
    | some res =>
      simp only [hc] at hres
      obtain ⟨a, b, h, va, vb, vh, hspec⟩ := hg.cacheHit hc
      have e1 := vf.det h1 va; have e2 := vg.det h1 vb
      subst e1; subst e2
      exact triv (hg.cacheGet _) rfl vh hspec hres
    | none =>
    simp only [hc] at hres
    have hgX := hg.cacheGet (.constrain f g)
    generalize hsX : (s.cacheGet (.constrain f g)).1 = sX at hres hgX
    have hnX : sX.nodes = s.nodes := by rw [← hsX]; rfl
    rw [← hnX] at vf vg h1 ⊢
    clear triv
    have hgnt : isTerminal g = false := by simp [isTerminal, hgnz, hgno]
    obtain ⟨nf, hnf, hvf, hnf0⟩ := nonterm_stored hgX vf hfnt
    obtain ⟨ng, hng, hvg, hng0⟩ := nonterm_stored hgX vg hgnt
    generalize hv : min (sX.var f) (sX.var g) = v at hres
    have hvf' : v ≤ sX.var f := by omega
    have hvg' : v ≤ sX.var g := by omega
    have sf : SuppGe φf v := supp_of_var hgX vf (fun _ => hvf')
    have sg : SuppGe φg v := supp_of_var hgX vg (fun _ => hvg')
    -- any common support bound is ≤ v
    have hmv : ∀ m, SuppGe φf m → SuppGe φg m → m ≤ v := by
      intro m a b
      have ta := topGe_of_supp hgX.inv vf a
      have tb := topGe_of_supp hgX.inv vg b
      have : m ≤ sX.var f := by
        rcases ta with h | ⟨n, hn, hm⟩
        · exfalso; rcases f with ⟨i, b⟩; simp at h; subst h
          cases b <;> simp [isTerminal, isOne, isZero, Ref.one, Ref.zero] at hfnt
        · rw [hnf] at hn; cases hn; omega
      have : m ≤ sX.var g := by
        rcases tb with h | ⟨n, hn, hm⟩
        · exfalso; rcases g with ⟨i, b⟩; simp at h; subst h
          cases b <;> simp [isTerminal, isOne, isZero, Ref.one, Ref.zero] at hgnt
        · rw [hng] at hn; cases hn; omega
      omega
    cases hcf : topCofactors sX f v with
    | error e => simp [hcf] at hres
    | ok pf =>
    cases hcg : topCofactors sX g v with
    | error e => simp [hcf, hcg] at hres
    | ok pg =>
    obtain ⟨f0, f1⟩ := pf; obtain ⟨g0, g1⟩ := pg
    simp only [hcf, hcg] at hres
    obtain ⟨vf0, vf1⟩ := topCofactors_spec hgX vf sf hcf
    obtain ⟨vg0, vg1⟩ := topCofactors_spec hgX vg sg hcg
    -- one-sided cases
    have side : ∀ (b : Bool) {fb gb : Ref}, Valid sX.nodes fb (cof φf v b) → Valid sX.nodes gb (cof φg v b) →
        cof φg v (!b) = (fun _ => false) → constrain fuel sX fb gb = .ok (s', r) →
        Good s' ∧ Sub sX.nodes s'.nodes ∧ ∃ h, Valid s'.nodes r h ∧ ConstrainSpec φf φg h := by
      intro b fb gb vfb vgb hempty heq
      obtain ⟨x, y, h, vh, hs1, hs2⟩ := ih _ _ _ _ _ _ _ hgX vfb vgb heq
      refine ⟨x, y, h, vh, ?_, ?_⟩
      · intro p q hc
        obtain ⟨hq, hc'⟩ := closest_side hempty hc
        rw [hs1 _ _ hc']
        simp only [cof, upd_upd, upd_self hq]
      · intro m a c
        exact hs2 m (suppGe_cof a) (suppGe_cof c)
    by_cases c : isZero g1 = true
    · rw [if_pos c] at hres
      exact side false vf0 vg0 (zero_fn h1 c vg1) hres
    rw [if_neg c] at hres
    have hg1nz : isZero g1 = false := by simpa using c
    clear c
    by_cases c : isZero g0 = true
    · rw [if_pos c] at hres
      exact side true vf1 vg1 (zero_fn h1 c vg0) hres
    rw [if_neg c] at hres
    have hg0nz : isZero g0 = false := by simpa using c
    clear c
    have hne : ∀ b, cof φg v b ≠ fun _ => false := by
      intro b; cases b
      · exact fn_ne_false hgX vg0 hg0nz
      · exact fn_ne_false hgX vg1 hg1nz
    -- two-sided: common tail
    have both : ∀ {fa fb : Ref} {a b : Fn} {s1 s2 s3 low high res},
        Valid sX.nodes fa a → Valid sX.nodes fb b →
        (∀ y : Env, y v = false → a y = φf y) → (∀ y : Env, y v = true → b y = φf y) →
        SuppGe a (v + 1) → SuppGe b (v + 1) →
        (∀ m, SuppGe φf m → SuppGe a m) → (∀ m, SuppGe φf m → SuppGe b m) →
        constrain fuel sX fa g0 = .ok (s1, low) → constrain fuel s1 fb g1 = .ok (s2, high) →
        mkNode s2 v low high = .ok (s3, res) →
        Good s3 ∧ Sub sX.nodes s3.nodes ∧ s3.cache = s2.cache ∧ ∃ h, Valid s3.nodes res h ∧ ConstrainSpec φf φg h := by
      intro fa fb a b s1 s2 s3 low high res va vb ha hb sa sb ma mb e1 e2 e3
      obtain ⟨g1', sub1, h0, vh0, sp0, sq0⟩ := ih _ _ _ _ _ _ _ hgX va vg0 e1
      obtain ⟨g2', sub2, hh1, vh1, sp1, sq1⟩ := ih _ _ _ _ _ _ _ g1' (vb.mono sub1) (vg1.mono sub1) e2
      have s0' : SuppGe h0 (v + 1) := sq0 _ sa (suppGe_cof_succ sg)
      have s1' : SuppGe hh1 (v + 1) := sq1 _ sb (suppGe_cof_succ sg)
      obtain ⟨g3', sub3, hcache, vres⟩ := mkNode_spec g2' (vh0.mono sub2) vh1 s0' s1' e3
      refine ⟨g3', fun i n x => sub3 _ _ (sub2 _ _ (sub1 _ _ x)), hcache, _, vres, ?_, ?_⟩
      · intro p q hc
        obtain ⟨hq, hc'⟩ := closest_split sg hne hc
        cases hp : p v with
        | false =>
          rw [hp] at hc' hq
          simp only [hp, Bool.false_eq_true, ↓reduceIte]
          rw [sp0 _ _ hc', ha _ hq]
        | true =>
          rw [hp] at hc' hq
          simp only [hp, ↓reduceIte]
          rw [sp1 _ _ hc', hb _ hq]
      · intro m x y
        have hm := hmv m x y
        exact suppGe_node hm (sq0 m (ma m x) (suppGe_cof y)) (sq1 m (mb m x) (suppGe_cof y))
    have cofa : ∀ (b : Bool) (y : Env), y v = b → cof φf v b y = φf y := by
      intro b y hy; simp only [cof, upd_self hy]
    by_cases c : f0 = f1
    · rw [if_pos c] at hres
      have hcof : cof φf v false = cof φf v true := by subst c; exact vf0.det h1 vf1
      have sf' := supp_succ_of_cof_eq sf hcof
      cases e1 : constrain fuel sX f g0 with
      | error e => simp [e1] at hres
      | ok p1 =>
      obtain ⟨s1, low⟩ := p1
      simp only [e1] at hres
      cases e2 : constrain fuel s1 f g1 with
      | error e => simp [e2] at hres
      | ok p2 =>
      obtain ⟨s2, high⟩ := p2
      simp only [e2] at hres
      obtain ⟨a, b, _, d⟩ := both vf vf (fun _ _ => rfl) (fun _ _ => rfl) sf' sf' (fun _ x => x) (fun _ x => x) e1 e2 hres
      exact ⟨a, b, d⟩
    · rw [if_neg c] at hres
      cases e1 : constrain fuel sX f0 g0 with
      | error e => simp [e1] at hres
      | ok p1 =>
      obtain ⟨s1, low⟩ := p1
      simp only [e1] at hres
      cases e2 : constrain fuel s1 f1 g1 with
      | error e => simp [e2] at hres
      | ok p2 =>
      obtain ⟨s2, high⟩ := p2
      simp only [e2] at hres
      cases e3 : mkNode s2 v low high with
      | error e => simp [e3] at hres
      | ok p3 =>
      obtain ⟨s3, res⟩ := p3
      simp only [e3, Except.ok.injEq, Prod.mk.injEq] at hres
      obtain ⟨rfl, rfl⟩ := hres
      obtain ⟨a, b, hcache, h, vh, hspec⟩ := both vf0 vf1 (cofa false) (cofa true) (suppGe_cof_succ sf) (suppGe_cof_succ sf)
        (fun _ x => suppGe_cof x) (fun _ x => suppGe_cof x) e1 e2 e3
      exact ⟨a.cacheInsert ⟨φf, φg, h, vf.mono b, vg.mono b, vh, hspec⟩, b, h, vh, hspec⟩

#print axioms constrain_spec

/-! ### the specification is not vacuous: the closest point exists and is unique -/

def SuppLt (g : Fn) (N : Nat) : Prop := ∀ e e' : Env, (∀ w, w < N → e w = e' w) → g e = g e'

theorem exists_first_diff {y z : Env} (h : y ≠ z) : ∃ i, FirstDiff y z i := by
  have : ∃ i, y i ≠ z i := by
    apply Classical.byContradiction
    intro hcon; apply h; funext i
    apply Classical.byContradiction
    intro h'; exact hcon ⟨i, h'⟩
  obtain ⟨i0, hi0⟩ := this
  induction i0 using Nat.strongRecOn with
  | _ i0 ih =>
    by_cases hall : ∀ j, j < i0 → y j = z j
    · exact ⟨i0, hall, hi0⟩
    · have : ∃ j, j < i0 ∧ y j ≠ z j := by
        apply Classical.byContradiction
        intro hc; apply hall; intro j hj
        apply Classical.byContradiction
        intro h'; exact hc ⟨j, hj, h'⟩
      obtain ⟨j, hj, hjne⟩ := this
      exact ih j hj hjne

theorem closest_unique {g : Fn} {x y y' : Env} (h : Closest g x y) (h' : Closest g x y') : y = y' := by
  apply Classical.byContradiction
  intro hne
  obtain ⟨i, hi⟩ := exists_first_diff hne
  have a := h.2 y' h'.1 i hi
  have b := h'.2 y h.1 i ⟨fun j hj => (hi.1 j hj).symm, fun e => hi.2 e.symm⟩
  exact hi.2 (a.trans b.symm)

/-- a variable `g` ignores keeps its value in the closest point -/
theorem closest_irrelevant {g : Fn} {x y : Env} {i : Nat} (hirr : ∀ e b, g (upd e i b) = g e)
    (h : Closest g x y) : y i = x i := by
  apply Classical.byContradiction
  intro hne
  apply hne
  apply h.2 (upd y i (x i)) (by rw [hirr]; exact h.1) i
  constructor
  · intro j hj; rw [upd_other _ _ _ _ (by omega)]
  · simp; exact hne

theorem cof_irrelevant (g : Fn) (v : Nat) (b : Bool) : ∀ e c, cof g v b (upd e v c) = cof g v b e := by
  intro e c; simp only [cof, upd_upd]

theorem irrelevant_of_suppGe {g : Fn} {v i : Nat} (hs : SuppGe g v) (hi : i < v) : ∀ e b, g (upd e i b) = g e := by
  intro e b; apply hs; intro w hw; exact upd_other _ _ _ _ (by omega)

theorem irrelevant_cof {g : Fn} {v i : Nat} {c : Bool} (h : ∀ e b, g (upd e i b) = g e) :
    ∀ e b, cof g v c (upd e i b) = cof g v c e := by
  intro e b
  by_cases hiv : i = v
  · subst hiv; exact cof_irrelevant g i c e b
  · simp only [cof]
    have : upd (upd e i b) v c = upd (upd e v c) i b := by
      funext w
      by_cases h1 : w = v
      · subst h1; rw [upd_same, upd_other _ _ _ _ (Ne.symm hiv), upd_same]
      · by_cases h2 : w = i
        · subst h2; rw [upd_other _ _ _ _ h1, upd_same, upd_same]
        · rw [upd_other _ _ _ _ h1, upd_other _ _ _ _ h2, upd_other _ _ _ _ h2, upd_other _ _ _ _ h1]
    rw [this, h]

theorem closest_of_half {g : Fn} {v : Nat} {x y : Env} (hs : SuppGe g v)
    (h : Closest (cof g v (x v)) x y) : Closest g x y := by
  have hyv : y v = x v := closest_irrelevant (cof_irrelevant g v (x v)) h
  have hgy : g y = true := by have := h.1; simp only [cof, upd_self hyv] at this; exact this
  refine ⟨hgy, ?_⟩
  intro z hz i hfd
  by_cases hi : i = v
  · subst hi; exact hyv
  · by_cases hlt : i < v
    · exact closest_irrelevant (irrelevant_cof (irrelevant_of_suppGe hs hlt)) h
    · have hzv : z v = x v := by rw [← hfd.1 v (by omega)]; exact hyv
      apply h.2 z _ i hfd
      simp only [cof, upd_self hzv]; exact hz

theorem closest_of_other_half {g : Fn} {v : Nat} {x y : Env} (hs : SuppGe g v)
    (hempty : cof g v (x v) = fun _ => false)
    (h : Closest (cof g v (!x v)) x y) : Closest g x (upd y v (!x v)) := by
  refine ⟨h.1, ?_⟩
  intro z hz i hfd
  have hzv : z v = !x v := by
    apply Classical.byContradiction
    intro hne
    have : z v = x v := by cases hz' : z v <;> cases hx : x v <;> simp_all
    have := congrFun hempty z
    simp only [cof] at this
    rw [upd_self ‹z v = x v›, hz] at this; cases this
  have hiv : i ≠ v := by
    intro e; subst e; apply hfd.2; rw [upd_same, hzv]
  rw [upd_other _ _ _ _ hiv]
  by_cases hlt : i < v
  · exact closest_irrelevant (irrelevant_cof (irrelevant_of_suppGe hs hlt)) h
  · have hyv : y v = x v := closest_irrelevant (cof_irrelevant g v (!x v)) h
    apply h.2 (upd z v (x v)) _ i
    · constructor
      · intro j hj
        by_cases hjv : j = v
        · subst hjv; rw [upd_same]; exact hyv
        · rw [upd_other _ _ _ _ hjv]
          have := hfd.1 j hj
          rwa [upd_other _ _ _ _ hjv] at this
      · rw [upd_other _ _ _ _ hiv]
        have := hfd.2
        rwa [upd_other _ _ _ _ hiv] at this
    · simp only [cof, upd_upd]
      rw [← hzv, upd_self rfl]; exact hz

theorem closest_exists_aux : ∀ (k v N : Nat) (g : Fn), v + k = N → SuppGe g v → SuppLt g N →
    (g ≠ fun _ => false) → ∀ x, ∃ y, Closest g x y := by
  intro k
  induction k with
  | zero =>
    intro v N g hv hs hl hne x
    have hv' : v = N := by omega
    subst hv'
    -- g is constant, hence true everywhere
    have hconst : ∀ e e', g e = g e' := by
      intro e e'
      let m : Env := fun w => if w < v then e' w else e w
      have a : g e = g m := hs e m (fun w hw => by simp [m]; intro h; omega)
      have b : g m = g e' := hl m e' (fun w hw => by simp [m, hw])
      rw [a, b]
    have hx : g x = true := by
      cases hgx : g x with
      | true => rfl
      | false => exfalso; apply hne; funext e; rw [hconst e x, hgx]
    exact ⟨x, hx, fun _ _ _ _ => rfl⟩
  | succ k ih =>
    intro v N g hv hs hl hne x
    have hl' : ∀ b, SuppLt (cof g v b) N := by
      intro b e e' hee
      apply hl; intro w hw
      by_cases hwv : w = v
      · subst hwv; simp
      · rw [upd_other _ _ _ _ hwv, upd_other _ _ _ _ hwv]; exact hee w hw
    by_cases hhalf : cof g v (x v) = fun _ => false
    · have hne' : cof g v (!x v) ≠ fun _ => false := by
        intro h'
        apply hne
        rw [shannon g v]
        funext e
        cases hx : x v <;> cases he : e v <;> simp_all
      obtain ⟨y, hy⟩ := ih (v + 1) N _ (by omega) (suppGe_cof_succ hs) (hl' _) hne' x
      exact ⟨_, closest_of_other_half hs hhalf hy⟩
    · obtain ⟨y, hy⟩ := ih (v + 1) N _ (by omega) (suppGe_cof_succ hs) (hl' _) hhalf x
      exact ⟨y, closest_of_half hs hy⟩

/-- non-vacuity of `ConstrainSpec`: for a satisfiable care set with finite support every
point has exactly one closest point -/
theorem closest_exists {g : Fn} {N : Nat} (hl : SuppLt g N) (hne : g ≠ fun _ => false) (x : Env) :
    ∃ y, Closest g x y :=
  closest_exists_aux N 0 N g (by omega) (fun _ _ h => by rw [show _ = _ from funext (fun w => h w (Nat.zero_le w))]) hl hne x

#print axioms closest_exists
end P

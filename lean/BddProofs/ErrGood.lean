import BddProofs.Reach
/-! The state carried by a FAILING operation is good.

Operations return `Res α = Except (Fault × St) α`: a failure carries the state reached when the fault
was raised (a Rust panic caught by the caller leaves whatever the call had already done — nodes created
by inner calls, cache entries, bumped counters).  The `_spec` theorems speak about `.ok` results only.
Here: for a good state and live arguments (the hypotheses of the corresponding `_spec` theorem),

  `op … = .error (e, s') → Good s' ∧ Sub s.nodes s'.nodes`

for every state-changing operation — the store only grew and every invariant (table, canonical node
set, true cache entries, exact live count) still holds.  The second half of the file lifts this to
histories: `ReachableF` closes the reachable states under successful *and* failing operations, and
`reachableF_inv` shows that all of them are `Good` (and keep the size-cache invariant). -/
namespace P
open Arr

/-! ## the store primitives: a failure leaves the state untouched -/

theorem err_inj {α : Type} {f e : Fault} {s0 s' : St}
    (h : (.error (f, s0) : Res α) = .error (e, s')) : s' = s0 := by
  simp only [Except.error.injEq, Prod.mk.injEq] at h; exact h.2.symm

/-- a fault raised right here, in a state with the same nodes as the start state -/
theorem errPost_here {α : Type} {s s0 : St} (hg : Good s0) (hn : s0.nodes = s.nodes) {fl e : Fault} {s' : St}
    (h : (.error (fl, s0) : Res α) = .error (e, s')) : Good s' ∧ Sub s.nodes s'.nodes := by
  have := err_inj h; subst this
  rw [hn]; exact ⟨hg, Sub.refl _⟩

theorem put_errSt {s : St} {n : Node} {e s'} (h : s.put n = .error (e, s')) : s' = s := by
  unfold St.put at h
  cases hp : s.storage.put n with
  | ok p => obtain ⟨t, k⟩ := p; rw [hp] at h; cases h
  | error e' => rw [hp] at h; exact err_inj h

theorem mkNodeReg_errSt {s : St} {v lo hi e s'} (h : mkNodeReg s v lo hi = .error (e, s')) : s' = s := by
  unfold mkNodeReg at h
  by_cases hne : lo = hi
  · rw [if_pos hne] at h; cases h
  · rw [if_neg hne] at h
    cases hp : s.put ⟨v, lo, hi⟩ with
    | error e' =>
      rw [hp] at h
      simp only [Except.error.injEq] at h
      subst h
      exact put_errSt hp
    | ok p => obtain ⟨s1', i⟩ := p; rw [hp] at h; cases h

/-- `mk_node` fails without touching the state (whatever the fault) -/
theorem mkNode_errSt {s : St} {v lo hi e s'} (h : mkNode s v lo hi = .error (e, s')) : s' = s := by
  unfold mkNode at h
  by_cases hv : v = 0
  · rw [if_pos hv] at h; exact err_inj h
  rw [if_neg hv] at h
  by_cases hneg : hi.neg = true
  · rw [if_pos hneg] at h
    cases hm : mkNodeReg s v lo.not hi.not with
    | error e' =>
      rw [hm] at h
      simp only [Except.error.injEq] at h
      subst h
      exact mkNodeReg_errSt hm
    | ok p => obtain ⟨s1', r1⟩ := p; rw [hm] at h; cases h
  · rw [if_neg hneg] at h
    exact mkNodeReg_errSt h

theorem mkVar_errSt {s : St} {v e s'} (h : mkVar s v = .error (e, s')) : s' = s := by
  unfold mkVar at h
  by_cases hv : v = 0
  · rw [if_pos hv] at h; exact err_inj h
  · rw [if_neg hv] at h; exact mkNode_errSt h

theorem mkNodeReg_err {s : St} (hg : Good s) {v lo hi e s'} (h : mkNodeReg s v lo hi = .error (e, s')) :
    Good s' ∧ Sub s.nodes s'.nodes := by
  rw [mkNodeReg_errSt h]; exact ⟨hg, Sub.refl _⟩

theorem mkNode_err_good {s : St} (hg : Good s) {v lo hi e s'} (h : mkNode s v lo hi = .error (e, s')) :
    Good s' ∧ Sub s.nodes s'.nodes := by
  rw [mkNode_errSt h]; exact ⟨hg, Sub.refl _⟩

theorem mkVar_err {s : St} (hg : Good s) {v e s'} (h : mkVar s v = .error (e, s')) :
    Good s' ∧ Sub s.nodes s'.nodes := by
  rw [mkVar_errSt h]; exact ⟨hg, Sub.refl _⟩

/-- a failing `mk_node` at the end of a composite operation -/
theorem errPost_mkNode {s s2 : St} (hg : Good s2) (sub : Sub s.nodes s2.nodes) {v lo hi e s'}
    (h : mkNode s2 v lo hi = .error (e, s')) : Good s' ∧ Sub s.nodes s'.nodes := by
  rw [mkNode_errSt h]; exact ⟨hg, sub⟩

/-! ## `apply_ite` -/

/-- the error half of `RecSpec` -/
def RecErr (rec : Rec) : Prop :=
  ∀ s f g h φf φg φh e s', Good s → Valid s.nodes f φf → Valid s.nodes g φg → Valid s.nodes h φh →
    rec s f g h = .error (e, s') → Good s' ∧ Sub s.nodes s'.nodes

theorem iteCore_err {rec : Rec} (hrec : RecSpec rec) (herr : RecErr rec) {s : St} (hg : Good s)
    {f g h a b c m e s'}
    (hf : Valid s.nodes f a) (hgg : Valid s.nodes g b) (hh : Valid s.nodes h c)
    (sa : SuppGe a m) (sb : SuppGe b m) (sc : SuppGe c m)
    (hres : iteCore rec s f g h m = .error (e, s')) :
    Good s' ∧ Sub s.nodes s'.nodes := by
  unfold iteCore at hres
  cases hc : (s.cacheGet (.ite f g h)).2 with
  | some res => simp only [hc] at hres; cases hres
  | none =>
    simp only [hc] at hres
    have hg0 := hg.cacheGet (.ite f g h)
    generalize hs0 : (s.cacheGet (.ite f g h)).1 = s0 at hres hg0
    have hn0 : s0.nodes = s.nodes := by rw [← hs0]; rfl
    rw [← hn0] at hf hgg hh ⊢
    by_cases hm : m = 0
    · rw [if_pos hm] at hres; exact errPost_here hg0 rfl hres
    rw [if_neg hm] at hres
    cases hcf : topCofactors s0 f m with
    | error e1 => simp only [hcf] at hres; exact errPost_here hg0 rfl hres
    | ok pf =>
    cases hcg : topCofactors s0 g m with
    | error e1 => simp only [hcf, hcg] at hres; exact errPost_here hg0 rfl hres
    | ok pg =>
    cases hch : topCofactors s0 h m with
    | error e1 => simp only [hcf, hcg, hch] at hres; exact errPost_here hg0 rfl hres
    | ok ph =>
    obtain ⟨f0, f1⟩ := pf; obtain ⟨g0, g1⟩ := pg; obtain ⟨h0, h1⟩ := ph
    simp only [hcf, hcg, hch] at hres
    obtain ⟨vf0, vf1⟩ := topCofactors_spec hg0 hf sa hcf
    obtain ⟨vg0, vg1⟩ := topCofactors_spec hg0 hgg sb hcg
    obtain ⟨vh0, vh1⟩ := topCofactors_spec hg0 hh sc hch
    cases hr1 : rec s0 f0 g0 h0 with
    | error e1 =>
      simp only [hr1, Except.error.injEq] at hres
      subst hres
      exact herr _ _ _ _ _ _ _ _ _ hg0 vf0 vg0 vh0 hr1
    | ok p1 =>
    obtain ⟨s1, lo⟩ := p1
    simp only [hr1] at hres
    obtain ⟨g1', sub1, ve⟩ := hrec _ _ _ _ _ _ _ _ _ hg0 vf0 vg0 vh0 hr1
    cases hr2 : rec s1 f1 g1 h1 with
    | error e2 =>
      simp only [hr2, Except.error.injEq] at hres
      subst hres
      obtain ⟨x, y⟩ := herr _ _ _ _ _ _ _ _ _ g1' (vf1.mono sub1) (vg1.mono sub1) (vh1.mono sub1) hr2
      exact ⟨x, sub1.trans y⟩
    | ok p2 =>
    obtain ⟨s2, t⟩ := p2
    simp only [hr2] at hres
    obtain ⟨g2', sub2, vt⟩ := hrec _ _ _ _ _ _ _ _ _ g1' (vf1.mono sub1) (vg1.mono sub1) (vh1.mono sub1) hr2
    cases hmk : mkNode s2 m lo t with
    | error e3 =>
      simp only [hmk, Except.error.injEq] at hres
      subst hres
      exact errPost_mkNode g2' (sub1.trans sub2) hmk
    | ok p3 => obtain ⟨s3, res⟩ := p3; simp only [hmk] at hres; cases hres

theorem applyIte_err : ∀ fuel, RecErr (applyIte fuel) := by
  intro fuel
  induction fuel with
  | zero =>
    intro s f g h φf φg φh e s' hg _ _ _ hres
    simp only [applyIte] at hres
    exact errPost_here hg rfl hres
  | succ fuel ih =>
    intro s f g h φf φg φh e s' hg vf vg vh hres
    have recur : ∀ {f2 g2 h2 a b c}, Valid s.nodes f2 a → Valid s.nodes g2 b → Valid s.nodes h2 c →
        applyIte fuel s f2 g2 h2 = .error (e, s') → Good s' ∧ Sub s.nodes s'.nodes :=
      fun va vb vc heq => ih _ _ _ _ _ _ _ _ _ hg va vb vc heq
    unfold applyIte at hres
    by_cases c : isOne f = true
    · rw [if_pos c] at hres; cases hres
    rw [if_neg c] at hres; clear c
    by_cases c : isZero f = true
    · rw [if_pos c] at hres; cases hres
    rw [if_neg c] at hres; clear c
    by_cases c : g = h
    · rw [if_pos c] at hres; cases hres
    rw [if_neg c] at hres; clear c
    by_cases c : (isOne g && isZero h) = true
    · rw [if_pos c] at hres; cases hres
    rw [if_neg c] at hres; clear c
    by_cases c : (isZero g && isOne h) = true
    · rw [if_pos c] at hres; cases hres
    rw [if_neg c] at hres; clear c
    by_cases c : (isOne g && decide (h = f.not)) = true
    · rw [if_pos c] at hres; cases hres
    rw [if_neg c] at hres; clear c
    by_cases c : (decide (g = f) && isOne h) = true
    · rw [if_pos c] at hres; cases hres
    rw [if_neg c] at hres; clear c
    by_cases c : (decide (g = f.not) && isZero h) = true
    · rw [if_pos c] at hres; cases hres
    rw [if_neg c] at hres; clear c
    by_cases c : (isZero g && decide (h = f)) = true
    · rw [if_pos c] at hres; cases hres
    rw [if_neg c] at hres; clear c
    -- standard triples
    by_cases c : g = f
    · rw [if_pos c] at hres
      exact recur vf Valid.one vh hres
    rw [if_neg c] at hres; clear c
    by_cases c : h = f
    · rw [if_pos c] at hres
      exact recur vf vg Valid.zero hres
    rw [if_neg c] at hres; clear c
    by_cases c : g = f.not
    · rw [if_pos c] at hres
      exact recur vf Valid.zero vh hres
    rw [if_neg c] at hres; clear c
    by_cases c : h = f.not
    · rw [if_pos c] at hres
      exact recur vf vg Valid.one hres
    rw [if_neg c] at hres; clear c
    simp only at hres
    by_cases hi0 : s.var f = 0
    · rw [if_pos hi0] at hres; exact errPost_here hg rfl hres
    rw [if_neg hi0] at hres
    -- equivalent pairs
    by_cases c : (isOne g && decide (s.var h < s.var f)) = true
    · rw [if_pos c] at hres
      by_cases cz : s.var h = 0
      · rw [if_pos cz] at hres; exact errPost_here hg rfl hres
      rw [if_neg cz] at hres
      exact recur vh Valid.one vf hres
    rw [if_neg c] at hres; clear c
    by_cases c : (isZero h && decide (s.var g < s.var f)) = true
    · rw [if_pos c] at hres
      by_cases cz : s.var g = 0
      · rw [if_pos cz] at hres; exact errPost_here hg rfl hres
      rw [if_neg cz] at hres
      exact recur vg vf Valid.zero hres
    rw [if_neg c] at hres; clear c
    by_cases c : (isOne h && decide (s.var g < s.var f)) = true
    · rw [if_pos c] at hres
      by_cases cz : s.var g = 0
      · rw [if_pos cz] at hres; exact errPost_here hg rfl hres
      rw [if_neg cz] at hres
      exact recur vg.not vf.not Valid.one hres
    rw [if_neg c] at hres; clear c
    by_cases c : (isZero g && decide (s.var h < s.var f)) = true
    · rw [if_pos c] at hres
      by_cases cz : s.var h = 0
      · rw [if_pos cz] at hres; exact errPost_here hg rfl hres
      rw [if_neg cz] at hres
      exact recur vh.not Valid.zero vf.not hres
    rw [if_neg c] at hres; clear c
    by_cases c : (decide (g = h.not) && decide (s.var g < s.var f)) = true
    · rw [if_pos c] at hres
      by_cases cz : s.var g = 0
      · rw [if_pos cz] at hres; exact errPost_here hg rfl hres
      rw [if_neg cz] at hres
      exact recur vg vf vf.not hres
    rw [if_neg c] at hres; clear c
    -- general case
    have core : ∀ (f' g' h' : Ref) (a b c : Fn) (n : Bool) (m : Nat),
        Valid s.nodes f' a → Valid s.nodes g' b → Valid s.nodes h' c →
        SuppGe a m → SuppGe b m → SuppGe c m →
        (match iteCore (applyIte fuel) s f' g' h' m with
          | .error e => (.error e : Res (St × Ref))
          | .ok (s', res) => .ok (s', if n then res.not else res)) = .error (e, s') →
        Good s' ∧ Sub s.nodes s'.nodes := by
      intro f' g' h' a b c n m va vb vc sa sb sc heq
      cases hcore : iteCore (applyIte fuel) s f' g' h' m with
      | error e1 =>
        simp only [hcore, Except.error.injEq] at heq
        subst heq
        exact iteCore_err (applyIte_spec fuel) ih hg va vb vc sa sb sc hcore
      | ok p => obtain ⟨s2, res⟩ := p; simp only [hcore] at heq; cases heq
    have ml := min3_le (s.var f) (s.var g) (s.var h)
    have sf : SuppGe φf (min3 (s.var f) (s.var g) (s.var h)) := supp_of_var hg vf (fun _ => ml.1)
    have sg : SuppGe φg (min3 (s.var f) (s.var g) (s.var h)) := supp_of_var hg vg ml.2.1
    have sh : SuppGe φh (min3 (s.var f) (s.var g) (s.var h)) := supp_of_var hg vh ml.2.2
    cases hfn : f.neg <;> simp only [hfn, Bool.false_eq_true, ↓reduceIte] at hres
    · cases hgn : g.neg <;> simp only [hgn, Bool.false_eq_true, ↓reduceIte] at hres
      · exact core _ _ _ _ _ _ false _ vf vg vh sf sg sh hres
      · exact core _ _ _ _ _ _ true _ vf vg.not vh.not sf sg.not sh.not hres
    · cases hgn : h.neg <;> simp only [hgn, Bool.false_eq_true, ↓reduceIte] at hres
      · exact core _ _ _ _ _ _ false _ vf.not vh vg sf.not sh sg hres
      · exact core _ _ _ _ _ _ true _ vf.not vh.not vg.not sf.not sh.not sg.not hres

/-! ## connectives and folds -/

theorem applyAnd_err {fuel s u v φu φv e s'} (hg : Good s) (vu : Valid s.nodes u φu) (vv : Valid s.nodes v φv)
    (h : applyAnd fuel s u v = .error (e, s')) : Good s' ∧ Sub s.nodes s'.nodes :=
  applyIte_err fuel _ _ _ _ _ _ _ _ _ hg vu vv Valid.zero h

theorem applyOr_err {fuel s u v φu φv e s'} (hg : Good s) (vu : Valid s.nodes u φu) (vv : Valid s.nodes v φv)
    (h : applyOr fuel s u v = .error (e, s')) : Good s' ∧ Sub s.nodes s'.nodes :=
  applyIte_err fuel _ _ _ _ _ _ _ _ _ hg vu Valid.one vv h

theorem applyXor_err {fuel s u v φu φv e s'} (hg : Good s) (vu : Valid s.nodes u φu) (vv : Valid s.nodes v φv)
    (h : applyXor fuel s u v = .error (e, s')) : Good s' ∧ Sub s.nodes s'.nodes :=
  applyIte_err fuel _ _ _ _ _ _ _ _ _ hg vu vv.not vv h

theorem applyEq_err {fuel s u v φu φv e s'} (hg : Good s) (vu : Valid s.nodes u φu) (vv : Valid s.nodes v φv)
    (h : applyEq fuel s u v = .error (e, s')) : Good s' ∧ Sub s.nodes s'.nodes :=
  applyIte_err fuel _ _ _ _ _ _ _ _ _ hg vu vv vv.not h

theorem applyImply_err {fuel s u v φu φv e s'} (hg : Good s) (vu : Valid s.nodes u φu) (vv : Valid s.nodes v φv)
    (h : applyImply fuel s u v = .error (e, s')) : Good s' ∧ Sub s.nodes s'.nodes :=
  applyIte_err fuel _ _ _ _ _ _ _ _ _ hg vu vv Valid.one h

theorem andMany_err (fuel : Nat) : ∀ (xs : List Ref) (s : St) (acc : Ref) e s', Good s → Live' s acc →
    (∀ x, x ∈ xs → Live' s x) → andMany fuel s acc xs = .error (e, s') → Good s' ∧ Sub s.nodes s'.nodes := by
  intro xs
  induction xs with
  | nil => intro s acc e s' _ _ _ h; simp only [andMany] at h; cases h
  | cons x xs ih =>
    intro s acc e s' hg ⟨φa, va⟩ hl h
    unfold andMany at h
    obtain ⟨φx, vx⟩ := hl x List.mem_cons_self
    cases h1 : applyAnd fuel s acc x with
    | error e1 =>
      rw [h1] at h
      simp only [Except.error.injEq] at h
      subst h
      exact applyAnd_err hg va vx h1
    | ok p =>
      obtain ⟨s1, acc1⟩ := p
      rw [h1] at h
      obtain ⟨g1, sub1, v1⟩ := applyAnd_spec hg va vx h1
      obtain ⟨g2, sub2⟩ := ih s1 acc1 e s' g1 ⟨_, v1⟩
        (fun y hy => let ⟨φ, v⟩ := hl y (List.mem_cons_of_mem _ hy); ⟨φ, v.mono sub1⟩) h
      exact ⟨g2, sub1.trans sub2⟩

theorem orMany_err (fuel : Nat) : ∀ (xs : List Ref) (s : St) (acc : Ref) e s', Good s → Live' s acc →
    (∀ x, x ∈ xs → Live' s x) → orMany fuel s acc xs = .error (e, s') → Good s' ∧ Sub s.nodes s'.nodes := by
  intro xs
  induction xs with
  | nil => intro s acc e s' _ _ _ h; simp only [orMany] at h; cases h
  | cons x xs ih =>
    intro s acc e s' hg ⟨φa, va⟩ hl h
    unfold orMany at h
    obtain ⟨φx, vx⟩ := hl x List.mem_cons_self
    cases h1 : applyOr fuel s acc x with
    | error e1 =>
      rw [h1] at h
      simp only [Except.error.injEq] at h
      subst h
      exact applyOr_err hg va vx h1
    | ok p =>
      obtain ⟨s1, acc1⟩ := p
      rw [h1] at h
      obtain ⟨g1, sub1, v1⟩ := applyOr_spec hg va vx h1
      obtain ⟨g2, sub2⟩ := ih s1 acc1 e s' g1 ⟨_, v1⟩
        (fun y hy => let ⟨φ, v⟩ := hl y (List.mem_cons_of_mem _ hy); ⟨φ, v.mono sub1⟩) h
      exact ⟨g2, sub1.trans sub2⟩

/-! ## cube / clause -/

theorem cubeFold_err : ∀ (l : List Lit) (s : St) (cur : Ref) (ψ : Fn) e s', Good s → Valid s.nodes cur ψ →
    l.Pairwise (fun a b => b.1 < a.1) → (∀ p, p ∈ l → SuppGe ψ (p.1 + 1)) →
    cubeFold s l cur = .error (e, s') → Good s' ∧ Sub s.nodes s'.nodes := by
  intro l
  induction l with
  | nil => intro s cur ψ e s' _ _ _ _ h; simp only [cubeFold] at h; cases h
  | cons p rest ih =>
    intro s cur ψ e s' hg vc hpw hsupp h
    obtain ⟨v, b⟩ := p
    simp only [cubeFold] at h
    by_cases hv0 : v = 0
    · rw [if_pos hv0] at h; exact errPost_here hg rfl h
    rw [if_neg hv0] at h
    have sψ : SuppGe ψ (v + 1) := hsupp (v, b) List.mem_cons_self
    have hpw' := (List.pairwise_cons.mp hpw)
    cases b with
    | true =>
      simp only [↓reduceIte] at h
      cases e1 : mkNode s v Ref.zero cur with
      | error x =>
        simp only [e1, Except.error.injEq] at h
        subst h
        exact mkNode_err_good hg e1
      | ok p1 =>
      obtain ⟨s1, r1⟩ := p1
      simp only [e1] at h
      obtain ⟨g1, sub1, _, v1⟩ := mkNode_spec hg Valid.zero vc (SuppGe.const _ _) sψ e1
      have snew : ∀ q, q ∈ rest → SuppGe (fun e => if e v = true then ψ e else false) (q.1 + 1) := by
        intro q hq
        have hlt := hpw'.1 q hq
        exact suppGe_node (by omega) (SuppGe.const _ _) (sψ.le' (by omega))
      obtain ⟨g2, sub2⟩ := ih s1 r1 _ e s' g1 v1 hpw'.2 snew h
      exact ⟨g2, sub1.trans sub2⟩
    | false =>
      simp only [Bool.false_eq_true, ↓reduceIte] at h
      cases e1 : mkNode s v cur Ref.zero with
      | error x =>
        simp only [e1, Except.error.injEq] at h
        subst h
        exact mkNode_err_good hg e1
      | ok p1 =>
      obtain ⟨s1, r1⟩ := p1
      simp only [e1] at h
      obtain ⟨g1, sub1, _, v1⟩ := mkNode_spec hg vc Valid.zero sψ (SuppGe.const _ _) e1
      have snew : ∀ q, q ∈ rest → SuppGe (fun e => if e v = true then false else ψ e) (q.1 + 1) := by
        intro q hq
        have hlt := hpw'.1 q hq
        exact suppGe_node (by omega) (sψ.le' (by omega)) (SuppGe.const _ _)
      obtain ⟨g2, sub2⟩ := ih s1 r1 _ e s' g1 v1 hpw'.2 snew h
      exact ⟨g2, sub1.trans sub2⟩

/-- the literal list handed to the folds: strictly descending variables -/
theorem sortLits_desc {lits : List Lit} (hd : (lits.map (·.1)).Nodup) :
    (sortLits lits).reverse.Pairwise (fun a b => b.1 < a.1) := by
  unfold sortLits
  have hperm := List.mergeSort_perm lits (fun a b => decide (a.1 ≤ b.1))
  have hsorted : (lits.mergeSort (fun a b => decide (a.1 ≤ b.1))).Pairwise (fun a b => a.1 ≤ b.1) := by
    have := List.pairwise_mergeSort (le := fun (a b : Lit) => decide (a.1 ≤ b.1))
      (fun a b c h1 h2 => by simp at *; omega) (fun a b => by simp; omega) lits
    exact this.imp (by intro a b hab; simpa using hab)
  have hnd : ((lits.mergeSort (fun a b => decide (a.1 ≤ b.1))).map (·.1)).Nodup := (hperm.map _).nodup_iff.mpr hd
  have hstrict : (lits.mergeSort (fun a b => decide (a.1 ≤ b.1))).Pairwise (fun a b => a.1 < b.1) := by
    have hne : (lits.mergeSort (fun a b => decide (a.1 ≤ b.1))).Pairwise (fun a b => a.1 ≠ b.1) := by
      have := hnd
      rw [List.Nodup, List.pairwise_map] at this; exact this
    exact (hsorted.and hne).imp (by intro a b hab; omega)
  exact List.pairwise_reverse.mpr hstrict

theorem cube_err {s : St} (hg : Good s) {lits : List Lit} (hd : (lits.map (·.1)).Nodup) {e s'}
    (h : cube s lits = .error (e, s')) : Good s' ∧ Sub s.nodes s'.nodes := by
  unfold cube at h
  exact cubeFold_err _ s Ref.one (fun _ => true) e s' hg Valid.one (sortLits_desc hd) (fun _ _ => SuppGe.const _ _) h

theorem clauseFold_err : ∀ (l : List Lit) (s : St) (cur : Ref) (ψ : Fn) e s', Good s → Valid s.nodes cur ψ →
    l.Pairwise (fun a b => b.1 < a.1) → (∀ p, p ∈ l → SuppGe ψ (p.1 + 1)) →
    clauseFold s l cur = .error (e, s') → Good s' ∧ Sub s.nodes s'.nodes := by
  intro l
  induction l with
  | nil => intro s cur ψ e s' _ _ _ _ h; simp only [clauseFold] at h; cases h
  | cons p rest ih =>
    intro s cur ψ e s' hg vc hpw hsupp h
    obtain ⟨v, b⟩ := p
    simp only [clauseFold] at h
    by_cases hv0 : v = 0
    · rw [if_pos hv0] at h; exact errPost_here hg rfl h
    rw [if_neg hv0] at h
    have sψ : SuppGe ψ (v + 1) := hsupp (v, b) List.mem_cons_self
    have hpw' := (List.pairwise_cons.mp hpw)
    cases b with
    | true =>
      simp only [↓reduceIte] at h
      cases e1 : mkNode s v cur Ref.one with
      | error x =>
        simp only [e1, Except.error.injEq] at h
        subst h
        exact mkNode_err_good hg e1
      | ok p1 =>
      obtain ⟨s1, r1⟩ := p1
      simp only [e1] at h
      obtain ⟨g1, sub1, _, v1⟩ := mkNode_spec hg vc Valid.one sψ (SuppGe.const _ _) e1
      have snew : ∀ q, q ∈ rest → SuppGe (fun e => if e v = true then true else ψ e) (q.1 + 1) := by
        intro q hq
        have hlt := hpw'.1 q hq
        exact suppGe_node (by omega) (sψ.le' (by omega)) (SuppGe.const _ _)
      obtain ⟨g2, sub2⟩ := ih s1 r1 _ e s' g1 v1 hpw'.2 snew h
      exact ⟨g2, sub1.trans sub2⟩
    | false =>
      simp only [Bool.false_eq_true, ↓reduceIte] at h
      cases e1 : mkNode s v Ref.one cur with
      | error x =>
        simp only [e1, Except.error.injEq] at h
        subst h
        exact mkNode_err_good hg e1
      | ok p1 =>
      obtain ⟨s1, r1⟩ := p1
      simp only [e1] at h
      obtain ⟨g1, sub1, _, v1⟩ := mkNode_spec hg Valid.one vc (SuppGe.const _ _) sψ e1
      have snew : ∀ q, q ∈ rest → SuppGe (fun e => if e v = true then ψ e else true) (q.1 + 1) := by
        intro q hq
        have hlt := hpw'.1 q hq
        exact suppGe_node (by omega) (SuppGe.const _ _) (sψ.le' (by omega))
      obtain ⟨g2, sub2⟩ := ih s1 r1 _ e s' g1 v1 hpw'.2 snew h
      exact ⟨g2, sub1.trans sub2⟩

theorem clause_err {s : St} (hg : Good s) {lits : List Lit} (hd : (lits.map (·.1)).Nodup) {e s'}
    (h : clause s lits = .error (e, s')) : Good s' ∧ Sub s.nodes s'.nodes := by
  unfold clause at h
  exact clauseFold_err _ s Ref.zero (fun _ => false) e s' hg Valid.zero (sortLits_desc hd) (fun _ _ => SuppGe.const _ _) h

/-! ## substitute, substitute_multi, cofactor_cube

The hypotheses on the per-call memo are those of the `_spec` theorems (they are needed for the
successful inner calls that precede the failing one); nothing is claimed about the memo of a failure. -/

theorem substitute_err (v : Nat) (b : Bool) : ∀ fuel s f φ memo e s', Good s →
    Valid s.nodes f φ → SMemoOk s.nodes v b memo →
    substitute fuel s f v b memo = .error (e, s') → Good s' ∧ Sub s.nodes s'.nodes := by
  intro fuel
  induction fuel with
  | zero =>
    intro s f φ memo e s' hg _ _ hres
    simp only [substitute] at hres
    exact errPost_here hg rfl hres
  | succ fuel ih =>
    intro s f φ memo e s' hg vf hm hres
    unfold substitute at hres
    by_cases hv0 : v = 0
    · rw [if_pos hv0] at hres; exact errPost_here hg rfl hres
    rw [if_neg hv0] at hres
    by_cases ct : isTerminal f = true
    · rw [if_pos ct] at hres; cases hres
    rw [if_neg ct] at hres
    have hfnt : isTerminal f = false := by simpa using ct
    by_cases hlt : v < s.var f
    · rw [if_pos hlt] at hres; cases hres
    rw [if_neg hlt] at hres
    by_cases hvi : v = s.var f
    · rw [if_pos hvi] at hres; cases hres
    rw [if_neg hvi] at hres
    cases hl : memo.lookup f with
    | some res => simp only [hl] at hres; cases hres
    | none =>
    simp only [hl] at hres
    obtain ⟨d, hden⟩ := vf
    obtain ⟨hvar0, d0, d1, φ0, φ1, _, _, vlo, vhi, hφ, s0, s1⟩ := hden.split hg hfnt
    have vf : Valid s.nodes f φ := ⟨d, hden⟩
    cases e1 : substitute fuel s (s.lowNode f) v b memo with
    | error x =>
      simp only [e1, Except.error.injEq] at hres
      subst hres
      exact ih _ _ _ _ _ _ hg ⟨_, vlo⟩ hm e1
    | ok p1 =>
    obtain ⟨s1', low, memo1⟩ := p1
    simp only [e1] at hres
    obtain ⟨g1', sub1, vlow, hm1⟩ := substitute_spec v b fuel _ _ _ _ _ _ _ hg ⟨_, vlo⟩ hm e1
    obtain ⟨nf, hnf, -, -⟩ := nonterm_stored hg vf hfnt
    rw [St.highNode_mono hnf sub1] at hres
    cases e2 : substitute fuel s1' (s.highNode f) v b memo1 with
    | error x =>
      simp only [e2, Except.error.injEq] at hres
      subst hres
      obtain ⟨x1, y1⟩ := ih _ _ _ _ _ _ g1' (Valid.mono sub1 ⟨_, vhi⟩) hm1 e2
      exact ⟨x1, sub1.trans y1⟩
    | ok p2 =>
    obtain ⟨s2, high, memo2⟩ := p2
    simp only [e2] at hres
    obtain ⟨g2', sub2, vhigh, hm2⟩ := substitute_spec v b fuel _ _ _ _ _ _ _ g1' (Valid.mono sub1 ⟨_, vhi⟩) hm1 e2
    cases e3 : mkNode s2 (s.var f) low high with
    | error x =>
      simp only [e3, Except.error.injEq] at hres
      subst hres
      exact errPost_mkNode g2' (sub1.trans sub2) e3
    | ok p3 => obtain ⟨s3, res⟩ := p3; simp only [e3] at hres; cases hres

/-- `substitute(f, v, b)` as called from outside (fresh memo) -/
theorem substitute_top_err {fuel : Nat} {s : St} {f : Ref} {v : Nat} {b : Bool} {φ : Fn} {e : Fault} {s' : St}
    (hg : Good s) (vf : Valid s.nodes f φ) (hres : substitute fuel s f v b [] = .error (e, s')) :
    Good s' ∧ Sub s.nodes s'.nodes :=
  substitute_err v b fuel s f φ [] e s' hg vf (SMemoOk.nil _ _ _) hres

theorem substMulti_err (vals : Vals) : ∀ fuel s f φ memo e s' d, Good s →
    Den s.nodes d f φ → MMemoOk s.nodes vals memo →
    substMulti fuel s f vals memo = .error (e, s') → Good s' ∧ Sub s.nodes s'.nodes := by
  intro fuel
  induction fuel with
  | zero =>
    intro s f φ memo e s' d hg _ _ hres
    simp only [substMulti] at hres
    exact errPost_here hg rfl hres
  | succ fuel ih =>
    intro s f φ memo e s' d hg hden hm hres
    have vf : Valid s.nodes f φ := ⟨d, hden⟩
    unfold substMulti at hres
    by_cases ct : isTerminal f = true
    · rw [if_pos ct] at hres; cases hres
    rw [if_neg ct] at hres
    have hfnt : isTerminal f = false := by simpa using ct
    by_cases he : vals.isEmpty = true
    · rw [if_pos he] at hres; cases hres
    rw [if_neg he] at hres
    cases hl : memo.lookup f with
    | some res => simp only [hl] at hres; cases hres
    | none =>
    simp only [hl] at hres
    obtain ⟨hvar0, d0, d1, φ0, φ1, hd0, hd1, vlo, vhi, hφ, s0, s1⟩ := hden.split hg hfnt
    cases hv : vals.lookup (s.var f) with
    | some b =>
      simp only [hv] at hres
      cases b with
      | true =>
        simp only [↓reduceIte] at hres
        cases e1 : substMulti fuel s (s.highNode f) vals memo with
        | error x =>
          simp only [e1, Except.error.injEq] at hres
          subst hres
          exact ih _ _ _ _ _ _ _ hg vhi hm e1
        | ok p1 => obtain ⟨s1', res, memo1⟩ := p1; simp only [e1] at hres; cases hres
      | false =>
        simp only [Bool.false_eq_true, ↓reduceIte] at hres
        cases e1 : substMulti fuel s (s.lowNode f) vals memo with
        | error x =>
          simp only [e1, Except.error.injEq] at hres
          subst hres
          exact ih _ _ _ _ _ _ _ hg vlo hm e1
        | ok p1 => obtain ⟨s1', res, memo1⟩ := p1; simp only [e1] at hres; cases hres
    | none =>
      simp only [hv] at hres
      cases e1 : substMulti fuel s (s.lowNode f) vals memo with
      | error x =>
        simp only [e1, Except.error.injEq] at hres
        subst hres
        exact ih _ _ _ _ _ _ _ hg vlo hm e1
      | ok p1 =>
      obtain ⟨s1', low, memo1⟩ := p1
      simp only [e1] at hres
      obtain ⟨g1', sub1, vlow, hm1⟩ := substMulti_spec vals fuel _ _ _ _ _ _ _ _ hg vlo hm e1
      obtain ⟨nf, hnf, -, -⟩ := nonterm_stored hg vf hfnt
      rw [St.highNode_mono hnf sub1] at hres
      cases e2 : substMulti fuel s1' (s.highNode f) vals memo1 with
      | error x =>
        simp only [e2, Except.error.injEq] at hres
        subst hres
        obtain ⟨x1, y1⟩ := ih _ _ _ _ _ _ _ g1' (vhi.mono sub1) hm1 e2
        exact ⟨x1, sub1.trans y1⟩
      | ok p2 =>
      obtain ⟨s2, high, memo2⟩ := p2
      simp only [e2] at hres
      obtain ⟨g2', sub2, vhigh, hm2⟩ := substMulti_spec vals fuel _ _ _ _ _ _ _ _ g1' (vhi.mono sub1) hm1 e2
      cases e3 : mkNode s2 (s.var f) low high with
      | error x =>
        simp only [e3, Except.error.injEq] at hres
        subst hres
        exact errPost_mkNode g2' (sub1.trans sub2) e3
      | ok p3 => obtain ⟨s3, res⟩ := p3; simp only [e3] at hres; cases hres

/-- `substitute_multi(f, vals)` as called from outside -/
theorem substMulti_top_err {fuel : Nat} {s : St} {f : Ref} {vals : Vals} {φ : Fn} {e : Fault} {s' : St}
    (hg : Good s) (vf : Valid s.nodes f φ) (hres : substMulti fuel s f vals [] = .error (e, s')) :
    Good s' ∧ Sub s.nodes s'.nodes := by
  obtain ⟨d, hd⟩ := vf
  exact substMulti_err vals fuel s f φ [] e s' d hg hd (MMemoOk.nil _ _) hres

theorem cofCube_err (cube0 : Vals) : ∀ fuel s f φ cube memo e s' d, Good s →
    Den s.nodes d f φ → KMemoOk s.nodes cube0 memo →
    cube.Pairwise (fun a b => a.1 < b.1) → cube = cube0.drop (cube0.length - cube.length) → cube.length ≤ cube0.length →
    cofCube fuel s f cube memo = .error (e, s') → Good s' ∧ Sub s.nodes s'.nodes := by
  intro fuel
  induction fuel with
  | zero =>
    intro s f φ cube memo e s' d hg _ _ _ _ _ hres
    simp only [cofCube] at hres
    exact errPost_here hg rfl hres
  | succ fuel ih =>
    intro s f φ cube memo e s' d hg hden hm hasc hsuf hlen hres
    have vf : Valid s.nodes f φ := ⟨d, hden⟩
    cases cube with
    | nil => simp only [cofCube] at hres; cases hres
    | cons p rest =>
    obtain ⟨u, b⟩ := p
    simp only [cofCube] at hres
    by_cases ct : isTerminal f = true
    · rw [if_pos ct] at hres; cases hres
    rw [if_neg ct] at hres
    have hfnt : isTerminal f = false := by simpa using ct
    -- the suffix facts for `rest`
    have hlen' : rest.length ≤ cube0.length := by simp at hlen; omega
    have hsuf' : rest = cube0.drop (cube0.length - rest.length) := by
      have h2 : (cube0.drop (cube0.length - (rest.length + 1))).drop 1 = rest := by
        simp only [List.length_cons] at hsuf; rw [← hsuf]; rfl
      rw [List.drop_drop] at h2
      have hl1 : rest.length + 1 ≤ cube0.length := by simpa using hlen
      have : cube0.length - rest.length = cube0.length - (rest.length + 1) + 1 := by omega
      rw [this]; exact h2.symm
    cases hl : memo.lookup (rest.length + 1, f) with
    | some res => simp only [hl] at hres; cases hres
    | none =>
    simp only [hl] at hres
    obtain ⟨hvar0, d0, d1, φ0, φ1, hd0, hd1, vlo, vhi, hφ, s0, s1⟩ := hden.split hg hfnt
    have hasc' := (List.pairwise_cons.mp hasc)
    by_cases hgt : s.var f > u
    · rw [if_pos hgt] at hres
      cases e1 : cofCube fuel s f rest memo with
      | error x =>
        simp only [e1, Except.error.injEq] at hres
        subst hres
        exact ih _ _ _ _ _ _ _ _ hg hden hm hasc'.2 hsuf' hlen' e1
      | ok p1 => obtain ⟨s1', res, memo1⟩ := p1; simp only [e1] at hres; cases hres
    rw [if_neg hgt] at hres
    by_cases heq : s.var f = u
    · rw [if_pos heq] at hres
      cases b with
      | true =>
        simp only [↓reduceIte] at hres
        cases e1 : cofCube fuel s (s.highNode f) rest memo with
        | error x =>
          simp only [e1, Except.error.injEq] at hres
          subst hres
          exact ih _ _ _ _ _ _ _ _ hg vhi hm hasc'.2 hsuf' hlen' e1
        | ok p1 => obtain ⟨s1', res, memo1⟩ := p1; simp only [e1] at hres; cases hres
      | false =>
        simp only [Bool.false_eq_true, ↓reduceIte] at hres
        cases e1 : cofCube fuel s (s.lowNode f) rest memo with
        | error x =>
          simp only [e1, Except.error.injEq] at hres
          subst hres
          exact ih _ _ _ _ _ _ _ _ hg vlo hm hasc'.2 hsuf' hlen' e1
        | ok p1 => obtain ⟨s1', res, memo1⟩ := p1; simp only [e1] at hres; cases hres
    · rw [if_neg heq] at hres
      cases e1 : cofCube fuel s (s.lowNode f) ((u, b) :: rest) memo with
      | error x =>
        simp only [e1, Except.error.injEq] at hres
        subst hres
        exact ih _ _ _ _ _ _ _ _ hg vlo hm hasc hsuf hlen e1
      | ok p1 =>
      obtain ⟨s1', low, memo1⟩ := p1
      simp only [e1] at hres
      obtain ⟨g1', sub1, vlow, hm1⟩ := cofCube_spec cube0 fuel _ _ _ _ _ _ _ _ _ hg vlo hm hasc hsuf hlen e1
      cases e2 : cofCube fuel s1' (s.highNode f) ((u, b) :: rest) memo1 with
      | error x =>
        simp only [e2, Except.error.injEq] at hres
        subst hres
        obtain ⟨x1, y1⟩ := ih _ _ _ _ _ _ _ _ g1' (vhi.mono sub1) hm1 hasc hsuf hlen e2
        exact ⟨x1, sub1.trans y1⟩
      | ok p2 =>
      obtain ⟨s2, high, memo2⟩ := p2
      simp only [e2] at hres
      obtain ⟨g2', sub2, vhigh, hm2⟩ := cofCube_spec cube0 fuel _ _ _ _ _ _ _ _ _ g1' (vhi.mono sub1) hm1 hasc hsuf hlen e2
      cases e3 : mkNode s2 (s.var f) low high with
      | error x =>
        simp only [e3, Except.error.injEq] at hres
        subst hres
        exact errPost_mkNode g2' (sub1.trans sub2) e3
      | ok p3 => obtain ⟨s3, res⟩ := p3; simp only [e3] at hres; cases hres

/-- `cofactor_cube(f, cube)` as called from outside, for a cube listed in ascending variable order -/
theorem cofCube_top_err {fuel : Nat} {s : St} {f : Ref} {cube : Vals} {φ : Fn} {e : Fault} {s' : St}
    (hg : Good s) (vf : Valid s.nodes f φ) (hasc : cube.Pairwise (fun a b => a.1 < b.1))
    (hres : cofCube fuel s f cube [] = .error (e, s')) : Good s' ∧ Sub s.nodes s'.nodes := by
  obtain ⟨d, hd⟩ := vf
  exact cofCube_err cube fuel s f φ cube [] e s' d hg hd (KMemoOk.nil _ _) hasc (by simp) (Nat.le_refl _) hres

/-! ## compose -/

/-- the raw children of a stored (non-terminal) handle are live -/
theorem rawChildren_live {s : St} (hg : Good s) {f : Ref} {φ : Fn} (vf : Valid s.nodes f φ)
    (hnt : isTerminal f = false) : Live' s (s.low f.idx) ∧ Live' s (s.high f.idx) := by
  obtain ⟨d, hden⟩ := vf
  obtain ⟨_, d0, d1, φ0, φ1, _, _, vlo, vhi, _, _, _⟩ := hden.split hg hnt
  have vlo' : Valid s.nodes (s.lowNode f) φ0 := ⟨_, vlo⟩
  have vhi' : Valid s.nodes (s.highNode f) φ1 := ⟨_, vhi⟩
  unfold St.lowNode at vlo'
  unfold St.highNode at vhi'
  by_cases hn : f.neg = true
  · rw [if_pos hn] at vlo' vhi'
    exact ⟨⟨_, by simpa using vlo'.not⟩, ⟨_, by simpa using vhi'.not⟩⟩
  · rw [if_neg hn] at vlo' vhi'
    exact ⟨⟨_, vlo'⟩, ⟨_, vhi'⟩⟩

theorem compose_err (v : Nat) : ∀ fuel s f g φf φg memo e s', Good s →
    Valid s.nodes f φf → Valid s.nodes g φg → CMemoOk s.nodes v memo →
    compose fuel s f v g memo = .error (e, s') → Good s' ∧ Sub s.nodes s'.nodes := by
  intro fuel
  induction fuel with
  | zero =>
    intro s f g φf φg memo e s' hg _ _ _ hres
    simp only [compose] at hres
    exact errPost_here hg rfl hres
  | succ fuel ih =>
    intro s f g φf φg memo e s' hg vf vg hm hres
    have h1 := hg.inv.noterm
    unfold compose at hres
    by_cases ct : isTerminal f = true
    · rw [if_pos ct] at hres; cases hres
    rw [if_neg ct] at hres
    have hfnt : isTerminal f = false := by simpa using ct
    clear ct
    by_cases hi0 : s.var f = 0
    · rw [if_pos hi0] at hres; exact errPost_here hg rfl hres
    rw [if_neg hi0] at hres
    by_cases hlt : v < s.var f
    · rw [if_pos hlt] at hres; cases hres
    rw [if_neg hlt] at hres
    cases hl : memo.lookup (f, g) with
    | some res => simp only [hl] at hres; cases hres
    | none =>
    simp only [hl] at hres
    by_cases hvi : v = s.var f
    · rw [if_pos hvi] at hres
      obtain ⟨⟨ψ0, v0⟩, ⟨ψ1, v1⟩⟩ := rawChildren_live hg vf hfnt
      cases e1 : applyIte fuel s g (s.high f.idx) (s.low f.idx) with
      | error x =>
        simp only [e1, Except.error.injEq] at hres
        subst hres
        exact applyIte_err fuel _ _ _ _ _ _ _ _ _ hg vg v1 v0 e1
      | ok p1 => obtain ⟨s1, r1⟩ := p1; simp only [e1] at hres; cases hres
    · rw [if_neg hvi] at hres
      generalize hmdef : (if isTerminal g = true then s.var f else min (s.var f) (s.var g)) = m at hres
      by_cases hm0 : m = 0
      · rw [if_pos hm0] at hres; exact errPost_here hg rfl hres
      rw [if_neg hm0] at hres
      have hmf : m ≤ s.var f := by rw [← hmdef]; split <;> omega
      have sf : SuppGe φf m := supp_of_var hg vf (fun _ => hmf)
      have sg : SuppGe φg m := by
        by_cases hgt : isTerminal g = true
        · simp only [isTerminal, Bool.or_eq_true] at hgt
          rcases hgt with c | c
          · rw [one_fn h1 c vg]; exact SuppGe.const _ _
          · rw [zero_fn h1 c vg]; exact SuppGe.const _ _
        · apply supp_of_var hg vg
          intro _; rw [← hmdef, if_neg hgt]; omega
      cases hcf : topCofactors s f m with
      | error x => simp only [hcf] at hres; exact errPost_here hg rfl hres
      | ok pf =>
      cases hcg : topCofactors s g m with
      | error x => simp only [hcf, hcg] at hres; exact errPost_here hg rfl hres
      | ok pg =>
      obtain ⟨f0, f1⟩ := pf; obtain ⟨g0, g1⟩ := pg
      simp only [hcf, hcg] at hres
      obtain ⟨vf0, vf1⟩ := topCofactors_spec hg vf sf hcf
      obtain ⟨vg0, vg1⟩ := topCofactors_spec hg vg sg hcg
      cases e1 : compose fuel s f0 v g0 memo with
      | error x =>
        simp only [e1, Except.error.injEq] at hres
        subst hres
        exact ih _ _ _ _ _ _ _ _ hg vf0 vg0 hm e1
      | ok p1 =>
      obtain ⟨s1, h0, memo1⟩ := p1
      simp only [e1] at hres
      obtain ⟨g1', sub1, vh0, hm1⟩ := compose_spec v fuel _ _ _ _ _ _ _ _ _ hg vf0 vg0 hm e1
      cases e2 : compose fuel s1 f1 v g1 memo1 with
      | error x =>
        simp only [e2, Except.error.injEq] at hres
        subst hres
        obtain ⟨x1, y1⟩ := ih _ _ _ _ _ _ _ _ g1' (vf1.mono sub1) (vg1.mono sub1) hm1 e2
        exact ⟨x1, sub1.trans y1⟩
      | ok p2 =>
      obtain ⟨s2, hh1, memo2⟩ := p2
      simp only [e2] at hres
      obtain ⟨g2', sub2, vh1, hm2⟩ := compose_spec v fuel _ _ _ _ _ _ _ _ _ g1' (vf1.mono sub1) (vg1.mono sub1) hm1 e2
      cases e3 : mkNode s2 m h0 hh1 with
      | error x =>
        simp only [e3, Except.error.injEq] at hres
        subst hres
        exact errPost_mkNode g2' (sub1.trans sub2) e3
      | ok p3 => obtain ⟨s3, res⟩ := p3; simp only [e3] at hres; cases hres

/-- the entry point `compose(f, v, g)` (fresh per-call cache) -/
theorem composeTop_err {fuel : Nat} {s : St} {f g : Ref} {v : Nat} {φf φg : Fn} {e : Fault} {s' : St}
    (hg : Good s) (vf : Valid s.nodes f φf) (vg : Valid s.nodes g φg)
    (hres : composeTop fuel s f v g = .error (e, s')) : Good s' ∧ Sub s.nodes s'.nodes := by
  unfold composeTop at hres
  cases hc : compose fuel s f v g (Cache.new 16) with
  | error x =>
    rw [hc] at hres
    simp only [Except.error.injEq] at hres
    subst hres
    exact compose_err v fuel s f g φf φg _ _ _ hg vf vg (CMemoOk.new _ _ _) hc
  | ok p => obtain ⟨s1, r1, memo1⟩ := p; rw [hc] at hres; cases hres

/-! ## constrain, restrict -/

theorem constrain_err : ∀ fuel s f g φf φg e s', Good s → Valid s.nodes f φf → Valid s.nodes g φg →
    constrain fuel s f g = .error (e, s') → Good s' ∧ Sub s.nodes s'.nodes := by
  intro fuel
  induction fuel with
  | zero =>
    intro s f g φf φg e s' hg _ _ hres
    simp only [constrain] at hres
    exact errPost_here hg rfl hres
  | succ fuel ih =>
    intro s f g φf φg e s' hg vf vg hres
    unfold constrain at hres
    by_cases c : isZero g = true
    · rw [if_pos c] at hres; cases hres
    rw [if_neg c] at hres; clear c
    by_cases c : isOne g = true
    · rw [if_pos c] at hres; cases hres
    rw [if_neg c] at hres; clear c
    by_cases c : isTerminal f = true
    · rw [if_pos c] at hres; cases hres
    rw [if_neg c] at hres; clear c
    by_cases c : f = g
    · rw [if_pos c] at hres; cases hres
    rw [if_neg c] at hres; clear c
    by_cases c : f = g.not
    · rw [if_pos c] at hres; cases hres
    rw [if_neg c] at hres; clear c
    cases hc : (s.cacheGet (.constrain f g)).2 with
    | some res => simp only [hc] at hres; cases hres
    | none =>
    simp only [hc] at hres
    have hgX := hg.cacheGet (.constrain f g)
    generalize hsX : (s.cacheGet (.constrain f g)).1 = sX at hres hgX
    have hnX : sX.nodes = s.nodes := by rw [← hsX]; rfl
    rw [← hnX] at vf vg ⊢
    generalize hv : min (sX.var f) (sX.var g) = v at hres
    have hvf' : v ≤ sX.var f := by omega
    have hvg' : v ≤ sX.var g := by omega
    have sf : SuppGe φf v := supp_of_var hgX vf (fun _ => hvf')
    have sg : SuppGe φg v := supp_of_var hgX vg (fun _ => hvg')
    cases hcf : topCofactors sX f v with
    | error x => simp only [hcf] at hres; exact errPost_here hgX rfl hres
    | ok pf =>
    cases hcg : topCofactors sX g v with
    | error x => simp only [hcf, hcg] at hres; exact errPost_here hgX rfl hres
    | ok pg =>
    obtain ⟨f0, f1⟩ := pf; obtain ⟨g0, g1⟩ := pg
    simp only [hcf, hcg] at hres
    obtain ⟨vf0, vf1⟩ := topCofactors_spec hgX vf sf hcf
    obtain ⟨vg0, vg1⟩ := topCofactors_spec hgX vg sg hcg
    by_cases c : isZero g1 = true
    · rw [if_pos c] at hres
      exact ih _ _ _ _ _ _ _ hgX vf0 vg0 hres
    rw [if_neg c] at hres; clear c
    by_cases c : isZero g0 = true
    · rw [if_pos c] at hres
      exact ih _ _ _ _ _ _ _ hgX vf1 vg1 hres
    rw [if_neg c] at hres; clear c
    -- two recursive calls, then `mk_node`
    have both : ∀ {fa fb : Ref} {a b : Fn}, Valid sX.nodes fa a → Valid sX.nodes fb b →
        (∀ s1 low, constrain fuel sX fa g0 = .ok (s1, low) →
          ∀ s2 high, constrain fuel s1 fb g1 = .ok (s2, high) → Good s2 ∧ Sub sX.nodes s2.nodes) ∧
        (∀ x, constrain fuel sX fa g0 = .error x → x = (e, s') → Good s' ∧ Sub sX.nodes s'.nodes) ∧
        (∀ s1 low, constrain fuel sX fa g0 = .ok (s1, low) →
          constrain fuel s1 fb g1 = .error (e, s') → Good s' ∧ Sub sX.nodes s'.nodes) := by
      intro fa fb a b va vb
      refine ⟨?_, ?_, ?_⟩
      · intro s1 low e1 s2 high e2
        obtain ⟨g1', sub1, _⟩ := constrain_spec fuel _ _ _ _ _ _ _ hgX va vg0 e1
        obtain ⟨g2', sub2, _⟩ := constrain_spec fuel _ _ _ _ _ _ _ g1' (vb.mono sub1) (vg1.mono sub1) e2
        exact ⟨g2', sub1.trans sub2⟩
      · intro x e1 hx
        subst hx
        exact ih _ _ _ _ _ _ _ hgX va vg0 e1
      · intro s1 low e1 e2
        obtain ⟨g1', sub1, _⟩ := constrain_spec fuel _ _ _ _ _ _ _ hgX va vg0 e1
        obtain ⟨x1, y1⟩ := ih _ _ _ _ _ _ _ g1' (vb.mono sub1) (vg1.mono sub1) e2
        exact ⟨x1, sub1.trans y1⟩
    by_cases c : f0 = f1
    · rw [if_pos c] at hres
      obtain ⟨bok, berr1, berr2⟩ := both vf vf
      cases e1 : constrain fuel sX f g0 with
      | error x =>
        simp only [e1, Except.error.injEq] at hres
        exact berr1 x e1 hres
      | ok p1 =>
      obtain ⟨s1, low⟩ := p1
      simp only [e1] at hres
      cases e2 : constrain fuel s1 f g1 with
      | error x =>
        simp only [e2, Except.error.injEq] at hres
        subst hres
        exact berr2 _ _ e1 e2
      | ok p2 =>
      obtain ⟨s2, high⟩ := p2
      simp only [e2] at hres
      obtain ⟨g2', sub02⟩ := bok _ _ e1 _ _ e2
      exact errPost_mkNode g2' sub02 hres
    · rw [if_neg c] at hres
      obtain ⟨bok, berr1, berr2⟩ := both vf0 vf1
      cases e1 : constrain fuel sX f0 g0 with
      | error x =>
        simp only [e1, Except.error.injEq] at hres
        exact berr1 x e1 hres
      | ok p1 =>
      obtain ⟨s1, low⟩ := p1
      simp only [e1] at hres
      cases e2 : constrain fuel s1 f1 g1 with
      | error x =>
        simp only [e2, Except.error.injEq] at hres
        subst hres
        exact berr2 _ _ e1 e2
      | ok p2 =>
      obtain ⟨s2, high⟩ := p2
      simp only [e2] at hres
      obtain ⟨g2', sub02⟩ := bok _ _ e1 _ _ e2
      cases e3 : mkNode s2 v low high with
      | error x =>
        simp only [e3, Except.error.injEq] at hres
        subst hres
        exact errPost_mkNode g2' sub02 e3
      | ok p3 => obtain ⟨s3, res⟩ := p3; simp only [e3] at hres; cases hres

theorem restrict_err : ∀ fuel s f g φf φg e s', Good s → Valid s.nodes f φf → Valid s.nodes g φg →
    restrict fuel s f g = .error (e, s') → Good s' ∧ Sub s.nodes s'.nodes := by
  intro fuel
  induction fuel with
  | zero =>
    intro s f g φf φg e s' hg _ _ hres
    simp only [restrict] at hres
    exact errPost_here hg rfl hres
  | succ fuel ih =>
    intro s f g φf φg e s' hg vf vg hres
    unfold restrict at hres
    by_cases c : isZero g = true
    · rw [if_pos c] at hres; cases hres
    rw [if_neg c] at hres; clear c
    by_cases c : (isOne g || isTerminal f) = true
    · rw [if_pos c] at hres; cases hres
    rw [if_neg c] at hres; clear c
    by_cases c : f = g
    · rw [if_pos c] at hres; cases hres
    rw [if_neg c] at hres; clear c
    by_cases c : f = g.not
    · rw [if_pos c] at hres; cases hres
    rw [if_neg c] at hres; clear c
    cases hc : (s.cacheGet (.restrict f g)).2 with
    | some res => simp only [hc] at hres; cases hres
    | none =>
    simp only [hc] at hres
    have hgX := hg.cacheGet (.restrict f g)
    generalize hsX : (s.cacheGet (.restrict f g)).1 = sX at hres hgX
    have hnX : sX.nodes = s.nodes := by rw [← hsX]; rfl
    rw [← hnX] at vf vg ⊢
    generalize hv : min (sX.var f) (sX.var g) = v at hres
    have hvf' : v ≤ sX.var f := by omega
    have hvg' : v ≤ sX.var g := by omega
    have sf : SuppGe φf v := supp_of_var hgX vf (fun _ => hvf')
    have sg : SuppGe φg v := supp_of_var hgX vg (fun _ => hvg')
    cases hcf : topCofactors sX f v with
    | error x => simp only [hcf] at hres; exact errPost_here hgX rfl hres
    | ok pf =>
    cases hcg : topCofactors sX g v with
    | error x => simp only [hcf, hcg] at hres; exact errPost_here hgX rfl hres
    | ok pg =>
    obtain ⟨f0, f1⟩ := pf; obtain ⟨g0, g1⟩ := pg
    simp only [hcf, hcg] at hres
    obtain ⟨vf0, vf1⟩ := topCofactors_spec hgX vf sf hcf
    obtain ⟨vg0, vg1⟩ := topCofactors_spec hgX vg sg hcg
    by_cases c : isZero g1 = true
    · rw [if_pos c] at hres
      exact ih _ _ _ _ _ _ _ hgX vf0 vg0 hres
    rw [if_neg c] at hres; clear c
    by_cases c : isZero g0 = true
    · rw [if_pos c] at hres
      exact ih _ _ _ _ _ _ _ hgX vf1 vg1 hres
    rw [if_neg c] at hres; clear c
    by_cases c : v = sX.var f
    · rw [if_pos c] at hres
      cases e1 : restrict fuel sX f0 g0 with
      | error x =>
        simp only [e1, Except.error.injEq] at hres
        subst hres
        exact ih _ _ _ _ _ _ _ hgX vf0 vg0 e1
      | ok p1 =>
      obtain ⟨s1, low⟩ := p1
      simp only [e1] at hres
      obtain ⟨g1', sub1, _⟩ := restrict_spec fuel _ _ _ _ _ _ _ hgX vf0 vg0 e1
      cases e2 : restrict fuel s1 f1 g1 with
      | error x =>
        simp only [e2, Except.error.injEq] at hres
        subst hres
        obtain ⟨x1, y1⟩ := ih _ _ _ _ _ _ _ g1' (vf1.mono sub1) (vg1.mono sub1) e2
        exact ⟨x1, sub1.trans y1⟩
      | ok p2 =>
      obtain ⟨s2, high⟩ := p2
      simp only [e2] at hres
      obtain ⟨g2', sub2, _⟩ := restrict_spec fuel _ _ _ _ _ _ _ g1' (vf1.mono sub1) (vg1.mono sub1) e2
      cases e3 : mkNode s2 v low high with
      | error x =>
        simp only [e3, Except.error.injEq] at hres
        subst hres
        exact errPost_mkNode g2' (sub1.trans sub2) e3
      | ok p3 => obtain ⟨s3, res⟩ := p3; simp only [e3] at hres; cases hres
    · rw [if_neg c] at hres
      cases e1 : applyIte fuel sX g1 Ref.one g0 with
      | error x =>
        simp only [e1, Except.error.injEq] at hres
        subst hres
        exact applyIte_err fuel _ _ _ _ _ _ _ _ _ hgX vg1 Valid.one vg0 e1
      | ok p1 =>
      obtain ⟨s1, g'⟩ := p1
      simp only [e1] at hres
      obtain ⟨g1', sub1, vg'⟩ := applyIte_spec fuel _ _ _ _ _ _ _ _ _ hgX vg1 Valid.one vg0 e1
      cases e2 : restrict fuel s1 f g' with
      | error x =>
        simp only [e2, Except.error.injEq] at hres
        subst hres
        obtain ⟨x1, y1⟩ := ih _ _ _ _ _ _ _ g1' (vf.mono sub1) vg' e2
        exact ⟨x1, sub1.trans y1⟩
      | ok p2 => obtain ⟨s2, res⟩ := p2; simp only [e2] at hres; cases hres

/-! ## expression evaluation -/

theorem Expr.eval_err (fuel : Nat) : ∀ (x : Expr) (s : St) (φ : Fn) e s', Good s → Expr.Sem s.nodes x φ →
    Expr.eval fuel s x = .error (e, s') → Good s' ∧ Sub s.nodes s'.nodes := by
  intro x
  induction x with
  | term t => intro s φ e s' _ _ h; simp only [Expr.eval] at h; cases h
  | not a ih =>
    intro s φ e s' hg hs h
    cases hs with
    | not ha =>
      simp only [Expr.eval] at h
      cases e1 : Expr.eval fuel s a with
      | error x =>
        simp only [e1, Except.error.injEq] at h
        subst h
        exact ih s _ _ _ hg ha e1
      | ok p => obtain ⟨s1, r1⟩ := p; simp only [e1] at h; cases h
  | and a b iha ihb =>
    intro s φ e s' hg hs h
    cases hs with
    | and ha hb =>
      simp only [Expr.eval] at h
      cases e1 : Expr.eval fuel s a with
      | error x =>
        simp only [e1, Except.error.injEq] at h
        subst h
        exact iha s _ _ _ hg ha e1
      | ok p =>
        obtain ⟨s1, ra⟩ := p
        simp only [e1] at h
        obtain ⟨g1, sub1, va⟩ := Expr.eval_spec fuel a s _ _ _ hg ha e1
        cases e2 : Expr.eval fuel s1 b with
        | error x =>
          simp only [e2, Except.error.injEq] at h
          subst h
          obtain ⟨x1, y1⟩ := ihb s1 _ _ _ g1 (hb.mono sub1) e2
          exact ⟨x1, sub1.trans y1⟩
        | ok p2 =>
          obtain ⟨s2, rb⟩ := p2
          simp only [e2] at h
          obtain ⟨g2, sub2, vb⟩ := Expr.eval_spec fuel b s1 _ _ _ g1 (hb.mono sub1) e2
          obtain ⟨x1, y1⟩ := applyAnd_err g2 (va.mono sub2) vb h
          exact ⟨x1, (sub1.trans sub2).trans y1⟩
  | or a b iha ihb =>
    intro s φ e s' hg hs h
    cases hs with
    | or ha hb =>
      simp only [Expr.eval] at h
      cases e1 : Expr.eval fuel s a with
      | error x =>
        simp only [e1, Except.error.injEq] at h
        subst h
        exact iha s _ _ _ hg ha e1
      | ok p =>
        obtain ⟨s1, ra⟩ := p
        simp only [e1] at h
        obtain ⟨g1, sub1, va⟩ := Expr.eval_spec fuel a s _ _ _ hg ha e1
        cases e2 : Expr.eval fuel s1 b with
        | error x =>
          simp only [e2, Except.error.injEq] at h
          subst h
          obtain ⟨x1, y1⟩ := ihb s1 _ _ _ g1 (hb.mono sub1) e2
          exact ⟨x1, sub1.trans y1⟩
        | ok p2 =>
          obtain ⟨s2, rb⟩ := p2
          simp only [e2] at h
          obtain ⟨g2, sub2, vb⟩ := Expr.eval_spec fuel b s1 _ _ _ g1 (hb.mono sub1) e2
          obtain ⟨x1, y1⟩ := applyOr_err g2 (va.mono sub2) vb h
          exact ⟨x1, (sub1.trans sub2).trans y1⟩
  | xor a b iha ihb =>
    intro s φ e s' hg hs h
    cases hs with
    | xor ha hb =>
      simp only [Expr.eval] at h
      cases e1 : Expr.eval fuel s a with
      | error x =>
        simp only [e1, Except.error.injEq] at h
        subst h
        exact iha s _ _ _ hg ha e1
      | ok p =>
        obtain ⟨s1, ra⟩ := p
        simp only [e1] at h
        obtain ⟨g1, sub1, va⟩ := Expr.eval_spec fuel a s _ _ _ hg ha e1
        cases e2 : Expr.eval fuel s1 b with
        | error x =>
          simp only [e2, Except.error.injEq] at h
          subst h
          obtain ⟨x1, y1⟩ := ihb s1 _ _ _ g1 (hb.mono sub1) e2
          exact ⟨x1, sub1.trans y1⟩
        | ok p2 =>
          obtain ⟨s2, rb⟩ := p2
          simp only [e2] at h
          obtain ⟨g2, sub2, vb⟩ := Expr.eval_spec fuel b s1 _ _ _ g1 (hb.mono sub1) e2
          obtain ⟨x1, y1⟩ := applyXor_err g2 (va.mono sub2) vb h
          exact ⟨x1, (sub1.trans sub2).trans y1⟩

/-! ## `ite_constant`, `is_implies`: a failure has touched nothing but the statistics counters -/

theorem iteConstant_err_untouched : ∀ fuel s f g h φf φg φh e s', Good s →
    Valid s.nodes f φf → Valid s.nodes g φg → Valid s.nodes h φh →
    iteConstant fuel s f g h = .error (e, s') → Untouched s s' := by
  intro fuel
  induction fuel with
  | zero =>
    intro s f g h φf φg φh e s' _ _ _ _ hres
    simp only [iteConstant] at hres
    rw [err_inj hres]; exact Untouched.refl _
  | succ fuel ih =>
    intro s f g h φf φg φh e s' hg vf vg vh hres
    unfold iteConstant at hres
    by_cases c : isOne f = true
    · rw [if_pos c] at hres; cases hres
    rw [if_neg c] at hres; clear c
    by_cases c : isZero f = true
    · rw [if_pos c] at hres; cases hres
    rw [if_neg c] at hres; clear c
    by_cases c : g = h
    · rw [if_pos c] at hres; cases hres
    rw [if_neg c] at hres; clear c
    by_cases c : (isOne g && isZero h) = true
    · rw [if_pos c] at hres; cases hres
    rw [if_neg c] at hres; clear c
    by_cases c : (isZero g && isOne h) = true
    · rw [if_pos c] at hres; cases hres
    rw [if_neg c] at hres; clear c
    by_cases c : (isOne g && decide (h = f.not)) = true
    · rw [if_pos c] at hres; cases hres
    rw [if_neg c] at hres; clear c
    by_cases c : (decide (g = f) && isOne h) = true
    · rw [if_pos c] at hres; cases hres
    rw [if_neg c] at hres; clear c
    by_cases c : (decide (g = f.not) && isZero h) = true
    · rw [if_pos c] at hres; cases hres
    rw [if_neg c] at hres; clear c
    by_cases c : (isZero g && decide (h = f)) = true
    · rw [if_pos c] at hres; cases hres
    rw [if_neg c] at hres; clear c
    cases hc : (s.cacheGet (.ite f g h)).2 with
    | some res => simp only [hc] at hres; cases hres
    | none =>
    simp only [hc] at hres
    have hgX := hg.cacheGet (.ite f g h)
    have huX := Untouched.cacheGet s (.ite f g h)
    generalize hsX : (s.cacheGet (.ite f g h)).1 = sX at hres hgX huX
    have hnX : sX.nodes = s.nodes := by rw [← hsX]; rfl
    rw [← hnX] at vf vg vh
    have here : ∀ {fl : Fault}, (.error (fl, sX) : Res (St × Option Bool)) = .error (e, s') → Untouched s s' := by
      intro fl h; rw [err_inj h]; exact huX
    by_cases hi0 : sX.var f = 0
    · rw [if_pos hi0] at hres; exact here hres
    rw [if_neg hi0] at hres
    generalize hm : min3 (sX.var f) (sX.var g) (sX.var h) = m at hres
    by_cases hm0 : m = 0
    · rw [if_pos hm0] at hres; exact here hres
    rw [if_neg hm0] at hres
    have ml := min3_le (sX.var f) (sX.var g) (sX.var h)
    rw [hm] at ml
    have sf : SuppGe φf m := supp_of_var hgX vf (fun _ => ml.1)
    have sg : SuppGe φg m := supp_of_var hgX vg ml.2.1
    have sh : SuppGe φh m := supp_of_var hgX vh ml.2.2
    cases hcf : topCofactors sX f m with
    | error x => simp only [hcf] at hres; exact here hres
    | ok pf =>
    cases hcg : topCofactors sX g m with
    | error x => simp only [hcf, hcg] at hres; exact here hres
    | ok pg =>
    cases hch : topCofactors sX h m with
    | error x => simp only [hcf, hcg, hch] at hres; exact here hres
    | ok ph =>
    obtain ⟨f0, f1⟩ := pf; obtain ⟨g0, g1⟩ := pg; obtain ⟨h0, h1'⟩ := ph
    simp only [hcf, hcg, hch] at hres
    obtain ⟨vf0, vf1⟩ := topCofactors_spec hgX vf sf hcf
    obtain ⟨vg0, vg1⟩ := topCofactors_spec hgX vg sg hcg
    obtain ⟨vh0, vh1⟩ := topCofactors_spec hgX vh sh hch
    cases ht : iteConstant fuel sX f1 g1 h1' with
    | error x =>
      simp only [ht, Except.error.injEq] at hres
      subst hres
      exact huX.trans (ih _ _ _ _ _ _ _ _ _ hgX vf1 vg1 vh1 ht)
    | ok p1 =>
    obtain ⟨s1, t⟩ := p1
    obtain ⟨_, hu1⟩ := iteConstant_spec' fuel _ _ _ _ _ _ _ _ _ hgX vf1 vg1 vh1 ht
    cases t with
    | none => simp only [ht] at hres; cases hres
    | some T =>
      simp only [ht] at hres
      have hg1 := hu1.good hgX
      have hn1 := hu1.nodes
      rw [← hn1] at vf0 vg0 vh0
      cases he : iteConstant fuel s1 f0 g0 h0 with
      | error x =>
        simp only [he, Except.error.injEq] at hres
        subst hres
        exact (huX.trans hu1).trans (ih _ _ _ _ _ _ _ _ _ hg1 vf0 vg0 vh0 he)
      | ok p2 =>
        obtain ⟨s2, e2⟩ := p2
        simp only [he] at hres
        by_cases hne : e2 ≠ some T
        · rw [if_pos hne] at hres; cases hres
        · rw [if_neg hne] at hres; cases hres

theorem iteConstant_err {fuel : Nat} {s : St} {f g h : Ref} {φf φg φh : Fn} {e : Fault} {s' : St}
    (hg : Good s) (vf : Valid s.nodes f φf) (vg : Valid s.nodes g φg) (vh : Valid s.nodes h φh)
    (hres : iteConstant fuel s f g h = .error (e, s')) : Good s' ∧ Sub s.nodes s'.nodes := by
  have hu := iteConstant_err_untouched fuel s f g h φf φg φh e s' hg vf vg vh hres
  exact ⟨hu.good hg, by rw [hu.nodes]; exact Sub.refl _⟩

theorem isImplies_err_untouched {fuel : Nat} {s : St} {f g : Ref} {φf φg : Fn} {e : Fault} {s' : St}
    (hg : Good s) (vf : Valid s.nodes f φf) (vg : Valid s.nodes g φg)
    (hres : isImplies fuel s f g = .error (e, s')) : Untouched s s' := by
  unfold isImplies at hres
  cases hc : iteConstant fuel s f g Ref.one with
  | error x =>
    rw [hc] at hres
    simp only [Except.error.injEq] at hres
    subst hres
    exact iteConstant_err_untouched fuel s f g Ref.one φf φg _ e s' hg vf vg Valid.one hc
  | ok p => obtain ⟨s1, o⟩ := p; rw [hc] at hres; cases hres

theorem isImplies_err {fuel : Nat} {s : St} {f g : Ref} {φf φg : Fn} {e : Fault} {s' : St}
    (hg : Good s) (vf : Valid s.nodes f φf) (vg : Valid s.nodes g φg)
    (hres : isImplies fuel s f g = .error (e, s')) : Good s' ∧ Sub s.nodes s'.nodes := by
  have hu := isImplies_err_untouched hg vf vg hres
  exact ⟨hu.good hg, by rw [hu.nodes]; exact Sub.refl _⟩

/-! ## garbage collection cannot fail on a good state with live roots -/

theorem collectGarbage_no_err {s : St} (hg : Good s) {roots : List Ref} (hl : ∀ r, r ∈ roots → Live' s r)
    {e : Fault} {s' : St} (h : collectGarbage s roots = .error (e, s')) : False := by
  obtain ⟨t, hok, _⟩ := collect_core hg (fun r hr => let ⟨_, v⟩ := hl r hr; Live.of_valid v) hg.rs
  rw [hok] at h; cases h

/-! ## histories that continue after a caught failure

`StepOk s s'`: some public operation, applied in `s` to live handles, returned `.ok` with state `s'`
(one constructor per constructor of `Reachable` other than `init`, plus the five connectives, which are
instances of `apply_ite`).  `StepErr s s'`: some public operation, applied in `s` to live handles,
failed with `(e, s')`.  `ReachableF` closes the reachable states under both. -/

inductive StepOk : St → St → Prop
  | mkVar {s v s' r} : mkVar s v = .ok (s', r) → StepOk s s'
  | mkNode {s v lo hi φ0 φ1 s' r} : Valid s.nodes lo φ0 → Valid s.nodes hi φ1 →
      SuppGe φ0 (v + 1) → SuppGe φ1 (v + 1) → mkNode s v lo hi = .ok (s', r) → StepOk s s'
  | ite {s fuel f g h s' r} : Live' s f → Live' s g → Live' s h →
      applyIte fuel s f g h = .ok (s', r) → StepOk s s'
  | and {s fuel u v s' r} : Live' s u → Live' s v → applyAnd fuel s u v = .ok (s', r) → StepOk s s'
  | or {s fuel u v s' r} : Live' s u → Live' s v → applyOr fuel s u v = .ok (s', r) → StepOk s s'
  | xor {s fuel u v s' r} : Live' s u → Live' s v → applyXor fuel s u v = .ok (s', r) → StepOk s s'
  | eq {s fuel u v s' r} : Live' s u → Live' s v → applyEq fuel s u v = .ok (s', r) → StepOk s s'
  | imply {s fuel u v s' r} : Live' s u → Live' s v → applyImply fuel s u v = .ok (s', r) → StepOk s s'
  | andMany {s fuel xs s' r} : (∀ x, x ∈ xs → Live' s x) → andMany fuel s Ref.one xs = .ok (s', r) → StepOk s s'
  | orMany {s fuel xs s' r} : (∀ x, x ∈ xs → Live' s x) → orMany fuel s Ref.zero xs = .ok (s', r) → StepOk s s'
  | cube {s lits s' r} : (lits.map (·.1)).Nodup → cube s lits = .ok (s', r) → StepOk s s'
  | clause {s lits s' r} : (lits.map (·.1)).Nodup → clause s lits = .ok (s', r) → StepOk s s'
  | substitute {s fuel f v b s' r m} : Live' s f → substitute fuel s f v b [] = .ok (s', r, m) → StepOk s s'
  | substMulti {s fuel f vals s' r m} : Live' s f → substMulti fuel s f vals [] = .ok (s', r, m) → StepOk s s'
  | cofCube {s fuel f cube s' r m} : Live' s f → cube.Pairwise (fun a b => a.1 < b.1) →
      cofCube fuel s f cube [] = .ok (s', r, m) → StepOk s s'
  | compose {s fuel f v g s' r} : Live' s f → Live' s g → composeTop fuel s f v g = .ok (s', r) → StepOk s s'
  | constrain {s fuel f g s' r} : Live' s f → Live' s g → constrain fuel s f g = .ok (s', r) → StepOk s s'
  | restrict {s fuel f g s' r} : Live' s f → Live' s g → restrict fuel s f g = .ok (s', r) → StepOk s s'
  | expr {s fuel x φ s' r} : Expr.Sem s.nodes x φ → Expr.eval fuel s x = .ok (s', r) → StepOk s s'
  | iteConstant {s fuel f g h s' o} : Live' s f → Live' s g → Live' s h →
      iteConstant fuel s f g h = .ok (s', o) → StepOk s s'
  | isImplies {s fuel f g s' b} : Live' s f → Live' s g → isImplies fuel s f g = .ok (s', b) → StepOk s s'
  | size {s f} : Live' s f → StepOk s (size s f).1
  | gc {s roots s'} : (∀ r, r ∈ roots → Live' s r) → collectGarbage s roots = .ok s' → StepOk s s'

inductive StepErr : St → St → Prop
  | mkVar {s v e s'} : mkVar s v = .error (e, s') → StepErr s s'
  | mkNode {s v lo hi e s'} : mkNode s v lo hi = .error (e, s') → StepErr s s'
  | ite {s fuel f g h e s'} : Live' s f → Live' s g → Live' s h →
      applyIte fuel s f g h = .error (e, s') → StepErr s s'
  | and {s fuel u v e s'} : Live' s u → Live' s v → applyAnd fuel s u v = .error (e, s') → StepErr s s'
  | or {s fuel u v e s'} : Live' s u → Live' s v → applyOr fuel s u v = .error (e, s') → StepErr s s'
  | xor {s fuel u v e s'} : Live' s u → Live' s v → applyXor fuel s u v = .error (e, s') → StepErr s s'
  | eq {s fuel u v e s'} : Live' s u → Live' s v → applyEq fuel s u v = .error (e, s') → StepErr s s'
  | imply {s fuel u v e s'} : Live' s u → Live' s v → applyImply fuel s u v = .error (e, s') → StepErr s s'
  | andMany {s fuel xs e s'} : (∀ x, x ∈ xs → Live' s x) → andMany fuel s Ref.one xs = .error (e, s') → StepErr s s'
  | orMany {s fuel xs e s'} : (∀ x, x ∈ xs → Live' s x) → orMany fuel s Ref.zero xs = .error (e, s') → StepErr s s'
  | cube {s lits e s'} : (lits.map (·.1)).Nodup → cube s lits = .error (e, s') → StepErr s s'
  | clause {s lits e s'} : (lits.map (·.1)).Nodup → clause s lits = .error (e, s') → StepErr s s'
  | substitute {s fuel f v b e s'} : Live' s f → substitute fuel s f v b [] = .error (e, s') → StepErr s s'
  | substMulti {s fuel f vals e s'} : Live' s f → substMulti fuel s f vals [] = .error (e, s') → StepErr s s'
  | cofCube {s fuel f cube e s'} : Live' s f → cube.Pairwise (fun a b => a.1 < b.1) →
      cofCube fuel s f cube [] = .error (e, s') → StepErr s s'
  | compose {s fuel f v g e s'} : Live' s f → Live' s g → composeTop fuel s f v g = .error (e, s') → StepErr s s'
  | constrain {s fuel f g e s'} : Live' s f → Live' s g → constrain fuel s f g = .error (e, s') → StepErr s s'
  | restrict {s fuel f g e s'} : Live' s f → Live' s g → restrict fuel s f g = .error (e, s') → StepErr s s'
  | expr {s fuel x φ e s'} : Expr.Sem s.nodes x φ → Expr.eval fuel s x = .error (e, s') → StepErr s s'
  | iteConstant {s fuel f g h e s'} : Live' s f → Live' s g → Live' s h →
      iteConstant fuel s f g h = .error (e, s') → StepErr s s'
  | isImplies {s fuel f g e s'} : Live' s f → Live' s g → isImplies fuel s f g = .error (e, s') → StepErr s s'
  | gc {s roots e s'} : (∀ r, r ∈ roots → Live' s r) → collectGarbage s roots = .error (e, s') → StepErr s s'

/-- `StepOk` lists exactly the steps of `Reachable` -/
theorem Reachable.stepOk {s s' : St} (hr : Reachable s) (h : StepOk s s') : Reachable s' := by
  cases h with
  | mkVar h => exact .mkVar hr h
  | mkNode a b c d h => exact .mkNode hr a b c d h
  | ite a b c h => exact .ite hr a b c h
  | and a b h => exact .ite hr a b ⟨_, Valid.zero⟩ h
  | or a b h => exact .ite hr a ⟨_, Valid.one⟩ b h
  | xor a b h => exact .ite hr a (let ⟨_, v⟩ := b; ⟨_, v.not⟩) b h
  | eq a b h => exact .ite hr a b (let ⟨_, v⟩ := b; ⟨_, v.not⟩) h
  | imply a b h => exact .ite hr a b ⟨_, Valid.one⟩ h
  | andMany a h => exact .andMany hr a h
  | orMany a h => exact .orMany hr a h
  | cube a h => exact .cube hr a h
  | clause a h => exact .clause hr a h
  | substitute a h => exact .substitute hr a h
  | substMulti a h => exact .substMulti hr a h
  | cofCube a b h => exact .cofCube hr a b h
  | compose a b h => exact .compose hr a b h
  | constrain a b h => exact .constrain hr a b h
  | restrict a b h => exact .restrict hr a b h
  | expr a h => exact .expr hr a h
  | iteConstant a b c h => exact .iteConstant hr a b c h
  | isImplies a b h => exact .isImplies hr a b h
  | size a => exact .size hr a
  | gc a h => exact .gc hr a h

/-- **a failing public operation leaves a good state in which every old node is still there** -/
theorem StepErr.post {s s' : St} (hg : Good s) (h : StepErr s s') : Good s' ∧ Sub s.nodes s'.nodes := by
  cases h with
  | mkVar h => exact mkVar_err hg h
  | mkNode h => exact mkNode_err_good hg h
  | ite a b c h =>
    obtain ⟨_, va⟩ := a; obtain ⟨_, vb⟩ := b; obtain ⟨_, vc⟩ := c
    exact applyIte_err _ _ _ _ _ _ _ _ _ _ hg va vb vc h
  | and a b h => obtain ⟨_, va⟩ := a; obtain ⟨_, vb⟩ := b; exact applyAnd_err hg va vb h
  | or a b h => obtain ⟨_, va⟩ := a; obtain ⟨_, vb⟩ := b; exact applyOr_err hg va vb h
  | xor a b h => obtain ⟨_, va⟩ := a; obtain ⟨_, vb⟩ := b; exact applyXor_err hg va vb h
  | eq a b h => obtain ⟨_, va⟩ := a; obtain ⟨_, vb⟩ := b; exact applyEq_err hg va vb h
  | imply a b h => obtain ⟨_, va⟩ := a; obtain ⟨_, vb⟩ := b; exact applyImply_err hg va vb h
  | andMany a h => exact andMany_err _ _ _ _ _ _ hg ⟨_, Valid.one⟩ a h
  | orMany a h => exact orMany_err _ _ _ _ _ _ hg ⟨_, Valid.zero⟩ a h
  | cube a h => exact cube_err hg a h
  | clause a h => exact clause_err hg a h
  | substitute a h => obtain ⟨_, va⟩ := a; exact substitute_top_err hg va h
  | substMulti a h => obtain ⟨_, va⟩ := a; exact substMulti_top_err hg va h
  | cofCube a b h => obtain ⟨_, va⟩ := a; exact cofCube_top_err hg va b h
  | compose a b h => obtain ⟨_, va⟩ := a; obtain ⟨_, vb⟩ := b; exact composeTop_err hg va vb h
  | constrain a b h => obtain ⟨_, va⟩ := a; obtain ⟨_, vb⟩ := b; exact constrain_err _ _ _ _ _ _ _ _ hg va vb h
  | restrict a b h => obtain ⟨_, va⟩ := a; obtain ⟨_, vb⟩ := b; exact restrict_err _ _ _ _ _ _ _ _ hg va vb h
  | expr a h => exact Expr.eval_err _ _ _ _ _ _ hg a h
  | iteConstant a b c h =>
    obtain ⟨_, va⟩ := a; obtain ⟨_, vb⟩ := b; obtain ⟨_, vc⟩ := c
    exact iteConstant_err hg va vb vc h
  | isImplies a b h => obtain ⟨_, va⟩ := a; obtain ⟨_, vb⟩ := b; exact isImplies_err hg va vb h
  | gc a h => exact (collectGarbage_no_err hg a h).elim

/-- handles that were live before the failure are live after it, with the same meaning -/
theorem StepErr.valid {s s' : St} (hg : Good s) (h : StepErr s s') {r : Ref} {φ : Fn}
    (v : Valid s.nodes r φ) : Valid s'.nodes r φ :=
  v.mono (h.post hg).2

/-- no failing operation touches the size cache -/
theorem StepErr.sizeCache {s s' : St} (hg : Good s) (h : StepErr s s') : s'.sizeCache = s.sizeCache := by
  cases h with
  | mkVar h => exact mkVar_sizeCache_err _ _ _ _ h
  | mkNode h => exact mkNode_sizeCache_err _ _ _ _ _ _ h
  | ite _ _ _ h => exact applyIte_sizeCache_err _ _ _ _ _ _ _ h
  | and _ _ h => exact applyAnd_sizeCache_err _ _ _ _ _ _ h
  | or _ _ h => exact applyOr_sizeCache_err _ _ _ _ _ _ h
  | xor _ _ h => exact applyXor_sizeCache_err _ _ _ _ _ _ h
  | eq _ _ h => exact applyEq_sizeCache_err _ _ _ _ _ _ h
  | imply _ _ h => exact applyImply_sizeCache_err _ _ _ _ _ _ h
  | andMany _ h => exact andMany_sizeCache_err _ _ _ _ _ _ h
  | orMany _ h => exact orMany_sizeCache_err _ _ _ _ _ _ h
  | cube _ h => exact cube_sizeCache_err _ _ _ _ h
  | clause _ h => exact clause_sizeCache_err _ _ _ _ h
  | substitute _ h => exact substitute_sizeCache_err _ _ _ _ _ _ _ _ h
  | substMulti _ h => exact substMulti_sizeCache_err _ _ _ _ _ _ _ h
  | cofCube _ _ h => exact cofCube_sizeCache_err _ _ _ _ _ _ _ h
  | compose _ _ h => exact composeTop_sizeCache_err _ _ _ _ _ _ _ h
  | constrain _ _ h => exact constrain_sizeCache_err _ _ _ _ _ _ h
  | restrict _ _ h => exact restrict_sizeCache_err _ _ _ _ _ _ h
  | expr _ h => exact Expr.eval_sizeCache_err _ _ _ _ _ h
  | iteConstant _ _ _ h => exact iteConstant_sizeCache_err _ _ _ _ _ _ _ h
  | isImplies _ _ h => exact isImplies_sizeCache_err _ _ _ _ _ _ h
  | gc a h => exact (collectGarbage_no_err hg a h).elim

theorem StepErr.inv {s s' : St} (ih : Good s ∧ SizeInv s) (h : StepErr s s') : Good s' ∧ SizeInv s' := by
  obtain ⟨g', sub⟩ := h.post ih.1
  exact ⟨g', ih.2.step ih.1 g' sub (h.sizeCache ih.1)⟩

/-- a successful public operation keeps the invariants (the step of `reachable_inv`, from any good state) -/
theorem StepOk.inv {s s' : St} (ih : Good s ∧ SizeInv s) (h : StepOk s s') : Good s' ∧ SizeInv s' := by
  have viaIte : ∀ {fuel f g h s' r}, Live' s f → Live' s g → Live' s h →
      applyIte fuel s f g h = .ok (s', r) → Good s' ∧ SizeInv s' := by
    intro fuel f g h s' r a b c hres
    obtain ⟨_, vf⟩ := a; obtain ⟨_, vg⟩ := b; obtain ⟨_, vh⟩ := c
    obtain ⟨g', sub, _⟩ := applyIte_spec _ _ _ _ _ _ _ _ _ _ ih.1 vf vg vh hres
    exact ⟨g', ih.2.step ih.1 g' sub (applyIte_sizeCache _ _ _ _ _ _ _ hres)⟩
  cases h with
  | mkVar h =>
    obtain ⟨g', sub, _⟩ := mkVar_spec ih.1 h
    exact ⟨g', ih.2.step ih.1 g' sub (mkVar_sizeCache _ _ _ _ h)⟩
  | mkNode v0 v1 s0 s1 h =>
    obtain ⟨g', sub, _⟩ := mkNode_spec ih.1 v0 v1 s0 s1 h
    exact ⟨g', ih.2.step ih.1 g' sub (mkNode_sizeCache _ _ _ _ _ _ h)⟩
  | ite a b c h => exact viaIte a b c h
  | and a b h => exact viaIte a b ⟨_, Valid.zero⟩ h
  | or a b h => exact viaIte a ⟨_, Valid.one⟩ b h
  | xor a b h => exact viaIte a (let ⟨_, v⟩ := b; ⟨_, v.not⟩) b h
  | eq a b h => exact viaIte a b (let ⟨_, v⟩ := b; ⟨_, v.not⟩) h
  | imply a b h => exact viaIte a b ⟨_, Valid.one⟩ h
  | andMany hl h =>
    obtain ⟨g', sub⟩ := andMany_good _ _ _ _ _ _ ih.1 ⟨_, Valid.one⟩ hl h
    exact ⟨g', ih.2.step ih.1 g' sub (andMany_sizeCache _ _ _ _ _ _ h)⟩
  | orMany hl h =>
    obtain ⟨g', sub⟩ := orMany_good _ _ _ _ _ _ ih.1 ⟨_, Valid.zero⟩ hl h
    exact ⟨g', ih.2.step ih.1 g' sub (orMany_sizeCache _ _ _ _ _ _ h)⟩
  | cube hd h =>
    obtain ⟨g', sub, _⟩ := cube_spec ih.1 hd h
    exact ⟨g', ih.2.step ih.1 g' sub (cube_sizeCache _ _ _ _ h)⟩
  | clause hd h =>
    obtain ⟨g', sub, _⟩ := clause_spec ih.1 hd h
    exact ⟨g', ih.2.step ih.1 g' sub (clause_sizeCache _ _ _ _ h)⟩
  | substitute f h =>
    obtain ⟨_, vf⟩ := f
    obtain ⟨g', sub, _⟩ := substitute_top ih.1 vf h
    exact ⟨g', ih.2.step ih.1 g' sub (substitute_sizeCache _ _ _ _ _ _ _ _ h)⟩
  | substMulti f h =>
    obtain ⟨_, vf⟩ := f
    obtain ⟨g', sub, _⟩ := substMulti_top ih.1 vf h
    exact ⟨g', ih.2.step ih.1 g' sub (substMulti_sizeCache _ _ _ _ _ _ _ h)⟩
  | cofCube f ha h =>
    obtain ⟨_, vf⟩ := f
    obtain ⟨g', sub, _⟩ := cofCube_top ih.1 vf ha h
    exact ⟨g', ih.2.step ih.1 g' sub (cofCube_sizeCache _ _ _ _ _ _ _ h)⟩
  | compose f g h =>
    obtain ⟨_, vf⟩ := f; obtain ⟨_, vg⟩ := g
    obtain ⟨g', sub, _⟩ := composeTop_spec ih.1 vf vg h
    exact ⟨g', ih.2.step ih.1 g' sub (composeTop_sizeCache _ _ _ _ _ _ _ h)⟩
  | constrain f g h =>
    obtain ⟨_, vf⟩ := f; obtain ⟨_, vg⟩ := g
    obtain ⟨g', sub, _⟩ := constrain_spec _ _ _ _ _ _ _ _ ih.1 vf vg h
    exact ⟨g', ih.2.step ih.1 g' sub (constrain_sizeCache _ _ _ _ _ _ h)⟩
  | restrict f g h =>
    obtain ⟨_, vf⟩ := f; obtain ⟨_, vg⟩ := g
    obtain ⟨g', sub, _⟩ := restrict_spec _ _ _ _ _ _ _ _ ih.1 vf vg h
    exact ⟨g', ih.2.step ih.1 g' sub (restrict_sizeCache _ _ _ _ _ _ h)⟩
  | expr hs h =>
    obtain ⟨g', sub, _⟩ := Expr.eval_spec _ _ _ _ _ _ ih.1 hs h
    exact ⟨g', ih.2.step ih.1 g' sub (Expr.eval_sizeCache _ _ _ _ _ h)⟩
  | iteConstant f g h' h =>
    obtain ⟨_, vf⟩ := f; obtain ⟨_, vg⟩ := g; obtain ⟨_, vh⟩ := h'
    obtain ⟨g', hn⟩ := iteConstant_good ih.1 vf vg vh h
    exact ⟨g', ih.2.step ih.1 g' (by rw [hn]; exact Sub.refl _) (iteConstant_sizeCache _ _ _ _ _ _ _ h)⟩
  | isImplies f g h =>
    obtain ⟨_, vf⟩ := f; obtain ⟨_, vg⟩ := g
    have hsc := isImplies_sizeCache _ _ _ _ _ _ h
    unfold P.isImplies at h
    cases h1 : P.iteConstant _ _ _ _ Ref.one with
    | error e => rw [h1] at h; cases h
    | ok p =>
      obtain ⟨s1, o⟩ := p
      rw [h1] at h
      simp only [Except.ok.injEq, Prod.mk.injEq] at h
      obtain ⟨g', hn⟩ := iteConstant_good ih.1 vf vg Valid.one h1
      rw [← h.1] at hsc ⊢
      exact ⟨g', ih.2.step ih.1 g' (by rw [hn]; exact Sub.refl _) hsc⟩
  | @size f hf =>
    refine ⟨size_good ih.1 f, ?_⟩
    intro g n hl
    obtain ⟨φ, vf⟩ := hf
    have hok := size_sizeOk ih.2.sizeOk f g n hl
    refine ⟨?_, hok⟩
    have hn := size_nodes s f
    have live' : ∀ i, Live s i → Live (P.size s f).1 i := by
      intro i hi
      rcases hi with h1 | ⟨m, hm⟩
      · exact Or.inl h1
      · exact Or.inr ⟨m, by rw [hn]; exact hm⟩
    unfold P.size at hl
    cases hc : (s.sizeCache.get f).2 with
    | some m =>
      simp only [hc] at hl
      rw [Cache.get_fst_lookup] at hl
      exact live' _ (ih.2 g n hl).1
    | none =>
      simp only [hc] at hl
      rcases Cache.lookup_insert _ f _ g hl with ⟨rfl, _⟩ | hl'
      · exact live' _ (Live.of_valid vf)
      · rw [Cache.get_fst_lookup] at hl'
        exact live' _ (ih.2 g n hl').1
  | gc hl h =>
    refine ⟨gc_good ih.1 hl h, ?_⟩
    intro f n hlk
    have := (collect_spec ih.1 (fun r hr => let ⟨_, v⟩ := hl r hr; Live.of_valid v) ih.1.rs h).2.2.2.2.2.1 f
    rw [this] at hlk; cases hlk

/-- every state a manager can be in after any history of public operations on live handles —
successful ones, garbage collections, and operations that *failed* (the panic was caught and the
manager kept in use) -/
inductive ReachableF : St → Prop
  | base {s} : Reachable s → ReachableF s
  | stepOk {s s'} : ReachableF s → StepOk s s' → ReachableF s'
  | stepErr {s s'} : ReachableF s → StepErr s s' → ReachableF s'

theorem ReachableF.init {sb bb cb s} (h : St.newWith sb bb cb = .ok s) : ReachableF s := .base (.init h)

/-- **every state reachable through successes and caught failures is good** and keeps the size-cache
invariant -/
theorem reachableF_inv {s : St} (h : ReachableF s) : Good s ∧ SizeInv s := by
  induction h with
  | base hr => exact reachable_inv hr
  | stepOk _ hs ih => exact hs.inv ih
  | stepErr _ hs ih => exact hs.inv ih

theorem reachableF_good {s : St} (h : ReachableF s) : Good s := (reachableF_inv h).1
theorem reachableF_sizeInv {s : St} (h : ReachableF s) : SizeInv s := (reachableF_inv h).2

/-- without failures `ReachableF` is `Reachable` -/
theorem Reachable.toF {s : St} (h : Reachable s) : ReachableF s := .base h

#print axioms mkNodeReg_err
#print axioms mkNode_err_good
#print axioms mkVar_err
#print axioms iteCore_err
#print axioms applyIte_err
#print axioms applyAnd_err
#print axioms applyOr_err
#print axioms applyXor_err
#print axioms applyEq_err
#print axioms applyImply_err
#print axioms andMany_err
#print axioms orMany_err
#print axioms cubeFold_err
#print axioms cube_err
#print axioms clauseFold_err
#print axioms clause_err
#print axioms substitute_err
#print axioms substitute_top_err
#print axioms substMulti_err
#print axioms substMulti_top_err
#print axioms cofCube_err
#print axioms cofCube_top_err
#print axioms compose_err
#print axioms composeTop_err
#print axioms constrain_err
#print axioms restrict_err
#print axioms Expr.eval_err
#print axioms iteConstant_err_untouched
#print axioms iteConstant_err
#print axioms isImplies_err
#print axioms collectGarbage_no_err
#print axioms Reachable.stepOk
#print axioms StepErr.post
#print axioms StepErr.inv
#print axioms StepOk.inv
#print axioms reachableF_inv
#print axioms reachableF_good
#print axioms err_inj
#print axioms errPost_here
#print axioms put_errSt
#print axioms mkNodeReg_errSt
#print axioms mkNode_errSt
#print axioms mkVar_errSt
#print axioms errPost_mkNode
#print axioms sortLits_desc
#print axioms rawChildren_live
#print axioms isImplies_err_untouched
#print axioms StepErr.valid
#print axioms StepErr.sizeCache
#print axioms ReachableF.init
#print axioms reachableF_sizeInv
#print axioms Reachable.toF

end P

import BddProofs.CacheTrace
import BddProofs.Store
import BddProofs.SizeGc
/-! `collect_garbage` under an outstanding guard (`collectGarbageHeld`): whatever branch is taken, the
state that is left is good — only caches were cleared — and the node table is untouched. -/
namespace P

theorem Good.clearCaches {s : St} (hg : Good s) (c1 c2 : Bool) :
    Good { s with cache := if c1 then s.cache.clear else s.cache,
                  sizeCache := if c2 then s.sizeCache.clear else s.sizeCache } := by
  refine { wf := hg.wf, tinv := hg.tinv, inv := hg.inv, var0 := hg.var0, cache := ?_, term1 := hg.term1, rs := hg.rs }
  intro k r h
  cases c1 with
  | false => exact hg.cache k r h
  | true =>
    simp only [if_true] at h
    rw [Cache.lookup_clear] at h
    cases h

/-- the state left by a collection that could not take its borrow (or that had nothing to do) -/
def heldState (r : Res St) : St :=
  match r with
  | .ok s => s
  | .error (_, s) => s

theorem collectGarbageHeld_good {s : St} (hg : Good s) (which : Nat) :
    Good (heldState (collectGarbageHeld which s)) ∧
    (heldState (collectGarbageHeld which s)).storage = s.storage := by
  unfold collectGarbageHeld
  match which with
  | 0 => exact ⟨hg, rfl⟩
  | 1 => exact ⟨Good.clearCaches hg true false, rfl⟩
  | n + 2 =>
    simp only
    split
    · exact ⟨Good.clearCaches hg true true, rfl⟩
    · exact ⟨Good.clearCaches hg true true, rfl⟩

end P
#print axioms P.collectGarbageHeld_good

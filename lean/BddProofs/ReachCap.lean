import BddProofs.ErrGood
import BddProofs.BitsFit
import BddProofs.FrameCap
/-! The capacity of the node table never changes after `Bdd::with_params`, so every state of every
history (successful steps and caught failures alike) has at most `2^31` cells — the hypothesis
`hcap` of `Good.words_fit` (`BddProofs/BitsFit.lean`) holds in every reachable state.

`StepOk.cap` / `StepErr.cap`: one line per public operation, from the syntactic frame lemmas of
`BddProofs/FrameCap.lean` (no invariant, no liveness hypothesis is used). -/
namespace P

/-- a successful public operation keeps the capacity -/
theorem StepOk.cap {s s' : St} (h : StepOk s s') : s'.storage.vals.size = s.storage.vals.size := by
  cases h with
  | mkVar h => exact mkVar_cap _ _ _ _ h
  | mkNode _ _ _ _ h => exact mkNode_cap _ _ _ _ _ _ h
  | ite _ _ _ h => exact applyIte_cap _ _ _ _ _ _ _ h
  | and _ _ h => exact applyAnd_cap _ _ _ _ _ _ h
  | or _ _ h => exact applyOr_cap _ _ _ _ _ _ h
  | xor _ _ h => exact applyXor_cap _ _ _ _ _ _ h
  | eq _ _ h => exact applyEq_cap _ _ _ _ _ _ h
  | imply _ _ h => exact applyImply_cap _ _ _ _ _ _ h
  | andMany _ h => exact andMany_cap _ _ _ _ _ _ h
  | orMany _ h => exact orMany_cap _ _ _ _ _ _ h
  | cube _ h => exact cube_cap _ _ _ _ h
  | clause _ h => exact clause_cap _ _ _ _ h
  | substitute _ h => exact substitute_cap _ _ _ _ _ _ _ _ h
  | substMulti _ h => exact substMulti_cap _ _ _ _ _ _ _ h
  | cofCube _ _ h => exact cofCube_cap _ _ _ _ _ _ _ h
  | compose _ _ h => exact composeTop_cap _ _ _ _ _ _ _ h
  | constrain _ _ h => exact constrain_cap _ _ _ _ _ _ h
  | restrict _ _ h => exact restrict_cap _ _ _ _ _ _ h
  | expr _ h => exact Expr.eval_cap _ _ _ _ _ h
  | iteConstant _ _ _ h => exact iteConstant_cap _ _ _ _ _ _ _ h
  | isImplies _ _ h => exact isImplies_cap _ _ _ _ _ _ h
  | size _ => exact size_cap _ _
  | gc _ h => exact collectGarbage_cap _ _ _ h

/-- a failing public operation keeps the capacity (in the state carried by the fault) -/
theorem StepErr.cap {s s' : St} (h : StepErr s s') : s'.storage.vals.size = s.storage.vals.size := by
  cases h with
  | mkVar h => exact mkVar_cap_err _ _ _ _ h
  | mkNode h => exact mkNode_cap_err _ _ _ _ _ _ h
  | ite _ _ _ h => exact applyIte_cap_err _ _ _ _ _ _ _ h
  | and _ _ h => exact applyAnd_cap_err _ _ _ _ _ _ h
  | or _ _ h => exact applyOr_cap_err _ _ _ _ _ _ h
  | xor _ _ h => exact applyXor_cap_err _ _ _ _ _ _ h
  | eq _ _ h => exact applyEq_cap_err _ _ _ _ _ _ h
  | imply _ _ h => exact applyImply_cap_err _ _ _ _ _ _ h
  | andMany _ h => exact andMany_cap_err _ _ _ _ _ _ h
  | orMany _ h => exact orMany_cap_err _ _ _ _ _ _ h
  | cube _ h => exact cube_cap_err _ _ _ _ h
  | clause _ h => exact clause_cap_err _ _ _ _ h
  | substitute _ h => exact substitute_cap_err _ _ _ _ _ _ _ _ h
  | substMulti _ h => exact substMulti_cap_err _ _ _ _ _ _ _ h
  | cofCube _ _ h => exact cofCube_cap_err _ _ _ _ _ _ _ h
  | compose _ _ h => exact composeTop_cap_err _ _ _ _ _ _ _ h
  | constrain _ _ h => exact constrain_cap_err _ _ _ _ _ _ h
  | restrict _ _ h => exact restrict_cap_err _ _ _ _ _ _ h
  | expr _ h => exact Expr.eval_cap_err _ _ _ _ _ h
  | iteConstant _ _ _ h => exact iteConstant_cap_err _ _ _ _ _ _ _ h
  | isImplies _ _ h => exact isImplies_cap_err _ _ _ _ _ _ h
  | gc _ h => exact collectGarbage_cap_err _ _ _ _ h

/-- every state reachable through successful operations has at most `2^31` cells -/
theorem reachable_cap {s : St} (h : Reachable s) : s.storage.vals.size ≤ 2147483648 := by
  induction h with
  | init h => exact newWith_cap h
  | mkVar _ h ih => rw [StepOk.cap (.mkVar h)]; exact ih
  | mkNode _ a b c d h ih => rw [StepOk.cap (.mkNode a b c d h)]; exact ih
  | ite _ a b c h ih => rw [StepOk.cap (.ite a b c h)]; exact ih
  | andMany _ a h ih => rw [StepOk.cap (.andMany a h)]; exact ih
  | orMany _ a h ih => rw [StepOk.cap (.orMany a h)]; exact ih
  | cube _ a h ih => rw [StepOk.cap (.cube a h)]; exact ih
  | clause _ a h ih => rw [StepOk.cap (.clause a h)]; exact ih
  | substitute _ a h ih => rw [StepOk.cap (.substitute a h)]; exact ih
  | substMulti _ a h ih => rw [StepOk.cap (.substMulti a h)]; exact ih
  | cofCube _ a b h ih => rw [StepOk.cap (.cofCube a b h)]; exact ih
  | compose _ a b h ih => rw [StepOk.cap (.compose a b h)]; exact ih
  | constrain _ a b h ih => rw [StepOk.cap (.constrain a b h)]; exact ih
  | restrict _ a b h ih => rw [StepOk.cap (.restrict a b h)]; exact ih
  | expr _ a h ih => rw [StepOk.cap (.expr a h)]; exact ih
  | iteConstant _ a b c h ih => rw [StepOk.cap (.iteConstant a b c h)]; exact ih
  | isImplies _ a b h ih => rw [StepOk.cap (.isImplies a b h)]; exact ih
  | size _ a ih => rw [StepOk.cap (.size a)]; exact ih
  | gc _ a h ih => rw [StepOk.cap (.gc a h)]; exact ih

/-- **every state of every history — successes and caught failures — has at most `2^31` cells** -/
theorem reachableF_cap {s : St} (h : ReachableF s) : s.storage.vals.size ≤ 2147483648 := by
  induction h with
  | base h => exact reachable_cap h
  | stepOk _ h ih => rw [h.cap]; exact ih
  | stepErr _ h ih => rw [h.cap]; exact ih

/-- the capacity of a reachable state is the capacity the manager was created with: stated as an
invariant relation along histories -/
theorem ReachableF.cap_step {s s' : St} (h : StepOk s s' ∨ StepErr s s') :
    s'.storage.vals.size = s.storage.vals.size := h.elim StepOk.cap StepErr.cap

end P

#print axioms P.StepOk.cap
#print axioms P.StepErr.cap
#print axioms P.reachable_cap
#print axioms P.reachableF_cap

import BddProofs.CofCube
import BddProofs.Cube
import BddProofs.RestrictSem
/-! C10/C11: when the care set is a cube, `constrain` and `restrict` are the plain cofactor, and so
return the same *handle* as `cofactor_cube`/`substitute_multi` would (canonicity, see `SubstCor.lean`). -/
namespace P
open Arr

/-- the function of a cube -/
def cubeFn (cube : Vals) : Fn := fun e => cube.all (litHolds e)

theorem lookup_of_mem_nodup : ∀ {cube : Vals} {v : Nat} {b : Bool}, (cube.map (·.1)).Nodup → (v, b) ∈ cube →
    cube.lookup v = some b := by
  intro cube
  induction cube with
  | nil => intro v b _ h; cases h
  | cons p rest ih =>
    intro v b nd h
    obtain ⟨w, c⟩ := p
    simp only [List.map_cons, List.nodup_cons] at nd
    rcases List.mem_cons.mp h with e | e
    · cases e; simp [List.lookup]
    · have hne : v ≠ w := by
        intro e'; subst e'
        exact nd.1 (List.mem_map.mpr ⟨(v, b), e, rfl⟩)
      have : (v == w) = false := by simpa using hne
      simp only [List.lookup, this]
      exact ih nd.2 e

theorem lookup_some_mem : ∀ {cube : Vals} {v : Nat} {b : Bool}, cube.lookup v = some b → (v, b) ∈ cube := by
  intro cube
  induction cube with
  | nil => intro v b h; cases h
  | cons p rest ih =>
    intro v b h
    obtain ⟨w, c⟩ := p
    simp only [List.lookup] at h
    by_cases e : v = w
    · subst e; simp at h; subst h; exact List.mem_cons_self
    · have : (v == w) = false := by simpa using e
      simp only [this] at h
      exact List.mem_cons_of_mem _ (ih h)

/-- the closest point of a cube to `x` is `x` with the cube's variables overridden -/
theorem closest_cube {cube : Vals} (nd : (cube.map (·.1)).Nodup) (x : Env) :
    Closest (cubeFn cube) x (ovr cube x) := by
  constructor
  · simp only [cubeFn, List.all_eq_true, litHolds]
    intro p hp
    obtain ⟨v, b⟩ := p
    simp only [ovr, lookup_of_mem_nodup nd hp]; simp
  · intro z hz i hfd
    simp only [ovr]
    cases hl : cube.lookup i with
    | none => rfl
    | some b =>
      exfalso
      apply hfd.2
      have hmem := lookup_some_mem hl
      simp only [cubeFn, List.all_eq_true, litHolds] at hz
      have := hz (i, b) hmem
      simp only [ovr, hl]
      have : z i = b := by simpa using this
      exact this.symm

/-- C10: constrain by a cube is the cofactor by that cube -/
theorem constrain_cube {φf h : Fn} {cube : Vals} (nd : (cube.map (·.1)).Nodup)
    (hs : ConstrainSpec φf (cubeFn cube) h) : h = FixVals φf cube := by
  funext x
  rw [hs.1 x (ovr cube x) (closest_cube nd x)]
  rfl

/-! ### restrict by a cube -/

/-- `g` is the cube given by the partial assignment `σ` -/
def IsCubeOf (σ : Nat → Option Bool) (g : Fn) : Prop :=
  ∀ e, g e = true ↔ ∀ v b, σ v = some b → e v = b

/-- `e` overridden by the partial assignment `σ` -/
def ovrF (σ : Nat → Option Bool) (e : Env) : Env := fun w => match σ w with | some b => b | none => e w

theorem ovr_eq_ovrF (vals : Vals) (e : Env) : ovr vals e = ovrF (fun w => vals.lookup w) e := rfl

theorem IsCubeOf.sat {σ g} (h : IsCubeOf σ g) (e : Env) : g (ovrF σ e) = true := by
  rw [h]; intro v b hv; simp only [ovrF, hv]

theorem IsCubeOf.ne_false {σ g} (h : IsCubeOf σ g) : g ≠ fun _ => false := by
  intro e; have := h.sat (fun _ => true); rw [e] at this; cases this

/-- a cube with a vanishing `v = !b` half fixes `v` to `b` -/
theorem IsCubeOf.fixed {σ g} (h : IsCubeOf σ g) {v : Nat} {b : Bool} (hz : cof g v (!b) = fun _ => false) :
    σ v = some b := by
  apply Classical.byContradiction
  intro hne
  have : g (upd (ovrF σ (fun _ => true)) v (!b)) = true := by
    rw [h]; intro w c hw
    by_cases hwv : w = v
    · subst hwv; rw [upd_same]
      cases b <;> cases c <;> simp_all
    · rw [upd_other _ _ _ _ hwv]; simp only [ovrF, hw]
  have hf := congrFun hz (ovrF σ (fun _ => true))
  simp only [cof] at hf
  rw [hf] at this; cases this

/-- a cube with both halves alive at `v` does not mention `v` -/
theorem IsCubeOf.free {σ g} (h : IsCubeOf σ g) {v : Nat} (h0 : cof g v false ≠ fun _ => false)
    (h1 : cof g v true ≠ fun _ => false) : σ v = none := by
  cases hv : σ v with
  | none => rfl
  | some b =>
    exfalso
    have : cof g v (!b) = fun _ => false := by
      funext e
      simp only [cof]
      cases hg : g (upd e v (!b)) with
      | false => rfl
      | true =>
        have := (h _).mp hg v b hv
        rw [upd_same] at this
        cases b <;> cases this
    cases b with
    | false => exact h1 this
    | true => exact h0 this

/-- the half of a cube on its own side is the cube without that variable -/
theorem IsCubeOf.cof_fixed {σ g} (h : IsCubeOf σ g) {v : Nat} {b : Bool} (hv : σ v = some b) :
    IsCubeOf (fun w => if w = v then none else σ w) (cof g v b) := by
  intro e
  simp only [cof]
  rw [h]
  constructor
  · intro hh w c hw
    by_cases hwv : w = v
    · rw [if_pos hwv] at hw; cases hw
    · rw [if_neg hwv] at hw
      have := hh w c hw
      rw [upd_other _ _ _ _ hwv] at this; exact this
  · intro hh w c hw
    by_cases hwv : w = v
    · subst hwv; rw [upd_same]; rw [hv] at hw; exact Option.some.inj hw
    · rw [upd_other _ _ _ _ hwv]
      exact hh w c (by rw [if_neg hwv]; exact hw)

theorem IsCubeOf.cof_free {σ g} (h : IsCubeOf σ g) {v : Nat} (hv : σ v = none) (b : Bool) : cof g v b = g := by
  funext e
  rw [Bool.eq_iff_iff]
  simp only [cof]
  rw [h, h]
  constructor
  · intro hh w c hw
    have hwv : w ≠ v := by intro e'; subst e'; rw [hv] at hw; cases hw
    have := hh w c hw
    rw [upd_other _ _ _ _ hwv] at this; exact this
  · intro hh w c hw
    have hwv : w ≠ v := by intro e'; subst e'; rw [hv] at hw; cases hw
    rw [upd_other _ _ _ _ hwv]; exact hh w c hw

theorem ovrF_fixed {σ : Nat → Option Bool} {v : Nat} {b : Bool} (hv : σ v = some b) (e : Env) :
    upd (ovrF (fun w => if w = v then none else σ w) e) v b = ovrF σ e := by
  funext w
  by_cases hwv : w = v
  · subst hwv; rw [upd_same]; simp only [ovrF, hv]
  · rw [upd_other _ _ _ _ hwv]; simp only [ovrF, if_neg hwv]

/-- C11: restrict by a cube (given as a partial assignment) is the cofactor by that cube -/
theorem RestrictRel.cubeLike {f g h : Fn} (r : RestrictRel f g h) :
    ∀ σ, IsCubeOf σ g → h = fun e => f (ovrF σ e) := by
  induction r with
  | gzero f => intro σ hc; exact absurd rfl hc.ne_false
  | gone f =>
    intro σ hc
    have hnone : ∀ w, σ w = none := by
      intro w
      cases hw : σ w with
      | none => rfl
      | some b =>
        exfalso
        have := (hc (fun _ => !b)).mp rfl w b hw
        cases b <;> cases this
    funext e; congr 1; funext w; simp only [ovrF, hnone]
  | fconst f g _ hcst =>
    intro σ _
    rcases hcst with h | h <;> subst h <;> rfl
  | same g _ => intro σ hc; funext e; exact (hc.sat e).symm
  | opp g _ => intro σ hc; funext e; simp [FnNot, hc.sat e]
  | low f g h v _ _ h1 _ ih =>
    intro σ hc
    have hv : σ v = some false := hc.fixed (b := false) h1
    rw [ih _ (hc.cof_fixed hv)]
    funext e; simp only [cof]; rw [ovrF_fixed hv]
  | high f g h v _ _ h0 _ ih =>
    intro σ hc
    have hv : σ v = some true := hc.fixed (b := true) h0
    rw [ih _ (hc.cof_fixed hv)]
    funext e; simp only [cof]; rw [ovrF_fixed hv]
  | node f g h0 h1 v _ _ g1 g0 _ _ _ ih0 ih1 =>
    intro σ hc
    have hv : σ v = none := hc.free g0 g1
    have e0 := ih0 σ (by rw [hc.cof_free hv]; exact hc)
    have e1 := ih1 σ (by rw [hc.cof_free hv]; exact hc)
    subst e0; subst e1
    funext e
    have hev : ovrF σ e v = e v := by simp only [ovrF, hv]
    by_cases hx : e v = true
    · simp only [hx, ↓reduceIte]; exact cof_of_val (by rw [hev]; exact hx)
    · have hx' : e v = false := by simpa using hx
      simp only [hx', Bool.false_eq_true, ↓reduceIte]; exact cof_of_val (by rw [hev]; exact hx')
  | abstr f g h v _ htop g1 g0 hnd _ _ =>
    intro σ hc
    exfalso
    have hv : σ v = none := hc.free g0 g1
    rcases htop.2.2 with d | d
    · exact hnd d
    · exact d (by rw [hc.cof_free hv, hc.cof_free hv])

/-- the function of a duplicate-free cube is the cube of its lookup function -/
theorem cubeFn_isCubeOf {cube : Vals} (nd : (cube.map (·.1)).Nodup) : IsCubeOf (fun w => cube.lookup w) (cubeFn cube) := by
  intro e
  simp only [cubeFn, List.all_eq_true, litHolds]
  constructor
  · intro h v b hl
    have := h (v, b) (lookup_some_mem hl)
    simpa using this
  · intro h p hp
    obtain ⟨v, b⟩ := p
    have := h v b (lookup_of_mem_nodup nd hp)
    simpa using this

/-- C11: restrict by a cube is the cofactor by that cube -/
theorem restrict_cube {φf h : Fn} {cube : Vals} (nd : (cube.map (·.1)).Nodup)
    (hs : RestrictRel φf (cubeFn cube) h) : h = FixVals φf cube := by
  rw [hs.cubeLike _ (cubeFn_isCubeOf nd)]; rfl

/-! ### on handles -/

/-- `constrain(f, c)` for a cube `c` returns a handle of the cofactor of `f` by the cube -/
theorem constrain_by_cube {fuel : Nat} {s : St} {f c : Ref} {φf : Fn} {cube : Vals} {s' : St} {r : Ref}
    (hg : Good s) (vf : Valid s.nodes f φf) (vc : Valid s.nodes c (cubeFn cube))
    (nd : (cube.map (·.1)).Nodup) (hres : constrain fuel s f c = .ok (s', r)) :
    Good s' ∧ Sub s.nodes s'.nodes ∧ Valid s'.nodes r (FixVals φf cube) := by
  obtain ⟨a, b, h, vh, hs⟩ := constrain_spec fuel s f c φf _ s' r hg vf vc hres
  rw [constrain_cube nd hs] at vh
  exact ⟨a, b, vh⟩

/-- `restrict(f, c)` for a cube `c` returns a handle of the cofactor of `f` by the cube -/
theorem restrict_by_cube {fuel : Nat} {s : St} {f c : Ref} {φf : Fn} {cube : Vals} {s' : St} {r : Ref}
    (hg : Good s) (vf : Valid s.nodes f φf) (vc : Valid s.nodes c (cubeFn cube))
    (nd : (cube.map (·.1)).Nodup) (hres : restrict fuel s f c = .ok (s', r)) :
    Good s' ∧ Sub s.nodes s'.nodes ∧ Valid s'.nodes r (FixVals φf cube) := by
  obtain ⟨a, b, h, vh, hs⟩ := restrict_spec fuel s f c φf _ s' r hg vf vc hres
  rw [restrict_cube nd hs] at vh
  exact ⟨a, b, vh⟩

#print axioms constrain_cube
#print axioms restrict_cube
#print axioms constrain_by_cube
#print axioms restrict_by_cube
end P

import BddProofs.Store
/-! `mk_node`, `top_cofactors` and `apply_ite` (all shortcuts, standard triples, equivalent pairs,
regularisation, cache hits, Shannon step) are semantically correct on the real store. -/
namespace P
open Arr

theorem topGe_of_supp {nd} (hI : NInv nd) {r φ v} (h : Valid nd r φ) (hs : SuppGe φ v) : TopGe nd r v := by
  obtain ⟨d, h⟩ := h
  -- reduce to the regular ref
  have key : ∀ i ψ, Den nd d ⟨i, false⟩ ψ → SuppGe ψ v → TopGe nd ⟨i, false⟩ v := by
    intro i ψ hr hsψ
    rcases hr.regInv with ⟨rfl, -, -⟩ | ⟨n, d0, d1, φ0, φ1, hn, h0, h1, hdd, hφ⟩
    · exact Or.inl rfl
    · refine Or.inr ⟨n, hn, ?_⟩
      apply Classical.byContradiction
      intro hlt
      have hlt : n.var < v := by omega
      have hc : CanonUpTo nd (max d0 d1) := fun a b r r' φ _ _ x y => canonicity hI x y
      obtain ⟨e, he⟩ := depends_top hI hc hn h0 h1 (Nat.le_max_left _ _) (Nat.le_max_right _ _)
      apply he
      have := hsψ (upd e n.var true) (upd e n.var false) (upd_agree e n.var true false v hlt)
      rw [hφ] at this
      exact this
  rcases r with ⟨i, b⟩
  cases b with
  | false => exact key i φ h hs
  | true =>
    obtain ⟨ψ, hψ, rfl⟩ := h.negInv
    have : SuppGe ψ v := by
      intro e e' hee
      have := hs e e' hee
      simpa using this
    exact key i ψ hψ this

theorem Good.of_put {s : St} (hg : Good s) {v low high φ0 φ1} (hv : v ≠ 0)
    (h0 : Valid s.nodes low φ0) (h1 : Valid s.nodes high φ1)
    (s0 : SuppGe φ0 (v + 1)) (s1 : SuppGe φ1 (v + 1)) (hreg : high.neg = false) (hne : low ≠ high)
    {s' i} (h : s.put ⟨v, low, high⟩ = .ok (s', i)) : Good s' := by
  obtain ⟨hi, hsub, hcache, -, hcases, hi2, hnext, hfound, hwf', htinv', hnode1, hrs'⟩ := put_spec hg _ h
  have t0 := topGe_of_supp hg.inv h0 s0
  have t1 := topGe_of_supp hg.inv h1 s1
  refine ⟨hwf', htinv', ⟨?_, ?_, ?_, ?_, ?_, ?_⟩, ?_, ?_, by rw [hnode1]; exact hg.term1, hrs'⟩
  · intro a b n ha hb
    rcases hcases _ _ ha with ha' | ⟨rfl, rfl⟩ <;> rcases hcases _ _ hb with hb' | ⟨rfl, hb2⟩
    · exact hg.inv.uniq _ _ _ ha' hb'
    · subst hb2
      rcases hfound with hf | hf
      · exact hg.inv.uniq _ _ _ ha' hf
      · exact absurd ha' (hf _)
    · rcases hfound with hf | hf
      · exact hg.inv.uniq _ _ _ hf hb'
      · exact absurd hb' (hf _)
    · rfl
  · exact St.nodes_one s'
  · intro a n ha
    rcases hcases _ _ ha with ha' | ⟨rfl, rfl⟩
    · exact hg.inv.highReg _ _ ha'
    · exact hreg
  · intro a n ha
    rcases hcases _ _ ha with ha' | ⟨rfl, rfl⟩
    · exact hg.inv.reduced _ _ ha'
    · exact hne
  · intro a n ha
    rcases hcases _ _ ha with ha' | ⟨rfl, rfl⟩
    · exact (hg.inv.ordLow _ _ ha').mono hsub
    · exact t0.mono hsub
  · intro a n ha
    rcases hcases _ _ ha with ha' | ⟨rfl, rfl⟩
    · exact (hg.inv.ordHigh _ _ ha').mono hsub
    · exact t1.mono hsub
  · intro a n ha
    rcases hcases _ _ ha with ha' | ⟨rfl, rfl⟩
    · exact hg.var0 _ _ ha'
    · exact hv
  · intro k r hc
    rw [hcache] at hc
    exact (hg.cache _ _ hc).mono hsub

theorem mkNodeReg_spec {s : St} (hg : Good s) {v low high φ0 φ1} (hv : v ≠ 0)
    (h0 : Valid s.nodes low φ0) (h1 : Valid s.nodes high φ1)
    (s0 : SuppGe φ0 (v + 1)) (s1 : SuppGe φ1 (v + 1)) (hreg : high.neg = false) {s' r}
    (h : mkNodeReg s v low high = .ok (s', r)) :
    Good s' ∧ Sub s.nodes s'.nodes ∧ s'.cache = s.cache ∧
      Valid s'.nodes r (fun e => if e v then φ1 e else φ0 e) := by
  unfold mkNodeReg at h
  by_cases hne : low = high
  · subst hne
    have : φ0 = φ1 := h0.det hg.inv.noterm h1
    subst this
    rw [if_pos rfl] at h
    simp only [Except.ok.injEq, Prod.mk.injEq] at h
    obtain ⟨rfl, rfl⟩ := h
    refine ⟨hg, fun _ _ h => h, rfl, ?_⟩
    have : (fun e : Env => if e v = true then φ0 e else φ0 e) = φ0 := by funext e; simp
    rw [this]; exact h0
  · rw [if_neg hne] at h
    cases hp : s.put ⟨v, low, high⟩ with
    | error e => rw [hp] at h; cases h
    | ok p =>
      obtain ⟨s1', i⟩ := p
      rw [hp] at h
      simp only [Except.ok.injEq, Prod.mk.injEq] at h
      obtain ⟨rfl, rfl⟩ := h
      have hg' := hg.of_put hv h0 h1 s0 s1 hreg hne hp
      obtain ⟨hi, hsub, hcache, -⟩ := put_spec hg _ hp
      refine ⟨hg', hsub, hcache, ?_⟩
      obtain ⟨d0, h0⟩ := h0.mono hsub
      obtain ⟨d1, h1⟩ := h1.mono hsub
      exact ⟨_, Den.node hi h0 h1⟩

theorem mkNode_spec {s : St} (hg : Good s) {v low high φ0 φ1}
    (h0 : Valid s.nodes low φ0) (h1 : Valid s.nodes high φ1)
    (s0 : SuppGe φ0 (v + 1)) (s1 : SuppGe φ1 (v + 1)) {s' r}
    (h : mkNode s v low high = .ok (s', r)) :
    Good s' ∧ Sub s.nodes s'.nodes ∧ s'.cache = s.cache ∧
      Valid s'.nodes r (fun e => if e v then φ1 e else φ0 e) := by
  unfold mkNode at h
  by_cases hv : v = 0
  · rw [if_pos hv] at h; cases h
  · rw [if_neg hv] at h
    by_cases hneg : high.neg = true
    · rw [if_pos hneg] at h
      cases hm : mkNodeReg s v low.not high.not with
      | error e => rw [hm] at h; cases h
      | ok p =>
        obtain ⟨s1', r1⟩ := p
        rw [hm] at h
        simp only [Except.ok.injEq, Prod.mk.injEq] at h
        obtain ⟨rfl, rfl⟩ := h
        have hreg : high.not.neg = false := by simp [Ref.not, hneg]
        obtain ⟨a, b, c, d⟩ := mkNodeReg_spec hg hv h0.not h1.not s0.not s1.not hreg hm
        refine ⟨a, b, c, ?_⟩
        have := d.not
        have e : (fun e : Env => !(if e v = true then !φ1 e else !φ0 e)) = (fun e => if e v = true then φ1 e else φ0 e) := by
          funext e; by_cases hx : e v = true <;> simp [hx]
        rw [e] at this; exact this
    · rw [if_neg hneg] at h
      have hreg : high.neg = false := by simpa using hneg
      exact mkNodeReg_spec hg hv h0 h1 s0 s1 hreg h

/-- `mk_node` can fail only with "Storage is full", leaving the state untouched -/
theorem mkNode_err {s : St} (hg : Good s) {v low high} (hv : v ≠ 0) {e s'}
    (h : mkNode s v low high = .error (e, s')) : e = .storageFull ∧ s' = s := by
  have key : ∀ lo hi, mkNodeReg s v lo hi = .error (e, s') → e = .storageFull ∧ s' = s := by
    intro lo hi h
    unfold mkNodeReg at h
    by_cases hne : lo = hi
    · rw [if_pos hne] at h; cases h
    · rw [if_neg hne] at h
      cases hp : s.put ⟨v, lo, hi⟩ with
      | error e' =>
        rw [hp] at h
        simp only [Except.error.injEq] at h
        subst h
        exact put_full hg _ hp
      | ok p => obtain ⟨s1', i⟩ := p; rw [hp] at h; cases h
  unfold mkNode at h
  rw [if_neg hv] at h
  by_cases hneg : high.neg = true
  · rw [if_pos hneg] at h
    cases hm : mkNodeReg s v low.not high.not with
    | error e' =>
      rw [hm] at h
      simp only [Except.error.injEq] at h
      subst h
      exact key _ _ hm
    | ok p => obtain ⟨s1', r1⟩ := p; rw [hm] at h; cases h
  · rw [if_neg hneg] at h
    exact key _ _ h


theorem isOne_eq {r} (h : isOne r = true) : r = Ref.one := by simpa [isOne] using h
theorem isZero_eq {r} (h : isZero r = true) : r = Ref.zero := by simpa [isZero] using h

theorem topCofactors_spec {s : St} (hg : Good s) {r φ m r0 r1}
    (hr : Valid s.nodes r φ) (hs : SuppGe φ m)
    (h : topCofactors s r m = .ok (r0, r1)) :
    Valid s.nodes r0 (cof φ m false) ∧ Valid s.nodes r1 (cof φ m true) := by
  unfold topCofactors at h
  by_cases hm : m = 0
  · simp [hm] at h
  simp only [hm, ↓reduceIte] at h
  have same : TopGe s.nodes r (m + 1) → r0 = r → r1 = r →
      Valid s.nodes r0 (cof φ m false) ∧ Valid s.nodes r1 (cof φ m true) := by
    intro ht e0 e1
    obtain ⟨d, hd⟩ := hr
    have := hd.supp hg.inv _ ht
    subst e0; subst e1
    rw [cof_of_supp this, cof_of_supp this]
    exact ⟨⟨d, hd⟩, ⟨d, hd⟩⟩
  by_cases ht : isTerminal r = true
  · simp only [ht, ↓reduceIte, Except.ok.injEq, Prod.mk.injEq] at h
    apply same _ h.1.symm h.2.symm
    left
    simp only [isTerminal, Bool.or_eq_true] at ht
    rcases ht with h1 | h1
    · rw [isOne_eq h1]; rfl
    · rw [isZero_eq h1]; rfl
  simp only [ht, Bool.false_eq_true, ↓reduceIte] at h
  by_cases hlt : m < s.var r
  · simp only [hlt, ↓reduceIte, Except.ok.injEq, Prod.mk.injEq] at h
    apply same _ h.1.symm h.2.symm
    rcases valid_stored hr with h1 | ⟨n, hn⟩
    · exact Or.inl h1
    · refine Or.inr ⟨n, hn, ?_⟩
      rw [St.var_of hn] at hlt
      omega
  simp only [hlt, ↓reduceIte] at h
  by_cases hne : m ≠ s.var r
  · simp [hne] at h
  simp only [hne, ↓reduceIte] at h
  have hmv : m = s.var r := by simpa using hne
  -- `r` is a stored node with variable `m`
  obtain ⟨n, hn⟩ : ∃ n, s.nodes r.idx = some n := by
    rcases valid_stored hr with h1 | hn
    · exfalso
      apply ht
      rcases r with ⟨i, b⟩
      simp only at h1; subst h1
      cases b <;> simp [isTerminal, isOne, isZero, Ref.one, Ref.zero]
    · exact hn
  have hnv : n.var = m := by rw [St.var_of hn] at hmv; exact hmv.symm
  have hlow : s.low r.idx = n.low := St.low_of hn
  have hhigh : s.high r.idx = n.high := St.high_of hn
  rw [hlow, hhigh] at h
  obtain ⟨d, hd⟩ := hr
  have hnt : r.idx ≠ 1 := by
    intro e; rw [e, hg.inv.noterm] at hn; cases hn
  -- regular part
  have key : ∀ ψ, Den s.nodes d ⟨r.idx, false⟩ ψ →
      Valid s.nodes n.low (cof ψ m false) ∧ Valid s.nodes n.high (cof ψ m true) := by
    intro ψ hψ
    rcases hψ.regInv with ⟨e1, -, -⟩ | ⟨n', d0, d1, φ0, φ1, hn', h0, h1, -, hφ⟩
    · exact absurd e1 hnt
    · have : n' = n := by rw [hn] at hn'; exact (Option.some.inj hn').symm
      subst this
      have s0 := h0.supp hg.inv _ (hg.inv.ordLow _ _ hn)
      have s1 := h1.supp hg.inv _ (hg.inv.ordHigh _ _ hn)
      rw [hnv] at s0 s1
      have c0 : cof ψ m false = φ0 := by
        rw [hφ]; funext e; simp only [cof, hnv, upd_same]
        simpa using (s0 e (upd e m false) (upd_agree' e m false _ (Nat.lt_succ_self _))).symm
      have c1 : cof ψ m true = φ1 := by
        rw [hφ]; funext e; simp only [cof, hnv, upd_same]
        simpa using (s1 e (upd e m true) (upd_agree' e m true _ (Nat.lt_succ_self _))).symm
      rw [c0, c1]
      exact ⟨⟨_, h0⟩, ⟨_, h1⟩⟩
  rcases r with ⟨i, b⟩
  cases b with
  | false =>
    simp only [Bool.false_eq_true, ↓reduceIte, Except.ok.injEq, Prod.mk.injEq] at h
    obtain ⟨rfl, rfl⟩ := h
    exact key φ hd
  | true =>
    simp only [↓reduceIte, Except.ok.injEq, Prod.mk.injEq] at h
    obtain ⟨rfl, rfl⟩ := h
    obtain ⟨ψ, hψ, rfl⟩ := hd.negInv
    obtain ⟨a, b⟩ := key ψ hψ
    exact ⟨a.not, b.not⟩


def RecSpec (rec : Rec) : Prop :=
  ∀ s f g h φf φg φh s' r, Good s → Valid s.nodes f φf → Valid s.nodes g φg → Valid s.nodes h φh →
    rec s f g h = .ok (s', r) →
    Good s' ∧ Sub s.nodes s'.nodes ∧ Valid s'.nodes r (ITE φf φg φh)

theorem SuppGe.ite {a b c : Fn} {v} (ha : SuppGe a v) (hb : SuppGe b v) (hc : SuppGe c v) : SuppGe (ITE a b c) v := by
  intro e e' hee; simp [ITE, ha e e' hee, hb e e' hee, hc e e' hee]

theorem iteCore_spec {rec : Rec} (hrec : RecSpec rec) {s : St} (hg : Good s) {f g h a b c m s' r}
    (hf : Valid s.nodes f a) (hgg : Valid s.nodes g b) (hh : Valid s.nodes h c)
    (sa : SuppGe a m) (sb : SuppGe b m) (sc : SuppGe c m)
    (hres : iteCore rec s f g h m = .ok (s', r)) :
    Good s' ∧ Sub s.nodes s'.nodes ∧ Valid s'.nodes r (ITE a b c) := by
  unfold iteCore at hres
  cases hc : (s.cacheGet (.ite f g h)).2 with
  | some res =>
    simp only [hc, Except.ok.injEq, Prod.mk.injEq] at hres
    obtain ⟨rfl, rfl⟩ := hres
    obtain ⟨a', b', c', ha', hb', hc', hr⟩ := hg.cacheHit hc
    have h1 := hg.inv.noterm
    rw [hf.det h1 ha', hgg.det h1 hb', hh.det h1 hc']
    exact ⟨hg.cacheGet _, fun _ _ x => x, hr⟩
  | none =>
    simp only [hc] at hres
    have hg0 := hg.cacheGet (.ite f g h)
    generalize hs0 : (s.cacheGet (.ite f g h)).1 = s0 at hres hg0
    have hn0 : s0.nodes = s.nodes := by rw [← hs0]; rfl
    rw [← hn0] at hf hgg hh ⊢
    by_cases hm : m = 0
    · simp [hm] at hres
    simp only [hm, ↓reduceIte] at hres
    cases hcf : topCofactors s0 f m with
    | error e => simp [hcf] at hres
    | ok pf =>
    cases hcg : topCofactors s0 g m with
    | error e => simp [hcf, hcg] at hres
    | ok pg =>
    cases hch : topCofactors s0 h m with
    | error e => simp [hcf, hcg, hch] at hres
    | ok ph =>
    obtain ⟨f0, f1⟩ := pf; obtain ⟨g0, g1⟩ := pg; obtain ⟨h0, h1⟩ := ph
    simp only [hcf, hcg, hch] at hres
    obtain ⟨vf0, vf1⟩ := topCofactors_spec hg0 hf sa hcf
    obtain ⟨vg0, vg1⟩ := topCofactors_spec hg0 hgg sb hcg
    obtain ⟨vh0, vh1⟩ := topCofactors_spec hg0 hh sc hch
    cases hr1 : rec s0 f0 g0 h0 with
    | error e => simp [hr1] at hres
    | ok p1 =>
    obtain ⟨s1, e⟩ := p1
    simp only [hr1] at hres
    obtain ⟨g1', sub1, ve⟩ := hrec _ _ _ _ _ _ _ _ _ hg0 vf0 vg0 vh0 hr1
    cases hr2 : rec s1 f1 g1 h1 with
    | error e => simp [hr2] at hres
    | ok p2 =>
    obtain ⟨s2, t⟩ := p2
    simp only [hr2] at hres
    obtain ⟨g2', sub2, vt⟩ := hrec _ _ _ _ _ _ _ _ _ g1' (vf1.mono sub1) (vg1.mono sub1) (vh1.mono sub1) hr2
    cases hmk : mkNode s2 m e t with
    | error e => simp [hmk] at hres
    | ok p3 =>
    obtain ⟨s3, res⟩ := p3
    simp only [hmk, Except.ok.injEq, Prod.mk.injEq] at hres
    obtain ⟨rfl, rfl⟩ := hres
    have se : SuppGe (ITE (cof a m false) (cof b m false) (cof c m false)) (m + 1) :=
      SuppGe.ite (suppGe_cof_succ sa) (suppGe_cof_succ sb) (suppGe_cof_succ sc)
    have st : SuppGe (ITE (cof a m true) (cof b m true) (cof c m true)) (m + 1) :=
      SuppGe.ite (suppGe_cof_succ sa) (suppGe_cof_succ sb) (suppGe_cof_succ sc)
    obtain ⟨g3', sub3, hcache3, vres⟩ := mkNode_spec g2' (ve.mono sub2) vt se st hmk
    have sub03 : Sub s0.nodes s3.nodes := fun i n x => sub3 _ _ (sub2 _ _ (sub1 _ _ x))
    have hfun : (fun e => if e m = true then ITE (cof a m true) (cof b m true) (cof c m true) e
        else ITE (cof a m false) (cof b m false) (cof c m false) e) = ITE a b c := by
      rw [shannon (ITE a b c) m]; rfl
    rw [hfun] at vres
    exact ⟨g3'.cacheInsert ⟨_, _, _, hf.mono sub03, hgg.mono sub03, hh.mono sub03, vres⟩, sub03, vres⟩



theorem one_fn {nd} (h1 : nd 1 = none) {x φ} (c : isOne x = true) (v : Valid nd x φ) : φ = fun _ => true := by
  rw [isOne_eq c] at v; exact v.det h1 Valid.one
theorem zero_fn {nd} (h1 : nd 1 = none) {x φ} (c : isZero x = true) (v : Valid nd x φ) : φ = fun _ => false := by
  rw [isZero_eq c] at v; exact v.det h1 Valid.zero
theorem eq_fn {nd} (h1 : nd 1 = none) {x y φ ψ} (c : x = y) (v : Valid nd x φ) (w : Valid nd y ψ) : φ = ψ := by
  subst c; exact v.det h1 w
theorem not_fn {nd} (h1 : nd 1 = none) {x y φ ψ} (c : x = y.not) (v : Valid nd x φ) (w : Valid nd y ψ) :
    φ = fun e => !ψ e := by
  subst c; exact v.det h1 w.not

theorem supp_of_var {s : St} (hg : Good s) {r φ} (v : Valid s.nodes r φ) {m} (hm : s.var r ≠ 0 → m ≤ s.var r) :
    SuppGe φ m := by
  obtain ⟨d, hd⟩ := v
  apply hd.supp hg.inv
  rcases valid_stored ⟨d, hd⟩ with h | ⟨n, hn⟩
  · exact Or.inl h
  · refine Or.inr ⟨n, hn, ?_⟩
    have : s.var r = n.var := St.var_of hn
    rw [this] at hm
    exact hm (hg.var0 _ _ hn)

theorem min3_le (i j k : Nat) : min3 i j k ≤ i ∧ (j ≠ 0 → min3 i j k ≤ j) ∧ (k ≠ 0 → min3 i j k ≤ k) := by
  unfold min3
  by_cases hj : j = 0 <;> by_cases hk : k = 0 <;> simp [hj, hk] <;> omega

theorem ITE_swap (a b c : Fn) : ITE (fun e => !a e) c b = ITE a b c := by
  funext e; simp only [ITE]; by_cases h : a e = true <;> simp [h]
theorem ITE_negout (a b c : Fn) : (fun e => !(ITE a (fun e => !b e) (fun e => !c e) e)) = ITE a b c := by
  funext e; simp only [ITE]; by_cases h : a e = true <;> simp [h]

macro "boolfn" : tactic =>
  `(tactic| (funext e; simp only [ITE]; (repeat' split) <;> simp_all))

theorem applyIte_spec : ∀ fuel, RecSpec (applyIte fuel) := by
  intro fuel
  induction fuel with
  | zero => intro s f g h φf φg φh s' r _ _ _ _ hres; simp [applyIte] at hres
  | succ fuel ih =>
    intro s f g h φf φg φh s' r hg vf vg vh hres
    have h1 := hg.inv.noterm
    have triv : ∀ {x ψ}, Valid s.nodes x ψ → ITE φf φg φh = ψ → (.ok (s, x) : Res (St × Ref)) = .ok (s', r) →
        Good s' ∧ Sub s.nodes s'.nodes ∧ Valid s'.nodes r (ITE φf φg φh) := by
      intro x ψ vx hfun heq
      simp only [Except.ok.injEq, Prod.mk.injEq] at heq
      obtain ⟨rfl, rfl⟩ := heq
      rw [hfun]; exact ⟨hg, fun _ _ x => x, vx⟩
    have recur : ∀ {f2 g2 h2 a b c}, Valid s.nodes f2 a → Valid s.nodes g2 b → Valid s.nodes h2 c →
        ITE φf φg φh = ITE a b c → applyIte fuel s f2 g2 h2 = .ok (s', r) →
        Good s' ∧ Sub s.nodes s'.nodes ∧ Valid s'.nodes r (ITE φf φg φh) := by
      intro f2 g2 h2 a b c va vb vc hfun heq
      rw [hfun]; exact ih _ _ _ _ _ _ _ _ _ hg va vb vc heq
    unfold applyIte at hres
    by_cases c : isOne f = true
    · rw [if_pos c] at hres
      have := one_fn h1 c vf; subst this
      exact triv vg (by boolfn) hres
    rw [if_neg c] at hres; clear c
    by_cases c : isZero f = true
    · rw [if_pos c] at hres
      have := zero_fn h1 c vf; subst this
      exact triv vh (by boolfn) hres
    rw [if_neg c] at hres; clear c
    by_cases c : g = h
    · rw [if_pos c] at hres
      have := eq_fn h1 c vg vh; subst this
      exact triv vg (by boolfn) hres
    rw [if_neg c] at hres; clear c
    by_cases c : (isOne g && isZero h) = true
    · rw [if_pos c] at hres
      simp only [Bool.and_eq_true, decide_eq_true_eq] at c
      have := one_fn h1 c.1 vg; subst this; have := zero_fn h1 c.2 vh; subst this
      exact triv vf (by boolfn) hres
    rw [if_neg c] at hres; clear c
    by_cases c : (isZero g && isOne h) = true
    · rw [if_pos c] at hres
      simp only [Bool.and_eq_true, decide_eq_true_eq] at c
      have := zero_fn h1 c.1 vg; subst this; have := one_fn h1 c.2 vh; subst this
      exact triv vf.not (by boolfn) hres
    rw [if_neg c] at hres; clear c
    by_cases c : (isOne g && decide (h = f.not)) = true
    · rw [if_pos c] at hres
      simp only [Bool.and_eq_true, decide_eq_true_eq] at c
      have := one_fn h1 c.1 vg; subst this; have := not_fn h1 c.2 vh vf; subst this
      exact triv Valid.one (by boolfn) hres
    rw [if_neg c] at hres; clear c
    by_cases c : (decide (g = f) && isOne h) = true
    · rw [if_pos c] at hres
      simp only [Bool.and_eq_true, decide_eq_true_eq] at c
      have := eq_fn h1 c.1 vg vf; subst this; have := one_fn h1 c.2 vh; subst this
      exact triv Valid.one (by boolfn) hres
    rw [if_neg c] at hres; clear c
    by_cases c : (decide (g = f.not) && isZero h) = true
    · rw [if_pos c] at hres
      simp only [Bool.and_eq_true, decide_eq_true_eq] at c
      have := not_fn h1 c.1 vg vf; subst this; have := zero_fn h1 c.2 vh; subst this
      exact triv Valid.zero (by boolfn) hres
    rw [if_neg c] at hres; clear c
    by_cases c : (isZero g && decide (h = f)) = true
    · rw [if_pos c] at hres
      simp only [Bool.and_eq_true, decide_eq_true_eq] at c
      have := zero_fn h1 c.1 vg; subst this; have := eq_fn h1 c.2 vh vf; subst this
      exact triv Valid.zero (by boolfn) hres
    rw [if_neg c] at hres; clear c
    -- standard triples
    by_cases c : g = f
    · rw [if_pos c] at hres
      have := eq_fn h1 c vg vf; subst this
      exact recur vf Valid.one vh (by boolfn) hres
    rw [if_neg c] at hres; clear c
    by_cases c : h = f
    · rw [if_pos c] at hres
      have := eq_fn h1 c vh vf; subst this
      exact recur vf vg Valid.zero (by boolfn) hres
    rw [if_neg c] at hres; clear c
    by_cases c : g = f.not
    · rw [if_pos c] at hres
      have := not_fn h1 c vg vf; subst this
      exact recur vf Valid.zero vh (by boolfn) hres
    rw [if_neg c] at hres; clear c
    by_cases c : h = f.not
    · rw [if_pos c] at hres
      have := not_fn h1 c vh vf; subst this
      exact recur vf vg Valid.one (by boolfn) hres
    rw [if_neg c] at hres; clear c
    simp only at hres
    by_cases hi0 : s.var f = 0
    · rw [if_pos hi0] at hres; cases hres
    rw [if_neg hi0] at hres
    -- equivalent pairs
    by_cases c : (isOne g && decide (s.var h < s.var f)) = true
    · rw [if_pos c] at hres
      simp only [Bool.and_eq_true, decide_eq_true_eq] at c
      by_cases cz : s.var h = 0
      · rw [if_pos cz] at hres; cases hres
      rw [if_neg cz] at hres
      have := one_fn h1 c.1 vg; subst this
      exact recur vh Valid.one vf (by boolfn) hres
    rw [if_neg c] at hres; clear c
    by_cases c : (isZero h && decide (s.var g < s.var f)) = true
    · rw [if_pos c] at hres
      simp only [Bool.and_eq_true, decide_eq_true_eq] at c
      by_cases cz : s.var g = 0
      · rw [if_pos cz] at hres; cases hres
      rw [if_neg cz] at hres
      have := zero_fn h1 c.1 vh; subst this
      exact recur vg vf Valid.zero (by boolfn) hres
    rw [if_neg c] at hres; clear c
    by_cases c : (isOne h && decide (s.var g < s.var f)) = true
    · rw [if_pos c] at hres
      simp only [Bool.and_eq_true, decide_eq_true_eq] at c
      by_cases cz : s.var g = 0
      · rw [if_pos cz] at hres; cases hres
      rw [if_neg cz] at hres
      have := one_fn h1 c.1 vh; subst this
      exact recur vg.not vf.not Valid.one (by boolfn) hres
    rw [if_neg c] at hres; clear c
    by_cases c : (isZero g && decide (s.var h < s.var f)) = true
    · rw [if_pos c] at hres
      simp only [Bool.and_eq_true, decide_eq_true_eq] at c
      by_cases cz : s.var h = 0
      · rw [if_pos cz] at hres; cases hres
      rw [if_neg cz] at hres
      have := zero_fn h1 c.1 vg; subst this
      exact recur vh.not Valid.zero vf.not (by boolfn) hres
    rw [if_neg c] at hres; clear c
    by_cases c : (decide (g = h.not) && decide (s.var g < s.var f)) = true
    · rw [if_pos c] at hres
      simp only [Bool.and_eq_true, decide_eq_true_eq] at c
      by_cases cz : s.var g = 0
      · rw [if_pos cz] at hres; cases hres
      rw [if_neg cz] at hres
      have := not_fn h1 c.1 vg vh; subst this
      exact recur vg vf vf.not (by boolfn) hres
    rw [if_neg c] at hres; clear c
    -- general case
    have core : ∀ (f' g' h' : Ref) (a b c : Fn) (n : Bool) (m : Nat),
        Valid s.nodes f' a → Valid s.nodes g' b → Valid s.nodes h' c →
        SuppGe a m → SuppGe b m → SuppGe c m →
        (ITE φf φg φh = if n then (fun e => !(ITE a b c e)) else ITE a b c) →
        (match iteCore (applyIte fuel) s f' g' h' m with
          | .error e => (.error e : Res (St × Ref))
          | .ok (s', res) => .ok (s', if n then res.not else res)) = .ok (s', r) →
        Good s' ∧ Sub s.nodes s'.nodes ∧ Valid s'.nodes r (ITE φf φg φh) := by
      intro f' g' h' a b c n m va vb vc sa sb sc hfun heq
      cases hcore : iteCore (applyIte fuel) s f' g' h' m with
      | error e => simp [hcore] at heq
      | ok p =>
        obtain ⟨s2, res⟩ := p
        simp only [hcore, Except.ok.injEq, Prod.mk.injEq] at heq
        obtain ⟨rfl, rfl⟩ := heq
        obtain ⟨x, y, z⟩ := iteCore_spec ih hg va vb vc sa sb sc hcore
        refine ⟨x, y, ?_⟩
        rw [hfun]
        cases n with
        | false => simpa using z
        | true => simpa using z.not
    have ml := min3_le (s.var f) (s.var g) (s.var h)
    have sf : SuppGe φf (min3 (s.var f) (s.var g) (s.var h)) := supp_of_var hg vf (fun _ => ml.1)
    have sg : SuppGe φg (min3 (s.var f) (s.var g) (s.var h)) := supp_of_var hg vg ml.2.1
    have sh : SuppGe φh (min3 (s.var f) (s.var g) (s.var h)) := supp_of_var hg vh ml.2.2
    cases hfn : f.neg <;> simp only [hfn, Bool.false_eq_true, ↓reduceIte] at hres
    · cases hgn : g.neg <;> simp only [hgn, Bool.false_eq_true, ↓reduceIte] at hres
      · exact core _ _ _ _ _ _ false _ vf vg vh sf sg sh (by simp) hres
      · exact core _ _ _ _ _ _ true _ vf vg.not vh.not sf sg.not sh.not (by simp [ITE_negout]) hres
    · cases hgn : h.neg <;> simp only [hgn, Bool.false_eq_true, ↓reduceIte] at hres
      · exact core _ _ _ _ _ _ false _ vf.not vh vg sf.not sh sg (by simp [ITE_swap]) hres
      · exact core _ _ _ _ _ _ true _ vf.not vh.not vg.not sf.not sh.not sg.not (by simp [ITE_negout, ITE_swap]) hres

#print axioms applyIte_spec

end P

import BddProofs.TabView
import BddProofs.Counts
/-! Feasibility spike: C06 — the high-water mark `last_index` always equals the peak number of
simultaneously stored cells (`real_size`), through any sequence of `alloc` and `drop`. -/
namespace S
set_option linter.unusedSectionVars false
variable {α : Type} [DecidableEq α]
open Cn

/-- `real_size` counts the occupied cells `1 ..= last_index` (cell 0 is the occupied sentinel) -/
def CountOk (t : Tab α) : Prop := t.realSize + 1 = countOcc t.occ (t.lastIndex + 1)

/-- all of `0 .. n-1` occupied means the count is `n` -/
theorem countOcc_full {occ : Nat → Bool} : ∀ {n : Nat}, (∀ j, j < n → occ j = true) → countOcc occ n = n := by
  intro n
  induction n with
  | zero => intro _; rfl
  | succ n ih => intro h; rw [countOcc_succ, ih (fun j hj => h j (by omega)), h n (by omega)]; simp

theorem countOcc_le (occ : Nat → Bool) : ∀ n, countOcc occ n ≤ n := by
  intro n
  induction n with
  | zero => simp [countOcc]
  | succ n ih => rw [countOcc_succ]; split <;> omega

/-- a free cell below `n` keeps the count strictly below `n` -/
theorem countOcc_lt_of_free {occ : Nat → Bool} {n i : Nat} (hi : i < n) (hf : occ i = false) : countOcc occ n < n := by
  induction n with
  | zero => omega
  | succ n ih =>
    rw [countOcc_succ]
    by_cases e : i = n
    · subst e; simp only [hf, Bool.false_eq_true, ↓reduceIte]; have := countOcc_le occ i; omega
    · have := ih (by omega); split <;> omega

/-- one `alloc` step: the counting invariant and "high-water mark = peak" are both preserved -/
theorem alloc_highwater {hash : α → Nat} {t : Tab α} {chains} (hI : TInv hash t chains) (hc : CountOk t)
    {peak : Nat} (hp : t.lastIndex = peak) (hle : t.realSize ≤ peak) {t' i} (h : t.alloc = .ok (t', i)) :
    CountOk t' ∧ t'.lastIndex = max peak t'.realSize ∧ t'.realSize ≤ t'.lastIndex := by
  obtain ⟨a1, a2, a3, a4, _, _, _, _, _, _, a11, a12, a13, a14⟩ := alloc_spec hI h
  unfold CountOk at hc ⊢
  rw [a11, a4]
  by_cases hlt : t.lastIndex < i
  · -- the table grows: cells 0..=last_index were all occupied
    obtain ⟨hi, hl'⟩ := a13 hlt
    have hfull : ∀ j, j < t.lastIndex + 1 → t.occ j = true := by
      intro j hj
      by_cases h0 : j = 0
      · subst h0; exact hI.occ01.1
      · exact a14 j (by omega) (by omega)
    have hcnt := countOcc_full hfull
    rw [hl', hi]
    have hset := countOcc_set (occ := t.occ) (i := t.lastIndex + 1) (n := t.lastIndex + 1 + 1) (by omega) (by rw [← hi]; exact a3)
    rw [hset, countOcc_succ, hcnt]
    have : t.occ (t.lastIndex + 1) = false := by rw [← hi]; exact a3
    simp only [this, Bool.false_eq_true, ↓reduceIte]
    rw [hcnt] at hc
    refine ⟨by omega, ?_, by omega⟩
    omega
  · -- a freed cell is reused: the mark does not move, and the new size stays below it
    have hl' := a12 (by omega)
    rw [hl']
    have hset := countOcc_set (occ := t.occ) (i := i) (n := t.lastIndex + 1) (by omega) a3
    rw [hset]
    have hltc := countOcc_lt_of_free (occ := t.occ) (n := t.lastIndex + 1) (i := i) (by omega) a3
    refine ⟨by omega, ?_, by omega⟩
    omega

/-- `drop` of an occupied cell: the count goes down, the mark stays -/
theorem drop_highwater {t : Tab α} (hc : CountOk t) {peak : Nat} (hp : t.lastIndex = peak) {i : Nat}
    (hi1 : 1 ≤ i) (hi : i ≤ t.lastIndex) (ho : t.occ i = true) (hrs : 1 ≤ t.realSize) :
    let t' : Tab α := { t with occ := fun j => if j = i then false else t.occ j,
                                minFree := min t.minFree i, realSize := t.realSize - 1 }
    CountOk t' ∧ t'.lastIndex = peak := by
  intro t'
  unfold CountOk at hc ⊢
  have := countOcc_clear (occ := t.occ) (i := i) (n := t.lastIndex + 1) (by omega) ho
  refine ⟨?_, hp⟩
  show t.realSize - 1 + 1 = countOcc (fun j => if j = i then false else t.occ j) (t.lastIndex + 1)
  omega

#print axioms alloc_highwater
end S

import BddProofs.Count
/-! C13: the algebraic corollaries of the semantic count (complement, inclusion–exclusion, an unused
last variable doubles the count).

The hypothesis "`φ` depends only on variables `< N`" is spelled out as
`∀ e e', (∀ w, w < N → e w = e' w) → φ e = φ e'`; this is, by unfolding, `SuppLt φ N` of
`BddProofs/Constrain.lean` (not imported here: these corollaries depend on `Count` only), so a
hypothesis `h : SuppLt φ (n + 1)` can be passed directly. -/
namespace P

theorem count_compl (φ : Fn) (n : Nat) : count φ n + count (fun e => !φ e) n = 2 ^ n := by
  simp only [count]; rw [countFrom_not]; have := countFrom_le φ n 1; omega

theorem countFrom_or_and (φ ψ : Fn) : ∀ k v,
    countFrom (fun e => φ e || ψ e) k v + countFrom (fun e => φ e && ψ e) k v = countFrom φ k v + countFrom ψ k v := by
  intro k
  induction k generalizing φ ψ with
  | zero =>
    intro v; simp only [countFrom]
    by_cases h1 : φ (fun _ => false) = true <;> by_cases h2 : ψ (fun _ => false) = true <;> simp [h1, h2]
  | succ k ih =>
    intro v
    simp only [countFrom]
    have a := ih (cof φ v false) (cof ψ v false) (v + 1)
    have b := ih (cof φ v true) (cof ψ v true) (v + 1)
    have e1 : ∀ c, cof (fun e => φ e || ψ e) v c = fun e => cof φ v c e || cof ψ v c e := fun _ => rfl
    have e2 : ∀ c, cof (fun e => φ e && ψ e) v c = fun e => cof φ v c e && cof ψ v c e := fun _ => rfl
    rw [e1, e1, e2, e2]; omega

/-- inclusion–exclusion -/
theorem count_or_and (φ ψ : Fn) (n : Nat) :
    count (fun e => φ e || ψ e) n + count (fun e => φ e && ψ e) n = count φ n + count ψ n :=
  countFrom_or_and φ ψ n 1

theorem suppLe_cof {φ : Fn} {N : Nat} (h : ∀ e e' : Env, (∀ w, w < N → e w = e' w) → φ e = φ e')
    (v : Nat) (b : Bool) : ∀ e e' : Env, (∀ w, w < N → e w = e' w) → cof φ v b e = cof φ v b e' := by
  intro e e' hee; apply h; intro w hw
  by_cases hwv : w = v
  · subst hwv; simp
  · rw [upd_other _ _ _ _ hwv, upd_other _ _ _ _ hwv]; exact hee w hw

/-- the last variable, when unused, doubles the count -/
theorem countFrom_extend (φ : Fn) : ∀ k v, (∀ e e' : Env, (∀ w, w < v + k → e w = e' w) → φ e = φ e') →
    countFrom φ (k + 1) v = 2 * countFrom φ k v := by
  intro k
  induction k generalizing φ with
  | zero =>
    intro v h
    have hc : ∀ c, cof φ v c = φ := by
      intro c; funext e; apply h; intro w hw
      exact upd_other _ _ _ _ (by omega)
    simp only [countFrom, hc]; omega
  | succ k ih =>
    intro v h
    have a := ih (cof φ v false) (v + 1) (by have := suppLe_cof h v false; rwa [show v + (k + 1) = v + 1 + k by omega] at this)
    have b := ih (cof φ v true) (v + 1) (by have := suppLe_cof h v true; rwa [show v + (k + 1) = v + 1 + k by omega] at this)
    rw [countFrom, a, b, countFrom]; omega

theorem count_extend {φ : Fn} {n : Nat} (h : ∀ e e' : Env, (∀ w, w < n + 1 → e w = e' w) → φ e = φ e') :
    count φ (n + 1) = 2 * count φ n := by
  simp only [count]; exact countFrom_extend φ n 1 (by rwa [Nat.add_comm] at h)

#print axioms count_compl
#print axioms count_or_and
#print axioms count_extend
end P

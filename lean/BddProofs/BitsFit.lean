import BddProofs.Bits
import BddProofs.Store
import BddProofs.Init
/-! Every number the manager stores in a packed 32-bit word fits in the 31 bits the packing leaves it.

The model keeps indices as unbounded naturals; the code packs them as `index << 1 | flag` (`Ref`, and
`Entry::next`).  `BddProofs/Bits.lean` shows the packing is lossless below `2^31`; this file shows that a
`Good` state whose capacity is at most `2^31` cells (which `Bdd::new` / `with_params` assert: storage
bits ≤ 31) holds nothing else: every stored node sits in a cell below `2^31`, both children of every
stored node and every hash-chain link are below `2^31`.  Hence reading the model's pairs instead of the
code's words loses nothing in any such state. -/
namespace P
open Arr S

theorem Chain.inv' {nx : Nat → Nat} {h : Nat} {l : List Nat} (c : S.Chain nx h l) :
    (h = 0 ∧ l = []) ∨ (h ≠ 0 ∧ ∃ t, l = h :: t ∧ S.Chain nx (nx h) t) := by
  cases c with
  | nil => exact Or.inl ⟨rfl, rfl⟩
  | cons h0 c' => exact Or.inr ⟨h0, _, rfl, c'⟩

theorem Chain.link_mem {nx : Nat → Nat} {h : Nat} {l : List Nat} (c : S.Chain nx h l) :
    ∀ i, i ∈ l → nx i = 0 ∨ nx i ∈ l := by
  induction c with
  | nil => intro i hi; cases hi
  | @cons h l _ c ih =>
    intro i hi
    rcases List.mem_cons.1 hi with rfl | hi'
    · rcases Chain.inv' c with ⟨h0, _⟩ | ⟨_, t, ht, _⟩
      · exact Or.inl h0
      · exact Or.inr (List.mem_cons_of_mem _ (by rw [ht]; exact List.mem_cons_self))
    · rcases ih i hi' with h0 | hm
      · exact Or.inl h0
      · exact Or.inr (List.mem_cons_of_mem _ hm)

/-- in a good state with at most `2^31` cells, every index that the code packs into a word is below
`2^31`: the cell of every stored node, the cells its two children name, its hash-chain link, and every
bucket head -/
theorem Good.words_fit {s : St} (hg : Good s) (hcap : s.storage.vals.size ≤ 2147483648) :
    (∀ i n, s.nodes i = some n →
        i < 2147483648 ∧ n.low.idx < 2147483648 ∧ n.high.idx < 2147483648 ∧
        rd s.storage.nxs i < 2147483648) ∧
    (∀ b, b < s.storage.buckets.size → rd s.storage.buckets b < 2147483648) := by
  obtain ⟨chains, hI⟩ := hg.tinv
  have hlast : s.storage.lastIndex < s.storage.vals.size := hI.lastLt
  have hchain : ∀ b, b < s.storage.buckets.size → ∀ j, j ∈ chains b → j < 2147483648 := by
    intro b hb j hj
    have := (hI.mem b hb j hj).2.1
    have e : s.storage.toTab.lastIndex = s.storage.lastIndex := rfl
    omega
  have hchild : ∀ r : Ref, ∀ v, TopGe s.nodes r v → r.idx < 2147483648 := by
    intro r v h
    rcases h with h1 | ⟨m, hm, _⟩
    · omega
    · have := (hg.bnd _ _ hm).2; simp only [St.next] at this; omega
  refine ⟨?_, ?_⟩
  · intro i n hn
    have hb := hg.bnd i n hn
    simp only [St.next] at hb
    obtain ⟨h2, ho, _⟩ := St.nodes_some hn
    refine ⟨by omega, hchild _ _ (hg.inv.ordLow i n hn), hchild _ _ (hg.inv.ordHigh i n hn), ?_⟩
    -- the link: `i` lies in the chain of its bucket, whose links are 0 or chain members
    have hnb : 0 < s.storage.toTab.nb := hI.nbPos
    have hbk : s.storage.bhash (s.storage.toTab.val i) % s.storage.toTab.nb < s.storage.toTab.nb :=
      Nat.mod_lt _ hnb
    have hmem := hI.complete i h2 ho
    rcases Chain.link_mem (hI.chain _ hbk) i hmem with h0 | hm
    · show s.storage.toTab.nx i < _; rw [h0]; omega
    · exact hchain _ hbk _ hm
  · intro b hb
    rcases Chain.inv' (hI.chain b hb) with ⟨h0, _⟩ | ⟨_, t, ht, _⟩
    · show s.storage.toTab.bucket b < _; rw [h0]; omega
    · exact hchain b hb _ (by rw [ht]; exact List.mem_cons_self)

/-- `Bdd::new` / `with_params` reject more than 31 storage bits, so a new manager has at most `2^31` cells -/
theorem newWith_cap {sb bb cb : Nat} {s : St} (h : St.newWith sb bb cb = .ok s) :
    s.storage.vals.size ≤ 2147483648 := by
  unfold St.newWith at h
  by_cases c1 : sb > 31
  · rw [if_pos c1] at h; cases h
  rw [if_neg c1] at h
  cases ha : (Table.newWith sb bb : Table Node).alloc with
  | error e => rw [ha] at h; cases h
  | ok p =>
    obtain ⟨t, one⟩ := p
    rw [ha] at h
    simp only at h
    by_cases c2 : one ≠ 1
    · rw [if_pos c2] at h; cases h
    · rw [if_neg c2] at h
      simp only [Except.ok.injEq] at h
      subst h
      -- `alloc` changes the occupancy array and the counters only
      have hv : t.vals = (Table.newWith sb bb : Table Node).vals := by
        unfold Table.alloc Table.allocAt at ha
        split at ha
        · cases ha
        · simp only [Except.ok.injEq, Prod.mk.injEq] at ha; rw [← ha.1]
      show t.vals.size ≤ _
      rw [hv]
      show (Array.replicate (2 ^ sb) (default : Node)).size ≤ _
      rw [Array.size_replicate]
      have : sb ≤ 31 := by omega
      calc 2 ^ sb ≤ 2 ^ 31 := Nat.pow_le_pow_right (by decide) this
        _ = 2147483648 := by decide

end P

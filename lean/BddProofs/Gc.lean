import BddProofs.GcSim
import BddProofs.Bfs
/-! `collect_garbage` on the real manager (`P.collectGarbage`: clear both caches, mark with
`descendantsMark`, sweep every bucket of the array table).

For a good state `s` with an exact live count (`RS s.storage`) and live roots:
* `collect_total`  — the call returns (no `assertion` from `drop`, no `outOfFuel`);
* `collect_spec`   — the result is good again, the live count is exact again, the node view is the
  old one restricted to `descendants s roots`, every handle into that set (in particular every root)
  denotes what it denoted (C05), both caches are empty (C07), cell values and `last_index` untouched;
* `collect_exact`  — the number of stored nodes equals the number of nodes reachable from the roots (C06);
* `collect_occ`, `collect_minFree` — exactly cell 0 and the reachable cells stay occupied; every cell
  in `[1, min_free)` is occupied and `min_free` did not grow. -/
namespace P
open Arr S

/-! ### the mark phase only reads the storage -/

theorem bfsFast_storage {s s' : St} (h : s'.storage = s.storage) : ∀ fuel q b m v,
    bfsFast s' fuel q b m v = bfsFast s fuel q b m v := by
  have hl : ∀ i, s'.low i = s.low i := fun i => by simp [St.low, St.node, h]
  have hh : ∀ i, s'.high i = s.high i := fun i => by simp [St.high, St.node, h]
  intro fuel
  induction fuel with
  | zero => intro q b m v; rfl
  | succ fuel ih =>
    intro q b m v
    cases q with
    | nil =>
      cases b with
      | nil => rfl
      | cons x xs => simp only [bfsFast]; exact ih _ _ _ _
    | cons i q => simp only [bfsFast, hl, hh, ih]

theorem descendantsMark_storage {s s' : St} (h : s'.storage = s.storage) (roots : List Ref) :
    descendantsMark s' roots = descendantsMark s roots := by
  unfold descendantsMark bfsFuel
  rw [h]
  exact bfsFast_storage h _ _ _ _ _

/-! ### restricting a good node set to a children-closed set (node-set level of C05) -/

theorem Den.restrict {nd nd' : Nodes} {V : List Nat} (h1 : nd 1 = none)
    (hnd : ∀ i n, nd' i = some n ↔ i ∈ V ∧ nd i = some n)
    (hc : ∀ i n, i ∈ V → nd i = some n → n.low.idx ∈ V ∧ n.high.idx ∈ V) {d r φ}
    (h : Den nd d r φ) : (r.idx = 1 ∨ r.idx ∈ V) → Den nd' d r φ := by
  induction h with
  | one => intro _; exact .one
  | @node i n d0 d1 φ0 φ1 hn h0 h1' ih0 ih1 =>
    intro hi
    have hiV : i ∈ V := by
      rcases hi with e | e
      · simp at e; subst e; rw [h1] at hn; cases hn
      · exact e
    obtain ⟨cl, ch⟩ := hc i n hiV hn
    exact .node ((hnd i n).mpr ⟨hiV, hn⟩) (ih0 (Or.inr cl)) (ih1 (Or.inr ch))
  | neg _ ih => intro hi; exact .neg (ih hi)

theorem restrict_ninv {nd nd' : Nodes} {V : List Nat} (hI : NInv nd)
    (hnd : ∀ i n, nd' i = some n ↔ i ∈ V ∧ nd i = some n)
    (hc : ∀ i n, i ∈ V → nd i = some n → n.low.idx ∈ V ∧ n.high.idx ∈ V) :
    NInv nd' ∧ Sub nd' nd ∧
    (∀ r φ, Valid nd r φ → (r.idx = 1 ∨ r.idx ∈ V) → Valid nd' r φ) := by
  have sub : Sub nd' nd := fun i n h => ((hnd i n).mp h).2
  have topge : ∀ i n, nd' i = some n → ∀ c v, (c = n.low ∨ c = n.high) →
      TopGe nd c v → TopGe nd' c v := by
    intro i n hn c v hcn ht
    obtain ⟨hiV, hn'⟩ := (hnd i n).mp hn
    obtain ⟨cl, ch⟩ := hc i n hiV hn'
    rcases ht with e | ⟨m, hm, hv⟩
    · exact Or.inl e
    · refine Or.inr ⟨m, (hnd _ m).mpr ⟨?_, hm⟩, hv⟩
      rcases hcn with e | e <;> subst e <;> assumption
  refine ⟨⟨?_, ?_, ?_, ?_, ?_, ?_⟩, sub, ?_⟩
  · intro i j n hi hj; exact hI.uniq i j n (sub _ _ hi) (sub _ _ hj)
  · cases h : nd' 1 with
    | none => rfl
    | some n => have := sub _ _ h; rw [hI.noterm] at this; cases this
  · intro i n hn; exact hI.highReg i n (sub _ _ hn)
  · intro i n hn; exact hI.reduced i n (sub _ _ hn)
  · intro i n hn; exact topge i n hn _ _ (Or.inl rfl) (hI.ordLow i n (sub _ _ hn))
  · intro i n hn; exact topge i n hn _ _ (Or.inr rfl) (hI.ordHigh i n (sub _ _ hn))
  · intro r φ ⟨d, hd⟩ hr
    exact ⟨d, hd.restrict hI.noterm hnd hc hr⟩

/-! ### the collection -/

/-- `collectGarbage` is: sweep `s.storage` with the marks of `descendantsMark s roots`, and hand back
the swept table with two cleared caches -/
theorem collect_cases (s : St) (roots : List Ref) :
    (∃ t, sweepFrom (descendantsMark s roots).1 (s.storage.vals.size + 2) s.storage.buckets.size 0 s.storage = .ok t ∧
      collectGarbage s roots = .ok { storage := t, cache := s.cache.clear, sizeCache := s.sizeCache.clear }) ∨
    (∃ e, sweepFrom (descendantsMark s roots).1 (s.storage.vals.size + 2) s.storage.buckets.size 0 s.storage = .error e ∧
      collectGarbage s roots = .error (e, { s with cache := s.cache.clear, sizeCache := s.sizeCache.clear })) := by
  have hm : descendantsMark { s with cache := s.cache.clear, sizeCache := s.sizeCache.clear } roots =
      descendantsMark s roots :=
    descendantsMark_storage (s := s) (s' := { s with cache := s.cache.clear, sizeCache := s.sizeCache.clear }) rfl roots
  unfold collectGarbage
  simp only [hm]
  cases hs : sweepFrom (descendantsMark s roots).1 (s.storage.vals.size + 2) s.storage.buckets.size 0 s.storage with
  | ok t => exact Or.inl ⟨t, rfl, rfl⟩
  | error e => exact Or.inr ⟨e, rfl, rfl⟩

/-- everything about a collection, in one statement about the swept table -/
theorem collect_core {s : St} (hg : Good s) {roots : List Ref} (hlive : ∀ r, r ∈ roots → Live s r.idx)
    (hrs : RS s.storage) :
    ∃ t, collectGarbage s roots = .ok { storage := t, cache := s.cache.clear, sizeCache := s.sizeCache.clear } ∧
      t.Wf ∧ (∃ chains, TInv t.bhash t.toTab chains) ∧ Fr s.storage t ∧ RS t ∧
      (∀ i, rd t.occs i = true ↔ (i = 0 ∨ i ∈ descendants s roots)) := by
  obtain ⟨chains, hI⟩ := hg.tinv
  obtain ⟨hmsz, hmark⟩ := descendantsMark_spec hg roots hlive
  obtain ⟨t, hok, hw', hT, hocc, hfr, hrs'⟩ := sweep_full hg.wf hI hrs (descendantsMark s roots).1
    (by rw [hmsz]; exact Nat.le_refl _) (s.storage.vals.size + 2) (by omega)
  obtain ⟨_, _, hVlive, _⟩ := descendants_closed hg roots hlive
  have hone : 1 ∈ descendants s roots := (descendants_closed hg roots hlive).1
  refine ⟨t, ?_, hw', ⟨_, hT⟩, hfr, hrs', ?_⟩
  · rcases collect_cases s roots with ⟨t1, h1, h2⟩ | ⟨e, h1, _⟩
    · rw [hok] at h1
      cases h1
      exact h2
    · rw [hok] at h1; cases h1
  · intro i
    have notin : i < 2 → ¬ ∃ b, b < s.storage.buckets.size ∧ i ∈ chains b := by
      rintro hi ⟨b, hb, hm⟩; have := (hI.mem b hb i hm).1; omega
    have h01 := hI.occ01
    have h0 : rd s.storage.occs 0 = true := h01.1
    have h1 : rd s.storage.occs 1 = true := h01.2
    rw [hocc i]
    by_cases i0 : i = 0
    · subst i0
      simp [h0, notin (by omega)]
    by_cases i1 : i = 1
    · subst i1
      simp [h1, notin (by omega), hone]
    have h2 : 2 ≤ i := by omega
    by_cases ho : rd s.storage.occs i = true
    · have hex : ∃ b, b < s.storage.buckets.size ∧ i ∈ chains b :=
        ⟨_, Nat.mod_lt _ hI.nbPos, hI.complete i h2 ho⟩
      rw [ho]
      simp only [hex, decide_true, Bool.true_and, Bool.not_not, i0, false_or]
      exact hmark i
    · have ho' : rd s.storage.occs i = false := by simpa using ho
      rw [ho']
      simp only [Bool.false_and, Bool.false_eq_true, i0, false_or, false_iff]
      intro hv
      rcases hVlive i hv with e | ⟨n, hn⟩
      · exact i1 e
      · have := (St.nodes_some hn).2.1
        rw [this] at ho'; cases ho'

/-- **Totality**: under the invariants `collect_garbage` returns — `drop` never hits
`real_size = 0` (its `-= 1` cannot underflow), and no loop runs out of its bound -/
theorem collect_total {s : St} (hg : Good s) {roots : List Ref} (hlive : ∀ r, r ∈ roots → Live s r.idx)
    (hrs : RS s.storage) : ∃ s', collectGarbage s roots = .ok s' := by
  obtain ⟨t, h, _⟩ := collect_core hg hlive hrs
  exact ⟨_, h⟩

/-- which cells stay occupied: the sentinel and exactly the reachable cells -/
theorem collect_occ {s s' : St} (hg : Good s) {roots : List Ref} (hlive : ∀ r, r ∈ roots → Live s r.idx)
    (hrs : RS s.storage) (h : collectGarbage s roots = .ok s') :
    ∀ i, rd s'.storage.occs i = true ↔ (i = 0 ∨ i ∈ descendants s roots) := by
  obtain ⟨t, h', _, _, _, _, hocc⟩ := collect_core hg hlive hrs
  rw [h'] at h
  simp only [Except.ok.injEq] at h
  subst h
  exact hocc

/-- **C05 / C07 / C17**: after a collection the state is good again (so every later operation's
theorem applies, although freed cells get reused), the live count is exact, the node view is the old
one restricted to the reachable set, every handle into the reachable set denotes what it denoted,
and no cache entry survives -/
theorem collect_spec {s s' : St} (hg : Good s) {roots : List Ref} (hlive : ∀ r, r ∈ roots → Live s r.idx)
    (hrs : RS s.storage) (h : collectGarbage s roots = .ok s') :
    Good s' ∧ RS s'.storage ∧
    (∀ i, s'.nodes i = if i ∈ descendants s roots then s.nodes i else none) ∧
    (∀ r φ, Valid s.nodes r φ → (r.idx = 1 ∨ r.idx ∈ descendants s roots) → Valid s'.nodes r φ) ∧
    (∀ k, s'.cache.lookup k = none) ∧ (∀ f, s'.sizeCache.lookup f = none) ∧
    s'.storage.vals = s.storage.vals ∧ s'.storage.lastIndex = s.storage.lastIndex := by
  obtain ⟨t, h', hw', hT, hfr, hrs', hocc⟩ := collect_core hg hlive hrs
  rw [h'] at h
  simp only [Except.ok.injEq] at h
  subst h
  obtain ⟨_, _, hVlive, hclosed⟩ := descendants_closed hg roots hlive
  -- the node view
  have hnodes : ∀ i, St.nodes { storage := t, cache := s.cache.clear, sizeCache := s.sizeCache.clear } i =
      if i ∈ descendants s roots then s.nodes i else none := by
    intro i
    show (if 2 ≤ i ∧ rd t.occs i = true then some (rd t.vals i) else none) = _
    by_cases hv : i ∈ descendants s roots
    · rw [if_pos hv]
      rcases hVlive i hv with e | ⟨n, hn⟩
      · subst e
        rw [St.nodes_one, if_neg (by omega)]
      · obtain ⟨a, _, c⟩ := St.nodes_some hn
        rw [if_pos ⟨a, (hocc i).mpr (Or.inr hv)⟩, hn, hfr.vals, c]
    · rw [if_neg hv, if_neg]
      rintro ⟨a, b⟩
      rcases (hocc i).mp b with e | e
      · omega
      · exact hv e
  have hnd : ∀ i n, St.nodes { storage := t, cache := s.cache.clear, sizeCache := s.sizeCache.clear } i = some n ↔
      i ∈ descendants s roots ∧ s.nodes i = some n := by
    intro i n
    rw [hnodes]
    by_cases hv : i ∈ descendants s roots
    · rw [if_pos hv]; exact ⟨fun x => ⟨hv, x⟩, fun x => x.2⟩
    · rw [if_neg hv]; exact ⟨fun x => (by cases x), fun x => absurd x.1 hv⟩
  obtain ⟨hninv, hsub, hvalid⟩ := restrict_ninv hg.inv hnd hclosed
  refine ⟨⟨hw', hT, hninv, fun i n hn => hg.var0 i n (hsub i n hn), ?_, ?_, hrs'⟩, hrs', hnodes, hvalid,
    fun k => Cache.lookup_clear _ k, fun f => Cache.lookup_clear _ f, hfr.vals, hfr.lastIndex⟩
  · intro k r hk
    have : (s.cache.clear).lookup k = some r := hk
    rw [Cache.lookup_clear] at this; cases this
  · show (rd t.vals 1).var = 0
    rw [hfr.vals]; exact hg.term1

/-- every root keeps its meaning -/
theorem collect_roots {s s' : St} (hg : Good s) {roots : List Ref} (hlive : ∀ r, r ∈ roots → Live s r.idx)
    (hrs : RS s.storage) (h : collectGarbage s roots = .ok s') :
    ∀ r φ, r ∈ roots → Valid s.nodes r φ → Valid s'.nodes r φ := by
  intro r φ hr hv
  exact (collect_spec hg hlive hrs h).2.2.2.1 r φ hv
    (Or.inr ((descendants_closed hg roots hlive).2.1 r hr))

/-- **C06 (exactness)**: exactly the dead nodes are reclaimed — after the collection the number of
stored nodes (`real_size`) is the number of nodes reachable from the roots, terminal included -/
theorem collect_exact {s s' : St} (hg : Good s) {roots : List Ref} (hlive : ∀ r, r ∈ roots → Live s r.idx)
    (hrs : RS s.storage) (h : collectGarbage s roots = .ok s') :
    s'.storage.realSize = (descendants s roots).length := by
  have hocc := collect_occ hg hlive hrs h
  obtain ⟨_, hrs', _, _, _, _, hvals, _⟩ := collect_spec hg hlive hrs h
  obtain ⟨_, _, hVlive, _⟩ := descendants_closed hg roots hlive
  have hnd := descendants_nodup hg roots hlive
  have h0 : 0 ∉ descendants s roots := by
    intro h0
    rcases hVlive 0 h0 with e | ⟨n, hn⟩
    · omega
    · have := (hg.bnd _ _ hn).1; omega
  have hcount : Cn.countOcc (rd s'.storage.occs) s'.storage.vals.size = (0 :: descendants s roots).length := by
    apply Cn.countOcc_eq_length (List.nodup_cons.mpr ⟨h0, hnd⟩)
    · intro i hi
      rw [hvals]
      rcases List.mem_cons.mp hi with e | e
      · subst e; have := hg.next2; exact (by omega : 0 < s.next)
      · exact (hVlive i e).lt hg
    · intro i _
      rw [hocc i, List.mem_cons]
  unfold RS at hrs'
  rw [hcount] at hrs'
  simp only [List.length_cons] at hrs'
  omega

/-- after the collection every cell in `[1, min_free)` is occupied, and `min_free` did not grow -/
theorem collect_minFree {s s' : St} (hg : Good s) {roots : List Ref} (hlive : ∀ r, r ∈ roots → Live s r.idx)
    (hrs : RS s.storage) (h : collectGarbage s roots = .ok s') :
    (∀ i, 1 ≤ i → i < s'.storage.minFree → rd s'.storage.occs i = true) ∧
    1 ≤ s'.storage.minFree ∧ s'.storage.minFree ≤ s.storage.minFree := by
  obtain ⟨t, h', _, _, hfr, _, _⟩ := collect_core hg hlive hrs
  obtain ⟨hg', _⟩ := collect_spec hg hlive hrs h
  obtain ⟨ch, hI⟩ := hg'.tinv
  obtain ⟨ch0, hI0⟩ := hg.tinv
  rw [h'] at h
  simp only [Except.ok.injEq] at h
  subst h
  exact ⟨hI.below, hI.minFreeGe, hfr.mfLe⟩

/-! ### non-vacuity: the hypotheses hold in a fresh manager, and survive `mk_node` -/

theorem s4_RS : RS s4.storage := init_RS_default new4_ok

/-- collecting in the fresh 16-cell manager with no roots succeeds and leaves exactly the terminal -/
theorem collect_s4 : ∃ s', collectGarbage s4 [] = .ok s' ∧ Good s' ∧ RS s'.storage ∧ s'.storage.realSize = 1 := by
  have hl : ∀ r, r ∈ ([] : List Ref) → Live s4 r.idx := fun r hr => by cases hr
  obtain ⟨s', h⟩ := collect_total s4_good hl s4_RS
  obtain ⟨hg', hrs', _⟩ := collect_spec s4_good hl s4_RS h
  refine ⟨s', h, hg', hrs', ?_⟩
  rw [collect_exact s4_good hl s4_RS h]
  rfl

/-- the two invariants travel together through node creation and collection: a node made in a good,
exactly-counted state can be collected with itself as root and keeps its meaning -/
theorem mkNode_then_collect {s s1 : St} (hg : Good s) (hrs : RS s.storage) {v : Nat} {lo hi r : Ref}
    (hm : mkNode s v lo hi = .ok (s1, r)) (hg1 : Good s1) {φ} (hv : Valid s1.nodes r φ) :
    ∃ s2, collectGarbage s1 [r] = .ok s2 ∧ Good s2 ∧ RS s2.storage ∧ Valid s2.nodes r φ := by
  have hrs1 := mkNode_RS hg hrs hm
  have hl : ∀ x, x ∈ [r] → Live s1 x.idx := by
    intro x hx; simp at hx; subst hx; exact Live.of_valid hv
  obtain ⟨s2, h⟩ := collect_total hg1 hl hrs1
  obtain ⟨hg2, hrs2, _⟩ := collect_spec hg1 hl hrs1 h
  exact ⟨s2, h, hg2, hrs2, collect_roots hg1 hl hrs1 h r φ (by simp) hv⟩

#print axioms collect_total
#print axioms collect_spec
#print axioms collect_roots
#print axioms collect_exact
#print axioms collect_occ
#print axioms collect_minFree
#print axioms collect_s4
#print axioms mkNode_then_collect
end P

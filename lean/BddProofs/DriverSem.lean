import BddProofs.DriverGood
import BddProofs.SubstCor
import BddProofs.Compose
import BddProofs.Cube
import BddProofs.Clause
import BddProofs.Constrain
import BddProofs.Restrict
import BddProofs.IteConst
/-! What the driver's reply *means*: for every handle-producing request that `exec` accepts and that
returns, the handle it returns is live in the new state and denotes the function the property specifies
for that operation, computed from the functions the argument handles denoted in the old state.

`ReqSpec s r ψ` collects the specifications of C02, C03, C08–C11, C15 in one place, indexed by the request;
`exec_handle_sem` is their common consequence *through the dispatcher the driver really runs*: no hypothesis
about the handles is left — they are discharged from the run-time check `Req.ok`. -/
namespace P
open Arr

/-- the functions of a list of live handles -/
theorem fns_of_live {s : St} (hg : Good s) : ∀ rs : List Ref, rs.all (liveB s) = true →
    ∃ φs : List Fn, rs.length = φs.length ∧
      ∀ i (h : i < rs.length) (h' : i < φs.length), Valid s.nodes rs[i] φs[i] := by
  intro rs
  induction rs with
  | nil => intro _; exact ⟨[], rfl, fun i h => by simp at h⟩
  | cons r rs ih =>
    intro h
    simp only [List.all_cons, Bool.and_eq_true] at h
    obtain ⟨φ, v⟩ := hg.valid_of_liveB h.1
    obtain ⟨φs, hl, hv⟩ := ih h.2
    refine ⟨φ :: φs, by simp [hl], ?_⟩
    intro i hi hi'
    cases i with
    | zero => exact v
    | succ j => exact hv j (by simpa using hi) (by simpa using hi')

/-- the specification of the reply to a handle-producing request, in terms of the functions its
argument handles denote in the state the request is made in -/
def ReqSpec (s : St) : Req → Fn → Prop
  | .var v, ψ => ψ = fun e => e v
  | .node v lo hi, ψ => ∃ φ0 φ1, Valid s.nodes lo φ0 ∧ Valid s.nodes hi φ1 ∧ ψ = fun e => if e v then φ1 e else φ0 e
  | .ite a b c, ψ => ∃ φa φb φc, Valid s.nodes a φa ∧ Valid s.nodes b φb ∧ Valid s.nodes c φc ∧ ψ = ITE φa φb φc
  | .and a b, ψ => ∃ φa φb, Valid s.nodes a φa ∧ Valid s.nodes b φb ∧ ψ = fun e => φa e && φb e
  | .or a b, ψ => ∃ φa φb, Valid s.nodes a φa ∧ Valid s.nodes b φb ∧ ψ = fun e => φa e || φb e
  | .xor a b, ψ => ∃ φa φb, Valid s.nodes a φa ∧ Valid s.nodes b φb ∧ ψ = fun e => φa e != φb e
  | .eq a b, ψ => ∃ φa φb, Valid s.nodes a φa ∧ Valid s.nodes b φb ∧ ψ = fun e => φa e == φb e
  | .imply a b, ψ => ∃ φa φb, Valid s.nodes a φa ∧ Valid s.nodes b φb ∧ ψ = fun e => !φa e || φb e
  | .andMany rs, ψ => ∃ φs : List Fn, rs.length = φs.length ∧
      (∀ i (h : i < rs.length) (h' : i < φs.length), Valid s.nodes rs[i] φs[i]) ∧ ψ = fun e => φs.all (fun φ => φ e)
  | .orMany rs, ψ => ∃ φs : List Fn, rs.length = φs.length ∧
      (∀ i (h : i < rs.length) (h' : i < φs.length), Valid s.nodes rs[i] φs[i]) ∧ ψ = fun e => φs.any (fun φ => φ e)
  | .cube lits, ψ => ψ = fun e => lits.all (litHolds e)
  | .clause lits, ψ => ψ = fun e => lits.any (litHolds e)
  | .subst f v b, ψ => ∃ φ, Valid s.nodes f φ ∧ ψ = cof φ v b
  | .substMulti f vals, ψ => ∃ φ, Valid s.nodes f φ ∧ ψ = FixVals φ vals
  | .cofCube f c, ψ => ∃ φ, Valid s.nodes f φ ∧ ψ = FixVals φ c
  | .compose f v g, ψ => ∃ φf φg, Valid s.nodes f φf ∧ Valid s.nodes g φg ∧ ψ = Comp φf v φg
  | .constrain f g, ψ => ∃ φf φg, Valid s.nodes f φf ∧ Valid s.nodes g φg ∧ ∀ x y, Closest φg x y → ψ x = φf y
  | .restrict f g, ψ => ∃ φf φg, Valid s.nodes f φf ∧ Valid s.nodes g φg ∧ RestrictRel φf φg ψ
  | .expr x, ψ => Expr.Sem s.nodes x ψ
  | _, _ => True

/-- **the reply of an accepted handle-producing request is live in the new state and denotes what the
property specifies**, and everything that was live stays live with its function (`Sub`) -/
theorem exec_handle_sem {fuel : Nat} {s s' : St} {r : Req} {h : Ref} (hg : Good s)
    (hx : exec fuel s r = .handle (.ok (s', h))) :
    Good s' ∧ Sub s.nodes s'.nodes ∧ ∃ ψ, Valid s'.nodes h ψ ∧ ReqSpec s r ψ := by
  unfold exec at hx
  by_cases hok : r.ok s = true
  · rw [if_pos hok] at hx
    cases r with
    | var v =>
      have e : mkVar s v = .ok (s', h) := by simpa [runReq] using hx
      obtain ⟨a, b, c⟩ := mkVar_spec hg e
      exact ⟨a, b, _, c, rfl⟩
    | node v lo hi =>
      have e : mkNode s v lo hi = .ok (s', h) := by simpa [runReq] using hx
      simp only [Req.ok, Bool.and_eq_true, Bool.or_eq_true, beq_iff_eq] at hok
      obtain ⟨⟨hlo, hhi⟩, hord⟩ := hok
      obtain ⟨φ0, v0⟩ := hg.valid_of_liveB hlo
      obtain ⟨φ1, v1⟩ := hg.valid_of_liveB hhi
      rcases hord with h0 | ⟨ha, hb⟩
      · subst h0; simp only [mkNode, if_true] at e; cases e
      · obtain ⟨a, b, _, c⟩ := mkNode_spec hg v0 v1 (aboveB_supp hg v0 ha) (aboveB_supp hg v1 hb) e
        exact ⟨a, b, _, c, φ0, φ1, v0, v1, rfl⟩
    | ite a b c =>
      have e : applyIte fuel s a b c = .ok (s', h) := by simpa [runReq] using hx
      simp only [Req.ok, Bool.and_eq_true] at hok
      obtain ⟨φa, va⟩ := hg.valid_of_liveB hok.1.1
      obtain ⟨φb, vb⟩ := hg.valid_of_liveB hok.1.2
      obtain ⟨φc, vc⟩ := hg.valid_of_liveB hok.2
      obtain ⟨x, y, z⟩ := applyIte_spec fuel s a b c φa φb φc s' h hg va vb vc e
      exact ⟨x, y, _, z, φa, φb, φc, va, vb, vc, rfl⟩
    | and a b =>
      have e : applyAnd fuel s a b = .ok (s', h) := by simpa [runReq] using hx
      simp only [Req.ok, Bool.and_eq_true] at hok
      obtain ⟨φa, va⟩ := hg.valid_of_liveB hok.1
      obtain ⟨φb, vb⟩ := hg.valid_of_liveB hok.2
      obtain ⟨x, y, z⟩ := applyAnd_spec hg va vb e
      exact ⟨x, y, _, z, φa, φb, va, vb, rfl⟩
    | or a b =>
      have e : applyOr fuel s a b = .ok (s', h) := by simpa [runReq] using hx
      simp only [Req.ok, Bool.and_eq_true] at hok
      obtain ⟨φa, va⟩ := hg.valid_of_liveB hok.1
      obtain ⟨φb, vb⟩ := hg.valid_of_liveB hok.2
      obtain ⟨x, y, z⟩ := applyOr_spec hg va vb e
      exact ⟨x, y, _, z, φa, φb, va, vb, rfl⟩
    | xor a b =>
      have e : applyXor fuel s a b = .ok (s', h) := by simpa [runReq] using hx
      simp only [Req.ok, Bool.and_eq_true] at hok
      obtain ⟨φa, va⟩ := hg.valid_of_liveB hok.1
      obtain ⟨φb, vb⟩ := hg.valid_of_liveB hok.2
      obtain ⟨x, y, z⟩ := applyXor_spec hg va vb e
      exact ⟨x, y, _, z, φa, φb, va, vb, rfl⟩
    | eq a b =>
      have e : applyEq fuel s a b = .ok (s', h) := by simpa [runReq] using hx
      simp only [Req.ok, Bool.and_eq_true] at hok
      obtain ⟨φa, va⟩ := hg.valid_of_liveB hok.1
      obtain ⟨φb, vb⟩ := hg.valid_of_liveB hok.2
      obtain ⟨x, y, z⟩ := applyEq_spec hg va vb e
      exact ⟨x, y, _, z, φa, φb, va, vb, rfl⟩
    | imply a b =>
      have e : applyImply fuel s a b = .ok (s', h) := by simpa [runReq] using hx
      simp only [Req.ok, Bool.and_eq_true] at hok
      obtain ⟨φa, va⟩ := hg.valid_of_liveB hok.1
      obtain ⟨φb, vb⟩ := hg.valid_of_liveB hok.2
      obtain ⟨x, y, z⟩ := applyImply_spec hg va vb e
      exact ⟨x, y, _, z, φa, φb, va, vb, rfl⟩
    | andMany rs =>
      have e : andMany fuel s Ref.one rs = .ok (s', h) := by simpa [runReq] using hx
      obtain ⟨φs, hl, hv⟩ := fns_of_live hg rs (by simpa only [Req.ok] using hok)
      obtain ⟨x, y, z⟩ := andMany_spec fuel rs φs s Ref.one _ s' h hg Valid.one hl hv e
      refine ⟨x, y, _, z, φs, hl, hv, ?_⟩
      funext e'; simp
    | orMany rs =>
      have e : orMany fuel s Ref.zero rs = .ok (s', h) := by simpa [runReq] using hx
      obtain ⟨φs, hl, hv⟩ := fns_of_live hg rs (by simpa only [Req.ok] using hok)
      obtain ⟨x, y, z⟩ := orMany_spec fuel rs φs s Ref.zero _ s' h hg Valid.zero hl hv e
      refine ⟨x, y, _, z, φs, hl, hv, ?_⟩
      funext e'; simp
    | cube lits =>
      have e : cube s lits = .ok (s', h) := by simpa [runReq] using hx
      have hnd : (lits.map (·.1)).Nodup := by simpa only [Req.ok, decide_eq_true_eq] using hok
      obtain ⟨x, y, z⟩ := cube_spec hg hnd e
      exact ⟨x, y, _, z, rfl⟩
    | clause lits =>
      have e : clause s lits = .ok (s', h) := by simpa [runReq] using hx
      have hnd : (lits.map (·.1)).Nodup := by simpa only [Req.ok, decide_eq_true_eq] using hok
      obtain ⟨x, y, z⟩ := clause_spec hg hnd e
      exact ⟨x, y, _, z, rfl⟩
    | subst f v b =>
      have e : dropMemo (substitute fuel s f v b []) = .ok (s', h) := by simpa [runReq] using hx
      obtain ⟨m, e'⟩ := dropMemo_ok e
      obtain ⟨φ, vf⟩ := hg.valid_of_liveB (by simpa only [Req.ok] using hok)
      obtain ⟨x, y, z⟩ := substitute_top hg vf e'
      exact ⟨x, y, _, z, φ, vf, rfl⟩
    | substMulti f vals =>
      have e : dropMemo (substMulti fuel s f vals []) = .ok (s', h) := by simpa [runReq] using hx
      obtain ⟨m, e'⟩ := dropMemo_ok e
      obtain ⟨φ, vf⟩ := hg.valid_of_liveB (by simpa only [Req.ok] using hok)
      obtain ⟨x, y, z⟩ := substMulti_top hg vf e'
      exact ⟨x, y, _, z, φ, vf, rfl⟩
    | cofCube f c =>
      have e : dropMemo (cofCube fuel s f c []) = .ok (s', h) := by simpa [runReq] using hx
      obtain ⟨m, e'⟩ := dropMemo_ok e
      simp only [Req.ok, Bool.and_eq_true, decide_eq_true_eq] at hok
      obtain ⟨φ, vf⟩ := hg.valid_of_liveB hok.1
      obtain ⟨x, y, z⟩ := cofCube_top hg vf hok.2 e'
      exact ⟨x, y, _, z, φ, vf, rfl⟩
    | compose f v g =>
      have e : composeTop fuel s f v g = .ok (s', h) := by simpa [runReq] using hx
      simp only [Req.ok, Bool.and_eq_true] at hok
      obtain ⟨φf, vf⟩ := hg.valid_of_liveB hok.1
      obtain ⟨φg, vg⟩ := hg.valid_of_liveB hok.2
      obtain ⟨x, y, z⟩ := composeTop_spec hg vf vg e
      exact ⟨x, y, _, z, φf, φg, vf, vg, rfl⟩
    | constrain f g =>
      have e : constrain fuel s f g = .ok (s', h) := by simpa [runReq] using hx
      simp only [Req.ok, Bool.and_eq_true] at hok
      obtain ⟨φf, vf⟩ := hg.valid_of_liveB hok.1
      obtain ⟨φg, vg⟩ := hg.valid_of_liveB hok.2
      obtain ⟨x, y, hfn, z, w⟩ := constrain_spec fuel s f g φf φg s' h hg vf vg e
      exact ⟨x, y, hfn, z, φf, φg, vf, vg, w.1⟩
    | restrict f g =>
      have e : restrict fuel s f g = .ok (s', h) := by simpa [runReq] using hx
      simp only [Req.ok, Bool.and_eq_true] at hok
      obtain ⟨φf, vf⟩ := hg.valid_of_liveB hok.1
      obtain ⟨φg, vg⟩ := hg.valid_of_liveB hok.2
      obtain ⟨x, y, hfn, z, w⟩ := restrict_spec fuel s f g φf φg s' h hg vf vg e
      exact ⟨x, y, hfn, z, φf, φg, vf, vg, w⟩
    | expr x =>
      have e : x.eval fuel s = .ok (s', h) := by simpa [runReq] using hx
      obtain ⟨φ, hs⟩ := termsLive_sem hg x (by simpa only [Req.ok] using hok)
      obtain ⟨a, b, c⟩ := Expr.eval_spec fuel x s φ s' h hg hs e
      exact ⟨a, b, φ, c, hs⟩
    | itec a b c => simp [runReq] at hx
    | implies a b => simp [runReq] at hx
    | size f => simp [runReq] at hx
    | gc roots => simp [runReq] at hx
    | heldgc w roots => simp [runReq] at hx
  · rw [if_neg hok] at hx; cases hx

/-- the constant test through the dispatcher: `Some(b)` exactly when the ITE of the functions the three
handles denote is the constant `b`; the node table, the size memo and every operation-cache answer are
what they were -/
theorem exec_itec_sem {fuel : Nat} {s s' : St} {a b c : Ref} {o : Option Bool} (hg : Good s)
    (hx : exec fuel s (.itec a b c) = .optBool (.ok (s', o))) :
    ∃ φa φb φc, Valid s.nodes a φa ∧ Valid s.nodes b φb ∧ Valid s.nodes c φc ∧
      (∀ v, o = some v ↔ ITE φa φb φc = fun _ => v) ∧ s'.storage = s.storage ∧ s'.sizeCache = s.sizeCache ∧
      ∀ k, s'.cache.lookup k = s.cache.lookup k := by
  unfold exec at hx
  by_cases hok : (Req.itec a b c).ok s = true
  · rw [if_pos hok] at hx
    have e : iteConstant fuel s a b c = .ok (s', o) := by simpa [runReq] using hx
    simp only [Req.ok, Bool.and_eq_true] at hok
    obtain ⟨φa, va⟩ := hg.valid_of_liveB hok.1.1
    obtain ⟨φb, vb⟩ := hg.valid_of_liveB hok.1.2
    obtain ⟨φc, vc⟩ := hg.valid_of_liveB hok.2
    exact ⟨φa, φb, φc, va, vb, vc, iteConstant_spec hg va vb vc e⟩
  · rw [if_neg hok] at hx; cases hx

/-- the implication test through the dispatcher -/
theorem exec_implies_sem {fuel : Nat} {s s' : St} {a b : Ref} {o : Bool} (hg : Good s)
    (hx : exec fuel s (.implies a b) = .bool (.ok (s', o))) :
    ∃ φa φb, Valid s.nodes a φa ∧ Valid s.nodes b φb ∧
      (o = true ↔ ∀ e, φa e = true → φb e = true) ∧ s'.storage = s.storage ∧ s'.sizeCache = s.sizeCache ∧
      ∀ k, s'.cache.lookup k = s.cache.lookup k := by
  unfold exec at hx
  by_cases hok : (Req.implies a b).ok s = true
  · rw [if_pos hok] at hx
    have e : isImplies fuel s a b = .ok (s', o) := by simpa [runReq] using hx
    simp only [Req.ok, Bool.and_eq_true] at hok
    obtain ⟨φa, va⟩ := hg.valid_of_liveB hok.1
    obtain ⟨φb, vb⟩ := hg.valid_of_liveB hok.2
    exact ⟨φa, φb, va, vb, isImplies_spec hg va vb e⟩
  · rw [if_neg hok] at hx; cases hx

end P
#print axioms P.exec_handle_sem
#print axioms P.exec_itec_sem
#print axioms P.exec_implies_sem

import BddProofs.Store
import BddModel.Driver
/-! Liveness is occupancy: in a good state every stored node has a denotation, so a handle whose cell is
occupied (what the driver checks before it runs an operation) is a live handle in the sense of the
property theorems (`Valid`). -/
namespace P
open Arr

/-- the variables of the stored nodes are bounded (the table is finite) -/
theorem exists_var_bound (s : St) : ∃ V, ∀ i n, s.nodes i = some n → n.var ≤ V := by
  have key : ∀ N, ∃ V, ∀ i, i < N → (s.node i).var ≤ V := by
    intro N
    induction N with
    | zero => exact ⟨0, fun i hi => by omega⟩
    | succ N ih =>
      obtain ⟨V, hV⟩ := ih
      refine ⟨max V (s.node N).var, fun i hi => ?_⟩
      by_cases e : i = N
      · subst e; exact Nat.le_max_right _ _
      · exact Nat.le_trans (hV i (by omega)) (Nat.le_max_left _ _)
  obtain ⟨V, hV⟩ := key s.storage.vals.size
  refine ⟨V, fun i n h => ?_⟩
  obtain ⟨h2, ho, hv⟩ := St.nodes_some h
  by_cases hlt : i < s.storage.vals.size
  · have := hV i hlt
    show n.var ≤ V
    rw [← hv]; exact this
  · -- an out-of-range read gives the default node, whose variable is 0
    have : rd s.storage.vals i = default := by
      simp only [rd, Array.getD_eq_getD_getElem?]
      have : s.storage.vals.size ≤ i := by omega
      simp [this]
    rw [this] at hv
    rw [← hv]; exact Nat.zero_le _

/-- **every stored node denotes a function** -/
theorem Good.valid_of_stored {s : St} (hg : Good s) : ∀ i n, s.nodes i = some n →
    ∃ φ, Valid s.nodes ⟨i, false⟩ φ := by
  obtain ⟨V, hV⟩ := exists_var_bound s
  have key : ∀ k i n, s.nodes i = some n → V + 1 - n.var ≤ k → ∃ φ, Valid s.nodes ⟨i, false⟩ φ := by
    intro k
    induction k with
    | zero => intro i n hn hk; have := hV i n hn; omega
    | succ k ih =>
      intro i n hn hk
      have child : ∀ c : Ref, TopGe s.nodes c (n.var + 1) → ∃ ψ, Valid s.nodes c ψ := by
        intro c hc
        have base : ∃ ψ, Valid s.nodes ⟨c.idx, false⟩ ψ := by
          rcases hc with h1 | ⟨m, hm, hvm⟩
          · rw [h1]; exact ⟨_, Valid.one⟩
          · exact ih c.idx m hm (by have := hV _ _ hm; omega)
        obtain ⟨ψ, vψ⟩ := base
        cases c with
        | mk j b =>
          cases b with
          | false => exact ⟨ψ, vψ⟩
          | true => exact ⟨_, vψ.not⟩
      obtain ⟨φ0, d0, h0⟩ := child n.low (hg.inv.ordLow i n hn)
      obtain ⟨φ1, d1, h1⟩ := child n.high (hg.inv.ordHigh i n hn)
      exact ⟨_, _, .node hn h0 h1⟩
  intro i n hn
  exact key _ i n hn (Nat.le_refl _)

/-- **liveness is occupancy**: a handle that passes the driver's check has a denotation -/
theorem Good.valid_of_liveB {s : St} (hg : Good s) {r : Ref} (h : liveB s r = true) : ∃ φ, Valid s.nodes r φ := by
  simp only [liveB, Bool.and_eq_true, bne_iff_ne, ne_eq] at h
  obtain ⟨h0, ho⟩ := h
  have base : ∃ ψ, Valid s.nodes ⟨r.idx, false⟩ ψ := by
    by_cases h1 : r.idx = 1
    · rw [h1]; exact ⟨_, Valid.one⟩
    · have hn : s.nodes r.idx = some (rd s.storage.vals r.idx) := by
        unfold St.nodes
        rw [if_pos ⟨by omega, ho⟩]
      exact hg.valid_of_stored _ _ hn
  obtain ⟨ψ, vψ⟩ := base
  cases r with
  | mk j b =>
    cases b with
    | false => exact ⟨ψ, vψ⟩
    | true => exact ⟨_, vψ.not⟩

end P

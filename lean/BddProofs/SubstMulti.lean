import BddProofs.Subst
/-! C08: `substitute_multi` fixes the variables of the value map and nothing else. -/
namespace P
open Arr

/-- the assignment `e` overridden by `vals` -/
def ovr (vals : Vals) (e : Env) : Env := fun w => match vals.lookup w with | some b => b | none => e w

/-- `f` with the variables in `vals` fixed -/
def FixVals (φ : Fn) (vals : Vals) : Fn := fun e => φ (ovr vals e)

def MMemoOk (nd : Nodes) (vals : Vals) (memo : SMemo) : Prop :=
  ∀ f r, memo.lookup f = some r → ∃ φ, Valid nd f φ ∧ Valid nd r (FixVals φ vals)

theorem MMemoOk.mono {nd nd' vals memo} (hs : Sub nd nd') (h : MMemoOk nd vals memo) : MMemoOk nd' vals memo := by
  intro f r hl; obtain ⟨φ, x, y⟩ := h f r hl; exact ⟨φ, x.mono hs, y.mono hs⟩

theorem MMemoOk.cons {nd vals memo f r φ} (h : MMemoOk nd vals memo) (vf : Valid nd f φ)
    (vr : Valid nd r (FixVals φ vals)) : MMemoOk nd vals ((f, r) :: memo) := by
  intro f' r' hl
  simp only [List.lookup] at hl
  by_cases hk : f' = f
  · subst hk; simp at hl; subst hl; exact ⟨φ, vf, vr⟩
  · have : (f' == f) = false := by simpa using hk
    simp only [this] at hl; exact h f' r' hl

theorem SuppGe.fixVals {φ : Fn} {m : Nat} (h : SuppGe φ m) (vals : Vals) : SuppGe (FixVals φ vals) m := by
  intro e e' hee
  apply h; intro w hw
  simp only [ovr]; split
  · rfl
  · exact hee w hw

theorem fixVals_const (b : Bool) (vals : Vals) : FixVals (fun _ => b) vals = fun _ => b := rfl

theorem fixVals_node (φ0 φ1 : Fn) (v : Nat) (vals : Vals) :
    FixVals (fun e => if e v then φ1 e else φ0 e) vals =
      match vals.lookup v with
      | some b => FixVals (if b then φ1 else φ0) vals
      | none => fun e => if e v then FixVals φ1 vals e else FixVals φ0 vals e := by
  funext e
  simp only [FixVals]
  cases hl : vals.lookup v with
  | some b => simp only [ovr, hl]; cases b <;> simp [FixVals]
  | none => simp only [ovr, hl]

theorem substMulti_spec (vals : Vals) : ∀ fuel s f φ memo s' r memo' d, Good s →
    Den s.nodes d f φ → MMemoOk s.nodes vals memo →
    substMulti fuel s f vals memo = .ok (s', r, memo') →
    Good s' ∧ Sub s.nodes s'.nodes ∧ Valid s'.nodes r (FixVals φ vals) ∧ MMemoOk s'.nodes vals memo' := by
  intro fuel
  induction fuel with
  | zero => intro s f φ memo s' r memo' d _ _ _ hres; simp [substMulti] at hres
  | succ fuel ih =>
    intro s f φ memo s' r memo' d hg hden hm hres
    have h1 := hg.inv.noterm
    have vf : Valid s.nodes f φ := ⟨d, hden⟩
    have triv : ∀ {x}, Valid s.nodes x (FixVals φ vals) →
        (.ok (s, x, memo) : Res (St × Ref × SMemo)) = .ok (s', r, memo') →
        Good s' ∧ Sub s.nodes s'.nodes ∧ Valid s'.nodes r (FixVals φ vals) ∧ MMemoOk s'.nodes vals memo' := by
      intro x vx heq
      simp only [Except.ok.injEq, Prod.mk.injEq] at heq
      obtain ⟨rfl, rfl, rfl⟩ := heq
      exact ⟨hg, fun _ _ x => x, vx, hm⟩
    unfold substMulti at hres
    by_cases ct : isTerminal f = true
    · rw [if_pos ct] at hres
      refine triv ?_ hres
      simp only [isTerminal, Bool.or_eq_true] at ct
      rcases ct with c | c
      · have := one_fn h1 c vf; subst this; rw [fixVals_const]; exact vf
      · have := zero_fn h1 c vf; subst this; rw [fixVals_const]; exact vf
    rw [if_neg ct] at hres
    have hfnt : isTerminal f = false := by simpa using ct
    by_cases he : vals.isEmpty = true
    · rw [if_pos he] at hres
      refine triv ?_ hres
      have : vals = [] := by simpa using he
      subst this
      have : FixVals φ [] = φ := by
        funext e; simp only [FixVals]; congr 1
      rw [this]; exact vf
    rw [if_neg he] at hres
    cases hl : memo.lookup f with
    | some res =>
      simp only [hl] at hres
      obtain ⟨ψ, vψ, vr⟩ := hm f res hl
      have := vf.det h1 vψ; subst this
      exact triv vr hres
    | none =>
    simp only [hl] at hres
    obtain ⟨hvar0, d0, d1, φ0, φ1, hd0, hd1, vlo, vhi, hφ, s0, s1⟩ := hden.split hg hfnt
    have hnode := fixVals_node φ0 φ1 (s.var f) vals
    cases hv : vals.lookup (s.var f) with
    | some b =>
      simp only [hv] at hres hnode
      cases b with
      | true =>
        simp only [↓reduceIte] at hres hnode
        cases e1 : substMulti fuel s (s.highNode f) vals memo with
        | error e => simp [e1] at hres
        | ok p1 =>
          obtain ⟨s1', res, memo1⟩ := p1
          simp only [e1, Except.ok.injEq, Prod.mk.injEq] at hres
          obtain ⟨rfl, rfl, rfl⟩ := hres
          obtain ⟨g1, sub1, vres, hm1⟩ := ih _ _ _ _ _ _ _ _ hg vhi hm e1
          have vres' : Valid s1'.nodes res (FixVals φ vals) := by rw [hφ, hnode]; exact vres
          exact ⟨g1, sub1, vres', hm1.cons (vf.mono sub1) vres'⟩
      | false =>
        simp only [Bool.false_eq_true, ↓reduceIte] at hres hnode
        cases e1 : substMulti fuel s (s.lowNode f) vals memo with
        | error e => simp [e1] at hres
        | ok p1 =>
          obtain ⟨s1', res, memo1⟩ := p1
          simp only [e1, Except.ok.injEq, Prod.mk.injEq] at hres
          obtain ⟨rfl, rfl, rfl⟩ := hres
          obtain ⟨g1, sub1, vres, hm1⟩ := ih _ _ _ _ _ _ _ _ hg vlo hm e1
          have vres' : Valid s1'.nodes res (FixVals φ vals) := by rw [hφ, hnode]; exact vres
          exact ⟨g1, sub1, vres', hm1.cons (vf.mono sub1) vres'⟩
    | none =>
      simp only [hv] at hres hnode
      cases e1 : substMulti fuel s (s.lowNode f) vals memo with
      | error e => simp [e1] at hres
      | ok p1 =>
      obtain ⟨s1', low, memo1⟩ := p1
      simp only [e1] at hres
      obtain ⟨g1', sub1, vlow, hm1⟩ := ih _ _ _ _ _ _ _ _ hg vlo hm e1
      obtain ⟨nf, hnf, -, -⟩ := nonterm_stored hg vf hfnt
      rw [St.highNode_mono hnf sub1] at hres
      cases e2 : substMulti fuel s1' (s.highNode f) vals memo1 with
      | error e => simp [e2] at hres
      | ok p2 =>
      obtain ⟨s2, high, memo2⟩ := p2
      simp only [e2] at hres
      obtain ⟨g2', sub2, vhigh, hm2⟩ := ih _ _ _ _ _ _ _ _ g1' (vhi.mono sub1) hm1 e2
      cases e3 : mkNode s2 (s.var f) low high with
      | error e => simp [e3] at hres
      | ok p3 =>
      obtain ⟨s3, res⟩ := p3
      simp only [e3, Except.ok.injEq, Prod.mk.injEq] at hres
      obtain ⟨rfl, rfl, rfl⟩ := hres
      obtain ⟨g3', sub3, _, vres⟩ := mkNode_spec g2' (vlow.mono sub2) vhigh (s0.fixVals vals) (s1.fixVals vals) e3
      have sub03 : Sub s.nodes s3.nodes := fun i n x => sub3 _ _ (sub2 _ _ (sub1 _ _ x))
      have vres' : Valid s3.nodes res (FixVals φ vals) := by rw [hφ, hnode]; exact vres
      exact ⟨g3', sub03, vres', (hm2.mono sub3).cons (vf.mono sub03) vres'⟩

#print axioms substMulti_spec
end P

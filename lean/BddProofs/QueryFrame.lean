import BddProofs.PathsIter
import BddProofs.SizeGc
/-! FRAME theorems for the read-only queries (`paths`, `one_sat`, `sat_count`, `to_bracket_string`,
`descendants`, `to_dot`): a query on `f` reads nothing but the cells reachable from `f`.

In the Rust library `paths` is a *lazy* iterator; other operations may run between two `next()`
calls.  The harness models it as an eager snapshot taken when the iterator is opened.  That is
justified by what is proved here:

* `AgreeOn s s' S` — `S` is closed under the raw children of its non-terminal members (in `s`) and
  `s'` has the same cell value as `s` at every non-terminal member; `AgreeBelow s s' f` is the
  instance `S = RawReach s f.idx` (the raw cells reachable from `f`, the terminal never expanded).
  No invariant is assumed: the handle may even be garbage.
* `pathsIter_frame` (any stack inside `S`, same fuel on both sides), `paths_frame`, `pathsRec_frame`,
  `oneSat_frame`, `satCountRec_frame`/`satCount_frame`, `nodeToStr_frame`/`toBracketString_frame`,
  `bfs_frame`, and for good states `descendants_frame`, `toDot_frame`, `renderDot_frame`.
* the hypothesis holds where it matters: `agreeBelow_of_sub` (every operation that only adds nodes:
  all of them establish `Sub s.nodes s'.nodes`, also on failure, see `ErrGood.lean`), with the
  instances `put_agreeBelow`, `mkNode_agreeBelow`; `collect_agreeBelow` (garbage collection with
  `f` reachable from the roots: the cells below `f` stay *occupied* with their values, so later
  insertions cannot reuse them).
* `FrameSteps f s s'`: any history of such steps; `steps_frame`, `paths_steps`, `oneSat_steps`.
* the lazy iterator itself: `pathsStep` is one turn of the loop of `BddPaths::next`
  (`pathsIter_step`); `pathsLazy fuel s ts p` advances once in each manager state of `ts` and then
  drains in `s`; `pathsLazy_frame`/`paths_lazy_snapshot`: the cubes produced are those of the eager
  `paths` in the state in which the iterator was opened. -/
namespace P
open Arr

/-! ## agreement on a children-closed set of cells -/

/-- `S` is closed under taking the raw children of its non-terminal members in `s`, and `s'` holds
the same node as `s` in every non-terminal cell of `S` -/
structure AgreeOn (s s' : St) (S : Nat → Prop) : Prop where
  closed : ∀ i, S i → i ≠ 1 → S (s.low i).idx ∧ S (s.high i).idx
  agree : ∀ i, S i → i ≠ 1 → s'.node i = s.node i

/-- a handle that is neither constant does not point at the terminal cell -/
theorem idx_ne_one {r : Ref} (hz : ¬ isZero r = true) (ho : ¬ isOne r = true) : r.idx ≠ 1 := by
  intro e
  rcases r with ⟨i, b⟩
  simp only at e
  subst e
  cases b
  · exact ho (by decide)
  · exact hz (by decide)

namespace AgreeOn
variable {s s' : St} {S : Nat → Prop}

theorem refl_of_closed (hc : ∀ i, S i → i ≠ 1 → S (s.low i).idx ∧ S (s.high i).idx) : AgreeOn s s S :=
  ⟨hc, fun _ _ _ => rfl⟩

theorem low (h : AgreeOn s s' S) {i : Nat} (hi : S i) (h1 : i ≠ 1) : s'.low i = s.low i := by
  simp only [St.low, h.agree i hi h1]
theorem high (h : AgreeOn s s' S) {i : Nat} (hi : S i) (h1 : i ≠ 1) : s'.high i = s.high i := by
  simp only [St.high, h.agree i hi h1]
theorem var (h : AgreeOn s s' S) {r : Ref} (hr : S r.idx) (h1 : r.idx ≠ 1) : s'.var r = s.var r := by
  simp only [St.var, h.agree _ hr h1]
theorem lowNode (h : AgreeOn s s' S) {r : Ref} (hr : S r.idx) (h1 : r.idx ≠ 1) :
    s'.lowNode r = s.lowNode r := by
  simp only [St.lowNode, h.low hr h1]
theorem highNode (h : AgreeOn s s' S) {r : Ref} (hr : S r.idx) (h1 : r.idx ≠ 1) :
    s'.highNode r = s.highNode r := by
  simp only [St.highNode, h.high hr h1]
theorem lowNode_mem (h : AgreeOn s s' S) {r : Ref} (hr : S r.idx) (h1 : r.idx ≠ 1) :
    S (s.lowNode r).idx := by
  rw [lowNode_idx]; exact (h.closed _ hr h1).1
theorem highNode_mem (h : AgreeOn s s' S) {r : Ref} (hr : S r.idx) (h1 : r.idx ≠ 1) :
    S (s.highNode r).idx := by
  rw [highNode_idx]; exact (h.closed _ hr h1).2

/-- the closed set and the agreement can be read in the other state as well -/
theorem symm (h : AgreeOn s s' S) : AgreeOn s' s S :=
  ⟨fun i hi h1 => by rw [h.low hi h1, h.high hi h1]; exact h.closed i hi h1,
   fun i hi h1 => (h.agree i hi h1).symm⟩

theorem trans {s'' : St} (h : AgreeOn s s' S) (h' : AgreeOn s' s'' S) : AgreeOn s s'' S :=
  ⟨h.closed, fun i hi h1 => (h'.agree i hi h1).trans (h.agree i hi h1)⟩

end AgreeOn

/-! ## `paths` -/

/-- **frame, stack version**: every handle on the stack lies in the closed set; same fuel -/
theorem pathsIter_frame {s s' : St} {S : Nat → Prop} (h : AgreeOn s s' S) :
    ∀ (fuel : Nat) (stack : List (Ref × List Int)) (acc : List (List Int)),
    (∀ p, p ∈ stack → S p.1.idx) → pathsIter fuel s' stack acc = pathsIter fuel s stack acc := by
  intro fuel
  induction fuel with
  | zero => intro stack acc _; rfl
  | succ n ih =>
    intro stack acc hs
    cases stack with
    | nil => rfl
    | cons p rest =>
      obtain ⟨r, pre⟩ := p
      have hrest : ∀ p, p ∈ rest → S p.1.idx := fun p hp => hs p (List.mem_cons_of_mem _ hp)
      have hr : S r.idx := hs (r, pre) List.mem_cons_self
      simp only [pathsIter]
      by_cases hz : isZero r = true
      · rw [if_pos hz, if_pos hz]; exact ih rest acc hrest
      · rw [if_neg hz, if_neg hz]
        by_cases ho : isOne r = true
        · rw [if_pos ho, if_pos ho]; exact ih rest (pre :: acc) hrest
        · rw [if_neg ho, if_neg ho]
          have h1 := idx_ne_one hz ho
          rw [h.var hr h1, h.lowNode hr h1, h.highNode hr h1]
          apply ih
          intro p hp
          rcases List.mem_cons.mp hp with e | hp
          · subst e; exact h.lowNode_mem hr h1
          · rcases List.mem_cons.mp hp with e | hp
            · subst e; exact h.highNode_mem hr h1
            · exact hrest p hp

theorem paths_frame_on {s s' : St} {S : Nat → Prop} (h : AgreeOn s s' S) {f : Ref} (hf : S f.idx)
    (fuel : Nat) : paths fuel s' f = paths fuel s f :=
  pathsIter_frame h fuel [(f, [])] [] (fun p hp => by
    simp only [List.mem_singleton] at hp; subst hp; exact hf)

/-- the recursive enumeration (`pathsRec`, used by the specification of `paths`) -/
theorem pathsRec_frame_on {s s' : St} {S : Nat → Prop} (h : AgreeOn s s' S) :
    ∀ (fuel : Nat) (r : Ref) (pre : List Int), S r.idx →
    pathsRec fuel s' r pre = pathsRec fuel s r pre := by
  intro fuel
  induction fuel with
  | zero => intro r pre _; rfl
  | succ n ih =>
    intro r pre hr
    simp only [pathsRec]
    by_cases hz : isZero r = true
    · rw [if_pos hz, if_pos hz]
    · rw [if_neg hz, if_neg hz]
      by_cases ho : isOne r = true
      · rw [if_pos ho, if_pos ho]
      · rw [if_neg ho, if_neg ho]
        have h1 := idx_ne_one hz ho
        rw [h.var hr h1, h.lowNode hr h1, h.highNode hr h1,
          ih _ _ (h.lowNode_mem hr h1), ih _ _ (h.highNode_mem hr h1)]

/-! ## `one_sat` -/

theorem oneSat_frame_on {s s' : St} {S : Nat → Prop} (h : AgreeOn s s' S) :
    ∀ (fuel : Nat) (r : Ref) (acc : List Int), S r.idx →
    oneSat fuel s' r acc = oneSat fuel s r acc := by
  intro fuel
  induction fuel with
  | zero => intro r acc _; rfl
  | succ n ih =>
    intro r acc hr
    simp only [oneSat]
    by_cases hz : isZero r = true
    · rw [if_pos hz, if_pos hz]
    · rw [if_neg hz, if_neg hz]
      by_cases ho : isOne r = true
      · rw [if_pos ho, if_pos ho]
      · rw [if_neg ho, if_neg ho]
        have h1 := idx_ne_one hz ho
        rw [h.var hr h1, h.lowNode hr h1, h.highNode hr h1,
          ih _ _ (h.highNode_mem hr h1), ih _ _ (h.lowNode_mem hr h1)]

/-! ## `sat_count` -/

theorem satCountRec_frame_on {s s' : St} {S : Nat → Prop} (h : AgreeOn s s' S) :
    ∀ (fuel mx : Nat) (r : Ref) (memo : CMemo), S r.idx →
    satCountRec fuel s' mx r memo = satCountRec fuel s mx r memo := by
  intro fuel
  induction fuel with
  | zero => intro mx r memo _; rfl
  | succ n ih =>
    intro mx r memo hr
    simp only [satCountRec]
    by_cases hz : isZero r = true
    · rw [if_pos hz, if_pos hz]
    · rw [if_neg hz, if_neg hz]
      by_cases ho : isOne r = true
      · rw [if_pos ho, if_pos ho]
      · rw [if_neg ho, if_neg ho]
        have h1 := idx_ne_one hz ho
        obtain ⟨cl, ch⟩ := h.closed _ hr h1
        rw [h.low hr h1, h.high hr h1]
        cases memo.lookup r with
        | some c => rfl
        | none =>
          simp only
          rw [ih mx _ memo cl]
          cases satCountRec n s mx (s.low r.idx) memo with
          | error e => rfl
          | ok p =>
            obtain ⟨c0, memo1⟩ := p
            simp only
            rw [ih mx _ memo1 ch]

theorem satCount_frame_on {s s' : St} {S : Nat → Prop} (h : AgreeOn s s' S) {f : Ref} (hf : S f.idx)
    (fuel numVars : Nat) : satCount fuel s' f numVars = satCount fuel s f numVars := by
  unfold satCount
  rw [satCountRec_frame_on h fuel _ f [] hf]

/-! ## `to_bracket_string` -/

theorem nodeToStr_frame_on {s s' : St} {S : Nat → Prop} (h : AgreeOn s s' S) :
    ∀ (fuel : Nat) (r : Ref) (vis : List Nat), S r.idx →
    nodeToStr fuel s' r vis = nodeToStr fuel s r vis := by
  intro fuel
  induction fuel with
  | zero => intro r vis _; rfl
  | succ n ih =>
    intro r vis hr
    simp only [nodeToStr]
    by_cases hz : isZero r = true
    · rw [if_pos hz, if_pos hz]
    · rw [if_neg hz, if_neg hz]
      by_cases ho : isOne r = true
      · rw [if_pos ho, if_pos ho]
      · rw [if_neg ho, if_neg ho]
        have h1 := idx_ne_one hz ho
        obtain ⟨cl, ch⟩ := h.closed _ hr h1
        by_cases hv : vis.contains r.idx = true
        · rw [if_pos hv, if_pos hv]
        · rw [if_neg hv, if_neg hv]
          rw [h.var hr h1, h.low hr h1, h.high hr h1, ih _ _ ch, ih _ _ cl]

theorem toBracketString_frame_on {s s' : St} {S : Nat → Prop} (h : AgreeOn s s' S) {f : Ref}
    (hf : S f.idx) (fuel : Nat) : toBracketString fuel s' f = toBracketString fuel s f := by
  unfold toBracketString
  rw [nodeToStr_frame_on h fuel f [] hf]

/-! ## `descendants`, `to_dot` -/

/-- the specification walk: the queue lies in `S`, and the terminal is already visited (it always
is: `descendants` starts with `visited = {1}`), so it is never expanded -/
theorem bfs_frame {s s' : St} {S : Nat → Prop} (h : AgreeOn s s' S) :
    ∀ (fuel : Nat) (q vis : List Nat), (∀ i, i ∈ q → S i) → 1 ∈ vis →
    bfs s' fuel q vis = bfs s fuel q vis := by
  intro fuel
  induction fuel with
  | zero => intro q vis _ _; rfl
  | succ n ih =>
    intro q vis hq hv
    cases q with
    | nil => rfl
    | cons i q =>
      simp only [bfs]
      have hq' : ∀ j, j ∈ q → S j := fun j hj => hq j (List.mem_cons_of_mem _ hj)
      by_cases hc : vis.contains i = true
      · rw [if_pos hc, if_pos hc]; exact ih q vis hq' hv
      · rw [if_neg hc, if_neg hc]
        have hi : S i := hq i List.mem_cons_self
        have h1 : i ≠ 1 := by
          intro e; subst e; exact hc (by simpa using hv)
        obtain ⟨cl, ch⟩ := h.closed i hi h1
        rw [h.low hi h1, h.high hi h1]
        apply ih _ _ _ (List.mem_cons_of_mem _ hv)
        intro j hj
        rcases List.mem_append.mp hj with e | e
        · exact hq' j e
        · simp only [List.mem_cons, List.not_mem_nil, or_false] at e
          rcases e with e | e
          · exact e ▸ cl
          · exact e ▸ ch

/-- everything the walk visits is the terminal or lies in `S` -/
theorem bfs_subset {s : St} {S : Nat → Prop}
    (hc : ∀ i, S i → i ≠ 1 → S (s.low i).idx ∧ S (s.high i).idx) :
    ∀ (fuel : Nat) (q vis : List Nat), (∀ i, i ∈ q → S i) → (∀ i, i ∈ vis → i = 1 ∨ S i) → 1 ∈ vis →
    ∀ i, i ∈ bfs s fuel q vis → i = 1 ∨ S i := by
  intro fuel
  induction fuel with
  | zero => intro q vis _ hv _ i hi; exact hv i hi
  | succ n ih =>
    intro q vis hq hv h1v i hi
    cases q with
    | nil => exact hv i hi
    | cons j q =>
      simp only [bfs] at hi
      have hq' : ∀ k, k ∈ q → S k := fun k hk => hq k (List.mem_cons_of_mem _ hk)
      by_cases hcn : vis.contains j = true
      · rw [if_pos hcn] at hi; exact ih q vis hq' hv h1v i hi
      · rw [if_neg hcn] at hi
        have hj : S j := hq j List.mem_cons_self
        have h1 : j ≠ 1 := by
          intro e; subst e; exact hcn (by simpa using h1v)
        obtain ⟨cl, ch⟩ := hc j hj h1
        refine ih _ _ ?_ ?_ (List.mem_cons_of_mem _ h1v) i hi
        · intro k hk
          rcases List.mem_append.mp hk with e | e
          · exact hq' k e
          · simp only [List.mem_cons, List.not_mem_nil, or_false] at e
            rcases e with e | e
            · exact e ▸ cl
            · exact e ▸ ch
        · intro k hk
          rcases List.mem_cons.mp hk with e | e
          · exact Or.inr (e ▸ hj)
          · exact hv k e

/-- the real `descendants` (good states: its fuel and its mark array depend on the capacity, which
is harmless once both walks are known to run their queue empty) -/
theorem descendants_frame_on {s s' : St} {S : Nat → Prop} (h : AgreeOn s s' S) (hg : Good s)
    (hg' : Good s') (roots : List Ref) (hlive : ∀ r, r ∈ roots → Live s r.idx)
    (hlive' : ∀ r, r ∈ roots → Live s' r.idx) (hr : ∀ r, r ∈ roots → S r.idx) :
    descendants s' roots = descendants s roots := by
  rw [descendants_eq_bfs_of_le hg' roots hlive' (m := 2 * s.next + 2 * s'.next + roots.length + 1) (by omega),
    descendants_eq_bfs_of_le hg roots hlive (m := 2 * s.next + 2 * s'.next + roots.length + 1) (by omega)]
  refine bfs_frame h _ _ _ ?_ (by simp)
  intro i hi
  obtain ⟨r, hrm, rfl⟩ := List.mem_map.mp hi
  exact hr r hrm

theorem descendants_subset {s : St} {S : Nat → Prop}
    (hc : ∀ i, S i → i ≠ 1 → S (s.low i).idx ∧ S (s.high i).idx) (hg : Good s)
    (roots : List Ref) (hlive : ∀ r, r ∈ roots → Live s r.idx) (hr : ∀ r, r ∈ roots → S r.idx) :
    ∀ i, i ∈ descendants s roots → i = 1 ∨ S i := by
  rw [descendants_eq_bfs hg roots hlive]
  refine bfs_subset hc _ _ _ ?_ ?_ (by simp)
  · intro i hi
    obtain ⟨r, hrm, rfl⟩ := List.mem_map.mp hi
    exact hr r hrm
  · intro i hi
    simp only [List.mem_singleton] at hi
    exact Or.inl hi

theorem dotNode_frame_on {s s' : St} {S : Nat → Prop} (h : AgreeOn s s' S) {i : Nat} (hi : S i)
    (h1 : i ≠ 1) : dotNode s' i = dotNode s i := by
  have hv : s'.var ⟨i, false⟩ = s.var ⟨i, false⟩ := h.var (r := ⟨i, false⟩) hi h1
  simp only [dotNode, h.low hi h1, h.high hi h1, hv]

theorem toDot_frame_on {s s' : St} {S : Nat → Prop} (h : AgreeOn s s' S) (hg : Good s)
    (hg' : Good s') (roots : List Ref) (hlive : ∀ r, r ∈ roots → Live s r.idx)
    (hlive' : ∀ r, r ∈ roots → Live s' r.idx) (hr : ∀ r, r ∈ roots → S r.idx) :
    toDot s' roots = toDot s roots := by
  unfold toDot
  rw [descendants_frame_on h hg hg' roots hlive hlive' hr]
  congr 1
  apply List.map_congr_left
  intro i hi
  obtain ⟨hd, hne⟩ := List.mem_filter.mp hi
  have h1 : i ≠ 1 := by simpa using hne
  rcases descendants_subset h.closed hg roots hlive hr i hd with e | e
  · exact absurd e h1
  · exact dotNode_frame_on h e h1

theorem any_congr_mem {α : Type} {l : List α} {p q : α → Bool} (h : ∀ a, a ∈ l → p a = q a) :
    l.any p = l.any q := by
  induction l with
  | nil => rfl
  | cons x xs ih =>
    simp only [List.any_cons]
    rw [h x List.mem_cons_self, ih (fun a ha => h a (List.mem_cons_of_mem _ ha))]

theorem renderDot_frame_on {s s' : St} {S : Nat → Prop} (h : AgreeOn s s' S) (hg : Good s)
    (hg' : Good s') (roots : List Ref) (hlive : ∀ r, r ∈ roots → Live s r.idx)
    (hlive' : ∀ r, r ∈ roots → Live s' r.idx) (hr : ∀ r, r ∈ roots → S r.idx) :
    renderDot s' roots = renderDot s roots := by
  have hl : renderDotLines s' roots = renderDotLines s roots := by
    unfold renderDotLines
    rw [toDot_frame_on h hg hg' roots hlive hlive' hr]
  have ha : ((descendants s roots).filter (· ≠ 1)).any (fun id => (s'.high id).neg) =
      ((descendants s roots).filter (· ≠ 1)).any (fun id => (s.high id).neg) := by
    apply any_congr_mem
    intro i hi
    obtain ⟨hd, hne⟩ := List.mem_filter.mp hi
    have h1 : i ≠ 1 := by simpa using hne
    rcases descendants_subset h.closed hg roots hlive hr i hd with e | e
    · exact absurd e h1
    · rw [h.high e h1]
  unfold renderDot
  rw [descendants_frame_on h hg hg' roots hlive hlive' hr, ha, hl]

/-! ## agreement below a handle -/

/-- the cells a walk from cell `r` can touch: follow the raw `low`/`high` fields, never out of the
terminal cell (no query reads cell 1: a handle on it is a constant) -/
inductive RawReach (s : St) (r : Nat) : Nat → Prop
  | root : RawReach s r r
  | low {j} : RawReach s r j → j ≠ 1 → RawReach s r (s.low j).idx
  | high {j} : RawReach s r j → j ≠ 1 → RawReach s r (s.high j).idx

/-- `s'` has the same node as `s` in every non-terminal cell reachable from `f` in `s` -/
def AgreeBelow (s s' : St) (f : Ref) : Prop :=
  ∀ i, RawReach s f.idx i → i ≠ 1 → s'.node i = s.node i

theorem AgreeBelow.agreeOn {s s' : St} {f : Ref} (h : AgreeBelow s s' f) :
    AgreeOn s s' (RawReach s f.idx) :=
  ⟨fun _ hi h1 => ⟨.low hi h1, .high hi h1⟩, h⟩

/-- agreement on any closed set containing the handle gives agreement below the handle -/
theorem AgreeOn.below {s s' : St} {S : Nat → Prop} (h : AgreeOn s s' S) {f : Ref} (hf : S f.idx) :
    AgreeBelow s s' f := by
  have hin : ∀ i, RawReach s f.idx i → S i := by
    intro i hi
    induction hi with
    | root => exact hf
    | low _ h1 ih => exact (h.closed _ ih h1).1
    | high _ h1 ih => exact (h.closed _ ih h1).2
  exact fun i hi h1 => h.agree i (hin i hi) h1

theorem AgreeBelow.refl (s : St) (f : Ref) : AgreeBelow s s f := fun _ _ _ => rfl

/-- what is reachable from `f` is the same in both states -/
theorem AgreeBelow.reach {s s' : St} {f : Ref} (h : AgreeBelow s s' f) {i : Nat}
    (hi : RawReach s f.idx i) : RawReach s' f.idx i := by
  induction hi with
  | root => exact .root
  | @low j hj h1 ih =>
    have : s'.low j = s.low j := by simp only [St.low, h j hj h1]
    rw [← this]; exact .low ih h1
  | @high j hj h1 ih =>
    have : s'.high j = s.high j := by simp only [St.high, h j hj h1]
    rw [← this]; exact .high ih h1

theorem AgreeBelow.reach_back {s s' : St} {f : Ref} (h : AgreeBelow s s' f) {i : Nat}
    (hi : RawReach s' f.idx i) : RawReach s f.idx i := by
  induction hi with
  | root => exact .root
  | @low j _ h1 ih =>
    have : s'.low j = s.low j := by simp only [St.low, h j ih h1]
    rw [this]; exact .low ih h1
  | @high j _ h1 ih =>
    have : s'.high j = s.high j := by simp only [St.high, h j ih h1]
    rw [this]; exact .high ih h1

theorem AgreeBelow.symm {s s' : St} {f : Ref} (h : AgreeBelow s s' f) : AgreeBelow s' s f :=
  fun i hi h1 => (h i (h.reach_back hi) h1).symm

theorem AgreeBelow.trans {s s' s'' : St} {f : Ref} (h : AgreeBelow s s' f) (h' : AgreeBelow s' s'' f) :
    AgreeBelow s s'' f :=
  fun i hi h1 => (h' i (h.reach hi) h1).trans (h i hi h1)

/-- the handle's sign plays no role -/
theorem AgreeBelow.not {s s' : St} {f : Ref} (h : AgreeBelow s s' f) : AgreeBelow s s' f.not := h

/-! ### the frame theorems, stated for a handle -/

/-- **`paths`** (the explicit-stack iterator run to exhaustion) reads only the cells below `f` -/
theorem paths_frame {s s' : St} {f : Ref} (h : AgreeBelow s s' f) (fuel : Nat) :
    paths fuel s' f = paths fuel s f :=
  paths_frame_on h.agreeOn .root fuel

theorem pathsRec_frame {s s' : St} {f : Ref} (h : AgreeBelow s s' f) (fuel : Nat) (pre : List Int) :
    pathsRec fuel s' f pre = pathsRec fuel s f pre :=
  pathsRec_frame_on h.agreeOn fuel f pre .root

/-- **`one_sat`** -/
theorem oneSat_frame {s s' : St} {f : Ref} (h : AgreeBelow s s' f) (fuel : Nat) (acc : List Int) :
    oneSat fuel s' f acc = oneSat fuel s f acc :=
  oneSat_frame_on h.agreeOn fuel f acc .root

theorem satCountRec_frame {s s' : St} {f : Ref} (h : AgreeBelow s s' f) (fuel mx : Nat) (memo : CMemo) :
    satCountRec fuel s' mx f memo = satCountRec fuel s mx f memo :=
  satCountRec_frame_on h.agreeOn fuel mx f memo .root

/-- **`sat_count`** -/
theorem satCount_frame {s s' : St} {f : Ref} (h : AgreeBelow s s' f) (fuel numVars : Nat) :
    satCount fuel s' f numVars = satCount fuel s f numVars :=
  satCount_frame_on h.agreeOn .root fuel numVars

theorem nodeToStr_frame {s s' : St} {f : Ref} (h : AgreeBelow s s' f) (fuel : Nat) (vis : List Nat) :
    nodeToStr fuel s' f vis = nodeToStr fuel s f vis :=
  nodeToStr_frame_on h.agreeOn fuel f vis .root

/-- **`to_bracket_string`** -/
theorem toBracketString_frame {s s' : St} {f : Ref} (h : AgreeBelow s s' f) (fuel : Nat) :
    toBracketString fuel s' f = toBracketString fuel s f :=
  toBracketString_frame_on h.agreeOn .root fuel

/-- several roots: the union of the reachable sets is closed -/
theorem agreeOn_roots {s s' : St} {roots : List Ref} (h : ∀ r, r ∈ roots → AgreeBelow s s' r) :
    AgreeOn s s' (fun i => ∃ r, r ∈ roots ∧ RawReach s r.idx i) :=
  ⟨fun _ ⟨r, hr, hi⟩ h1 => ⟨⟨r, hr, .low hi h1⟩, ⟨r, hr, .high hi h1⟩⟩,
   fun i ⟨r, hr, hi⟩ h1 => h r hr i hi h1⟩

/-- **`descendants`** (good states, live roots) -/
theorem descendants_frame {s s' : St} (hg : Good s) (hg' : Good s') {roots : List Ref}
    (hlive : ∀ r, r ∈ roots → Live s r.idx) (hlive' : ∀ r, r ∈ roots → Live s' r.idx)
    (h : ∀ r, r ∈ roots → AgreeBelow s s' r) : descendants s' roots = descendants s roots :=
  descendants_frame_on (agreeOn_roots h) hg hg' roots hlive hlive' (fun r hr => ⟨r, hr, .root⟩)

/-- **`to_dot`** (the structured value) -/
theorem toDot_frame {s s' : St} (hg : Good s) (hg' : Good s') {roots : List Ref}
    (hlive : ∀ r, r ∈ roots → Live s r.idx) (hlive' : ∀ r, r ∈ roots → Live s' r.idx)
    (h : ∀ r, r ∈ roots → AgreeBelow s s' r) : toDot s' roots = toDot s roots :=
  toDot_frame_on (agreeOn_roots h) hg hg' roots hlive hlive' (fun r hr => ⟨r, hr, .root⟩)

/-- **`to_dot`** (the text, and whether its assertion fires) -/
theorem renderDot_frame {s s' : St} (hg : Good s) (hg' : Good s') {roots : List Ref}
    (hlive : ∀ r, r ∈ roots → Live s r.idx) (hlive' : ∀ r, r ∈ roots → Live s' r.idx)
    (h : ∀ r, r ∈ roots → AgreeBelow s s' r) : renderDot s' roots = renderDot s roots :=
  renderDot_frame_on (agreeOn_roots h) hg hg' roots hlive hlive' (fun r hr => ⟨r, hr, .root⟩)

/-! ## the hypothesis holds: node creation, garbage collection -/

/-- in a good state everything reachable from a live handle is live … -/
theorem RawReach.live {s : St} (hg : Good s) {f : Ref} (hf : Live s f.idx) {i : Nat}
    (hi : RawReach s f.idx i) : Live s i := by
  induction hi with
  | root => exact hf
  | low _ h1 ih => exact (ih.children hg h1).1
  | high _ h1 ih => exact (ih.children hg h1).2

/-- … and raw reachability is the reachability through stored nodes of `SubFn.lean` -/
theorem RawReach.reach {s : St} (hg : Good s) {f : Ref} (hf : Live s f.idx) {i : Nat}
    (hi : RawReach s f.idx i) : Reach s f i := by
  induction hi with
  | root => exact .root
  | @low j hj h1 ih =>
    rcases hj.live hg hf with e | ⟨n, hn⟩
    · exact absurd e h1
    · rw [St.low_of hn]; exact .low ih hn
  | @high j hj h1 ih =>
    rcases hj.live hg hf with e | ⟨n, hn⟩
    · exact absurd e h1
    · rw [St.high_of hn]; exact .high ih hn

theorem Reach.rawReach {s : St} {f : Ref} {i : Nat} (hi : Reach s f i) : RawReach s f.idx i := by
  induction hi with
  | root => exact .root
  | @low j n _ hn ih =>
    have h1 : j ≠ 1 := by have := (St.nodes_some hn).1; omega
    rw [← St.low_of hn]; exact .low ih h1
  | @high j n _ hn ih =>
    have h1 : j ≠ 1 := by have := (St.nodes_some hn).1; omega
    rw [← St.high_of hn]; exact .high ih h1

/-- agreement stated on the node view: every stored node reachable from `f` is stored in `s'` too -/
theorem agreeBelow_of_nodes {s s' : St} (hg : Good s) {f : Ref} (hf : Live s f.idx)
    (h : ∀ i n, Reach s f i → s.nodes i = some n → s'.nodes i = some n) : AgreeBelow s s' f := by
  intro i hi h1
  rcases hi.live hg hf with e | ⟨n, hn⟩
  · exact absurd e h1
  · rw [St.node_of_nodes hn, St.node_of_nodes (h i n (hi.reach hg hf) hn)]

/-- **(a)** an operation that only adds nodes (`Sub s.nodes s'.nodes`: what every operation of the
manager other than `collect_garbage` establishes, on success and on failure) leaves every cell
below a live handle as it was; the handle stays live -/
theorem agreeBelow_of_sub {s s' : St} (hg : Good s) (hsub : Sub s.nodes s'.nodes) {f : Ref}
    (hf : Live s f.idx) : AgreeBelow s s' f :=
  agreeBelow_of_nodes hg hf (fun i n _ hn => hsub i n hn)

/-- (`Live.mono` of `Reach.lean`, which is not imported here) -/
theorem live_of_sub {s s' : St} (hsub : Sub s.nodes s'.nodes) {i : Nat} (h : Live s i) : Live s' i := by
  rcases h with h | ⟨n, hn⟩
  · exact Or.inl h
  · exact Or.inr ⟨n, hsub _ _ hn⟩

/-- `put` (hash-consing lookup or allocation of a free cell) -/
theorem put_agreeBelow {s : St} (hg : Good s) (n : Node) {s' : St} {i : Nat}
    (h : s.put n = .ok (s', i)) {f : Ref} (hf : Live s f.idx) :
    Live s' f.idx ∧ AgreeBelow s s' f :=
  have hsub := (put_spec hg n h).2.1
  ⟨live_of_sub hsub hf, agreeBelow_of_sub hg hsub hf⟩

theorem mkNodeReg_sub {s : St} (hg : Good s) {v : Nat} {lo hi : Ref} {s' : St} {r : Ref}
    (h : mkNodeReg s v lo hi = .ok (s', r)) : Sub s.nodes s'.nodes := by
  unfold mkNodeReg at h
  by_cases e : lo = hi
  · rw [if_pos e] at h
    simp only [Except.ok.injEq, Prod.mk.injEq] at h
    rw [← h.1]; exact Sub.refl _
  · rw [if_neg e] at h
    cases hp : s.put ⟨v, lo, hi⟩ with
    | error e' => rw [hp] at h; cases h
    | ok p =>
      obtain ⟨s1, i⟩ := p
      rw [hp] at h
      simp only [Except.ok.injEq, Prod.mk.injEq] at h
      rw [← h.1]; exact (put_spec hg _ hp).2.1

/-- `mk_node` needs no hypothesis on its arguments for this: whatever it stores, it stores in a
free cell -/
theorem mkNode_sub {s : St} (hg : Good s) {v : Nat} {lo hi : Ref} {s' : St} {r : Ref}
    (h : mkNode s v lo hi = .ok (s', r)) : Sub s.nodes s'.nodes := by
  unfold mkNode at h
  by_cases hv : v = 0
  · rw [if_pos hv] at h; cases h
  rw [if_neg hv] at h
  by_cases hn : hi.neg = true
  · rw [if_pos hn] at h
    cases hm : mkNodeReg s v lo.not hi.not with
    | error e => rw [hm] at h; cases h
    | ok p =>
      obtain ⟨s1, r1⟩ := p
      rw [hm] at h
      simp only [Except.ok.injEq, Prod.mk.injEq] at h
      rw [← h.1]; exact mkNodeReg_sub hg hm
  · rw [if_neg hn] at h; exact mkNodeReg_sub hg h

theorem mkNode_agreeBelow {s : St} (hg : Good s) {v : Nat} {lo hi : Ref} {s' : St} {r : Ref}
    (h : mkNode s v lo hi = .ok (s', r)) {f : Ref} (hf : Live s f.idx) :
    Live s' f.idx ∧ AgreeBelow s s' f :=
  ⟨live_of_sub (mkNode_sub hg h) hf, agreeBelow_of_sub hg (mkNode_sub hg h) hf⟩

/-- everything reachable from a marked cell is marked -/
theorem Reach.descendants {s : St} (hg : Good s) {roots : List Ref}
    (hlive : ∀ r, r ∈ roots → Live s r.idx) {f : Ref} (hf : f.idx ∈ descendants s roots) {i : Nat}
    (hi : Reach s f i) : i ∈ P.descendants s roots := by
  have hcl := (descendants_closed hg roots hlive).2.2.2
  induction hi with
  | root => exact hf
  | low _ hn ih => exact (hcl _ _ ih hn).1
  | high _ hn ih => exact (hcl _ _ ih hn).2

/-- **(b)** `collect_garbage` while `f` is reachable from the roots (in particular: is a root):
the result is good, `f` is still live, and every stored node below `f` is still stored, in its cell,
with its value — so it is *occupied* and no later insertion can take the cell -/
theorem collect_agreeBelow {s s' : St} (hg : Good s) {roots : List Ref}
    (hlive : ∀ r, r ∈ roots → Live s r.idx) (h : collectGarbage s roots = .ok s')
    {f : Ref} (hf : f.idx = 1 ∨ f.idx ∈ descendants s roots) :
    Good s' ∧ Live s' f.idx ∧ (∀ i, Reach s f i → s'.nodes i = s.nodes i) ∧ AgreeBelow s s' f := by
  obtain ⟨hg', hfl, hfl', _⟩ := collect_descendants_mem hg hlive h f hf
  have hnodes := (collect_spec hg hlive hg.rs h).2.2.1
  have hfV : f.idx ∈ descendants s roots := by
    rcases hf with e | e
    · rw [e]; exact (descendants_closed hg roots hlive).1
    · exact e
  have hkeep : ∀ i, Reach s f i → s'.nodes i = s.nodes i := by
    intro i hi
    rw [hnodes, if_pos (hi.descendants hg hlive hfV)]
  exact ⟨hg', hfl', hkeep, agreeBelow_of_nodes hg hfl (fun i n hi hn => by rw [hkeep i hi]; exact hn)⟩

theorem collect_agreeBelow_root {s s' : St} (hg : Good s) {roots : List Ref}
    (hlive : ∀ r, r ∈ roots → Live s r.idx) (h : collectGarbage s roots = .ok s')
    {f : Ref} (hf : f ∈ roots) : Good s' ∧ Live s' f.idx ∧ AgreeBelow s s' f :=
  have := collect_agreeBelow hg hlive h (f := f) (Or.inr ((descendants_closed hg roots hlive).2.1 f hf))
  ⟨this.1, this.2.1, this.2.2.2⟩

/-- in this model the sweep only clears occupancy bits: *no* cell value changes (the frame theorems
do not rely on this; what matters for the cells below `f` is that they stay occupied) -/
theorem collect_node_eq {s s' : St} (hg : Good s) {roots : List Ref}
    (hlive : ∀ r, r ∈ roots → Live s r.idx) (h : collectGarbage s roots = .ok s') (i : Nat) :
    s'.node i = s.node i := by
  have := (collect_spec hg hlive hg.rs h).2.2.2.2.2.2.1
  simp only [St.node, this]

/-! ## any history -/

/-- one thing the manager may do between two advances of an iterator over `f` -/
inductive FrameStep (f : Ref) (s s' : St) : Prop
  /-- any operation that only adds nodes (or only touches caches/counters) and keeps the invariant -/
  | grow : Good s' → Sub s.nodes s'.nodes → FrameStep f s s'
  /-- a collection during which `f` is protected -/
  | gc (roots : List Ref) : (∀ r, r ∈ roots → Live s r.idx) →
      (f.idx = 1 ∨ f.idx ∈ descendants s roots) → collectGarbage s roots = .ok s' → FrameStep f s s'

inductive FrameSteps (f : Ref) : St → St → Prop
  | refl {s} : FrameSteps f s s
  | tail {s s' s''} : FrameSteps f s s' → FrameStep f s' s'' → FrameSteps f s s''

theorem step_frame {f : Ref} {s s' : St} (h : FrameStep f s s') (hg : Good s) (hf : Live s f.idx) :
    Good s' ∧ Live s' f.idx ∧ AgreeBelow s s' f := by
  cases h with
  | grow hg' hsub => exact ⟨hg', live_of_sub hsub hf, agreeBelow_of_sub hg hsub hf⟩
  | gc roots hlive hfr hc =>
    have := collect_agreeBelow hg hlive hc hfr
    exact ⟨this.1, this.2.1, this.2.2.2⟩

/-- along any history of additions and protected collections the cells below `f` never change -/
theorem steps_frame {f : Ref} {s s' : St} (h : FrameSteps f s s') (hg : Good s) (hf : Live s f.idx) :
    Good s' ∧ Live s' f.idx ∧ AgreeBelow s s' f := by
  induction h with
  | refl => exact ⟨hg, hf, AgreeBelow.refl _ _⟩
  | tail _ hstep ih =>
    obtain ⟨g1, l1, a1⟩ := ih
    obtain ⟨g2, l2, a2⟩ := step_frame hstep g1 l1
    exact ⟨g2, l2, a1.trans a2⟩

theorem paths_steps {f : Ref} {s s' : St} (h : FrameSteps f s s') (hg : Good s) (hf : Live s f.idx)
    (fuel : Nat) : paths fuel s' f = paths fuel s f :=
  paths_frame (steps_frame h hg hf).2.2 fuel

theorem oneSat_steps {f : Ref} {s s' : St} (h : FrameSteps f s s') (hg : Good s) (hf : Live s f.idx)
    (fuel : Nat) (acc : List Int) : oneSat fuel s' f acc = oneSat fuel s f acc :=
  oneSat_frame (steps_frame h hg hf).2.2 fuel acc

theorem satCount_steps {f : Ref} {s s' : St} (h : FrameSteps f s s') (hg : Good s) (hf : Live s f.idx)
    (fuel numVars : Nat) : satCount fuel s' f numVars = satCount fuel s f numVars :=
  satCount_frame (steps_frame h hg hf).2.2 fuel numVars

theorem toBracketString_steps {f : Ref} {s s' : St} (h : FrameSteps f s s') (hg : Good s)
    (hf : Live s f.idx) (fuel : Nat) : toBracketString fuel s' f = toBracketString fuel s f :=
  toBracketString_frame (steps_frame h hg hf).2.2 fuel

/-! ## the lazy iterator -/

/-- the iterator's state: the stack (head = top) and the cubes yielded so far (latest first) -/
abbrev PCfg := List (Ref × List Int) × List (List Int)

/-- one turn of the loop of `BddPaths::next`, reading the manager `s` -/
def pathsStep (s : St) : PCfg → PCfg
  | ([], acc) => ([], acc)
  | ((r, pre) :: rest, acc) =>
    if isZero r then (rest, acc) else
    if isOne r then (rest, pre :: acc) else
    let v : Int := (s.var r : Nat)
    ((s.lowNode r, pre ++ [-v]) :: (s.highNode r, pre ++ [v]) :: rest, acc)

/-- `pathsStep` is the step of the model's `pathsIter` -/
theorem pathsIter_step (fuel : Nat) (s : St) (p : PCfg) (hne : p.1 ≠ []) :
    pathsIter (fuel + 1) s p.1 p.2 = pathsIter fuel s (pathsStep s p).1 (pathsStep s p).2 := by
  obtain ⟨stack, acc⟩ := p
  cases stack with
  | nil => exact absurd rfl hne
  | cons q rest =>
    obtain ⟨r, pre⟩ := q
    simp only [pathsIter, pathsStep]
    by_cases hz : isZero r = true
    · rw [if_pos hz, if_pos hz]
    · rw [if_neg hz, if_neg hz]
      by_cases ho : isOne r = true
      · rw [if_pos ho, if_pos ho]
      · rw [if_neg ho, if_neg ho]

/-- a step stays inside the closed set and does not see the difference between the two states -/
theorem pathsStep_frame {s s' : St} {S : Nat → Prop} (h : AgreeOn s s' S) (p : PCfg)
    (hp : ∀ q, q ∈ p.1 → S q.1.idx) :
    pathsStep s' p = pathsStep s p ∧ ∀ q, q ∈ (pathsStep s p).1 → S q.1.idx := by
  obtain ⟨stack, acc⟩ := p
  cases stack with
  | nil => exact ⟨rfl, fun q hq => by cases hq⟩
  | cons q rest =>
    obtain ⟨r, pre⟩ := q
    have hrest : ∀ q, q ∈ rest → S q.1.idx := fun q hq => hp q (List.mem_cons_of_mem _ hq)
    have hr : S r.idx := hp (r, pre) List.mem_cons_self
    simp only [pathsStep]
    by_cases hz : isZero r = true
    · rw [if_pos hz, if_pos hz]; exact ⟨rfl, hrest⟩
    · rw [if_neg hz, if_neg hz]
      by_cases ho : isOne r = true
      · rw [if_pos ho, if_pos ho]; exact ⟨rfl, hrest⟩
      · rw [if_neg ho, if_neg ho]
        have h1 := idx_ne_one hz ho
        rw [h.var hr h1, h.lowNode hr h1, h.highNode hr h1]
        refine ⟨rfl, fun q hq => ?_⟩
        rcases List.mem_cons.mp hq with e | hq
        · subst e; exact h.lowNode_mem hr h1
        · rcases List.mem_cons.mp hq with e | hq
          · subst e; exact h.highNode_mem hr h1
          · exact hrest q hq

/-- the iterator advanced one turn in each of the manager states `ts` (in this order — the manager
may have changed arbitrarily in between; a `next()` call that takes several turns is the same
state repeated), then drained in the state `s` -/
def pathsLazy (fuel : Nat) (s : St) : List St → PCfg → Option (List (List Int))
  | [], p => pathsIter fuel s p.1 p.2
  | t :: ts, p => pathsLazy fuel s ts (pathsStep t p)

/-- **lazy = snapshot, general form**: if all the states the iterator ever reads agree with `s0` on
a closed set containing its stack, it behaves as if every turn had been taken in `s0` -/
theorem pathsLazy_frame {s0 s : St} {S : Nat → Prop} (fuel : Nat) (hs : AgreeOn s0 s S) :
    ∀ (ts : List St) (p : PCfg), (∀ t, t ∈ ts → AgreeOn s0 t S) → (∀ q, q ∈ p.1 → S q.1.idx) →
    pathsLazy fuel s ts p = pathsLazy fuel s0 (List.replicate ts.length s0) p := by
  intro ts
  induction ts with
  | nil => intro p _ hp; exact pathsIter_frame hs fuel p.1 p.2 hp
  | cons t ts ih =>
    intro p hts hp
    obtain ⟨e, hp'⟩ := pathsStep_frame (hts t List.mem_cons_self) p hp
    simp only [pathsLazy, List.length_cons, List.replicate_succ]
    rw [e]
    exact ih _ (fun t' ht' => hts t' (List.mem_cons_of_mem _ ht')) hp'

theorem pathsIter_nil_succ {n : Nat} {s : St} {acc : List (List Int)} {out : List (List Int)}
    (h : pathsIter n s [] acc = some out) : pathsIter (n + 1) s [] acc = some out := by
  cases n with
  | zero => cases h
  | succ n => exact h

/-- all turns in one state: that is the eager run, which needs one unit of fuel per turn -/
theorem pathsLazy_same {s0 : St} {fuel : Nat} : ∀ (k : Nat) (p : PCfg) {out : List (List Int)},
    pathsLazy fuel s0 (List.replicate k s0) p = some out → pathsIter (fuel + k) s0 p.1 p.2 = some out := by
  intro k
  induction k with
  | zero => intro p out h; exact h
  | succ k ih =>
    intro p out h
    simp only [List.replicate_succ, pathsLazy] at h
    have h' := ih _ h
    by_cases hne : p.1 = []
    · obtain ⟨stack, acc⟩ := p
      simp only at hne
      subst hne
      exact pathsIter_nil_succ h'
    · rw [← Nat.add_assoc, pathsIter_step _ _ _ hne]; exact h'

/-- **lazy = snapshot**: an iterator over `f` opened in `s0`, advanced while the manager moves
through the states `ts` and drained in `s` — all of them agreeing with `s0` below `f` (for instance
because `FrameSteps f s0 t`) — yields exactly the cubes of the eager `paths` taken in `s0` when the
iterator was opened -/
theorem paths_lazy_snapshot {s0 s : St} {f : Ref} {fuel : Nat} {ts : List St} {out : List (List Int)}
    (hts : ∀ t, t ∈ ts → AgreeBelow s0 t f) (hs : AgreeBelow s0 s f)
    (h : pathsLazy fuel s ts ([(f, [])], []) = some out) :
    paths (fuel + ts.length) s0 f = some out := by
  rw [pathsLazy_frame fuel hs.agreeOn ts _ (fun t ht => (hts t ht).agreeOn)
    (fun q hq => by simp only [List.mem_singleton] at hq; subst hq; exact .root)] at h
  exact pathsLazy_same _ _ h

/-- the same along a history of the manager -/
theorem paths_lazy_steps {s0 s : St} {f : Ref} {fuel : Nat} {ts : List St} {out : List (List Int)}
    (hg : Good s0) (hf : Live s0 f.idx) (hts : ∀ t, t ∈ ts → FrameSteps f s0 t) (hs : FrameSteps f s0 s)
    (h : pathsLazy fuel s ts ([(f, [])], []) = some out) :
    paths (fuel + ts.length) s0 f = some out :=
  paths_lazy_snapshot (fun t ht => (steps_frame (hts t ht) hg hf).2.2) (steps_frame hs hg hf).2.2 h

#print axioms pathsIter_frame
#print axioms paths_frame
#print axioms pathsRec_frame
#print axioms oneSat_frame
#print axioms satCount_frame
#print axioms toBracketString_frame
#print axioms descendants_frame
#print axioms toDot_frame
#print axioms renderDot_frame
#print axioms agreeBelow_of_sub
#print axioms put_agreeBelow
#print axioms mkNode_agreeBelow
#print axioms collect_agreeBelow
#print axioms collect_node_eq
#print axioms steps_frame
#print axioms paths_steps
#print axioms pathsIter_step
#print axioms pathsLazy_frame
#print axioms paths_lazy_snapshot
#print axioms paths_lazy_steps
end P

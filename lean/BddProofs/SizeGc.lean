import BddProofs.SubFn
import BddProofs.Gc
/-! C04 ("the size of `f` never changes while `f` is live"), the collection case.
`descendants_length_sub` (SubFn.lean) covers the operations that only add nodes; here: a handle that
survives `collect_garbage` (its index is the terminal or lies in `descendants s roots`) has the same
set of descendants — hence the same `size` — before and after the collection. -/
namespace P
open Arr

/-- reachability is the same before and after restricting the node table to a children-closed set
`V` that contains the terminal and the roots -/
theorem ri_restrict {s s' : St} {V : List Nat} (h1 : 1 ∈ V) (hcl : Closed s V)
    (hnodes : ∀ i, s'.nodes i = if i ∈ V then s.nodes i else none)
    {rs : List Nat} (hroots : ∀ r, r ∈ rs → r ∈ V) (i : Nat) : RI s' rs i ↔ RI s rs i := by
  have hsub : ∀ j n, s'.nodes j = some n → s.nodes j = some n := by
    intro j n hn
    rw [hnodes] at hn
    by_cases hv : j ∈ V
    · rwa [if_pos hv] at hn
    · rw [if_neg hv] at hn; cases hn
  constructor
  · intro h
    induction h with
    | one => exact .one
    | root hr => exact .root hr
    | low _ hn ih => exact .low ih (hsub _ _ hn)
    | high _ hn ih => exact .high ih (hsub _ _ hn)
  · intro h
    have : RI s' rs i ∧ i ∈ V := by
      induction h with
      | one => exact ⟨.one, h1⟩
      | root hr => exact ⟨.root hr, hroots _ hr⟩
      | @low j n _ hn ih =>
        obtain ⟨hr, hv⟩ := ih
        have hn' : s'.nodes j = some n := by rw [hnodes, if_pos hv]; exact hn
        exact ⟨.low hr hn', (hcl j n hv hn).1⟩
      | @high j n _ hn ih =>
        obtain ⟨hr, hv⟩ := ih
        have hn' : s'.nodes j = some n := by rw [hnodes, if_pos hv]; exact hn
        exact ⟨.high hr hn', (hcl j n hv hn).2⟩
    exact this.1

/-- a surviving handle has exactly the same descendants (as a set) after the collection -/
theorem collect_descendants_mem {s s' : St} (hg : Good s) {roots : List Ref}
    (hlive : ∀ r, r ∈ roots → Live s r.idx) (h : collectGarbage s roots = .ok s')
    (f : Ref) (hf : f.idx = 1 ∨ f.idx ∈ descendants s roots) :
    Good s' ∧ Live s f.idx ∧ Live s' f.idx ∧
    ∀ i, i ∈ descendants s' [f] ↔ i ∈ descendants s [f] := by
  obtain ⟨hg', _, hnodes, _⟩ := collect_spec hg hlive hg.rs h
  obtain ⟨h1, _, hVlive, hcl⟩ := descendants_closed hg roots hlive
  have hfV : f.idx ∈ descendants s roots := by
    rcases hf with e | e
    · rw [e]; exact h1
    · exact e
  have hfl : Live s f.idx := hVlive _ hfV
  have hfl' : Live s' f.idx := by
    rcases hfl with e | ⟨n, hn⟩
    · exact Or.inl e
    · exact Or.inr ⟨n, by rw [hnodes, if_pos hfV]; exact hn⟩
  have hl : ∀ r, r ∈ [f] → Live s r.idx := by
    intro r hr; simp only [List.mem_singleton] at hr; subst hr; exact hfl
  have hl' : ∀ r, r ∈ [f] → Live s' r.idx := by
    intro r hr; simp only [List.mem_singleton] at hr; subst hr; exact hfl'
  refine ⟨hg', hfl, hfl', fun i => ?_⟩
  rw [descendants_exact hg' [f] hl' i, descendants_exact hg [f] hl i]
  exact ri_restrict h1 hcl hnodes
    (fun r hr => by simp only [List.map_cons, List.map_nil, List.mem_singleton] at hr; subst hr; exact hfV) i

/-- **C04 (collection case).** The number of nodes reachable from a surviving handle is unchanged
by `collect_garbage`. -/
theorem descendants_length_collect {s s' : St} (hg : Good s) {roots : List Ref}
    (hlive : ∀ r, r ∈ roots → Live s r.idx) (h : collectGarbage s roots = .ok s')
    (f : Ref) (hf : f.idx = 1 ∨ f.idx ∈ descendants s roots) :
    (descendants s' [f]).length = (descendants s [f]).length := by
  obtain ⟨hg', hfl, hfl', hmem⟩ := collect_descendants_mem hg hlive h f hf
  have hl : ∀ r, r ∈ [f] → Live s r.idx := by
    intro r hr; simp only [List.mem_singleton] at hr; subst hr; exact hfl
  have hl' : ∀ r, r ∈ [f] → Live s' r.idx := by
    intro r hr; simp only [List.mem_singleton] at hr; subst hr; exact hfl'
  exact ((List.perm_ext_iff_of_nodup (descendants_nodup hg' [f] hl') (descendants_nodup hg [f] hl)).mpr
    hmem).length_eq

/-- every root survives -/
theorem descendants_length_collect_root {s s' : St} (hg : Good s) {roots : List Ref}
    (hlive : ∀ r, r ∈ roots → Live s r.idx) (h : collectGarbage s roots = .ok s')
    (f : Ref) (hf : f ∈ roots) :
    (descendants s' [f]).length = (descendants s [f]).length :=
  descendants_length_collect hg hlive h f (Or.inr ((descendants_closed hg roots hlive).2.1 f hf))

/-- the collection leaves a sound (empty) size cache -/
theorem collect_sizeOk {s s' : St} (hg : Good s) {roots : List Ref}
    (hlive : ∀ r, r ∈ roots → Live s r.idx) (h : collectGarbage s roots = .ok s') : SizeOk s' :=
  SizeOk.of_empty (collect_spec hg hlive hg.rs h).2.2.2.2.2.1

/-- **C04 (collection case, the real `size`).** In a state with a sound size cache, `size f` of a
surviving handle returns the same number before and after `collect_garbage` (whose result always has
a sound size cache: `collect_sizeOk`). -/
theorem size_collect {s s' : St} (hg : Good s) (hs : SizeOk s) {roots : List Ref}
    (hlive : ∀ r, r ∈ roots → Live s r.idx) (h : collectGarbage s roots = .ok s')
    (f : Ref) (hf : f.idx = 1 ∨ f.idx ∈ descendants s roots) :
    (size s' f).2 = (size s f).2 := by
  rw [size_val (collect_sizeOk hg hlive h), size_val hs]
  exact descendants_length_collect hg hlive h f hf

#print axioms ri_restrict
#print axioms collect_descendants_mem
#print axioms descendants_length_collect
#print axioms descendants_length_collect_root
#print axioms collect_sizeOk
#print axioms size_collect
end P

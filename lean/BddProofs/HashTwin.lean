import BddModel.Hash
namespace P
/-- raw reference value -> Ref -/
def ofRaw (n : Nat) : Ref := ⟨n / 2, n % 2 == 1⟩
/-- two different ITE keys with the same 64-bit hash: the pairing wraps -/
theorem hash_not_injective :
    MyHash.hash (OpKey.ite (ofRaw 2147495993) (ofRaw 777) (ofRaw 4242)) = MyHash.hash (OpKey.ite (ofRaw 403890515) (ofRaw 3719543659) (ofRaw 4242)) ∧
    OpKey.ite (ofRaw 2147495993) (ofRaw 777) (ofRaw 4242) ≠ OpKey.ite (ofRaw 403890515) (ofRaw 3719543659) (ofRaw 4242) := by
  constructor
  · decide
  · decide
end P
#print axioms P.hash_not_injective

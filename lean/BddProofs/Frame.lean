import BddModel.Bdd
import BddModel.Expr
/-! Frame lemmas: no operation of the manager other than `size` and `collectGarbage` touches the
size cache.  No invariant is needed; every proof is a syntactic induction following the definition.

Organisation: `FrS E c x` says "the state carried by the result `x` has size cache `c`" — always for an
`.ok` result, and for an `.error` result provided `E` holds.  Every operation `op` gets
`op_fr : FrS E s.sizeCache (op … s …)` (generic in `E`), from which the user-facing
`op_sizeCache` (`.ok` outcome) and `op_sizeCache_err` (`.error` outcome) are read off. -/
namespace P

def SameSC (s s' : St) : Prop := s'.sizeCache = s.sizeCache
theorem SameSC.refl (s : St) : SameSC s s := rfl
theorem SameSC.trans {a b c : St} (h1 : SameSC a b) (h2 : SameSC b c) : SameSC a c :=
  Eq.trans h2 h1

/-- the state inside a result has size cache `c` (for failures: if `E`) -/
def FrS {α : Type} (E : Prop) (c : Cache Ref Nat) : Res (St × α) → Prop
  | .ok (s', _) => s'.sizeCache = c
  | .error (_, s') => E → s'.sizeCache = c

namespace FrS
variable {α β : Type} {E : Prop} {c : Cache Ref Nat}

theorem ok {s' : St} {r : α} (h : s'.sizeCache = c) : FrS E c (.ok (s', r) : Res (St × α)) := h
theorem err {s' : St} {e : Fault} (h : s'.sizeCache = c) :
    FrS E c (.error (e, s') : Res (St × α)) := fun _ => h
theorem ite {p : Prop} [Decidable p] {a b : Res (St × α)}
    (ha : p → FrS E c a) (hb : ¬p → FrS E c b) : FrS E c (if p then a else b) := by
  by_cases h : p
  · rw [if_pos h]; exact ha h
  · rw [if_neg h]; exact hb h
/-- propagate a failure (possibly at another result type) -/
theorem of_err {x : Res (St × α)} {e : Fault × St} (ih : FrS E c x) (heq : x = .error e) :
    FrS E c (.error e : Res (St × β)) := by
  subst heq; cases e; exact ih
theorem of_ok {x : Res (St × α)} {s1 : St} {r : α} (ih : FrS E c x) (heq : x = .ok (s1, r)) :
    s1.sizeCache = c := by
  subst heq; exact ih
/-- continue from an intermediate state with the same size cache -/
theorem via {s1 : St} {x : Res (St × α)} (h1 : s1.sizeCache = c) (h : FrS E s1.sizeCache x) :
    FrS E c x := h1 ▸ h
theorem get_ok {x : Res (St × α)} {s' : St} {r : α} (ih : FrS False c x) (heq : x = .ok (s', r)) :
    s'.sizeCache = c := of_ok ih heq
theorem get_err {x : Res (St × α)} {s' : St} {e : Fault} (ih : FrS True c x)
    (heq : x = .error (e, s')) : s'.sizeCache = c := by
  subst heq; exact ih trivial
end FrS

/-- `if` step -/
macro "fr_ite" : tactic => `(tactic| refine FrS.ite (fun _ => ?_) (fun _ => ?_))
/-- leaf: the state is syntactically one whose size cache is the current one -/
macro "fr_leaf" : tactic => `(tactic| first | exact FrS.ok rfl | exact FrS.err rfl)
/-- `match x with | .error e => .error e | .ok … => …` step, `ih : FrS E c x`: closes the failure
branch and leaves the success branch with `h1 : s1.sizeCache = c` for the new state -/
macro "fr_bind " ih:term " => " h1:ident : tactic =>
  `(tactic| (split; exact FrS.of_err $ih (by assumption)
             have $h1 := FrS.of_ok $ih (by assumption)))

/-! ### store -/

theorem St.cacheGet_sizeCache (s : St) (k : OpKey) : (s.cacheGet k).1.sizeCache = s.sizeCache := rfl
theorem St.cacheInsert_sizeCache (s : St) (k : OpKey) (r : Ref) :
    (s.cacheInsert k r).sizeCache = s.sizeCache := rfl

theorem St.put_fr (E) (s : St) (n : Node) : FrS E s.sizeCache (s.put n) := by
  unfold St.put
  split
  · exact FrS.err rfl
  · exact FrS.ok rfl

theorem mkNodeReg_fr (E) (s : St) (v : Nat) (low high : Ref) :
    FrS E s.sizeCache (mkNodeReg s v low high) := by
  unfold mkNodeReg
  fr_ite
  · fr_leaf
  fr_bind (St.put_fr E s _) => h1
  exact FrS.ok h1

theorem mkNode_fr (E) (s : St) (v : Nat) (low high : Ref) :
    FrS E s.sizeCache (mkNode s v low high) := by
  unfold mkNode
  fr_ite
  · fr_leaf
  fr_ite
  · fr_bind (mkNodeReg_fr E s _ _ _) => h1
    exact FrS.ok h1
  · exact mkNodeReg_fr E s _ _ _

theorem mkVar_fr (E) (s : St) (v : Nat) : FrS E s.sizeCache (mkVar s v) := by
  unfold mkVar
  fr_ite
  · fr_leaf
  · exact mkNode_fr E s _ _ _

/-! ### ite -/

theorem iteCore_fr (E) {rec : Rec} (hrec : ∀ s f g h, FrS E s.sizeCache (rec s f g h))
    (s : St) (f g h : Ref) (m : Nat) : FrS E s.sizeCache (iteCore rec s f g h m) := by
  unfold iteCore
  split
  · fr_leaf
  dsimp only
  fr_ite
  · fr_leaf
  have h0 : (s.cacheGet (.ite f g h)).1.sizeCache = s.sizeCache := rfl
  split
  · fr_bind (FrS.via h0 (hrec _ _ _ _)) => h1
    fr_bind (FrS.via h1 (hrec _ _ _ _)) => h2
    fr_bind (FrS.via h2 (mkNode_fr E _ _ _ _)) => h3
    exact FrS.ok h3
  · fr_leaf

theorem applyIte_fr (E) : ∀ fuel s f g h, FrS E s.sizeCache (applyIte fuel s f g h) := by
  intro fuel
  induction fuel with
  | zero => intro s f g h; exact FrS.err rfl
  | succ fuel ih =>
    intro s f g h
    unfold applyIte
    repeat (fr_ite; (first | fr_leaf | exact ih _ _ _ _))
    dsimp only
    repeat (fr_ite; (first | fr_leaf | (fr_ite; fr_leaf; exact ih _ _ _ _)))
    fr_bind (iteCore_fr E ih _ _ _ _ _) => h1
    exact FrS.ok h1

theorem applyAnd_fr (E) (fuel s u v) : FrS E s.sizeCache (applyAnd fuel s u v) := applyIte_fr E ..
theorem applyOr_fr (E) (fuel s u v) : FrS E s.sizeCache (applyOr fuel s u v) := applyIte_fr E ..
theorem applyXor_fr (E) (fuel s u v) : FrS E s.sizeCache (applyXor fuel s u v) := applyIte_fr E ..
theorem applyEq_fr (E) (fuel s u v) : FrS E s.sizeCache (applyEq fuel s u v) := applyIte_fr E ..
theorem applyImply_fr (E) (fuel s u v) : FrS E s.sizeCache (applyImply fuel s u v) :=
  applyIte_fr E ..

theorem andMany_fr (E) (fuel : Nat) : ∀ l s acc, FrS E s.sizeCache (andMany fuel s acc l) := by
  intro l
  induction l with
  | nil => intro s acc; exact FrS.ok rfl
  | cons r rest ih =>
    intro s acc
    unfold andMany
    fr_bind (applyAnd_fr E fuel s acc r) => h1
    exact FrS.via h1 (ih _ _)

theorem orMany_fr (E) (fuel : Nat) : ∀ l s acc, FrS E s.sizeCache (orMany fuel s acc l) := by
  intro l
  induction l with
  | nil => intro s acc; exact FrS.ok rfl
  | cons r rest ih =>
    intro s acc
    unfold orMany
    fr_bind (applyOr_fr E fuel s acc r) => h1
    exact FrS.via h1 (ih _ _)

/-! ### iteConstant, isImplies -/

theorem iteConstant_fr (E) : ∀ fuel s f g h, FrS E s.sizeCache (iteConstant fuel s f g h) := by
  intro fuel
  induction fuel with
  | zero => intro s f g h; exact FrS.err rfl
  | succ fuel ih =>
    intro s f g h
    unfold iteConstant
    repeat (fr_ite; fr_leaf)
    split
    · fr_leaf
    dsimp only
    have h0 : (s.cacheGet (.ite f g h)).1.sizeCache = s.sizeCache := rfl
    repeat (fr_ite; fr_leaf)
    split
    · split
      · exact FrS.of_err (FrS.via h0 (ih _ _ _ _)) (by assumption)
      · exact FrS.ok (FrS.of_ok (FrS.via h0 (ih _ _ _ _)) (by assumption))
      · have h1 := FrS.of_ok (FrS.via h0 (ih _ _ _ _)) (by assumption)
        fr_bind (FrS.via h1 (ih _ _ _ _)) => h2
        fr_ite
        · exact FrS.ok h2
        · exact FrS.ok h2
    · fr_leaf

theorem isImplies_fr (E) (fuel s f g) : FrS E s.sizeCache (isImplies fuel s f g) := by
  unfold isImplies
  fr_bind (iteConstant_fr E fuel s f g Ref.one) => h1
  exact FrS.ok h1

/-! ### cube, clause -/

theorem cubeFold_fr (E) : ∀ l s cur, FrS E s.sizeCache (cubeFold s l cur) := by
  intro l
  induction l with
  | nil => intro s cur; exact FrS.ok rfl
  | cons x rest ih =>
    intro s cur
    obtain ⟨v, b⟩ := x
    unfold cubeFold
    fr_ite
    · fr_leaf
    have hm : FrS E s.sizeCache (if b = true then mkNode s v Ref.zero cur else mkNode s v cur Ref.zero) :=
      FrS.ite (fun _ => mkNode_fr E ..) (fun _ => mkNode_fr E ..)
    fr_bind hm => h1
    exact FrS.via h1 (ih _ _)

theorem cube_fr (E) (s lits) : FrS E s.sizeCache (cube s lits) := cubeFold_fr E ..

theorem clauseFold_fr (E) : ∀ l s cur, FrS E s.sizeCache (clauseFold s l cur) := by
  intro l
  induction l with
  | nil => intro s cur; exact FrS.ok rfl
  | cons x rest ih =>
    intro s cur
    obtain ⟨v, b⟩ := x
    unfold clauseFold
    fr_ite
    · fr_leaf
    have hm : FrS E s.sizeCache (if b = true then mkNode s v cur Ref.one else mkNode s v Ref.one cur) :=
      FrS.ite (fun _ => mkNode_fr E ..) (fun _ => mkNode_fr E ..)
    fr_bind hm => h1
    exact FrS.via h1 (ih _ _)

theorem clause_fr (E) (s lits) : FrS E s.sizeCache (clause s lits) := clauseFold_fr E ..

/-! ### substitute, substMulti, cofCube -/

theorem substitute_fr (E) : ∀ fuel s f v b memo, FrS E s.sizeCache (substitute fuel s f v b memo) := by
  intro fuel
  induction fuel with
  | zero => intro s f v b memo; exact FrS.err rfl
  | succ fuel ih =>
    intro s f v b memo
    unfold substitute
    repeat (fr_ite; fr_leaf)
    split
    · fr_leaf
    fr_bind (ih _ _ _ _ _) => h1
    fr_bind (FrS.via h1 (ih _ _ _ _ _)) => h2
    fr_bind (FrS.via h2 (mkNode_fr E _ _ _ _)) => h3
    exact FrS.ok h3

theorem substMulti_fr (E) : ∀ fuel s f vals memo, FrS E s.sizeCache (substMulti fuel s f vals memo) := by
  intro fuel
  induction fuel with
  | zero => intro s f vals memo; exact FrS.err rfl
  | succ fuel ih =>
    intro s f vals memo
    unfold substMulti
    repeat (fr_ite; fr_leaf)
    split
    · fr_leaf
    split
    · fr_bind (ih _ _ _ _) => h1
      exact FrS.ok h1
    · fr_bind (ih _ _ _ _) => h1
      fr_bind (FrS.via h1 (ih _ _ _ _)) => h2
      fr_bind (FrS.via h2 (mkNode_fr E _ _ _ _)) => h3
      exact FrS.ok h3

theorem cofCube_fr (E) : ∀ fuel s f vals memo, FrS E s.sizeCache (cofCube fuel s f vals memo) := by
  intro fuel
  induction fuel with
  | zero => intro s f vals memo; exact FrS.err rfl
  | succ fuel ih =>
    intro s f vals memo
    cases vals with
    | nil => exact FrS.ok rfl
    | cons x rest =>
      obtain ⟨u, b⟩ := x
      unfold cofCube
      fr_ite
      · fr_leaf
      split
      · fr_leaf
      dsimp only
      fr_ite
      · fr_bind (ih _ _ _ _) => h1
        exact FrS.ok h1
      fr_ite
      · fr_bind (ih _ _ _ _) => h1
        exact FrS.ok h1
      · fr_bind (ih _ _ _ _) => h1
        fr_bind (FrS.via h1 (ih _ _ _ _)) => h2
        fr_bind (FrS.via h2 (mkNode_fr E _ _ _ _)) => h3
        exact FrS.ok h3

/-! ### compose -/

theorem compose_fr (E) : ∀ fuel s f v g memo, FrS E s.sizeCache (compose fuel s f v g memo) := by
  intro fuel
  induction fuel with
  | zero => intro s f v g memo; exact FrS.err rfl
  | succ fuel ih =>
    intro s f v g memo
    unfold compose
    repeat (fr_ite; fr_leaf)
    split
    · fr_leaf
    fr_ite
    · fr_bind (applyIte_fr E fuel s _ _ _) => h1
      exact FrS.ok h1
    dsimp only
    fr_ite
    · fr_leaf
    split
    · fr_bind (ih _ _ _ _ _) => h1
      fr_bind (FrS.via h1 (ih _ _ _ _ _)) => h2
      fr_bind (FrS.via h2 (mkNode_fr E _ _ _ _)) => h3
      exact FrS.ok h3
    · fr_leaf

theorem composeTop_fr (E) (fuel s f v g) : FrS E s.sizeCache (composeTop fuel s f v g) := by
  unfold composeTop
  fr_bind (compose_fr E fuel s f v g (Cache.new 16)) => h1
  exact FrS.ok h1

/-! ### constrain, restrict -/

theorem constrain_fr (E) : ∀ fuel s f g, FrS E s.sizeCache (constrain fuel s f g) := by
  intro fuel
  induction fuel with
  | zero => intro s f g; exact FrS.err rfl
  | succ fuel ih =>
    intro s f g
    unfold constrain
    repeat (fr_ite; fr_leaf)
    split
    · fr_leaf
    dsimp only
    have h0 : (s.cacheGet (.constrain f g)).1.sizeCache = s.sizeCache := rfl
    split
    · fr_ite
      · exact FrS.via h0 (ih _ _ _)
      fr_ite
      · exact FrS.via h0 (ih _ _ _)
      fr_ite
      · fr_bind (FrS.via h0 (ih _ _ _)) => h1
        fr_bind (FrS.via h1 (ih _ _ _)) => h2
        exact FrS.via h2 (mkNode_fr E _ _ _ _)
      · fr_bind (FrS.via h0 (ih _ _ _)) => h1
        fr_bind (FrS.via h1 (ih _ _ _)) => h2
        fr_bind (FrS.via h2 (mkNode_fr E _ _ _ _)) => h3
        exact FrS.ok h3
    · fr_leaf

theorem restrict_fr (E) : ∀ fuel s f g, FrS E s.sizeCache (restrict fuel s f g) := by
  intro fuel
  induction fuel with
  | zero => intro s f g; exact FrS.err rfl
  | succ fuel ih =>
    intro s f g
    unfold restrict
    repeat (fr_ite; fr_leaf)
    split
    · fr_leaf
    dsimp only
    have h0 : (s.cacheGet (.restrict f g)).1.sizeCache = s.sizeCache := rfl
    split
    · fr_ite
      · exact FrS.via h0 (ih _ _ _)
      fr_ite
      · exact FrS.via h0 (ih _ _ _)
      fr_ite
      · fr_bind (FrS.via h0 (ih _ _ _)) => h1
        fr_bind (FrS.via h1 (ih _ _ _)) => h2
        fr_bind (FrS.via h2 (mkNode_fr E _ _ _ _)) => h3
        exact FrS.ok h3
      · fr_bind (FrS.via h0 (applyIte_fr E fuel _ _ _ _)) => h1
        fr_bind (FrS.via h1 (ih _ _ _)) => h2
        exact FrS.ok h2
    · fr_leaf

/-! ### expressions -/

theorem Expr.eval_fr (E) (fuel : Nat) : ∀ e s, FrS E s.sizeCache (Expr.eval fuel s e) := by
  intro e
  induction e with
  | term r => intro s; exact FrS.ok rfl
  | not a iha =>
    intro s
    unfold Expr.eval
    fr_bind (iha s) => h1
    exact FrS.ok h1
  | and a b iha ihb =>
    intro s
    unfold Expr.eval
    fr_bind (iha s) => h1
    fr_bind (FrS.via h1 (ihb _)) => h2
    exact FrS.via h2 (applyAnd_fr E ..)
  | or a b iha ihb =>
    intro s
    unfold Expr.eval
    fr_bind (iha s) => h1
    fr_bind (FrS.via h1 (ihb _)) => h2
    exact FrS.via h2 (applyOr_fr E ..)
  | xor a b iha ihb =>
    intro s
    unfold Expr.eval
    fr_bind (iha s) => h1
    fr_bind (FrS.via h1 (ihb _)) => h2
    exact FrS.via h2 (applyXor_fr E ..)

theorem PV.eval_fr (E) (fuel : Nat) (s : St) (v : PV) : FrS E s.sizeCache (PV.eval fuel s v) := by
  cases v with
  | ref r => exact FrS.ok rfl
  | expr e => exact Expr.eval_fr E fuel e s

/-! ### the frame lemmas in hypothesis form

`op_sizeCache`: a successful call leaves the size cache as it was;
`op_sizeCache_err`: so does a failing call (the state carried by the fault). -/

theorem FrS.of_ok_only {α : Type} {c : Cache Ref Nat} {x : Res (St × α)}
    (h : ∀ s' r, x = .ok (s', r) → s'.sizeCache = c) : FrS False c x := by
  cases x with
  | error e => obtain ⟨e, s'⟩ := e; exact fun h => h.elim
  | ok p => obtain ⟨s', r⟩ := p; exact h s' r rfl

theorem FrS.intro {α : Type} {c : Cache Ref Nat} {x : Res (St × α)}
    (h : ∀ s' r, x = .ok (s', r) → s'.sizeCache = c)
    (h' : ∀ e s', x = .error (e, s') → s'.sizeCache = c) : FrS True c x := by
  cases x with
  | error e => obtain ⟨e, s'⟩ := e; exact fun _ => h' e s' rfl
  | ok p => obtain ⟨s', r⟩ := p; exact h s' r rfl

/-- `iteCore` preserves the size cache on success if its recursion parameter does -/
theorem iteCore_sizeCache {rec : Rec}
    (hrec : ∀ s f g h s' r, rec s f g h = .ok (s', r) → s'.sizeCache = s.sizeCache)
    (s : St) (f g h : Ref) (m : Nat) (s' : St) (r : Ref)
    (hres : iteCore rec s f g h m = .ok (s', r)) : s'.sizeCache = s.sizeCache :=
  FrS.get_ok (iteCore_fr False (fun s f g h => FrS.of_ok_only (hrec s f g h)) s f g h m) hres

/-- `iteCore` preserves the size cache on failure too if its recursion parameter preserves it on
both outcomes -/
theorem iteCore_sizeCache_err {rec : Rec}
    (hrec : ∀ s f g h s' r, rec s f g h = .ok (s', r) → s'.sizeCache = s.sizeCache)
    (hrec' : ∀ s f g h e s', rec s f g h = .error (e, s') → s'.sizeCache = s.sizeCache)
    (s : St) (f g h : Ref) (m : Nat) (e : Fault) (s' : St)
    (hres : iteCore rec s f g h m = .error (e, s')) : s'.sizeCache = s.sizeCache :=
  FrS.get_err (iteCore_fr True (fun s f g h => FrS.intro (hrec s f g h) (hrec' s f g h)) s f g h m) hres

theorem St.put_sizeCache (s : St) (n : Node) (s' : St) (r : Nat)
    (hres : s.put n = .ok (s', r)) : s'.sizeCache = s.sizeCache :=
  FrS.get_ok (St.put_fr _ s n) hres
theorem St.put_sizeCache_err (s : St) (n : Node) (e : Fault) (s' : St)
    (hres : s.put n = .error (e, s')) : s'.sizeCache = s.sizeCache :=
  FrS.get_err (St.put_fr _ s n) hres

theorem mkNodeReg_sizeCache (s : St) (v : Nat) (low high : Ref) (s' : St) (r : Ref)
    (hres : mkNodeReg s v low high = .ok (s', r)) : s'.sizeCache = s.sizeCache :=
  FrS.get_ok (mkNodeReg_fr _ s v low high) hres
theorem mkNodeReg_sizeCache_err (s : St) (v : Nat) (low high : Ref) (e : Fault) (s' : St)
    (hres : mkNodeReg s v low high = .error (e, s')) : s'.sizeCache = s.sizeCache :=
  FrS.get_err (mkNodeReg_fr _ s v low high) hres

theorem mkNode_sizeCache (s : St) (v : Nat) (low high : Ref) (s' : St) (r : Ref)
    (hres : mkNode s v low high = .ok (s', r)) : s'.sizeCache = s.sizeCache :=
  FrS.get_ok (mkNode_fr _ s v low high) hres
theorem mkNode_sizeCache_err (s : St) (v : Nat) (low high : Ref) (e : Fault) (s' : St)
    (hres : mkNode s v low high = .error (e, s')) : s'.sizeCache = s.sizeCache :=
  FrS.get_err (mkNode_fr _ s v low high) hres

theorem mkVar_sizeCache (s : St) (v : Nat) (s' : St) (r : Ref)
    (hres : mkVar s v = .ok (s', r)) : s'.sizeCache = s.sizeCache :=
  FrS.get_ok (mkVar_fr _ s v) hres
theorem mkVar_sizeCache_err (s : St) (v : Nat) (e : Fault) (s' : St)
    (hres : mkVar s v = .error (e, s')) : s'.sizeCache = s.sizeCache :=
  FrS.get_err (mkVar_fr _ s v) hres

theorem applyIte_sizeCache (fuel : Nat) (s : St) (f g h : Ref) (s' : St) (r : Ref)
    (hres : applyIte fuel s f g h = .ok (s', r)) : s'.sizeCache = s.sizeCache :=
  FrS.get_ok (applyIte_fr _ fuel s f g h) hres
theorem applyIte_sizeCache_err (fuel : Nat) (s : St) (f g h : Ref) (e : Fault) (s' : St)
    (hres : applyIte fuel s f g h = .error (e, s')) : s'.sizeCache = s.sizeCache :=
  FrS.get_err (applyIte_fr _ fuel s f g h) hres

theorem applyAnd_sizeCache (fuel : Nat) (s : St) (u v : Ref) (s' : St) (r : Ref)
    (hres : applyAnd fuel s u v = .ok (s', r)) : s'.sizeCache = s.sizeCache :=
  FrS.get_ok (applyAnd_fr _ fuel s u v) hres
theorem applyAnd_sizeCache_err (fuel : Nat) (s : St) (u v : Ref) (e : Fault) (s' : St)
    (hres : applyAnd fuel s u v = .error (e, s')) : s'.sizeCache = s.sizeCache :=
  FrS.get_err (applyAnd_fr _ fuel s u v) hres

theorem applyOr_sizeCache (fuel : Nat) (s : St) (u v : Ref) (s' : St) (r : Ref)
    (hres : applyOr fuel s u v = .ok (s', r)) : s'.sizeCache = s.sizeCache :=
  FrS.get_ok (applyOr_fr _ fuel s u v) hres
theorem applyOr_sizeCache_err (fuel : Nat) (s : St) (u v : Ref) (e : Fault) (s' : St)
    (hres : applyOr fuel s u v = .error (e, s')) : s'.sizeCache = s.sizeCache :=
  FrS.get_err (applyOr_fr _ fuel s u v) hres

theorem applyXor_sizeCache (fuel : Nat) (s : St) (u v : Ref) (s' : St) (r : Ref)
    (hres : applyXor fuel s u v = .ok (s', r)) : s'.sizeCache = s.sizeCache :=
  FrS.get_ok (applyXor_fr _ fuel s u v) hres
theorem applyXor_sizeCache_err (fuel : Nat) (s : St) (u v : Ref) (e : Fault) (s' : St)
    (hres : applyXor fuel s u v = .error (e, s')) : s'.sizeCache = s.sizeCache :=
  FrS.get_err (applyXor_fr _ fuel s u v) hres

theorem applyEq_sizeCache (fuel : Nat) (s : St) (u v : Ref) (s' : St) (r : Ref)
    (hres : applyEq fuel s u v = .ok (s', r)) : s'.sizeCache = s.sizeCache :=
  FrS.get_ok (applyEq_fr _ fuel s u v) hres
theorem applyEq_sizeCache_err (fuel : Nat) (s : St) (u v : Ref) (e : Fault) (s' : St)
    (hres : applyEq fuel s u v = .error (e, s')) : s'.sizeCache = s.sizeCache :=
  FrS.get_err (applyEq_fr _ fuel s u v) hres

theorem applyImply_sizeCache (fuel : Nat) (s : St) (u v : Ref) (s' : St) (r : Ref)
    (hres : applyImply fuel s u v = .ok (s', r)) : s'.sizeCache = s.sizeCache :=
  FrS.get_ok (applyImply_fr _ fuel s u v) hres
theorem applyImply_sizeCache_err (fuel : Nat) (s : St) (u v : Ref) (e : Fault) (s' : St)
    (hres : applyImply fuel s u v = .error (e, s')) : s'.sizeCache = s.sizeCache :=
  FrS.get_err (applyImply_fr _ fuel s u v) hres

theorem andMany_sizeCache (fuel : Nat) (s : St) (acc : Ref) (l : List Ref) (s' : St) (r : Ref)
    (hres : andMany fuel s acc l = .ok (s', r)) : s'.sizeCache = s.sizeCache :=
  FrS.get_ok (andMany_fr _ fuel l s acc) hres
theorem andMany_sizeCache_err (fuel : Nat) (s : St) (acc : Ref) (l : List Ref) (e : Fault) (s' : St)
    (hres : andMany fuel s acc l = .error (e, s')) : s'.sizeCache = s.sizeCache :=
  FrS.get_err (andMany_fr _ fuel l s acc) hres

theorem orMany_sizeCache (fuel : Nat) (s : St) (acc : Ref) (l : List Ref) (s' : St) (r : Ref)
    (hres : orMany fuel s acc l = .ok (s', r)) : s'.sizeCache = s.sizeCache :=
  FrS.get_ok (orMany_fr _ fuel l s acc) hres
theorem orMany_sizeCache_err (fuel : Nat) (s : St) (acc : Ref) (l : List Ref) (e : Fault) (s' : St)
    (hres : orMany fuel s acc l = .error (e, s')) : s'.sizeCache = s.sizeCache :=
  FrS.get_err (orMany_fr _ fuel l s acc) hres

theorem iteConstant_sizeCache (fuel : Nat) (s : St) (f g h : Ref) (s' : St) (r : Option Bool)
    (hres : iteConstant fuel s f g h = .ok (s', r)) : s'.sizeCache = s.sizeCache :=
  FrS.get_ok (iteConstant_fr _ fuel s f g h) hres
theorem iteConstant_sizeCache_err (fuel : Nat) (s : St) (f g h : Ref) (e : Fault) (s' : St)
    (hres : iteConstant fuel s f g h = .error (e, s')) : s'.sizeCache = s.sizeCache :=
  FrS.get_err (iteConstant_fr _ fuel s f g h) hres

theorem isImplies_sizeCache (fuel : Nat) (s : St) (f g : Ref) (s' : St) (r : Bool)
    (hres : isImplies fuel s f g = .ok (s', r)) : s'.sizeCache = s.sizeCache :=
  FrS.get_ok (isImplies_fr _ fuel s f g) hres
theorem isImplies_sizeCache_err (fuel : Nat) (s : St) (f g : Ref) (e : Fault) (s' : St)
    (hres : isImplies fuel s f g = .error (e, s')) : s'.sizeCache = s.sizeCache :=
  FrS.get_err (isImplies_fr _ fuel s f g) hres

theorem cubeFold_sizeCache (s : St) (l : List Lit) (cur : Ref) (s' : St) (r : Ref)
    (hres : cubeFold s l cur = .ok (s', r)) : s'.sizeCache = s.sizeCache :=
  FrS.get_ok (cubeFold_fr _ l s cur) hres
theorem cubeFold_sizeCache_err (s : St) (l : List Lit) (cur : Ref) (e : Fault) (s' : St)
    (hres : cubeFold s l cur = .error (e, s')) : s'.sizeCache = s.sizeCache :=
  FrS.get_err (cubeFold_fr _ l s cur) hres

theorem cube_sizeCache (s : St) (lits : List Lit) (s' : St) (r : Ref)
    (hres : cube s lits = .ok (s', r)) : s'.sizeCache = s.sizeCache :=
  FrS.get_ok (cube_fr _ s lits) hres
theorem cube_sizeCache_err (s : St) (lits : List Lit) (e : Fault) (s' : St)
    (hres : cube s lits = .error (e, s')) : s'.sizeCache = s.sizeCache :=
  FrS.get_err (cube_fr _ s lits) hres

theorem clauseFold_sizeCache (s : St) (l : List Lit) (cur : Ref) (s' : St) (r : Ref)
    (hres : clauseFold s l cur = .ok (s', r)) : s'.sizeCache = s.sizeCache :=
  FrS.get_ok (clauseFold_fr _ l s cur) hres
theorem clauseFold_sizeCache_err (s : St) (l : List Lit) (cur : Ref) (e : Fault) (s' : St)
    (hres : clauseFold s l cur = .error (e, s')) : s'.sizeCache = s.sizeCache :=
  FrS.get_err (clauseFold_fr _ l s cur) hres

theorem clause_sizeCache (s : St) (lits : List Lit) (s' : St) (r : Ref)
    (hres : clause s lits = .ok (s', r)) : s'.sizeCache = s.sizeCache :=
  FrS.get_ok (clause_fr _ s lits) hres
theorem clause_sizeCache_err (s : St) (lits : List Lit) (e : Fault) (s' : St)
    (hres : clause s lits = .error (e, s')) : s'.sizeCache = s.sizeCache :=
  FrS.get_err (clause_fr _ s lits) hres

theorem substitute_sizeCache (fuel : Nat) (s : St) (f : Ref) (v : Nat) (b : Bool) (memo : SMemo) (s' : St) (r : Ref × SMemo)
    (hres : substitute fuel s f v b memo = .ok (s', r)) : s'.sizeCache = s.sizeCache :=
  FrS.get_ok (substitute_fr _ fuel s f v b memo) hres
theorem substitute_sizeCache_err (fuel : Nat) (s : St) (f : Ref) (v : Nat) (b : Bool) (memo : SMemo) (e : Fault) (s' : St)
    (hres : substitute fuel s f v b memo = .error (e, s')) : s'.sizeCache = s.sizeCache :=
  FrS.get_err (substitute_fr _ fuel s f v b memo) hres

theorem substMulti_sizeCache (fuel : Nat) (s : St) (f : Ref) (vals : Vals) (memo : SMemo) (s' : St) (r : Ref × SMemo)
    (hres : substMulti fuel s f vals memo = .ok (s', r)) : s'.sizeCache = s.sizeCache :=
  FrS.get_ok (substMulti_fr _ fuel s f vals memo) hres
theorem substMulti_sizeCache_err (fuel : Nat) (s : St) (f : Ref) (vals : Vals) (memo : SMemo) (e : Fault) (s' : St)
    (hres : substMulti fuel s f vals memo = .error (e, s')) : s'.sizeCache = s.sizeCache :=
  FrS.get_err (substMulti_fr _ fuel s f vals memo) hres

theorem cofCube_sizeCache (fuel : Nat) (s : St) (f : Ref) (vals : Vals) (memo : KMemo) (s' : St) (r : Ref × KMemo)
    (hres : cofCube fuel s f vals memo = .ok (s', r)) : s'.sizeCache = s.sizeCache :=
  FrS.get_ok (cofCube_fr _ fuel s f vals memo) hres
theorem cofCube_sizeCache_err (fuel : Nat) (s : St) (f : Ref) (vals : Vals) (memo : KMemo) (e : Fault) (s' : St)
    (hres : cofCube fuel s f vals memo = .error (e, s')) : s'.sizeCache = s.sizeCache :=
  FrS.get_err (cofCube_fr _ fuel s f vals memo) hres

theorem compose_sizeCache (fuel : Nat) (s : St) (f : Ref) (v : Nat) (g : Ref) (memo : CCache) (s' : St) (r : Ref × CCache)
    (hres : compose fuel s f v g memo = .ok (s', r)) : s'.sizeCache = s.sizeCache :=
  FrS.get_ok (compose_fr _ fuel s f v g memo) hres
theorem compose_sizeCache_err (fuel : Nat) (s : St) (f : Ref) (v : Nat) (g : Ref) (memo : CCache) (e : Fault) (s' : St)
    (hres : compose fuel s f v g memo = .error (e, s')) : s'.sizeCache = s.sizeCache :=
  FrS.get_err (compose_fr _ fuel s f v g memo) hres

theorem composeTop_sizeCache (fuel : Nat) (s : St) (f : Ref) (v : Nat) (g : Ref) (s' : St) (r : Ref)
    (hres : composeTop fuel s f v g = .ok (s', r)) : s'.sizeCache = s.sizeCache :=
  FrS.get_ok (composeTop_fr _ fuel s f v g) hres
theorem composeTop_sizeCache_err (fuel : Nat) (s : St) (f : Ref) (v : Nat) (g : Ref) (e : Fault) (s' : St)
    (hres : composeTop fuel s f v g = .error (e, s')) : s'.sizeCache = s.sizeCache :=
  FrS.get_err (composeTop_fr _ fuel s f v g) hres

theorem constrain_sizeCache (fuel : Nat) (s : St) (f g : Ref) (s' : St) (r : Ref)
    (hres : constrain fuel s f g = .ok (s', r)) : s'.sizeCache = s.sizeCache :=
  FrS.get_ok (constrain_fr _ fuel s f g) hres
theorem constrain_sizeCache_err (fuel : Nat) (s : St) (f g : Ref) (e : Fault) (s' : St)
    (hres : constrain fuel s f g = .error (e, s')) : s'.sizeCache = s.sizeCache :=
  FrS.get_err (constrain_fr _ fuel s f g) hres

theorem restrict_sizeCache (fuel : Nat) (s : St) (f g : Ref) (s' : St) (r : Ref)
    (hres : restrict fuel s f g = .ok (s', r)) : s'.sizeCache = s.sizeCache :=
  FrS.get_ok (restrict_fr _ fuel s f g) hres
theorem restrict_sizeCache_err (fuel : Nat) (s : St) (f g : Ref) (e : Fault) (s' : St)
    (hres : restrict fuel s f g = .error (e, s')) : s'.sizeCache = s.sizeCache :=
  FrS.get_err (restrict_fr _ fuel s f g) hres

theorem Expr.eval_sizeCache (fuel : Nat) (s : St) (x : Expr) (s' : St) (r : Ref)
    (hres : Expr.eval fuel s x = .ok (s', r)) : s'.sizeCache = s.sizeCache :=
  FrS.get_ok (Expr.eval_fr _ fuel x s) hres
theorem Expr.eval_sizeCache_err (fuel : Nat) (s : St) (x : Expr) (e : Fault) (s' : St)
    (hres : Expr.eval fuel s x = .error (e, s')) : s'.sizeCache = s.sizeCache :=
  FrS.get_err (Expr.eval_fr _ fuel x s) hres

theorem PV.eval_sizeCache (fuel : Nat) (s : St) (v : PV) (s' : St) (r : Ref)
    (hres : PV.eval fuel s v = .ok (s', r)) : s'.sizeCache = s.sizeCache :=
  FrS.get_ok (PV.eval_fr _ fuel s v) hres
theorem PV.eval_sizeCache_err (fuel : Nat) (s : St) (v : PV) (e : Fault) (s' : St)
    (hres : PV.eval fuel s v = .error (e, s')) : s'.sizeCache = s.sizeCache :=
  FrS.get_err (PV.eval_fr _ fuel s v) hres

end P

#print axioms P.mkNode_sizeCache
#print axioms P.iteCore_sizeCache
#print axioms P.applyIte_sizeCache
#print axioms P.applyIte_sizeCache_err
#print axioms P.iteConstant_sizeCache
#print axioms P.compose_sizeCache
#print axioms P.restrict_sizeCache
#print axioms P.constrain_sizeCache_err
#print axioms P.cofCube_sizeCache
#print axioms P.substMulti_sizeCache
#print axioms P.cube_sizeCache
#print axioms P.Expr.eval_sizeCache
#print axioms P.PV.eval_sizeCache_err

import BddModel.Hash
/-! `utils.rs`: the Cantor pairing function is injective (on the numbers where the `u64` arithmetic of
the code does not overflow it is the function on naturals modelled by `pairingCantor`), and the
Hopcroft–Ullman variant is the same function shifted by one in each argument. -/
namespace P

/-- triangular numbers -/
def tri (n : Nat) : Nat := n * (n + 1) / 2

theorem tri_succ (n : Nat) : tri (n + 1) = tri n + (n + 1) := by
  unfold tri
  have e : (n + 1) * (n + 1 + 1) = n * (n + 1) + 2 * (n + 1) := by
    rw [Nat.mul_add (n + 1) (n + 1) 1, Nat.mul_one, Nat.add_mul n 1 (n + 1), Nat.one_mul]
    omega
  rw [e, Nat.add_mul_div_left _ _ (by decide : 0 < 2)]

theorem tri_mono {m n : Nat} (h : m ≤ n) : tri m ≤ tri n := by
  induction h with
  | refl => exact Nat.le_refl _
  | step _ ih => rw [tri_succ]; omega

theorem pairingCantor_eq (a b : Nat) : pairingCantor a b = tri (a + b) + b := rfl

/-- the value determines the diagonal `a + b` -/
theorem cantor_diag {a b c d : Nat} (h : pairingCantor a b = pairingCantor c d) : a + b = c + d := by
  rw [pairingCantor_eq, pairingCantor_eq] at h
  apply Classical.byContradiction
  intro hne
  rcases Nat.lt_or_gt_of_ne hne with hlt | hgt
  · have h1 : tri (a + b + 1) ≤ tri (c + d) := tri_mono hlt
    rw [tri_succ] at h1; omega
  · have h1 : tri (c + d + 1) ≤ tri (a + b) := tri_mono hgt
    rw [tri_succ] at h1; omega

/-- **Cantor's pairing is injective** -/
theorem pairingCantor_injective {a b c d : Nat} (h : pairingCantor a b = pairingCantor c d) : a = c ∧ b = d := by
  have hd := cantor_diag h
  rw [pairingCantor_eq, pairingCantor_eq, hd] at h
  omega

/-- the Hopcroft–Ullman pairing of positive arguments is Cantor's pairing of their predecessors, with the
arguments swapped, plus one — hence injective on positive arguments as well -/
theorem pairingHopcroft_eq {a b : Nat} (ha : a ≠ 0) (hb : b ≠ 0) :
    pairingHopcroft a b = .ok (pairingCantor (b - 1) (a - 1) + 1) := by
  unfold pairingHopcroft
  rw [if_neg (by omega)]
  rw [pairingCantor_eq]
  unfold tri
  have e1 : a + b - 2 = b - 1 + (a - 1) := by omega
  have e2 : a + b - 1 = b - 1 + (a - 1) + 1 := by omega
  rw [e1, e2]
  congr 1; omega

theorem pairingHopcroft_injective {a b c d x : Nat} (ha : a ≠ 0) (hb : b ≠ 0) (hc : c ≠ 0) (hd : d ≠ 0)
    (h1 : pairingHopcroft a b = .ok x) (h2 : pairingHopcroft c d = .ok x) : a = c ∧ b = d := by
  rw [pairingHopcroft_eq ha hb] at h1
  rw [pairingHopcroft_eq hc hd] at h2
  have e : pairingCantor (b - 1) (a - 1) = pairingCantor (d - 1) (c - 1) := by
    have := Except.ok.inj h1; have := Except.ok.inj h2; omega
  have := pairingCantor_injective e
  omega

/-- zero arguments are rejected (the two `assert!`s) -/
theorem pairingHopcroft_zero (a b : Nat) (h : a = 0 ∨ b = 0) : pairingHopcroft a b = .error .assertion := by
  unfold pairingHopcroft; rw [if_pos h]

end P
#print axioms P.pairingCantor_injective
#print axioms P.pairingHopcroft_injective

namespace P

/-- Szudzik's pairing on naturals (what `pairing_szudzik` computes when nothing wraps) -/
def szudzikNat (a b : Nat) : Nat := if a < b then b * b + a else a * a + a + b

theorem szudzik_bounds (a b : Nat) :
    max a b * max a b ≤ szudzikNat a b ∧ szudzikNat a b < (max a b + 1) * (max a b + 1) := by
  unfold szudzikNat
  by_cases h : a < b
  · rw [if_pos h, Nat.max_eq_right (Nat.le_of_lt h)]
    have e : (b + 1) * (b + 1) = b * b + 2 * b + 1 := by
      rw [Nat.add_mul, Nat.mul_add, Nat.mul_one, Nat.one_mul]; omega
    rw [e]; omega
  · rw [if_neg h, Nat.max_eq_left (Nat.le_of_not_lt h)]
    have e : (a + 1) * (a + 1) = a * a + 2 * a + 1 := by
      rw [Nat.add_mul, Nat.mul_add, Nat.mul_one, Nat.one_mul]; omega
    rw [e]; omega

/-- **Szudzik's pairing is injective on naturals**: distinct keys can only collide through the 64-bit
wrap-around (which `C18_hash_is_not_identity` exhibits) -/
theorem szudzikNat_injective {a b c d : Nat} (h : szudzikNat a b = szudzikNat c d) : a = c ∧ b = d := by
  have h1 := szudzik_bounds a b
  have h2 := szudzik_bounds c d
  have hm : max a b = max c d := by
    apply Classical.byContradiction
    intro hne
    rcases Nat.lt_or_gt_of_ne hne with hlt | hgt
    · have := Nat.mul_self_le_mul_self (show max a b + 1 ≤ max c d from hlt)
      omega
    · have := Nat.mul_self_le_mul_self (show max c d + 1 ≤ max a b from hgt)
      omega
  unfold szudzikNat at h
  by_cases c1 : a < b <;> by_cases c2 : c < d
  · rw [if_pos c1, if_pos c2] at h
    rw [Nat.max_eq_right (Nat.le_of_lt c1), Nat.max_eq_right (Nat.le_of_lt c2)] at hm
    subst hm; omega
  · rw [if_pos c1, if_neg c2] at h
    rw [Nat.max_eq_right (Nat.le_of_lt c1), Nat.max_eq_left (Nat.le_of_not_lt c2)] at hm
    subst hm; omega
  · rw [if_neg c1, if_pos c2] at h
    rw [Nat.max_eq_left (Nat.le_of_not_lt c1), Nat.max_eq_right (Nat.le_of_lt c2)] at hm
    subst hm; omega
  · rw [if_neg c1, if_neg c2] at h
    rw [Nat.max_eq_left (Nat.le_of_not_lt c1), Nat.max_eq_left (Nat.le_of_not_lt c2)] at hm
    subst hm; omega

/-- the model's `pairingSzudzik` on 64-bit words is that function whenever both arguments are below
`2^32` except that the result is reduced modulo `2^64` — and for arguments below `2^32 - 1` nothing is lost -/
theorem pairingSzudzik_small (a b : UInt64) (ha : a.toNat < 4294967295) (hb : b.toNat < 4294967295) :
    (pairingSzudzik a b).toNat = szudzikNat a.toNat b.toNat := by
  have hbb : b.toNat * b.toNat < 4294967295 * 4294967295 := Nat.mul_lt_mul'' hb hb
  have haa : a.toNat * a.toNat < 4294967295 * 4294967295 := Nat.mul_lt_mul'' ha ha
  unfold pairingSzudzik szudzikNat
  by_cases h : a < b
  · have h' : a.toNat < b.toNat := by simpa [UInt64.lt_iff_toNat_lt] using h
    rw [if_pos h, if_pos h', UInt64.toNat_add, UInt64.toNat_mul]
    omega
  · have h' : ¬ a.toNat < b.toNat := by simpa [UInt64.lt_iff_toNat_lt] using h
    rw [if_neg h, if_neg h', UInt64.toNat_add, UInt64.toNat_add, UInt64.toNat_mul]
    omega

end P
#print axioms P.szudzikNat_injective
#print axioms P.pairingSzudzik_small

namespace P

theorem Ref.raw_inj {r r' : Ref} (h : r.raw = r'.raw) : r = r' := by
  cases r with | mk i n => cases r' with | mk j m =>
  simp only [Ref.raw] at h
  cases n <;> cases m <;> simp at h ⊢ <;> omega

/-- the 64-bit hash of a *pair* of handles identifies the pair in every manager the constructors admit
(indices below `2^31 − 1`): Constrain / Restrict keys never collide with a key of the same kind through
the hash — collisions need a third word (the ITE keys and the node triples, where the outer pairing
wraps: `C18_hash_is_not_identity`) -/
theorem pair_hash_injective {f g f' g' : Ref}
    (hf : f.raw < 4294967295) (hg : g.raw < 4294967295) (hf' : f'.raw < 4294967295) (hg' : g'.raw < 4294967295)
    (h : (MyHash.hash (f, g) : UInt64) = MyHash.hash (f', g')) : f = f' ∧ g = g' := by
  have e : ∀ r : Ref, r.raw < 4294967295 → (MyHash.hash r : UInt64).toNat = r.raw := by
    intro r hr
    show (UInt64.ofNat r.raw).toNat = r.raw
    rw [UInt64.toNat_ofNat']; omega
  have h' := congrArg UInt64.toNat h
  change (pairingSzudzik (MyHash.hash f) (MyHash.hash g)).toNat =
    (pairingSzudzik (MyHash.hash f') (MyHash.hash g')).toNat at h'
  rw [pairingSzudzik_small _ _ (by rw [e f hf]; exact hf) (by rw [e g hg]; exact hg),
      pairingSzudzik_small _ _ (by rw [e f' hf']; exact hf') (by rw [e g' hg']; exact hg'),
      e f hf, e g hg, e f' hf', e g' hg'] at h'
  obtain ⟨a, b⟩ := szudzikNat_injective h'
  exact ⟨Ref.raw_inj a, Ref.raw_inj b⟩

end P
#print axioms P.pair_hash_injective

import BddModel.Hash
/-! `utils.rs`: the Cantor pairing function is injective (on the numbers where the `u64` arithmetic of
the code does not overflow it is the function on naturals modelled by `pairingCantor`), and the
Hopcroft–Ullman variant is the same function shifted by one in each argument. -/
namespace P

/-- triangular numbers -/
def tri (n : Nat) : Nat := n * (n + 1) / 2

theorem tri_succ (n : Nat) : tri (n + 1) = tri n + (n + 1) := by
  unfold tri
  have e : (n + 1) * (n + 1 + 1) = n * (n + 1) + 2 * (n + 1) := by
    rw [Nat.mul_add (n + 1) (n + 1) 1, Nat.mul_one, Nat.add_mul n 1 (n + 1), Nat.one_mul]
    omega
  rw [e, Nat.add_mul_div_left _ _ (by decide : 0 < 2)]

theorem tri_mono {m n : Nat} (h : m ≤ n) : tri m ≤ tri n := by
  induction h with
  | refl => exact Nat.le_refl _
  | step _ ih => rw [tri_succ]; omega

theorem pairingCantor_eq (a b : Nat) : pairingCantor a b = tri (a + b) + b := rfl

/-- the value determines the diagonal `a + b` -/
theorem cantor_diag {a b c d : Nat} (h : pairingCantor a b = pairingCantor c d) : a + b = c + d := by
  rw [pairingCantor_eq, pairingCantor_eq] at h
  apply Classical.byContradiction
  intro hne
  rcases Nat.lt_or_gt_of_ne hne with hlt | hgt
  · have h1 : tri (a + b + 1) ≤ tri (c + d) := tri_mono hlt
    rw [tri_succ] at h1; omega
  · have h1 : tri (c + d + 1) ≤ tri (a + b) := tri_mono hgt
    rw [tri_succ] at h1; omega

/-- **Cantor's pairing is injective** -/
theorem pairingCantor_injective {a b c d : Nat} (h : pairingCantor a b = pairingCantor c d) : a = c ∧ b = d := by
  have hd := cantor_diag h
  rw [pairingCantor_eq, pairingCantor_eq, hd] at h
  omega

/-- the Hopcroft–Ullman pairing of positive arguments is Cantor's pairing of their predecessors, with the
arguments swapped, plus one — hence injective on positive arguments as well -/
theorem pairingHopcroft_eq {a b : Nat} (ha : a ≠ 0) (hb : b ≠ 0) :
    pairingHopcroft a b = .ok (pairingCantor (b - 1) (a - 1) + 1) := by
  unfold pairingHopcroft
  rw [if_neg (by omega)]
  rw [pairingCantor_eq]
  unfold tri
  have e1 : a + b - 2 = b - 1 + (a - 1) := by omega
  have e2 : a + b - 1 = b - 1 + (a - 1) + 1 := by omega
  rw [e1, e2]
  congr 1; omega

theorem pairingHopcroft_injective {a b c d x : Nat} (ha : a ≠ 0) (hb : b ≠ 0) (hc : c ≠ 0) (hd : d ≠ 0)
    (h1 : pairingHopcroft a b = .ok x) (h2 : pairingHopcroft c d = .ok x) : a = c ∧ b = d := by
  rw [pairingHopcroft_eq ha hb] at h1
  rw [pairingHopcroft_eq hc hd] at h2
  have e : pairingCantor (b - 1) (a - 1) = pairingCantor (d - 1) (c - 1) := by
    have := Except.ok.inj h1; have := Except.ok.inj h2; omega
  have := pairingCantor_injective e
  omega

/-- zero arguments are rejected (the two `assert!`s) -/
theorem pairingHopcroft_zero (a b : Nat) (h : a = 0 ∨ b = 0) : pairingHopcroft a b = .error .assertion := by
  unfold pairingHopcroft; rw [if_pos h]

end P
#print axioms P.pairingCantor_injective
#print axioms P.pairingHopcroft_injective

import BddProofs.TotalBase
import BddProofs.SubstCor
/-! Totality of `substitute`, `substitute_multi` (`substMulti`) and `cofactor_cube` (`cofCube`):
structural descent into the children, so fuel above the level of `f` (plus the cube length for
`cofCube`) suffices.  The per-call memo must satisfy the invariant of the corresponding spec (the
empty memo of the entry points does). -/
namespace P
open Arr

/-! ### substitute -/

/-- the Rust `assert_ne!(v, 0)` -/
theorem substitute_var_zero (fuel : Nat) (s : St) (f : Ref) (b : Bool) (memo : SMemo) :
    substitute (fuel + 1) s f 0 b memo = .error (.assertion, s) := by
  unfold substitute; rw [if_pos rfl]

theorem substitute_total (V v : Nat) (b : Bool) (hv : v ≠ 0) : ∀ fuel s f φ memo, Good s → VarsLe s V →
    Valid s.nodes f φ → SMemoOk s.nodes v b memo → lv s V f < fuel →
    TotOut V (substitute fuel s f v b memo) := by
  intro fuel
  induction fuel with
  | zero => intro s f _ _ _ _ _ _ h; omega
  | succ fuel ih =>
    intro s f φ memo hg hV vf hm hmu
    unfold substitute
    rw [if_neg hv]
    by_cases ct : isTerminal f = true
    · rw [if_pos ct]; exact TotOut.ok hV _
    rw [if_neg ct]
    have hfnt : isTerminal f = false := by simpa using ct
    by_cases hlt : v < s.var f
    · rw [if_pos hlt]; exact TotOut.ok hV _
    rw [if_neg hlt]
    by_cases hvi : v = s.var f
    · rw [if_pos hvi]; exact TotOut.ok hV _
    rw [if_neg hvi]
    cases hl : memo.lookup f with
    | some res => exact TotOut.ok hV _
    | none =>
    simp only
    obtain ⟨hv1, hvV, φ0, φ1, vlo, vhi, -, -, llo, lhi⟩ := children_total hg hV vf hfnt
    rcases ih s (s.lowNode f) φ0 memo hg hV vlo hm (by omega) with ⟨s1', ⟨low, memo1⟩, e1, hV1⟩ | ⟨s1', e1⟩
    rotate_left
    · simp only [e1]; exact Or.inr ⟨_, rfl⟩
    simp only [e1]
    obtain ⟨g1', sub1, -, hm1⟩ := substitute_spec v b _ _ _ _ _ _ _ _ hg vlo hm e1
    obtain ⟨nf, hnf, -, -⟩ := nonterm_stored hg vf hfnt
    rw [St.highNode_mono hnf sub1]
    have l1 := lv_mono hg g1' sub1 V vhi
    rcases ih s1' (s.highNode f) φ1 memo1 g1' hV1 (vhi.mono sub1) hm1 (by omega) with
      ⟨s2, ⟨high, memo2⟩, e2, hV2⟩ | ⟨s2, e2⟩
    rotate_left
    · simp only [e2]; exact Or.inr ⟨_, rfl⟩
    simp only [e2]
    obtain ⟨g2', -, -, -⟩ := substitute_spec v b _ _ _ _ _ _ _ _ g1' (vhi.mono sub1) hm1 e2
    rcases mkNode_tot g2' hV2 (by omega : s.var f ≠ 0) hvV low high with ⟨s3, res, e3, hV3⟩ | ⟨s3, e3⟩
    · simp only [e3]; exact Or.inl ⟨_, _, rfl, hV3⟩
    · simp only [e3]; exact Or.inr ⟨_, rfl⟩

/-- totality of the entry point `substitute(f, v, b)` (fresh memo), spelled out -/
theorem substitute_total' {V fuel v : Nat} {b : Bool} {s : St} {f : Ref} {φ : Fn} (hg : Good s) (hV : VarsLe s V)
    (vf : Valid s.nodes f φ) (hv : v ≠ 0) (hfuel : lv s V f < fuel) :
    ((∃ s' r, substitute fuel s f v b [] = .ok (s', r)) ∨
      (∃ s', substitute fuel s f v b [] = .error (.storageFull, s'))) ∧
    (∀ s' r, substitute fuel s f v b [] = .ok (s', r) → VarsLe s' V) ∧
    (∀ e s', substitute fuel s f v b [] = .error (e, s') → e = .storageFull) :=
  (substitute_total V v b hv fuel s f φ [] hg hV vf (SMemoOk.nil _ _ _) hfuel).spec

/-! ### substitute_multi -/

theorem substMulti_total (V : Nat) (vals : Vals) : ∀ fuel s f φ memo, Good s → VarsLe s V →
    Valid s.nodes f φ → MMemoOk s.nodes vals memo → lv s V f < fuel →
    TotOut V (substMulti fuel s f vals memo) := by
  intro fuel
  induction fuel with
  | zero => intro s f _ _ _ _ _ _ h; omega
  | succ fuel ih =>
    intro s f φ memo hg hV vf hm hmu
    unfold substMulti
    by_cases ct : isTerminal f = true
    · rw [if_pos ct]; exact TotOut.ok hV _
    rw [if_neg ct]
    have hfnt : isTerminal f = false := by simpa using ct
    by_cases he : vals.isEmpty = true
    · rw [if_pos he]; exact TotOut.ok hV _
    rw [if_neg he]
    cases hl : memo.lookup f with
    | some res => exact TotOut.ok hV _
    | none =>
    simp only
    obtain ⟨hv1, hvV, φ0, φ1, vlo, vhi, -, -, llo, lhi⟩ := children_total hg hV vf hfnt
    obtain ⟨d0, dlo⟩ := vlo
    obtain ⟨d1, dhi⟩ := vhi
    -- a single descent into one child
    have one : ∀ (c : Ref) (ψ : Fn), Valid s.nodes c ψ → lv s V c < lv s V f →
        TotOut V (match substMulti fuel s c vals memo with
          | .error e => (.error e : Res (St × Ref × SMemo))
          | .ok (s1, res, memo1) => .ok (s1, res, (f, res) :: memo1)) := by
      intro c ψ vc lc
      rcases ih s c ψ memo hg hV vc hm (by omega) with ⟨s1', ⟨res, memo1⟩, e1, hV1⟩ | ⟨s1', e1⟩
      · simp only [e1]; exact Or.inl ⟨_, _, rfl, hV1⟩
      · simp only [e1]; exact Or.inr ⟨_, rfl⟩
    cases hvl : vals.lookup (s.var f) with
    | some b =>
      simp only
      cases b with
      | true => simp only [↓reduceIte]; exact one _ _ ⟨_, dhi⟩ lhi
      | false => simp only [Bool.false_eq_true, ↓reduceIte]; exact one _ _ ⟨_, dlo⟩ llo
    | none =>
      simp only
      rcases ih s (s.lowNode f) φ0 memo hg hV ⟨_, dlo⟩ hm (by omega) with ⟨s1', ⟨low, memo1⟩, e1, hV1⟩ | ⟨s1', e1⟩
      rotate_left
      · simp only [e1]; exact Or.inr ⟨_, rfl⟩
      simp only [e1]
      obtain ⟨g1', sub1, -, hm1⟩ := substMulti_spec vals _ _ _ _ _ _ _ _ _ hg dlo hm e1
      obtain ⟨nf, hnf, -, -⟩ := nonterm_stored hg vf hfnt
      rw [St.highNode_mono hnf sub1]
      have l1 := lv_mono hg g1' sub1 V (⟨_, dhi⟩ : Valid s.nodes (s.highNode f) φ1)
      rcases ih s1' (s.highNode f) φ1 memo1 g1' hV1 ⟨_, dhi.mono sub1⟩ hm1 (by omega) with
        ⟨s2, ⟨high, memo2⟩, e2, hV2⟩ | ⟨s2, e2⟩
      rotate_left
      · simp only [e2]; exact Or.inr ⟨_, rfl⟩
      simp only [e2]
      obtain ⟨g2', -, -, -⟩ := substMulti_spec vals _ _ _ _ _ _ _ _ _ g1' (dhi.mono sub1) hm1 e2
      rcases mkNode_tot g2' hV2 (by omega : s.var f ≠ 0) hvV low high with ⟨s3, res, e3, hV3⟩ | ⟨s3, e3⟩
      · simp only [e3]; exact Or.inl ⟨_, _, rfl, hV3⟩
      · simp only [e3]; exact Or.inr ⟨_, rfl⟩

/-- totality of the entry point `substitute_multi(f, vals)` (fresh memo), spelled out -/
theorem substMulti_total' {V fuel : Nat} {vals : Vals} {s : St} {f : Ref} {φ : Fn} (hg : Good s) (hV : VarsLe s V)
    (vf : Valid s.nodes f φ) (hfuel : lv s V f < fuel) :
    ((∃ s' r, substMulti fuel s f vals [] = .ok (s', r)) ∨
      (∃ s', substMulti fuel s f vals [] = .error (.storageFull, s'))) ∧
    (∀ s' r, substMulti fuel s f vals [] = .ok (s', r) → VarsLe s' V) ∧
    (∀ e s', substMulti fuel s f vals [] = .error (e, s') → e = .storageFull) :=
  (substMulti_total V vals fuel s f φ [] hg hV vf (MMemoOk.nil _ _) hfuel).spec

/-! ### cofactor_cube -/

theorem cofCube_total (V : Nat) (cube0 : Vals) : ∀ fuel s f φ cube memo, Good s → VarsLe s V →
    Valid s.nodes f φ → KMemoOk s.nodes cube0 memo →
    cube.Pairwise (fun a b => a.1 < b.1) → cube = cube0.drop (cube0.length - cube.length) →
    cube.length ≤ cube0.length → lv s V f + cube.length < fuel →
    TotOut V (cofCube fuel s f cube memo) := by
  intro fuel
  induction fuel with
  | zero => intro s f _ _ _ _ _ _ _ _ _ _ h; omega
  | succ fuel ih =>
    intro s f φ cube memo hg hV vf hm hasc hsuf hlen hmu
    cases cube with
    | nil => simp only [cofCube]; exact TotOut.ok hV _
    | cons p rest =>
    obtain ⟨u, b⟩ := p
    simp only [cofCube]
    by_cases ct : isTerminal f = true
    · rw [if_pos ct]; exact TotOut.ok hV _
    rw [if_neg ct]
    have hfnt : isTerminal f = false := by simpa using ct
    have hlen' : rest.length ≤ cube0.length := by simp at hlen; omega
    have hsuf' : rest = cube0.drop (cube0.length - rest.length) := by
      have h2 : (cube0.drop (cube0.length - (rest.length + 1))).drop 1 = rest := by
        simp only [List.length_cons] at hsuf; rw [← hsuf]; rfl
      rw [List.drop_drop] at h2
      have hl1 : rest.length + 1 ≤ cube0.length := by simpa using hlen
      have : cube0.length - rest.length = cube0.length - (rest.length + 1) + 1 := by omega
      rw [this]; exact h2.symm
    have hasc' := (List.pairwise_cons.mp hasc)
    simp only [List.length_cons] at hmu
    cases hl : memo.lookup (rest.length + 1, f) with
    | some res => exact TotOut.ok hV _
    | none =>
    simp only
    obtain ⟨hv1, hvV, φ0, φ1, vlo, vhi, -, -, llo, lhi⟩ := children_total hg hV vf hfnt
    obtain ⟨d0, dlo⟩ := vlo
    obtain ⟨d1, dhi⟩ := vhi
    obtain ⟨d, hden⟩ := vf
    -- a single continuation with the rest of the cube
    have one : ∀ (c : Ref) (ψ : Fn), Valid s.nodes c ψ → lv s V c ≤ lv s V f →
        TotOut V (match cofCube fuel s c rest memo with
          | .error e => (.error e : Res (St × Ref × KMemo))
          | .ok (s1, res, memo1) => .ok (s1, res, ((rest.length + 1, f), res) :: memo1)) := by
      intro c ψ vc lc
      obtain ⟨dc, hdc⟩ := vc
      rcases ih s c ψ rest memo hg hV ⟨_, hdc⟩ hm hasc'.2 hsuf' hlen' (by omega) with
        ⟨s1', ⟨res, memo1⟩, e1, hV1⟩ | ⟨s1', e1⟩
      · simp only [e1]; exact Or.inl ⟨_, _, rfl, hV1⟩
      · simp only [e1]; exact Or.inr ⟨_, rfl⟩
    by_cases hgt : s.var f > u
    · rw [if_pos hgt]; exact one f φ ⟨_, hden⟩ (Nat.le_refl _)
    rw [if_neg hgt]
    by_cases heq : s.var f = u
    · rw [if_pos heq]
      cases b with
      | true => simp only [↓reduceIte]; exact one _ _ ⟨_, dhi⟩ (Nat.le_of_lt lhi)
      | false => simp only [Bool.false_eq_true, ↓reduceIte]; exact one _ _ ⟨_, dlo⟩ (Nat.le_of_lt llo)
    rw [if_neg heq]
    rcases ih s (s.lowNode f) φ0 ((u, b) :: rest) memo hg hV ⟨_, dlo⟩ hm hasc hsuf hlen
      (by simp only [List.length_cons]; omega) with ⟨s1', ⟨low, memo1⟩, e1, hV1⟩ | ⟨s1', e1⟩
    rotate_left
    · simp only [e1]; exact Or.inr ⟨_, rfl⟩
    simp only [e1]
    obtain ⟨g1', sub1, -, hm1⟩ := cofCube_spec cube0 _ _ _ _ _ _ _ _ _ _ hg dlo hm hasc hsuf hlen e1
    have l1 := lv_mono hg g1' sub1 V (⟨_, dhi⟩ : Valid s.nodes (s.highNode f) φ1)
    rcases ih s1' (s.highNode f) φ1 ((u, b) :: rest) memo1 g1' hV1 ⟨_, dhi.mono sub1⟩ hm1 hasc hsuf hlen
      (by simp only [List.length_cons]; omega) with ⟨s2, ⟨high, memo2⟩, e2, hV2⟩ | ⟨s2, e2⟩
    rotate_left
    · simp only [e2]; exact Or.inr ⟨_, rfl⟩
    simp only [e2]
    obtain ⟨g2', -, -, -⟩ := cofCube_spec cube0 _ _ _ _ _ _ _ _ _ _ g1' (dhi.mono sub1) hm1 hasc hsuf hlen e2
    rcases mkNode_tot g2' hV2 (by omega : s.var f ≠ 0) hvV low high with ⟨s3, res, e3, hV3⟩ | ⟨s3, e3⟩
    · simp only [e3]; exact Or.inl ⟨_, _, rfl, hV3⟩
    · simp only [e3]; exact Or.inr ⟨_, rfl⟩

/-- totality of the entry point `cofactor_cube(f, cube)` (fresh memo) on a cube listed in ascending
variable order (the precondition of its specification), spelled out -/
theorem cofCube_total' {V fuel : Nat} {cube : Vals} {s : St} {f : Ref} {φ : Fn} (hg : Good s) (hV : VarsLe s V)
    (vf : Valid s.nodes f φ) (hasc : cube.Pairwise (fun a b => a.1 < b.1))
    (hfuel : lv s V f + cube.length < fuel) :
    ((∃ s' r, cofCube fuel s f cube [] = .ok (s', r)) ∨
      (∃ s', cofCube fuel s f cube [] = .error (.storageFull, s'))) ∧
    (∀ s' r, cofCube fuel s f cube [] = .ok (s', r) → VarsLe s' V) ∧
    (∀ e s', cofCube fuel s f cube [] = .error (e, s') → e = .storageFull) :=
  (cofCube_total V cube fuel s f φ cube [] hg hV vf (KMemoOk.nil _ _) hasc (by simp) (Nat.le_refl _) hfuel).spec

#print axioms substitute_total
#print axioms substitute_total'
#print axioms substMulti_total
#print axioms substMulti_total'
#print axioms cofCube_total
#print axioms cofCube_total'
end P

import BddProofs.Init
/-! The live-count invariant `RS` (defined in `LiveCountT.lean`, a field of `Good`) through the state-level
operations.  (Preservation by the sweep of `collect_garbage` is in `GcSim.lean`.) -/
namespace P
open Arr S

/-- the invariant holds in every freshly created manager -/
theorem init_RS {sb bb cb : Nat} {s : St} (h : St.newWith sb bb cb = .ok s) : RS s.storage := (init_good h).rs

theorem init_RS_default {bits : Nat} {s : St} (h : St.new bits = .ok s) : RS s.storage := init_RS h

theorem St.put_RS {s : St} (hg : Good s) (hrs : RS s.storage) {n : Node} {s' i}
    (h : s.put n = .ok (s', i)) : RS s'.storage := by
  unfold St.put at h
  cases hp : s.storage.put n with
  | error e => rw [hp] at h; cases h
  | ok p =>
    obtain ⟨t, k⟩ := p
    rw [hp] at h
    simp only [Except.ok.injEq, Prod.mk.injEq] at h
    obtain ⟨rfl, rfl⟩ := h
    obtain ⟨ch, hI⟩ := hg.tinv
    exact Table.put_RS hg.wf hI hrs hp

theorem mkNodeReg_RS {s : St} (hg : Good s) (hrs : RS s.storage) {v : Nat} {lo hi : Ref} {s' r}
    (h : mkNodeReg s v lo hi = .ok (s', r)) : RS s'.storage := by
  unfold mkNodeReg at h
  by_cases e : lo = hi
  · rw [if_pos e] at h
    simp only [Except.ok.injEq, Prod.mk.injEq] at h
    obtain ⟨rfl, -⟩ := h
    exact hrs
  · rw [if_neg e] at h
    cases hp : s.put ⟨v, lo, hi⟩ with
    | error e => rw [hp] at h; cases h
    | ok p =>
      obtain ⟨s1, k⟩ := p
      rw [hp] at h
      simp only [Except.ok.injEq, Prod.mk.injEq] at h
      obtain ⟨rfl, -⟩ := h
      exact St.put_RS hg hrs hp

/-- `mk_node` keeps the live count exact -/
theorem mkNode_RS {s : St} (hg : Good s) (hrs : RS s.storage) {v : Nat} {lo hi : Ref} {s' r}
    (h : mkNode s v lo hi = .ok (s', r)) : RS s'.storage := by
  unfold mkNode at h
  by_cases v0 : v = 0
  · rw [if_pos v0] at h; cases h
  rw [if_neg v0] at h
  by_cases hn : hi.neg = true
  · rw [if_pos hn] at h
    cases hm : mkNodeReg s v lo.not hi.not with
    | error e => rw [hm] at h; cases h
    | ok p =>
      obtain ⟨s1, r1⟩ := p
      rw [hm] at h
      simp only [Except.ok.injEq, Prod.mk.injEq] at h
      obtain ⟨rfl, -⟩ := h
      exact mkNodeReg_RS hg hrs hm
  · rw [if_neg hn] at h
    exact mkNodeReg_RS hg hrs h

/-- the cache operations do not touch the storage -/
theorem cacheGet_RS {s : St} (k : OpKey) (hrs : RS s.storage) : RS (s.cacheGet k).1.storage := hrs
theorem cacheInsert_RS {s : St} (k : OpKey) (r : Ref) (hrs : RS s.storage) : RS (s.cacheInsert k r).storage := hrs

#print axioms init_RS
#print axioms Table.put_RS
#print axioms mkNode_RS
end P

import BddProofs.Paths
import BddProofs.Constrain
/-! C08: `compose` substitutes a function for a variable (the per-call memo is the direct-mapped
`Cache (Ref × Ref) Ref` of the model; its invariant is phrased with `Cache.lookup`). -/
namespace P
open Arr

/-- `f` with variable `v` replaced by `g` -/
def Comp (φf : Fn) (v : Nat) (φg : Fn) : Fn := fun e => φf (upd e v (φg e))

def CMemoOk (nd : Nodes) (v : Nat) (memo : CCache) : Prop :=
  ∀ f g r, memo.lookup (f, g) = some r → ∃ φf φg, Valid nd f φf ∧ Valid nd g φg ∧ Valid nd r (Comp φf v φg)

theorem CMemoOk.mono {nd nd' v memo} (hs : Sub nd nd') (h : CMemoOk nd v memo) : CMemoOk nd' v memo := by
  intro f g r hl
  obtain ⟨a, b, x, y, z⟩ := h f g r hl
  exact ⟨a, b, x.mono hs, y.mono hs, z.mono hs⟩

/-- the empty per-call cache -/
theorem CMemoOk.new (nd : Nodes) (v bits : Nat) : CMemoOk nd v (Cache.new bits) := by
  intro f g r hl
  rw [Cache.lookup_new] at hl; cases hl

theorem CMemoOk.cons {nd v} {memo : CCache} {f g r φf φg} (h : CMemoOk nd v memo)
    (vf : Valid nd f φf) (vg : Valid nd g φg) (vr : Valid nd r (Comp φf v φg)) :
    CMemoOk nd v (memo.insert (f, g) r) := by
  intro f' g' r' hl
  rcases Cache.lookup_insert memo (f, g) r (f', g') hl with ⟨hk, rfl⟩ | hold
  · cases hk
    exact ⟨φf, φg, vf, vg, vr⟩
  · exact h f' g' r' hold

theorem comp_of_supp {φf : Fn} {v : Nat} (h : SuppGe φf (v + 1)) (φg : Fn) : Comp φf v φg = φf := by
  funext e; exact (h e _ (upd_agree' e v _ _ (Nat.lt_succ_self _))).symm

theorem SuppGe.comp {a c : Fn} {m v : Nat} (ha : SuppGe a m) (hc : SuppGe c m) : SuppGe (Comp a v c) m := by
  intro e e' hee
  simp only [Comp]
  rw [hc e e' hee]
  apply ha
  intro w hw
  by_cases hwv : w = v
  · subst hwv; simp
  · rw [upd_other _ _ _ _ hwv, upd_other _ _ _ _ hwv]; exact hee w hw

theorem comp_shannon (φf φg : Fn) {m v : Nat} (hmv : m ≠ v) :
    (fun e => if e m then Comp (cof φf m true) v (cof φg m true) e else Comp (cof φf m false) v (cof φg m false) e) =
      Comp φf v φg := by
  funext e
  have key : ∀ b, e m = b → Comp (cof φf m b) v (cof φg m b) e = Comp φf v φg e := by
    intro b hb
    simp only [Comp, cof]
    rw [upd_self hb]
    congr 1
    apply upd_self
    rw [upd_other _ _ _ _ hmv]; exact hb
  cases hb : e m
  · simp [key false hb]
  · simp [key true hb]

theorem compose_spec (v : Nat) : ∀ fuel s f g φf φg memo s' r memo', Good s →
    Valid s.nodes f φf → Valid s.nodes g φg → CMemoOk s.nodes v memo →
    compose fuel s f v g memo = .ok (s', r, memo') →
    Good s' ∧ Sub s.nodes s'.nodes ∧ Valid s'.nodes r (Comp φf v φg) ∧ CMemoOk s'.nodes v memo' := by
  intro fuel
  induction fuel with
  | zero => intro s f g φf φg memo s' r memo' _ _ _ _ hres; simp [compose] at hres
  | succ fuel ih =>
    intro s f g φf φg memo s' r memo' hg vf vg hm hres
    have h1 := hg.inv.noterm
    have triv : ∀ {x}, Valid s.nodes x (Comp φf v φg) →
        (.ok (s, x, memo) : Res (St × Ref × CCache)) = .ok (s', r, memo') →
        Good s' ∧ Sub s.nodes s'.nodes ∧ Valid s'.nodes r (Comp φf v φg) ∧ CMemoOk s'.nodes v memo' := by
      intro x vx heq
      simp only [Except.ok.injEq, Prod.mk.injEq] at heq
      obtain ⟨rfl, rfl, rfl⟩ := heq
      exact ⟨hg, fun _ _ x => x, vx, hm⟩
    unfold compose at hres
    by_cases ct : isTerminal f = true
    · rw [if_pos ct] at hres
      refine triv ?_ hres
      have : SuppGe φf (v + 1) := by
        simp only [isTerminal, Bool.or_eq_true] at ct
        rcases ct with c | c
        · rw [one_fn h1 c vf]; exact SuppGe.const _ _
        · rw [zero_fn h1 c vf]; exact SuppGe.const _ _
      rw [comp_of_supp this]; exact vf
    rw [if_neg ct] at hres
    have hfnt : isTerminal f = false := by simpa using ct
    clear ct
    by_cases hi0 : s.var f = 0
    · rw [if_pos hi0] at hres; cases hres
    rw [if_neg hi0] at hres
    by_cases hlt : v < s.var f
    · rw [if_pos hlt] at hres
      refine triv ?_ hres
      have : SuppGe φf (v + 1) := supp_of_var hg vf (fun _ => by omega)
      rw [comp_of_supp this]; exact vf
    rw [if_neg hlt] at hres
    cases hl : memo.lookup (f, g) with
    | some res =>
      simp only [hl] at hres
      obtain ⟨a, b, va, vb, vr⟩ := hm f g res hl
      have e1 := vf.det h1 va; have e2 := vg.det h1 vb
      subst e1; subst e2
      exact triv vr hres
    | none =>
    simp only [hl] at hres
    obtain ⟨d, hden⟩ := vf
    by_cases hvi : v = s.var f
    · rw [if_pos hvi] at hres
      -- substitute at the node itself: ITE(g, high, low)
      obtain ⟨nn, hnn⟩ : ∃ nn, s.nodes f.idx = some nn := by
        rcases valid_stored ⟨d, hden⟩ with h | h
        · exfalso; rcases f with ⟨i, b⟩; simp at h; subst h
          cases b <;> simp [isTerminal, isOne, isZero, Ref.one, Ref.zero] at hfnt
        · exact h
      have hlow : s.low f.idx = nn.low := St.low_of hnn
      have hhigh : s.high f.idx = nn.high := St.high_of hnn
      have hvar : s.var f = nn.var := St.var_of hnn
      rw [hlow, hhigh] at hres
      cases e1 : applyIte fuel s g nn.high nn.low with
      | error e => simp [e1] at hres
      | ok p1 =>
      obtain ⟨s1, r1⟩ := p1
      simp only [e1, Except.ok.injEq, Prod.mk.injEq] at hres
      obtain ⟨rfl, rfl, rfl⟩ := hres
      -- the regular function at this index
      rcases f with ⟨i, b⟩
      have key : ∀ ψ, Den s.nodes d ⟨i, false⟩ ψ → ∃ φ0 φ1, Valid s.nodes nn.low φ0 ∧ Valid s.nodes nn.high φ1 ∧
          SuppGe φ0 (nn.var + 1) ∧ SuppGe φ1 (nn.var + 1) ∧ ψ = (fun e => if e nn.var then φ1 e else φ0 e) := by
        intro ψ hψ
        rcases hψ.regInv with ⟨e1', -, -⟩ | ⟨n', d0, d1, φ0, φ1, hn', h0, h1', -, hφ⟩
        · subst e1'; rw [h1] at hnn; cases hnn
        · have : n' = nn := by simp at hnn; rw [hnn] at hn'; exact (Option.some.inj hn').symm
          subst this
          exact ⟨φ0, φ1, ⟨_, h0⟩, ⟨_, h1'⟩, h0.supp hg.inv _ (hg.inv.ordLow _ _ hn'),
            h1'.supp hg.inv _ (hg.inv.ordHigh _ _ hn'), hφ⟩
      have core : ∀ ψ, Den s.nodes d ⟨i, false⟩ ψ → Good s1 ∧ Sub s.nodes s1.nodes ∧ Valid s1.nodes r1 (Comp ψ v φg) := by
        intro ψ hψ
        obtain ⟨φ0, φ1, v0, v1, s0, s1', hφ⟩ := key ψ hψ
        obtain ⟨x, y, z⟩ := applyIte_spec fuel _ _ _ _ _ _ _ _ _ hg vg v1 v0 e1
        refine ⟨x, y, ?_⟩
        have : Comp ψ v φg = ITE φg φ1 φ0 := by
          funext e
          simp only [Comp, ITE, hφ, hvi, hvar, upd_same]
          by_cases hge : φg e = true
          · simp only [hge, ↓reduceIte]; exact (s1' e _ (upd_agree' e _ true _ (Nat.lt_succ_self _))).symm
          · have hge' : φg e = false := by simpa using hge
            simp only [hge', Bool.false_eq_true, ↓reduceIte]; exact (s0 e _ (upd_agree' e _ false _ (Nat.lt_succ_self _))).symm
        rw [this]; exact z
      cases b with
      | false =>
        obtain ⟨x, y, z⟩ := core φf hden
        simp only [Bool.false_eq_true, ↓reduceIte]
        exact ⟨x, y, z, (hm.mono y).cons (Valid.mono y ⟨d, hden⟩) (vg.mono y) z⟩
      | true =>
        obtain ⟨ψ, hψ, rfl⟩ := hden.negInv
        obtain ⟨x, y, z⟩ := core ψ hψ
        simp only [↓reduceIte]
        have z' : Valid s1.nodes r1.not (Comp (fun e => !ψ e) v φg) := z.not
        exact ⟨x, y, z', (hm.mono y).cons (Valid.mono y ⟨d, hden⟩) (vg.mono y) z'⟩
    · rw [if_neg hvi] at hres
      have vf : Valid s.nodes f φf := ⟨d, hden⟩
      generalize hmdef : (if isTerminal g = true then s.var f else min (s.var f) (s.var g)) = m at hres
      by_cases hm0 : m = 0
      · rw [if_pos hm0] at hres; cases hres
      rw [if_neg hm0] at hres
      have hmf : m ≤ s.var f := by rw [← hmdef]; split <;> omega
      have sf : SuppGe φf m := supp_of_var hg vf (fun _ => hmf)
      have sg : SuppGe φg m := by
        by_cases hgt : isTerminal g = true
        · simp only [isTerminal, Bool.or_eq_true] at hgt
          rcases hgt with c | c
          · rw [one_fn h1 c vg]; exact SuppGe.const _ _
          · rw [zero_fn h1 c vg]; exact SuppGe.const _ _
        · apply supp_of_var hg vg
          intro _; rw [← hmdef, if_neg hgt]; omega
      cases hcf : topCofactors s f m with
      | error e => simp [hcf] at hres
      | ok pf =>
      cases hcg : topCofactors s g m with
      | error e => simp [hcf, hcg] at hres
      | ok pg =>
      obtain ⟨f0, f1⟩ := pf; obtain ⟨g0, g1⟩ := pg
      simp only [hcf, hcg] at hres
      obtain ⟨vf0, vf1⟩ := topCofactors_spec hg vf sf hcf
      obtain ⟨vg0, vg1⟩ := topCofactors_spec hg vg sg hcg
      cases e1 : compose fuel s f0 v g0 memo with
      | error e => simp [e1] at hres
      | ok p1 =>
      obtain ⟨s1, h0, memo1⟩ := p1
      simp only [e1] at hres
      obtain ⟨g1', sub1, vh0, hm1⟩ := ih _ _ _ _ _ _ _ _ _ hg vf0 vg0 hm e1
      cases e2 : compose fuel s1 f1 v g1 memo1 with
      | error e => simp [e2] at hres
      | ok p2 =>
      obtain ⟨s2, hh1, memo2⟩ := p2
      simp only [e2] at hres
      obtain ⟨g2', sub2, vh1, hm2⟩ := ih _ _ _ _ _ _ _ _ _ g1' (vf1.mono sub1) (vg1.mono sub1) hm1 e2
      cases e3 : mkNode s2 m h0 hh1 with
      | error e => simp [e3] at hres
      | ok p3 =>
      obtain ⟨s3, res⟩ := p3
      simp only [e3, Except.ok.injEq, Prod.mk.injEq] at hres
      obtain ⟨rfl, rfl, rfl⟩ := hres
      obtain ⟨g3', sub3, _, vres⟩ := mkNode_spec g2' (vh0.mono sub2) vh1
        (SuppGe.comp (suppGe_cof_succ sf) (suppGe_cof_succ sg)) (SuppGe.comp (suppGe_cof_succ sf) (suppGe_cof_succ sg)) e3
      have sub03 : Sub s.nodes s3.nodes := fun i n x => sub3 _ _ (sub2 _ _ (sub1 _ _ x))
      have hmv : m ≠ v := by omega
      rw [comp_shannon φf φg hmv] at vres
      exact ⟨g3', sub03, vres, (hm2.mono sub3).cons (vf.mono sub03) (vg.mono sub03) vres⟩

/-- `compose` is `ite(g, f|v=1, f|v=0)` as a function -/
theorem comp_eq_ite (φf : Fn) (v : Nat) (φg : Fn) :
    Comp φf v φg = ITE φg (cof φf v true) (cof φf v false) := by
  funext e
  simp only [Comp, ITE, cof]
  by_cases h : φg e = true
  · simp [h]
  · have h' : φg e = false := by simpa using h
    simp [h']

/-- C08 for the entry point `compose(f, v, g)` (fresh per-call cache of 2^16 entries) -/
theorem composeTop_spec {fuel : Nat} {s : St} {f g : Ref} {v : Nat} {φf φg : Fn} {s' : St} {r : Ref}
    (hg : Good s) (vf : Valid s.nodes f φf) (vg : Valid s.nodes g φg)
    (hres : composeTop fuel s f v g = .ok (s', r)) :
    Good s' ∧ Sub s.nodes s'.nodes ∧ Valid s'.nodes r (Comp φf v φg) := by
  unfold composeTop at hres
  cases hc : compose fuel s f v g (Cache.new 16) with
  | error e => rw [hc] at hres; cases hres
  | ok p =>
    obtain ⟨s1, r1, memo1⟩ := p
    rw [hc] at hres
    simp only [Except.ok.injEq, Prod.mk.injEq] at hres
    obtain ⟨rfl, rfl⟩ := hres
    obtain ⟨a, b, c, _⟩ := compose_spec v fuel s f g φf φg _ _ _ _ hg vf vg (CMemoOk.new _ _ _) hc
    exact ⟨a, b, c⟩

/-- the same, with the result written as `ite(g, f|v=1, f|v=0)` -/
theorem composeTop_ite {fuel : Nat} {s : St} {f g : Ref} {v : Nat} {φf φg : Fn} {s' : St} {r : Ref}
    (hg : Good s) (vf : Valid s.nodes f φf) (vg : Valid s.nodes g φg)
    (hres : composeTop fuel s f v g = .ok (s', r)) :
    Good s' ∧ Sub s.nodes s'.nodes ∧ Valid s'.nodes r (ITE φg (cof φf v true) (cof φf v false)) := by
  rw [← comp_eq_ite]; exact composeTop_spec hg vf vg hres

#print axioms compose_spec
#print axioms composeTop_spec
#print axioms composeTop_ite
end P

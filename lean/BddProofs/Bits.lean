import BddModel.Bits
/-! The packed machine words of `reference.rs` and `table.rs::Entry`, and the `i32` literal
conversions, behave as the pairs / integers the rest of the model uses — exactly below `2^31`.

Everything is proved from core `BitVec` / `Nat` lemmas and `omega` (no `bv_decide`, so no native
axiom).  A natural number is characterised by its half and its parity (`nat_ext2`); each word operation
is computed on those two components with `Nat.and_div_two`, `Nat.or_div_two`, `Nat.xor_div_two` and the
`…_mod_two_eq_one` lemmas. -/
namespace P.Bits

theorem nat_ext2 {a b : Nat} (h1 : a / 2 = b / 2) (h2 : a % 2 = 1 ↔ b % 2 = 1) : a = b := by omega

theorem shl1_toNat (i : BitVec 32) : (i <<< 1).toNat = i.toNat * 2 % 4294967296 := by
  rw [BitVec.toNat_shiftLeft, Nat.shiftLeft_eq]
theorem and1_toNat (w : BitVec 32) : (w &&& 1).toNat = w.toNat % 2 := by
  rw [BitVec.toNat_and]; exact Nat.and_one_is_mod _
theorem shr1_toNat (w : BitVec 32) : (w >>> 1).toNat = w.toNat / 2 := by
  rw [BitVec.toNat_ushiftRight, Nat.shiftRight_eq_div_pow]

theorem two_mul_or (a b : Nat) (hb : b < 2) : 2 * a ||| b = 2 * a + b := by
  have := Nat.two_pow_add_eq_or_of_lt (i := 1) (by simpa using hb) a
  simpa using this.symm

/-- packing `(a, bit)` into one word -/
theorem pack_toNat (a b : BitVec 32) (ha : a.toNat < 2147483648) (hb : b.toNat < 2) :
    ((a <<< 1) ||| b).toNat = 2 * a.toNat + b.toNat := by
  rw [BitVec.toNat_or, shl1_toNat]
  have e : a.toNat * 2 % 4294967296 = 2 * a.toNat := by omega
  rw [e, two_mul_or _ _ hb]

theorem bit_toNat (n : Bool) : ((if n then 1 else 0 : BitVec 32)).toNat = if n then 1 else 0 := by
  cases n <;> rfl

theorem ne_zero_iff_toNat (w : BitVec 32) : (w != 0) = decide (w.toNat ≠ 0) := by
  by_cases h : w = 0
  · subst h; simp
  · have h' : w.toNat ≠ 0 := fun h0 => h (BitVec.eq_of_toNat_eq (by simpa using h0))
    have : (w != 0) = true := by simpa using h
    rw [this]; simp [h']

theorem lowbit_eq (w : BitVec 32) : (w &&& 1 != 0) = decide (w.toNat % 2 = 1) := by
  rw [ne_zero_iff_toNat, and1_toNat]
  by_cases h : w.toNat % 2 = 1
  · simp [h]
  · have : w.toNat % 2 = 0 := by omega
    simp [this]

theorem xor1_toNat (w : BitVec 32) :
    (w ^^^ 1).toNat = if w.toNat % 2 = 1 then w.toNat - 1 else w.toNat + 1 := by
  rw [BitVec.toNat_xor]
  show w.toNat ^^^ 1 = _
  have hd : (w.toNat ^^^ 1) / 2 = w.toNat / 2 := by rw [Nat.xor_div_two]; simp
  have hm : (w.toNat ^^^ 1) % 2 = 1 ↔ ¬ (w.toNat % 2 = 1) := by rw [Nat.xor_mod_two_eq_one]; simp
  by_cases c : w.toNat % 2 = 1
  · rw [if_pos c]; apply nat_ext2 <;> omega
  · rw [if_neg c]; apply nat_ext2 <;> omega

theorem andNot1_toNat (w : BitVec 32) : (w &&& ~~~1).toNat = w.toNat - w.toNat % 2 := by
  rw [BitVec.toNat_and]
  have e : (~~~(1 : BitVec 32)).toNat = 4294967294 := by decide
  rw [e]
  have hw := w.isLt
  have hd : (w.toNat &&& 4294967294) / 2 = w.toNat / 2 := by
    rw [Nat.and_div_two]
    show w.toNat / 2 &&& (2 ^ 31 - 1) = _
    rw [Nat.and_two_pow_sub_one_eq_mod]; omega
  have hm : ¬ ((w.toNat &&& 4294967294) % 2 = 1) := by rw [Nat.and_mod_two_eq_one]; omega
  apply nat_ext2 <;> omega

/-! ### `Ref` -/

theorem refNew_toNat (i : BitVec 32) (n : Bool) (h : i.toNat < 2147483648) :
    (refNew i n).toNat = 2 * i.toNat + (if n then 1 else 0) := by
  unfold refNew
  rw [pack_toNat _ _ h (by cases n <;> decide), bit_toNat]

/-- `Ref::new(i, n).index() == i` for every index the constructor accepts (`i < 2^31`) -/
theorem refIndex_new (i : BitVec 32) (n : Bool) (h : i.toNat < 2147483648) : refIndex (refNew i n) = i := by
  apply BitVec.eq_of_toNat_eq
  unfold refIndex
  rw [shr1_toNat, refNew_toNat i n h]
  cases n <;> simp <;> omega

theorem refIsNegated_eq (w : BitVec 32) : refIsNegated w = decide (w.toNat % 2 = 1) := lowbit_eq w

/-- `Ref::new(i, n).is_negated() == n` -/
theorem refIsNegated_new (i : BitVec 32) (n : Bool) (h : i.toNat < 2147483648) :
    refIsNegated (refNew i n) = n := by
  rw [refIsNegated_eq, refNew_toNat i n h]
  cases n <;> simp <;> omega

/-- `-Ref::new(i, n) == Ref::new(i, !n)`: negation flips the complement bit and nothing else -/
theorem refNeg_new (i : BitVec 32) (n : Bool) (h : i.toNat < 2147483648) :
    refNeg (refNew i n) = refNew i (!n) := by
  apply BitVec.eq_of_toNat_eq
  unfold refNeg
  rw [xor1_toNat, refNew_toNat i n h, refNew_toNat i (!n) h]
  cases n <;> simp <;> omega

/-- negation of *any* word: same index, opposite flag, an involution without fixed points -/
theorem refNeg_index (w : BitVec 32) : refIndex (refNeg w) = refIndex w := by
  apply BitVec.eq_of_toNat_eq
  unfold refIndex refNeg
  rw [shr1_toNat, shr1_toNat, xor1_toNat]
  split <;> omega
theorem refNeg_isNegated (w : BitVec 32) : refIsNegated (refNeg w) = !refIsNegated w := by
  rw [refIsNegated_eq, refIsNegated_eq]
  unfold refNeg
  rw [xor1_toNat]
  by_cases c : w.toNat % 2 = 1
  · rw [if_pos c]; simp [c]; omega
  · rw [if_neg c]; simp [c]; omega
theorem refNeg_involutive (w : BitVec 32) : refNeg (refNeg w) = w := by
  apply BitVec.eq_of_toNat_eq
  unfold refNeg
  rw [xor1_toNat, xor1_toNat]
  have := w.isLt
  by_cases c : w.toNat % 2 = 1
  · rw [if_pos c]
    have c2 : ¬ ((w.toNat - 1) % 2 = 1) := by omega
    rw [if_neg c2]; omega
  · rw [if_neg c]
    have c2 : (w.toNat + 1) % 2 = 1 := by omega
    rw [if_pos c2]; omega
theorem refNeg_ne (w : BitVec 32) : refNeg w ≠ w := by
  intro h
  have := congrArg refIsNegated h
  rw [refNeg_isNegated] at this
  cases hb : refIsNegated w <;> simp [hb] at this

/-- `hashy` is the raw word, zero-extended: `2 * index + negated`, the number the model hashes -/
theorem refHashy_toNat (w : BitVec 32) : (refHashy w).toNat = w.toNat := by
  unfold refHashy
  rw [BitVec.toNat_setWidth]
  have := w.isLt; omega

/-- **the packed word is the model's pair**: for a model handle with `idx < 2^31`, decoding the
packed word gives the handle back, its numeric value is the model's `Ref.raw`, and the word-level
negation is the model's `Ref.not` -/
theorem toRef_ofRef (r : Ref) (h : r.idx < 2147483648) :
    toRef (ofRef r) = r ∧ (ofRef r).toNat = r.raw ∧ refNeg (ofRef r) = ofRef r.not := by
  have hi : (BitVec.ofNat 32 r.idx).toNat = r.idx := by
    rw [BitVec.toNat_ofNat]; omega
  have hlt : (BitVec.ofNat 32 r.idx).toNat < 2147483648 := by rw [hi]; exact h
  refine ⟨?_, ?_, ?_⟩
  · unfold toRef ofRef
    rw [refIndex_new _ _ hlt, refIsNegated_new _ _ hlt, hi]
  · unfold ofRef Ref.raw
    rw [refNew_toNat _ _ hlt, hi]
  · unfold ofRef Ref.not
    exact refNeg_new _ _ hlt

/-- every word is the packing of exactly one model handle (the decoding is a bijection onto
`idx < 2^31`) -/
theorem ofRef_toRef (w : BitVec 32) : ofRef (toRef w) = w ∧ (toRef w).idx < 2147483648 := by
  have hw := w.isLt
  have hidx : (toRef w).idx = w.toNat / 2 := by unfold toRef refIndex; rw [shr1_toNat]
  have hlt : (toRef w).idx < 2147483648 := by rw [hidx]; omega
  refine ⟨?_, hlt⟩
  apply BitVec.eq_of_toNat_eq
  rw [(toRef_ofRef (toRef w) hlt).2.1]
  unfold Ref.raw
  rw [hidx]
  show 2 * (w.toNat / 2) + (if refIsNegated w = true then 1 else 0) = w.toNat
  rw [refIsNegated_eq]
  by_cases c : w.toNat % 2 = 1
  · simp [c]; omega
  · simp [c]; omega

/-- the bound is sharp: the constructor's `debug_assert!(index < 0x8000_0000)` guards a real loss —
index `2^31` packs to the same word as index 0 -/
theorem refNew_overflow : refNew 0x80000000#32 false = refNew 0#32 false ∧
    refIndex (refNew 0x80000000#32 true) = 0#32 := by decide

/-! ### `Entry::next`: the word is the pair (link, occupied) -/

theorem entSetNext_toNat (w n : BitVec 32) (h : n.toNat < 2147483648) :
    (entSetNext w n).toNat = 2 * n.toNat + w.toNat % 2 := by
  unfold entSetNext
  rw [pack_toNat _ _ h (by rw [and1_toNat]; omega), and1_toNat]

/-- `set_next(n); next() == n`, for every `n` the assertion of `set_next` lets through -/
theorem entNext_setNext (w n : BitVec 32) (h : n.toNat < 2147483648) : entNext (entSetNext w n) = n := by
  apply BitVec.eq_of_toNat_eq
  unfold entNext
  rw [shr1_toNat, entSetNext_toNat w n h]; omega
/-- `set_next` leaves the occupied flag alone -/
theorem entOccupied_setNext (w n : BitVec 32) (h : n.toNat < 2147483648) :
    entOccupied (entSetNext w n) = entOccupied w := by
  unfold entOccupied
  rw [lowbit_eq, lowbit_eq, entSetNext_toNat w n h]
  congr 1; apply propext; omega

theorem entSetOccupied_toNat (w : BitVec 32) (b : Bool) :
    (entSetOccupied w b).toNat = w.toNat - w.toNat % 2 + (if b then 1 else 0) := by
  unfold entSetOccupied
  rw [BitVec.toNat_or, andNot1_toNat, bit_toNat]
  have e : w.toNat - w.toNat % 2 = 2 * (w.toNat / 2) := by omega
  rw [e, two_mul_or _ _ (by cases b <;> decide)]

/-- `set_occupied(b); occupied() == b` -/
theorem entOccupied_setOccupied (w : BitVec 32) (b : Bool) : entOccupied (entSetOccupied w b) = b := by
  unfold entOccupied
  rw [lowbit_eq, entSetOccupied_toNat]
  cases b <;> simp <;> omega
/-- `set_occupied` leaves the link alone — for every word, no bound needed -/
theorem entNext_setOccupied (w : BitVec 32) (b : Bool) : entNext (entSetOccupied w b) = entNext w := by
  apply BitVec.eq_of_toNat_eq
  unfold entNext
  rw [shr1_toNat, shr1_toNat, entSetOccupied_toNat]
  cases b <;> simp <;> omega
/-- a fresh entry (`next: 0`) is free and unlinked -/
theorem ent_fresh : entNext 0#32 = 0#32 ∧ entOccupied 0#32 = false := by decide

/-! ### literals -/

theorem slt0_eq (x : BitVec 32) : x.slt 0 = decide (2147483648 ≤ x.toNat) := by
  have hx := x.isLt
  show decide (x.toInt < (0 : BitVec 32).toInt) = _
  rw [BitVec.toInt_eq_toNat_cond]
  have z : (0 : BitVec 32).toInt = 0 := by decide
  rw [z]
  by_cases c : 2147483648 ≤ x.toNat
  · have c' : ¬ (2 * x.toNat < 2 ^ 32) := by omega
    rw [if_neg c']; simp only [c, decide_true]; rw [decide_eq_true_iff]; omega
  · have c' : 2 * x.toNat < 2 ^ 32 := by omega
    rw [if_pos c']; simp only [c, decide_false]; rw [decide_eq_false_iff_not]; omega

theorem neg_toNat (v : BitVec 32) (h0 : v.toNat ≠ 0) : (-v).toNat = 4294967296 - v.toNat := by
  rw [BitVec.toNat_neg]
  have := v.isLt
  omega

/-- a variable `1 ≤ v ≤ 2^31 − 1` written as the positive literal `v as i32` reads back as itself:
not negative, `lit as u32 == v`, `unsigned_abs() == v`, and its value as a signed integer is `v` -/
theorem lit_pos_roundtrip (v : BitVec 32) (h1 : 1 ≤ v.toNat) (h2 : v.toNat ≤ 2147483647) :
    litIsNeg (litPos v) = false ∧ litVar (litPos v) = v ∧ litUnsignedAbs (litPos v) = v ∧
      (litPos v).toInt = v.toNat := by
  have hs : v.slt 0 = false := by rw [slt0_eq]; simp; omega
  refine ⟨hs, ?_, ?_, ?_⟩
  · unfold litVar litIsNeg litPos; rw [hs]; rfl
  · unfold litUnsignedAbs litPos; rw [hs]; rfl
  · unfold litPos; rw [BitVec.toInt_eq_toNat_cond]; split <;> omega

/-- … and as the negative literal `-(v as i32)`: negative, `-lit as u32 == v`, `unsigned_abs() == v`,
signed value `-v` -/
theorem lit_neg_roundtrip (v : BitVec 32) (h1 : 1 ≤ v.toNat) (h2 : v.toNat ≤ 2147483647) :
    litIsNeg (litNeg v) = true ∧ litVar (litNeg v) = v ∧ litUnsignedAbs (litNeg v) = v ∧
      (litNeg v).toInt = -(v.toNat : Int) := by
  have hn : (-v).toNat = 4294967296 - v.toNat := neg_toNat v (by omega)
  have hs : (-v).slt 0 = true := by rw [slt0_eq, hn]; simp; omega
  have hnn : - -v = v := BitVec.neg_neg
  refine ⟨hs, ?_, ?_, ?_⟩
  · unfold litVar litIsNeg litNeg; rw [hs]; simp
  · unfold litUnsignedAbs litNeg; rw [hs]; simp
  · unfold litNeg; rw [BitVec.toInt_eq_toNat_cond, hn]; split <;> omega

/-- the model's reading of a literal (`litOfInt` on the signed value) is what the word-level code
computes, for every literal other than `0` and `i32::MIN` -/
theorem lit_word_is_int (lit : BitVec 32) (h0 : lit.toNat ≠ 0) (hmin : lit.toNat ≠ 2147483648) :
    (litVar lit).toNat = lit.toInt.natAbs ∧ (!litIsNeg lit) = decide (0 < lit.toInt) := by
  have hl := lit.isLt
  unfold litVar litIsNeg
  rw [slt0_eq, BitVec.toInt_eq_toNat_cond]
  by_cases c : 2147483648 ≤ lit.toNat
  · have c' : ¬ (2 * lit.toNat < 2 ^ 32) := by omega
    rw [if_neg c']
    simp only [c, decide_true, if_true, Bool.not_true]
    rw [neg_toNat lit h0]
    refine ⟨by omega, ?_⟩
    symm; rw [decide_eq_false_iff_not]; omega
  · have c' : 2 * lit.toNat < 2 ^ 32 := by omega
    rw [if_pos c']
    simp only [c, decide_false, Bool.false_eq_true, if_false, Bool.not_false]
    refine ⟨by omega, ?_⟩
    symm; rw [decide_eq_true_iff]; omega

/-- the excluded literal is a real exception: variable `2^31` written positively is read as a
*negative* literal (of the same variable), and `-(i32::MIN)` is itself (DESIGN §10) -/
theorem lit_min_witness : litIsNeg (litPos 0x80000000#32) = true ∧ litNeg 0x80000000#32 = 0x80000000#32 ∧
    litVar (litPos 0x80000000#32) = 0x80000000#32 := by decide

end P.Bits

import BddProofs.RawRehash
/-! RawTable on the executable array model — why repair D3 (`reserve(2)` before the probe of
`find_or_free`) is exactly what the proof needs: with two FREE slots before an insertion, one remains
afterwards, so every later probe loop terminates.  Port of `spikes/RawCount.lean`, followed by the
counting lemmas (`nFull`, `nFree` under `setSlot`) that thread `len = #full`, `free ≤ #FREE` through
the operations in `RawOps.lean`. -/
namespace R
set_option linter.unusedSectionVars false
variable {κ ν : Type} [DecidableEq κ]

def nFree (t : Raw κ ν) : Nat := Cn.countOcc (fun i => (t.slot i).isFree) t.cap

theorem exists_of_count_pos {occ : Nat → Bool} : ∀ {n : Nat}, 1 ≤ Cn.countOcc occ n → ∃ i, i < n ∧ occ i = true := by
  intro n
  induction n with
  | zero => intro h; simp [Cn.countOcc] at h
  | succ n ih =>
    intro h
    rw [Cn.countOcc_succ] at h
    by_cases ho : occ n = true
    · exact ⟨n, by omega, ho⟩
    · simp only [ho, Bool.false_eq_true, ↓reduceIte, Nat.add_zero] at h
      obtain ⟨i, hi, hoi⟩ := ih h
      exact ⟨i, by omega, hoi⟩

/-- two FREE slots: whichever one an insertion takes, another stays FREE -/
theorem exists_other_free {t : Raw κ ν} (h2 : 2 ≤ nFree t) (p : Nat) (hp : p < t.cap) (hf : (t.slot p).isFree = true) :
    ∃ i, i < t.cap ∧ i ≠ p ∧ t.slot i = .free := by
  have := Cn.countOcc_clear (occ := fun i => (t.slot i).isFree) hp hf
  have h1 : 1 ≤ Cn.countOcc (fun j => if j = p then false else (t.slot j).isFree) t.cap := by
    unfold nFree at h2; omega
  obtain ⟨i, hi, hoi⟩ := exists_of_count_pos h1
  by_cases e : i = p
  · simp [e] at hoi
  · simp only [e, ↓reduceIte] at hoi
    refine ⟨i, hi, e, ?_⟩
    cases hs : t.slot i <;> simp [hs, Slot.isFree] at hoi
    rfl

/-- the counter invariant: `free` never overcounts the FREE slots -/
def FreeOk (t : Raw κ ν) : Prop := t.free ≤ nFree t

/-- C19 / D3: with `free ≥ 2` guaranteed by `reserve(2)`, the hypothesis `hfree2` of
`insert_absent_refines` is met, and after the insertion `free ≥ 1` still holds -/
theorem insert_keeps_a_free_slot {t : Raw κ ν} (hok : FreeOk t) (h2 : 2 ≤ t.free) :
    ∀ p, (t.slot p).isFree = true → p < t.cap → ∃ i, i < t.cap ∧ i ≠ p ∧ t.slot i = .free :=
  fun p hf hp => exists_other_free (Nat.le_trans h2 hok) p hp hf

/-- with only one FREE slot guaranteed (the pinned `reserve(1)`), an insertion may consume it:
the 1-slot table of the D3 witness has `nFree = 0` -/
example : nFree (fullOne : Raw Nat Nat) = 0 := by decide

#print axioms insert_keeps_a_free_slot

/-! ### counting under slot updates -/

/-- overwriting one flag: the count moves by the difference of old and new flag -/
theorem countOcc_update {occ : Nat → Bool} {i n : Nat} (hi : i < n) (b : Bool) :
    Cn.countOcc (fun j => if j = i then b else occ j) n + (if occ i then 1 else 0) =
      Cn.countOcc occ n + (if b then 1 else 0) := by
  by_cases ho : occ i = true <;> cases b
  · have := Cn.countOcc_clear hi ho
    simp only [ho, ↓reduceIte, Bool.false_eq_true]; omega
  · have : Cn.countOcc (fun j => if j = i then true else occ j) n = Cn.countOcc occ n :=
      Cn.countOcc_congr n (fun j _ => by by_cases e : j = i <;> simp [e, ho])
    rw [this]; simp [ho]
  · have ho' : occ i = false := by simpa using ho
    have : Cn.countOcc (fun j => if j = i then false else occ j) n = Cn.countOcc occ n :=
      Cn.countOcc_congr n (fun j _ => by by_cases e : j = i <;> simp [e, ho'])
    rw [this]; simp [ho']
  · have ho' : occ i = false := by simpa using ho
    have := Cn.countOcc_set hi ho'
    simp only [ho', ↓reduceIte, Bool.false_eq_true]; omega

theorem countOcc_pos_of {occ : Nat → Bool} {i n : Nat} (hi : i < n) (ho : occ i = true) :
    1 ≤ Cn.countOcc occ n := by
  have := Cn.countOcc_clear hi ho; omega

theorem countOcc_zero {occ : Nat → Bool} {n : Nat} (h : Cn.countOcc occ n = 0) :
    ∀ i, i < n → occ i = false := by
  intro i hi
  cases ho : occ i with
  | false => rfl
  | true => have := countOcc_pos_of hi ho; omega

theorem countOcc_le (occ : Nat → Bool) (n : Nat) : Cn.countOcc occ n ≤ n := by
  induction n with
  | zero => simp [Cn.countOcc]
  | succ n ih => rw [Cn.countOcc_succ]; split <;> omega

theorem nFull_setSlot {t : Raw κ ν} {p : Nat} (hp : p < t.cap) (s : Slot κ ν) :
    nFull (t.setSlot p s) + (if (t.slot p).isFull then 1 else 0) = nFull t + (if s.isFull then 1 else 0) := by
  unfold nFull
  rw [Raw.cap_setSlot]
  have : (fun i => ((t.setSlot p s).slot i).isFull) =
      (fun j => if j = p then s.isFull else (fun i => (t.slot i).isFull) j) := by
    funext j; rw [Raw.slot_setSlot_lt hp]; split <;> rfl
  rw [this]
  exact countOcc_update hp _

theorem nFree_setSlot {t : Raw κ ν} {p : Nat} (hp : p < t.cap) (s : Slot κ ν) :
    nFree (t.setSlot p s) + (if (t.slot p).isFree then 1 else 0) = nFree t + (if s.isFree then 1 else 0) := by
  unfold nFree
  rw [Raw.cap_setSlot]
  have : (fun i => ((t.setSlot p s).slot i).isFree) =
      (fun j => if j = p then s.isFree else (fun i => (t.slot i).isFree) j) := by
    funext j; rw [Raw.slot_setSlot_lt hp]; split <;> rfl
  rw [this]
  exact countOcc_update hp _

/-- without tombstones every slot is FREE or full -/
theorem nFree_add_nFull {t : Raw κ ν} (hnd : ∀ i, i < t.cap → t.slot i ≠ .dead) :
    nFree t + nFull t = t.cap := by
  unfold nFree nFull
  generalize t.cap = n at hnd
  induction n with
  | zero => simp [Cn.countOcc]
  | succ n ih =>
    rw [Cn.countOcc_succ, Cn.countOcc_succ]
    have := ih (fun i hi => hnd i (by omega))
    have hn := hnd n (by omega)
    have key : ((t.slot n).isFree = true ∧ (t.slot n).isFull = false) ∨
        ((t.slot n).isFree = false ∧ (t.slot n).isFull = true) := by
      cases hs : t.slot n with
      | free => exact Or.inl ⟨rfl, rfl⟩
      | dead => exact absurd hs hn
      | full _ _ _ => exact Or.inr ⟨rfl, rfl⟩
    rcases key with ⟨e1, e2⟩ | ⟨e1, e2⟩
    · simp only [e1, e2, ↓reduceIte, Bool.false_eq_true]; omega
    · simp only [e1, e2, ↓reduceIte, Bool.false_eq_true]; omega

/-- `fullAmong` over the whole index range is `nFull` -/
theorem fullAmong_eq_countP (t : Raw κ ν) (l : List Nat) :
    fullAmong t l = l.countP (fun i => (t.slot i).isFull) := by
  induction l with
  | nil => rfl
  | cons i is ih =>
    simp only [fullAmong, List.countP_cons, ih]
    omega

theorem fullAmong_range (t : Raw κ ν) : fullAmong t (List.range t.cap) = nFull t :=
  fullAmong_eq_countP t _

#print axioms nFull_setSlot
#print axioms nFree_setSlot
#print axioms nFree_add_nFull
end R

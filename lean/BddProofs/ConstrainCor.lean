import BddProofs.Constrain
/-! Algebraic corollaries of the closest-point characterisation of `constrain` (C10). -/
namespace P

theorem constrain_agrees {φf φg h : Fn} (hs : ConstrainSpec φf φg h) {x : Env} (hx : φg x = true) : h x = φf x := by
  apply hs.1 x x
  exact ⟨hx, fun _ _ _ _ => rfl⟩

/-- constrain commutes with negation and distributes over any binary connective -/
theorem constrain_distrib {φf φf' φg h h' k : Fn} (op : Bool → Bool → Bool) {N : Nat}
    (hl : SuppLt φg N) (hne : φg ≠ fun _ => false)
    (hs : ConstrainSpec φf φg h) (hs' : ConstrainSpec φf' φg h')
    (hk : ConstrainSpec (fun e => op (φf e) (φf' e)) φg k) : k = fun e => op (h e) (h' e) := by
  funext x
  obtain ⟨y, hy⟩ := closest_exists hl hne x
  rw [hk.1 x y hy, hs.1 x y hy, hs'.1 x y hy]

theorem constrain_neg {φf φg h k : Fn} {N : Nat} (hl : SuppLt φg N) (hne : φg ≠ fun _ => false)
    (hs : ConstrainSpec φf φg h) (hk : ConstrainSpec (fun e => !φf e) φg k) : k = fun e => !h e := by
  funext x
  obtain ⟨y, hy⟩ := closest_exists hl hne x
  rw [hk.1 x y hy, hs.1 x y hy]

/-- `constrain(f, f) = 1` and `constrain(f, ¬f) = 0` semantically -/
theorem constrain_self {φf h : Fn} {N : Nat} (hl : SuppLt φf N) (hne : φf ≠ fun _ => false)
    (hs : ConstrainSpec φf φf h) : h = fun _ => true := by
  funext x
  obtain ⟨y, hy⟩ := closest_exists hl hne x
  rw [hs.1 x y hy, hy.1]

#print axioms constrain_distrib
end P

import BddProofs.IteConst
import BddProofs.IteTotal
import BddProofs.Init
/-! `ite_constant` always returns (C12, totality) on the real store — for every cache content
(satisfying `Good`), never an assertion, never "Storage is full" (it builds nothing), never out of
fuel once `fuel` exceeds the sum of the three argument levels.  `is_implies` likewise. -/
namespace P
open Arr

theorem Untouched.var {s s' : St} (h : Untouched s s') (r : Ref) : s'.var r = s.var r := by
  unfold St.var St.node; rw [h.1]
theorem Untouched.lv {s s' : St} (h : Untouched s s') (V : Nat) (r : Ref) : lv s' V r = lv s V r := by
  unfold P.lv; rw [h.var]
theorem Untouched.varsLe {s s' : St} (h : Untouched s s') {V} (hV : VarsLe s V) : VarsLe s' V := by
  unfold VarsLe; rw [h.nodes]; exact hV

theorem iteConstant_total (V : Nat) : ∀ fuel s f g h φf φg φh, Good s → VarsLe s V →
    Valid s.nodes f φf → Valid s.nodes g φg → Valid s.nodes h φh →
    lv s V f + lv s V g + lv s V h < fuel → ∃ s' o, iteConstant fuel s f g h = .ok (s', o) := by
  intro fuel
  induction fuel with
  | zero => intro s f g h _ _ _ _ _ _ _ _ hmu; omega
  | succ fuel ih =>
    intro s f g h φf φg φh hg hV vf vg vh hmu
    unfold iteConstant
    by_cases c1 : isOne f = true
    · rw [if_pos c1]; exact ⟨_, _, rfl⟩
    rw [if_neg c1]
    by_cases c2 : isZero f = true
    · rw [if_pos c2]; exact ⟨_, _, rfl⟩
    rw [if_neg c2]
    have hfnt : isTerminal f = false := not_terminal_of (by simpa using c1) (by simpa using c2)
    have hfv := var_bounds hg hV vf hfnt
    by_cases c3 : g = h
    · rw [if_pos c3]; exact ⟨_, _, rfl⟩
    rw [if_neg c3]
    by_cases c4 : (isOne g && isZero h) = true
    · rw [if_pos c4]; exact ⟨_, _, rfl⟩
    rw [if_neg c4]
    by_cases c5 : (isZero g && isOne h) = true
    · rw [if_pos c5]; exact ⟨_, _, rfl⟩
    rw [if_neg c5]
    by_cases c6 : (isOne g && decide (h = f.not)) = true
    · rw [if_pos c6]; exact ⟨_, _, rfl⟩
    rw [if_neg c6]
    by_cases c7 : (decide (g = f) && isOne h) = true
    · rw [if_pos c7]; exact ⟨_, _, rfl⟩
    rw [if_neg c7]
    by_cases c8 : (decide (g = f.not) && isZero h) = true
    · rw [if_pos c8]; exact ⟨_, _, rfl⟩
    rw [if_neg c8]
    by_cases c9 : (isZero g && decide (h = f)) = true
    · rw [if_pos c9]; exact ⟨_, _, rfl⟩
    rw [if_neg c9]
    cases hc : (s.cacheGet (.ite f g h)).2 with
    | some res => exact ⟨_, _, rfl⟩
    | none =>
    simp only
    -- continue in the state after the cache probe (same storage, counters bumped)
    have hg0 := hg.cacheGet (.ite f g h)
    have hV0 : VarsLe (s.cacheGet (.ite f g h)).1 V := hV
    have vf' : Valid (s.cacheGet (.ite f g h)).1.nodes f φf := vf
    have vg' : Valid (s.cacheGet (.ite f g h)).1.nodes g φg := vg
    have vh' : Valid (s.cacheGet (.ite f g h)).1.nodes h φh := vh
    have hfv0 : 1 ≤ (s.cacheGet (.ite f g h)).1.var f ∧ (s.cacheGet (.ite f g h)).1.var f ≤ V := hfv
    have hmu0 : lv (s.cacheGet (.ite f g h)).1 V f + lv (s.cacheGet (.ite f g h)).1 V g +
        lv (s.cacheGet (.ite f g h)).1 V h < fuel + 1 := hmu
    clear hmu hfv vf vg vh hV
    generalize (s.cacheGet (.ite f g h)).1 = s0 at *
    clear hc hg s
    rw [if_neg (by omega : ¬ s0.var f = 0)]
    have ml := min3_le (s0.var f) (s0.var g) (s0.var h)
    have mp := min3_pos (j := s0.var g) (k := s0.var h) (by omega : s0.var f ≠ 0)
    have ma := min3_attained (s0.var f) (s0.var g) (s0.var h)
    generalize hm : min3 (s0.var f) (s0.var g) (s0.var h) = m at *
    rw [if_neg mp]
    obtain ⟨f0, f1, ef, lf0, lf1, sf⟩ := topCofactors_total hg0 hV0 vf' mp (fun _ => ml.1)
    obtain ⟨g0, g1, eg, lg0, lg1, sg⟩ := topCofactors_total hg0 hV0 vg' mp ml.2.1
    obtain ⟨h0, h1, eh, lh0, lh1, sh⟩ := topCofactors_total hg0 hV0 vh' mp ml.2.2
    simp only [ef, eg, eh]
    have sa : SuppGe φf m := supp_of_var hg0 vf' (fun _ => ml.1)
    have sb : SuppGe φg m := supp_of_var hg0 vg' ml.2.1
    have sc : SuppGe φh m := supp_of_var hg0 vh' ml.2.2
    obtain ⟨vf0, vf1⟩ := topCofactors_spec hg0 vf' sa ef
    obtain ⟨vg0, vg1⟩ := topCofactors_spec hg0 vg' sb eg
    obtain ⟨vh0, vh1⟩ := topCofactors_spec hg0 vh' sc eh
    have sum0 : lv s0 V f0 + lv s0 V g0 + lv s0 V h0 < lv s0 V f + lv s0 V g + lv s0 V h := by
      rcases ma with e | ⟨_, e⟩ | ⟨_, e⟩
      · have := (sf e.symm).1; omega
      · have := (sg e.symm).1; omega
      · have := (sh e.symm).1; omega
    have sum1 : lv s0 V f1 + lv s0 V g1 + lv s0 V h1 < lv s0 V f + lv s0 V g + lv s0 V h := by
      rcases ma with e | ⟨_, e⟩ | ⟨_, e⟩
      · have := (sf e.symm).2; omega
      · have := (sg e.symm).2; omega
      · have := (sh e.symm).2; omega
    obtain ⟨s1, t, et⟩ := ih s0 f1 g1 h1 _ _ _ hg0 hV0 vf1 vg1 vh1 (by omega)
    rw [et]
    cases t with
    | none => exact ⟨_, _, rfl⟩
    | some T =>
      -- the second call runs in the state the first one returned: same table, same cache content
      have hu1 := (iteConstant_spec' _ _ _ _ _ _ _ _ _ _ hg0 vf1 vg1 vh1 et).2
      have hg1 := hu1.good hg0
      have hV1 := hu1.varsLe hV0
      have hn1 := hu1.nodes
      rw [← hn1] at vf0 vg0 vh0
      obtain ⟨s2, e, ee⟩ := ih s1 f0 g0 h0 _ _ _ hg1 hV1 vf0 vg0 vh0
        (by rw [hu1.lv, hu1.lv, hu1.lv]; omega)
      simp only [ee]
      split <;> exact ⟨_, _, rfl⟩

/-- C12 (totality), with the bound spelled out: the recursion depth of `ite_constant` is at most the
sum of the three levels, hence at most `3·(V+1)`. -/
theorem iteConstant_total' {V fuel : Nat} {s : St} {f g h : Ref} {φf φg φh : Fn} (hg : Good s) (hV : VarsLe s V)
    (vf : Valid s.nodes f φf) (vg : Valid s.nodes g φg) (vh : Valid s.nodes h φh)
    (hfuel : 3 * (V + 1) < fuel) : ∃ s' o, iteConstant fuel s f g h = .ok (s', o) := by
  apply iteConstant_total V fuel s f g h φf φg φh hg hV vf vg vh
  have b : ∀ r, lv s V r ≤ V + 1 := by
    intro r; unfold P.lv; split <;> omega
  have := b f; have := b g; have := b h
  omega

theorem isImplies_total {V fuel : Nat} {s : St} {f g : Ref} {φf φg : Fn} (hg : Good s) (hV : VarsLe s V)
    (vf : Valid s.nodes f φf) (vg : Valid s.nodes g φg)
    (hfuel : lv s V f + lv s V g < fuel) : ∃ s' b, isImplies fuel s f g = .ok (s', b) := by
  obtain ⟨s', o, e⟩ := iteConstant_total V fuel s f g Ref.one φf φg _ hg hV vf vg Valid.one
    (by rw [lv_one hg]; omega)
  exact ⟨s', o == some true, by unfold isImplies; rw [e]⟩

/-! ## Negative witness (defect D2, cache-hit assertion)

The pinned code answered a cache hit with `assert!(!self.is_terminal(res)); return None;`.  The
variant below is `iteConstant` with exactly that branch put back (everything else as repaired).
On a perfectly good manager — `Bdd::new(4)`, `x1 = mk_var(1)`, `x2 = mk_var(2)`, `f = x1 ∧ x2`,
then `apply_ite(f, x1, 1)`, which caches the *constant* result `1` under the key `(f, x1, 1)` —
the pinned variant trips the assertion on `ite_constant(f, x1, 1)`, while the repaired code answers
`Some(true)` (as `iteConstant_total` / `iteConstant_spec` say it must). -/

/-- `ite_constant` with the pinned cache-hit branch (a *variant* kept only for this witness) -/
def iteConstantPinned : Nat → St → Ref → Ref → Ref → Res (St × Option Bool)
  | 0, s, _, _, _ => .error (.outOfFuel, s)
  | fuel + 1, s, f, g, h =>
    if isOne f then .ok (s, maybeConst g) else
    if isZero f then .ok (s, maybeConst h) else
    if g = h then .ok (s, maybeConst g) else
    if isOne g && isZero h then .ok (s, none) else
    if isZero g && isOne h then .ok (s, none) else
    if isOne g && h = f.not then .ok (s, some true) else
    if g = f && isOne h then .ok (s, some true) else
    if g = f.not && isZero h then .ok (s, some false) else
    if isZero g && h = f then .ok (s, some false) else
    match (s.cacheGet (.ite f g h)).2 with
    | some res =>
      -- pinned: `assert!(!self.is_terminal(res)); return None;`
      if isTerminal res then .error (.assertion, (s.cacheGet (.ite f g h)).1)
      else .ok ((s.cacheGet (.ite f g h)).1, none)
    | none =>
      let s0 := (s.cacheGet (.ite f g h)).1
      if s0.var f = 0 then .error (.assertion, s0) else
      let m := min3 (s0.var f) (s0.var g) (s0.var h)
      if m = 0 then .error (.assertion, s0) else
      match topCofactors s0 f m, topCofactors s0 g m, topCofactors s0 h m with
      | .ok (f0, f1), .ok (g0, g1), .ok (h0, h1) =>
        match iteConstantPinned fuel s0 f1 g1 h1 with
        | .error e => .error e
        | .ok (s1, none) => .ok (s1, none)
        | .ok (s1, some t) =>
          match iteConstantPinned fuel s1 f0 g0 h0 with
          | .error e => .error e
          | .ok (s2, e) => if e ≠ some t then .ok (s2, none) else .ok (s2, some t)
      | _, _, _ => .error (.assertion, s0)

namespace Wit

def okOr {ε α : Type} (x : Except ε α) (d : α) : α := match x with | .ok p => p | .error _ => d
def isOkB {ε α : Type} (x : Except ε α) : Bool := match x with | .ok _ => true | .error _ => false
theorem okOr_eq {ε α : Type} {x : Except ε α} (d : α) (h : isOkB x = true) : x = .ok (okOr x d) := by
  cases x with
  | ok p => rfl
  | error e => cases h

def faultOf {α : Type} : Res α → Option Fault | .ok _ => none | .error (e, _) => some e
def valOf : Res (St × Option Bool) → Option (Option Bool) | .ok (_, o) => some o | .error _ => none

theorem faultOf_some {α : Type} {x : Res α} {e : Fault} (h : faultOf x = some e) : ∃ s', x = .error (e, s') := by
  cases x with
  | ok p => cases h
  | error p => obtain ⟨e', s'⟩ := p; cases h; exact ⟨s', rfl⟩
theorem valOf_some {x : Res (St × Option Bool)} {o} (h : valOf x = some o) : ∃ s', x = .ok (s', o) := by
  cases x with
  | ok p => obtain ⟨s', o'⟩ := p; cases h; exact ⟨s', rfl⟩
  | error p => cases h

/-- any state, used only as the (never taken) default of `okOr` -/
def dummy : St := ⟨Table.new 0, Cache.new 0, Cache.new 0⟩

/-- `Bdd::new(4)` -/
def w0 : St := okOr (St.new 4) dummy
/-- `x1 = mk_var(1)` -/
def wa : St × Ref := okOr (mkVar w0 1) (w0, Ref.one)
/-- `x2 = mk_var(2)` -/
def wb : St × Ref := okOr (mkVar wa.1 2) wa
/-- `f = apply_and(x1, x2)` -/
def wc : St × Ref := okOr (applyIte 8 wb.1 wa.2 wb.2 Ref.zero) wb
/-- `apply_ite(f, x1, 1)` — the result is the constant `1`, cached under `(f, x1, 1)` -/
def wd : St × Ref := okOr (applyIte 8 wc.1 wc.2 wa.2 Ref.one) wc

theorem e0 : St.new 4 = .ok w0 := okOr_eq _ (by decide +kernel)
theorem ea : mkVar w0 1 = .ok wa := okOr_eq _ (by decide +kernel)
theorem eb : mkVar wa.1 2 = .ok wb := okOr_eq _ (by decide +kernel)
theorem ec : applyIte 8 wb.1 wa.2 wb.2 Ref.zero = .ok wc := okOr_eq _ (by decide +kernel)
theorem ed : applyIte 8 wc.1 wc.2 wa.2 Ref.one = .ok wd := okOr_eq _ (by decide +kernel)

theorem mkVar_good {s : St} (hg : Good s) {v s' r} (h : mkVar s v = .ok (s', r)) :
    Good s' ∧ Sub s.nodes s'.nodes ∧ Valid s'.nodes r (fun e => if e v then true else false) := by
  unfold mkVar at h
  by_cases hv : v = 0
  · rw [if_pos hv] at h; cases h
  rw [if_neg hv] at h
  obtain ⟨a, b, -, d⟩ := mkNode_spec hg Valid.zero Valid.one (SuppGe.const _ _) (SuppGe.const _ _) h
  exact ⟨a, b, d⟩

/-- the manager the witness runs on is good and its three arguments are live handles -/
theorem wd_good : Good wd.1 ∧ ∃ φf φg, Valid wd.1.nodes wc.2 φf ∧ Valid wd.1.nodes wa.2 φg := by
  have g0 : Good w0 := init_good e0
  obtain ⟨ga, -, va⟩ := mkVar_good g0 (s' := wa.1) (r := wa.2) ea
  obtain ⟨gb, sab, vb⟩ := mkVar_good ga (s' := wb.1) (r := wb.2) eb
  obtain ⟨gc, sbc, vc⟩ := applyIte_spec 8 _ _ _ _ _ _ _ wc.1 wc.2 gb (va.mono sab) vb Valid.zero ec
  obtain ⟨gd, scd, -⟩ := applyIte_spec 8 _ _ _ _ _ _ _ wd.1 wd.2 gc vc ((va.mono sab).mono sbc) Valid.one ed
  exact ⟨gd, _, _, vc.mono scd, ((va.mono sab).mono sbc).mono scd⟩

theorem pinned_fault : faultOf (iteConstantPinned 8 wd.1 wc.2 wa.2 Ref.one) = some .assertion := by
  decide +kernel
theorem fixed_value : valOf (iteConstant 8 wd.1 wc.2 wa.2 Ref.one) = some (some true) := by
  decide +kernel

end Wit

/-- **negative witness**: there is a good manager with live handles `f`, `g`, `h` on which the pinned
cache-hit branch of `ite_constant` panics ("assertion failed: !self.is_terminal(res)"), whereas the
repaired function returns `Some(true)`. -/
theorem iteConstantPinned_asserts :
    ∃ (s : St) (f g h : Ref) (φf φg φh : Fn), Good s ∧
      Valid s.nodes f φf ∧ Valid s.nodes g φg ∧ Valid s.nodes h φh ∧
      (∃ s', iteConstantPinned 8 s f g h = .error (.assertion, s')) ∧
      (∃ s', iteConstant 8 s f g h = .ok (s', some true)) := by
  obtain ⟨hg, φf, φg, vf, vg⟩ := Wit.wd_good
  exact ⟨Wit.wd.1, Wit.wc.2, Wit.wa.2, Ref.one, φf, φg, _, hg, vf, vg, Valid.one,
    Wit.faultOf_some Wit.pinned_fault, Wit.valOf_some Wit.fixed_value⟩

#print axioms iteConstant_total
#print axioms iteConstant_total'
#print axioms isImplies_total
#print axioms iteConstantPinned_asserts
end P

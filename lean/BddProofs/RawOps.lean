import BddProofs.RawCount
/-! C19 — RawTable behaves as a hash map and stays memory-safe under every history.

Property-level file over the executable model `BddModel/Raw.lean`, for keys with an arbitrary
`hashOf : κ → Nat` and for both build flavours (`dbg = true`: `debug_assert!`s are checked and would
give `.panic`; `dbg = false`: release).

* `RInvFull` — the complete invariant: the probe invariant `RInv` of `Raw.lean` (a FREE slot exists,
  probe reachability, distinct keys) plus `len = #full slots`, `free ≤ #FREE slots`,
  `free ≥ 1 ∨ cap = 0`, and "capacity is 0 or a power of two `≤ 2^63`" (`CapOk`).
* `abs t : κ → Option ν` — the map a table represents.
* per operation: the outcome is `.ok _` (never `hang`, `ub`, `panic`), `RInvFull` is preserved, and
  `abs` changes like the corresponding map operation.
* `C19_reach` — `RInvFull` after any history from `Raw.new`.
* negative witnesses D3, D4 on the pinned variants. -/
namespace R
open Arr
set_option linter.unusedSectionVars false
set_option linter.unusedSimpArgs false
variable {κ ν : Type} [DecidableEq κ]

@[simp] theorem Slot.isFull_full (st : Nat) (k : κ) (v : ν) : (Slot.full st k v).isFull = true := rfl
@[simp] theorem Slot.isFull_free : (Slot.free : Slot κ ν).isFull = false := rfl
@[simp] theorem Slot.isFull_dead : (Slot.dead : Slot κ ν).isFull = false := rfl
@[simp] theorem Slot.isFree_full (st : Nat) (k : κ) (v : ν) : (Slot.full st k v).isFree = false := rfl
@[simp] theorem Slot.isFree_free : (Slot.free : Slot κ ν).isFree = true := rfl
@[simp] theorem Slot.isFree_dead : (Slot.dead : Slot κ ν).isFree = false := rfl
@[simp] theorem Slot.isDead_full (st : Nat) (k : κ) (v : ν) : (Slot.full st k v).isDead = false := rfl
@[simp] theorem Slot.isDead_free : (Slot.free : Slot κ ν).isDead = false := rfl
@[simp] theorem Slot.isDead_dead : (Slot.dead : Slot κ ν).isDead = true := rfl

/-! ### capacities -/

/-- capacity is 0 (never-used table) or a power of two not exceeding `2^63` -/
def CapOk (c : Nat) : Prop := c = 0 ∨ ∃ j, j ≤ 63 ∧ c = 2 ^ j

theorem CapOk.dvd {c : Nat} (h : CapOk c) (hc : 0 < c) : c ∣ 2 ^ 63 := by
  rcases h with h | ⟨j, hj, rfl⟩
  · omega
  · exact Nat.pow_dvd_pow 2 hj

theorem isPow2_two_pow (j : Nat) : isPow2 (2 ^ j) = true := by
  have hpos : 0 < 2 ^ j := Nat.two_pow_pos j
  have h1 : (2 ^ j != 0) = true := by simp
  have h2 : (2 ^ j &&& (2 ^ j - 1)) = 0 := by
    rw [Nat.and_two_pow_sub_one_eq_mod, Nat.mod_self]
  simp [isPow2, h2]

theorem CapOk.isPow2 {c : Nat} (h : CapOk c) (hc : 0 < c) : isPow2 c = true := by
  rcases h with h | ⟨j, _, rfl⟩
  · omega
  · exact isPow2_two_pow j

theorem nextPow2_go_spec (n : Nat) (hn : n ≤ 2 ^ 63) :
    ∀ fuel i, i + fuel = 64 → i ≤ 63 → ∃ j, j ≤ 63 ∧ nextPow2.go n fuel (2 ^ i) = 2 ^ j ∧ n ≤ 2 ^ j := by
  intro fuel
  induction fuel with
  | zero => intro i h1 h2; omega
  | succ fuel ih =>
    intro i h1 h2
    by_cases hge : 2 ^ i ≥ n
    · exact ⟨i, h2, by simp only [nextPow2.go, hge, ↓reduceIte], hge⟩
    · have hi : i < 63 := by
        apply Classical.byContradiction
        intro hc
        have : i = 63 := by omega
        subst this; omega
      obtain ⟨j, hj, e, hle⟩ := ih (i + 1) (by omega) (by omega)
      refine ⟨j, hj, ?_, hle⟩
      simp only [nextPow2.go, hge, ↓reduceIte]
      rw [← e, Nat.pow_succ, Nat.mul_comm]

/-- `next_power_of_two` of a request within the memory bound is a power of two `≤ 2^63` that covers it -/
theorem nextPow2_spec {n : Nat} (hn : n ≤ 2 ^ 63) : ∃ j, j ≤ 63 ∧ nextPow2 n = 2 ^ j ∧ n ≤ 2 ^ j := by
  have := nextPow2_go_spec n hn 64 0 (by omega) (by omega)
  simpa [nextPow2] using this

section
variable (hashOf : κ → Nat) (dbg : Bool)

/-! ### the complete invariant -/

structure RInvFull (t : Raw κ ν) : Prop extends RInv hashOf t where
  /-- `len` is the number of full slots -/
  lenEq : t.len = nFull t
  /-- `free` never overcounts the FREE slots -/
  freeOk : FreeOk t
  /-- a FREE slot is accounted for (this is what `reserve(2)` before every insertion maintains) -/
  freePos : 1 ≤ t.free ∨ t.cap = 0
  /-- the capacity is 0 or a power of two `≤ 2^63` -/
  pow2 : CapOk t.cap

/-- the derivable fields of `RInv` follow from the counters -/
theorem RInvFull.mk' {t : Raw κ ν}
    (reach : ∀ i st k v, i < t.cap → t.slot i = .full st k v →
      st = status hashOf k ∧ ∃ d, d < t.cap ∧ probe hashOf t.cap k d = i ∧
        ∀ d', d' < d → t.slot (probe hashOf t.cap k d') ≠ .free)
    (distinct : ∀ i j st st' k v v', i < t.cap → j < t.cap →
      t.slot i = .full st k v → t.slot j = .full st' k v' → i = j)
    (lenEq : t.len = nFull t) (freeOk : FreeOk t) (freePos : 1 ≤ t.free ∨ t.cap = 0)
    (pow2 : CapOk t.cap) : RInvFull hashOf t := by
  refine ⟨⟨?_, reach, distinct, ?_, ?_⟩, lenEq, freeOk, freePos, pow2⟩
  · rcases freePos with h | h
    · right
      obtain ⟨i, hi, hf⟩ := exists_of_count_pos (occ := fun i => (t.slot i).isFree) (n := t.cap)
        (Nat.le_trans h freeOk)
      refine ⟨i, hi, ?_⟩
      cases hs : t.slot i <;> simp [hs, Slot.isFree] at hf
      rfl
    · exact Or.inl h
  · intro h0 i hi
    rw [lenEq] at h0
    exact countOcc_zero h0 i hi
  · intro h0
    rw [lenEq] at h0
    have := countOcc_le (fun i => (t.slot i).isFull) t.cap
    unfold nFull at h0
    omega

/-- under the invariant no `debug_assert!` of `find` fires, in either build -/
theorem RInvFull.dbgOk {t : Raw κ ν} (hI : RInvFull hashOf t) : DbgOk dbg t := by
  intro _ hlen
  have hc : 0 < t.cap := hI.lenPos hlen
  refine ⟨?_, hI.pow2.isPow2 hc⟩
  rcases hI.freePos with h | h <;> omega

theorem new_slot (i : Nat) : (Raw.new : Raw κ ν).slot i = .free := Raw.slot_ge _ (Nat.zero_le _)

/-- C19: the never-used table satisfies the invariant -/
theorem new_inv : RInvFull hashOf (Raw.new : Raw κ ν) := by
  have hc : (Raw.new : Raw κ ν).cap = 0 := rfl
  refine RInvFull.mk' hashOf ?_ ?_ ?_ ?_ (Or.inr hc) (Or.inl hc)
  · intro i st k v hi; rw [hc] at hi; omega
  · intro i j st st' k v v' hi; rw [hc] at hi; omega
  · rfl
  · exact Nat.zero_le _

/-! ### the represented map -/

def lookupUpTo (t : Raw κ ν) (k : κ) : Nat → Option ν
  | 0 => none
  | n + 1 =>
    match t.slot n with
    | .full _ k' v => if k' = k then some v else lookupUpTo t k n
    | _ => lookupUpTo t k n

/-- the value stored under key `k`, if any -/
def abs (t : Raw κ ν) (k : κ) : Option ν := lookupUpTo t k t.cap

theorem lookupUpTo_some {t : Raw κ ν} {k : κ} {v : ν} : ∀ {n : Nat}, lookupUpTo t k n = some v →
    ∃ i st, i < n ∧ t.slot i = .full st k v := by
  intro n
  induction n with
  | zero => intro h; cases h
  | succ n ih =>
    intro h
    simp only [lookupUpTo] at h
    cases hs : t.slot n with
    | full st k' v' =>
      simp only [hs] at h
      by_cases e : k' = k
      · rw [if_pos e] at h; cases h; subst e; exact ⟨n, st, by omega, hs⟩
      · rw [if_neg e] at h
        obtain ⟨i, st', hi, h'⟩ := ih h
        exact ⟨i, st', by omega, h'⟩
    | free =>
      simp only [hs] at h
      obtain ⟨i, st', hi, h'⟩ := ih h
      exact ⟨i, st', by omega, h'⟩
    | dead =>
      simp only [hs] at h
      obtain ⟨i, st', hi, h'⟩ := ih h
      exact ⟨i, st', by omega, h'⟩

theorem lookupUpTo_of_slot {t : Raw κ ν}
    (hd : ∀ i j st st' k v v', i < t.cap → j < t.cap →
      t.slot i = .full st k v → t.slot j = .full st' k v' → i = j)
    {k : κ} {v : ν} {i st} (hs : t.slot i = .full st k v) :
    ∀ {n : Nat}, n ≤ t.cap → i < n → lookupUpTo t k n = some v := by
  intro n
  induction n with
  | zero => intro _ h; omega
  | succ n ih =>
    intro hn hi
    simp only [lookupUpTo]
    cases hsn : t.slot n with
    | full st' k' v' =>
      simp only []
      by_cases e : k' = k
      · subst e
        have := hd i n st st' k' v v' (by omega) (by omega) hs hsn
        subst this
        rw [hs] at hsn; cases hsn
        rw [if_pos rfl]
      · rw [if_neg e]
        have hne : i ≠ n := by intro e'; subst e'; rw [hs] at hsn; cases hsn; exact e rfl
        exact ih (by omega) (by omega)
    | free =>
      have hne : i ≠ n := by intro e'; subst e'; rw [hs] at hsn; cases hsn
      exact ih (by omega) (by omega)
    | dead =>
      have hne : i ≠ n := by intro e'; subst e'; rw [hs] at hsn; cases hsn
      exact ih (by omega) (by omega)

/-- `abs` reads the relation `Holds` (which is functional because keys are distinct) -/
theorem abs_eq_some_iff {t : Raw κ ν} (hI : RInv hashOf t) (k : κ) (v : ν) :
    abs t k = some v ↔ Holds t k v := by
  constructor
  · intro h
    obtain ⟨i, st, hi, hs⟩ := lookupUpTo_some h
    exact ⟨i, st, hi, hs⟩
  · rintro ⟨i, st, hi, hs⟩
    exact lookupUpTo_of_slot hI.distinct hs (Nat.le_refl _) hi

theorem abs_eq_none_iff {t : Raw κ ν} (hI : RInv hashOf t) (k : κ) :
    abs t k = none ↔ ∀ i, i < t.cap → ¬ HasKey t k i := by
  constructor
  · intro h i hi ⟨st, v, hs⟩
    have := (abs_eq_some_iff hashOf hI k v).mpr ⟨i, st, hi, hs⟩
    rw [h] at this; cases this
  · intro h
    cases ha : abs t k with
    | none => rfl
    | some v =>
      obtain ⟨i, st, hi, hs⟩ := (abs_eq_some_iff hashOf hI k v).mp ha
      exact absurd ⟨st, v, hs⟩ (h i hi)

/-- two tables whose `Holds` relations are related pointwise have related `abs` -/
theorem abs_ext {t' : Raw κ ν} (hI' : RInv hashOf t') {k : κ} {o : Option ν}
    (h : ∀ v, Holds t' k v ↔ o = some v) : abs t' k = o := by
  cases ha : abs t' k with
  | some v => exact ((h v).mp ((abs_eq_some_iff hashOf hI' k v).mp ha)).symm
  | none =>
    cases o with
    | none => rfl
    | some v =>
      have := (abs_eq_some_iff hashOf hI' k v).mpr ((h v).mpr rfl)
      rw [ha] at this; cases this

theorem abs_congr {t t' : Raw κ ν} (hI : RInv hashOf t) (hI' : RInv hashOf t') {k : κ}
    (h : ∀ v, Holds t' k v ↔ Holds t k v) : abs t' k = abs t k :=
  abs_ext hashOf hI' (fun v => ((h v).trans (abs_eq_some_iff hashOf hI k v).symm))

theorem abs_new (k : κ) : abs (Raw.new : Raw κ ν) k = none := rfl

theorem abs_of_holds_same {t t' : Raw κ ν} (hI : RInv hashOf t) (hI' : RInv hashOf t')
    (h : ∀ k v, Holds t' k v ↔ Holds t k v) (k : κ) : abs t' k = abs t k :=
  abs_congr hashOf hI hI' (h k)

theorem abs_of_holds_insert {t t' : Raw κ ν} (hI : RInv hashOf t) (hI' : RInv hashOf t') {k : κ} {v : ν}
    (h : ∀ k' v', Holds t' k' v' ↔ ((k' = k ∧ v' = v) ∨ (k' ≠ k ∧ Holds t k' v'))) (k' : κ) :
    abs t' k' = if k' = k then some v else abs t k' := by
  apply abs_ext hashOf hI'
  intro w
  rw [h]
  by_cases e : k' = k
  · rw [if_pos e]
    constructor
    · rintro (⟨_, rfl⟩ | ⟨hne, _⟩)
      · rfl
      · exact absurd e hne
    · intro hw; cases hw; exact Or.inl ⟨e, rfl⟩
  · rw [if_neg e, abs_eq_some_iff hashOf hI]
    constructor
    · rintro (⟨e', _⟩ | ⟨_, hh⟩)
      · exact absurd e' e
      · exact hh
    · intro hh; exact Or.inr ⟨e, hh⟩

theorem abs_of_holds_remove {t t' : Raw κ ν} (hI : RInv hashOf t) (hI' : RInv hashOf t') {k : κ}
    (h : ∀ k' v', Holds t' k' v' ↔ (k' ≠ k ∧ Holds t k' v')) (k' : κ) :
    abs t' k' = if k' = k then none else abs t k' := by
  apply abs_ext hashOf hI'
  intro w
  rw [h]
  by_cases e : k' = k
  · rw [if_pos e]
    constructor
    · rintro ⟨hne, _⟩; exact absurd e hne
    · intro hw; cases hw
  · rw [if_neg e, abs_eq_some_iff hashOf hI]
    exact ⟨fun hh => hh.2, fun hh => ⟨e, hh⟩⟩

/-! ### `reserve` -/

/-- C19, `reserve`: returns, keeps the invariant and the represented map, and afterwards `free` covers
the request.  `hb` is the memory bound (`len + additional ≤ 2^63`, so that `next_power_of_two` does
not overflow and the mask arithmetic agrees with the stored statuses). -/
theorem reserve_spec {t : Raw κ ν} (hI : RInvFull hashOf t) {a : Nat} (hb : t.len + a ≤ 2 ^ 63) :
    ∃ t', reserve t a = .ok t' ∧ RInvFull hashOf t' ∧ a ≤ t'.free ∧ t'.len = t.len ∧
      (∀ k v, Holds t' k v ↔ Holds t k v) := by
  unfold reserve
  by_cases hlt : t.free < a
  · rw [if_pos hlt]
    obtain ⟨j, hj, hcap, hle⟩ := nextPow2_spec hb
    have hroom : fullAmong t (List.range t.cap) < nextPow2 (t.len + a) := by
      rw [fullAmong_range, ← hI.lenEq, hcap]; omega
    have hdvd : nextPow2 (t.len + a) ∣ 2 ^ 63 := by rw [hcap]; exact Nat.pow_dvd_pow 2 hj
    obtain ⟨new', hm, hP', hcap', hn', hh'⟩ := rehash_refines hashOf hI.toRInv hdvd hroom
    rw [fullAmong_range, ← hI.lenEq] at hn'
    have hsum := nFree_add_nFull hP'.noDead
    refine ⟨{ new' with len := t.len, free := nextPow2 (t.len + a) - t.len }, ?_, ?_, ?_, rfl, hh'⟩
    · simp only [reserveRehash, hm]
    · refine RInvFull.mk' hashOf hP'.reach hP'.distinct ?_ ?_ ?_ ?_
      · exact hn'.symm
      · show nextPow2 (t.len + a) - t.len ≤ nFree new'
        omega
      · left
        show 1 ≤ nextPow2 (t.len + a) - t.len
        omega
      · show CapOk new'.cap
        rw [hcap']; exact Or.inr ⟨j, hj, hcap⟩
    · show a ≤ nextPow2 (t.len + a) - t.len
      omega
  · rw [if_neg hlt]
    exact ⟨t, rfl, hI, by omega, rfl, fun _ _ => Iff.rfl⟩

/-! ### `find_or_free` -/

theorem fof_present {t : Raw κ ν} (hI : RInv hashOf t) {k : κ} {i st v} (hi : i < t.cap)
    (hs : t.slot i = .full st k v) :
    fofLoop hashOf t k t.cap (home hashOf t.cap k) none = .ok (.ok i) := by
  have hc : 0 < t.cap := by omega
  obtain ⟨hst, D, hD, hpD, hpath⟩ := hI.reach i st k v hi hs
  have hskip : ∀ d', 0 ≤ d' → d' < 0 + D →
      t.slot (probe hashOf t.cap k d') ≠ .free ∧ ¬ HasKey t k (probe hashOf t.cap k d') := by
    intro d' _ hd'
    refine ⟨hpath d' (by omega), ?_⟩
    rintro ⟨st', v', hs'⟩
    have := hI.distinct _ _ _ _ _ _ _ (probe_lt hashOf hc k d') hi hs' hs
    rw [← hpD] at this
    have := probe_inj hashOf k (by omega) hD this
    omega
  obtain ⟨fd', e, _⟩ := fofLoop_skip hashOf t k D 0 (t.cap - D) none hskip
  rw [Nat.zero_add, show t.cap - D + D = t.cap by omega, hpD, probe_zero] at e
  rw [e, show t.cap - D = (t.cap - D - 1) + 1 by omega]
  simp only [fofLoop, hs, hst, and_self, ↓reduceIte]

theorem findOrFree_eq {t t1 : Raw κ ν} {k : κ} {r : Except Nat Nat} (hr : reserve t 2 = .ok t1)
    (hp : isPow2 t1.cap = true) (hc : t1.cap ≠ 0)
    (hf : fofLoop hashOf t1 k t1.cap (home hashOf t1.cap k) none = .ok r) :
    findOrFree hashOf dbg t k = .ok (t1, r) := by
  simp [findOrFree, hr, hp, hc, hf]

/-- C19, `find_or_free`: returns `(t1, r)` where `t1` (the table after `reserve(2)`) represents the
same map with at least two accounted FREE slots, and `r` is `.ok i` with `k` stored at `i`, or
`.error p` with `k` absent and `p` a non-full slot on `k`'s probe path before its first FREE slot -/
theorem findOrFree_spec {t : Raw κ ν} (hI : RInvFull hashOf t) (hb : t.len + 2 ≤ 2 ^ 63) (k : κ) :
    ∃ t1 r, findOrFree hashOf dbg t k = .ok (t1, r) ∧ RInvFull hashOf t1 ∧ 2 ≤ t1.free ∧ t1.len = t.len ∧
      (∀ k v, Holds t1 k v ↔ Holds t k v) ∧
      ((∃ i st v, r = .ok i ∧ i < t1.cap ∧ t1.slot i = .full st k v) ∨
       (∃ p dp, r = .error p ∧ (∀ i, i < t1.cap → ¬ HasKey t1 k i) ∧ dp < t1.cap ∧
          probe hashOf t1.cap k dp = p ∧ (t1.slot p).isFull = false ∧
          ∀ d', d' < dp → t1.slot (probe hashOf t1.cap k d') ≠ .free)) := by
  obtain ⟨t1, hr, hI1, h2, hlen, hh⟩ := reserve_spec hashOf hI hb
  have hc : 0 < t1.cap := by
    have h1 : t1.free ≤ nFree t1 := hI1.freeOk
    have h3 := countOcc_le (fun i => (t1.slot i).isFree) t1.cap
    unfold nFree at h1
    omega
  have hp := hI1.pow2.isPow2 hc
  by_cases h : ∃ i, i < t1.cap ∧ HasKey t1 k i
  · obtain ⟨i, hi, st, v, hs⟩ := h
    have hf := fof_present hashOf hI1.toRInv hi hs
    exact ⟨t1, .ok i, findOrFree_eq hashOf dbg hr hp (by omega) hf, hI1, h2, hlen, hh,
      Or.inl ⟨i, st, v, rfl, hi, hs⟩⟩
  · have habs : ∀ i, i < t1.cap → ¬ HasKey t1 k i := fun i hi hk => h ⟨i, hi, hk⟩
    obtain ⟨p, dp, hf, hdp, hpp, hnf, hpath⟩ := fof_absent hashOf hI1.toRInv hc habs
    exact ⟨t1, .error p, findOrFree_eq hashOf dbg hr hp (by omega) hf, hI1, h2, hlen, hh,
      Or.inr ⟨p, dp, rfl, habs, hdp, hpp, hnf, hpath⟩⟩

/-! ### `insert` -/

/-- C19, `insert`: returns `.ok`, keeps the invariant, sets `k ↦ v` and changes nothing else; reports
`.ok i` (value replaced in slot `i`, `len` unchanged) for a present key and `.error p` (stored in the
previously non-full slot `p`, `len + 1`) for an absent one -/
theorem insert_spec {t : Raw κ ν} (hI : RInvFull hashOf t) (hb : t.len + 2 ≤ 2 ^ 63) (k : κ) (v : ν) :
    ∃ t' r, insert hashOf dbg t k v = .ok (t', r) ∧ RInvFull hashOf t' ∧
      (∀ k', abs t' k' = if k' = k then some v else abs t k') ∧
      (abs t k ≠ none → (∃ i, r = .ok i) ∧ t'.len = t.len) ∧
      (abs t k = none → (∃ p, r = .error p) ∧ t'.len = t.len + 1) ∧
      (∃ i st, (r = .ok i ∨ r = .error i) ∧ i < t'.cap ∧ t'.slot i = .full st k v) := by
  obtain ⟨t1, r, hfof, hI1, h2, hlen1, hh1, hcase⟩ := findOrFree_spec hashOf dbg hI hb k
  have habs1 : ∀ k', abs t1 k' = abs t k' := abs_of_holds_same hashOf hI.toRInv hI1.toRInv hh1
  rcases hcase with ⟨i, st, v0, rfl, hi, hs⟩ | ⟨p, dp, rfl, habs, hdp, hpp, hnf, hpath⟩
  · -- present: replace in place
    obtain ⟨hR, hholds, hlen⟩ := replaceAt_inv hashOf hI1.toRInv hi hs v
    have hrep : replaceAt t1 i v = t1.setSlot i (.full st k v) := replaceAt_eq hs v
    have hpres : abs t k ≠ none := by
      rw [← habs1, (abs_eq_some_iff hashOf hI1.toRInv k v0).mpr ⟨i, st, hi, hs⟩]; intro h; cases h
    have hfull : (t1.slot i).isFull = true := by rw [hs]; rfl
    have hnfree : (t1.slot i).isFree = false := by rw [hs]; rfl
    refine ⟨replaceAt t1 i v, .ok i, by simp only [insert, hfof], ⟨hR, ?_, ?_, ?_, ?_⟩, ?_,
      fun _ => ⟨⟨i, rfl⟩, by rw [hlen, hlen1]⟩, fun h => absurd h hpres, ?_⟩
    · have := nFull_setSlot hi (.full st k v) (t := t1)
      rw [hfull] at this
      simp only [Slot.isFull_full, ↓reduceIte] at this
      rw [hlen, hI1.lenEq, hrep]
      omega
    · have := nFree_setSlot hi (.full st k v) (t := t1)
      show (replaceAt t1 i v).free ≤ nFree (replaceAt t1 i v)
      rw [hrep]
      rw [hnfree] at this
      simp only [Slot.isFree_full, Bool.false_eq_true, ↓reduceIte] at this
      have h3 : t1.free ≤ nFree t1 := hI1.freeOk
      show t1.free ≤ _
      omega
    · left; rw [hrep]; show 1 ≤ t1.free; omega
    · rw [hrep, Raw.cap_setSlot]; exact hI1.pow2
    · intro k'
      rw [abs_of_holds_insert hashOf hI1.toRInv hR hholds k', habs1]
    · refine ⟨i, st, Or.inl rfl, by rw [hrep, Raw.cap_setSlot]; exact hi, ?_⟩
      rw [hrep, Raw.slot_setSlot_lt hi, if_pos rfl]
  · -- absent: write into slot `p`
    have hc : 0 < t1.cap := by omega
    have hpc : p < t1.cap := by rw [← hpp]; exact probe_lt hashOf hc k dp
    have hfree2 : (t1.slot p).isFree = true → ∃ i, i < t1.cap ∧ i ≠ p ∧ t1.slot i = .free :=
      fun hf => insert_keeps_a_free_slot hI1.freeOk h2 p hf hpc
    have hR := insertInSlot_inv hashOf hI1.toRInv (v := v) habs hdp hpp hpath hnf hfree2
    have hnone : abs t k = none := by
      rw [← habs1]; exact (abs_eq_none_iff hashOf hI1.toRInv k).mpr habs
    have hguard : (dbg && (t1.slot p).isFull) = false := by rw [hnf]; simp
    have slot_eq : ∀ j, (insertInSlot hashOf t1 p k v).slot j = if j = p then .full (status hashOf k) k v else t1.slot j :=
      insertInSlot_slot hashOf hpc k v
    have cap_eq : (insertInSlot hashOf t1 p k v).cap = t1.cap := insertInSlot_cap hashOf t1 p k v
    have hholds : ∀ k' v', Holds (insertInSlot hashOf t1 p k v) k' v' ↔
        ((k' = k ∧ v' = v) ∨ (k' ≠ k ∧ Holds t1 k' v')) := by
      intro k' v'
      constructor
      · rintro ⟨i, st, hi, hs⟩
        rw [cap_eq] at hi
        rw [slot_eq] at hs
        by_cases hip : i = p
        · rw [if_pos hip] at hs; cases hs; exact Or.inl ⟨rfl, rfl⟩
        · rw [if_neg hip] at hs
          refine Or.inr ⟨?_, i, st, hi, hs⟩
          intro e'; subst e'; exact habs i hi ⟨st, v', hs⟩
      · rintro (⟨rfl, rfl⟩ | ⟨hne, i, st, hi, hs⟩)
        · exact ⟨p, status hashOf k', by rw [cap_eq]; exact hpc, by rw [slot_eq, if_pos rfl]⟩
        · have hip : i ≠ p := by
            intro e'; subst e'; rw [hs] at hnf; simp [Slot.isFull] at hnf
          exact ⟨i, st, by rw [cap_eq]; exact hi, by rw [slot_eq, if_neg hip]; exact hs⟩
    have hnF : nFull (insertInSlot hashOf t1 p k v) = nFull (t1.setSlot p (.full (status hashOf k) k v)) := rfl
    have hnFr : nFree (insertInSlot hashOf t1 p k v) = nFree (t1.setSlot p (.full (status hashOf k) k v)) := rfl
    have hcF := nFull_setSlot hpc (.full (status hashOf k) k v) (t := t1)
    have hcFr := nFree_setSlot hpc (.full (status hashOf k) k v) (t := t1)
    rw [hnf] at hcF
    simp only [Bool.false_eq_true, ↓reduceIte, Slot.isFull_full, Slot.isFree_full] at hcF hcFr
    have h3 : t1.free ≤ nFree t1 := hI1.freeOk
    refine ⟨insertInSlot hashOf t1 p k v, .error p, by simp only [insert, hfof, hguard]; rfl,
      ⟨hR, ?_, ?_, ?_, ?_⟩, ?_, fun h => absurd hnone h,
      fun _ => ⟨⟨p, rfl⟩, by rw [insertInSlot_len, hlen1]⟩, ?_⟩
    · rw [insertInSlot_len, hnF, hI1.lenEq]; omega
    · show (insertInSlot hashOf t1 p k v).free ≤ nFree (insertInSlot hashOf t1 p k v)
      rw [insertInSlot_free, hnFr]
      cases hsp : t1.slot p with
      | free =>
        rw [hsp] at hcFr
        simp only [Slot.isDead_free, Slot.isFree_free, Bool.false_eq_true, ↓reduceIte] at hcFr ⊢
        omega
      | dead =>
        rw [hsp] at hcFr
        simp only [Slot.isDead_dead, Slot.isFree_dead, Bool.false_eq_true, ↓reduceIte] at hcFr ⊢
        omega
      | full _ _ _ => rw [hsp] at hnf; simp [Slot.isFull] at hnf
    · left
      rw [insertInSlot_free]
      split <;> omega
    · rw [cap_eq]; exact hI1.pow2
    · intro k'
      rw [abs_of_holds_insert hashOf hI1.toRInv hR hholds k', habs1]
    · exact ⟨p, status hashOf k, Or.inr rfl, by rw [cap_eq]; exact hpc, by rw [slot_eq, if_pos rfl]⟩

/-! ### `find`, `get` -/

/-- C19, `find`: returns; a present key is found at the slot that holds it, an absent key is reported
absent -/
theorem find_spec {t : Raw κ ν} (hI : RInvFull hashOf t) (k : κ) :
    (∃ i st v, find hashOf dbg t k = .ok (some i) ∧ i < t.cap ∧ t.slot i = .full st k v ∧ abs t k = some v) ∨
    (find hashOf dbg t k = .ok none ∧ abs t k = none) := by
  rcases find_refines hashOf dbg hI.toRInv (hI.dbgOk hashOf dbg) k with ⟨i, v, st, hi, hs, hf⟩ | ⟨hno, hf⟩
  · exact Or.inl ⟨i, st, v, hf, hi, hs, (abs_eq_some_iff hashOf hI.toRInv k v).mpr ⟨i, st, hi, hs⟩⟩
  · refine Or.inr ⟨hf, (abs_eq_none_iff hashOf hI.toRInv k).mpr ?_⟩
    intro i hi ⟨st, v, hs⟩
    exact hno v ⟨i, st, hi, hs⟩

/-- C19, `get` reads the represented map -/
theorem get_spec {t : Raw κ ν} (hI : RInvFull hashOf t) (k : κ) :
    get hashOf dbg t k = .ok (abs t k) := by
  rcases find_spec hashOf dbg hI k with ⟨i, st, v, hf, _, hs, ha⟩ | ⟨hf, ha⟩
  · simp only [get, hf, hs, ha]
  · simp only [get, hf, ha]

/-! ### `remove` -/

/-- C19, `remove`: returns the old value, deletes `k`, changes nothing else -/
theorem remove_spec {t : Raw κ ν} (hI : RInvFull hashOf t) (k : κ) :
    ∃ t', remove hashOf dbg t k = .ok (t', abs t k) ∧ RInvFull hashOf t' ∧
      (∀ k', abs t' k' = if k' = k then none else abs t k') ∧
      t'.len = (if abs t k = none then t.len else t.len - 1) := by
  rcases find_spec hashOf dbg hI k with ⟨i, st, v, hf, hi, hs, ha⟩ | ⟨hf, ha⟩
  · have hfull : (t.slot i).isFull = true := by rw [hs]; rfl
    have hnfree : (t.slot i).isFree = false := by rw [hs]; rfl
    have hpos : 1 ≤ nFull t := countOcc_pos_of (occ := fun i => (t.slot i).isFull) hi hfull
    have hnF : nFull (removeAtSlot t i) =
        nFull (t.setSlot i (if (t.slot ((i + 1) % t.cap)).isFree then .free else .dead)) := rfl
    have hnFr : nFree (removeAtSlot t i) =
        nFree (t.setSlot i (if (t.slot ((i + 1) % t.cap)).isFree then .free else .dead)) := rfl
    have hcF := nFull_setSlot hi (if (t.slot ((i + 1) % t.cap)).isFree then .free else .dead) (t := t)
    have hcFr := nFree_setSlot hi (if (t.slot ((i + 1) % t.cap)).isFree then .free else .dead) (t := t)
    rw [← hnF] at hcF; rw [← hnFr] at hcFr
    have hF' : nFull (removeAtSlot t i) + 1 = nFull t := by
      rw [hfull] at hcF
      by_cases hn : (t.slot ((i + 1) % t.cap)).isFree = true
      · simpa [hn, Slot.isFull] using hcF
      · simpa [hn, Slot.isFull] using hcF
    have hlenEq : (removeAtSlot t i).len = nFull (removeAtSlot t i) := by
      rw [removeAtSlot_len, hI.lenEq]; omega
    have hR : RInv hashOf (removeAtSlot t i) := by
      refine removeAtSlot_inv hashOf hI.toRInv hi hfull ?_ (fun _ => trivial)
      intro h0 j hj hji
      have hz : nFull (removeAtSlot t i) = 0 := by rw [← hlenEq, removeAtSlot_len]; exact h0
      have := countOcc_zero hz j (by rw [removeAtSlot_cap]; exact hj)
      simp only [removeAtSlot_slot_ne t hji] at this
      exact this
    have hholds := remove_refines hashOf hI.toRInv hi hs
    refine ⟨removeAtSlot t i, by simp only [remove, hf, hs, ha], ⟨hR, hlenEq, ?_, ?_, ?_⟩, ?_, ?_⟩
    · show (removeAtSlot t i).free ≤ nFree (removeAtSlot t i)
      rw [removeAtSlot_free]
      have h3 : t.free ≤ nFree t := hI.freeOk
      rw [hnfree] at hcFr
      by_cases hn : (t.slot ((i + 1) % t.cap)).isFree = true
      · simp only [hn, ↓reduceIte, Slot.isFree_free, Slot.isFree_dead, Bool.false_eq_true] at hcFr ⊢; omega
      · simp only [hn, ↓reduceIte, Slot.isFree_free, Slot.isFree_dead, Bool.false_eq_true] at hcFr ⊢; omega
    · rw [removeAtSlot_free, removeAtSlot_cap]
      rcases hI.freePos with h | h
      · left; split <;> omega
      · exact Or.inr h
    · rw [removeAtSlot_cap]; exact hI.pow2
    · exact abs_of_holds_remove hashOf hI.toRInv hR hholds
    · rw [ha, removeAtSlot_len]; simp
  · refine ⟨t, by simp only [remove, hf, ha], hI, ?_, by rw [ha]; simp⟩
    intro k'
    by_cases e : k' = k
    · rw [if_pos e, e, ha]
    · rw [if_neg e]

end

/-! ### counting by scanning: `fullVals` -/

theorem fullVals_length (t : Raw κ ν) : ∀ n i,
    (fullVals t n i).length = (List.range' i n).countP (fun j => (t.slot j).isFull) := by
  intro n
  induction n with
  | zero => intro i; rfl
  | succ n ih =>
    intro i
    rw [List.range'_succ, List.countP_cons, ← ih (i + 1)]
    simp only [fullVals]
    cases hs : t.slot i <;> simp [Slot.isFull]

/-- `len = #full slots`, in the form the iterator and `clear` consume it -/
theorem nFull_eq_fullVals (t : Raw κ ν) : nFull t = (fullVals t t.cap 0).length := by
  rw [fullVals_length]
  unfold nFull Cn.countOcc
  rw [List.range_eq_range']

theorem fullVals_congr {t t' : Raw κ ν} : ∀ n i, (∀ j, i ≤ j → j < i + n → t'.slot j = t.slot j) →
    fullVals t' n i = fullVals t n i := by
  intro n
  induction n with
  | zero => intro i _; rfl
  | succ n ih =>
    intro i h
    simp only [fullVals]
    rw [h i (Nat.le_refl _) (by omega), ih (i + 1) (fun j h1 h2 => h j (by omega) (by omega))]

theorem fullVals_nil {t : Raw κ ν} : ∀ n i, (fullVals t n i).length = 0 →
    ∀ j, i ≤ j → j < i + n → (t.slot j).isFull = false := by
  intro n
  induction n with
  | zero => intro i _ j h1 h2; omega
  | succ n ih =>
    intro i h j h1 h2
    simp only [fullVals] at h
    cases hs : t.slot i with
    | full st k v => simp only [hs] at h; simp at h
    | free =>
      simp only [hs] at h
      by_cases e : j = i
      · subst e; rw [hs]; rfl
      · exact ih (i + 1) h j (by omega) (by omega)
    | dead =>
      simp only [hs] at h
      by_cases e : j = i
      · subst e; rw [hs]; rfl
      · exact ih (i + 1) h j (by omega) (by omega)

/-! ### `clear` -/

theorem clearLoop_cons (i : Nat) (is : List Nat) (t : Raw κ ν) :
    clearLoop (i :: is) t =
      if (t.slot i).isFull = true then
        if t.len - 1 = 0 then .ok { t.setSlot i .free with len := t.len - 1 }
        else clearLoop is { t.setSlot i .free with len := t.len - 1 }
      else clearLoop is (t.setSlot i .free) := rfl

/-- the loop of `clear` from slot `i`, when `len` is exactly the number of full slots ahead: it stops
(at the last full slot) before the `unreachable!()`, having reset every slot it passed -/
theorem clearLoop_spec : ∀ (n i : Nat) (t : Raw κ ν), i + n = t.cap →
    t.len = (fullVals t n i).length → t.len ≠ 0 →
    ∃ t', clearLoop (List.range' i n) t = .ok t' ∧ t'.cap = t.cap ∧ t'.len = 0 ∧ t'.free = t.free ∧
      ∀ j, j < t.cap → (t'.slot j = .free ∨ (t'.slot j = t.slot j ∧ (i ≤ j → (t.slot j).isFull = false))) := by
  intro n
  induction n with
  | zero => intro i t _ hl h0; simp [fullVals] at hl; omega
  | succ n ih =>
    intro i t hcap hl h0
    have hic : i < t.cap := by omega
    rw [List.range'_succ, clearLoop_cons]
    have hv : fullVals (t.setSlot i .free) n (i + 1) = fullVals t n (i + 1) :=
      fullVals_congr n (i + 1) (fun j h1 _ => by rw [Raw.slot_setSlot_lt hic, if_neg (by omega)])
    have hslot : ∀ j, (t.setSlot i .free).slot j = if j = i then .free else t.slot j :=
      fun j => Raw.slot_setSlot_lt hic j _
    have hcap1 : (t.setSlot i .free).cap = t.cap := Raw.cap_setSlot _ _ _
    simp only [fullVals] at hl
    by_cases hocc : (t.slot i).isFull = true
    · rw [if_pos hocc]
      have hl' : t.len = (fullVals t n (i + 1)).length + 1 := by
        cases hs : t.slot i with
        | full st k v => simp only [hs] at hl; simpa using hl
        | free => rw [hs] at hocc; cases hocc
        | dead => rw [hs] at hocc; cases hocc
      by_cases hz : t.len - 1 = 0
      · rw [if_pos hz]
        refine ⟨_, rfl, hcap1, hz, rfl, ?_⟩
        intro j hj
        show (t.setSlot i .free).slot j = .free ∨ ((t.setSlot i .free).slot j = t.slot j ∧ _)
        rw [hslot]
        by_cases e : j = i
        · rw [if_pos e]; exact Or.inl rfl
        · rw [if_neg e]
          exact Or.inr ⟨rfl, fun hij => fullVals_nil n (i + 1) (by omega) j (by omega) (by omega)⟩
      · rw [if_neg hz]
        obtain ⟨t', hrun, hc', hlen', hfree', hsl⟩ :=
          ih (i + 1) { t.setSlot i .free with len := t.len - 1 } (by show i + 1 + n = (t.setSlot i .free).cap; omega)
            (by
              have hv2 : fullVals ({ t.setSlot i .free with len := t.len - 1 } : Raw κ ν) n (i + 1) =
                  fullVals t n (i + 1) :=
                fullVals_congr n (i + 1) (fun j h1 _ => by
                  show (t.setSlot i .free).slot j = t.slot j
                  rw [Raw.slot_setSlot_lt hic, if_neg (by omega)])
              rw [hv2]; show t.len - 1 = _; omega) hz
        refine ⟨t', hrun, by rw [hc']; exact hcap1, hlen', hfree', ?_⟩
        intro j hj
        rcases hsl j (by show j < (t.setSlot i .free).cap; omega) with h | ⟨h1, h2⟩
        · exact Or.inl h
        · have h1' : t'.slot j = (t.setSlot i .free).slot j := h1
          have h2' : i + 1 ≤ j → ((t.setSlot i .free).slot j).isFull = false := h2
          rw [hslot] at h1' h2'
          by_cases e : j = i
          · rw [if_pos e] at h1'; exact Or.inl h1'
          · rw [if_neg e] at h1' h2'
            exact Or.inr ⟨h1', fun hij => h2' (by omega)⟩
    · rw [if_neg hocc]
      have hl' : t.len = (fullVals t n (i + 1)).length := by
        cases hs : t.slot i with
        | full st k v => rw [hs] at hocc; exact absurd rfl hocc
        | free => simp only [hs] at hl; exact hl
        | dead => simp only [hs] at hl; exact hl
      obtain ⟨t', hrun, hc', hlen', hfree', hsl⟩ :=
        ih (i + 1) (t.setSlot i .free) (by omega)
          (by show t.len = (fullVals (t.setSlot i .free) n (i + 1)).length; rw [hv]; exact hl') h0
      refine ⟨t', hrun, by rw [hc']; exact hcap1, hlen', hfree', ?_⟩
      intro j hj
      rcases hsl j (by omega) with h | ⟨h1, h2⟩
      · exact Or.inl h
      · rw [hslot] at h1 h2
        by_cases e : j = i
        · rw [if_pos e] at h1; exact Or.inl h1
        · rw [if_neg e] at h1 h2
          exact Or.inr ⟨h1, fun hij => h2 (by omega)⟩

theorem countOcc_mono {occ occ' : Nat → Bool} : ∀ (n : Nat), (∀ i, i < n → occ i = true → occ' i = true) →
    Cn.countOcc occ n ≤ Cn.countOcc occ' n := by
  intro n
  induction n with
  | zero => intro _; simp [Cn.countOcc]
  | succ n ih =>
    intro h
    rw [Cn.countOcc_succ, Cn.countOcc_succ]
    have h1 := ih (fun i hi => h i (by omega))
    have h2 := h n (by omega)
    by_cases ho : occ n = true
    · simp only [ho, h2 ho, ↓reduceIte]; omega
    · simp only [ho, Bool.false_eq_true, ↓reduceIte]; split <;> omega

section
variable (hashOf : κ → Nat) (dbg : Bool)

/-- C19, `clear`: returns (the `unreachable!()` is not reached), keeps the invariant, empties the map -/
theorem clear_spec {t : Raw κ ν} (hI : RInvFull hashOf t) :
    ∃ t', clear t = .ok t' ∧ RInvFull hashOf t' ∧ (∀ k, abs t' k = none) ∧ t'.len = 0 ∧ t'.cap = t.cap := by
  unfold clear
  by_cases h0 : t.len = 0
  · rw [if_pos h0]
    refine ⟨t, rfl, hI, ?_, h0, rfl⟩
    intro k
    refine (abs_eq_none_iff hashOf hI.toRInv k).mpr ?_
    intro i hi ⟨st, v, hs⟩
    have := hI.lenZero h0 i hi
    rw [hs] at this; cases this
  · rw [if_neg h0, List.range_eq_range']
    obtain ⟨t', hrun, hc', hlen', hfree', hsl⟩ := clearLoop_spec t.cap 0 t (by omega)
      (by rw [hI.lenEq]; exact nFull_eq_fullVals t) h0
    have hnofull : ∀ j, j < t'.cap → (t'.slot j).isFull = false := by
      intro j hj
      rcases hsl j (by omega) with h | ⟨h1, h2⟩
      · rw [h]; rfl
      · rw [h1]; exact h2 (Nat.zero_le _)
    have hzero : nFull t' = 0 := by
      unfold nFull Cn.countOcc
      rw [List.countP_eq_zero]
      intro a ha
      rw [hnofull a (List.mem_range.mp ha)]; simp
    have hI' : RInvFull hashOf t' := by
      refine RInvFull.mk' hashOf ?_ ?_ (by rw [hlen', hzero]) ?_ ?_ (by rw [hc']; exact hI.pow2)
      · intro i st k v hi hs
        have := hnofull i hi
        rw [hs] at this; cases this
      · intro i j st st' k v v' hi _ hs
        have := hnofull i hi
        rw [hs] at this; cases this
      · show t'.free ≤ nFree t'
        rw [hfree']
        refine Nat.le_trans hI.freeOk ?_
        unfold nFree
        rw [hc']
        apply countOcc_mono
        intro i hi hf
        rcases hsl i hi with h | ⟨h1, _⟩
        · rw [h]; rfl
        · rw [h1]; exact hf
      · rw [hfree', hc']; exact hI.freePos
    refine ⟨t', hrun, hI', ?_, hlen', hc'⟩
    intro k
    refine (abs_eq_none_iff hashOf hI'.toRInv k).mpr ?_
    intro i hi ⟨st, v, hs⟩
    have := hnofull i hi
    rw [hs] at this; cases this

end

/-! ### `iter` -/

/-- keys of the full slots in `[idx, idx + n)` (companion of `fullVals`) -/
def fullKeys (t : Raw κ ν) : Nat → Nat → List κ
  | 0, _ => []
  | n + 1, idx =>
    match t.slot idx with
    | .full _ k _ => k :: fullKeys t n (idx + 1)
    | _ => fullKeys t n (idx + 1)

theorem mem_fullKeys {t : Raw κ ν} {k : κ} : ∀ n i,
    k ∈ fullKeys t n i ↔ ∃ j st v, i ≤ j ∧ j < i + n ∧ t.slot j = .full st k v := by
  intro n
  induction n with
  | zero =>
    intro i
    simp only [fullKeys, List.not_mem_nil, false_iff]
    rintro ⟨j, _, _, h1, h2, _⟩; omega
  | succ n ih =>
    intro i
    simp only [fullKeys]
    cases hs : t.slot i with
    | full st' k' v' =>
      simp only [List.mem_cons, ih]
      constructor
      · rintro (e | ⟨j, st, v, h1, h2, hj⟩)
        · subst e; exact ⟨i, st', v', Nat.le_refl _, by omega, hs⟩
        · exact ⟨j, st, v, by omega, by omega, hj⟩
      · rintro ⟨j, st, v, h1, h2, hj⟩
        by_cases e : j = i
        · subst e; rw [hs] at hj; cases hj; exact Or.inl rfl
        · exact Or.inr ⟨j, st, v, by omega, by omega, hj⟩
    | free =>
      simp only [ih]
      constructor
      · rintro ⟨j, st, v, h1, h2, hj⟩; exact ⟨j, st, v, by omega, by omega, hj⟩
      · rintro ⟨j, st, v, h1, h2, hj⟩
        have e : j ≠ i := by intro e; subst e; rw [hs] at hj; cases hj
        exact ⟨j, st, v, by omega, by omega, hj⟩
    | dead =>
      simp only [ih]
      constructor
      · rintro ⟨j, st, v, h1, h2, hj⟩; exact ⟨j, st, v, by omega, by omega, hj⟩
      · rintro ⟨j, st, v, h1, h2, hj⟩
        have e : j ≠ i := by intro e; subst e; rw [hs] at hj; cases hj
        exact ⟨j, st, v, by omega, by omega, hj⟩

theorem nodup_fullKeys {t : Raw κ ν}
    (hd : ∀ i j st st' k v v', i < t.cap → j < t.cap →
      t.slot i = .full st k v → t.slot j = .full st' k v' → i = j) :
    ∀ n i, i + n ≤ t.cap → (fullKeys t n i).Nodup := by
  intro n
  induction n with
  | zero => intro i _; simp [fullKeys]
  | succ n ih =>
    intro i hle
    simp only [fullKeys]
    cases hs : t.slot i with
    | full st k v =>
      simp only []
      refine List.nodup_cons.mpr ⟨?_, ih (i + 1) (by omega)⟩
      intro hmem
      obtain ⟨j, st', v', h1, h2, hj⟩ := (mem_fullKeys n (i + 1)).mp hmem
      have := hd i j st st' k v v' (by omega) (by omega) hs hj
      omega
    | free => exact ih (i + 1) (by omega)
    | dead => exact ih (i + 1) (by omega)

theorem fullKeys_length (t : Raw κ ν) : ∀ n i, (fullKeys t n i).length = (fullVals t n i).length := by
  intro n
  induction n with
  | zero => intro i; rfl
  | succ n ih =>
    intro i
    simp only [fullKeys, fullVals]
    cases hs : t.slot i <;> simp [ih]

theorem fullVals_map {t : Raw κ ν}
    (habs : ∀ j st k v, j < t.cap → t.slot j = .full st k v → abs t k = some v) :
    ∀ n i, i + n ≤ t.cap → (fullVals t n i).map some = (fullKeys t n i).map (abs t) := by
  intro n
  induction n with
  | zero => intro i _; rfl
  | succ n ih =>
    intro i hle
    simp only [fullKeys, fullVals]
    cases hs : t.slot i with
    | full st k v =>
      simp only [List.map_cons, habs i st k v (by omega) hs, ih (i + 1) (by omega)]
    | free => exact ih (i + 1) (by omega)
    | dead => exact ih (i + 1) (by omega)

section
variable (hashOf : κ → Nat) (dbg : Bool)

/-- C19, `iter`: returns (never runs off the end); the values it yields are exactly the values of
the keys present, each key contributing once: there is a duplicate-free enumeration `ks` of the
present keys with `vs = ks.map (value of ·)`, and `len` is the number of keys present -/
theorem iter_spec {t : Raw κ ν} (hI : RInvFull hashOf t) :
    ∃ (vs : List ν) (ks : List κ), iter dbg t = .ok vs ∧ ks.Nodup ∧ (∀ k, k ∈ ks ↔ abs t k ≠ none) ∧
      vs.map some = ks.map (abs t) ∧ ks.length = t.len ∧ vs.length = t.len := by
  have hlen : (fullVals t t.cap 0).length = t.len := by rw [hI.lenEq]; exact (nFull_eq_fullVals t).symm
  refine ⟨fullVals t t.cap 0, fullKeys t t.cap 0, ?_, nodup_fullKeys hI.distinct t.cap 0 (by omega), ?_,
    fullVals_map (fun j st k v hj hs => (abs_eq_some_iff hashOf hI.toRInv k v).mpr ⟨j, st, hj, hs⟩) t.cap 0 (by omega),
    by rw [fullKeys_length]; exact hlen, hlen⟩
  · have := iterLoop_spec dbg t t.cap 0 t.len [] (by omega) hlen
    simpa [iter] using this
  · intro k
    rw [mem_fullKeys]
    constructor
    · rintro ⟨j, st, v, _, h2, hj⟩
      rw [(abs_eq_some_iff hashOf hI.toRInv k v).mpr ⟨j, st, by omega, hj⟩]
      intro h; cases h
    · intro hne
      cases ha : abs t k with
      | none => exact absurd ha hne
      | some v =>
        obtain ⟨j, st, hj, hs⟩ := (abs_eq_some_iff hashOf hI.toRInv k v).mp ha
        exact ⟨j, st, v, Nat.zero_le _, by omega, hs⟩

/-- …hence `iter` is a permutation of the stored values, for any duplicate-free enumeration of the keys -/
theorem iter_perm {t : Raw κ ν} (hI : RInvFull hashOf t) {ks' : List κ} (nd : ks'.Nodup)
    (hk : ∀ k, k ∈ ks' ↔ abs t k ≠ none) :
    ∃ vs, iter dbg t = .ok vs ∧ (vs.map some).Perm (ks'.map (abs t)) ∧ ks'.length = t.len := by
  obtain ⟨vs, ks, hrun, ndk, hmem, hmap, hlen, _⟩ := iter_spec hashOf dbg hI
  have hp : ks.Perm ks' := (List.perm_ext_iff_of_nodup ndk nd).mpr (fun a => (hmem a).trans (hk a).symm)
  exact ⟨vs, hrun, by rw [hmap]; exact hp.map _, by rw [← hlen]; exact hp.length_eq.symm⟩

end

/-! ### histories -/

/-- the safe API -/
inductive Op (κ ν : Type) where
  | insert (k : κ) (v : ν)
  | get (k : κ)
  | find (k : κ)
  | findOrFree (k : κ)
  | remove (k : κ)
  | clear
  | reserve (additional : Nat)
  | iter

def Out.map {α β : Type} (f : α → β) : Out α → Out β
  | .ok a => .ok (f a)
  | .hang => .hang
  | .ub => .ub
  | .panic => .panic

def Out.bind {α β : Type} (o : Out α) (f : α → Out β) : Out β :=
  match o with
  | .ok a => f a
  | .hang => .hang
  | .ub => .ub
  | .panic => .panic

/-- the reference semantics of a call on the represented map -/
def mapStep : Op κ ν → (κ → Option ν) → (κ → Option ν)
  | .insert k v, m => fun k' => if k' = k then some v else m k'
  | .remove k, m => fun k' => if k' = k then none else m k'
  | .clear, _ => fun _ => none
  | .get _, m => m
  | .find _, m => m
  | .findOrFree _, m => m
  | .reserve _, m => m
  | .iter, m => m

def mapRun : List (Op κ ν) → (κ → Option ν) → (κ → Option ν)
  | [], m => m
  | op :: ops, m => mapRun ops (mapStep op m)

/-- the memory bound a call needs when the table holds `n` elements (`usize` arithmetic of
`reserve_rehash` stays below `2^63`) -/
def opFits : Op κ ν → Nat → Prop
  | .insert _ _, n => n + 2 ≤ 2 ^ 63
  | .findOrFree _, n => n + 2 ≤ 2 ^ 63
  | .reserve a, n => n + a ≤ 2 ^ 63
  | .get _, _ => True
  | .find _, _ => True
  | .remove _, _ => True
  | .clear, _ => True
  | .iter, _ => True

/-- the memory bound along a history that starts with at most `n` elements (each call adds at most one) -/
def fits : List (Op κ ν) → Nat → Prop
  | [], _ => True
  | op :: ops, n => opFits op n ∧ fits ops (n + 1)

theorem opFits_mono {op : Op κ ν} {m n : Nat} (h : opFits op m) (hle : n ≤ m) : opFits op n := by
  cases op <;> simp only [opFits] at h ⊢ <;> omega

theorem fits_mono : ∀ {ops : List (Op κ ν)} {m n : Nat}, fits ops m → n ≤ m → fits ops n := by
  intro ops
  induction ops with
  | nil => intro _ _ _ _; trivial
  | cons op ops ih =>
    intro m n h hle
    exact ⟨opFits_mono h.1 hle, ih h.2 (by omega)⟩

/-- a simple sufficient bound: the history is short and asks for no huge reservation -/
theorem fits_of_bound : ∀ (ops : List (Op κ ν)) (n : Nat), n + ops.length + 2 ≤ 2 ^ 63 →
    (∀ a, Op.reserve a ∈ ops → n + ops.length + a ≤ 2 ^ 63) → fits ops n := by
  intro ops
  induction ops with
  | nil => intro _ _ _; trivial
  | cons op ops ih =>
    intro n h1 h2
    simp only [List.length_cons] at h1 h2
    refine ⟨?_, ih (n + 1) (by omega) (fun a ha => by have := h2 a (List.mem_cons_of_mem _ ha); omega)⟩
    cases op with
    | reserve a => have := h2 a List.mem_cons_self; simp only [opFits]; omega
    | insert _ _ => simp only [opFits]; omega
    | findOrFree _ => simp only [opFits]; omega
    | get _ => trivial
    | find _ => trivial
    | remove _ => trivial
    | clear => trivial
    | iter => trivial

section
variable (hashOf : κ → Nat) (dbg : Bool)

/-- one safe-API call: the table afterwards (results are characterised by the `…_spec` theorems) -/
def step (op : Op κ ν) (t : Raw κ ν) : Out (Raw κ ν) :=
  match op with
  | .insert k v => (insert hashOf dbg t k v).map (·.1)
  | .get k => (get hashOf dbg t k).map (fun _ => t)
  | .find k => (find hashOf dbg t k).map (fun _ => t)
  | .findOrFree k => (findOrFree hashOf dbg t k).map (·.1)
  | .remove k => (remove hashOf dbg t k).map (·.1)
  | .clear => clear t
  | .reserve a => reserve t a
  | .iter => (iter dbg t).map (fun _ => t)

def run : List (Op κ ν) → Raw κ ν → Out (Raw κ ν)
  | [], t => .ok t
  | op :: ops, t => (step hashOf dbg op t).bind (run ops)

/-- C19_safe / C19_refines, one call: under the invariant (and the memory bound) every safe-API call
returns `.ok` — no `hang`, no `ub`, no `panic` in either build —, re-establishes the invariant,
changes the represented map like the reference map operation and grows `len` by at most one -/
theorem step_spec {t : Raw κ ν} (hI : RInvFull hashOf t) (op : Op κ ν) (hfit : opFits op t.len) :
    ∃ t', step hashOf dbg op t = .ok t' ∧ RInvFull hashOf t' ∧
      (∀ k, abs t' k = mapStep op (abs t) k) ∧ t'.len ≤ t.len + 1 := by
  cases op with
  | insert k v =>
    obtain ⟨t', r, hrun, hI', habs, hp, ha, _⟩ := insert_spec hashOf dbg hI hfit k v
    refine ⟨t', by simp only [step, hrun, Out.map], hI', habs, ?_⟩
    by_cases h : abs t k = none
    · rw [(ha h).2]; omega
    · rw [(hp h).2]; omega
  | get k =>
    exact ⟨t, by simp only [step, get_spec hashOf dbg hI k, Out.map], hI, fun _ => rfl, by omega⟩
  | find k =>
    rcases find_spec hashOf dbg hI k with ⟨i, st, v, hf, _⟩ | ⟨hf, _⟩
    · exact ⟨t, by simp only [step, hf, Out.map], hI, fun _ => rfl, by omega⟩
    · exact ⟨t, by simp only [step, hf, Out.map], hI, fun _ => rfl, by omega⟩
  | findOrFree k =>
    obtain ⟨t1, r, hrun, hI1, _, hlen, hh, _⟩ := findOrFree_spec hashOf dbg hI hfit k
    exact ⟨t1, by simp only [step, hrun, Out.map], hI1,
      abs_of_holds_same hashOf hI.toRInv hI1.toRInv hh, by omega⟩
  | remove k =>
    obtain ⟨t', hrun, hI', habs, hlen⟩ := remove_spec hashOf dbg hI k
    refine ⟨t', by simp only [step, hrun, Out.map], hI', habs, ?_⟩
    rw [hlen]; split <;> omega
  | clear =>
    obtain ⟨t', hrun, hI', habs, hlen, _⟩ := clear_spec hashOf hI
    exact ⟨t', hrun, hI', habs, by omega⟩
  | reserve a =>
    obtain ⟨t', hrun, hI', _, hlen, hh⟩ := reserve_spec hashOf hI hfit
    exact ⟨t', hrun, hI', abs_of_holds_same hashOf hI.toRInv hI'.toRInv hh, by omega⟩
  | iter =>
    obtain ⟨vs, ks, hrun, _⟩ := iter_spec hashOf dbg hI
    exact ⟨t, by simp only [step, hrun, Out.map], hI, fun _ => rfl, by omega⟩

theorem run_spec : ∀ (ops : List (Op κ ν)) (t : Raw κ ν), RInvFull hashOf t → fits ops t.len →
    ∃ t', run hashOf dbg ops t = .ok t' ∧ RInvFull hashOf t' ∧ ∀ k, abs t' k = mapRun ops (abs t) k := by
  intro ops
  induction ops with
  | nil => intro t hI _; exact ⟨t, rfl, hI, fun _ => rfl⟩
  | cons op ops ih =>
    intro t hI hfit
    obtain ⟨t1, hstep, hI1, habs1, hlen1⟩ := step_spec hashOf dbg hI op hfit.1
    obtain ⟨t', hrun, hI', habs'⟩ := ih t1 hI1 (fits_mono hfit.2 hlen1)
    refine ⟨t', by simp only [run, hstep, Out.bind]; exact hrun, hI', ?_⟩
    intro k
    rw [habs' k]
    have : abs t1 = mapStep op (abs t) := funext habs1
    simp only [mapRun, this]

/-- C19_reach: every history of safe-API calls from `RawTable::new()` (within the memory bound)
runs to completion — no call hangs, reads uninitialised memory or fails a debug assertion —,
ends in a table satisfying the invariant, and that table represents the map obtained by running
the reference map operations from the empty map -/
theorem C19_reach (ops : List (Op κ ν)) (hfit : fits ops 0) :
    ∃ t, run hashOf dbg ops (Raw.new : Raw κ ν) = .ok t ∧ RInvFull hashOf t ∧
      ∀ k, abs t k = mapRun ops (fun _ => none) k := by
  obtain ⟨t, hrun, hI, habs⟩ := run_spec hashOf dbg ops Raw.new (new_inv hashOf) hfit
  exact ⟨t, hrun, hI, habs⟩

/-- C19_safe, as a statement about outcomes: under the invariant no safe-API call hangs, has
undefined behaviour or panics -/
theorem C19_safe {t : Raw κ ν} (hI : RInvFull hashOf t) (op : Op κ ν) (hfit : opFits op t.len) :
    step hashOf dbg op t ≠ .hang ∧ step hashOf dbg op t ≠ .ub ∧ step hashOf dbg op t ≠ .panic := by
  obtain ⟨t', h, _⟩ := step_spec hashOf dbg hI op hfit
  rw [h]
  exact ⟨fun h => (by cases h), fun h => (by cases h), fun h => (by cases h)⟩

/-- C19_refines: whatever table a safe-API call returns, it satisfies the invariant and represents
the reference map operation applied to the map represented before (the values *returned* by the
calls are characterised in `insert_spec`, `get_spec`, `find_spec`, `remove_spec`, `iter_spec`) -/
theorem C19_refines {t t' : Raw κ ν} (hI : RInvFull hashOf t) (op : Op κ ν) (hfit : opFits op t.len)
    (h : step hashOf dbg op t = .ok t') :
    RInvFull hashOf t' ∧ ∀ k, abs t' k = mapStep op (abs t) k := by
  obtain ⟨t'', h', hI', habs, _⟩ := step_spec hashOf dbg hI op hfit
  rw [h] at h'; cases h'
  exact ⟨hI', habs⟩

/-! ### the pinned variants (defects D3, D4) -/

/-- `find_or_free` reserving `need` slots: `need = 2` is the repaired code, `need = 1` the pinned one (D3) -/
def findOrFreeV (need : Nat) (t : Raw κ ν) (k : κ) : Out (Raw κ ν × Except Nat Nat) :=
  match reserve t need with
  | .ok t1 =>
    if dbg && !isPow2 t1.cap then .panic else
    if t1.cap = 0 then .ub else
    match fofLoop hashOf t1 k t1.cap (home hashOf t1.cap k) none with
    | .ok r => .ok (t1, r)
    | .hang => .hang
    | .ub => .ub
    | .panic => .panic
  | .hang => .hang
  | .ub => .ub
  | .panic => .panic

/-- `insert` with `need` reserved slots; `replace = true` is the repaired code, `replace = false` the
pinned one (D4): a present key goes through `insert_in_slot` again (debug build: its
`debug_assert!(!occupied)` fires; release build: `len` is bumped) -/
def insertV (need : Nat) (replace : Bool) (t : Raw κ ν) (k : κ) (v : ν) : Out (Raw κ ν × Except Nat Nat) :=
  match findOrFreeV hashOf dbg need t k with
  | .ok (t1, .ok i) =>
    if replace then .ok (replaceAt t1 i v, .ok i) else
    if dbg && (t1.slot i).isFull then .panic else
    .ok (insertInSlot hashOf t1 i k v, .ok i)
  | .ok (t1, .error p) =>
    if dbg && (t1.slot p).isFull then .panic else
    .ok (insertInSlot hashOf t1 p k v, .error p)
  | .hang => .hang
  | .ub => .ub
  | .panic => .panic

/-- the variants at the repaired parameters are the model's operations -/
theorem findOrFreeV_repaired (t : Raw κ ν) (k : κ) :
    findOrFreeV hashOf dbg 2 t k = findOrFree hashOf dbg t k := rfl

theorem insertV_repaired (t : Raw κ ν) (k : κ) (v : ν) :
    insertV hashOf dbg 2 true t k v = insert hashOf dbg t k v := by
  simp only [insertV, insert, findOrFreeV_repaired]
  rfl

end

/-- D3, release build: with the pinned `reserve(1)`, `insert(1)` consumes the only FREE slot and the
lookup of the absent key 2 never returns -/
example : (insertV (fun k => k) false 1 true (Raw.new : Raw Nat Nat) 1 10).bind
    (fun r => find (fun k => k) false r.1 2) = .hang := rfl
/-- D3, debug build: `debug_assert_ne!(self.free, 0)` fires instead -/
example : (insertV (fun k => k) true 1 true (Raw.new : Raw Nat Nat) 1 10).bind
    (fun r => find (fun k => k) true r.1 2) = .panic := rfl
/-- …whereas the repaired `insert` leaves a FREE slot and the lookup reports absence -/
example : (insert (fun k => k) false (Raw.new : Raw Nat Nat) 1 10).bind
    (fun r => find (fun k => k) false r.1 2) = .ok none := rfl

/-- D4, release build: with the pinned `Ok(slot)` arm, `insert(1); insert(1)` gives `len = 2` over one
full slot and `iter` runs off the end of the slot array -/
example : ((insertV (fun k => k) false 2 false (Raw.new : Raw Nat Nat) 1 10).bind
    (fun r => insertV (fun k => k) false 2 false r.1 1 11)).bind (fun r => iter false r.1) = .ub := rfl
/-- D4, debug build: `debug_assert!(!self.data[slot].is_occupied())` fires in the second `insert` -/
example : ((insertV (fun k => k) true 2 false (Raw.new : Raw Nat Nat) 1 10).bind
    (fun r => insertV (fun k => k) true 2 false r.1 1 11)).bind (fun r => iter true r.1) = .panic := rfl
/-- D3 and D4 together (the pinned commit), release build -/
example : ((insertV (fun k => k) false 1 false (Raw.new : Raw Nat Nat) 1 10).bind
    (fun r => insertV (fun k => k) false 1 false r.1 1 11)).bind (fun r => iter false r.1) = .ub := rfl
/-- …whereas the repaired code replaces the value and iterates over exactly it -/
example : ((insert (fun k => k) false (Raw.new : Raw Nat Nat) 1 10).bind
    (fun r => insert (fun k => k) false r.1 1 11)).bind (fun r => iter false r.1) = .ok [11] := rfl

#print axioms new_inv
#print axioms reserve_spec
#print axioms findOrFree_spec
#print axioms insert_spec
#print axioms find_spec
#print axioms get_spec
#print axioms remove_spec
#print axioms clear_spec
#print axioms iter_spec
#print axioms iter_perm
#print axioms step_spec
#print axioms C19_safe
#print axioms C19_refines
#print axioms C19_reach
end R

import BddProofs.LiveCount
import BddProofs.SweepTab
/-! The sweep phase of the real `collect_garbage` (`P.skipDead`, `P.relink`, `P.sweepBucket`,
`P.sweepFrom` on the array table) against the function-view loops of `Sweep.lean`/`SweepAll.lean`.

* `…_sim`: whenever a concrete loop returns `.ok`, the function-view loop computes the same
  memory (chain-free; the only range fact needed — `prev < size` for `set_next` — holds because
  `prev` is a *marked* cell and the mark array is no longer than the storage);
* `…_total`: along a duplicate-free chain of occupied in-range cells the concrete loops return
  `.ok` (no `assertion` from `drop`, no `outOfFuel`) and keep the live count `RS`;
* `sweep_full`: the whole sweep on a table satisfying `TInv` re-establishes `TInv` with every
  chain filtered to the marked cells, clears exactly the unmarked chained cells, keeps `RS`. -/
namespace P
open Arr S

/-! ### array facts -/

theorem rd_oob_false (a : Array Bool) {i : Nat} (h : a.size ≤ i) : rd a i = false := by
  simp [rd, Array.getD_eq_getD_getElem?, h]

theorem rd_true_lt {a : Array Bool} {i : Nat} (h : rd a i = true) : i < a.size := by
  apply Classical.byContradiction
  intro hge
  rw [rd_oob_false a (by omega)] at h; cases h

/-- clearing a flag is a pointwise update for *every* index (an out-of-range flag reads `false`
already) -/
theorem rd_wr_false (a : Array Bool) (i : Nat) :
    rd (wr a i false) = fun j => if j = i then false else rd a j := by
  funext j
  rw [rd_wr]
  by_cases e : j = i
  · subst e
    by_cases h : j < a.size
    · simp [h]
    · simp only [h, and_false, ↓reduceIte]; exact rd_oob_false a (by omega)
  · have : ¬ (i = j ∧ i < a.size) := fun x => e x.1.symm
    simp [this, e]

/-- the memory view of the array table -/
def Table.toMem (t : Table Node) : Mem := ⟨rd t.nxs, rd t.occs⟩

/-- the survivor predicate read off the mark array -/
def aliveOf (mark : Array Bool) : Nat → Bool := fun i => rd mark i

/-! ### what the sweep never changes, and what it does to `min_free` -/

structure Fr (t t' : Table Node) : Prop where
  vals : t'.vals = t.vals
  bitmask : t'.bitmask = t.bitmask
  lastIndex : t'.lastIndex = t.lastIndex
  nxsSize : t'.nxs.size = t.nxs.size
  occsSize : t'.occs.size = t.occs.size
  bucketsSize : t'.buckets.size = t.buckets.size
  mfLe : t'.minFree ≤ t.minFree
  mfPos : 1 ≤ t.minFree → 1 ≤ t'.minFree
  /-- every cell that was freed is at or above the new `min_free` -/
  mfDrop : ∀ i, rd t.occs i = true → rd t'.occs i = false → t'.minFree ≤ i

theorem Fr.refl (t : Table Node) : Fr t t :=
  ⟨rfl, rfl, rfl, rfl, rfl, rfl, Nat.le_refl _, fun h => h, fun i a b => by rw [a] at b; cases b⟩

theorem Fr.trans {a b c : Table Node} (h1 : Fr a b) (h2 : Fr b c) : Fr a c := by
  refine ⟨h2.vals.trans h1.vals, h2.bitmask.trans h1.bitmask, h2.lastIndex.trans h1.lastIndex,
    h2.nxsSize.trans h1.nxsSize, h2.occsSize.trans h1.occsSize, h2.bucketsSize.trans h1.bucketsSize,
    Nat.le_trans h2.mfLe h1.mfLe, fun h => h2.mfPos (h1.mfPos h), ?_⟩
  intro i ha hc
  by_cases hb : rd b.occs i = true
  · exact h2.mfDrop i hb hc
  · have hb' : rd b.occs i = false := by simpa using hb
    exact Nat.le_trans h2.mfLe (h1.mfDrop i ha hb')

theorem Fr.setNext (t : Table Node) (i x : Nat) : Fr t (t.setNext i x) :=
  ⟨rfl, rfl, rfl, by simp [Table.setNext], rfl, rfl, Nat.le_refl _, fun h => h,
    fun j a b => by rw [show (t.setNext i x).occs = t.occs from rfl, a] at b; cases b⟩

theorem Fr.setBucket (t : Table Node) (b x : Nat) : Fr t (t.setBucket b x) :=
  ⟨rfl, rfl, rfl, rfl, rfl, by simp [Table.setBucket], Nat.le_refl _, fun h => h,
    fun j a c => by rw [show (t.setBucket b x).occs = t.occs from rfl, a] at c; cases c⟩

/-! ### `drop` -/

theorem drop_ok {t t' : Table Node} {i : Nat} (h : t.drop i = .ok t') :
    i ≠ 0 ∧ t.realSize ≠ 0 ∧
    t' = { t with occs := wr t.occs i false, minFree := min t.minFree i, realSize := t.realSize - 1 } := by
  unfold Table.drop at h
  by_cases h0 : i = 0
  · rw [if_pos h0] at h; cases h
  rw [if_neg h0] at h
  by_cases hr : t.realSize = 0
  · rw [if_pos hr] at h; cases h
  rw [if_neg hr] at h
  exact ⟨h0, hr, (Except.ok.inj h).symm⟩

theorem drop_sim {t t' : Table Node} {i : Nat} (h : t.drop i = .ok t') :
    t'.toMem = t.toMem.drop i ∧ Fr t t' ∧ t'.buckets = t.buckets ∧ t'.nxs = t.nxs := by
  obtain ⟨h0, _, rfl⟩ := drop_ok h
  refine ⟨?_, ⟨rfl, rfl, rfl, rfl, by simp, rfl, Nat.min_le_left _ _, ?_, ?_⟩, rfl, rfl⟩
  · show (⟨rd t.nxs, rd (wr t.occs i false)⟩ : Mem) = ⟨rd t.nxs, fun j => if j = i then false else rd t.occs j⟩
    rw [rd_wr_false]
  · intro h1
    show 1 ≤ min t.minFree i
    omega
  · intro j ha hb
    show min t.minFree i ≤ j
    have hb' : rd (wr t.occs i false) j = false := hb
    rw [rd_wr_false] at hb'
    by_cases e : j = i
    · subst e; exact Nat.min_le_right _ _
    · simp only [e, ↓reduceIte] at hb'; rw [ha] at hb'; cases hb'

/-! ### simulation, given `.ok` -/

theorem skipDead_sim (mark : Array Bool) : ∀ (fuel : Nat) (t : Table Node) (idx : Nat) {t' idx'},
    skipDead mark fuel t idx = .ok (t', idx') →
    S.skipDead (aliveOf mark) fuel t.toMem idx = (t'.toMem, idx') ∧ Fr t t' ∧
    t'.buckets = t.buckets ∧ t'.nxs = t.nxs ∧ (idx' = 0 ∨ rd mark idx' = true) := by
  intro fuel
  induction fuel with
  | zero => intro t idx t' idx' h; simp [skipDead] at h
  | succ fuel ih =>
    intro t idx t' idx' h
    unfold skipDead at h
    unfold S.skipDead
    by_cases c : (idx != 0 && !(rd mark idx)) = true
    · rw [if_pos c] at h
      have c' : (idx != 0 && !(aliveOf mark idx)) = true := c
      rw [if_pos c']
      cases hd : t.drop idx with
      | error e => rw [hd] at h; cases h
      | ok t1 =>
        rw [hd] at h
        simp only at h
        obtain ⟨hm, hf, hb, hn⟩ := drop_sim hd
        obtain ⟨a, b, c1, d, e⟩ := ih _ _ h
        refine ⟨?_, hf.trans b, c1.trans hb, d.trans hn, e⟩
        rw [hm] at a
        exact a
    · rw [if_neg c] at h
      have c' : ¬ (idx != 0 && !(aliveOf mark idx)) = true := c
      rw [if_neg c']
      simp only [Except.ok.injEq, Prod.mk.injEq] at h
      obtain ⟨rfl, rfl⟩ := h
      refine ⟨rfl, Fr.refl _, rfl, rfl, ?_⟩
      simp only [Bool.and_eq_true, bne_iff_ne, ne_eq, Bool.not_eq_true', not_and, Bool.not_eq_false] at c
      by_cases h0 : idx = 0
      · exact Or.inl h0
      · exact Or.inr (c h0)

theorem relink_zero (mark : Array Bool) {fuel : Nat} (hf : 1 ≤ fuel) (t : Table Node) :
    relink mark fuel t 0 = .ok t := by
  obtain ⟨f, rfl⟩ : ∃ f, fuel = f + 1 := ⟨fuel - 1, by omega⟩
  simp [relink]

theorem relink_sim (mark : Array Bool) : ∀ (fuel : Nat) (t : Table Node) (prev : Nat) {t'},
    mark.size ≤ t.nxs.size → (prev = 0 ∨ rd mark prev = true) →
    relink mark fuel t prev = .ok t' →
    S.relink (aliveOf mark) fuel t.toMem prev = t'.toMem ∧ Fr t t' ∧ t'.buckets = t.buckets := by
  intro fuel
  induction fuel with
  | zero => intro t prev t' _ _ h; simp [relink] at h
  | succ fuel ih =>
    intro t prev t' hm hp h
    unfold relink at h
    unfold S.relink
    by_cases p0 : prev = 0
    · rw [if_pos p0] at h
      rw [if_pos p0]
      simp only [Except.ok.injEq] at h
      subst h
      exact ⟨rfl, Fr.refl _, rfl⟩
    rw [if_neg p0] at h
    rw [if_neg p0]
    have hplt : prev < t.nxs.size := by
      rcases hp with e | e
      · exact absurd e p0
      · have := rd_true_lt e; omega
    cases hs : skipDead mark fuel t (rd t.nxs prev) with
    | error e => rw [hs] at h; cases h
    | ok p =>
      obtain ⟨t1, cur⟩ := p
      rw [hs] at h
      simp only at h
      obtain ⟨a, f1, b1, n1, hc⟩ := skipDead_sim mark fuel t _ hs
      have a' : S.skipDead (aliveOf mark) fuel t.toMem (t.toMem.nx prev) = (t1.toMem, cur) := a
      rw [a']
      simp only
      -- the conditional `set_next`
      have ht2 : (if (rd t1.nxs prev != cur) = true then t1.setNext prev cur else t1).toMem =
          (if (t1.toMem.nx prev != cur) = true then t1.toMem.setNext prev cur else t1.toMem) := by
        have hnx : t1.toMem.nx prev = rd t1.nxs prev := rfl
        rw [hnx]
        by_cases hne : (rd t1.nxs prev != cur) = true
        · rw [if_pos hne, if_pos hne]
          show (⟨rd (wr t1.nxs prev cur), rd t1.occs⟩ : Mem) =
            ⟨fun j => if j = prev then cur else rd t1.nxs j, rd t1.occs⟩
          rw [rd_wr_fun _ _ _ (by rw [n1]; exact hplt)]
        · rw [if_neg hne, if_neg hne]
      have hfr2 : Fr t1 (if (rd t1.nxs prev != cur) = true then t1.setNext prev cur else t1) ∧
          (if (rd t1.nxs prev != cur) = true then t1.setNext prev cur else t1).buckets = t1.buckets := by
        by_cases hne : (rd t1.nxs prev != cur) = true
        · rw [if_pos hne]; exact ⟨Fr.setNext _ _ _, rfl⟩
        · rw [if_neg hne]; exact ⟨Fr.refl _, rfl⟩
      generalize (if (rd t1.nxs prev != cur) = true then t1.setNext prev cur else t1) = t2 at h ht2 hfr2
      obtain ⟨x, y, z⟩ := ih t2 cur (by rw [hfr2.1.nxsSize, f1.nxsSize]; exact hm) hc h
      rw [ht2] at x
      exact ⟨x, (f1.trans hfr2.1).trans y, (z.trans hfr2.2).trans b1⟩

theorem sweepBucket_sim (mark : Array Bool) (fuel : Nat) (t : Table Node) (b : Nat) {t'}
    (hb : b < t.buckets.size) (hm : mark.size ≤ t.nxs.size)
    (h : sweepBucket mark fuel t b = .ok t') :
    S.sweepBucket (aliveOf mark) fuel t.toMem (rd t.buckets b) = (t'.toMem, rd t'.buckets b) ∧
    (∀ b', b' ≠ b → rd t'.buckets b' = rd t.buckets b') ∧ Fr t t' := by
  unfold sweepBucket at h
  unfold S.sweepBucket
  simp only at h
  by_cases h0 : rd t.buckets b = 0
  · rw [if_pos h0] at h
    rw [if_pos h0]
    simp only [Except.ok.injEq] at h
    subst h
    exact ⟨by rw [h0], fun _ _ => rfl, Fr.refl _⟩
  rw [if_neg h0] at h
  rw [if_neg h0]
  cases hs : skipDead mark fuel t (rd t.buckets b) with
  | error e => rw [hs] at h; cases h
  | ok p =>
    obtain ⟨t1, idx⟩ := p
    rw [hs] at h
    simp only at h
    obtain ⟨a, f1, b1, n1, hc⟩ := skipDead_sim mark fuel t _ hs
    obtain ⟨x, y, z⟩ := relink_sim mark fuel (t1.setBucket b idx) idx
      (by show mark.size ≤ t1.nxs.size; rw [n1]; exact hm) hc h
    have hx : S.relink (aliveOf mark) fuel t1.toMem idx = t'.toMem := x
    have hbk : t'.buckets = wr t.buckets b idx := by rw [z]; show wr t1.buckets b idx = _; rw [b1]
    simp only [a, hx]
    refine ⟨?_, ?_, (f1.trans (Fr.setBucket _ _ _)).trans y⟩
    · rw [hbk, rd_wr_same _ _ _ hb]
    · intro b' hne
      rw [hbk, rd_wr_ne _ _ _ _ (Ne.symm hne)]

/-! ### totality and the live count, along a chain -/

/-- the cells of `l` are occupied and in range -/
def OccIn (t : Table Node) (l : List Nat) : Prop := ∀ i, i ∈ l → rd t.occs i = true ∧ i < t.vals.size

theorem drop_total {t : Table Node} {i : Nat} (hrs : RS t) (h00 : rd t.occs 0 = true) (hi0 : i ≠ 0)
    (ho : rd t.occs i = true) (hi : i < t.vals.size) :
    ∃ t', t.drop i = .ok t' ∧ RS t' ∧ rd t'.occs 0 = true ∧
      rd t'.occs = (fun j => if j = i then false else rd t.occs j) ∧ t'.nxs = t.nxs ∧ t'.vals = t.vals := by
  have hclr := Cn.countOcc_clear hi ho
  have h0' : (fun j => if j = i then false else rd t.occs j) 0 = true := by
    simp only; rw [if_neg (Ne.symm hi0)]; exact h00
  have hpos := countOcc_pos (occ := fun j => if j = i then false else rd t.occs j) (i := 0) (n := t.vals.size)
    (by omega) h0'
  unfold RS at hrs
  have hr : t.realSize ≠ 0 := by omega
  refine ⟨{ t with occs := wr t.occs i false, minFree := min t.minFree i, realSize := t.realSize - 1 },
    ?_, ?_, ?_, ?_, rfl, rfl⟩
  · unfold Table.drop; rw [if_neg hi0, if_neg hr]
  · show t.realSize - 1 + 1 = Cn.countOcc (rd (wr t.occs i false)) t.vals.size
    rw [rd_wr_false]; omega
  · show rd (wr t.occs i false) 0 = true
    rw [rd_wr_false]; exact h0'
  · show rd (wr t.occs i false) = _
    rw [rd_wr_false]

theorem skipDead_total (mark : Array Bool) : ∀ (fuel : Nat) (t : Table Node) (idx : Nat) (l : List Nat),
    Chain (rd t.nxs) idx l → l.length < fuel → l.Nodup → OccIn t l → RS t → rd t.occs 0 = true →
    ∃ t' pre rest, l = pre ++ rest ∧ skipDead mark fuel t idx = .ok (t', headOr0 rest) ∧
      Chain (rd t'.nxs) (headOr0 rest) rest ∧
      (∀ j, j ∉ pre → rd t'.occs j = rd t.occs j) ∧ RS t' ∧ rd t'.occs 0 = true := by
  intro fuel
  induction fuel with
  | zero => intro t idx l _ h; omega
  | succ fuel ih =>
    intro t idx l c hlen nd hocc hrs h00
    cases c with
    | nil =>
      refine ⟨t, [], [], rfl, ?_, .nil, fun _ _ => rfl, hrs, h00⟩
      simp [skipDead, headOr0]
    | @cons _ l' h0 c' =>
      by_cases ha : rd mark idx = true
      · refine ⟨t, [], idx :: l', rfl, ?_, .cons h0 c', fun _ _ => rfl, hrs, h00⟩
        simp [skipDead, headOr0, ha]
      · have ha' : rd mark idx = false := by simpa using ha
        obtain ⟨ho, hi⟩ := hocc idx List.mem_cons_self
        obtain ⟨t1, hd, hrs1, h01, hocc1, hn1, hv1⟩ := drop_total hrs h00 h0 ho hi
        have hnotin : idx ∉ l' := (List.nodup_cons.mp nd).1
        have hocc' : OccIn t1 l' := by
          intro j hj
          have hne : j ≠ idx := fun e => hnotin (e ▸ hj)
          obtain ⟨a, b⟩ := hocc j (List.mem_cons_of_mem _ hj)
          rw [hocc1, hv1]
          simp only [hne, ↓reduceIte]
          exact ⟨a, b⟩
        have c1 : Chain (rd t1.nxs) (rd t.nxs idx) l' := by rw [hn1]; exact c'
        obtain ⟨t', pre, rest, hl, hs, hch, hoc, hrs', h0'⟩ :=
          ih t1 (rd t.nxs idx) l' c1 (by simp only [List.length_cons] at hlen; omega)
            (List.nodup_cons.mp nd).2 hocc' hrs1 h01
        refine ⟨t', idx :: pre, rest, by rw [hl]; rfl, ?_, hch, ?_, hrs', h0'⟩
        · have hc : (idx != 0 && !(rd mark idx)) = true := by simp [h0, ha']
          rw [← hs]
          simp only [skipDead, hc, ↓reduceIte, hd]
        · intro j hj
          have hne : j ≠ idx := fun e => hj (e ▸ List.mem_cons_self)
          rw [hoc j (fun h => hj (List.mem_cons_of_mem _ h)), hocc1]
          simp only [hne, ↓reduceIte]

theorem relink_total (mark : Array Bool) : ∀ (fuel : Nat) (t : Table Node) (prev : Nat) (l : List Nat),
    Chain (rd t.nxs) prev (prev :: l) → l.length + 2 ≤ fuel → (prev :: l).Nodup → OccIn t (prev :: l) →
    t.nxs.size = t.vals.size → RS t → rd t.occs 0 = true →
    ∃ t', relink mark fuel t prev = .ok t' ∧ RS t' ∧ rd t'.occs 0 = true := by
  intro fuel
  induction fuel with
  | zero => intro t prev l _ h; omega
  | succ fuel ih =>
    intro t prev l c hlen nd hocc hsz hrs h00
    cases c with
    | cons hp c' =>
    have hpl : prev ∉ l := (List.nodup_cons.mp nd).1
    have ndl : l.Nodup := (List.nodup_cons.mp nd).2
    have hoccl : OccIn t l := fun j hj => hocc j (List.mem_cons_of_mem _ hj)
    obtain ⟨t1, pre, rest, hl, hs, hch, hoc, hrs1, h01⟩ :=
      skipDead_total mark fuel t (rd t.nxs prev) l c' (by omega) ndl hoccl hrs h00
    obtain ⟨_, f1, _, n1, _⟩ := skipDead_sim mark fuel t _ hs
    have hplt : prev < t1.nxs.size := by
      rw [n1, hsz]; exact (hocc prev List.mem_cons_self).2
    have hstep : relink mark (fuel + 1) t prev =
        relink mark fuel (if (rd t1.nxs prev != headOr0 rest) = true then t1.setNext prev (headOr0 rest) else t1)
          (headOr0 rest) := by
      simp only [relink, if_neg hp, hs]
    rw [hstep]
    have ht2 : RS (if (rd t1.nxs prev != headOr0 rest) = true then t1.setNext prev (headOr0 rest) else t1) ∧
        (if (rd t1.nxs prev != headOr0 rest) = true then t1.setNext prev (headOr0 rest) else t1).occs = t1.occs ∧
        (if (rd t1.nxs prev != headOr0 rest) = true then t1.setNext prev (headOr0 rest) else t1).vals = t1.vals ∧
        (if (rd t1.nxs prev != headOr0 rest) = true then t1.setNext prev (headOr0 rest) else t1).nxs.size = t1.nxs.size ∧
        rd (if (rd t1.nxs prev != headOr0 rest) = true then t1.setNext prev (headOr0 rest) else t1).nxs =
          (fun j => if j = prev then headOr0 rest else rd t1.nxs j) := by
      by_cases hne : (rd t1.nxs prev != headOr0 rest) = true
      · rw [if_pos hne]
        refine ⟨hrs1, rfl, rfl, by simp [Table.setNext], ?_⟩
        show rd (wr t1.nxs prev (headOr0 rest)) = _
        rw [rd_wr_fun _ _ _ hplt]
      · rw [if_neg hne]
        refine ⟨hrs1, rfl, rfl, rfl, ?_⟩
        have heq : rd t1.nxs prev = headOr0 rest := by simpa using hne
        funext j
        by_cases e : j = prev
        · subst e; simp [heq]
        · simp [e]
    generalize (if (rd t1.nxs prev != headOr0 rest) = true then t1.setNext prev (headOr0 rest) else t1) = t2 at ht2 ⊢
    obtain ⟨hrs2, ho2, hv2, hs2, hn2⟩ := ht2
    have h02 : rd t2.occs 0 = true := by rw [ho2]; exact h01
    cases rest with
    | nil =>
      exact ⟨t2, relink_zero mark (by omega) t2, hrs2, h02⟩
    | cons cur l'' =>
      have hnd' : (pre ++ cur :: l'').Nodup := hl ▸ ndl
      have hsub : ∀ x, x ∈ cur :: l'' → x ∈ l := by
        intro x hx; rw [hl]; exact List.mem_append_right _ hx
      have hpc : prev ∉ cur :: l'' := fun h => hpl (hsub _ h)
      have hch' : Chain (rd t1.nxs) cur (cur :: l'') := hch
      have c2 : Chain (rd t2.nxs) cur (cur :: l'') := by
        rw [hn2]; exact hch'.frame prev cur hpc
      have hlen2 : l''.length + 2 ≤ fuel := by
        have : l.length = pre.length + (l''.length + 1) := by rw [hl]; simp
        omega
      have hocc2 : OccIn t2 (cur :: l'') := by
        intro j hj
        have hjp : j ∉ pre := fun hp' => (List.nodup_append.mp hnd').2.2 j hp' j hj rfl
        obtain ⟨a, b⟩ := hoccl j (hsub j hj)
        rw [ho2, hv2, f1.vals, hoc j hjp]
        exact ⟨a, b⟩
      have hsz2 : t2.nxs.size = t2.vals.size := by rw [hs2, hv2, n1, f1.vals]; exact hsz
      exact ih t2 cur l'' c2 hlen2 (List.nodup_append.mp hnd').2.1 hocc2 hsz2 hrs2 h02

theorem sweepBucket_total (mark : Array Bool) (fuel : Nat) (t : Table Node) (b : Nat) (l : List Nat)
    (c : Chain (rd t.nxs) (rd t.buckets b) l) (hlen : l.length + 1 ≤ fuel) (nd : l.Nodup)
    (hocc : OccIn t l) (hsz : t.nxs.size = t.vals.size) (hrs : RS t) (h00 : rd t.occs 0 = true) :
    ∃ t', sweepBucket mark fuel t b = .ok t' ∧ RS t' ∧ rd t'.occs 0 = true := by
  unfold sweepBucket
  simp only
  by_cases h0 : rd t.buckets b = 0
  · rw [if_pos h0]; exact ⟨t, rfl, hrs, h00⟩
  rw [if_neg h0]
  obtain ⟨t1, pre, rest, hl, hs, hch, hoc, hrs1, h01⟩ :=
    skipDead_total mark fuel t (rd t.buckets b) l c (by omega) nd hocc hrs h00
  obtain ⟨_, f1, _, n1, _⟩ := skipDead_sim mark fuel t _ hs
  rw [hs]
  simp only
  cases rest with
  | nil =>
    exact ⟨_, relink_zero mark (by omega) _, hrs1, h01⟩
  | cons cur l'' =>
    have hnd' : (pre ++ cur :: l'').Nodup := hl ▸ nd
    have hsub : ∀ x, x ∈ cur :: l'' → x ∈ l := by
      intro x hx; rw [hl]; exact List.mem_append_right _ hx
    have hlen2 : l''.length + 2 ≤ fuel := by
      have : l.length = pre.length + (l''.length + 1) := by rw [hl]; simp
      omega
    have hocc2 : OccIn (t1.setBucket b cur) (cur :: l'') := by
      intro j hj
      have hjp : j ∉ pre := fun hp' => (List.nodup_append.mp hnd').2.2 j hp' j hj rfl
      obtain ⟨a, b'⟩ := hocc j (hsub j hj)
      show rd t1.occs j = true ∧ j < t1.vals.size
      rw [f1.vals, hoc j hjp]
      exact ⟨a, b'⟩
    have hch' : Chain (rd (t1.setBucket b cur).nxs) cur (cur :: l'') := hch
    exact relink_total mark fuel (t1.setBucket b cur) cur l'' hch' hlen2 (List.nodup_append.mp hnd').2.1 hocc2
      (by show t1.nxs.size = t1.vals.size; rw [n1, f1.vals]; exact hsz) hrs1 h01

/-! ### the loop over the buckets -/

theorem TInv.disj {α : Type} [DecidableEq α] {hash : α → Nat} {t : Tab α} {chains} (hI : TInv hash t chains) :
    ∀ b b', b < t.nb → b' < t.nb → b ≠ b' → ∀ i, i ∈ chains b → i ∉ chains b' := by
  intro b b' hb hb' hne i hi hi'
  exact hne ((hI.mem b hb i hi).2.2.2.symm.trans (hI.mem b' hb' i hi').2.2.2)

/-- chain-free simulation of the bucket loop, given `.ok`: `sweepFrom mark fuel n b` continues the
function-view loop from bucket `b` to bucket `b + n` -/
theorem sweepFrom_sim (mark : Array Bool) (fuel : Nat) (st0 : Mem × (Nat → Nat)) :
    ∀ (n b : Nat) (t : Table Node) {t'}, b + n ≤ t.buckets.size → mark.size ≤ t.nxs.size →
      S.sweepUpTo (aliveOf mark) fuel b st0 = (t.toMem, rd t.buckets) →
      sweepFrom mark fuel n b t = .ok t' →
      S.sweepUpTo (aliveOf mark) fuel (b + n) st0 = (t'.toMem, rd t'.buckets) ∧ Fr t t' := by
  intro n
  induction n with
  | zero =>
    intro b t t' _ _ hsu h
    simp only [sweepFrom, Except.ok.injEq] at h
    subst h
    exact ⟨hsu, Fr.refl _⟩
  | succ n ih =>
    intro b t t' hb hm hsu h
    unfold sweepFrom at h
    cases hsb : sweepBucket mark fuel t b with
    | error e => rw [hsb] at h; cases h
    | ok t1 =>
      rw [hsb] at h
      simp only at h
      obtain ⟨hsim, hoth, f1⟩ := sweepBucket_sim mark fuel t b (by omega) hm hsb
      have hsu1 : S.sweepUpTo (aliveOf mark) fuel (b + 1) st0 = (t1.toMem, rd t1.buckets) := by
        simp only [S.sweepUpTo]
        rw [hsu]
        simp only
        rw [hsim]
        apply Prod.ext
        · rfl
        · funext b'
          by_cases e : b' = b
          · subst e; simp
          · simp only [e, ↓reduceIte]; exact (hoth b' e).symm
      obtain ⟨x, y⟩ := ih (b + 1) t1 (by rw [f1.bucketsSize]; omega) (by rw [f1.nxsSize]; exact hm) hsu1 h
      have e : b + (n + 1) = b + 1 + n := by omega
      rw [e]
      exact ⟨x, f1.trans y⟩

/-- the whole sweep, given `.ok`: it is the function-view sweep over all buckets -/
theorem sweep_sim (mark : Array Bool) (fuel : Nat) (t : Table Node) {t'}
    (hm : mark.size ≤ t.nxs.size) (h : sweepFrom mark fuel t.buckets.size 0 t = .ok t') :
    S.sweepUpTo (aliveOf mark) fuel t.buckets.size (t.toMem, rd t.buckets) = (t'.toMem, rd t'.buckets) ∧
    Fr t t' := by
  have := sweepFrom_sim mark fuel (t.toMem, rd t.buckets) t.buckets.size 0 t (by omega) hm rfl h
  rw [Nat.zero_add] at this
  exact this

/-- the concrete `for` loop from bucket `b` on, started in the state the function-view loop reaches
after the buckets below `b`: it succeeds, ends where the function-view loop over all buckets ends,
and keeps the live count -/
theorem sweepFrom_full {t0 : Table Node} (hw : t0.Wf) {chains} (hI : TInv t0.bhash t0.toTab chains)
    (mark : Array Bool) (hm : mark.size ≤ t0.vals.size) (fuel : Nat) (hfuel : t0.vals.size + 1 ≤ fuel) :
    ∀ (n b : Nat) (t : Table Node), b + n = t0.buckets.size →
      S.sweepUpTo (aliveOf mark) fuel b (t0.toMem, rd t0.buckets) = (t.toMem, rd t.buckets) →
      Fr t0 t → RS t → rd t.occs 0 = true →
      ∃ t', sweepFrom mark fuel n b t = .ok t' ∧
        S.sweepUpTo (aliveOf mark) fuel t0.buckets.size (t0.toMem, rd t0.buckets) = (t'.toMem, rd t'.buckets) ∧
        Fr t0 t' ∧ RS t' ∧ rd t'.occs 0 = true := by
  have hlenb : ∀ b, b < t0.buckets.size → (chains b).length ≤ t0.vals.size := fun b hb => hI.chain_len hb
  intro n
  induction n with
  | zero =>
    intro b t hb hsu hfr hrs h00
    have : b = t0.buckets.size := by omega
    subst this
    exact ⟨t, rfl, hsu, hfr, hrs, h00⟩
  | succ n ih =>
    intro b t hb hsu hfr hrs h00
    have hkb : b < t0.buckets.size := by omega
    obtain ⟨s1, _, s3⟩ := S.sweepUpTo_spec (aliveOf mark) fuel t0.toMem (rd t0.buckets) t0.buckets.size chains
      hI.chain hI.nodup (TInv.disj hI) (fun b hb => by have := hlenb b hb; omega) b (by omega)
    rw [hsu] at s1 s3
    have ck : Chain (rd t.nxs) (rd t.buckets b) (chains b) := by
      have := s1 b hkb
      rw [if_neg (Nat.lt_irrefl b)] at this
      exact this
    have hocc : OccIn t (chains b) := by
      intro i hi
      obtain ⟨_, hle, ho, _⟩ := hI.mem b hkb i hi
      have hlast := hI.lastLt
      refine ⟨?_, ?_⟩
      · have h3 : rd t.occs i = (rd t0.occs i && !(decide (∃ b', b' < b ∧ i ∈ chains b') && !(aliveOf mark i))) := s3 i
        have hno : ¬ ∃ b', b' < b ∧ i ∈ chains b' := by
          rintro ⟨b', hb', hi'⟩
          exact TInv.disj hI b' b (by show b' < t0.buckets.size; omega) hkb (by omega) i hi' hi
        have ho' : rd t0.occs i = true := ho
        rw [h3, ho']; simp [hno]
      · rw [hfr.vals]
        show i < t0.toTab.cap
        omega
    have hszt : t.nxs.size = t.vals.size := by rw [hfr.nxsSize, hfr.vals]; exact hw.nxs
    obtain ⟨t1, hsb, hrs1, h01⟩ := sweepBucket_total mark fuel t b (chains b) ck
      (by have := hlenb b hkb; omega) (hI.nodup b hkb) hocc hszt hrs h00
    obtain ⟨hsim, hoth, f1⟩ := sweepBucket_sim mark fuel t b (by rw [hfr.bucketsSize]; exact hkb)
      (by rw [hfr.nxsSize, hw.nxs]; exact hm) hsb
    have hsu1 : S.sweepUpTo (aliveOf mark) fuel (b + 1) (t0.toMem, rd t0.buckets) = (t1.toMem, rd t1.buckets) := by
      simp only [S.sweepUpTo]
      rw [hsu]
      simp only
      rw [hsim]
      apply Prod.ext
      · rfl
      · funext b'
        by_cases e : b' = b
        · subst e; simp
        · simp only [e, ↓reduceIte]; exact (hoth b' e).symm
    obtain ⟨t', x, y, z, w, v⟩ := ih (b + 1) t1 (by omega) hsu1 (hfr.trans f1) hrs1 h01
    refine ⟨t', ?_, y, z, w, v⟩
    simp only [sweepFrom, hsb]
    exact x

/-- **the sweep of `collect_garbage` on the array table**: under the table invariant and the live
count, with a mark array no longer than the storage and fuel above the capacity, the sweep returns
`.ok`; the invariant holds again with every chain filtered to the marked cells; exactly the unmarked
chained cells are freed; values, `last_index` and the bucket count are untouched; the live count is
exact again. -/
theorem sweep_full {t : Table Node} (hw : t.Wf) {chains} (hI : TInv t.bhash t.toTab chains) (hrs : RS t)
    (mark : Array Bool) (hm : mark.size ≤ t.vals.size) (fuel : Nat) (hfuel : t.vals.size + 1 ≤ fuel) :
    ∃ t', sweepFrom mark fuel t.buckets.size 0 t = .ok t' ∧ t'.Wf ∧
      TInv t'.bhash t'.toTab (fun b => (chains b).filter (aliveOf mark)) ∧
      (∀ i, rd t'.occs i =
        (rd t.occs i && !(decide (∃ b, b < t.buckets.size ∧ i ∈ chains b) && !(rd mark i)))) ∧
      Fr t t' ∧ RS t' := by
  obtain ⟨t', hok, hsu, hfr, hrs', _⟩ := sweepFrom_full hw hI mark hm fuel hfuel t.buckets.size 0 t
    (by omega) rfl (Fr.refl t) hrs hI.occ01.1
  have hlen : ∀ b, b < t.toTab.nb → (chains b).length < fuel := by
    intro b hb; have := hI.chain_len hb
    have : t.toTab.cap = t.vals.size := rfl
    omega
  obtain ⟨_, _, s3⟩ := S.sweepUpTo_spec (aliveOf mark) fuel t.toMem (rd t.buckets) t.buckets.size chains
    hI.chain hI.nodup (TInv.disj hI) hlen t.buckets.size (Nat.le_refl _)
  rw [hsu] at s3
  have hocc : ∀ i, rd t'.occs i =
      (rd t.occs i && !(decide (∃ b, b < t.buckets.size ∧ i ∈ chains b) && !(rd mark i))) := s3
  have hmf3 : ∀ b i, b < t.toTab.nb → i ∈ chains b → aliveOf mark i = false → t'.minFree ≤ i := by
    intro b i hb hi hal
    have ho : rd t.occs i = true := (hI.mem b hb i hi).2.2.1
    apply hfr.mfDrop i ho
    have hal' : rd mark i = false := hal
    have hex : ∃ b, b < t.buckets.size ∧ i ∈ chains b := ⟨b, hb, hi⟩
    rw [hocc, ho, hal']; simp [hex]
  obtain ⟨hT, _, _⟩ := S.sweep_tinv hI (aliveOf mark) (fuel := fuel) (mf := t'.minFree) (rs := t'.realSize)
    hlen (hfr.mfPos hI.minFreeGe) hfr.mfLe hmf3
  have htab : t.toTab.swept (aliveOf mark) fuel t'.minFree t'.realSize = t'.toTab := by
    have e1 : S.sweepUpTo (aliveOf mark) fuel t.toTab.nb (⟨t.toTab.nx, t.toTab.occ⟩, t.toTab.bucket) =
        (t'.toMem, rd t'.buckets) := hsu
    unfold Tab.swept
    simp only [e1]
    apply Tab.ext' <;> try rfl
    · show rd t.vals = rd t'.vals
      rw [hfr.vals]
    · show t.buckets.size = t'.buckets.size
      rw [hfr.bucketsSize]
    · show t.vals.size = t'.vals.size
      rw [hfr.vals]
    · show t.lastIndex = t'.lastIndex
      rw [hfr.lastIndex]
  have hbh : t'.bhash = t.bhash := by funext x; simp [Table.bhash, hfr.bitmask]
  have hw' : t'.Wf := by
    refine ⟨by rw [hfr.nxsSize, hfr.vals]; exact hw.nxs, by rw [hfr.occsSize, hfr.vals]; exact hw.occs, ?_⟩
    intro h; rw [hfr.bitmask, hfr.bucketsSize]; exact hw.mask h
  rw [htab] at hT
  exact ⟨t', hok, hw', by rw [hbh]; exact hT, hocc, hfr, hrs'⟩

#print axioms sweepBucket_sim
#print axioms sweepBucket_total
#print axioms sweep_sim
#print axioms sweepFrom_full
#print axioms sweep_full
end P

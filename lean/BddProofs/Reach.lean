import BddProofs.Init
import BddProofs.Derived
import BddProofs.Clause
import BddProofs.SubstCor
import BddProofs.IteConst
import BddProofs.SubFn
import BddProofs.Gc
import BddProofs.Frame
/-! Every state a manager can reach through its public API is `Good`.

`Reachable s` is the inductive closure of "a new manager (any storage / bucket / cache size)" under every
public operation applied to live handles — constructors, ITE and connectives, folds, cube/clause,
substitution and cofactors, compose, constrain, restrict, expression evaluation, the queries that
touch a cache (`ite_constant`, `is_implies`, `size`) and garbage collection with any list of live
roots.  Queries that return no state (`sat_count`, `one_sat`, `paths`, `descendants`, the exports,
the accessors) do not appear: they cannot change the state.

A handle is *live* in `s` when it has a denotation there: `Live' s r := ∃ φ, Valid s.nodes r φ`. -/
namespace P

def Live' (s : St) (r : Ref) : Prop := ∃ φ, Valid s.nodes r φ

inductive Reachable : St → Prop
  | init {sb bb cb s} : St.newWith sb bb cb = .ok s → Reachable s
  | mkVar {s v s' r} : Reachable s → mkVar s v = .ok (s', r) → Reachable s'
  | mkNode {s v lo hi φ0 φ1 s' r} : Reachable s → Valid s.nodes lo φ0 → Valid s.nodes hi φ1 →
      SuppGe φ0 (v + 1) → SuppGe φ1 (v + 1) → mkNode s v lo hi = .ok (s', r) → Reachable s'
  | ite {s fuel f g h s' r} : Reachable s → Live' s f → Live' s g → Live' s h →
      applyIte fuel s f g h = .ok (s', r) → Reachable s'
  | andMany {s fuel xs s' r} : Reachable s → (∀ x, x ∈ xs → Live' s x) → andMany fuel s Ref.one xs = .ok (s', r) → Reachable s'
  | orMany {s fuel xs s' r} : Reachable s → (∀ x, x ∈ xs → Live' s x) → orMany fuel s Ref.zero xs = .ok (s', r) → Reachable s'
  | cube {s lits s' r} : Reachable s → (lits.map (·.1)).Nodup → cube s lits = .ok (s', r) → Reachable s'
  | clause {s lits s' r} : Reachable s → (lits.map (·.1)).Nodup → clause s lits = .ok (s', r) → Reachable s'
  | substitute {s fuel f v b s' r m} : Reachable s → Live' s f → substitute fuel s f v b [] = .ok (s', r, m) → Reachable s'
  | substMulti {s fuel f vals s' r m} : Reachable s → Live' s f → substMulti fuel s f vals [] = .ok (s', r, m) → Reachable s'
  | cofCube {s fuel f cube s' r m} : Reachable s → Live' s f → cube.Pairwise (fun a b => a.1 < b.1) →
      cofCube fuel s f cube [] = .ok (s', r, m) → Reachable s'
  | compose {s fuel f v g s' r} : Reachable s → Live' s f → Live' s g → composeTop fuel s f v g = .ok (s', r) → Reachable s'
  | constrain {s fuel f g s' r} : Reachable s → Live' s f → Live' s g → constrain fuel s f g = .ok (s', r) → Reachable s'
  | restrict {s fuel f g s' r} : Reachable s → Live' s f → Live' s g → restrict fuel s f g = .ok (s', r) → Reachable s'
  | expr {s fuel x φ s' r} : Reachable s → Expr.Sem s.nodes x φ → Expr.eval fuel s x = .ok (s', r) → Reachable s'
  | iteConstant {s fuel f g h s' o} : Reachable s → Live' s f → Live' s g → Live' s h →
      iteConstant fuel s f g h = .ok (s', o) → Reachable s'
  | isImplies {s fuel f g s' b} : Reachable s → Live' s f → Live' s g → isImplies fuel s f g = .ok (s', b) → Reachable s'
  | size {s f} : Reachable s → Live' s f → Reachable (size s f).1
  | gc {s roots s'} : Reachable s → (∀ r, r ∈ roots → Live' s r) → collectGarbage s roots = .ok s' → Reachable s'

theorem andMany_good (fuel : Nat) : ∀ (xs : List Ref) (s : St) (acc : Ref) s' r, Good s → Live' s acc →
    (∀ x, x ∈ xs → Live' s x) → andMany fuel s acc xs = .ok (s', r) → Good s' ∧ Sub s.nodes s'.nodes := by
  intro xs
  induction xs with
  | nil =>
    intro s acc s' r hg _ _ h
    simp only [andMany, Except.ok.injEq, Prod.mk.injEq] at h; rw [← h.1]; exact ⟨hg, Sub.refl _⟩
  | cons x xs ih =>
    intro s acc s' r hg ⟨φa, va⟩ hl h
    unfold andMany at h
    obtain ⟨φx, vx⟩ := hl x List.mem_cons_self
    cases h1 : applyAnd fuel s acc x with
    | error e => rw [h1] at h; cases h
    | ok p =>
      obtain ⟨s1, acc1⟩ := p
      rw [h1] at h
      obtain ⟨g1, sub1, v1⟩ := applyAnd_spec hg va vx h1
      obtain ⟨g2, sub2⟩ := ih s1 acc1 s' r g1 ⟨_, v1⟩
        (fun y hy => let ⟨φ, v⟩ := hl y (List.mem_cons_of_mem _ hy); ⟨φ, v.mono sub1⟩) h
      exact ⟨g2, sub1.trans sub2⟩

theorem orMany_good (fuel : Nat) : ∀ (xs : List Ref) (s : St) (acc : Ref) s' r, Good s → Live' s acc →
    (∀ x, x ∈ xs → Live' s x) → orMany fuel s acc xs = .ok (s', r) → Good s' ∧ Sub s.nodes s'.nodes := by
  intro xs
  induction xs with
  | nil =>
    intro s acc s' r hg _ _ h
    simp only [orMany, Except.ok.injEq, Prod.mk.injEq] at h; rw [← h.1]; exact ⟨hg, Sub.refl _⟩
  | cons x xs ih =>
    intro s acc s' r hg ⟨φa, va⟩ hl h
    unfold orMany at h
    obtain ⟨φx, vx⟩ := hl x List.mem_cons_self
    cases h1 : applyOr fuel s acc x with
    | error e => rw [h1] at h; cases h
    | ok p =>
      obtain ⟨s1, acc1⟩ := p
      rw [h1] at h
      obtain ⟨g1, sub1, v1⟩ := applyOr_spec hg va vx h1
      obtain ⟨g2, sub2⟩ := ih s1 acc1 s' r g1 ⟨_, v1⟩
        (fun y hy => let ⟨φ, v⟩ := hl y (List.mem_cons_of_mem _ hy); ⟨φ, v.mono sub1⟩) h
      exact ⟨g2, sub1.trans sub2⟩

theorem size_good {s : St} (hg : Good s) (f : Ref) : Good (size s f).1 := by
  have hn := size_nodes s f
  have hst := size_storage s f
  have hc := size_cache s f
  refine ⟨by rw [hst]; exact hg.wf, by rw [hst]; exact hg.tinv, by rw [hn]; exact hg.inv,
    by rw [hn]; exact hg.var0, by rw [hn, hc]; exact hg.cache, ?_, by rw [hst]; exact hg.rs⟩
  show (Arr.rd (size s f).1.storage.vals 1).var = 0
  rw [hst]; exact hg.term1

theorem gc_good {s s' : St} (hg : Good s) {roots : List Ref} (hl : ∀ r, r ∈ roots → Live' s r)
    (h : collectGarbage s roots = .ok s') : Good s' :=
  (collect_spec hg (fun r hr => let ⟨_, v⟩ := hl r hr; Live.of_valid v) hg.rs h).1

/-- the size-cache invariant: every entry belongs to a live handle and records the number of nodes
reachable from it (C04 / C07: no size-cache entry is ever stale) -/
def SizeInv (s : St) : Prop :=
  ∀ f n, s.sizeCache.lookup f = some n → Live s f.idx ∧ n = (descendants s [f]).length

theorem SizeInv.sizeOk {s : St} (h : SizeInv s) : SizeOk s := fun f n hl => (h f n hl).2

theorem Live.mono {s s' : St} (hsub : Sub s.nodes s'.nodes) {i : Nat} (h : Live s i) : Live s' i := by
  rcases h with h | ⟨n, hn⟩
  · exact Or.inl h
  · exact Or.inr ⟨n, hsub _ _ hn⟩

/-- an operation that only adds nodes and does not touch the size cache keeps every entry correct -/
theorem SizeInv.step {s s' : St} (hg : Good s) (hg' : Good s') (hsub : Sub s.nodes s'.nodes)
    (hsc : s'.sizeCache = s.sizeCache) (h : SizeInv s) : SizeInv s' := by
  intro f n hl
  rw [hsc] at hl
  obtain ⟨hlive, hn⟩ := h f n hl
  exact ⟨hlive.mono hsub, by rw [descendants_length_sub hg hg' hsub f hlive]; exact hn⟩

theorem newWith_sizeCache_empty {a b c : Nat} {s : St} (h : St.newWith a b c = .ok s) (f : Ref) :
    s.sizeCache.lookup f = none := by
  unfold St.newWith at h
  by_cases c1 : a > 31
  · rw [if_pos c1] at h; cases h
  rw [if_neg c1] at h
  cases ha : (Table.newWith a b : Table Node).alloc with
  | error e => rw [ha] at h; cases h
  | ok p =>
    obtain ⟨t, one⟩ := p
    rw [ha] at h
    simp only at h
    by_cases c2 : one ≠ 1
    · rw [if_pos c2] at h; cases h
    · rw [if_neg c2] at h
      simp only [Except.ok.injEq] at h
      subst h
      exact Cache.lookup_new _ f

/-- **every reachable state is good** (table invariant, canonical node set, true cache entries, exact
live count) and every size-cache entry is correct — by induction over the history -/
theorem reachable_inv {s : St} (h : Reachable s) : Good s ∧ SizeInv s := by
  induction h with
  | init h =>
    exact ⟨init_good h, fun f n hl => by rw [newWith_sizeCache_empty h f] at hl; cases hl⟩
  | mkVar _ h ih =>
    obtain ⟨g', sub, _⟩ := mkVar_spec ih.1 h
    exact ⟨g', ih.2.step ih.1 g' sub (mkVar_sizeCache _ _ _ _ h)⟩
  | mkNode _ v0 v1 s0 s1 h ih =>
    obtain ⟨g', sub, _⟩ := mkNode_spec ih.1 v0 v1 s0 s1 h
    exact ⟨g', ih.2.step ih.1 g' sub (mkNode_sizeCache _ _ _ _ _ _ h)⟩
  | ite _ f g h' h ih =>
    obtain ⟨_, vf⟩ := f; obtain ⟨_, vg⟩ := g; obtain ⟨_, vh⟩ := h'
    obtain ⟨g', sub, _⟩ := applyIte_spec _ _ _ _ _ _ _ _ _ _ ih.1 vf vg vh h
    exact ⟨g', ih.2.step ih.1 g' sub (applyIte_sizeCache _ _ _ _ _ _ _ h)⟩
  | andMany _ hl h ih =>
    obtain ⟨g', sub⟩ := andMany_good _ _ _ _ _ _ ih.1 ⟨_, Valid.one⟩ hl h
    exact ⟨g', ih.2.step ih.1 g' sub (andMany_sizeCache _ _ _ _ _ _ h)⟩
  | orMany _ hl h ih =>
    obtain ⟨g', sub⟩ := orMany_good _ _ _ _ _ _ ih.1 ⟨_, Valid.zero⟩ hl h
    exact ⟨g', ih.2.step ih.1 g' sub (orMany_sizeCache _ _ _ _ _ _ h)⟩
  | cube _ hd h ih =>
    obtain ⟨g', sub, _⟩ := cube_spec ih.1 hd h
    exact ⟨g', ih.2.step ih.1 g' sub (cube_sizeCache _ _ _ _ h)⟩
  | clause _ hd h ih =>
    obtain ⟨g', sub, _⟩ := clause_spec ih.1 hd h
    exact ⟨g', ih.2.step ih.1 g' sub (clause_sizeCache _ _ _ _ h)⟩
  | substitute _ f h ih =>
    obtain ⟨_, vf⟩ := f
    obtain ⟨g', sub, _⟩ := substitute_top ih.1 vf h
    exact ⟨g', ih.2.step ih.1 g' sub (substitute_sizeCache _ _ _ _ _ _ _ _ h)⟩
  | substMulti _ f h ih =>
    obtain ⟨_, vf⟩ := f
    obtain ⟨g', sub, _⟩ := substMulti_top ih.1 vf h
    exact ⟨g', ih.2.step ih.1 g' sub (substMulti_sizeCache _ _ _ _ _ _ _ h)⟩
  | cofCube _ f ha h ih =>
    obtain ⟨_, vf⟩ := f
    obtain ⟨g', sub, _⟩ := cofCube_top ih.1 vf ha h
    exact ⟨g', ih.2.step ih.1 g' sub (cofCube_sizeCache _ _ _ _ _ _ _ h)⟩
  | compose _ f g h ih =>
    obtain ⟨_, vf⟩ := f; obtain ⟨_, vg⟩ := g
    obtain ⟨g', sub, _⟩ := composeTop_spec ih.1 vf vg h
    exact ⟨g', ih.2.step ih.1 g' sub (composeTop_sizeCache _ _ _ _ _ _ _ h)⟩
  | constrain _ f g h ih =>
    obtain ⟨_, vf⟩ := f; obtain ⟨_, vg⟩ := g
    obtain ⟨g', sub, _⟩ := constrain_spec _ _ _ _ _ _ _ _ ih.1 vf vg h
    exact ⟨g', ih.2.step ih.1 g' sub (constrain_sizeCache _ _ _ _ _ _ h)⟩
  | restrict _ f g h ih =>
    obtain ⟨_, vf⟩ := f; obtain ⟨_, vg⟩ := g
    obtain ⟨g', sub, _⟩ := restrict_spec _ _ _ _ _ _ _ _ ih.1 vf vg h
    exact ⟨g', ih.2.step ih.1 g' sub (restrict_sizeCache _ _ _ _ _ _ h)⟩
  | expr _ hs h ih =>
    obtain ⟨g', sub, _⟩ := Expr.eval_spec _ _ _ _ _ _ ih.1 hs h
    exact ⟨g', ih.2.step ih.1 g' sub (Expr.eval_sizeCache _ _ _ _ _ h)⟩
  | iteConstant _ f g h' h ih =>
    obtain ⟨_, vf⟩ := f; obtain ⟨_, vg⟩ := g; obtain ⟨_, vh⟩ := h'
    obtain ⟨g', hn⟩ := iteConstant_good ih.1 vf vg vh h
    exact ⟨g', ih.2.step ih.1 g' (by rw [hn]; exact Sub.refl _) (iteConstant_sizeCache _ _ _ _ _ _ _ h)⟩
  | isImplies _ f g h ih =>
    obtain ⟨_, vf⟩ := f; obtain ⟨_, vg⟩ := g
    have hsc := isImplies_sizeCache _ _ _ _ _ _ h
    unfold isImplies at h
    cases h1 : iteConstant _ _ _ _ Ref.one with
    | error e => rw [h1] at h; cases h
    | ok p =>
      obtain ⟨s1, o⟩ := p
      rw [h1] at h
      simp only [Except.ok.injEq, Prod.mk.injEq] at h
      obtain ⟨g', hn⟩ := iteConstant_good ih.1 vf vg Valid.one h1
      rw [← h.1] at hsc ⊢
      exact ⟨g', ih.2.step ih.1 g' (by rw [hn]; exact Sub.refl _) hsc⟩
  | @size s f _ hf ih =>
    refine ⟨size_good ih.1 f, ?_⟩
    intro g n hl
    obtain ⟨φ, vf⟩ := hf
    have hok := size_sizeOk ih.2.sizeOk f g n hl
    refine ⟨?_, hok⟩
    -- the key is either an old key (live by the invariant) or the handle just queried (live by hypothesis)
    have hn := size_nodes s f
    have live' : ∀ i, Live s i → Live (size s f).1 i := by
      intro i hi
      rcases hi with h1 | ⟨m, hm⟩
      · exact Or.inl h1
      · exact Or.inr ⟨m, by rw [hn]; exact hm⟩
    unfold size at hl
    cases hc : (s.sizeCache.get f).2 with
    | some m =>
      simp only [hc] at hl
      rw [Cache.get_fst_lookup] at hl
      exact live' _ (ih.2 g n hl).1
    | none =>
      simp only [hc] at hl
      rcases Cache.lookup_insert _ f _ g hl with ⟨rfl, _⟩ | hl'
      · exact live' _ (Live.of_valid vf)
      · rw [Cache.get_fst_lookup] at hl'
        exact live' _ (ih.2 g n hl').1
  | gc _ hl h ih =>
    refine ⟨gc_good ih.1 hl h, ?_⟩
    intro f n hlk
    have := (collect_spec ih.1 (fun r hr => let ⟨_, v⟩ := hl r hr; Live.of_valid v) ih.1.rs h).2.2.2.2.2.1 f
    rw [this] at hlk; cases hlk

theorem reachable_good {s : St} (h : Reachable s) : Good s := (reachable_inv h).1
theorem reachable_sizeInv {s : St} (h : Reachable s) : SizeInv s := (reachable_inv h).2

end P

import BddProofs.BracketText
import BddProofs.Dot

/-!
# The DOT *text* is faithful

`renderDotLines s roots : List String` (in `BddModel/Query.lean`) is the exact text of `to_dot`, line by
line; `toDot s roots : List DotRec × List RootKind` is the structured value it is printed from.  The
theorems in `Dot.lean` / `Properties/C16.lean` (`C16_dot_faithful`) speak about the structured value
only.  This file closes the gap between the records and their text: the lines can be read back.

Layout:
* `labelLine`, `hiLine`, `lowLine`, `rootDeclLine`, `rootEdgeLine`, `dotLines` – the text with named
  parts; `renderDotLines_eq` (`rfl`) says this *is* the model's text.
* `readLine : String → Option DotLine` – ONE classifier for a line (a decision tree on the characters:
  a leading number ⇒ node line, a leading `r` ⇒ root line; then the literal after the number decides).
  `readLabelLine`, `readHiLine`, `readLowLine`, `readRootDeclLine`, `readRootEdgeLine` are its five
  projections, so they are mutually exclusive *by construction* on every string (`readers_exclusive`).
* round trips on the rendered lines: `readLabelLine_labelLine`, `readHiLine_hiLine`,
  `readLowLine_lowLine`, `readRootDeclLine_rootDeclLine`, `readRootEdgeLine_rootEdgeLine`.
* **`.zero` versus `.reg 0`.**  The text does not distinguish `LowKind.zero` from `LowKind.reg 0`
  (both are `id -- 0 [style=dashed];`), nor `RootKind.zero` from `RootKind.reg 0` (both `r_i -- 0;`).
  The readers return `.zero` for target `0`; the round trips are therefore stated with `canonLow` /
  `canonRoot` (which map `.reg 0 ↦ .zero` and are the identity otherwise; `canonLow_of_ne`).  In a real
  diagram index `0` never occurs (`noReg0_of_good`: on a `Good` state with live roots no record has
  `.reg 0`), so there the canonical form is the value itself.
* per-section theorems: `dot_edges_faithful` (the edge section, read pairwise), `dot_labels_*`
  (the label lines: sound and complete), `dot_roots_faithful`, `dot_rootKinds_faithful`.
* summary: `readDot : List String → DotRead` is a left inverse of the renderer: `readDot_render`
  (every state, every root list, up to `.reg 0 ↦ .zero`), `readDot_render_of_noReg0`,
  `readDot_render_good` (exact).  Hence the text determines the structured value
  (`dotText_determines_canon`, `dotText_determines`, `dotText_determines_good`) and even the list of
  root handles themselves (`dotText_roots`, unconditionally; the root declarations print `Ref.show r`).
  The variable of a record is found by looking its id up among the label lines; this is sound because
  within one export records with the same id carry the same variable (`funVar_toDot`; no `Nodup`
  of the ids is needed).
* not covered: the *order* of the label lines inside the text is not used (labels are looked up by id),
  and `readDot` does not reject ill-formed texts (it is a left inverse, not a validating parser).
-/

namespace P

/-! ### the text with named parts -/

def labelLine (id var : Nat) : String := toString id ++ " [label=<x<SUB>" ++ toString var ++ "</SUB>>];"

def hiLine (id hi : Nat) : String := toString id ++ " -- " ++ toString hi ++ ";"

def lowLine (id : Nat) : LowKind → String
  | .zero => toString id ++ " -- 0 [style=dashed];"
  | .compl t => toString id ++ " -- " ++ toString t ++ " [style=dotted, dir=forward, arrowhead=odot];"
  | .reg t => toString id ++ " -- " ++ toString t ++ " [style=dashed];"

def rootDeclLine (i : Nat) (r : Ref) : String :=
  "r" ++ toString i ++ " [shape=rect, label=\"" ++ r.show ++ "\"];"

def rootEdgeLine (i : Nat) : RootKind → String
  | .zero => "r" ++ toString i ++ " -- 0;"
  | .compl t => "r" ++ toString i ++ " -- " ++ toString t ++ " [dir=forward, arrowhead=odot];"
  | .reg t => "r" ++ toString i ++ " -- " ++ toString t ++ ";"

def headerLines : List String :=
  ["graph {", "node [shape=circle, fixedsize=true];", "{ rank=sink",
    "0 [shape=square, label=\"0\"];", "1 [shape=square, label=\"1\"];", "}"]

def levelLines (recs : List DotRec) : List String :=
  (levelsOf recs).flatMap (fun lv =>
    ["{ rank=same"] ++ ((recs.filter (fun r => r.var == lv)).map (fun r => labelLine r.id r.var)) ++ ["}"])

def edgeLines (recs : List DotRec) : List String :=
  recs.flatMap (fun r => [hiLine r.id r.hi, lowLine r.id r.low])

def rootDeclLines (roots : List Ref) : List String :=
  ["{ rank=source"] ++ ((enumFrom 0 roots).map (fun p => rootDeclLine p.1 p.2)) ++ ["}"]

def rootEdgeLines (rks : List RootKind) : List String :=
  (enumFrom 0 rks).map (fun p => rootEdgeLine p.1 p.2)

/-- the renderer, abstracted from where the records come from -/
def dotLines (recs : List DotRec) (roots : List Ref) (rks : List RootKind) : List String :=
  headerLines ++ levelLines recs ++ edgeLines recs ++ rootDeclLines roots ++ rootEdgeLines rks ++ ["}"]

/-- the named parts are the model's text, definitionally -/
theorem renderDotLines_eq (s : St) (roots : List Ref) :
    renderDotLines s roots = dotLines (toDot s roots).1 roots (toDot s roots).2 := rfl

/-- in particular the edge section is the `recs.flatMap …` of `renderDotLines`, verbatim -/
theorem edgeLines_eq (recs : List DotRec) : edgeLines recs = recs.flatMap (fun r =>
    [toString r.id ++ " -- " ++ toString r.hi ++ ";",
     match r.low with
     | .zero => toString r.id ++ " -- 0 [style=dashed];"
     | .compl t => toString r.id ++ " -- " ++ toString t ++ " [style=dotted, dir=forward, arrowhead=odot];"
     | .reg t => toString r.id ++ " -- " ++ toString t ++ " [style=dashed];"]) := rfl

/-! ### the line reader -/

/-- a classified line -/
inductive DotLine where
  | label (id var : Nat)
  | hi (id hi : Nat)
  | low (id : Nat) (k : LowKind)
  | rootDecl (i : Nat) (r : Ref)
  | rootEdge (i : Nat) (k : RootKind)

/-! The literals of the format, as named character lists (named so that `simp`/`rw` treat them as
atoms; their values matter only in the few `rfl` facts below). -/

def lLabO : List Char := " [label=<x<SUB>".toList
def lLabC : List Char := "</SUB>>];".toList
def lArrow : List Char := " -- ".toList
def lSemi : List Char := ";".toList
def lDashed : List Char := " [style=dashed];".toList
def lDotted : List Char := " [style=dotted, dir=forward, arrowhead=odot];".toList
def lOdot : List Char := " [dir=forward, arrowhead=odot];".toList
def lR : List Char := "r".toList
def lDeclO : List Char := " [shape=rect, label=\"".toList
def lDeclC : List Char := "\"];".toList

/-- `<id> -- <t>` has been read; what follows decides between the then-edge and the else-edge forms.
Target `0` with `[style=dashed]` is read as `.zero` (see the header comment). -/
def nodeEdgeKind (id t : Nat) (tail : List Char) : Option DotLine :=
  if tail = lSemi then some (.hi id t)
  else if tail = lDashed then some (.low id (if t = 0 then .zero else .reg t))
  else if tail = lDotted then some (.low id (.compl t))
  else none

/-- `r<i> -- <t>` has been read.  Target `0` without attributes is read as `.zero`. -/
def rootEdgeKind (i t : Nat) (tail : List Char) : Option DotLine :=
  if tail = lSemi then some (.rootEdge i (if t = 0 then .zero else .reg t))
  else if tail = lOdot then some (.rootEdge i (.compl t))
  else none

/-- the rest of a line that starts with the number `id` -/
def readNodeRest (id : Nat) (rest : List Char) : Option DotLine :=
  match eat lLabO rest with
  | some r1 => (readNat r1).bind fun pv => if pv.2 = lLabC then some (.label id pv.1) else none
  | none => (eat lArrow rest).bind fun r1 => (readNat r1).bind fun pt => nodeEdgeKind id pt.1 pt.2

/-- the rest of a line that starts with `r<i>` -/
def readRootRest (i : Nat) (rest : List Char) : Option DotLine :=
  match eat lDeclO rest with
  | some r1 =>
    (readRef r1).bind fun pr => if pr.2.2 = lDeclC then some (.rootDecl i ⟨pr.2.1, pr.1⟩) else none
  | none => (eat lArrow rest).bind fun r1 => (readNat r1).bind fun pt => rootEdgeKind i pt.1 pt.2

/-- classify a line (as characters): a leading number ⇒ node line, a leading `r` ⇒ root line -/
def readLineL (cs : List Char) : Option DotLine :=
  match readNat cs with
  | some p => readNodeRest p.1 p.2
  | none => (eat lR cs).bind fun r0 => (readNat r0).bind fun pi => readRootRest pi.1 pi.2

/-- classify a line; the whole line must match -/
def readLine (l : String) : Option DotLine := readLineL l.toList

/-- the five kinds of lines, as partial projections of the classification -/
def DotLine.label? : DotLine → Option (Nat × Nat) | .label id v => some (id, v) | _ => none
def DotLine.hi? : DotLine → Option (Nat × Nat) | .hi id h => some (id, h) | _ => none
def DotLine.low? : DotLine → Option (Nat × LowKind) | .low id k => some (id, k) | _ => none
def DotLine.rootDecl? : DotLine → Option (Nat × Ref) | .rootDecl i r => some (i, r) | _ => none
def DotLine.rootEdge? : DotLine → Option (Nat × RootKind) | .rootEdge i k => some (i, k) | _ => none

/-- `<id> [label=<x<SUB><var></SUB>>];` ↦ `(id, var)` -/
def readLabelLine (l : String) : Option (Nat × Nat) := (readLine l).bind DotLine.label?

/-- `<id> -- <hi>;` ↦ `(id, hi)` -/
def readHiLine (l : String) : Option (Nat × Nat) := (readLine l).bind DotLine.hi?

/-- the three else-edge forms ↦ `(id, kind)`; `<id> -- 0 [style=dashed];` ↦ `(id, .zero)` -/
def readLowLine (l : String) : Option (Nat × LowKind) := (readLine l).bind DotLine.low?

/-- `r<i> [shape=rect, label="<Ref.show r>"];` ↦ `(i, r)` -/
def readRootDeclLine (l : String) : Option (Nat × Ref) := (readLine l).bind DotLine.rootDecl?

/-- the three root-edge forms ↦ `(i, kind)`; `r<i> -- 0;` ↦ `(i, .zero)` -/
def readRootEdgeLine (l : String) : Option (Nat × RootKind) := (readLine l).bind DotLine.rootEdge?

/-- the text cannot tell `.reg 0` from `.zero` -/
def canonLow : LowKind → LowKind
  | .zero => .zero
  | .compl t => .compl t
  | .reg t => if t = 0 then .zero else .reg t

def canonRoot : RootKind → RootKind
  | .zero => .zero
  | .compl t => .compl t
  | .reg t => if t = 0 then .zero else .reg t

def canonRec (r : DotRec) : DotRec := { r with low := canonLow r.low }

theorem canonLow_of_ne {k : LowKind} (h : k ≠ .reg 0) : canonLow k = k := by
  cases k with
  | zero => rfl
  | compl t => rfl
  | reg t =>
    have : t ≠ 0 := fun e => h (by rw [e])
    simp only [canonLow, if_neg this]

theorem canonRoot_of_ne {k : RootKind} (h : k ≠ .reg 0) : canonRoot k = k := by
  cases k with
  | zero => rfl
  | compl t => rfl
  | reg t =>
    have : t ≠ 0 := fun e => h (by rw [e])
    simp only [canonRoot, if_neg this]

theorem canonRec_of_ne {r : DotRec} (h : r.low ≠ .reg 0) : canonRec r = r := by
  cases r with
  | mk id var hi low => simp only [canonRec, canonLow_of_ne h]

/-! ### the lines as characters -/

theorem toList_labelLine (id var : Nat) : (labelLine id var).toList =
    (toString id).toList ++ (lLabO ++ ((toString var).toList ++ lLabC)) := by
  simp only [labelLine, String.toList_append, List.append_assoc]; rfl

theorem toList_hiLine (id hi : Nat) : (hiLine id hi).toList =
    (toString id).toList ++ (lArrow ++ ((toString hi).toList ++ lSemi)) := by
  simp only [hiLine, String.toList_append, List.append_assoc]; rfl

/-- as text, `.zero` is `.reg 0` -/
theorem toList_lowLine_zero (id : Nat) : (lowLine id .zero).toList = (lowLine id (.reg 0)).toList := by
  simp only [lowLine, String.toList_append, List.append_assoc]; rfl

theorem toList_lowLine_reg (id t : Nat) : (lowLine id (.reg t)).toList =
    (toString id).toList ++ (lArrow ++ ((toString t).toList ++ lDashed)) := by
  simp only [lowLine, String.toList_append, List.append_assoc]; rfl

theorem toList_lowLine_compl (id t : Nat) : (lowLine id (.compl t)).toList =
    (toString id).toList ++ (lArrow ++ ((toString t).toList ++ lDotted)) := by
  simp only [lowLine, String.toList_append, List.append_assoc]; rfl

theorem toList_ref_show (r : Ref) : r.show.toList = showL r.neg r.idx := by
  cases r with
  | mk idx neg => exact toList_show neg idx

theorem toList_rootDeclLine (i : Nat) (r : Ref) : (rootDeclLine i r).toList =
    lR ++ ((toString i).toList ++ (lDeclO ++ (showL r.neg r.idx ++ lDeclC))) := by
  simp only [rootDeclLine, String.toList_append, List.append_assoc, toList_ref_show]; rfl

/-- as text, `.zero` is `.reg 0` -/
theorem toList_rootEdgeLine_zero (i : Nat) :
    (rootEdgeLine i .zero).toList = (rootEdgeLine i (.reg 0)).toList := by
  simp only [rootEdgeLine, String.toList_append, List.append_assoc]; rfl

theorem toList_rootEdgeLine_reg (i t : Nat) : (rootEdgeLine i (.reg t)).toList =
    lR ++ ((toString i).toList ++ (lArrow ++ ((toString t).toList ++ lSemi))) := by
  simp only [rootEdgeLine, String.toList_append, List.append_assoc]; rfl

theorem toList_rootEdgeLine_compl (i t : Nat) : (rootEdgeLine i (.compl t)).toList =
    lR ++ ((toString i).toList ++ (lArrow ++ ((toString t).toList ++ lOdot))) := by
  simp only [rootEdgeLine, String.toList_append, List.append_assoc]; rfl

/-! ### facts about the literals (all by evaluation) -/

theorem NoDigit.append {p : List Char} {c : Char} (hp : p.head? = some c) (hc : c.isDigit = false)
    (rest : List Char) : NoDigit (p ++ rest) := by
  cases p with
  | nil => cases hp
  | cons d r =>
    simp only [List.head?_cons, Option.some.injEq] at hp
    subst hp
    exact NoDigit.cons hc _

theorem noDigit_lLabO (r : List Char) : NoDigit (lLabO ++ r) := NoDigit.append (c := ' ') rfl rfl r
theorem noDigit_lArrow (r : List Char) : NoDigit (lArrow ++ r) := NoDigit.append (c := ' ') rfl rfl r
theorem noDigit_lDeclO (r : List Char) : NoDigit (lDeclO ++ r) := NoDigit.append (c := ' ') rfl rfl r
theorem noDigit_lLabC : NoDigit lLabC := NoDigit.cons (c := '<') rfl _
theorem noDigit_lSemi : NoDigit lSemi := NoDigit.cons (c := ';') rfl _
theorem noDigit_lDashed : NoDigit lDashed := NoDigit.cons (c := ' ') rfl _
theorem noDigit_lDotted : NoDigit lDotted := NoDigit.cons (c := ' ') rfl _
theorem noDigit_lOdot : NoDigit lOdot := NoDigit.cons (c := ' ') rfl _
theorem noDigit_lDeclC : NoDigit lDeclC := NoDigit.cons (c := '"') rfl _

theorem readNat_lR (cs : List Char) : readNat (lR ++ cs) = none := rfl
theorem eat_lLabO_lArrow (r : List Char) : eat lLabO (lArrow ++ r) = none := rfl
theorem eat_lDeclO_lArrow (r : List Char) : eat lDeclO (lArrow ++ r) = none := rfl

theorem nodeEdgeKind_semi (id t : Nat) : nodeEdgeKind id t lSemi = some (.hi id t) := rfl
theorem nodeEdgeKind_dashed (id t : Nat) :
    nodeEdgeKind id t lDashed = some (.low id (canonLow (.reg t))) := rfl
theorem nodeEdgeKind_dotted (id t : Nat) : nodeEdgeKind id t lDotted = some (.low id (.compl t)) := rfl
theorem rootEdgeKind_semi (i t : Nat) :
    rootEdgeKind i t lSemi = some (.rootEdge i (canonRoot (.reg t))) := rfl
theorem rootEdgeKind_odot (i t : Nat) : rootEdgeKind i t lOdot = some (.rootEdge i (.compl t)) := rfl

/-! ### round trips for single lines -/

theorem readLine_labelLine (id var : Nat) : readLine (labelLine id var) = some (.label id var) := by
  have h1 := readNat_toString id (lLabO ++ ((toString var).toList ++ lLabC)) (noDigit_lLabO _)
  have h2 := readNat_toString var lLabC noDigit_lLabC
  simp only [readLine, readLineL, toList_labelLine, h1, readNodeRest, eat_append, h2, Option.bind_some,
    if_true]

theorem readLine_hiLine (id hi : Nat) : readLine (hiLine id hi) = some (.hi id hi) := by
  have h1 := readNat_toString id (lArrow ++ ((toString hi).toList ++ lSemi)) (noDigit_lArrow _)
  have h2 := readNat_toString hi lSemi noDigit_lSemi
  simp only [readLine, readLineL, toList_hiLine, h1, readNodeRest, eat_lLabO_lArrow, eat_append, h2,
    Option.bind_some, nodeEdgeKind_semi]

theorem readLine_lowLine_reg (id t : Nat) :
    readLine (lowLine id (.reg t)) = some (.low id (canonLow (.reg t))) := by
  have h1 := readNat_toString id (lArrow ++ ((toString t).toList ++ lDashed)) (noDigit_lArrow _)
  have h2 := readNat_toString t lDashed noDigit_lDashed
  simp only [readLine, readLineL, toList_lowLine_reg, h1, readNodeRest, eat_lLabO_lArrow, eat_append, h2,
    Option.bind_some, nodeEdgeKind_dashed]

theorem readLine_lowLine (id : Nat) (k : LowKind) : readLine (lowLine id k) = some (.low id (canonLow k)) := by
  cases k with
  | zero =>
    have h := readLine_lowLine_reg id 0
    unfold readLine at h ⊢
    rw [toList_lowLine_zero, h]; rfl
  | compl t =>
    have h1 := readNat_toString id (lArrow ++ ((toString t).toList ++ lDotted)) (noDigit_lArrow _)
    have h2 := readNat_toString t lDotted noDigit_lDotted
    simp only [readLine, readLineL, toList_lowLine_compl, h1, readNodeRest, eat_lLabO_lArrow, eat_append,
      h2, Option.bind_some, nodeEdgeKind_dotted, canonLow]
  | reg t => exact readLine_lowLine_reg id t

theorem readLine_rootDeclLine (i : Nat) (r : Ref) : readLine (rootDeclLine i r) = some (.rootDecl i r) := by
  have h1 := readNat_toString i (lDeclO ++ (showL r.neg r.idx ++ lDeclC)) (noDigit_lDeclO _)
  have h2 := readRef_show r.neg r.idx lDeclC noDigit_lDeclC
  simp only [readLine, readLineL, toList_rootDeclLine, readNat_lR, eat_append, Option.bind_some, h1,
    readRootRest, h2, if_true]

theorem readLine_rootEdgeLine_reg (i t : Nat) :
    readLine (rootEdgeLine i (.reg t)) = some (.rootEdge i (canonRoot (.reg t))) := by
  have h1 := readNat_toString i (lArrow ++ ((toString t).toList ++ lSemi)) (noDigit_lArrow _)
  have h2 := readNat_toString t lSemi noDigit_lSemi
  simp only [readLine, readLineL, toList_rootEdgeLine_reg, readNat_lR, eat_append, Option.bind_some, h1,
    readRootRest, eat_lDeclO_lArrow, h2, rootEdgeKind_semi]

theorem readLine_rootEdgeLine (i : Nat) (k : RootKind) :
    readLine (rootEdgeLine i k) = some (.rootEdge i (canonRoot k)) := by
  cases k with
  | zero =>
    have h := readLine_rootEdgeLine_reg i 0
    unfold readLine at h ⊢
    rw [toList_rootEdgeLine_zero, h]; rfl
  | compl t =>
    have h1 := readNat_toString i (lArrow ++ ((toString t).toList ++ lOdot)) (noDigit_lArrow _)
    have h2 := readNat_toString t lOdot noDigit_lOdot
    simp only [readLine, readLineL, toList_rootEdgeLine_compl, readNat_lR, eat_append, Option.bind_some, h1,
      readRootRest, eat_lDeclO_lArrow, h2, rootEdgeKind_odot, canonRoot]
  | reg t => exact readLine_rootEdgeLine_reg i t

/-! ### the five readers: round trips and exclusivity -/

theorem readLabelLine_labelLine (id var : Nat) : readLabelLine (labelLine id var) = some (id, var) := by
  simp only [readLabelLine, readLine_labelLine, Option.bind_some, DotLine.label?]

theorem readHiLine_hiLine (id hi : Nat) : readHiLine (hiLine id hi) = some (id, hi) := by
  simp only [readHiLine, readLine_hiLine, Option.bind_some, DotLine.hi?]

/-- else-edge round trip; `.reg 0` reads back as `.zero` (`canonLow`) -/
theorem readLowLine_lowLine (id : Nat) (k : LowKind) : readLowLine (lowLine id k) = some (id, canonLow k) := by
  simp only [readLowLine, readLine_lowLine, Option.bind_some, DotLine.low?]

/-- else-edge round trip for everything but `.reg 0` -/
theorem readLowLine_lowLine_of_ne (id : Nat) {k : LowKind} (h : k ≠ .reg 0) :
    readLowLine (lowLine id k) = some (id, k) := by
  rw [readLowLine_lowLine, canonLow_of_ne h]

theorem readRootDeclLine_rootDeclLine (i : Nat) (r : Ref) :
    readRootDeclLine (rootDeclLine i r) = some (i, r) := by
  simp only [readRootDeclLine, readLine_rootDeclLine, Option.bind_some, DotLine.rootDecl?]

/-- root-edge round trip; `.reg 0` reads back as `.zero` (`canonRoot`) -/
theorem readRootEdgeLine_rootEdgeLine (i : Nat) (k : RootKind) :
    readRootEdgeLine (rootEdgeLine i k) = some (i, canonRoot k) := by
  simp only [readRootEdgeLine, readLine_rootEdgeLine, Option.bind_some, DotLine.rootEdge?]

theorem readRootEdgeLine_rootEdgeLine_of_ne (i : Nat) {k : RootKind} (h : k ≠ .reg 0) :
    readRootEdgeLine (rootEdgeLine i k) = some (i, canonRoot k) ∧ canonRoot k = k :=
  ⟨readRootEdgeLine_rootEdgeLine i k, canonRoot_of_ne h⟩

/-- the literal round trips, spelled out on the text itself -/
theorem readLabelLine_text (id var : Nat) :
    readLabelLine (toString id ++ " [label=<x<SUB>" ++ toString var ++ "</SUB>>];") = some (id, var) :=
  readLabelLine_labelLine id var

theorem readHiLine_text (id hi : Nat) : readHiLine (toString id ++ " -- " ++ toString hi ++ ";") = some (id, hi) :=
  readHiLine_hiLine id hi

theorem readLowLine_text_zero (id : Nat) :
    readLowLine (toString id ++ " -- 0 [style=dashed];") = some (id, .zero) :=
  readLowLine_lowLine id .zero

theorem readLowLine_text_compl (id t : Nat) :
    readLowLine (toString id ++ " -- " ++ toString t ++ " [style=dotted, dir=forward, arrowhead=odot];") =
      some (id, .compl t) :=
  readLowLine_lowLine id (.compl t)

/-- needs `t ≠ 0`: `<id> -- 0 [style=dashed];` is read as `.zero` -/
theorem readLowLine_text_reg (id t : Nat) (ht : t ≠ 0) :
    readLowLine (toString id ++ " -- " ++ toString t ++ " [style=dashed];") = some (id, .reg t) :=
  readLowLine_lowLine_of_ne id (k := .reg t) (fun e => ht (LowKind.reg.inj e))

theorem readRootDeclLine_text (i : Nat) (r : Ref) :
    readRootDeclLine ("r" ++ toString i ++ " [shape=rect, label=\"" ++ r.show ++ "\"];") = some (i, r) :=
  readRootDeclLine_rootDeclLine i r

theorem readRootEdgeLine_text_zero (i : Nat) : readRootEdgeLine ("r" ++ toString i ++ " -- 0;") = some (i, .zero) :=
  readRootEdgeLine_rootEdgeLine i .zero

theorem readRootEdgeLine_text_compl (i t : Nat) :
    readRootEdgeLine ("r" ++ toString i ++ " -- " ++ toString t ++ " [dir=forward, arrowhead=odot];") =
      some (i, .compl t) :=
  readRootEdgeLine_rootEdgeLine i (.compl t)

/-- needs `t ≠ 0`: `r<i> -- 0;` is read as `.zero` -/
theorem readRootEdgeLine_text_reg (i t : Nat) (ht : t ≠ 0) :
    readRootEdgeLine ("r" ++ toString i ++ " -- " ++ toString t ++ ";") = some (i, .reg t) := by
  have h := readRootEdgeLine_rootEdgeLine i (.reg t)
  rw [canonRoot_of_ne (fun e => ht (RootKind.reg.inj e))] at h
  exact h

/-- which readers accept a line: at most one, on *every* string (not only on rendered lines) -/
def accepts (l : String) : List Bool :=
  [(readLabelLine l).isSome, (readHiLine l).isSome, (readLowLine l).isSome,
   (readRootDeclLine l).isSome, (readRootEdgeLine l).isSome]

theorem readers_exclusive (l : String) : ((accepts l).filter id).length ≤ 1 := by
  unfold accepts readLabelLine readHiLine readLowLine readRootDeclLine readRootEdgeLine
  cases readLine l with
  | none => exact Nat.zero_le 1
  | some d => cases d <;> exact Nat.le_refl 1

/-- e.g. `5 -- 7;` / `5 -- 7 [style=dashed];` / `5 -- 0 [style=dashed];` are told apart -/
theorem readHiLine_lowLine (id : Nat) (k : LowKind) : readHiLine (lowLine id k) = none := by
  simp only [readHiLine, readLine_lowLine, Option.bind_some, DotLine.hi?]

theorem readLowLine_hiLine (id hi : Nat) : readLowLine (hiLine id hi) = none := by
  simp only [readLowLine, readLine_hiLine, Option.bind_some, DotLine.low?]

theorem readLabelLine_hiLine (id hi : Nat) : readLabelLine (hiLine id hi) = none := by
  simp only [readLabelLine, readLine_hiLine, Option.bind_some, DotLine.label?]

theorem readLabelLine_lowLine (id : Nat) (k : LowKind) : readLabelLine (lowLine id k) = none := by
  simp only [readLabelLine, readLine_lowLine, Option.bind_some, DotLine.label?]

example : readHiLine "5 -- 7;" = some (5, 7) := by decide
example : readLowLine "5 -- 7;" = none := by decide
example : readLowLine "5 -- 7 [style=dashed];" = some (5, .reg 7) := by decide
example : readLowLine "5 -- 0 [style=dashed];" = some (5, .zero) := by decide
example : readLowLine "5 -- 7 [style=dotted, dir=forward, arrowhead=odot];" = some (5, .compl 7) := by decide
example : readHiLine "5 -- 7 [style=dashed];" = none := by decide
example : readLabelLine "12 [label=<x<SUB>3</SUB>>];" = some (12, 3) := by decide
example : readLabelLine "0 [shape=square, label=\"0\"];" = none := by decide
example : readRootDeclLine "r2 [shape=rect, label=\"~@17\"];" = some (2, ⟨17, true⟩) := rfl
example : readRootEdgeLine "r2 -- 17 [dir=forward, arrowhead=odot];" = some (2, .compl 17) := rfl

/-! ### list helpers -/

theorem filterMap_map_some {α β γ : Type} (f : α → β) (g : β → Option γ) (h : α → γ)
    (H : ∀ x, g (f x) = some (h x)) (l : List α) : (l.map f).filterMap g = l.map h := by
  induction l with
  | nil => rfl
  | cons a l ih => simp only [List.map_cons, List.filterMap_cons, H, ih]

theorem filterMap_map_none {α β γ : Type} (f : α → β) (g : β → Option γ)
    (H : ∀ x, g (f x) = none) (l : List α) : (l.map f).filterMap g = [] := by
  induction l with
  | nil => rfl
  | cons a l ih => simp only [List.map_cons, List.filterMap_cons, H, ih]

theorem flatMap_nil_fun {α β : Type} (l : List α) : l.flatMap (fun _ => ([] : List β)) = [] := by
  induction l with
  | nil => rfl
  | cons a l ih => simp only [List.flatMap_cons, ih, List.append_nil]

theorem flatMap_single_fun {α β : Type} (f : α → β) (l : List α) : l.flatMap (fun x => [f x]) = l.map f := by
  induction l with
  | nil => rfl
  | cons a l ih => simp only [List.flatMap_cons, ih, List.map_cons, List.singleton_append]

theorem map_snd_enumFrom {α : Type} (l : List α) : ∀ k, (enumFrom k l).map (·.2) = l := by
  induction l with
  | nil => intro k; rfl
  | cons a l ih => intro k; simp only [enumFrom, List.map_cons, ih]

theorem map_enumFrom_map {α β : Type} (f : α → β) (l : List α) :
    ∀ k, (enumFrom k l).map (fun p => f p.2) = l.map f := by
  induction l with
  | nil => intro k; rfl
  | cons a l ih => intro k; simp only [enumFrom, List.map_cons, ih]

/-! ### the whole text, classified -/

theorem readLine_headerLines : headerLines.filterMap readLine = [] := by decide

theorem readLine_rankSame : readLine "{ rank=same" = none := by decide
theorem readLine_rankSource : readLine "{ rank=source" = none := by decide
theorem readLine_close : readLine "}" = none := by decide

/-- the label pairs, level by level, in the order of the text -/
def labelsOf (recs : List DotRec) : List (Nat × Nat) :=
  (levelsOf recs).flatMap (fun lv => (recs.filter (fun r => r.var == lv)).map (fun r => (r.id, r.var)))

/-- what the text says, line by line (the lines that carry no information dropped) -/
def classOf (recs : List DotRec) (roots : List Ref) (rks : List RootKind) : List DotLine :=
  (labelsOf recs).map (fun p => DotLine.label p.1 p.2) ++
  recs.flatMap (fun r => [DotLine.hi r.id r.hi, DotLine.low r.id (canonLow r.low)]) ++
  (enumFrom 0 roots).map (fun p => DotLine.rootDecl p.1 p.2) ++
  (enumFrom 0 rks).map (fun p => DotLine.rootEdge p.1 (canonRoot p.2))

theorem readLine_levelLines (recs : List DotRec) :
    (levelLines recs).filterMap readLine = (labelsOf recs).map (fun p => DotLine.label p.1 p.2) := by
  unfold levelLines labelsOf
  rw [List.filterMap_flatMap, List.map_flatMap]
  congr 1
  funext lv
  rw [List.filterMap_append, List.filterMap_append, List.map_map]
  simp only [List.filterMap_cons, List.filterMap_nil, readLine_rankSame, readLine_close,
    List.nil_append, List.append_nil]
  exact filterMap_map_some (fun r : DotRec => labelLine r.id r.var) readLine
    ((fun p : Nat × Nat => DotLine.label p.1 p.2) ∘ fun r : DotRec => (r.id, r.var))
    (fun r => readLine_labelLine r.id r.var) _

theorem readLine_edgeLines (recs : List DotRec) :
    (edgeLines recs).filterMap readLine =
      recs.flatMap (fun r => [DotLine.hi r.id r.hi, DotLine.low r.id (canonLow r.low)]) := by
  unfold edgeLines
  rw [List.filterMap_flatMap]
  congr 1
  funext r
  simp only [List.filterMap_cons, List.filterMap_nil, readLine_hiLine, readLine_lowLine]

theorem readLine_rootDeclLines (roots : List Ref) :
    (rootDeclLines roots).filterMap readLine = (enumFrom 0 roots).map (fun p => DotLine.rootDecl p.1 p.2) := by
  unfold rootDeclLines
  rw [List.filterMap_append, List.filterMap_append]
  simp only [List.filterMap_cons, List.filterMap_nil, readLine_rankSource, readLine_close,
    List.nil_append, List.append_nil]
  exact filterMap_map_some (fun p : Nat × Ref => rootDeclLine p.1 p.2) readLine
    (fun p : Nat × Ref => DotLine.rootDecl p.1 p.2) (fun p => readLine_rootDeclLine p.1 p.2) _

theorem readLine_rootEdgeLines (rks : List RootKind) :
    (rootEdgeLines rks).filterMap readLine =
      (enumFrom 0 rks).map (fun p => DotLine.rootEdge p.1 (canonRoot p.2)) :=
  filterMap_map_some (fun p : Nat × RootKind => rootEdgeLine p.1 p.2) readLine
    (fun p : Nat × RootKind => DotLine.rootEdge p.1 (canonRoot p.2)) (fun p => readLine_rootEdgeLine p.1 p.2) _

/-- every line of the text is either one of the fixed lines (which no reader accepts) or is classified
as what it was printed from -/
theorem readLine_dotLines (recs : List DotRec) (roots : List Ref) (rks : List RootKind) :
    (dotLines recs roots rks).filterMap readLine = classOf recs roots rks := by
  unfold dotLines classOf
  simp only [List.filterMap_append, readLine_headerLines, readLine_levelLines, readLine_edgeLines,
    readLine_rootDeclLines, readLine_rootEdgeLines, List.filterMap_cons, List.filterMap_nil,
    readLine_close, List.nil_append, List.append_nil]

/-! ### the five kinds of lines of the whole text -/

theorem filterMap_some_fun {α β : Type} (f : α → β) (l : List α) :
    l.filterMap (fun x => some (f x)) = l.map f := by
  induction l with
  | nil => rfl
  | cons a l ih => simp only [List.filterMap_cons, ih, List.map_cons]

theorem filterMap_none_fun {α β : Type} (l : List α) : l.filterMap (fun _ => (none : Option β)) = [] := by
  induction l with
  | nil => rfl
  | cons a l ih => simp only [List.filterMap_cons, ih]

theorem labels_classOf (recs : List DotRec) (roots : List Ref) (rks : List RootKind) :
    (classOf recs roots rks).filterMap DotLine.label? = labelsOf recs := by
  simp only [classOf, List.filterMap_append, List.filterMap_map, List.filterMap_flatMap, Function.comp_def,
    DotLine.label?, List.filterMap_cons, List.filterMap_nil, flatMap_nil_fun, filterMap_some_fun,
    filterMap_none_fun, List.append_nil, List.map_id']

theorem his_classOf (recs : List DotRec) (roots : List Ref) (rks : List RootKind) :
    (classOf recs roots rks).filterMap DotLine.hi? = recs.map (fun r => (r.id, r.hi)) := by
  simp only [classOf, List.filterMap_append, List.filterMap_map, List.filterMap_flatMap, Function.comp_def,
    DotLine.hi?, List.filterMap_cons, List.filterMap_nil, flatMap_single_fun, filterMap_none_fun,
    List.append_nil, List.nil_append]

theorem lows_classOf (recs : List DotRec) (roots : List Ref) (rks : List RootKind) :
    (classOf recs roots rks).filterMap DotLine.low? = recs.map (fun r => (r.id, canonLow r.low)) := by
  simp only [classOf, List.filterMap_append, List.filterMap_map, List.filterMap_flatMap, Function.comp_def,
    DotLine.low?, List.filterMap_cons, List.filterMap_nil, flatMap_single_fun, filterMap_none_fun,
    List.append_nil, List.nil_append]

theorem rootDecls_classOf (recs : List DotRec) (roots : List Ref) (rks : List RootKind) :
    (classOf recs roots rks).filterMap DotLine.rootDecl? = enumFrom 0 roots := by
  simp only [classOf, List.filterMap_append, List.filterMap_map, List.filterMap_flatMap, Function.comp_def,
    DotLine.rootDecl?, List.filterMap_cons, List.filterMap_nil, flatMap_nil_fun, filterMap_some_fun,
    filterMap_none_fun, List.append_nil, List.nil_append, List.map_id']

theorem rootEdges_classOf (recs : List DotRec) (roots : List Ref) (rks : List RootKind) :
    (classOf recs roots rks).filterMap DotLine.rootEdge? =
      (enumFrom 0 rks).map (fun p => (p.1, canonRoot p.2)) := by
  simp only [classOf, List.filterMap_append, List.filterMap_map, List.filterMap_flatMap, Function.comp_def,
    DotLine.rootEdge?, List.filterMap_cons, List.filterMap_nil, flatMap_nil_fun, filterMap_some_fun,
    filterMap_none_fun, List.append_nil, List.nil_append]

theorem filterMap_reader (g : DotLine → Option α) (lines : List String) :
    lines.filterMap (fun l => (readLine l).bind g) = (lines.filterMap readLine).filterMap g :=
  List.filterMap_filterMap.symm

/-- all label lines of the text, in order -/
theorem labels_dotLines (recs : List DotRec) (roots : List Ref) (rks : List RootKind) :
    (dotLines recs roots rks).filterMap readLabelLine = labelsOf recs := by
  show (dotLines recs roots rks).filterMap (fun l => (readLine l).bind DotLine.label?) = _
  rw [filterMap_reader, readLine_dotLines, labels_classOf]

/-- all then-edge lines of the text, in order -/
theorem his_dotLines (recs : List DotRec) (roots : List Ref) (rks : List RootKind) :
    (dotLines recs roots rks).filterMap readHiLine = recs.map (fun r => (r.id, r.hi)) := by
  show (dotLines recs roots rks).filterMap (fun l => (readLine l).bind DotLine.hi?) = _
  rw [filterMap_reader, readLine_dotLines, his_classOf]

/-- all else-edge lines of the text, in order -/
theorem lows_dotLines (recs : List DotRec) (roots : List Ref) (rks : List RootKind) :
    (dotLines recs roots rks).filterMap readLowLine = recs.map (fun r => (r.id, canonLow r.low)) := by
  show (dotLines recs roots rks).filterMap (fun l => (readLine l).bind DotLine.low?) = _
  rw [filterMap_reader, readLine_dotLines, lows_classOf]

/-- all root declarations of the text, in order -/
theorem rootDecls_dotLines (recs : List DotRec) (roots : List Ref) (rks : List RootKind) :
    (dotLines recs roots rks).filterMap readRootDeclLine = enumFrom 0 roots := by
  show (dotLines recs roots rks).filterMap (fun l => (readLine l).bind DotLine.rootDecl?) = _
  rw [filterMap_reader, readLine_dotLines, rootDecls_classOf]

/-- all root edges of the text, in order -/
theorem rootEdges_dotLines (recs : List DotRec) (roots : List Ref) (rks : List RootKind) :
    (dotLines recs roots rks).filterMap readRootEdgeLine =
      (enumFrom 0 rks).map (fun p => (p.1, canonRoot p.2)) := by
  show (dotLines recs roots rks).filterMap (fun l => (readLine l).bind DotLine.rootEdge?) = _
  rw [filterMap_reader, readLine_dotLines, rootEdges_classOf]

/-! ### the edge section -/

/-- read the edge section strictly pairwise: a then-edge line, then the else-edge line of the same node -/
def readEdgePairs : List String → Option (List (Nat × Nat × LowKind))
  | [] => some []
  | [_] => none
  | a :: b :: rest =>
    (readHiLine a).bind fun ph => (readLowLine b).bind fun pl =>
      if ph.1 = pl.1 then (readEdgePairs rest).map (fun es => (ph.1, ph.2, pl.2) :: es) else none

theorem edgeLines_cons (r : DotRec) (recs : List DotRec) :
    edgeLines (r :: recs) = hiLine r.id r.hi :: lowLine r.id r.low :: edgeLines recs := rfl

/-- **edges**: reading the edge section pairwise gives the `(id, hi, low)` triples back, in order
(`.reg 0` as `.zero`) -/
theorem dot_edges_faithful (recs : List DotRec) :
    readEdgePairs (edgeLines recs) = some (recs.map (fun r => (r.id, r.hi, canonLow r.low))) := by
  induction recs with
  | nil => rfl
  | cons r recs ih =>
    rw [edgeLines_cons]
    simp only [readEdgePairs, readHiLine_hiLine, readLowLine_lowLine, Option.bind_some, if_true, ih,
      Option.map_some, List.map_cons]

/-- no record has the else-edge `.reg 0` (true in every real diagram: `noReg0_of_good`) -/
def NoReg0 (recs : List DotRec) : Prop := ∀ r, r ∈ recs → r.low ≠ .reg 0

theorem map_canonRec {recs : List DotRec} (h : NoReg0 recs) : recs.map canonRec = recs := by
  have : recs.map canonRec = recs.map id := List.map_congr_left (fun r hr => canonRec_of_ne (h r hr))
  rw [this, List.map_id]

/-- **edges**, exact form -/
theorem dot_edges_faithful_of_noReg0 {recs : List DotRec} (h : NoReg0 recs) :
    readEdgePairs (edgeLines recs) = some (recs.map (fun r => (r.id, r.hi, r.low))) := by
  rw [dot_edges_faithful]
  congr 1
  exact List.map_congr_left (fun r hr => by rw [canonLow_of_ne (h r hr)])

/-! ### the label lines -/

theorem mem_insertSorted_self (x : Nat) (l : List Nat) : x ∈ insertSorted x l := by
  induction l with
  | nil => exact List.mem_cons_self
  | cons y ys ih =>
    unfold insertSorted
    by_cases h1 : x < y
    · rw [if_pos h1]; exact List.mem_cons_self
    · rw [if_neg h1]
      by_cases h2 : x = y
      · rw [if_pos h2, h2]; exact List.mem_cons_self
      · rw [if_neg h2]; exact List.mem_cons_of_mem _ ih

theorem mem_insertSorted_of_mem {x y : Nat} {l : List Nat} (h : y ∈ l) : y ∈ insertSorted x l := by
  induction l with
  | nil => cases h
  | cons z zs ih =>
    unfold insertSorted
    by_cases h1 : x < z
    · rw [if_pos h1]; exact List.mem_cons_of_mem _ h
    · rw [if_neg h1]
      by_cases h2 : x = z
      · rw [if_pos h2]; exact h
      · rw [if_neg h2]
        rcases List.mem_cons.mp h with e | h'
        · rw [e]; exact List.mem_cons_self
        · exact List.mem_cons_of_mem _ (ih h')

theorem mem_foldl_insertSorted (recs : List DotRec) : ∀ (acc : List Nat) (v : Nat),
    (v ∈ acc ∨ ∃ r, r ∈ recs ∧ r.var = v) →
      v ∈ recs.foldl (fun acc r => insertSorted r.var acc) acc := by
  induction recs with
  | nil =>
    intro acc v h
    rcases h with h | ⟨r, hr, _⟩
    · exact h
    · cases hr
  | cons a recs ih =>
    intro acc v h
    rw [List.foldl_cons]
    apply ih
    rcases h with h | ⟨r, hr, hv⟩
    · exact Or.inl (mem_insertSorted_of_mem h)
    · rcases List.mem_cons.mp hr with e | hr'
      · subst e; subst hv; exact Or.inl (mem_insertSorted_self _ _)
      · exact Or.inr ⟨r, hr', hv⟩

/-- every record's level has a `rank=same` block -/
theorem var_mem_levelsOf {recs : List DotRec} {r : DotRec} (hr : r ∈ recs) : r.var ∈ levelsOf recs :=
  mem_foldl_insertSorted recs [] r.var (Or.inr ⟨r, hr, rfl⟩)

theorem mem_labelsOf {recs : List DotRec} {p : Nat × Nat} :
    p ∈ labelsOf recs ↔ ∃ r, r ∈ recs ∧ (r.id, r.var) = p := by
  unfold labelsOf
  constructor
  · intro h
    obtain ⟨lv, _, h2⟩ := List.mem_flatMap.mp h
    obtain ⟨r, hr, e⟩ := List.mem_map.mp h2
    exact ⟨r, (List.mem_filter.mp hr).1, e⟩
  · rintro ⟨r, hr, e⟩
    refine List.mem_flatMap.mpr ⟨r.var, var_mem_levelsOf hr, List.mem_map.mpr ⟨r, ?_, e⟩⟩
    exact List.mem_filter.mpr ⟨hr, by simp only [beq_self_eq_true]⟩

/-- **labels, completeness**: every record's label line occurs in the text and reads back -/
theorem dot_labels_complete (recs : List DotRec) (roots : List Ref) (rks : List RootKind) {r : DotRec}
    (hr : r ∈ recs) :
    labelLine r.id r.var ∈ dotLines recs roots rks ∧
      readLabelLine (labelLine r.id r.var) = some (r.id, r.var) := by
  refine ⟨?_, readLabelLine_labelLine _ _⟩
  have h : labelLine r.id r.var ∈ levelLines recs := by
    unfold levelLines
    refine List.mem_flatMap.mpr ⟨r.var, var_mem_levelsOf hr, ?_⟩
    refine List.mem_append_left _ (List.mem_append_right _ (List.mem_map.mpr ⟨r, ?_, rfl⟩))
    exact List.mem_filter.mpr ⟨hr, by simp only [beq_self_eq_true]⟩
  unfold dotLines
  exact List.mem_append_left _ (List.mem_append_left _ (List.mem_append_left _
    (List.mem_append_left _ (List.mem_append_right _ h))))

/-- **labels, soundness**: a line of the text that `readLabelLine` accepts is the label of a record
(in particular the header, the `0`/`1` squares, `{ rank=…`, `}`, the edge and the root lines are not
accepted) -/
theorem dot_labels_sound (recs : List DotRec) (roots : List Ref) (rks : List RootKind) {l : String}
    {id v : Nat} (hl : l ∈ dotLines recs roots rks) (h : readLabelLine l = some (id, v)) :
    ∃ r, r ∈ recs ∧ r.id = id ∧ r.var = v := by
  have hm : (id, v) ∈ (dotLines recs roots rks).filterMap readLabelLine :=
    List.mem_filterMap.mpr ⟨l, hl, h⟩
  rw [labels_dotLines] at hm
  obtain ⟨r, hr, e⟩ := mem_labelsOf.mp hm
  exact ⟨r, hr, (Prod.mk.inj e).1, (Prod.mk.inj e).2⟩

/-! ### the root lines -/

/-- **roots**: the root declarations give the root handles themselves back -/
theorem dot_roots_faithful (recs : List DotRec) (roots : List Ref) (rks : List RootKind) :
    ((dotLines recs roots rks).filterMap readRootDeclLine).map (·.2) = roots := by
  rw [rootDecls_dotLines, map_snd_enumFrom]

/-- **root kinds**: the root edges give the root kinds back (`.reg 0` as `.zero`) -/
theorem dot_rootKinds_faithful (recs : List DotRec) (roots : List Ref) (rks : List RootKind) :
    ((dotLines recs roots rks).filterMap readRootEdgeLine).map (·.2) = rks.map canonRoot := by
  rw [rootEdges_dotLines, List.map_map]
  exact map_enumFrom_map canonRoot rks 0

/-- the root lines carry the positions `0, 1, 2, …` -/
theorem map_fst_enumFrom {α : Type} (l : List α) : ∀ k, (enumFrom k l).map (·.1) = List.range' k l.length := by
  induction l with
  | nil => intro k; rfl
  | cons a l ih => intro k; simp only [enumFrom, List.map_cons, ih, List.length_cons, List.range'_succ]

/-! ### the left inverse -/

/-- what is read from a DOT text -/
structure DotRead where
  recs : List DotRec
  roots : List Ref
  rootKinds : List RootKind

/-- first binding of a key -/
def assoc (k : Nat) : List (Nat × Nat) → Option Nat
  | [] => none
  | p :: l => if p.1 = k then some p.2 else assoc k l

/-- scan the lines: `(id, var)` from the label lines, `(id, hi)` and `(id, low)` from the edge lines
(the `i`-th then-edge line and the `i`-th else-edge line make the `i`-th record, its variable is looked
up by id among the labels), the handles from the root declarations, the kinds from the root edges -/
def readDot (lines : List String) : DotRead :=
  let labels := lines.filterMap readLabelLine
  let his := lines.filterMap readHiLine
  let lows := lines.filterMap readLowLine
  { recs := (his.zip lows).map
      (fun p => { id := p.1.1, var := (assoc p.1.1 labels).getD 0, hi := p.1.2, low := p.2.2 }),
    roots := (lines.filterMap readRootDeclLine).map (·.2),
    rootKinds := (lines.filterMap readRootEdgeLine).map (·.2) }

/-- records with the same id carry the same variable (automatic for `toDot`: the variable is read from
the store at the id) -/
def FunVar (recs : List DotRec) : Prop :=
  ∀ r, r ∈ recs → ∀ r', r' ∈ recs → r.id = r'.id → r.var = r'.var

theorem assoc_eq_some {k v : Nat} : ∀ {l : List (Nat × Nat)}, (k, v) ∈ l →
    (∀ v', (k, v') ∈ l → v' = v) → assoc k l = some v := by
  intro l
  induction l with
  | nil => intro h; cases h
  | cons p l ih =>
    intro hm hu
    unfold assoc
    by_cases hk : p.1 = k
    · rw [if_pos hk]
      have : (k, p.2) ∈ p :: l := by rw [← hk]; exact List.mem_cons_self
      rw [hu p.2 this]
    · rw [if_neg hk]
      rcases List.mem_cons.mp hm with e | hm'
      · exact absurd (by rw [← e]) hk
      · exact ih hm' (fun v' h' => hu v' (List.mem_cons_of_mem _ h'))

theorem assoc_labelsOf {recs : List DotRec} (hf : FunVar recs) {r : DotRec} (hr : r ∈ recs) :
    assoc r.id (labelsOf recs) = some r.var := by
  apply assoc_eq_some (mem_labelsOf.mpr ⟨r, hr, rfl⟩)
  intro v' h'
  obtain ⟨r', hr', e⟩ := mem_labelsOf.mp h'
  rw [← (Prod.mk.inj e).2]
  exact hf r' hr' r hr (Prod.mk.inj e).1

/-- **summary (general form)**: `readDot` re-reads the text of any record list with `FunVar` -/
theorem readDot_dotLines (recs : List DotRec) (roots : List Ref) (rks : List RootKind) (hf : FunVar recs) :
    readDot (dotLines recs roots rks) =
      { recs := recs.map canonRec, roots := roots, rootKinds := rks.map canonRoot } := by
  unfold readDot
  simp only [labels_dotLines, his_dotLines, lows_dotLines, dot_roots_faithful, dot_rootKinds_faithful,
    List.zip_map', List.map_map]
  congr 1
  apply List.map_congr_left
  intro r hr
  simp only [Function.comp_apply, assoc_labelsOf hf hr, Option.getD_some, canonRec]

/-! ### `renderDotLines` and `toDot` -/

theorem funVar_toDot (s : St) (roots : List Ref) : FunVar (toDot s roots).1 := by
  have hv : ∀ r, r ∈ (toDot s roots).1 → r.var = s.var ⟨r.id, false⟩ := by
    intro r hr
    obtain ⟨i, _, rfl⟩ := List.mem_map.mp hr
    rfl
  intro r hr r' hr' e
  rw [hv r hr, hv r' hr', e]

/-- **summary**: `readDot` is a left inverse of the DOT renderer (up to `.reg 0 ↦ .zero`), on every
state and every root list -/
theorem readDot_render (s : St) (roots : List Ref) :
    readDot (renderDotLines s roots) =
      { recs := (toDot s roots).1.map canonRec, roots := roots,
        rootKinds := (toDot s roots).2.map canonRoot } := by
  rw [renderDotLines_eq]
  exact readDot_dotLines _ _ _ (funVar_toDot s roots)

/-- … exactly, when index `0` does not occur as a regular target -/
theorem readDot_render_of_noReg0 (s : St) (roots : List Ref) (hw : NoReg0 (toDot s roots).1)
    (hr : ∀ r, r ∈ roots → r.idx ≠ 0) :
    readDot (renderDotLines s roots) =
      { recs := (toDot s roots).1, roots := roots, rootKinds := (toDot s roots).2 } := by
  rw [readDot_render, map_canonRec hw]
  congr 1
  have : (toDot s roots).2.map canonRoot = (toDot s roots).2.map id := by
    apply List.map_congr_left
    intro k hk
    obtain ⟨r, hrm, rfl⟩ := List.mem_map.mp hk
    apply canonRoot_of_ne
    unfold dotRoot
    intro e
    by_cases hn : r.neg = true
    · rw [if_pos hn] at e
      by_cases h1 : r.idx = 1
      · rw [if_pos h1] at e; cases e
      · rw [if_neg h1] at e; cases e
    · rw [if_neg hn] at e
      exact hr r hrm (RootKind.reg.inj e)
  rw [this, List.map_id]

/-- the text determines the root handles -/
theorem dotText_roots {s s' : St} {roots roots' : List Ref}
    (h : renderDotLines s roots = renderDotLines s' roots') : roots = roots' := by
  have h1 := readDot_render s roots
  rw [h, readDot_render s' roots'] at h1
  exact (congrArg DotRead.roots h1).symm

/-- the text determines the structured value up to `.reg 0 ↦ .zero` in the records, on every state -/
theorem dotText_determines_canon {s s' : St} {roots roots' : List Ref}
    (h : renderDotLines s roots = renderDotLines s' roots') :
    (toDot s roots).1.map canonRec = (toDot s' roots').1.map canonRec ∧
      (toDot s roots).2 = (toDot s' roots').2 := by
  have h1 := readDot_render s roots
  rw [h, readDot_render s' roots'] at h1
  refine ⟨(congrArg DotRead.recs h1).symm, ?_⟩
  show roots.map dotRoot = roots'.map dotRoot
  rw [dotText_roots h]

/-- **the text determines the structured value** -/
theorem dotText_determines {s s' : St} {roots roots' : List Ref}
    (h : renderDotLines s roots = renderDotLines s' roots')
    (hw : NoReg0 (toDot s roots).1) (hw' : NoReg0 (toDot s' roots').1) :
    toDot s roots = toDot s' roots' := by
  obtain ⟨h1, h2⟩ := dotText_determines_canon h
  rw [map_canonRec hw, map_canonRec hw'] at h1
  exact Prod.ext h1 h2

/-! ### real diagrams: index `0` does not occur -/

theorem Live.ne_zero {s : St} {i : Nat} (h : Live s i) : i ≠ 0 := by
  rcases h with e | ⟨n, hn⟩
  · omega
  · have := (St.nodes_some hn).1; omega

theorem noReg0_of_good {s : St} (hg : Good s) (roots : List Ref)
    (hlive : ∀ r, r ∈ roots → Live s r.idx) : NoReg0 (toDot s roots).1 := by
  intro r hr
  obtain ⟨i, hi, rfl⟩ := List.mem_map.mp hr
  obtain ⟨hd, h1⟩ := List.mem_filter.mp hi
  have hli : Live s i := (descendants_closed hg roots hlive).2.2.1 i hd
  have h1' : i ≠ 1 := by simpa using h1
  have hlow := (hli.children hg h1').1.ne_zero
  intro e
  simp only [dotNode] at e
  by_cases hn : (s.low i).neg = true
  · rw [if_pos hn] at e
    by_cases h2 : (s.low i).idx = 1
    · rw [if_pos h2] at e; cases e
    · rw [if_neg h2] at e; cases e
  · rw [if_neg hn] at e
    exact hlow (LowKind.reg.inj e)

/-- **summary for real diagrams**: on a good state with live roots `readDot` re-reads exactly the
structured value (and the root handles) from the exported text -/
theorem readDot_render_good {s : St} (hg : Good s) (roots : List Ref)
    (hlive : ∀ r, r ∈ roots → Live s r.idx) :
    readDot (renderDotLines s roots) =
      { recs := (toDot s roots).1, roots := roots, rootKinds := (toDot s roots).2 } :=
  readDot_render_of_noReg0 s roots (noReg0_of_good hg roots hlive) (fun r hr => (hlive r hr).ne_zero)

/-- two real diagrams with the same text have the same structured value and the same roots -/
theorem dotText_determines_good {s s' : St} (hg : Good s) (hg' : Good s') {roots roots' : List Ref}
    (hlive : ∀ r, r ∈ roots → Live s r.idx) (hlive' : ∀ r, r ∈ roots' → Live s' r.idx)
    (h : renderDotLines s roots = renderDotLines s' roots') :
    toDot s roots = toDot s' roots' ∧ roots = roots' :=
  ⟨dotText_determines h (noReg0_of_good hg roots hlive) (noReg0_of_good hg' roots' hlive'),
    dotText_roots h⟩

/-- the per-section theorems, stated for the model's text -/
theorem render_edges_faithful (s : St) (roots : List Ref) :
    readEdgePairs (edgeLines (toDot s roots).1) =
      some ((toDot s roots).1.map (fun r => (r.id, r.hi, canonLow r.low))) ∧
    (renderDotLines s roots).filterMap readHiLine = (toDot s roots).1.map (fun r => (r.id, r.hi)) ∧
    (renderDotLines s roots).filterMap readLowLine =
      (toDot s roots).1.map (fun r => (r.id, canonLow r.low)) :=
  ⟨dot_edges_faithful _, his_dotLines _ _ _, lows_dotLines _ _ _⟩

theorem render_labels_faithful (s : St) (roots : List Ref) :
    (∀ r, r ∈ (toDot s roots).1 →
      toString r.id ++ " [label=<x<SUB>" ++ toString r.var ++ "</SUB>>];" ∈ renderDotLines s roots ∧
      readLabelLine (toString r.id ++ " [label=<x<SUB>" ++ toString r.var ++ "</SUB>>];") = some (r.id, r.var)) ∧
    (∀ l id v, l ∈ renderDotLines s roots → readLabelLine l = some (id, v) →
      ∃ r, r ∈ (toDot s roots).1 ∧ r.id = id ∧ r.var = v) :=
  ⟨fun _ hr => dot_labels_complete _ roots _ hr, fun _ _ _ hl h => dot_labels_sound _ roots _ hl h⟩

theorem render_roots_faithful (s : St) (roots : List Ref) :
    (renderDotLines s roots).filterMap readRootDeclLine = enumFrom 0 roots ∧
    ((renderDotLines s roots).filterMap readRootDeclLine).map (·.2) = roots ∧
    ((renderDotLines s roots).filterMap readRootEdgeLine).map (·.2) = (toDot s roots).2.map canonRoot :=
  ⟨rootDecls_dotLines _ _ _, dot_roots_faithful _ _ _, dot_rootKinds_faithful _ _ _⟩

end P

#print axioms P.readLabelLine_text
#print axioms P.readHiLine_text
#print axioms P.readLowLine_lowLine
#print axioms P.readRootDeclLine_text
#print axioms P.readRootEdgeLine_rootEdgeLine
#print axioms P.readers_exclusive
#print axioms P.dot_edges_faithful
#print axioms P.dot_labels_complete
#print axioms P.dot_labels_sound
#print axioms P.dot_roots_faithful
#print axioms P.dot_rootKinds_faithful
#print axioms P.readDot_render
#print axioms P.dotText_roots
#print axioms P.dotText_determines_canon
#print axioms P.dotText_determines
#print axioms P.readDot_render_good
#print axioms P.dotText_determines_good
#print axioms P.render_edges_faithful
#print axioms P.render_labels_faithful
#print axioms P.render_roots_faithful

import BddProofs.Constrain
import BddProofs.Paths
import BddProofs.ConstrainCor
/-! Justification of the test oracle for C10 (`constrain`): the GREEDY WALK over the stored diagram
of the care set `g` computes THE closest point of `g` to `x` (`Closest φg x y`), hence
"evaluate `f` at the walk's point" is exactly the value `constrain(f, g)` must have at `x`.

The walk (Rust oracle, outside Lean): start at `g`'s root with the point `x`; at a node testing `v`
(the complement bit of the incoming edge pushed onto the children) let `pref` be the child on the side
`x v`; if `pref` is the constant-false handle go to the other child and flip `v` in the point,
otherwise go to `pref`; stop at the terminal.  Variables not met keep `x`'s values. -/
namespace P

/-- child of a stored node on side `b` (`true` = then/high), seen through an edge with complement
bit `neg` — the node-map counterpart of `St.lowNode` / `St.highNode` -/
def sChild (n : Node) (neg b : Bool) : Ref :=
  if neg then (if b then n.high else n.low).not else (if b then n.high else n.low)

/-- the oracle's greedy walk, returning the final point.  `none`: constant-false handle,
dangling handle, or out of fuel. -/
def closestWalk (nd : Nodes) : Nat → Ref → Env → Option Env
  | 0, _, _ => none
  | fuel + 1, r, x =>
    if isZero r = true then none
    else if isOne r = true then some x
    else match nd r.idx with
      | none => none
      | some n =>
        if isZero (sChild n r.neg (x n.var)) = true then
          (closestWalk nd fuel (sChild n r.neg (!x n.var)) x).map (fun y => upd y n.var (!x n.var))
        else closestWalk nd fuel (sChild n r.neg (x n.var)) x

/-- the same walk, returning the list of flipped variables (in the order met) -/
def closestFlips (nd : Nodes) : Nat → Ref → Env → Option (List Nat)
  | 0, _, _ => none
  | fuel + 1, r, x =>
    if isZero r = true then none
    else if isOne r = true then some []
    else match nd r.idx with
      | none => none
      | some n =>
        if isZero (sChild n r.neg (x n.var)) = true then
          (closestFlips nd fuel (sChild n r.neg (!x n.var)) x).map (fun l => n.var :: l)
        else closestFlips nd fuel (sChild n r.neg (x n.var)) x

/-- `x` with the variables of `l` flipped -/
def flipAll (x : Env) (l : List Nat) : Env := fun w => if w ∈ l then !x w else x w

/-! ### a handle's children denote its cofactors -/

theorem terminal_of_idx1 {r : Ref} (h : r.idx = 1) : isZero r = true ∨ isOne r = true := by
  rcases r with ⟨i, b⟩
  simp at h; subst h
  cases b <;> simp [isOne, isZero, Ref.one, Ref.zero]

theorem cof_node_false {φ0 φ1 : Fn} {v : Nat} (s0 : SuppGe φ0 (v + 1)) :
    cof (fun e => if e v then φ1 e else φ0 e) v false = φ0 := by
  funext e
  simp only [cof, upd_same]
  exact (s0 _ _ (upd_agree' e v false _ (Nat.lt_succ_self _))).symm

theorem cof_node_true {φ0 φ1 : Fn} {v : Nat} (s1 : SuppGe φ1 (v + 1)) :
    cof (fun e => if e v then φ1 e else φ0 e) v true = φ1 := by
  funext e
  simp only [cof, upd_same]
  exact (s1 _ _ (upd_agree' e v true _ (Nat.lt_succ_self _))).symm

/-- a non-terminal handle is stored, its function ignores the variables above its node's, and
its signed child on side `b` denotes the cofactor `cof φ v b` at a smaller depth -/
theorem Den.child {nd : Nodes} (hI : NInv nd) {d r φ} (h : Den nd d r φ) (hnt : r.idx ≠ 1) :
    ∃ n, nd r.idx = some n ∧ SuppGe φ n.var ∧
      ∀ b, ∃ d', d' < d ∧ Den nd d' (sChild n r.neg b) (cof φ n.var b) := by
  rcases r with ⟨i, c⟩
  have key : ∀ ψ, Den nd d ⟨i, false⟩ ψ → ∃ n, nd i = some n ∧ SuppGe ψ n.var ∧
      ∀ b : Bool, ∃ d', d' < d ∧ Den nd d' (if b then n.high else n.low) (cof ψ n.var b) := by
    intro ψ hψ
    rcases hψ.regInv with ⟨e1, -, -⟩ | ⟨n, d0, d1, φ0, φ1, hn, h0, h1', hd, hφ⟩
    · exact absurd e1 hnt
    · have s0 := h0.supp hI _ (hI.ordLow _ _ hn)
      have s1 := h1'.supp hI _ (hI.ordHigh _ _ hn)
      subst hφ
      refine ⟨n, hn, suppGe_node (Nat.le_refl _) (s0.le' (Nat.le_succ _)) (s1.le' (Nat.le_succ _)), ?_⟩
      intro b
      cases b with
      | false =>
        refine ⟨d0, by omega, ?_⟩
        rw [cof_node_false s0]; exact h0
      | true =>
        refine ⟨d1, by omega, ?_⟩
        rw [cof_node_true s1]; exact h1'
  cases c with
  | false =>
    obtain ⟨n, hn, hs, hb⟩ := key φ h
    exact ⟨n, hn, hs, fun b => by simpa [sChild] using hb b⟩
  | true =>
    obtain ⟨ψ, hψ, rfl⟩ := h.negInv
    obtain ⟨n, hn, hs, hb⟩ := key ψ hψ
    refine ⟨n, hn, hs.not, fun b => ?_⟩
    obtain ⟨d', hd', hden⟩ := hb b
    refine ⟨d', hd', ?_⟩
    have this : Den nd d' (if b then n.high else n.low).not (cof (fun e => !ψ e) n.var b) := hden.notDepth
    simpa [sChild] using this

/-- canonicity: only the handle `Ref.zero` denotes the constant false -/
theorem den_ne_false {nd : Nodes} (hI : NInv nd) {d r φ} (h : Den nd d r φ) (hnz : isZero r = false) :
    φ ≠ fun _ => false := by
  intro e; subst e
  obtain ⟨d', hd'⟩ := (Valid.zero (nd := nd))
  have := canonicity hI h hd'
  simp [isZero, this] at hnz

/-- if one cofactor is empty and the function is not, the other cofactor is not empty -/
theorem cof_other_ne_false {φ : Fn} {v : Nat} {b : Bool} (hne : φ ≠ fun _ => false)
    (hempty : cof φ v b = fun _ => false) : cof φ v (!b) ≠ fun _ => false := by
  intro h'
  apply hne
  rw [shannon φ v]
  funext e
  cases b <;> cases he : e v <;> simp_all

/-! ### one step of the walk -/

/-- STEP, preferred side non-empty: the closest point of the `x v` cofactor is the closest point -/
theorem closest_step_pref {nd : Nodes} (hI : NInv nd) {d r φ n} {x y : Env} (h : Den nd d r φ)
    (hnt : r.idx ≠ 1) (hn : nd r.idx = some n)
    (hy : Closest (cof φ n.var (x n.var)) x y) : Closest φ x y := by
  obtain ⟨n', hn', hs, -⟩ := h.child hI hnt
  rw [hn] at hn'; cases hn'
  exact closest_of_half hs hy

/-- STEP, preferred side empty (its handle is `Ref.zero`): the closest point is the closest point
of the other cofactor with `v` flipped -/
theorem closest_step_other {nd : Nodes} (hI : NInv nd) {d r φ n} {x y : Env} (h : Den nd d r φ)
    (hnt : r.idx ≠ 1) (hn : nd r.idx = some n) (hz : isZero (sChild n r.neg (x n.var)) = true)
    (hy : Closest (cof φ n.var (!x n.var)) x y) : Closest φ x (upd y n.var (!x n.var)) := by
  obtain ⟨n', hn', hs, hb⟩ := h.child hI hnt
  rw [hn] at hn'; cases hn'
  obtain ⟨d', -, hden⟩ := hb (x n.var)
  exact closest_of_other_half hs (zero_fn hI.noterm hz ⟨d', hden⟩) hy

/-! ### the walk computes the closest point -/

theorem closestWalk_spec {nd : Nodes} (hI : NInv nd) : ∀ (fuel d : Nat) (g : Ref) (φg : Fn) (x : Env),
    Den nd d g φg → (φg ≠ fun _ => false) → d < fuel →
    ∃ y, closestWalk nd fuel g x = some y ∧ Closest φg x y := by
  intro fuel
  induction fuel with
  | zero => intro d g φg x _ _ hd; omega
  | succ fuel ih =>
    intro d g φg x hden hne hd
    have h1 := hI.noterm
    have vg : Valid nd g φg := ⟨d, hden⟩
    unfold closestWalk
    by_cases cz : isZero g = true
    · exact absurd (zero_fn h1 cz vg) hne
    rw [if_neg cz]
    by_cases co : isOne g = true
    · rw [if_pos co]
      have := one_fn h1 co vg; subst this
      exact ⟨x, rfl, rfl, fun _ _ _ _ => rfl⟩
    rw [if_neg co]
    have hnt : g.idx ≠ 1 := fun e => by
      rcases terminal_of_idx1 e with t | t
      · exact cz t
      · exact co t
    obtain ⟨n, hn, hs, hb⟩ := hden.child hI hnt
    simp only [hn]
    by_cases cp : isZero (sChild n g.neg (x n.var)) = true
    · rw [if_pos cp]
      obtain ⟨dp, -, hdenp⟩ := hb (x n.var)
      have hempty := zero_fn h1 cp ⟨dp, hdenp⟩
      obtain ⟨d', hd', hden'⟩ := hb (!x n.var)
      obtain ⟨y, hy, hc⟩ := ih d' _ _ x hden' (cof_other_ne_false hne hempty) (by omega)
      exact ⟨_, by rw [hy]; rfl, closest_of_other_half hs hempty hc⟩
    · rw [if_neg cp]
      obtain ⟨d', hd', hden'⟩ := hb (x n.var)
      obtain ⟨y, hy, hc⟩ := ih d' _ _ x hden' (den_ne_false hI hden' (by simpa using cp)) (by omega)
      exact ⟨y, hy, closest_of_half hs hc⟩

/-- more fuel does not change an answer -/
theorem closestWalk_mono {nd : Nodes} : ∀ (fuel k : Nat) (g : Ref) (x y : Env),
    closestWalk nd fuel g x = some y → closestWalk nd (fuel + k) g x = some y := by
  intro fuel
  induction fuel with
  | zero => intro k g x y h; simp [closestWalk] at h
  | succ fuel ih =>
    intro k g x y h
    rw [show fuel + 1 + k = (fuel + k) + 1 by omega]
    unfold closestWalk at h ⊢
    by_cases cz : isZero g = true
    · rw [if_pos cz] at h; cases h
    rw [if_neg cz] at h ⊢
    by_cases co : isOne g = true
    · rw [if_pos co] at h ⊢; exact h
    rw [if_neg co] at h ⊢
    cases hn : nd g.idx with
    | none => simp only [hn] at h; cases h
    | some n =>
      simp only [hn] at h ⊢
      by_cases cp : isZero (sChild n g.neg (x n.var)) = true
      · rw [if_pos cp] at h ⊢
        cases hw : closestWalk nd fuel (sChild n g.neg (!x n.var)) x with
        | none => rw [hw] at h; cases h
        | some y' => rw [hw] at h; rw [ih k _ _ _ hw]; exact h
      · rw [if_neg cp] at h ⊢
        exact ih k _ _ _ h

/-- SOUNDNESS for every fuel: whenever the walk over a valid handle returns, it returns THE
closest point (in particular the care set is not empty) -/
theorem closestWalk_sound {nd : Nodes} (hI : NInv nd) {fuel : Nat} {g : Ref} {φg : Fn} {x y : Env}
    (vg : Valid nd g φg) (hw : closestWalk nd fuel g x = some y) : Closest φg x y := by
  obtain ⟨d, hden⟩ := vg
  have hnz : isZero g = false := by
    cases fuel with
    | zero => simp [closestWalk] at hw
    | succ fuel =>
      unfold closestWalk at hw
      by_cases cz : isZero g = true
      · rw [if_pos cz] at hw; cases hw
      · simpa using cz
  obtain ⟨y', hy', hc⟩ := closestWalk_spec hI (fuel + (d + 1)) d g φg x hden (den_ne_false hI hden hnz) (by omega)
  rw [closestWalk_mono fuel (d + 1) g x y hw] at hy'
  cases hy'; exact hc

/-- TOTALITY: on a valid handle of a satisfiable care set the walk returns, for all large enough fuel -/
theorem closestWalk_total {nd : Nodes} (hI : NInv nd) {g : Ref} {φg : Fn} (vg : Valid nd g φg)
    (hne : φg ≠ fun _ => false) (x : Env) :
    ∃ fuel0 y, Closest φg x y ∧ ∀ fuel, fuel0 ≤ fuel → closestWalk nd fuel g x = some y := by
  obtain ⟨d, hden⟩ := vg
  obtain ⟨y, hy, hc⟩ := closestWalk_spec hI (d + 1) d g φg x hden hne (by omega)
  refine ⟨d + 1, y, hc, fun fuel hf => ?_⟩
  have := closestWalk_mono (d + 1) (fuel - (d + 1)) g x y hy
  rwa [show d + 1 + (fuel - (d + 1)) = fuel by omega] at this

/-- the walk refuses exactly the constant-false handle (given enough fuel) -/
theorem closestWalk_zero (nd : Nodes) (fuel : Nat) (x : Env) : closestWalk nd fuel Ref.zero x = none := by
  cases fuel <;> simp [closestWalk, isZero]

/-! ### the list-of-flips form -/

theorem flipAll_nil (x : Env) : flipAll x [] = x := by
  funext w; simp [flipAll]

/-- the point is `x` with the reported variables flipped (holds for the raw definitions: no
invariant, no validity needed) -/
theorem closestWalk_eq_flips {nd : Nodes} : ∀ (fuel : Nat) (g : Ref) (x : Env),
    closestWalk nd fuel g x = (closestFlips nd fuel g x).map (fun l => flipAll x l) := by
  intro fuel
  induction fuel with
  | zero => intro g x; simp [closestWalk, closestFlips]
  | succ fuel ih =>
    intro g x
    unfold closestWalk closestFlips
    by_cases cz : isZero g = true
    · rw [if_pos cz, if_pos cz]; rfl
    rw [if_neg cz, if_neg cz]
    by_cases co : isOne g = true
    · rw [if_pos co, if_pos co]; simp [flipAll_nil]
    rw [if_neg co, if_neg co]
    cases hn : nd g.idx with
    | none => rfl
    | some n =>
      simp only
      by_cases cp : isZero (sChild n g.neg (x n.var)) = true
      · rw [if_pos cp, if_pos cp, ih]
        cases closestFlips nd fuel (sChild n g.neg (!x n.var)) x with
        | none => rfl
        | some l =>
          simp only [Option.map_some, Option.some.injEq]
          funext w
          by_cases hw : w = n.var
          · subst hw; simp [flipAll]
          · simp [flipAll, upd_other _ _ _ _ hw, hw]
      · rw [if_neg cp, if_neg cp, ih]

/-- the oracle literally as a loop with a mutable point `y` (initially `x`): the side is chosen by
`x`, a flip writes `!x v` into `y` -/
def closestLoop (nd : Nodes) : Nat → Ref → Env → Env → Option Env
  | 0, _, _, _ => none
  | fuel + 1, r, x, y =>
    if isZero r = true then none
    else if isOne r = true then some y
    else match nd r.idx with
      | none => none
      | some n =>
        if isZero (sChild n r.neg (x n.var)) = true then
          closestLoop nd fuel (sChild n r.neg (!x n.var)) x (upd y n.var (!x n.var))
        else closestLoop nd fuel (sChild n r.neg (x n.var)) x y

theorem closestLoop_eq_flips {nd : Nodes} : ∀ (fuel : Nat) (g : Ref) (x y : Env),
    closestLoop nd fuel g x y =
      (closestFlips nd fuel g x).map (fun l => fun w => if w ∈ l then !x w else y w) := by
  intro fuel
  induction fuel with
  | zero => intro g x y; simp [closestLoop, closestFlips]
  | succ fuel ih =>
    intro g x y
    unfold closestLoop closestFlips
    by_cases cz : isZero g = true
    · rw [if_pos cz, if_pos cz]; rfl
    rw [if_neg cz, if_neg cz]
    by_cases co : isOne g = true
    · rw [if_pos co, if_pos co]; simp
    rw [if_neg co, if_neg co]
    cases hn : nd g.idx with
    | none => rfl
    | some n =>
      simp only
      by_cases cp : isZero (sChild n g.neg (x n.var)) = true
      · rw [if_pos cp, if_pos cp, ih]
        cases closestFlips nd fuel (sChild n g.neg (!x n.var)) x with
        | none => rfl
        | some l =>
          simp only [Option.map_some, Option.some.injEq]
          funext w
          by_cases hw : w = n.var
          · subst hw; simp
          · simp [upd_other _ _ _ _ hw, hw]
      · rw [if_neg cp, if_neg cp, ih]

/-- the loop started with `y := x` is the walk -/
theorem closestLoop_eq_walk {nd : Nodes} (fuel : Nat) (g : Ref) (x : Env) :
    closestLoop nd fuel g x x = closestWalk nd fuel g x := by
  rw [closestLoop_eq_flips, closestWalk_eq_flips]; rfl

/-- the definitions run: a concrete store with node 2 = `x2` and node 3 = `x1 ↔ x2` -/
def ndEx : Nodes := fun i =>
  if i = 2 then some ⟨2, Ref.zero, Ref.one⟩          -- x2
  else if i = 3 then some ⟨1, ⟨2, true⟩, ⟨2, false⟩⟩  -- if x1 then x2 else ¬x2
  else none

example : closestFlips ndEx 5 ⟨2, false⟩ (fun _ => false) = some [2] := by decide
example : closestFlips ndEx 5 ⟨2, true⟩ (fun _ => false) = some [] := by decide
example : closestFlips ndEx 5 ⟨3, false⟩ (fun _ => false) = some [] := by decide
example : closestFlips ndEx 5 ⟨3, true⟩ (fun _ => false) = some [2] := by decide
example : closestFlips ndEx 5 ⟨3, true⟩ (fun w => decide (w = 1)) = some [] := by decide
example : closestFlips ndEx 5 Ref.zero (fun _ => false) = none := by decide

/-! ### the oracle for `constrain` -/

/-- with C10's conclusion about the result `hfn` of `constrain(f, g)`: its value at `x` is `f`
evaluated at the walk's point -/
theorem constrain_pointwise {nd : Nodes} (hI : NInv nd) {fuel : Nat} {g : Ref} {φf φg hfn : Fn} {x y : Env}
    (vg : Valid nd g φg) (hspec : ∀ x y, Closest φg x y → hfn x = φf y)
    (hw : closestWalk nd fuel g x = some y) : hfn x = φf y :=
  hspec x y (closestWalk_sound hI vg hw)

/-- … and the walk does return when the care set is satisfiable and the fuel exceeds the depth -/
theorem constrain_pointwise_ex {nd : Nodes} (hI : NInv nd) {fuel d : Nat} {g : Ref} {φf φg hfn : Fn}
    (hden : Den nd d g φg) (hne : φg ≠ fun _ => false) (hfuel : d < fuel)
    (hspec : ∀ x y, Closest φg x y → hfn x = φf y) (x : Env) :
    ∃ y, closestWalk nd fuel g x = some y ∧ hfn x = φf y := by
  obtain ⟨y, hy, hc⟩ := closestWalk_spec hI fuel d g φg x hden hne hfuel
  exact ⟨y, hy, hspec x y hc⟩

/-- end to end on the real model: run `constrain` in a good state, walk `g`'s diagram (in the state
before or after — here after) from `x`; the function of the result handle at `x` equals `φf` at
the walk's point -/
theorem constrain_walk {fuel k : Nat} {s s' : St} {f g r : Ref} {φf φg : Fn} {x y : Env}
    (hg : Good s) (vf : Valid s.nodes f φf) (vg : Valid s.nodes g φg)
    (h : constrain fuel s f g = .ok (s', r))
    (hw : closestWalk s'.nodes k g x = some y) :
    ∃ hfn, Valid s'.nodes r hfn ∧ hfn x = φf y := by
  obtain ⟨hg', sub, hfn, vr, hspec, _⟩ := constrain_spec fuel s f g φf φg s' r hg vf vg h
  exact ⟨hfn, vr, constrain_pointwise hg'.inv (vg.mono sub) hspec hw⟩

/-- the same with the walk taken in the state before the call -/
theorem constrain_walk_pre {fuel k : Nat} {s s' : St} {f g r : Ref} {φf φg : Fn} {x y : Env}
    (hg : Good s) (vf : Valid s.nodes f φf) (vg : Valid s.nodes g φg)
    (h : constrain fuel s f g = .ok (s', r))
    (hw : closestWalk s.nodes k g x = some y) :
    ∃ hfn, Valid s'.nodes r hfn ∧ hfn x = φf y := by
  obtain ⟨_, _, hfn, vr, hspec, _⟩ := constrain_spec fuel s f g φf φg s' r hg vf vg h
  exact ⟨hfn, vr, constrain_pointwise hg.inv vg hspec hw⟩

end P
#print axioms P.Den.child
#print axioms P.closest_step_pref
#print axioms P.closest_step_other
#print axioms P.closestWalk_spec
#print axioms P.closestWalk_mono
#print axioms P.closestWalk_sound
#print axioms P.closestWalk_total
#print axioms P.closestWalk_eq_flips
#print axioms P.closestLoop_eq_walk
#print axioms P.constrain_pointwise
#print axioms P.constrain_pointwise_ex
#print axioms P.constrain_walk
#print axioms P.constrain_walk_pre

import BddProofs.Compose
import BddProofs.Count
/-! C08: `substitute` fixes one variable and nothing else. -/
namespace P
open Arr

/-- the accessors of a stored node read the same handle in any later store -/
theorem St.highNode_mono {s s1 : St} {f : Ref} {n} (hn : s.nodes f.idx = some n) (hs : Sub s.nodes s1.nodes) :
    s1.highNode f = s.highNode f := by
  unfold St.highNode; rw [St.high_of hn, St.high_of (hs _ _ hn)]

theorem St.lowNode_mono {s s1 : St} {f : Ref} {n} (hn : s.nodes f.idx = some n) (hs : Sub s.nodes s1.nodes) :
    s1.lowNode f = s.lowNode f := by
  unfold St.lowNode; rw [St.low_of hn, St.low_of (hs _ _ hn)]

def SMemoOk (nd : Nodes) (v : Nat) (b : Bool) (memo : SMemo) : Prop :=
  ∀ f r, memo.lookup f = some r → ∃ φ, Valid nd f φ ∧ Valid nd r (cof φ v b)

theorem SMemoOk.mono {nd nd' v b memo} (hs : Sub nd nd') (h : SMemoOk nd v b memo) : SMemoOk nd' v b memo := by
  intro f r hl; obtain ⟨φ, x, y⟩ := h f r hl; exact ⟨φ, x.mono hs, y.mono hs⟩

theorem SMemoOk.cons {nd v b memo f r φ} (h : SMemoOk nd v b memo) (vf : Valid nd f φ) (vr : Valid nd r (cof φ v b)) :
    SMemoOk nd v b ((f, r) :: memo) := by
  intro f' r' hl
  simp only [List.lookup] at hl
  by_cases hk : f' = f
  · subst hk; simp at hl; subst hl; exact ⟨φ, vf, vr⟩
  · have : (f' == f) = false := by simpa using hk
    simp only [this] at hl; exact h f' r' hl

theorem cof_comm (φ : Fn) {v w : Nat} (hne : v ≠ w) (b c : Bool) : cof (cof φ w c) v b = cof (cof φ v b) w c := by
  funext e; simp only [cof]; congr 1
  funext x
  by_cases h1 : x = v
  · subst h1; rw [upd_other _ _ _ _ hne, upd_same, upd_same]
  · by_cases h2 : x = w
    · subst h2; rw [upd_same, upd_other _ _ _ _ h1, upd_same]
    · rw [upd_other _ _ _ _ h2, upd_other _ _ _ _ h1, upd_other _ _ _ _ h1, upd_other _ _ _ _ h2]

theorem substitute_spec (v : Nat) (b : Bool) : ∀ fuel s f φ memo s' r memo', Good s →
    Valid s.nodes f φ → SMemoOk s.nodes v b memo →
    substitute fuel s f v b memo = .ok (s', r, memo') →
    Good s' ∧ Sub s.nodes s'.nodes ∧ Valid s'.nodes r (cof φ v b) ∧ SMemoOk s'.nodes v b memo' := by
  intro fuel
  induction fuel with
  | zero => intro s f φ memo s' r memo' _ _ _ hres; simp [substitute] at hres
  | succ fuel ih =>
    intro s f φ memo s' r memo' hg vf hm hres
    have h1 := hg.inv.noterm
    have triv : ∀ {x}, Valid s.nodes x (cof φ v b) →
        (.ok (s, x, memo) : Res (St × Ref × SMemo)) = .ok (s', r, memo') →
        Good s' ∧ Sub s.nodes s'.nodes ∧ Valid s'.nodes r (cof φ v b) ∧ SMemoOk s'.nodes v b memo' := by
      intro x vx heq
      simp only [Except.ok.injEq, Prod.mk.injEq] at heq
      obtain ⟨rfl, rfl, rfl⟩ := heq
      exact ⟨hg, fun _ _ x => x, vx, hm⟩
    unfold substitute at hres
    by_cases hv0 : v = 0
    · rw [if_pos hv0] at hres; cases hres
    rw [if_neg hv0] at hres
    by_cases ct : isTerminal f = true
    · rw [if_pos ct] at hres
      refine triv ?_ hres
      have : SuppGe φ (v + 1) := by
        simp only [isTerminal, Bool.or_eq_true] at ct
        rcases ct with c | c
        · rw [one_fn h1 c vf]; exact SuppGe.const _ _
        · rw [zero_fn h1 c vf]; exact SuppGe.const _ _
      rw [cof_of_supp this]; exact vf
    rw [if_neg ct] at hres
    have hfnt : isTerminal f = false := by simpa using ct
    by_cases hlt : v < s.var f
    · rw [if_pos hlt] at hres
      refine triv ?_ hres
      have : SuppGe φ (v + 1) := supp_of_var hg vf (fun _ => by omega)
      rw [cof_of_supp this]; exact vf
    rw [if_neg hlt] at hres
    obtain ⟨d, hden⟩ := vf
    obtain ⟨hvar0, d0, d1, φ0, φ1, _, _, vlo, vhi, hφ, s0, s1⟩ := hden.split hg hfnt
    by_cases hvi : v = s.var f
    · rw [if_pos hvi] at hres
      -- at the node itself: the chosen accessor
      have c0 : cof φ v false = φ0 := by
        rw [hφ, hvi]; exact (cof_node_eq s0 s1).1
      have c1 : cof φ v true = φ1 := by
        rw [hφ, hvi]; exact (cof_node_eq s0 s1).2
      cases b with
      | false => simp only [Bool.false_eq_true, ↓reduceIte] at hres; exact triv (c0 ▸ ⟨_, vlo⟩) hres
      | true => simp only [↓reduceIte] at hres; exact triv (c1 ▸ ⟨_, vhi⟩) hres
    rw [if_neg hvi] at hres
    have vf : Valid s.nodes f φ := ⟨d, hden⟩
    cases hl : memo.lookup f with
    | some res =>
      simp only [hl] at hres
      obtain ⟨ψ, vψ, vr⟩ := hm f res hl
      have := vf.det h1 vψ; subst this
      exact triv vr hres
    | none =>
    simp only [hl] at hres
    cases e1 : substitute fuel s (s.lowNode f) v b memo with
    | error e => simp [e1] at hres
    | ok p1 =>
    obtain ⟨s1', low, memo1⟩ := p1
    simp only [e1] at hres
    obtain ⟨g1', sub1, vlow, hm1⟩ := ih _ _ _ _ _ _ _ hg ⟨_, vlo⟩ hm e1
    obtain ⟨nf, hnf, -, -⟩ := nonterm_stored hg vf hfnt
    rw [St.highNode_mono hnf sub1] at hres
    cases e2 : substitute fuel s1' (s.highNode f) v b memo1 with
    | error e => simp [e2] at hres
    | ok p2 =>
    obtain ⟨s2, high, memo2⟩ := p2
    simp only [e2] at hres
    obtain ⟨g2', sub2, vhigh, hm2⟩ := ih _ _ _ _ _ _ _ g1' (Valid.mono sub1 ⟨_, vhi⟩) hm1 e2
    cases e3 : mkNode s2 (s.var f) low high with
    | error e => simp [e3] at hres
    | ok p3 =>
    obtain ⟨s3, res⟩ := p3
    simp only [e3, Except.ok.injEq, Prod.mk.injEq] at hres
    obtain ⟨rfl, rfl, rfl⟩ := hres
    obtain ⟨g3', sub3, _, vres⟩ := mkNode_spec g2' (vlow.mono sub2) vhigh (suppGe_cof s0) (suppGe_cof s1) e3
    have sub03 : Sub s.nodes s3.nodes := fun i n x => sub3 _ _ (sub2 _ _ (sub1 _ _ x))
    have hne : v ≠ s.var f := hvi
    have hfun : (fun e => if e (s.var f) = true then cof φ1 v b e else cof φ0 v b e) = cof φ v b := by
      rw [hφ]; exact (cof_node_ne b hne).symm
    rw [hfun] at vres
    exact ⟨g3', sub03, vres, (hm2.mono sub3).cons (vf.mono sub03) vres⟩

#print axioms substitute_spec
end P

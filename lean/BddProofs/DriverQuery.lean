import BddModel.DriverQuery
import BddProofs.DriverGood
import BddProofs.SubstCor
import BddProofs.CountStrong
import BddProofs.TotalQuery
import BddProofs.PathsIter
import BddProofs.Dot
/-! The state-free queries through the checked dispatcher `execQuery`: an accepted query returns what
C08 / C13 / C14 / C16 specify for the functions its handles denote — liveness of the handles is discharged
from the run-time check `Query.ok`, as for the requests (`DriverGood.lean`, `DriverSem.lean`). -/
namespace P
open Arr

/-- `sat_count` through the dispatcher: whenever it returns, it returns the number of satisfying
assignments over `n` variables of the function the handle denotes (for `n` covering its support) -/
theorem execQuery_satcount {fuel : Nat} {s : St} {f : Ref} {n c : Nat} (hg : Good s)
    (hx : execQuery fuel s (.satcount f n) = .count (.ok c)) :
    ∃ φ, Valid s.nodes f φ ∧ (SuppLt φ (n + 1) → c = count φ n) := by
  unfold execQuery at hx
  by_cases hok : (Query.satcount f n).ok s = true
  · rw [if_pos hok] at hx
    have e : satCount fuel s f n = .ok c := by simpa [runQuery] using hx
    obtain ⟨φ, v⟩ := hg.valid_of_liveB (by simpa only [Query.ok] using hok)
    exact ⟨φ, v, fun hs => satCount_spec_strong hg v hs e⟩
  · rw [if_neg hok] at hx; cases hx

/-- … and with the variables bounded by `n` and enough fuel it does return -/
theorem execQuery_satcount_total {fuel : Nat} {s : St} {f : Ref} {n : Nat} (hg : Good s)
    (hok : (Query.satcount f n).ok s = true) (hV : VarsLe s n) (hfuel : n + 1 < fuel) :
    ∃ φ, Valid s.nodes f φ ∧ execQuery fuel s (.satcount f n) = .count (.ok (count φ n)) := by
  obtain ⟨φ, v⟩ := hg.valid_of_liveB (by simpa only [Query.ok] using hok)
  refine ⟨φ, v, ?_⟩
  unfold execQuery; rw [if_pos hok]
  have hl : lv s n f < fuel := Nat.lt_of_le_of_lt (lv_le s n f) hfuel
  simp only [runQuery, satCount_total_correct hg v hV hl]

/-- `paths` through the dispatcher: every assignment satisfies exactly one yielded cube if it satisfies
the function, none otherwise; every cube is in increasing variable order -/
theorem execQuery_paths {fuel : Nat} {s : St} {f : Ref} {out : List (List Int)} (hg : Good s)
    (hx : execQuery fuel s (.paths f) = .cubes (some out)) :
    ∃ φ, Valid s.nodes f φ ∧ (∀ e, out.countP (Sat e) = if φ e then 1 else 0) ∧
      ∀ q, q ∈ out → List.Pairwise (fun a b : Int => a.natAbs < b.natAbs) q := by
  unfold execQuery at hx
  by_cases hok : (Query.paths f).ok s = true
  · rw [if_pos hok] at hx
    have e : paths fuel s f = some out := by simpa [runQuery] using hx
    obtain ⟨φ, v⟩ := hg.valid_of_liveB (by simpa only [Query.ok] using hok)
    exact ⟨φ, v, paths_exactly_once' hg v e, paths_sorted hg v e⟩
  · rw [if_neg hok] at hx; cases hx

/-- `one_sat` through the dispatcher (a returned model: sorted, and every completion satisfies `f`) -/
theorem execQuery_onesat {fuel : Nat} {s : St} {f : Ref} {p : List Int} (hg : Good s)
    (hx : execQuery fuel s (.onesat f) = .model (some p)) :
    ∃ φ, Valid s.nodes f φ ∧ List.Pairwise (fun a b : Int => a.natAbs < b.natAbs) p ∧
      ∀ d, Den s.nodes d f φ → d < fuel → ∀ e, Sat e p = true → φ e = true := by
  unfold execQuery at hx
  by_cases hok : (Query.onesat f).ok s = true
  · rw [if_pos hok] at hx
    have e : oneSat fuel s f [] = some p := by simpa [runQuery] using hx
    obtain ⟨φ, v⟩ := hg.valid_of_liveB (by simpa only [Query.ok] using hok)
    refine ⟨φ, v, oneSat_sorted hg v e, fun d hd hlt => ?_⟩
    obtain ⟨q, hq, hs⟩ := (oneSat_spec fuel s f φ [] d hg hd hlt).2 p e
    simp only [List.nil_append] at hq; subst hq; exact hs
  · rw [if_neg hok] at hx; cases hx

/-- the accessors through the dispatcher: the else / then handle of a non-terminal handle are the
cofactors of its function by its top variable, complement bit included -/
theorem execQuery_low_high {fuel : Nat} {s : St} {f : Ref} (hg : Good s) (hok : liveB s f = true)
    (hnt : isTerminal f = false) :
    ∃ φ, Valid s.nodes f φ ∧
      execQuery fuel s (.low f) = .handle (s.lowNode f) ∧ Valid s.nodes (s.lowNode f) (cof φ (s.var f) false) ∧
      execQuery fuel s (.high f) = .handle (s.highNode f) ∧ Valid s.nodes (s.highNode f) (cof φ (s.var f) true) := by
  obtain ⟨φ, v⟩ := hg.valid_of_liveB hok
  obtain ⟨_, a, b, _, _, _⟩ := accessors_spec hg v hnt
  refine ⟨φ, v, ?_, a, ?_, b⟩
  · unfold execQuery; rw [if_pos (by simpa only [Query.ok] using hok)]; rfl
  · unfold execQuery; rw [if_pos (by simpa only [Query.ok] using hok)]; rfl

/-- the DOT export through the dispatcher never fails on accepted roots -/
theorem execQuery_dot {fuel : Nat} {s : St} {roots : List Ref} (hg : Good s)
    (hok : (Query.dot roots).ok s = true) :
    execQuery fuel s (.dot roots) = .lines (.ok (renderDotLines s roots)) := by
  have hl : ∀ r, r ∈ roots → Live s r.idx := fun r hr =>
    let ⟨_, v⟩ := all_liveB hg (by simpa only [Query.ok] using hok) r hr
    Live.of_valid v
  unfold execQuery; rw [if_pos hok]
  simp only [runQuery, renderDot_ok hg roots hl]

end P
#print axioms P.execQuery_satcount
#print axioms P.execQuery_satcount_total
#print axioms P.execQuery_paths
#print axioms P.execQuery_onesat
#print axioms P.execQuery_low_high
#print axioms P.execQuery_dot

import BddProofs.Cube
/-! `clause` builds the disjunction of its literals, in any listing order (dual of `cube_spec`, C15). -/
namespace P

theorem clauseFold_spec : ∀ (l : List Lit) (s : St) (cur : Ref) (ψ : Fn) s' r, Good s → Valid s.nodes cur ψ →
    l.Pairwise (fun a b => b.1 < a.1) → (∀ p, p ∈ l → SuppGe ψ (p.1 + 1)) →
    clauseFold s l cur = .ok (s', r) →
    Good s' ∧ Sub s.nodes s'.nodes ∧ Valid s'.nodes r (fun e => ψ e || l.any (litHolds e)) := by
  intro l
  induction l with
  | nil =>
    intro s cur ψ s' r hg vc _ _ h
    simp only [clauseFold, Except.ok.injEq, Prod.mk.injEq] at h
    obtain ⟨rfl, rfl⟩ := h
    refine ⟨hg, fun _ _ x => x, ?_⟩
    simpa using vc
  | cons p rest ih =>
    intro s cur ψ s' r hg vc hpw hsupp h
    obtain ⟨v, b⟩ := p
    simp only [clauseFold] at h
    by_cases hv0 : v = 0
    · rw [if_pos hv0] at h; cases h
    rw [if_neg hv0] at h
    have sψ : SuppGe ψ (v + 1) := hsupp (v, b) List.mem_cons_self
    have hpw' := (List.pairwise_cons.mp hpw)
    cases b with
    | true =>
      simp only [↓reduceIte] at h
      cases e1 : mkNode s v cur Ref.one with
      | error e => simp [e1] at h
      | ok p1 =>
      obtain ⟨s1, r1⟩ := p1
      simp only [e1] at h
      obtain ⟨g1, sub1, _, v1⟩ := mkNode_spec hg vc Valid.one sψ (SuppGe.const _ _) e1
      have snew : ∀ q, q ∈ rest → SuppGe (fun e => if e v = true then true else ψ e) (q.1 + 1) := by
        intro q hq
        have hlt := hpw'.1 q hq
        exact suppGe_node (by omega) (sψ.le' (by omega)) (SuppGe.const _ _)
      obtain ⟨g2, sub2, v2⟩ := ih s1 r1 _ s' r g1 v1 hpw'.2 snew h
      refine ⟨g2, fun i n x => sub2 _ _ (sub1 _ _ x), ?_⟩
      have : (fun e => (if e v = true then true else ψ e) || rest.any (litHolds e)) =
          (fun e => ψ e || ((v, true) :: rest).any (litHolds e)) := by
        funext e; simp only [List.any_cons, litHolds]
        by_cases hev : e v = true <;> simp [hev]
      rw [← this]; exact v2
    | false =>
      simp only [Bool.false_eq_true, ↓reduceIte] at h
      cases e1 : mkNode s v Ref.one cur with
      | error e => simp [e1] at h
      | ok p1 =>
      obtain ⟨s1, r1⟩ := p1
      simp only [e1] at h
      obtain ⟨g1, sub1, _, v1⟩ := mkNode_spec hg Valid.one vc (SuppGe.const _ _) sψ e1
      have snew : ∀ q, q ∈ rest → SuppGe (fun e => if e v = true then ψ e else true) (q.1 + 1) := by
        intro q hq
        have hlt := hpw'.1 q hq
        exact suppGe_node (by omega) (SuppGe.const _ _) (sψ.le' (by omega))
      obtain ⟨g2, sub2, v2⟩ := ih s1 r1 _ s' r g1 v1 hpw'.2 snew h
      refine ⟨g2, fun i n x => sub2 _ _ (sub1 _ _ x), ?_⟩
      have : (fun e => (if e v = true then ψ e else true) || rest.any (litHolds e)) =
          (fun e => ψ e || ((v, false) :: rest).any (litHolds e)) := by
        funext e; simp only [List.any_cons, litHolds]
        by_cases hev : e v = true <;> simp [hev]
      rw [← this]; exact v2

/-- over distinct non-zero variables, in any listing order, `clause` denotes the disjunction of its literals
(`clause s []` is `zero`) -/
theorem clause_spec {s : St} (hg : Good s) {lits : List Lit} (hd : (lits.map (·.1)).Nodup) {s' r}
    (h : clause s lits = .ok (s', r)) :
    Good s' ∧ Sub s.nodes s'.nodes ∧ Valid s'.nodes r (fun e => lits.any (litHolds e)) := by
  unfold clause sortLits at h
  have hperm := List.mergeSort_perm lits (fun a b => decide (a.1 ≤ b.1))
  have hsorted : (lits.mergeSort (fun a b => decide (a.1 ≤ b.1))).Pairwise (fun a b => a.1 ≤ b.1) := by
    have := List.pairwise_mergeSort (le := fun (a b : Lit) => decide (a.1 ≤ b.1))
      (fun a b c h1 h2 => by simp at *; omega) (fun a b => by simp; omega) lits
    exact this.imp (by intro a b hab; simpa using hab)
  have hnd : ((lits.mergeSort (fun a b => decide (a.1 ≤ b.1))).map (·.1)).Nodup := (hperm.map _).nodup_iff.mpr hd
  have hstrict : (lits.mergeSort (fun a b => decide (a.1 ≤ b.1))).Pairwise (fun a b => a.1 < b.1) := by
    have hne : (lits.mergeSort (fun a b => decide (a.1 ≤ b.1))).Pairwise (fun a b => a.1 ≠ b.1) := by
      have := hnd
      rw [List.Nodup, List.pairwise_map] at this; exact this
    exact (hsorted.and hne).imp (by intro a b hab; omega)
  have hdesc : (lits.mergeSort (fun a b => decide (a.1 ≤ b.1))).reverse.Pairwise (fun a b => b.1 < a.1) :=
    List.pairwise_reverse.mpr hstrict
  obtain ⟨a, b, c⟩ := clauseFold_spec _ s Ref.zero (fun _ => false) s' r hg Valid.zero hdesc (fun _ _ => SuppGe.const _ _) h
  refine ⟨a, b, ?_⟩
  have : (fun e => false || (lits.mergeSort (fun a b => decide (a.1 ≤ b.1))).reverse.any (litHolds e)) =
      (fun e => lits.any (litHolds e)) := by
    funext e
    simp only [Bool.false_or]
    rw [Bool.eq_iff_iff]
    simp only [List.any_eq_true, List.mem_reverse]
    constructor
    · rintro ⟨x, hx, hh⟩; exact ⟨x, hperm.mem_iff.mp hx, hh⟩
    · rintro ⟨x, hx, hh⟩; exact ⟨x, hperm.mem_iff.mpr hx, hh⟩
  rw [← this]; exact c

/-- the empty clause is `zero`, in the unchanged store -/
theorem clause_nil (s : St) : clause s [] = .ok (s, Ref.zero) := by
  simp [clause, sortLits, clauseFold]

#print axioms clauseFold_spec
#print axioms clause_spec
#print axioms clause_nil
end P

import BddProofs.Paths
import BddProofs.Constrain
import BddProofs.Bfs
/-! C04: the nodes reachable from `f` are in bijection with the sub-functions of `f` (cofactors by
an assignment to a prefix of the variable order) modulo complement — `subfn_onto`, `subfn_into`,
injectivity by `canonicity` — and what the real `P.size` (size-cache probe, else
`(descendants s [f]).length`, then insert) returns: `size_val`, `size_pure`, `size_not`,
`subfn_bijection`, `size_eq_card`. -/
namespace P
open Arr

/-- fix the variables `≤ k` according to `a` -/
def prefixCof (φ : Fn) (k : Nat) (a : Env) : Fn := fun e => φ (fun w => if w ≤ k then a w else e w)

/-- regularise: the representative of `{ψ, ¬ψ}` that is true on the all-true assignment -/
def reg (ψ : Fn) : Fn := if ψ (fun _ => true) then ψ else fun e => !ψ e

theorem reg_not (ψ : Fn) : reg (fun e => !ψ e) = reg ψ := by
  unfold reg
  by_cases h : ψ (fun _ => true) = true
  · simp [h]
  · simp [h]

theorem prefixCof_not (ψ : Fn) (k : Nat) (a : Env) : prefixCof (fun e => !ψ e) k a = fun e => !(prefixCof ψ k a e) := rfl

theorem prefixCof_of_supp {φ : Fn} {k : Nat} (h : SuppGe φ (k + 1)) (a : Env) : prefixCof φ k a = φ := by
  funext e; apply h; intro w hw; simp; intro h'; omega

theorem prefixCof_node {φ0 φ1 : Fn} {v k : Nat} (hv : v ≤ k) (a : Env) :
    prefixCof (fun e => if e v then φ1 e else φ0 e) k a = prefixCof (if a v then φ1 else φ0) k a := by
  funext e; simp only [prefixCof, hv, ↓reduceIte]
  by_cases h : a v = true <;> simp [h]

/-- a handle and its regular twin -/
theorem Den.toReg {s : St} (hg : Good s) {d r φ} (h : Den s.nodes d r φ) : Den s.nodes d ⟨r.idx, false⟩ (reg φ) := by
  rcases r with ⟨i, b⟩
  cases b with
  | false =>
    have := h.sign hg.inv
    simp only [Bool.not_false] at this
    simp only [reg, this, ↓reduceIte]; exact h
  | true =>
    obtain ⟨ψ, hψ, rfl⟩ := h.negInv
    have := hψ.sign hg.inv
    simp only [Bool.not_false] at this
    rw [reg_not]
    simp only [reg, this, ↓reduceIte]; exact hψ

/-- reachability through stored nodes -/
inductive Reach (s : St) (f : Ref) : Nat → Prop
  | root : Reach s f f.idx
  | low {j n} : Reach s f j → s.nodes j = some n → Reach s f n.low.idx
  | high {j n} : Reach s f j → s.nodes j = some n → Reach s f n.high.idx

theorem Reach.trans {s : St} {f g : Ref} {i : Nat} (h : Reach s g i) (hg : Reach s f g.idx) : Reach s f i := by
  induction h with
  | root => exact hg
  | low _ hn ih => exact .low ih hn
  | high _ hn ih => exact .high ih hn

theorem lowNode_idx (s : St) (r : Ref) : (s.lowNode r).idx = (s.low r.idx).idx := by
  simp only [St.lowNode]; split <;> rfl
theorem highNode_idx (s : St) (r : Ref) : (s.highNode r).idx = (s.high r.idx).idx := by
  simp only [St.highNode]; split <;> rfl

/-- every sub-function is the function of a reachable node (up to complement) -/
theorem subfn_onto {s : St} (hg : Good s) (k : Nat) (a : Env) : ∀ d f φ, Den s.nodes d f φ →
    ∃ i d', Reach s f i ∧ Den s.nodes d' ⟨i, false⟩ (reg (prefixCof φ k a)) := by
  intro d
  induction d using Nat.strongRecOn with
  | _ d ih =>
    intro f φ hden
    have vf : Valid s.nodes f φ := ⟨d, hden⟩
    by_cases hstop : isTerminal f = true ∨ k < s.var f
    · have hs : SuppGe φ (k + 1) := by
        rcases hstop with ht | hk
        · simp only [isTerminal, Bool.or_eq_true] at ht
          rcases ht with c | c
          · rw [one_fn hg.inv.noterm c vf]; exact SuppGe.const _ _
          · rw [zero_fn hg.inv.noterm c vf]; exact SuppGe.const _ _
        · exact supp_of_var hg vf (fun _ => by omega)
      rw [prefixCof_of_supp hs]
      exact ⟨f.idx, d, .root, hden.toReg hg⟩
    · have hnt : isTerminal f = false := by
        cases h : isTerminal f with
        | false => rfl
        | true => exact absurd (Or.inl h) hstop
      have hvk : s.var f ≤ k := by
        apply Classical.byContradiction; intro h; exact hstop (Or.inr (by omega))
      obtain ⟨hv0, d0, d1, φ0, φ1, hd0, hd1, vlo, vhi, hφ, _, _⟩ := hden.split hg hnt
      obtain ⟨nn, hnn, _, _⟩ := nonterm_stored hg vf hnt
      rw [hφ, prefixCof_node hvk]
      by_cases hav : a (s.var f) = true
      · simp only [hav, ↓reduceIte]
        obtain ⟨i, d', hr, hd'⟩ := ih d1 hd1 _ _ vhi
        refine ⟨i, d', hr.trans ?_, hd'⟩
        rw [highNode_idx, St.high_of hnn]; exact .high .root hnn
      · simp only [hav, Bool.false_eq_true, ↓reduceIte]
        obtain ⟨i, d', hr, hd'⟩ := ih d0 hd0 _ _ vlo
        refine ⟨i, d', hr.trans ?_, hd'⟩
        rw [lowNode_idx, St.low_of hnn]; exact .low .root hnn

theorem prefixCof_compose (φ : Fn) {k k' : Nat} {a a' : Env} (hk : k ≤ k') (hag : ∀ w, w ≤ k → a' w = a w) :
    prefixCof (prefixCof φ k a) k' a' = prefixCof φ k' a' := by
  funext e; simp only [prefixCof]; congr 1; funext w
  by_cases h1 : w ≤ k
  · have : w ≤ k' := by omega
    simp [h1, this, hag w h1]
  · simp [h1]

theorem reg_cases (X : Fn) : X = reg X ∨ X = fun e => !(reg X e) := by
  unfold reg
  by_cases h : X (fun _ => true) = true
  · left; simp [h]
  · right; simp [h]

/-- every reachable node carries (the regular representative of) a sub-function -/
theorem subfn_into {s : St} (hg : Good s) {f : Ref} {φ : Fn} (vf : Valid s.nodes f φ) :
    ∀ i, Reach s f i → ∃ k a d, Den s.nodes d ⟨i, false⟩ (reg (prefixCof φ k a)) ∧
      (∀ n, s.nodes i = some n → k < n.var) := by
  intro i hr
  induction hr with
  | root =>
    obtain ⟨d, hden⟩ := vf
    have hs : SuppGe φ (0 + 1) := supp_of_var hg ⟨d, hden⟩ (fun h => by omega)
    refine ⟨0, fun _ => false, d, ?_, fun n hn => ?_⟩
    · rw [prefixCof_of_supp hs]; exact hden.toReg hg
    · have := hg.var0 _ _ hn; omega
  | @low j n _ hn ih =>
    obtain ⟨k, a, d, hden, hk⟩ := ih
    have hkv := hk n hn
    rcases hden.regInv with ⟨e1, -, -⟩ | ⟨n', d0, d1, φ0, φ1, hn', h0, h1, -, hρ⟩
    · subst e1; rw [hg.inv.noterm] at hn; cases hn
    have : n' = n := by rw [hn] at hn'; exact (Option.some.inj hn').symm
    subst this
    have s0 := h0.supp hg.inv _ (hg.inv.ordLow _ _ hn)
    have s1 := h1.supp hg.inv _ (hg.inv.ordHigh _ _ hn)
    refine ⟨n'.var, fun w => if w = n'.var then false else a w, d0, ?_, fun m hm => ?_⟩
    · have hcomp := prefixCof_compose φ (k := k) (k' := n'.var) (a := a)
        (a' := fun w => if w = n'.var then false else a w) (by omega)
        (fun w hw => by simp; intro h; omega)
      have hnode : prefixCof (reg (prefixCof φ k a)) n'.var (fun w => if w = n'.var then false else a w) = φ0 := by
        rw [hρ, prefixCof_node (Nat.le_refl _)]
        simp only [↓reduceIte, Bool.false_eq_true]
        exact prefixCof_of_supp s0 _
      rw [← hcomp]
      rcases reg_cases (prefixCof φ k a) with e | e
      · rw [e, hnode]; exact h0.toReg hg
      · rw [e, prefixCof_not, hnode, reg_not]; exact h0.toReg hg
    · rcases hg.inv.ordLow _ _ hn with e | ⟨mm, hmm, hle⟩
      · rw [e, hg.inv.noterm] at hm; cases hm
      · rw [hmm] at hm; cases hm; omega
  | @high j n _ hn ih =>
    obtain ⟨k, a, d, hden, hk⟩ := ih
    have hkv := hk n hn
    rcases hden.regInv with ⟨e1, -, -⟩ | ⟨n', d0, d1, φ0, φ1, hn', h0, h1, -, hρ⟩
    · subst e1; rw [hg.inv.noterm] at hn; cases hn
    have : n' = n := by rw [hn] at hn'; exact (Option.some.inj hn').symm
    subst this
    have s0 := h0.supp hg.inv _ (hg.inv.ordLow _ _ hn)
    have s1 := h1.supp hg.inv _ (hg.inv.ordHigh _ _ hn)
    refine ⟨n'.var, fun w => if w = n'.var then true else a w, d1, ?_, fun m hm => ?_⟩
    · have hcomp := prefixCof_compose φ (k := k) (k' := n'.var) (a := a)
        (a' := fun w => if w = n'.var then true else a w) (by omega)
        (fun w hw => by simp; intro h; omega)
      have hnode : prefixCof (reg (prefixCof φ k a)) n'.var (fun w => if w = n'.var then true else a w) = φ1 := by
        rw [hρ, prefixCof_node (Nat.le_refl _)]
        simp only [↓reduceIte]
        exact prefixCof_of_supp s1 _
      rw [← hcomp]
      rcases reg_cases (prefixCof φ k a) with e | e
      · rw [e, hnode]; exact h1.toReg hg
      · rw [e, prefixCof_not, hnode, reg_not]; exact h1.toReg hg
    · rcases hg.inv.ordHigh _ _ hn with e | ⟨mm, hmm, hle⟩
      · rw [e, hg.inv.noterm] at hm; cases hm
      · rw [hmm] at hm; cases hm; omega

/-- two reachable regular handles with the same function are the same node (`canonicity`) -/
theorem subfn_inj {s : St} (hg : Good s) {i j : Nat} {ψ : Fn}
    (hi : Valid s.nodes ⟨i, false⟩ ψ) (hj : Valid s.nodes ⟨j, false⟩ ψ) : i = j := by
  obtain ⟨_, hi⟩ := hi; obtain ⟨_, hj⟩ := hj
  exact congrArg Ref.idx (canonicity hg.inv hi hj)

/-! ## the real `size` -/

/-- `Reach` (this file) against `RI` (the reachable set that `descendants` computes) -/
theorem ri_iff_reach {s : St} (f : Ref) (i : Nat) : RI s [f.idx] i ↔ (i = 1 ∨ Reach s f i) := by
  constructor
  · intro h
    induction h with
    | one => exact Or.inl rfl
    | root hr => simp only [List.mem_singleton] at hr; subst hr; exact Or.inr .root
    | low _ hn ih =>
      rcases ih with e | ih
      · subst e; rw [St.nodes_one] at hn; cases hn
      · exact Or.inr (.low ih hn)
    | high _ hn ih =>
      rcases ih with e | ih
      · subst e; rw [St.nodes_one] at hn; cases hn
      · exact Or.inr (.high ih hn)
  · intro h
    rcases h with e | h
    · subst e; exact .one
    · induction h with
      | root => exact .root (by simp)
      | low _ hn ih => exact .low ih hn
      | high _ hn ih => exact .high ih hn

/-- the walk reads nothing but the node table -/
theorem bfsFast_congr {s s' : St} (h : s'.storage = s.storage) : ∀ fuel front back mark vis,
    bfsFast s' fuel front back mark vis = bfsFast s fuel front back mark vis := by
  have hl : ∀ i, s'.low i = s.low i := fun i => by simp only [St.low, St.node, h]
  have hh : ∀ i, s'.high i = s.high i := fun i => by simp only [St.high, St.node, h]
  intro fuel
  induction fuel with
  | zero => intro front back mark vis; rfl
  | succ fuel ih =>
    intro front back mark vis
    cases front with
    | nil =>
      cases back with
      | nil => rfl
      | cons b bs => simp only [bfsFast]; exact ih _ _ _ _
    | cons i q =>
      simp only [bfsFast, hl, hh, ih]

theorem descendants_congr {s s' : St} (h : s'.storage = s.storage) (roots : List Ref) :
    descendants s' roots = descendants s roots := by
  simp only [descendants, descendantsMark, bfsFuel, h]
  rw [bfsFast_congr h]

/-- the size-cache invariant: an entry is the length of the walk from its key -/
def SizeOk (s : St) : Prop := ∀ f n, s.sizeCache.lookup f = some n → n = (descendants s [f]).length

/-- (a) `size` returns the number of visited indices, whether or not the cache hits -/
theorem size_val {s : St} (hs : SizeOk s) (f : Ref) : (size s f).2 = (descendants s [f]).length := by
  unfold size
  cases hc : (s.sizeCache.get f).2 with
  | some n =>
    simp only
    exact hs f n (by rw [← Cache.get_snd]; exact hc)
  | none => rfl

theorem size_storage (s : St) (f : Ref) : (size s f).1.storage = s.storage := by
  unfold size; cases (s.sizeCache.get f).2 <;> rfl

theorem size_cache (s : St) (f : Ref) : (size s f).1.cache = s.cache := by
  unfold size; cases (s.sizeCache.get f).2 <;> rfl

theorem size_nodes (s : St) (f : Ref) : (size s f).1.nodes = s.nodes := by
  unfold St.nodes; rw [size_storage]

/-- (b) the size-cache invariant is kept -/
theorem size_sizeOk {s : St} (hs : SizeOk s) (f : Ref) : SizeOk (size s f).1 := by
  intro g n hl
  rw [descendants_congr (size_storage s f)]
  unfold size at hl
  cases hc : (s.sizeCache.get f).2 with
  | some m =>
    simp only [hc] at hl
    rw [Cache.get_fst_lookup] at hl
    exact hs g n hl
  | none =>
    simp only [hc] at hl
    rcases Cache.lookup_insert _ f _ g hl with ⟨rfl, rfl⟩ | hl'
    · rfl
    · rw [Cache.get_fst_lookup] at hl'
      exact hs g n hl'

/-- (b) purity of `size` (C16): the node table and the operation cache are untouched, the
size-cache invariant is kept, and every handle keeps its function -/
theorem size_pure {s : St} (hs : SizeOk s) (f : Ref) :
    (size s f).1.storage = s.storage ∧ (size s f).1.cache = s.cache ∧ SizeOk (size s f).1 ∧
    (size s f).1.nodes = s.nodes ∧ (Good s → Good (size s f).1) := by
  refine ⟨size_storage s f, size_cache s f, size_sizeOk hs f, size_nodes s f, fun hg => ?_⟩
  have hn := size_nodes s f
  have hst := size_storage s f
  have hc := size_cache s f
  refine ⟨by rw [hst]; exact hg.wf, by rw [hst]; exact hg.tinv, by rw [hn]; exact hg.inv,
    by rw [hn]; exact hg.var0, by rw [hn, hc]; exact hg.cache, ?_, by rw [hst]; exact hg.rs⟩
  show (rd (size s f).1.storage.vals 1).var = 0
  rw [hst]; exact hg.term1

/-- (c) the walk only looks at `f.idx`: `f` and `NOT f` have the same descendants, hence the same size -/
theorem descendants_not (s : St) (f : Ref) : descendants s [f.not] = descendants s [f] := rfl

theorem size_not {s : St} (hs : SizeOk s) (f : Ref) : (size s f.not).2 = (size s f).2 := by
  rw [size_val hs, size_val hs, descendants_not]

/-- a fresh manager has an empty size cache -/
theorem SizeOk.of_empty {s : St} (h : ∀ f, s.sizeCache.lookup f = none) : SizeOk s := by
  intro f n hl; rw [h f] at hl; cases hl

theorem SizeOk.of_newWith {a b c : Nat} {s : St} (h : St.newWith a b c = .ok s) : SizeOk s := by
  apply SizeOk.of_empty
  intro f
  unfold St.newWith at h
  by_cases c1 : a > 31
  · rw [if_pos c1] at h; cases h
  rw [if_neg c1] at h
  cases hal : (Table.newWith a b : Table Node).alloc with
  | error e => rw [hal] at h; cases h
  | ok p =>
    obtain ⟨t, one⟩ := p
    rw [hal] at h
    simp only at h
    by_cases c2 : one ≠ 1
    · rw [if_pos c2] at h; cases h
    rw [if_neg c2] at h
    cases h
    exact Cache.lookup_new c f

/-- growing the store does not change what is reachable from a root that was already live -/
theorem ri_of_sub {s s' : St} (hg : Good s) (hsub : Sub s.nodes s'.nodes) {roots : List Nat}
    (hlive : ∀ r, r ∈ roots → Live s r) (i : Nat) : RI s' roots i ↔ RI s roots i := by
  constructor
  · intro h
    have : RI s roots i ∧ Live s i := by
      induction h with
      | one => exact ⟨.one, Or.inl rfl⟩
      | root hr => exact ⟨.root hr, hlive _ hr⟩
      | @low j n' _ hn' ih =>
        obtain ⟨hr, hl⟩ := ih
        rcases hl with e | ⟨n, hn⟩
        · subst e; rw [St.nodes_one] at hn'; cases hn'
        · have : n' = n := by rw [hsub _ _ hn] at hn'; exact (Option.some.inj hn').symm
          subst this
          exact ⟨.low hr hn, (live_children hg hn).1⟩
      | @high j n' _ hn' ih =>
        obtain ⟨hr, hl⟩ := ih
        rcases hl with e | ⟨n, hn⟩
        · subst e; rw [St.nodes_one] at hn'; cases hn'
        · have : n' = n := by rw [hsub _ _ hn] at hn'; exact (Option.some.inj hn').symm
          subst this
          exact ⟨.high hr hn, (live_children hg hn).2⟩
    exact this.1
  · intro h
    induction h with
    | one => exact .one
    | root hr => exact .root hr
    | low _ hn ih => exact .low ih (hsub _ _ hn)
    | high _ hn ih => exact .high ih (hsub _ _ hn)

/-- a size-cache entry for a live handle stays correct when nodes are added (the Rust code never
invalidates the size cache on insertion, only on `collect_garbage`) -/
theorem descendants_length_sub {s s' : St} (hg : Good s) (hg' : Good s') (hsub : Sub s.nodes s'.nodes)
    (f : Ref) (hf : Live s f.idx) : (descendants s' [f]).length = (descendants s [f]).length := by
  have hlive : ∀ r, r ∈ [f] → Live s r.idx := by
    intro r hr; simp only [List.mem_singleton] at hr; subst hr; exact hf
  have hf' : Live s' f.idx := by
    rcases hf with e | ⟨n, hn⟩
    · exact Or.inl e
    · exact Or.inr ⟨n, hsub _ _ hn⟩
  refine descendants_length_single hg' f hf' _ (descendants_nodup hg [f] hlive) (fun i => ?_)
  rw [descendants_exact hg [f] hlive i]
  exact (ri_of_sub hg hsub (fun r hr => by simp only [List.map_cons, List.map_nil, List.mem_singleton] at hr; subst hr; exact hf) i).symm

/-! ## (d) size = 1 + number of distinct regularised non-constant sub-functions -/

/-- the set of regularised, non-constant prefix-cofactor sub-functions of `φ` -/
def SubFn (φ : Fn) (ψ : Fn) : Prop := (∃ k a, ψ = reg (prefixCof φ k a)) ∧ ¬ IsConst ψ

/-- the function of the regular handle at index `i` (`Valid` is functional, `regFn_eq`) -/
noncomputable def regFn (s : St) (i : Nat) : Fn :=
  open Classical in if h : ∃ ψ, Valid s.nodes ⟨i, false⟩ ψ then Classical.choose h else fun _ => true

theorem regFn_eq {s : St} {i : Nat} {ψ : Fn} (h : Valid s.nodes ⟨i, false⟩ ψ) : regFn s i = ψ := by
  have hex : ∃ ψ, Valid s.nodes ⟨i, false⟩ ψ := ⟨ψ, h⟩
  unfold regFn
  rw [dif_pos hex]
  exact (Classical.choose_spec hex).det (St.nodes_one s) h

theorem length_filter_ne {l : List Nat} (hnd : l.Nodup) {a : Nat} (ha : a ∈ l) :
    l.length = (l.filter (· ≠ a)).length + 1 := by
  induction l with
  | nil => cases ha
  | cons x xs ih =>
    obtain ⟨hx, hxs⟩ := List.nodup_cons.mp hnd
    by_cases e : x = a
    · subst e
      have : xs.filter (· ≠ x) = xs := by
        apply List.filter_eq_self.mpr
        intro y hy; simp only [ne_eq, decide_eq_true_eq]; intro e; exact hx (e ▸ hy)
      rw [List.filter_cons, if_neg (by simp), this]; rfl
    · have ha' : a ∈ xs := by
        rcases List.mem_cons.mp ha with h | h
        · exact absurd h.symm e
        · exact h
      simp only [List.filter_cons, ne_eq, e, not_false_eq_true, decide_true, ↓reduceIte, List.length_cons]
      have := ih hxs ha'
      simp only [ne_eq] at this
      omega

/-- **C04 (`size`, bijection).** Let `L` be the visited indices other than the terminal. Then `L`
is duplicate-free, `descendants` has one more element (the terminal), and `i ↦ regFn s i` (the
function of the regular handle `@i`) is an injective map from `L` onto the set `SubFn φ` of
regularised non-constant prefix-cofactor sub-functions of `φ`. -/
theorem subfn_bijection {s : St} (hg : Good s) {f : Ref} {φ : Fn} (vf : Valid s.nodes f φ) :
    let L := (descendants s [f]).filter (· ≠ 1)
    L.Nodup ∧ (descendants s [f]).length = L.length + 1 ∧
    (∀ i, i ∈ L → Valid s.nodes ⟨i, false⟩ (regFn s i) ∧ SubFn φ (regFn s i)) ∧
    (∀ i j, i ∈ L → j ∈ L → regFn s i = regFn s j → i = j) ∧
    (∀ ψ, SubFn φ ψ → ∃ i, i ∈ L ∧ regFn s i = ψ) := by
  intro L
  have hlive : ∀ r, r ∈ [f] → Live s r.idx := by
    intro r hr; simp only [List.mem_singleton] at hr; subst hr; exact Live.of_valid vf
  have hnd := descendants_nodup hg [f] hlive
  have hex := descendants_exact hg [f] hlive
  have hone := (descendants_closed hg [f] hlive).1
  have hmem : ∀ i, i ∈ L ↔ (i ≠ 1 ∧ Reach s f i) := by
    intro i
    simp only [L, List.mem_filter, hex, List.map_cons, List.map_nil, ri_iff_reach, ne_eq, decide_eq_true_eq]
    constructor
    · rintro ⟨h | h, h1⟩
      · exact absurd h h1
      · exact ⟨h1, h⟩
    · rintro ⟨h1, h⟩; exact ⟨Or.inr h, h1⟩
  have hinto : ∀ i, i ∈ L → Valid s.nodes ⟨i, false⟩ (regFn s i) ∧ SubFn φ (regFn s i) := by
    intro i hi
    obtain ⟨hi1, hr⟩ := (hmem i).mp hi
    obtain ⟨k, a, d, hden, _⟩ := subfn_into hg vf i hr
    have hv : Valid s.nodes ⟨i, false⟩ (reg (prefixCof φ k a)) := ⟨d, hden⟩
    rw [regFn_eq hv]
    refine ⟨hv, ⟨k, a, rfl⟩, ?_⟩
    rintro (hc | hc)
    · rw [hc] at hden
      have := canonicity hg.inv hden Den.one
      exact hi1 (congrArg Ref.idx this)
    · rw [hc] at hv
      obtain ⟨_, h0⟩ := hv
      obtain ⟨_, h0'⟩ := Valid.zero (nd := s.nodes)
      have := canonicity hg.inv h0 h0'
      simp [Ref.zero] at this
  refine ⟨hnd.filter _, length_filter_ne hnd hone, hinto, ?_, ?_⟩
  · intro i j hi hj he
    have vi := (hinto i hi).1
    have vj := (hinto j hj).1
    rw [he] at vi
    exact subfn_inj hg vi vj
  · rintro ψ ⟨⟨k, a, rfl⟩, hnc⟩
    obtain ⟨d, hden⟩ := vf
    obtain ⟨i, d', hr, hd'⟩ := subfn_onto hg k a d f φ hden
    refine ⟨i, (hmem i).mpr ⟨?_, hr⟩, regFn_eq ⟨d', hd'⟩⟩
    intro e; subst e
    exact hnc (Or.inl (hd'.det hg.inv.noterm Den.one))

/-- **C04 (`size`, cardinality).** The set `SubFn φ` is finite, and the length of *any*
duplicate-free enumeration of it is `size - 1` (the `- 1` is the terminal, i.e. the constant
sub-functions). -/
theorem size_eq_card {s : St} (hg : Good s) {f : Ref} {φ : Fn} (vf : Valid s.nodes f φ) :
    (∃ M : List Fn, M.Nodup ∧ ∀ ψ, ψ ∈ M ↔ SubFn φ ψ) ∧
    (∀ M : List Fn, M.Nodup → (∀ ψ, ψ ∈ M ↔ SubFn φ ψ) → (descendants s [f]).length = M.length + 1) := by
  obtain ⟨hnd, hlen, hinto, hinj, honto⟩ := subfn_bijection hg vf
  generalize (descendants s [f]).filter (· ≠ 1) = L at hnd hlen hinto hinj honto
  have hM0nd : (L.map (regFn s)).Nodup := by
    unfold List.Nodup
    rw [List.pairwise_map]
    exact List.Pairwise.imp_of_mem (fun {i j} hi hj hne he => hne (hinj i j hi hj he)) hnd
  have hM0 : ∀ ψ, ψ ∈ L.map (regFn s) ↔ SubFn φ ψ := by
    intro ψ
    constructor
    · intro h; obtain ⟨i, hi, rfl⟩ := List.mem_map.mp h; exact (hinto i hi).2
    · intro h; obtain ⟨i, hi, rfl⟩ := honto ψ h; exact List.mem_map.mpr ⟨i, hi, rfl⟩
  refine ⟨⟨L.map (regFn s), hM0nd, hM0⟩, fun M hMnd hM => ?_⟩
  have hp : (L.map (regFn s)).Perm M :=
    (List.perm_ext_iff_of_nodup hM0nd hMnd).mpr (fun ψ => (hM0 ψ).trans (hM ψ).symm)
  have := hp.length_eq
  simp only [List.length_map] at this
  omega

/-- **C04 (`size`).** What the real `size` returns, in a state whose size cache is sound: one
more than the number of distinct regularised non-constant sub-functions of the handle's function. -/
theorem size_spec {s : St} (hg : Good s) (hs : SizeOk s) {f : Ref} {φ : Fn} (vf : Valid s.nodes f φ)
    (M : List Fn) (hnd : M.Nodup) (hM : ∀ ψ, ψ ∈ M ↔ SubFn φ ψ) : (size s f).2 = M.length + 1 := by
  rw [size_val hs]; exact (size_eq_card hg vf).2 M hnd hM

#print axioms subfn_onto
#print axioms subfn_into
#print axioms subfn_inj
#print axioms size_val
#print axioms size_pure
#print axioms size_not
#print axioms subfn_bijection
#print axioms size_eq_card
#print axioms size_spec
#print axioms descendants_length_sub
end P

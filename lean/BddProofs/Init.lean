import BddProofs.Ite
import BddProofs.CacheTrace
/-! A freshly created manager is `Good`, for every storage / bucket / cache size
(`Bdd::new(bits)` and the hook constructor `Bdd::with_params`). -/
namespace P
open Arr S

theorem firstFree_zero (occ : Nat → Bool) (i : Nat) : firstFree occ 0 i = i := rfl

/-- the table of a new manager, written out -/
def initTable (sb bb : Nat) : Table Node :=
  { vals := Array.replicate (2 ^ sb) default, nxs := Array.replicate (2 ^ sb) 0,
    occs := wr (wr (Array.replicate (2 ^ sb) false) 0 true) 1 true,
    buckets := Array.replicate (2 ^ bb) 0, bitmask := UInt64.ofNat (2 ^ bb - 1),
    minFree := 2, lastIndex := 1, realSize := 1 }

theorem initTable_occ {sb bb : Nat} (h1 : 1 < 2 ^ sb) (i : Nat) :
    rd (initTable sb bb).occs i = decide (i = 0 ∨ i = 1) := by
  show rd (wr (wr (Array.replicate (2 ^ sb) false) 0 true) 1 true) i = _
  rw [rd_wr, rd_wr, rd_replicate]
  simp only [size_wr, Array.size_replicate]
  by_cases a : i = 1
  · subst a; simp [h1]
  · by_cases b : i = 0
    · subst b
      have : 0 < 2 ^ sb := by omega
      simp [this]
    · have n1 : ¬ (1 = i ∧ 1 < 2 ^ sb) := fun x => a x.1.symm
      have n0 : ¬ (0 = i ∧ 0 < 2 ^ sb) := fun x => b x.1.symm
      rw [if_neg n1, if_neg n0]
      simp [a, b]

theorem newTable_alloc {sb bb : Nat} {t : Table Node} {one : Nat}
    (h : (Table.newWith sb bb : Table Node).alloc = .ok (t, one)) :
    one = 1 ∧ 1 < 2 ^ sb ∧ t = initTable sb bb := by
  unfold Table.alloc at h
  have hff : firstFree (rd (Table.newWith sb bb : Table Node).occs)
      ((Table.newWith sb bb : Table Node).lastIndex + 1 - (Table.newWith sb bb : Table Node).minFree)
      (Table.newWith sb bb : Table Node).minFree = 1 := rfl
  rw [hff] at h
  unfold Table.allocAt at h
  have hsz : (Table.newWith sb bb : Table Node).vals.size = 2 ^ sb := by simp [Table.newWith]
  by_cases hge : 1 ≥ (Table.newWith sb bb : Table Node).vals.size
  · rw [if_pos hge] at h; cases h
  rw [if_neg hge] at h
  simp only [Except.ok.injEq, Prod.mk.injEq] at h
  obtain ⟨rfl, rfl⟩ := h
  exact ⟨rfl, by rw [hsz] at hge; omega, rfl⟩

theorem initTable_wf (sb bb : Nat) : (initTable sb bb).Wf := by
  refine ⟨by simp [initTable], by simp [initTable], ?_⟩
  intro hh
  show slotOf hh (UInt64.ofNat (2 ^ bb - 1)) < (Array.replicate (2 ^ bb) 0).size
  rw [Array.size_replicate]
  exact slotOf_lt hh bb

theorem initTable_tinv {sb bb : Nat} (h1 : 1 < 2 ^ sb) :
    TInv (initTable sb bb).bhash (initTable sb bb).toTab (fun _ => []) := by
  have occf : ∀ i, (initTable sb bb).toTab.occ i = decide (i = 0 ∨ i = 1) := fun i => initTable_occ h1 i
  refine ⟨?_, ?_, ?_, ?_, ?_, ?_, ?_, ?_, ?_, ?_, ?_, ?_, ?_⟩
  · show 0 < (Array.replicate (2 ^ bb) 0).size
    rw [Array.size_replicate]; exact Nat.two_pow_pos bb
  · intro b _
    have : (initTable sb bb).toTab.bucket b = 0 := by
      show rd (Array.replicate (2 ^ bb) 0) b = 0
      rw [rd_replicate]; split <;> rfl
    rw [this]; exact .nil
  · intro b _ i hi; cases hi
  · intro b _; exact List.nodup_nil
  · intro i h2 ho
    rw [occf] at ho
    simp at ho; omega
  · intro i j h2 _ ho
    rw [occf] at ho
    simp at ho; omega
  · exact ⟨by rw [occf]; simp, by rw [occf]; simp⟩
  · show 1 < (Array.replicate (2 ^ sb) (default : Node)).size
    rw [Array.size_replicate]; exact h1
  · show 1 ≤ 1
    omega
  · intro i hi
    rw [occf]
    have : 1 < i := hi
    simp; omega
  · intro i h1' h2
    rw [occf]
    have : i < 2 := h2
    simp; omega
  · show 1 ≤ 2
    omega
  · show 2 ≤ 1 + 1
    omega

theorem initTable_RS {sb bb : Nat} (h1 : 1 < 2 ^ sb) : RS (initTable sb bb) := by
  show 1 + 1 = Cn.countOcc (rd (initTable sb bb).occs) (Array.replicate (2 ^ sb) (default : Node)).size
  rw [Array.size_replicate]
  have : Cn.countOcc (rd (initTable sb bb).occs) (2 ^ sb) = [0, 1].length := by
    apply Cn.countOcc_eq_length (by simp)
    · intro i hi; simp at hi; omega
    · intro i _
      rw [initTable_occ h1]; simp
  rw [this]; rfl


/-- **every new manager is good** — any `storage_bits ≤ 31` large enough to hold the terminal, any
number of buckets, any cache size -/
theorem init_good {sb bb cb : Nat} {s : St} (h : St.newWith sb bb cb = .ok s) : Good s := by
  unfold St.newWith at h
  by_cases c : sb > 31
  · rw [if_pos c] at h; cases h
  rw [if_neg c] at h
  cases ha : (Table.newWith sb bb : Table Node).alloc with
  | error e => rw [ha] at h; cases h
  | ok p =>
    obtain ⟨t, one⟩ := p
    rw [ha] at h
    obtain ⟨h1, h1lt, rfl⟩ := newTable_alloc ha
    have hw := initTable_wf sb bb
    have hI := initTable_tinv (bb := bb) h1lt
    have hfree : ∀ i, 2 ≤ i → rd (initTable sb bb).occs i = false := by
      intro i h2; rw [initTable_occ h1lt]; simp; omega
    have hval1 : rd (initTable sb bb).vals 1 = default := by
      show rd (Array.replicate (2 ^ sb) (default : Node)) 1 = default
      rw [rd_replicate]; split <;> rfl
    simp only at h
    rw [if_neg (by simp [h1])] at h
    simp only [Except.ok.injEq] at h
    subst h
    have hnone : ∀ i, St.nodes { storage := initTable sb bb, cache := Cache.new cb, sizeCache := Cache.new cb } i = none := by
      intro i
      unfold St.nodes
      by_cases h2 : 2 ≤ i
      · rw [if_neg]; intro x; have := hfree i h2; rw [this] at x; cases x.2
      · rw [if_neg]; intro x; exact h2 x.1
    refine ⟨hw, ⟨_, hI⟩, ⟨?_, ?_, ?_, ?_, ?_, ?_⟩, ?_, ?_, ?_, ?_⟩
    · intro i j n hi; rw [hnone] at hi; cases hi
    · exact hnone 1
    · intro i n hi; rw [hnone] at hi; cases hi
    · intro i n hi; rw [hnone] at hi; cases hi
    · intro i n hi; rw [hnone] at hi; cases hi
    · intro i n hi; rw [hnone] at hi; cases hi
    · intro i n hi; rw [hnone] at hi; cases hi
    · intro k r hk
      rw [Cache.lookup_new] at hk; cases hk
    · show (rd (initTable sb bb).vals 1).var = 0
      rw [hval1]; rfl
    · exact initTable_RS h1lt

theorem init_good_default {bits : Nat} {s : St} (h : St.new bits = .ok s) : Good s := init_good h

/-- the two constants are live in every state -/
theorem valid_consts (s : St) : Valid s.nodes Ref.one (fun _ => true) ∧ Valid s.nodes Ref.zero (fun _ => false) :=
  ⟨Valid.one, Valid.zero⟩

/-- non-vacuity: `Bdd::new(4)` succeeds (and is therefore `Good`) -/
theorem new4_ok : St.new 4 = .ok { storage := initTable 4 4, cache := Cache.new 4, sizeCache := Cache.new 4 } := by
  rfl

/-- a concrete good state to instantiate hypotheses with -/
def s4 : St := { storage := initTable 4 4, cache := Cache.new 4, sizeCache := Cache.new 4 }
theorem s4_good : Good s4 := init_good_default new4_ok

#print axioms init_good
end P

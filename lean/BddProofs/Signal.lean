import BddModel.Eda
/-! C20, second half: eda `Signal` bit layout (`examples/eda/src/signal.rs`) over `BitVec 32`.
All operations are the ones of `BddModel.Eda` (namespace `Sg`).  The spike discharged the five facts
with `bv_decide` (which adds one native-evaluation axiom per theorem); here they are proved from the
core `BitVec`/`Nat` lemmas and `omega`, so only the standard axioms are used.  The boundary
witnesses are closed terms checked by `decide`. -/
namespace Sg

/-! ### arithmetic reading of the accessors -/
theorem magic_twoPow : MAGIC = BitVec.twoPow 32 31 := by decide
theorem one_twoPow : (1 : BitVec 32) = BitVec.twoPow 32 0 := by decide

theorem isInput_eq_msb (s : BitVec 32) : isInput s = s.msb := by
  unfold isInput
  rw [magic_twoPow, BitVec.and_twoPow, BitVec.msb_eq_getLsbD_last]
  cases h : s.getLsbD (32 - 1) <;> simp <;> decide

theorem isInput_eq (s : BitVec 32) : isInput s = decide (2147483648 ≤ s.toNat) := by
  rw [isInput_eq_msb, BitVec.msb_eq_decide]

theorem isNegated_eq_lsb (s : BitVec 32) : isNegated s = s.getLsbD 0 := by
  unfold isNegated
  rw [show (1 : BitVec 32) = BitVec.twoPow 32 0 from one_twoPow, BitVec.and_twoPow]
  cases h : s.getLsbD 0 <;> simp <;> decide

theorem index_toNat (s : BitVec 32) : (index s).toNat = s.toNat / 2 := by
  unfold index
  rw [BitVec.toNat_ushiftRight, Nat.shiftRight_eq_div_pow]

theorem isConst_eq (s : BitVec 32) : isConst s = decide (s.toNat < 2) := by
  have h := index_toNat s
  unfold isConst
  by_cases c : s.toNat < 2
  · simp only [c, decide_true, beq_iff_eq]
    apply BitVec.eq_of_toNat_eq; rw [h]; simp; omega
  · simp only [c, decide_false, beq_eq_false_iff_ne, ne_eq]
    intro h0; rw [h0] at h; simp at h; omega

theorem fromIndex_toNat (i : BitVec 32) : (fromIndex i).toNat = i.toNat * 2 % 4294967296 := by
  unfold fromIndex
  rw [BitVec.toNat_shiftLeft, Nat.shiftLeft_eq]

theorem and_notMagic_toNat (x : BitVec 32) : (x &&& ~~~MAGIC).toNat = x.toNat % 2147483648 := by
  rw [BitVec.toNat_and]
  have : (~~~MAGIC).toNat = 2^31 - 1 := by decide
  rw [this]; exact Nat.and_two_pow_sub_one_eq_mod _ 31


/-! ### the five facts -/

/-- `Signal::from_var(v).var() == v`, and the `is_var()` assertion inside `var()` holds,
for every `v ≤ 2^30 - 2` -/
theorem var_fromVar (v : BitVec 32) (h : v ≤ 0x3FFFFFFE#32) :
    isVar (fromVar v) = true ∧ var (fromVar v) = v := by
  have hv : v.toNat ≤ 1073741822 := by simpa [BitVec.le_def] using h
  have h1 : (v + 1).toNat = v.toNat + 1 := by
    rw [BitVec.toNat_add]; simp; omega
  have hf : (fromVar v).toNat = (v.toNat + 1) * 2 := by
    unfold fromVar; rw [fromIndex_toNat, h1]; omega
  have hi := index_toNat (fromVar v)
  refine ⟨?_, ?_⟩
  · unfold isVar
    rw [isInput_eq, isConst_eq, hf]
    simp; omega
  · apply BitVec.eq_of_toNat_eq
    unfold var
    rw [BitVec.toNat_sub, hi, hf]; simp; omega

/-- `Signal::from_input(i).input() == i`, and the `is_input()` assertion inside `input()` holds,
for every `i ≤ 2^30 - 1` -/
theorem input_fromInput (i : BitVec 32) (h : i ≤ 0x3FFFFFFF#32) :
    isInput (fromInput i) = true ∧ input (fromInput i) = i := by
  have hv : i.toNat ≤ 1073741823 := by simpa [BitVec.le_def] using h
  have h1 : (~~~i).toNat = 4294967295 - i.toNat := by rw [BitVec.toNat_not]
  have hf : (fromInput i).toNat = 4294967294 - i.toNat * 2 := by
    unfold fromInput; rw [fromIndex_toNat, h1]; omega
  have hi := index_toNat (fromInput i)
  refine ⟨?_, ?_⟩
  · rw [isInput_eq, hf]; simp; omega
  · apply BitVec.eq_of_toNat_eq
    unfold input
    rw [and_notMagic_toNat, BitVec.toNat_not, hi, hf]; omega

/-- every raw 32-bit value is in exactly one of the classes const / input / var -/
theorem classes_exclusive (s : BitVec 32) :
    (isConst s = true ∧ isInput s = false ∧ isVar s = false) ∨
    (isConst s = false ∧ isInput s = true ∧ isVar s = false) ∨
    (isConst s = false ∧ isInput s = false ∧ isVar s = true) := by
  have hx : ¬ (isConst s = true ∧ isInput s = true) := by
    rw [isInput_eq, isConst_eq]; simp; omega
  unfold isVar
  cases hc : isConst s <;> cases hi : isInput s <;> simp [hc, hi] at hx ⊢

theorem index_not (s : BitVec 32) : index (not s) = index s := by
  unfold index not
  rw [BitVec.ushiftRight_xor_distrib, show (1 : BitVec 32) >>> 1 = 0#32 by decide, BitVec.xor_zero]

/-- `!s` flips bit 0 only: the index and the class are kept, the polarity is inverted -/
theorem not_flips_only_polarity (s : BitVec 32) :
    index (not s) = index s ∧ isNegated (not s) = !isNegated s ∧ isConst (not s) = isConst s ∧
    isInput (not s) = isInput s ∧ isVar (not s) = isVar s := by
  have hidx := index_not s
  have hc : isConst (not s) = isConst s := by unfold isConst; rw [hidx]
  have hin : isInput (not s) = isInput s := by
    rw [isInput_eq_msb, isInput_eq_msb]; unfold not
    rw [BitVec.msb_xor, show (1 : BitVec 32).msb = false by decide, Bool.xor_false]
  refine ⟨hidx, ?_, hc, hin, ?_⟩
  · rw [isNegated_eq_lsb, isNegated_eq_lsb]; unfold not
    rw [BitVec.getLsbD_xor, show (1 : BitVec 32).getLsbD 0 = true by decide, Bool.xor_true]
  · unfold isVar; rw [hc, hin]

/-- `!!s == s` -/
theorem not_not (s : BitVec 32) : not (not s) = s := by
  unfold not
  rw [BitVec.xor_assoc, BitVec.xor_self, BitVec.xor_zero]

/-! ### the bounds are tight

At `v = 2^30 - 1` the encoding `from_var v` is the raw value `0x8000_0000` (= `MAGIC`, the
placeholder): bit 31 is set, so the signal is classified as an *input* and the `is_var()` assertion
in `var()` fails.  (The arithmetic `index - 1` alone would still return `v`; it is the class
conjunct of `var_fromVar` that breaks, which in the code is a panic.)  The arithmetic itself breaks
at `v = 2^31 - 1`, where the shift drops the top bit. -/

example : fromVar 0x3FFFFFFF#32 = MAGIC := by decide
example : isVar (fromVar 0x3FFFFFFF#32) = false ∧ isInput (fromVar 0x3FFFFFFF#32) = true := by decide
example : var (fromVar 0x3FFFFFFF#32) = 0x3FFFFFFF#32 := by decide
/-- the hypothesis of `var_fromVar` cannot be relaxed to `v ≤ 2^30 - 1` -/
theorem var_fromVar_tight :
    ¬ ∀ v : BitVec 32, v ≤ 0x3FFFFFFF#32 → isVar (fromVar v) = true ∧ var (fromVar v) = v := by
  intro h
  exact absurd (h 0x3FFFFFFF#32 (by decide)).1 (by decide)
example : var (fromVar 0x7FFFFFFF#32) ≠ 0x7FFFFFFF#32 := by decide
example : isConst (fromVar 0x7FFFFFFF#32) = true := by decide

/-! At `i = 2^30` the encoding `from_input i` is `0x7FFF_FFFE`: bit 31 is clear, so the signal is
classified as a *variable* (number `2^30 - 2`) and the `is_input()` assertion in `input()` fails. -/

example : fromInput 0x40000000#32 = 0x7FFFFFFE#32 := by decide
example : isInput (fromInput 0x40000000#32) = false ∧ isVar (fromInput 0x40000000#32) = true := by decide
example : fromInput 0x40000000#32 = fromVar 0x3FFFFFFE#32 := by decide
/-- the hypothesis of `input_fromInput` cannot be relaxed to `i ≤ 2^30` -/
theorem input_fromInput_tight :
    ¬ ∀ i : BitVec 32, i ≤ 0x40000000#32 → isInput (fromInput i) = true ∧ input (fromInput i) = i := by
  intro h
  exact absurd (h 0x40000000#32 (by decide)).1 (by decide)

#print axioms var_fromVar
#print axioms input_fromInput
#print axioms classes_exclusive
#print axioms not_flips_only_polarity
#print axioms not_not
#print axioms var_fromVar_tight
#print axioms input_fromInput_tight
end Sg

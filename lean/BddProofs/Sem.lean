import BddProofs.Canon
/-! Semantic vocabulary shared by the operation specs. -/
namespace P

def cof (φ : Fn) (v : Nat) (b : Bool) : Fn := fun e => φ (upd e v b)

theorem cof_of_supp {φ : Fn} {v b} (h : SuppGe φ (v + 1)) : cof φ v b = φ := by
  funext e; exact (h e (upd e v b) (upd_agree' e v b _ (Nat.lt_succ_self _))).symm

theorem suppGe_cof {φ : Fn} {m v b} (h : SuppGe φ m) : SuppGe (cof φ v b) m := by
  intro e e' hee
  apply h
  intro w hw
  by_cases hwv : w = v
  · subst hwv; simp
  · rw [upd_other _ _ _ _ hwv, upd_other _ _ _ _ hwv]; exact hee w hw

theorem suppGe_cof_succ {φ : Fn} {v b} (h : SuppGe φ v) : SuppGe (cof φ v b) (v + 1) := by
  intro e e' hee
  apply h
  intro w hw
  by_cases hwv : w = v
  · subst hwv; simp
  · rw [upd_other _ _ _ _ hwv, upd_other _ _ _ _ hwv]; exact hee w (by omega)

theorem shannon (φ : Fn) (v : Nat) : φ = fun e => if e v then cof φ v true e else cof φ v false e := by
  funext e
  have : ∀ b, e v = b → upd e v b = e := by
    intro b hb; funext w; by_cases h : w = v
    · subst h; simp [hb]
    · exact upd_other _ _ _ _ h
  cases hb : e v
  · simp [cof, this false hb]
  · simp [cof, this true hb]

theorem SuppGe.not {φ : Fn} {v} (h : SuppGe φ v) : SuppGe (fun e => !φ e) v := by
  intro e e' hee; simp [h e e' hee]

def ITE (φf φg φh : Fn) : Fn := fun e => if φf e then φg e else φh e


def FirstDiff (y z : Env) (i : Nat) : Prop := (∀ j, j < i → y j = z j) ∧ y i ≠ z i

/-- `y` is the point of `g` closest to `x`, earlier variables weighing more: against any
other candidate `z`, at the first variable where they differ `y` sides with `x`. -/
def Closest (g : Fn) (x y : Env) : Prop := g y = true ∧ ∀ z, g z = true → ∀ i, FirstDiff y z i → y i = x i

def ConstrainSpec (φf φg h : Fn) : Prop :=
  (∀ x y, Closest φg x y → h x = φf y) ∧ (∀ m, SuppGe φf m → SuppGe φg m → SuppGe h m)


def DependsOn (φ : Fn) (v : Nat) : Prop := cof φ v false ≠ cof φ v true
def IsConst (φ : Fn) : Prop := φ = (fun _ => true) ∨ φ = (fun _ => false)
def FnNot (φ : Fn) : Fn := fun e => !φ e
def FnOr (a b : Fn) : Fn := fun e => a e || b e

/-- the recursive cases apply only when no terminal case does -/
def NonTerminalPair (f g : Fn) : Prop :=
  g ≠ (fun _ => false) ∧ g ≠ (fun _ => true) ∧ ¬ IsConst f ∧ f ≠ g ∧ f ≠ FnNot g

/-- `v` is the first variable `f` or `g` depends on -/
def IsTop (f g : Fn) (v : Nat) : Prop := SuppGe f v ∧ SuppGe g v ∧ (DependsOn f v ∨ DependsOn g v)

/-- Coudert–Madre restrict, as a relation on Boolean functions (no diagrams, no memo). -/
inductive RestrictRel : Fn → Fn → Fn → Prop
  | gzero (f) : RestrictRel f (fun _ => false) (fun _ => false)
  | gone (f) : RestrictRel f (fun _ => true) f
  | fconst (f g) : g ≠ (fun _ => false) → IsConst f → RestrictRel f g f
  | same (g) : g ≠ (fun _ => false) → RestrictRel g g (fun _ => true)
  | opp (g) : g ≠ (fun _ => false) → RestrictRel (FnNot g) g (fun _ => false)
  | low (f g h v) : NonTerminalPair f g → IsTop f g v → cof g v true = (fun _ => false) →
      RestrictRel (cof f v false) (cof g v false) h → RestrictRel f g h
  | high (f g h v) : NonTerminalPair f g → IsTop f g v → cof g v false = (fun _ => false) →
      RestrictRel (cof f v true) (cof g v true) h → RestrictRel f g h
  | node (f g h0 h1 v) : NonTerminalPair f g → IsTop f g v →
      cof g v true ≠ (fun _ => false) → cof g v false ≠ (fun _ => false) → DependsOn f v →
      RestrictRel (cof f v false) (cof g v false) h0 → RestrictRel (cof f v true) (cof g v true) h1 →
      RestrictRel f g (fun e => if e v then h1 e else h0 e)
  | abstr (f g h v) : NonTerminalPair f g → IsTop f g v →
      cof g v true ≠ (fun _ => false) → cof g v false ≠ (fun _ => false) → ¬ DependsOn f v →
      RestrictRel f (FnOr (cof g v true) (cof g v false)) h → RestrictRel f g h

end P

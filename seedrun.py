#!/usr/bin/env python3
"""seedrun.py [--all] [seed-id ...] — re-runs the checks against the kept seeded changes
(/verif/seeded/<id>/patch.diff applied to /repo, restored afterwards) and updates meta.json."""
import json, os, subprocess, sys, time, glob
V = "/verif"
def sh(cmd, cwd=None, timeout=7200):
    e = dict(os.environ); e["CARGO_NET_OFFLINE"] = "true"
    p = subprocess.run(cmd, cwd=cwd, shell=True, stdout=subprocess.PIPE, stderr=subprocess.STDOUT, env=e, timeout=timeout)
    return p.returncode, p.stdout.decode("utf-8", "replace")
def main():
    args = [a for a in sys.argv[1:] if not a.startswith("--")]
    run_all = "--all" in sys.argv
    ids = args or sorted(os.path.basename(os.path.dirname(p)) for p in glob.glob(V + "/seeded/*/patch.diff"))
    for sid in ids:
        d = os.path.join(V, "seeded", sid)
        meta = json.load(open(os.path.join(d, "meta.json")))
        prop = meta["property"]
        rc, out = sh("git status --short", cwd="/repo")
        assert out.strip() == "", "/repo not clean: " + out
        rc, out = sh("git apply %s/patch.diff" % d, cwd="/repo")
        assert rc == 0, out
        try:
            props = [prop] + ([p for p in ["C%02d" % i for i in range(1, 21)] if p != prop] if run_all else [])
            for p in props:
                t0 = time.time()
                rc, out = sh("./check %s --tier quick" % p, cwd=V)
                lines = [l for l in out.splitlines() if l.startswith("VIOLATION") or l.startswith(p + ":") or l.startswith("NOTE")]
                meta["checks"][p] = dict(exit=rc, lines=lines[-3:], wall_s=round(time.time() - t0, 1))
                print(sid, p, rc, (lines[-1] if lines else out[-200:])[:160], flush=True)
        finally:
            sh("git checkout -- .", cwd="/repo")
        json.dump(meta, open(os.path.join(d, "meta.json"), "w"), indent=1)
if __name__ == "__main__":
    main()

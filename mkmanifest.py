#!/usr/bin/env python3
"""Regenerates /verif/MANIFEST.json from the per-property table below.
A property is claimed when its theorem file lean/BddProofs/Properties/<ID>.lean exists."""
import json
import os

V = os.path.dirname(os.path.abspath(__file__))

T = {
    "C01": ("handle equality ⇔ function equality for all live handles in every reachable state: `canonicity` under `NInv`, `Good` preserved by every operation and by collections (induction over histories); negation is a free involution; on the packed `u32` words the code holds, negation is an involution without fixed points that flips only the flag, and the packing is a bijection onto handles with index < 2^31 (`C01_negation_on_words`, `C01_handle_words`); every state the model driver holds — after any list of requests, accepted or refused, successes and caught failures — satisfies the invariant, because the driver's run-time precondition check is proved sufficient (`C01_every_driver_state`, `C01_driver_step`)",
            "Lean: canonicity + Good preserved over op histories; strict differential tie"),
    "C02": ("`applyIte_spec`: for every Good state (any cache content satisfying the invariant, any size) and every triple of live handles the result denotes ITE; `applyIte_total`: with fuel above the measure the only failure is 'Storage is full'; through the dispatcher the model driver really runs (`exec`): `C02_driver_reply` (an accepted `ite` request returns a live handle denoting the ITE, no hypothesis about handles) and `C02_driver_total` (its only possible failure is a full table)",
            "Lean: refinement of apply_ite to ITE by induction on fuel; strict differential tie"),
    "C03": ("connectives as ITE instances, n-ary folds by list induction, Expr evaluation by structural induction, Expr::not rewrites preserve meaning, operator reader agrees with Rust precedence",
            "Lean: corollaries of the ITE refinement + structural inductions; strict differential tie"),
    "C04": ("`NInv` (regular then-edge, low≠high, ordering, no duplicate triple, only terminal is cell 1) is part of `Good` for every reachable state; reachable nodes ↔ regularised prefix-cofactor sub-functions (bijection); size = |descendants|, same for f and ¬f, stable while live",
            "Lean: invariant + bijection reachable nodes/sub-functions; strict differential tie"),
    "C05": ("`collect_spec`: after the real sweep the state is Good again, every handle reachable from the roots denotes what it denoted, caches empty; later operations are covered because their theorems only need `Good`; `C05_driver_collection`: a `gc` request accepted by the driver's run-time check always completes with the full postcondition",
            "Lean: simulation of the array sweep by the function-view sweep + closure of descendants; strict differential tie"),
    "C06": ("`collect_exact` (stored nodes = reachable nodes after a collection), `alloc_spec`/`alloc_highwater` (lowest free cell reused before the table grows; high-water mark = peak), `put_full`/`mkNode_err` (failure only when every cell is occupied, state untouched)",
            "Lean: counting invariants over alloc/drop/sweep; strict differential tie incl. post-panic histories"),
    "C07": ("every op spec holds for any cache satisfying `Good.cache` and its conclusion does not mention the cache; replay after flush gives the identical handle by canonicity; `collect_spec`: no entry survives a collection; size-cache entries are true (`SizeOk`)",
            "Lean: cache-content invariant (Fact per key) + canonicity; strict differential tie on cache slots"),
    "C08": ("`substitute_spec`, `substMulti_spec`, `cofCube_spec`, accessors; agreement of the three entry points as handles by canonicity",
            "Lean: memo-invariant inductions; strict differential tie"),
    "C09": ("`composeTop_spec`: result denotes f[v := g] = ITE(g, f|v=1, f|v=0), with the lossy per-call cache",
            "Lean: induction with lossy-memo invariant; strict differential tie"),
    "C10": ("`constrain_spec`: h(x) = f(closest point of g to x) in the first-difference order; existence/uniqueness of the closest point; corollaries (care set, f↓1, f↓f, negation, distribution over every binary connective, cube ⇒ cofactor)",
            "Lean: closest-point characterisation by induction; strict differential tie"),
    "C11": ("`restrict_spec`: the result satisfies the Coudert–Madre relation `RestrictRel` on functions; the relation is functional, agrees on the care set, adds no variables, 1 when g ≤ f, cube ⇒ cofactor",
            "Lean: refinement to an inductive relation on functions; strict differential tie"),
    "C12": ("`iteConstant_spec` (Some b ⇔ ITE constant b), `isImplies_spec`, totality for any Good cache, storage and cache contents unchanged; `C12_driver_reply` (through the dispatcher, no hypothesis about handles)",
            "Lean: induction on fuel + canonicity for cached constants; strict differential tie with forced hits"),
    "C13": ("`satCount_top_spec`: result = semantic count; complement, inclusion–exclusion, unused-variable doubling as theorems about `count`; `C13_driver_reply` (through the query dispatcher `execQuery`)",
            "Lean: memo-invariant induction over Nat (= BigUint); strict differential tie"),
    "C14": ("`oneSat_spec`, `paths_exactly_once'` for the explicit-stack iterator (each satisfying assignment is covered by exactly one yielded path), literal order; the `i32` literals pushed by `one_sat`/`paths` are the model's integers for every variable ≤ 2^31−1 (`C14_literal_words`)",
            "Lean: counting invariant of the stack iterator; strict differential tie"),
    "C15": ("`mkNode_spec` (four sign cases, e=t ⇒ e), `mkVar_spec`, `cube_spec`/`clause_spec` for any listing order over distinct variables; literal words: variable = |lit|, branch = sign, for every `i32` literal except 0 and `i32::MIN` (`C15_literal_words`)",
            "Lean: specs of constructors via canonical store lemmas; strict differential tie"),
    "C16": ("`nodeToStr_spec`/`bracket_faithful` (re-reading the structured export yields the function), `toDot_faithful` (every reachable node declared once, records decode to stored triples), queries return the storage and operation cache they were given",
            "Lean: faithful structured exports + frame lemmas for queries; strict differential tie with independent re-parsers"),
    "C17": ("`Table.put_spec` on the array table via the function-view refinement (`TInv`: chains acyclic, duplicate-free, each live cell in exactly the chain of its hash, no freed cell), re-established by the sweep; live count = occupied cells; the packed link word of a cell (31 bits of index + occupied flag) obeys the lens laws, and no index stored in a good state of ≤ 2^31 cells needs more than 31 bits (`C17_cell_word`, `C17_words_fit`)",
            "Lean: table invariant + array/function-view simulation; strict differential tie on chains and counters"),
    "C18": ("trace semantics of the direct-mapped cache for any key type/hash/size: a lookup returns v for k iff the last write to k's slot since the last clear was insert k v; statistics",
            "Lean: induction over event histories; strict differential tie with forced collisions"),
    "C19": ("`RInv` preserved by every safe-API op, no op returns hang/ub/panic under `RInv`, refinement to a map K → Option V, iteration yields each stored value once; `C19_get_mut`",
            "Lean: probe-sequence invariant + map refinement; strict differential tie in release and debug builds"),
    "C20": ("`arena_round` (BFS flatten + reverse take-fold = direct fold, no unwrap on None) for all six constructors, printing/eval/to_boxed corollaries, `value_mkNot`; Signal facts over BitVec 32",
            "Lean: induction on a queue of pending trees; BitVec arithmetic; strict differential tie"),
}

PENDING_REASON = "not claimed in this revision: the property's theorem file (port of the spike proof to the array-backed model) is not finished; the correspondence suites and oracles for it already run"


def main():
    checks, na = [], []
    for pid in sorted(T):
        text, technique = T[pid]
        f = os.path.join(V, "lean", "BddProofs", "Properties", pid + ".lean")
        if not os.path.exists(f):
            na.append(dict(property_id=pid, reason=PENDING_REASON))
            continue
        checks.append(dict(
            property_id=pid,
            quick_cmd="./check %s --tier quick" % pid,
            thorough_cmd="./check %s --tier thorough" % pid,
            evidence_file="/verif/evidence/%s.json" % pid,
            replay_cmd_template="./check %s --replay {path}" % pid,
            engine="lean+harness",
            level_claimed=dict(
                category="proof",
                text="Theorems in lean/BddProofs/Properties/%s.lean about the executable Lean model of the code (no bound on sizes, depths, histories): %s. "
                     "The model is tied to /repo on every run by a differential check that executes the same operation histories on the real crate and on the compiled model and compares results and full state snapshots line by line." % (pid, text),
                design_ref="DESIGN.md §7 %s, §3, §4" % pid),
            level_note="Trusted: Lean 4 kernel; axioms propext, Classical.choice, Quot.sound only; the hand-written model BddModel/*.lean and the sampling of the correspondence check (suites listed in the evidence); "
                       "machine integers modelled as Nat (index < 2^31 is asserted by the code), RefCell/stack depth/timing not modelled.",
            technique=technique,
        ))
    m = dict(
        version=1,
        setup_cmd="cd /verif/lean && lake build && cd /verif/harness && CARGO_NET_OFFLINE=true cargo build --release --offline && CARGO_NET_OFFLINE=true cargo build --profile dbg --offline",
        hooks=dict(guard="verif (cargo feature of bdd-rs)", enable="the harness depends on bdd-rs with features = [\"verif\"] (path dependency on /repo)",
                   baseline_off_cmd="cd /repo && cargo test --workspace --no-fail-fast --offline",
                   source_commits=["52a96b8"], add_only=True),
        engines=[dict(name="lean+harness", path="/verif/check", serves_properties=[c["property_id"] for c in checks],
                      kind_free_text="Lean 4 proofs about a hand-written executable model (lean/BddModel, lean/BddProofs) + Rust differential harness (harness/) comparing the real crate with the compiled model driver, with model-free oracles for the failing-input search")],
        checks=checks,
        notes="Fix commits in /repo (genuine defects, see known_findings.txt): c9fb41e 7f36030 177b690 10ff3bf 3fda5a0 1eacf62. Hook commit: 52a96b8.",
        not_applicable=na,
    )
    json.dump(m, open(os.path.join(V, "MANIFEST.json"), "w"), indent=1, ensure_ascii=False)
    print("claimed:", [c["property_id"] for c in checks])
    print("pending:", [n["property_id"] for n in na])


if __name__ == "__main__":
    main()
